/-
C29: concrete instances used by the non-vacuity examples of Props/C29.lean.

 * `uPair` / `uList`: globally injective toy encoders (unary length prefix) standing in for canonical msgpack;
 * `exG`: group environment with `H = id` (collision-free on everything);
 * `hX`: a 32-byte hash that is never zero, for which the digests of the two one-leaf trees used in the Merkle example have a
   single pre-image (the hypotheses of C37 soundness), and `exB`, the block environment built on it.
-/
import AlgoVerif.Lemmas.CommitmentsMerkle
namespace Lemmas.Commitments.Ex
open Model.Commitments Lemmas.Commitments
open Model.MerkleArray (zeros)

/-- unary length prefix -/
def un (n : Nat) (x : Bytes) : Bytes := List.replicate n 1 ++ 0 :: x

theorem un_inj : ∀ (n m : Nat) (x y : Bytes), un n x = un m y → n = m ∧ x = y
  | 0, 0, x, y, h => by simpa [un] using h
  | 0, m + 1, x, y, h => by simp [un, List.replicate_succ] at h
  | n + 1, 0, x, y, h => by simp [un, List.replicate_succ] at h
  | n + 1, m + 1, x, y, h => by
    simp only [un, List.replicate_succ, List.cons_append, List.cons.injEq, true_and] at h
    obtain ⟨h1, h2⟩ := un_inj n m x y h
    exact ⟨by omega, h2⟩

/-- a pair of byte strings -/
def uPair (a b : Bytes) : Bytes := un a.length (a ++ b)

theorem uPair_inj (a b a' b' : Bytes) (h : uPair a b = uPair a' b') : a = a' ∧ b = b' := by
  obtain ⟨hl, hab⟩ := un_inj _ _ _ _ h
  exact List.append_inj hab hl

/-- a list of byte strings -/
def uList : List Bytes → Bytes
  | [] => []
  | a :: r => un a.length (a ++ uList r)

theorem uList_inj : ∀ (a b : List Bytes), uList a = uList b → a = b
  | [], [], _ => rfl
  | [], y :: s, h => by simp [uList, un] at h
  | x :: r, [], h => by simp [uList, un] at h
  | x :: r, y :: s, h => by
    obtain ⟨hl, hab⟩ := un_inj _ _ _ _ h
    obtain ⟨h1, h2⟩ := List.append_inj hab hl
    rw [h1, uList_inj r s h2]

def encTxEx (t : Tx Bytes) : Bytes := uPair t.group t.body

theorem encTxEx_inj (a b : Tx Bytes) (h : encTxEx a = encTxEx b) : a = b := by
  obtain ⟨h1, h2⟩ := uPair_inj _ _ _ _ h
  cases a; cases b; simp only at h1 h2; subst h1; subst h2; rfl

/-- group environment of the examples: identity "hash" (no collisions at all), unary-prefixed encoders -/
def exG : GEnv Bytes := ⟨fun x => x, encTxEx, uList⟩

theorem exG_cf (S : Bytes → Prop) : CollisionFreeOn exG.H S := fun _ _ _ _ h => h

/-- two members with bodies `a`, `b`, both carrying `G` -/
def pair (G a b : Bytes) : List (Tx Bytes) := [⟨G, a⟩, ⟨G, b⟩]

/-- the id of the two-member group (independent of the Group fields) -/
def gid (a b : Bytes) : Bytes := groupId exG (pair [] a b)

theorem groupId_pair (G a b : Bytes) : groupId exG (pair G a b) = gid a b := rfl

theorem gid_ne_zero (a b : Bytes) : gid a b ≠ zeroDigest := by
  intro h
  have := congrArg List.head? h
  simp [gid, groupId, groupHash, tagTG, zeroDigest, zeros, exG, List.replicate_succ] at this

/-! a 32-byte hash for the Merkle example -/

def hS (x : Bytes) : Bytes :=
  if x.length ≤ 31 then 1 :: (x ++ zeros (31 - x.length)) else List.replicate 32 255

def leafA : Bytes := tagTL ++ (hS (tagTX ++ [1]) ++ hS (tagSTIB ++ [1]))
def leafB : Bytes := tagTL ++ (hS (tagTX ++ [2]) ++ hS (tagSTIB ++ [2]))

def hX (x : Bytes) : Bytes :=
  if x = leafA then List.replicate 32 254 else if x = leafB then List.replicate 32 253 else hS x

theorem hS_len (x : Bytes) : (hS x).length = 32 := by
  unfold hS
  split
  · simp [zeros]; omega
  · simp

theorem hX_len (x : Bytes) : (hX x).length = 32 := by
  unfold hX
  split
  · simp
  · split
    · simp
    · exact hS_len x

theorem hS_head (x : Bytes) : (hS x).head? = some 1 ∨ (hS x).head? = some 255 := by
  unfold hS
  split
  · left; rfl
  · right; rfl

theorem hX_nz (x : Bytes) : hX x ≠ zeros 32 := by
  intro h
  have h0 := congrArg List.head? h
  unfold hX at h0
  split at h0
  · simp [zeros, List.replicate_succ] at h0
  · split at h0
    · simp [zeros, List.replicate_succ] at h0
    · rcases hS_head x with h1 | h1 <;> rw [h1] at h0 <;> simp [zeros, List.replicate_succ] at h0

/-- the digest of `leafA` has a single pre-image -/
theorem hX_254 (x : Bytes) (h : hX x = List.replicate 32 254) : x = leafA := by
  unfold hX at h
  split at h
  · assumption
  · split at h
    · have := congrArg List.head? h; simp [List.replicate_succ] at this
    · have h0 := congrArg List.head? h
      rcases hS_head x with h1 | h1 <;> rw [h1] at h0 <;> simp [List.replicate_succ] at h0

theorem hX_253 (x : Bytes) (h : hX x = List.replicate 32 253) : x = leafB := by
  unfold hX at h
  split at h
  · have := congrArg List.head? h; simp [List.replicate_succ] at this
  · split at h
    · assumption
    · have h0 := congrArg List.head? h
      rcases hS_head x with h1 | h1 <;> rw [h1] at h0 <;> simp [List.replicate_succ] at h0

/-- block environment of the examples: stibs are their own encoding, the decoded transaction has the stib bytes as body -/
def exB : BEnv Bytes Bytes :=
  { H := hX, H256 := hX, H512 := fun x => hX x ++ hX x, encTx := fun t => t.body, encStib := fun s => s,
    encPayset := uList, decodeTx := fun s => some ⟨zeroDigest, s⟩ }

theorem hX_short (x : Bytes) (h : x.length ≤ 31) : hX x = hS x := by
  unfold hX
  have ha : x ≠ leafA := by
    intro e; rw [e] at h; simp [leafA, tagTL, hS_len] at h
  have hb : x ≠ leafB := by
    intro e; rw [e] at h; simp [leafB, tagTL, hS_len] at h
  simp [ha, hb]

theorem leafNative_A : leafNative exB ([1], ⟨zeroDigest, [1]⟩) = leafA := by
  simp only [leafNative, exB, leafA]
  rw [hX_short _ (by simp [tagTX]), hX_short _ (by simp [tagSTIB])]

theorem leafNative_B : leafNative exB ([2], ⟨zeroDigest, [2]⟩) = leafB := by
  simp only [leafNative, exB, leafB]
  rw [hX_short _ (by simp [tagTX]), hX_short _ (by simp [tagSTIB])]

end Lemmas.Commitments.Ex
