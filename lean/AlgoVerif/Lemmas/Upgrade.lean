import AlgoVerif.Spec.Upgrade
/-!
Helper lemmas for property C26: decomposition of `applyUpgradeVote` into its four stages, the history
invariant `Core`, and the two stage lemmas (`stageA`: proposal + approval, `stageB`: deadline + switch)
that carry it across one accepted block.
-/
namespace AlgoVerif.Lemmas.Upgrade
open AlgoVerif.Model.Upgrade AlgoVerif.Spec.Upgrade

theorem u64_of_lt {n : Nat} (h : n < 18446744073709551616) : u64 n = n := by
  unfold u64; exact Nat.mod_eq_of_lt h

/-! ### stage decomposition -/

theorem apply_ok {cfg : Config} {s : State} {r : Nat} {v : Vote} {s' : State}
    (h : applyUpgradeVote cfg s r v = .ok s') :
    ∃ p s1 s2, cfg s.cur = some p ∧ stagePropose p s r v = .ok s1 ∧ stageApprove s1 r v = .ok s2 ∧
      s' = stageSwitch (stageClear p s2 r) r := by
  unfold applyUpgradeVote at h
  split at h
  · cases h
  · rename_i p hp
    split at h
    · cases h
    · rename_i s1 h1
      split at h
      · cases h
      · rename_i s2 h2
        refine ⟨p, s1, s2, hp, h1, h2, ?_⟩
        cases h; rfl

theorem apply_of_stages {cfg : Config} {s : State} {r : Nat} {v : Vote} {p : Params} {s1 s2 : State}
    (hp : cfg s.cur = some p) (h1 : stagePropose p s r v = .ok s1) (h2 : stageApprove s1 r v = .ok s2) :
    applyUpgradeVote cfg s r v = .ok (stageSwitch (stageClear p s2 r) r) := by
  unfold applyUpgradeVote
  simp only [hp, h1, h2]

theorem stagePropose_ok {p : Params} {s : State} {r : Nat} {v : Vote} {s1 : State}
    (h : stagePropose p s r v = .ok s1) :
    (v.propose = "" ∧ v.delay = 0 ∧ s1 = s) ∨
    (v.propose ≠ "" ∧ s.next = "" ∧ (v.propose.utf8ByteSize : Int) ≤ p.maxVerLen ∧
      p.minWait ≤ v.delay ∧ v.delay ≤ p.maxWait ∧
      s1 = { s with next := v.propose, approvals := 0, voteBefore := u64 (r + p.voteRounds),
                    switchOn := u64 (r + p.voteRounds + effDelay p v.delay) }) := by
  unfold stagePropose at h
  by_cases hp : v.propose = ""
  · left
    rw [if_neg (by simpa using hp)] at h
    by_cases hd : v.delay = 0
    · rw [if_neg (by simpa using hd)] at h
      cases h; exact ⟨hp, hd, rfl⟩
    · rw [if_pos hd] at h; cases h
  · right
    rw [if_pos hp] at h
    by_cases hn : s.next = ""
    · rw [if_neg (by simpa using hn)] at h
      by_cases hl : (v.propose.utf8ByteSize : Int) > p.maxVerLen
      · rw [if_pos hl] at h; cases h
      · rw [if_neg hl] at h
        by_cases hr : v.delay > p.maxWait ∨ v.delay < p.minWait
        · rw [if_pos hr] at h; cases h
        · rw [if_neg hr] at h
          cases h
          refine ⟨hp, hn, by omega, by omega, by omega, rfl⟩
    · rw [if_pos hn] at h; cases h

theorem stageApprove_ok {s1 : State} {r : Nat} {v : Vote} {s2 : State}
    (h : stageApprove s1 r v = .ok s2) :
    (v.approve = false ∧ s2 = s1) ∨
    (v.approve = true ∧ s1.next ≠ "" ∧ r < s1.voteBefore ∧
      s2 = { s1 with approvals := u64 (s1.approvals + 1) }) := by
  unfold stageApprove at h
  cases ha : v.approve
  · left
    rw [ha] at h
    simp only [Bool.false_eq_true, if_false] at h
    cases h; exact ⟨rfl, rfl⟩
  · right
    rw [ha] at h
    simp only [if_true] at h
    by_cases hn : s1.next = ""
    · rw [if_pos hn] at h; cases h
    · rw [if_neg hn] at h
      by_cases hr : r ≥ s1.voteBefore
      · rw [if_pos hr] at h; cases h
      · rw [if_neg hr] at h
        cases h
        exact ⟨rfl, hn, by omega, rfl⟩

/-! ### counting approvals in a trace -/

theorem approvalsIn_le_length (tr : List Step) (lo hi : Nat) : approvalsIn tr lo hi ≤ tr.length := by
  induction tr with
  | nil => simp [approvalsIn]
  | cons e tr ih =>
    simp only [approvalsIn, List.length_cons]
    split <;> omega

theorem approvalsIn_zero_of_lt (tr : List Step) (lo hi : Nat) (h : ∀ e ∈ tr, e.r < lo) :
    approvalsIn tr lo hi = 0 := by
  induction tr with
  | nil => simp [approvalsIn]
  | cons e tr ih =>
    have he := h e (List.mem_cons_self)
    have := ih (fun x hx => h x (List.mem_cons_of_mem _ hx))
    simp only [approvalsIn, this]
    rw [if_neg (by omega)]

/-! ### the history invariant -/

/-- proposal step `pe` (made under parameters `p`) is the one recorded in state `s` and still running at round `r` -/
structure Live (tr : List Step) (s : State) (r : Nat) (pe : Step) (p : Params) : Prop where
  next_eq : s.next = pe.v.propose
  cur_eq  : s.cur = pe.pre.cur
  vb_eq   : s.voteBefore = pe.r + p.voteRounds
  so_eq   : s.switchOn = pe.r + p.voteRounds + effDelay p pe.v.delay
  appr_eq : s.approvals = approvalsIn tr pe.r (pe.r + p.voteRounds)
  running : r < pe.r + p.voteRounds ∨
            (p.threshold ≤ approvalsIn tr pe.r (pe.r + p.voteRounds) ∧
              r < pe.r + p.voteRounds + effDelay p pe.v.delay)

/-- proposal step `pe` is over by round `r`: its window closed, and if it was approved its switch round passed -/
def Resolved (tr : List Step) (r : Nat) (pe : Step) (p : Params) : Prop :=
  pe.r + p.voteRounds ≤ r ∧
  (p.threshold ≤ approvalsIn tr pe.r (pe.r + p.voteRounds) → pe.r + p.voteRounds + effDelay p pe.v.delay ≤ r)

/-- invariant linking the state `s` after round `r` to the accepted steps `tr` (newest first) -/
structure Core (cfg : Config) (tr : List Step) (s : State) (r : Nat) : Prop where
  quiet   : s.next = "" → s.approvals = 0 ∧ s.voteBefore = 0 ∧ s.switchOn = 0
  pending : s.next ≠ "" → ∃ pe ∈ tr, ∃ p, pe.v.propose ≠ "" ∧ cfg pe.pre.cur = some p ∧ Live tr s r pe p
  props   : ∀ pe ∈ tr, pe.v.propose ≠ "" → ∃ p, cfg pe.pre.cur = some p ∧ (Live tr s r pe p ∨ Resolved tr r pe p)

theorem noWrap_mono {cfg : Config} {R R' : Nat} (h : NoWrap cfg R) (hle : R' ≤ R) : NoWrap cfg R' := by
  refine ⟨by have := h.1; omega, fun n p hp => ?_⟩
  have := h.2 n p hp
  omega

theorem effDelay_le {p : Params} {d : Nat} (h : d ≤ p.maxWait) :
    effDelay p d ≤ p.maxWait ∨ effDelay p d = p.defaultWait := by
  unfold effDelay; split
  · right; rfl
  · left; exact h

/-- Stage A: the proposal and approval parts of an accepted vote at round `r+1`, recorded as step `e`. -/
theorem stageA {cfg : Config} {tr : List Step} {s : State} {r : Nat} {v : Vote} {p : Params} {s1 s2 : State}
    (e : Step) (her : e.r = r + 1) (hev : e.v = v) (hepre : e.pre = s)
    (hrounds : ∀ x ∈ tr, x.r ≤ r) (hlen : tr.length ≤ r)
    (hnw : NoWrap cfg (r + 1))
    (hc : Core cfg tr s r) (hp : cfg s.cur = some p)
    (h1 : stagePropose p s (r + 1) v = .ok s1) (h2 : stageApprove s1 (r + 1) v = .ok s2) :
    Core cfg (e :: tr) s2 r ∧ s2.cur = s.cur ∧
    (v.propose ≠ "" → s.next = "" ∧ ∀ pe ∈ tr, pe.v.propose ≠ "" → ∃ q, cfg pe.pre.cur = some q ∧ Resolved tr r pe q) := by
  have hW := hnw.2 _ p hp
  have hR := hnw.1
  -- counting in the extended trace
  have hcnt : ∀ lo hi, approvalsIn (e :: tr) lo hi =
      (if v.approve = true ∧ lo ≤ r + 1 ∧ r + 1 < hi then 1 else 0) + approvalsIn tr lo hi := by
    intro lo hi; simp only [approvalsIn, her, hev]
  rcases stagePropose_ok h1 with ⟨hvp, _hvd, hs1⟩ | ⟨hvp, hsn, _hlen, hmin, hmax, hs1⟩
  · -- no proposal in this block
    subst s1
    rcases stageApprove_ok h2 with ⟨hva, hs2⟩ | ⟨hva, hs1n, hlt, hs2⟩
    · -- no approval either: state unchanged, counts unchanged
      subst s2
      have hcnt' : ∀ lo hi, approvalsIn (e :: tr) lo hi = approvalsIn tr lo hi := by
        intro lo hi; rw [hcnt, hva]; simp
      refine ⟨⟨hc.quiet, ?_, ?_⟩, rfl, fun h => absurd hvp h⟩
      · intro hn
        obtain ⟨pe, hpe, q, hprop, hq, hl⟩ := hc.pending hn
        exact ⟨pe, List.mem_cons_of_mem _ hpe, q, hprop, hq,
          ⟨hl.next_eq, hl.cur_eq, hl.vb_eq, hl.so_eq, by rw [hcnt']; exact hl.appr_eq, by rw [hcnt']; exact hl.running⟩⟩
      · intro pe hpe hprop
        rcases List.mem_cons.mp hpe with rfl | hpe
        · exact absurd (hev ▸ hvp) hprop
        · obtain ⟨q, hq, hl | hres⟩ := hc.props pe hpe hprop
          · exact ⟨q, hq, Or.inl ⟨hl.next_eq, hl.cur_eq, hl.vb_eq, hl.so_eq, by rw [hcnt']; exact hl.appr_eq,
              by rw [hcnt']; exact hl.running⟩⟩
          · exact ⟨q, hq, Or.inr (by unfold Resolved at hres ⊢; rw [hcnt']; exact hres)⟩
    · -- approval of the pending proposal, before its deadline
      -- the recorded count cannot wrap: it is bounded by the trace length
      obtain ⟨pe0, hpe0, q0, _, _, hl0⟩ := hc.pending hs1n
      have happr : s.approvals ≤ r := by
        rw [hl0.appr_eq]; exact Nat.le_trans (approvalsIn_le_length _ _ _) hlen
      have hs2' : s2 = { s with approvals := s.approvals + 1 } := by
        rw [hs2, u64_of_lt (by omega)]
      subst hs2'
      refine ⟨⟨?_, ?_, ?_⟩, rfl, fun h => absurd hvp h⟩
      · intro hn; exact absurd hn hs1n
      · intro _
        obtain ⟨pe, hpe, q, hprop, hq, hl⟩ := hc.pending hs1n
        refine ⟨pe, List.mem_cons_of_mem _ hpe, q, hprop, hq, ?_⟩
        have hvb := hl.vb_eq
        have hper := hrounds pe hpe
        have hc1 : approvalsIn (e :: tr) pe.r (pe.r + q.voteRounds) = approvalsIn tr pe.r (pe.r + q.voteRounds) + 1 := by
          rw [hcnt, if_pos ⟨hva, by omega, by omega⟩]; omega
        exact ⟨hl.next_eq, hl.cur_eq, hl.vb_eq, hl.so_eq, by rw [hc1]; simp only []; rw [hl.appr_eq],
          Or.inl (by omega)⟩
      · intro pe hpe hprop
        rcases List.mem_cons.mp hpe with rfl | hpe
        · exact absurd (hev ▸ hvp) hprop
        · obtain ⟨q, hq, hl | hres⟩ := hc.props pe hpe hprop
          · have hvb := hl.vb_eq
            have hper := hrounds pe hpe
            have hc1 : approvalsIn (e :: tr) pe.r (pe.r + q.voteRounds) = approvalsIn tr pe.r (pe.r + q.voteRounds) + 1 := by
              rw [hcnt, if_pos ⟨hva, by omega, by omega⟩]; omega
            exact ⟨q, hq, Or.inl ⟨hl.next_eq, hl.cur_eq, hl.vb_eq, hl.so_eq, by rw [hc1]; simp only []; rw [hl.appr_eq],
              Or.inl (by omega)⟩⟩
          · have hc0 : approvalsIn (e :: tr) pe.r (pe.r + q.voteRounds) = approvalsIn tr pe.r (pe.r + q.voteRounds) := by
              rw [hcnt, if_neg (by have := hres.1; omega)]; omega
            exact ⟨q, hq, Or.inr (by unfold Resolved at hres ⊢; rw [hc0]; exact hres)⟩
  · -- a proposal is made in this block; nothing was pending
    have hd : effDelay p v.delay ≤ p.maxWait ∨ effDelay p v.delay = p.defaultWait := effDelay_le hmax
    have hvb : u64 (r + 1 + p.voteRounds) = r + 1 + p.voteRounds := u64_of_lt (by omega)
    have hso : u64 (r + 1 + p.voteRounds + effDelay p v.delay) = r + 1 + p.voteRounds + effDelay p v.delay :=
      u64_of_lt (by omega)
    rw [hvb, hso] at hs1
    -- every earlier proposal is resolved
    have hold : ∀ pe ∈ tr, pe.v.propose ≠ "" → ∃ q, cfg pe.pre.cur = some q ∧ Resolved tr r pe q := by
      intro pe hpe hprop
      obtain ⟨q, hq, hl | hres⟩ := hc.props pe hpe hprop
      · exact absurd (hl.next_eq.symm.trans hsn) hprop
      · exact ⟨q, hq, hres⟩
    have hold' : ∀ pe ∈ tr, pe.v.propose ≠ "" → ∃ q, cfg pe.pre.cur = some q ∧ Resolved (e :: tr) r pe q := by
      intro pe hpe hprop
      obtain ⟨q, hq, hres⟩ := hold pe hpe hprop
      have hc0 : approvalsIn (e :: tr) pe.r (pe.r + q.voteRounds) = approvalsIn tr pe.r (pe.r + q.voteRounds) := by
        rw [hcnt, if_neg (by have := hres.1; omega)]; omega
      exact ⟨q, hq, by unfold Resolved at hres ⊢; rw [hc0]; exact hres⟩
    have hzero : approvalsIn tr (r + 1) (r + 1 + p.voteRounds) = 0 :=
      approvalsIn_zero_of_lt _ _ _ (fun x hx => by have := hrounds x hx; omega)
    have hepre' : cfg e.pre.cur = some p := by rw [hepre]; exact hp
    have heprop : e.v.propose ≠ "" := by rw [hev]; exact hvp
    rcases stageApprove_ok h2 with ⟨hva, hs2⟩ | ⟨hva, _hs1n, hlt, hs2⟩
    · -- proposal without approval
      have hs2' : s2 = { s with next := v.propose, approvals := 0, voteBefore := r + 1 + p.voteRounds, switchOn := r + 1 + p.voteRounds + effDelay p v.delay } := by rw [hs2, hs1]
      have hlive : Live (e :: tr) s2 r e p := by
        refine ⟨by rw [hs2', hev], by rw [hs2', hepre], by rw [hs2', her], by rw [hs2', her, hev], ?_, Or.inl (by omega)⟩
        rw [her, hcnt, hzero, hva, hs2']; simp
      refine ⟨⟨fun hn => absurd (by rw [hs2'] at hn; exact hn) hvp,
          fun _ => ⟨e, List.mem_cons_self, p, heprop, hepre', hlive⟩, ?_⟩, by rw [hs2'],
        fun _ => ⟨hsn, hold⟩⟩
      intro pe hpe hprop
      rcases List.mem_cons.mp hpe with rfl | hpe
      · exact ⟨p, hepre', Or.inl hlive⟩
      · obtain ⟨q, hq, hres⟩ := hold' pe hpe hprop
        exact ⟨q, hq, Or.inr hres⟩
    · -- proposal approved by its own proposer (needs a non-empty window)
      have hs2' : s2 = { s with next := v.propose, approvals := 1, voteBefore := r + 1 + p.voteRounds, switchOn := r + 1 + p.voteRounds + effDelay p v.delay } := by
        rw [hs2, hs1]; simp only [u64_of_lt (show 0 + 1 < 18446744073709551616 by omega)]
      have hlt' : r + 1 < r + 1 + p.voteRounds := by rw [hs1] at hlt; exact hlt
      have hlive : Live (e :: tr) s2 r e p := by
        refine ⟨by rw [hs2', hev], by rw [hs2', hepre], by rw [hs2', her], by rw [hs2', her, hev], ?_, Or.inl (by omega)⟩
        rw [her, hcnt, hzero, if_pos ⟨hva, by omega, by omega⟩, hs2']
      refine ⟨⟨fun hn => absurd (by rw [hs2'] at hn; exact hn) hvp,
          fun _ => ⟨e, List.mem_cons_self, p, heprop, hepre', hlive⟩, ?_⟩, by rw [hs2'],
        fun _ => ⟨hsn, hold⟩⟩
      intro pe hpe hprop
      rcases List.mem_cons.mp hpe with rfl | hpe
      · exact ⟨p, hepre', Or.inl hlive⟩
      · obtain ⟨q, hq, hres⟩ := hold' pe hpe hprop
        exact ⟨q, hq, Or.inr hres⟩

/-- what stage B (deadline + switch at round `r+1`) does to a proposal that is live in `s2` -/
theorem stageB_live {tr : List Step} {s2 : State} {r : Nat} {pe : Step} {p : Params}
    (hl : Live tr s2 r pe p) :
    let s' := stageSwitch (stageClear p s2 (r + 1)) (r + 1)
    let cnt := approvalsIn tr pe.r (pe.r + p.voteRounds)
    -- failed at the deadline: cleared, no switch
    ((r + 1 = pe.r + p.voteRounds ∧ cnt < p.threshold) → s' = clearPending s2) ∧
    -- otherwise, at the switch round: switched
    ((¬ (r + 1 = pe.r + p.voteRounds ∧ cnt < p.threshold) ∧ r + 1 = pe.r + p.voteRounds + effDelay p pe.v.delay) →
        s' = clearPending { s2 with cur := pe.v.propose } ∧ p.threshold ≤ cnt) ∧
    -- otherwise: nothing happens and the proposal is still live
    ((¬ (r + 1 = pe.r + p.voteRounds ∧ cnt < p.threshold) ∧ r + 1 ≠ pe.r + p.voteRounds + effDelay p pe.v.delay) →
        s' = s2 ∧ Live tr s2 (r + 1) pe p) := by
  intro s' cnt
  have hvb := hl.vb_eq; have hso := hl.so_eq; have hap := hl.appr_eq; have hrun := hl.running
  refine ⟨?_, ?_, ?_⟩
  · rintro ⟨h1, h2⟩
    show stageSwitch (stageClear p s2 (r + 1)) (r + 1) = _
    unfold stageClear
    rw [if_pos ⟨by omega, by rw [hap]; exact h2⟩]
    unfold stageSwitch
    rw [if_neg (by simp [clearPending])]
  · rintro ⟨h1, h2⟩
    have hnc : ¬ (r + 1 = s2.voteBefore ∧ s2.approvals < p.threshold) := by
      rw [hvb, hap]; exact h1
    refine ⟨?_, ?_⟩
    · show stageSwitch (stageClear p s2 (r + 1)) (r + 1) = _
      unfold stageClear
      rw [if_neg hnc]
      unfold stageSwitch
      rw [if_pos (by omega), hl.next_eq]
    · rcases hrun with h | ⟨h, _⟩
      · have : r + 1 = pe.r + p.voteRounds := by omega
        have := fun hc => h1 ⟨this, hc⟩
        show p.threshold ≤ approvalsIn tr pe.r (pe.r + p.voteRounds)
        omega
      · exact h
  · rintro ⟨h1, h2⟩
    have hnc : ¬ (r + 1 = s2.voteBefore ∧ s2.approvals < p.threshold) := by
      rw [hvb, hap]; exact h1
    have hs : stageSwitch (stageClear p s2 (r + 1)) (r + 1) = s2 := by
      unfold stageClear
      rw [if_neg hnc]
      unfold stageSwitch
      rw [if_neg (by omega)]
    refine ⟨hs, ⟨hl.next_eq, hl.cur_eq, hvb, hso, hap, ?_⟩⟩
    rcases hrun with h | ⟨h, h'⟩
    · by_cases hlt : r + 1 < pe.r + p.voteRounds
      · exact Or.inl hlt
      · have heq : r + 1 = pe.r + p.voteRounds := by omega
        have hthr : p.threshold ≤ approvalsIn tr pe.r (pe.r + p.voteRounds) := by
          have := fun hc => h1 ⟨heq, hc⟩
          show p.threshold ≤ approvalsIn tr pe.r (pe.r + p.voteRounds)
          omega
        exact Or.inr ⟨hthr, by omega⟩
    · exact Or.inr ⟨h, by omega⟩

/-- Stage B: deadline processing and switch at round `r+1`. -/
theorem stageB {cfg : Config} {tr : List Step} {s2 : State} {r : Nat} {p : Params}
    (hc : Core cfg tr s2 r) (hp : cfg s2.cur = some p)
    (s' : State) (hs' : s' = stageSwitch (stageClear p s2 (r + 1)) (r + 1)) :
    Core cfg tr s' (r + 1) ∧
    (s'.cur ≠ s2.cur → Justifies cfg tr s2.cur s'.cur (r + 1)) ∧
    (∀ pe ∈ tr, pe.v.propose ≠ "" → ∀ q, cfg pe.pre.cur = some q →
        (r + 1 = pe.r + q.voteRounds → approvalsIn tr pe.r (pe.r + q.voteRounds) < q.threshold →
            s'.next = "" ∧ s'.cur = s2.cur) ∧
        (r + 1 = pe.r + q.voteRounds + effDelay q pe.v.delay → q.threshold ≤ approvalsIn tr pe.r (pe.r + q.voteRounds) →
            s'.cur = pe.v.propose ∧ s2.cur = pe.pre.cur)) := by
  by_cases hn : s2.next = ""
  · -- nothing pending: stage B is the identity
    obtain ⟨_, hvb0, hso0⟩ := hc.quiet hn
    have hs : s' = s2 := by
      rw [hs']
      unfold stageClear
      rw [if_neg (by omega)]
      unfold stageSwitch
      rw [if_neg (by omega)]
    have hres : ∀ pe ∈ tr, pe.v.propose ≠ "" → ∃ q, cfg pe.pre.cur = some q ∧ Resolved tr r pe q := by
      intro pe hpe hprop
      obtain ⟨q, hq, hl | hres⟩ := hc.props pe hpe hprop
      · exact absurd (hl.next_eq.symm.trans hn) hprop
      · exact ⟨q, hq, hres⟩
    subst hs
    refine ⟨⟨hc.quiet, fun h => absurd hn h, ?_⟩, fun h => absurd rfl h, ?_⟩
    · intro pe hpe hprop
      obtain ⟨q, hq, hr⟩ := hres pe hpe hprop
      exact ⟨q, hq, Or.inr ⟨by have := hr.1; omega, fun h => by have := hr.2 h; omega⟩⟩
    · intro pe hpe hprop q hq
      obtain ⟨q', hq', hr⟩ := hres pe hpe hprop
      have : q' = q := by rw [hq] at hq'; cases hq'; rfl
      subst this
      refine ⟨fun h _ => ?_, fun h h2 => ?_⟩
      · have := hr.1; omega
      · have := hr.2 h2; omega
  · -- a proposal `pe0` is live in s2
    obtain ⟨pe0, hpe0, p0, hprop0, hq0, hl0⟩ := hc.pending hn
    have hpp : p0 = p := by
      rw [← hl0.cur_eq, hp] at hq0; cases hq0; rfl
    subst hpp
    obtain ⟨hB1, hB2, hB3⟩ := stageB_live hl0
    -- any live proposal behaves like pe0 (same recorded numbers)
    by_cases hfail : r + 1 = pe0.r + p0.voteRounds ∧ approvalsIn tr pe0.r (pe0.r + p0.voteRounds) < p0.threshold
    · -- failed at its deadline
      have hs : s' = clearPending s2 := hs'.trans (hB1 hfail)
      clear hs'; subst hs
      refine ⟨⟨fun _ => ⟨rfl, rfl, rfl⟩, fun h => absurd rfl h, ?_⟩, fun h => absurd rfl h, ?_⟩
      · intro pe hpe hprop
        obtain ⟨q, hq, hl | hres⟩ := hc.props pe hpe hprop
        · refine ⟨q, hq, Or.inr ⟨?_, ?_⟩⟩
          · have := hl.vb_eq; have := hl0.vb_eq; omega
          · intro hthr
            have h1 := hl.appr_eq; have h2 := hl0.appr_eq
            have hqq : q = p0 := by
              have := hl.cur_eq; rw [← this, hp] at hq; cases hq; rfl
            subst hqq
            omega
        · exact ⟨q, hq, Or.inr ⟨by have := hres.1; omega, fun h => by have := hres.2 h; omega⟩⟩
      · intro pe hpe hprop q hq
        refine ⟨fun _ _ => ⟨rfl, rfl⟩, fun h h2 => ?_⟩
        obtain ⟨q', hq', hl | hres⟩ := hc.props pe hpe hprop
        · have hqq : q' = q := by rw [hq] at hq'; cases hq'; rfl
          subst hqq
          have hqq : q' = p0 := by
            have := hl.cur_eq; rw [← this, hp] at hq; cases hq; rfl
          subst hqq
          have h1 := hl.appr_eq; have h2' := hl0.appr_eq
          omega
        · have hqq : q' = q := by rw [hq] at hq'; cases hq'; rfl
          subst hqq
          have := hres.2 h2; omega
    · by_cases hsw : r + 1 = pe0.r + p0.voteRounds + effDelay p0 pe0.v.delay
      · -- switch round of the approved proposal
        obtain ⟨hs, hthr⟩ := hB2 ⟨hfail, hsw⟩
        have hs := hs'.trans hs
        clear hs'; subst hs
        refine ⟨⟨fun _ => ⟨rfl, rfl, rfl⟩, fun h => absurd rfl h, ?_⟩, ?_, ?_⟩
        · intro pe hpe hprop
          obtain ⟨q, hq, hl | hres⟩ := hc.props pe hpe hprop
          · refine ⟨q, hq, Or.inr ⟨?_, ?_⟩⟩
            · have := hl.vb_eq; have := hl0.vb_eq; omega
            · intro _
              have := hl.so_eq; have := hl0.so_eq; omega
          · exact ⟨q, hq, Or.inr ⟨by have := hres.1; omega, fun h => by have := hres.2 h; omega⟩⟩
        · intro _
          exact ⟨pe0, hpe0, p0, hprop0, rfl, hl0.cur_eq.symm, hp, by omega, hsw, hthr⟩
        · intro pe hpe hprop q hq
          obtain ⟨q', hq', hl | hres⟩ := hc.props pe hpe hprop
          · have hqq : q' = q := by rw [hq] at hq'; cases hq'; rfl
            subst hqq
            have hqq : q' = p0 := by
              have := hl.cur_eq; rw [← this, hp] at hq; cases hq; rfl
            subst hqq
            refine ⟨fun h h2 => ?_, fun _ _ => ?_⟩
            · have := hl.vb_eq; have := hl0.vb_eq
              have h1 := hl.appr_eq; have h2' := hl0.appr_eq
              omega
            · refine ⟨?_, hl.cur_eq⟩
              show pe0.v.propose = pe.v.propose
              rw [← hl0.next_eq, hl.next_eq]
          · have hqq : q' = q := by rw [hq] at hq'; cases hq'; rfl
            subst hqq
            refine ⟨fun h _ => ?_, fun h h2 => ?_⟩
            · have := hres.1; omega
            · have := hres.2 h2; omega
      · -- nothing happens in this round
        obtain ⟨hs, hl1⟩ := hB3 ⟨hfail, hsw⟩
        have hs := hs'.trans hs
        clear hs'; subst hs
        refine ⟨⟨hc.quiet, fun _ => ⟨pe0, hpe0, p0, hprop0, hq0, hl1⟩, ?_⟩, fun h => absurd rfl h, ?_⟩
        · intro pe hpe hprop
          obtain ⟨q, hq, hl | hres⟩ := hc.props pe hpe hprop
          · have hqq : q = p0 := by
              have := hl.cur_eq; rw [← this, hp] at hq; cases hq; rfl
            subst hqq
            have hfail' : ¬ (r + 1 = pe.r + q.voteRounds ∧ approvalsIn tr pe.r (pe.r + q.voteRounds) < q.threshold) := by
              have := hl.vb_eq; have := hl0.vb_eq
              have h1 := hl.appr_eq; have h2' := hl0.appr_eq
              omega
            have hsw' : r + 1 ≠ pe.r + q.voteRounds + effDelay q pe.v.delay := by
              have := hl.so_eq; have := hl0.so_eq; omega
            exact ⟨q, hq, Or.inl ((stageB_live hl).2.2 ⟨hfail', hsw'⟩).2⟩
          · exact ⟨q, hq, Or.inr ⟨by have := hres.1; omega, fun h => by have := hres.2 h; omega⟩⟩
        · intro pe hpe hprop q hq
          obtain ⟨q', hq', hl | hres⟩ := hc.props pe hpe hprop
          · have hqq : q' = q := by rw [hq] at hq'; cases hq'; rfl
            subst hqq
            have hqq : q' = p0 := by
              have := hl.cur_eq; rw [← this, hp] at hq; cases hq; rfl
            subst hqq
            have := hl.vb_eq; have := hl0.vb_eq
            have h1 := hl.appr_eq; have h2' := hl0.appr_eq
            have := hl.so_eq; have := hl0.so_eq
            refine ⟨fun h h2 => ?_, fun h h2 => ?_⟩
            · omega
            · omega
          · have hqq : q' = q := by rw [hq] at hq'; cases hq'; rfl
            subst hqq
            refine ⟨fun h _ => ?_, fun h h2 => ?_⟩
            · have := hres.1; omega
            · have := hres.2 h2; omega

/-! ### histories -/

/-- invariant of a chain tip -/
structure TipInv (cfg : Config) (t : Tip) : Prop where
  rounds : ∀ e ∈ t.trace, e.r ≤ t.r
  len    : t.trace.length ≤ t.r
  core   : Core cfg t.trace t.s t.r

/-- one vote: either the block is rejected (tip unchanged) or one `Good` step is appended and the invariant holds again -/
theorem feed_good {cfg : Config} {t : Tip} (v : Vote) (hi : TipInv cfg t) (hnw : NoWrap cfg (t.r + 1)) :
    Tip.feed cfg t v = t ∨
    ∃ e, (Tip.feed cfg t v).trace = e :: t.trace ∧ (Tip.feed cfg t v).r = t.r + 1 ∧
      e.r = t.r + 1 ∧ e.v = v ∧ e.pre = t.s ∧ e.post = (Tip.feed cfg t v).s ∧
      applyUpgradeVote cfg t.s (t.r + 1) v = .ok e.post ∧
      Good cfg e t.trace ∧ TipInv cfg (Tip.feed cfg t v) := by
  have hr1 : u64 (t.r + 1) = t.r + 1 := u64_of_lt hnw.1
  unfold Tip.feed
  rw [hr1]
  cases h : applyUpgradeVote cfg t.s (t.r + 1) v with
  | error _ => left; rfl
  | ok s' =>
    right
    obtain ⟨p, s1, s2, hp, h1, h2, hs'⟩ := apply_ok h
    let e : Step := ⟨t.r + 1, v, t.s, s'⟩
    obtain ⟨hcA, hcur, hone⟩ := stageA (cfg := cfg) e rfl rfl rfl hi.rounds hi.len hnw hi.core hp h1 h2
    have hp2 : cfg s2.cur = some p := by rw [hcur]; exact hp
    obtain ⟨hcB, hjust, hdl⟩ := stageB hcA hp2 s' hs'
    refine ⟨e, rfl, rfl, rfl, rfl, rfl, rfl, rfl, ⟨?_, ?_, ?_⟩, ⟨?_, ?_, hcB⟩⟩
    · -- SwitchJustified
      intro hne
      have : s'.cur ≠ s2.cur := by rw [hcur]; exact hne
      have hj := hjust this
      rw [hcur] at hj
      exact hj
    · -- OnePending
      intro hprop
      obtain ⟨hn, hall⟩ := hone hprop
      refine ⟨hn, fun pe hpe hpp => ?_⟩
      obtain ⟨q, hq, hres⟩ := hall pe hpe hpp
      exact ⟨q, hq, by have := hres.1; show pe.r + q.voteRounds < t.r + 1; omega,
        fun hthr => by have := hres.2 hthr; show _ < t.r + 1; omega⟩
    · -- DeadlineRule
      intro pe hpe hprop q hq
      obtain ⟨hd1, hd2⟩ := hdl pe hpe hprop q hq
      refine ⟨fun h1 h2 => ?_, fun h1 h2 => ?_⟩
      · have := hd1 h1 h2
        rw [hcur] at this
        exact this
      · have := hd2 h1 h2
        rw [hcur] at this
        exact this
    · intro x hx
      rcases List.mem_cons.mp hx with rfl | hx
      · exact Nat.le_refl _
      · exact Nat.le_succ_of_le (hi.rounds x hx)
    · show (e :: t.trace).length ≤ t.r + 1
      simp only [List.length_cons]
      exact Nat.succ_le_succ hi.len

/-- the invariant and `Good` for every step are carried through any vote sequence -/
theorem foldl_good {cfg : Config} (votes : List Vote) :
    ∀ (t : Tip), TipInv cfg t → AllSteps (Good cfg) t.trace → NoWrap cfg (t.r + votes.length) →
      TipInv cfg (votes.foldl (Tip.feed cfg) t) ∧ AllSteps (Good cfg) (votes.foldl (Tip.feed cfg) t).trace := by
  induction votes with
  | nil => intro t hi ha _; exact ⟨hi, ha⟩
  | cons v vs ih =>
    intro t hi ha hnw
    simp only [List.foldl_cons]
    have hnw1 : NoWrap cfg (t.r + 1) := noWrap_mono hnw (by simp only [List.length_cons]; omega)
    rcases feed_good v hi hnw1 with hsame | ⟨e, htr, hr, _, _, _, _, _, hg, hi'⟩
    · rw [hsame]
      exact ih t hi ha (noWrap_mono hnw (by simp only [List.length_cons]; omega))
    · apply ih _ hi'
      · rw [htr]; exact ⟨hg, ha⟩
      · rw [hr]; exact noWrap_mono hnw (by simp only [List.length_cons]; omega)

theorem init_inv (cfg : Config) (s0 : State) (r0 : Nat) (hq : Quiet s0) : TipInv cfg ⟨[], s0, r0⟩ :=
  { rounds := fun _ h => absurd h List.not_mem_nil
    len := Nat.zero_le _
    core := { quiet := fun _ => hq.2
              pending := fun h => absurd hq.1 h
              props := fun _ h => absurd h List.not_mem_nil } }

theorem run_good (cfg : Config) (s0 : State) (r0 : Nat) (votes : List Vote)
    (hq : Quiet s0) (hnw : NoWrap cfg (r0 + votes.length)) :
    AllSteps (Good cfg) (run cfg s0 r0 votes).trace :=
  (foldl_good votes ⟨[], s0, r0⟩ (init_inv cfg s0 r0 hq) trivial hnw).2

theorem AllSteps.imp {P Q : Step → List Step → Prop} (h : ∀ e rest, P e rest → Q e rest) :
    ∀ tr, AllSteps P tr → AllSteps Q tr
  | [], _ => trivial
  | e :: rest, ⟨hp, hr⟩ => ⟨h e rest hp, AllSteps.imp h rest hr⟩

end AlgoVerif.Lemmas.Upgrade
