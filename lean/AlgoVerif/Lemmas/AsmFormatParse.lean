/-
Lemmas for Model.AsmFormat: what the token-level front end guarantees about the programs it accepts (`ProgInv`).
-/
import AlgoVerif.Lemmas.AsmFormatProg
namespace Lemmas.AsmFormat
open Model.OpTables Model.AsmFormat

/-- in every field group the `idx` of a field is its position (FieldGroup.Names is indexed by the field byte) -/
def GroupIdx (env : Env) : Prop := ∀ g ∈ env.groups, ∀ fr ∈ g.fields, g.fields[fr.idx]? = some fr

theorem groupOf_mem {env : Env} {key : String} {g : Group} (h : groupOf env key = some g) : g ∈ env.groups := by
  unfold groupOf findGroup at h
  exact List.mem_of_find?_eq_some h

theorem fieldByName_mem {g : Group} {s : String} {fr : FieldRow} (h : fieldByName g s = some fr) : fr ∈ g.fields := by
  unfold fieldByName at h
  split at h
  · cases h
  · exact List.mem_of_find?_eq_some h

/-- a parsed immediate before label resolution -/
def PImmInv (env : Env) (v : Nat) (im : Model.OpTables.Imm) : PImm → Prop
  | .val x => ImmInv env v im x ∧ immTargets x = []
  | .lab two _ => (two = true ∧ im.kind = 2) ∨ (two = false ∧ im.kind = 8)
  | .labs ns => im.kind = 7 ∧ ns.length ≤ 255

def PImmsInv (env : Env) (v : Nat) : List Model.OpTables.Imm → List PImm → Prop
  | [], [] => True
  | im :: ims, x :: xs => PImmInv env v im x ∧ (isListKind im.kind → ims = []) ∧ PImmsInv env v ims xs
  | _, _ => False

theorem tokField_rt {env : Env} {v : Nat} {im : Model.OpTables.Imm} {t : Tok} {b : Nat} (hg : GroupIdx env)
    (h : tokField env v im t = .ok b) : FieldRT env v im b := by
  unfold tokField at h
  cases t with
  | name s =>
    cases h2 : groupOf env im.declGroup with
    | none => simp [h2] at h
    | some gd =>
      cases h3 : groupOf env im.group with
      | none => simp [h2, h3] at h
      | some ge =>
        simp only [h2, h3] at h
        cases hf : fieldByName gd s with
        | none => simp [hf] at h
        | some fr =>
          simp only [hf] at h
          cases hfe : ge.fields[fr.idx]? with
          | none => simp [hfe] at h
          | some fe =>
            simp only [hfe] at h
            split at h
            · cases h
            · rename_i hc
              simp only [Except.ok.injEq] at h
              subst h
              have hpos := hg gd (groupOf_mem h2) fr (fieldByName_mem hf)
              obtain ⟨hn, _⟩ := fieldByName_name hf
              refine ⟨gd, ge, fr, fe, h2, h3, hpos, by rw [hn]; exact hf, rfl, hfe, ?_, ?_⟩
              · intro hc'; exact hc (Or.inl hc')
              · rcases Nat.lt_or_ge v fe.version with h4 | h4
                · exact absurd (Or.inr h4) hc
                · exact h4
  | num n => simp at h
  | sint i => simp at h
  | hex nib => simp at h
  | lref k => simp at h
  | ldef k => simp at h
  | sdef s => simp at h

theorem tokByte_le {t : Tok} {b : Nat} (h : tokByte t = .ok b) : b ≤ 255 ∧ tokNat t = some b := by
  unfold tokByte at h
  cases hn : tokNat t with
  | none => simp [hn] at h
  | some n =>
    simp only [hn] at h
    split at h
    · simp only [Except.ok.injEq] at h; subst h; exact ⟨by assumption, rfl⟩
    · cases h

theorem tokInt8_le {t : Tok} {b : Nat} (h : tokInt8 t = .ok b) : b ≤ 255 := by
  unfold tokInt8 at h
  split at h
  · split at h
    · simp only [Except.ok.injEq] at h; omega
    · cases h
  · split at h
    · simp only [Except.ok.injEq] at h; omega
    · cases h
  · cases h

theorem tokNat_lt {t : Tok} {n : Nat} (h : tokNat t = some n) : n < two64 := by
  unfold tokNat at h
  split at h
  · split at h
    · simp only [Option.some.injEq] at h; subst h; assumption
    · cases h
  · split at h
    · rename_i hc
      simp only [Option.some.injEq] at h; subst h; exact hc.2
    · cases h
  · cases h

theorem tokNats_inv : ∀ (toks : List Tok) (ns : List Nat), tokNats toks = .ok ns →
    ns.length = toks.length ∧ ∀ n ∈ ns, n < two64
  | [], ns, h => by simp only [tokNats, Except.ok.injEq] at h; subst h; simp
  | t :: ts, ns, h => by
    simp only [tokNats] at h
    cases h1 : tokNat t with
    | none => simp [h1] at h
    | some n =>
      cases h2 : tokNats ts with
      | error x => simp [h1, h2] at h
      | ok r =>
        simp only [h1, h2, Except.ok.injEq] at h; subst h
        obtain ⟨a, b⟩ := tokNats_inv ts r h2
        refine ⟨by simp [a], ?_⟩
        intro m hm
        rcases List.mem_cons.mp hm with rfl | hm
        · exact tokNat_lt h1
        · exact b m hm

theorem tokBytess_inv (maxLen : Nat) : ∀ (toks : List Tok) (bs : List Bytes), tokBytess maxLen toks = .ok bs →
    bs.length = toks.length ∧ ∀ b ∈ bs, b.length ≤ maxLen
  | [], bs, h => by simp only [tokBytess, Except.ok.injEq] at h; subst h; simp
  | t :: ts, bs, h => by
    simp only [tokBytess] at h
    cases h1 : tokBytes t with
    | error x => simp [h1] at h
    | ok b =>
      simp only [h1] at h
      split at h
      · cases h
      · rename_i hlen
        cases h2 : tokBytess maxLen ts with
        | error x => simp [h2] at h
        | ok r =>
          simp only [h2, Except.ok.injEq] at h; subst h
          obtain ⟨a, c⟩ := tokBytess_inv maxLen ts r h2
          refine ⟨by simp [a], ?_⟩
          intro m hm
          rcases List.mem_cons.mp hm with rfl | hm
          · omega
          · exact c m hm

theorem tokLabels_length : ∀ (toks : List Tok) (ns : List LName), tokLabels toks = .ok ns → ns.length = toks.length
  | [], ns, h => by simp only [tokLabels, Except.ok.injEq] at h; subst h; rfl
  | t :: ts, ns, h => by
    simp only [tokLabels] at h
    cases h1 : tokLabel t with
    | error x => simp [h1] at h
    | ok n =>
      cases h2 : tokLabels ts with
      | error x => simp [h1, h2] at h
      | ok r =>
        simp only [h1, h2, Except.ok.injEq] at h; subst h
        simp [tokLabels_length ts r h2]

/-- what `parseImms` guarantees -/
theorem parseImms_inv {env : Env} {v : Nat} (hg : GroupIdx env) : ∀ (ims : List Model.OpTables.Imm) (toks : List Tok)
    (ps : List PImm), parseImms env v ims toks = .ok ps → PImmsInv env v ims ps
  | [], [], ps, h => by simp only [parseImms, Except.ok.injEq] at h; subst h; trivial
  | [], _ :: _, ps, h => by simp [parseImms] at h
  | im :: ims, toks, ps, h => by
    unfold parseImms at h
    by_cases h5 : im.kind = 5
    · rw [if_pos h5] at h
      by_cases hn : ims ≠ []
      · rw [if_pos hn] at h; cases h
      · rw [if_neg hn] at h
        have hn' : ims = [] := by simpa using hn
        subst hn'
        cases ht : tokNats toks with
        | error x => simp [ht] at h
        | ok ns =>
          simp only [ht, Except.ok.injEq] at h; subst h
          exact ⟨⟨⟨h5, (tokNats_inv toks ns ht).2⟩, rfl⟩, fun _ => rfl, trivial⟩
    · rw [if_neg h5] at h
      by_cases h6 : im.kind = 6
      · rw [if_pos h6] at h
        by_cases hn : ims ≠ []
        · rw [if_pos hn] at h; cases h
        · rw [if_neg hn] at h
          have hn' : ims = [] := by simpa using hn
          subst hn'
          cases ht : tokBytess env.maxStringSize toks with
          | error x => simp [ht] at h
          | ok bs =>
            simp only [ht, Except.ok.injEq] at h; subst h
            exact ⟨⟨⟨h6, (tokBytess_inv _ toks bs ht).2⟩, rfl⟩, fun _ => rfl, trivial⟩
      · rw [if_neg h6] at h
        by_cases h7 : im.kind = 7
        · rw [if_pos h7] at h
          by_cases hn : ims ≠ []
          · rw [if_pos hn] at h; cases h
          · rw [if_neg hn] at h
            have hn' : ims = [] := by simpa using hn
            subst hn'
            by_cases hl : 255 < toks.length
            · rw [if_pos hl] at h; cases h
            · rw [if_neg hl] at h
              cases ht : tokLabels toks with
              | error x => simp [ht] at h
              | ok ns =>
                simp only [ht, Except.ok.injEq] at h; subst h
                exact ⟨⟨h7, by rw [tokLabels_length toks ns ht]; omega⟩, fun _ => rfl, trivial⟩
        · rw [if_neg h7] at h
          have hnl : ¬ isListKind im.kind := by unfold isListKind; omega
          cases toks with
          | nil => simp at h
          | cons t ts =>
            simp only [] at h
            -- the single-token immediate
            have key : ∀ (a : PImm), PImmInv env v im a → (match parseImms env v ims ts with
                | .ok b => (Except.ok (a :: b) : Except Err (List PImm))
                | .error x => .error x) = .ok ps → PImmsInv env v (im :: ims) ps := by
              intro a ha hh
              cases hr : parseImms env v ims ts with
              | error x => simp [hr] at hh
              | ok b =>
                simp only [hr, Except.ok.injEq] at hh; subst hh
                exact ⟨ha, fun hc => absurd hc hnl, parseImms_inv hg ims ts b hr⟩
            by_cases h0 : im.kind = 0
            · simp only [if_pos h0] at h
              by_cases hgp : im.declGroup ≠ ""
              · simp only [if_pos hgp] at h
                cases hf : tokField env v im t with
                | error x => simp [hf] at h
                | ok b =>
                  simp only [hf] at h
                  exact key (.val (.byte b)) ⟨Or.inl ⟨h0, hgp, tokField_rt hg hf⟩, rfl⟩ h
              · simp only [if_neg hgp] at h
                cases hf : tokByte t with
                | error x => simp [hf] at h
                | ok b =>
                  simp only [hf] at h
                  exact key (.val (.byte b)) ⟨Or.inr (Or.inl ⟨h0, by simpa using hgp, (tokByte_le hf).1⟩), rfl⟩ h
            · simp only [if_neg h0] at h
              by_cases h1 : im.kind = 1
              · simp only [if_pos h1] at h
                by_cases hgp : im.declGroup ≠ ""
                · simp [if_pos hgp] at h
                · simp only [if_neg hgp] at h
                  cases hf : tokInt8 t with
                  | error x => simp [hf] at h
                  | ok b =>
                    simp only [hf] at h
                    exact key (.val (.byte b)) ⟨Or.inr (Or.inr ⟨h1, by simpa using hgp, tokInt8_le hf⟩), rfl⟩ h
              · simp only [if_neg h1] at h
                by_cases h28 : im.kind = 2 ∨ im.kind = 8
                · simp only [if_pos h28] at h
                  cases hf : tokLabel t with
                  | error x => simp [hf] at h
                  | ok n =>
                    simp only [hf] at h
                    refine key (.lab (decide (im.kind = 2)) n) ?_ h
                    rcases h28 with h2 | h8
                    · exact Or.inl ⟨by simp [h2], h2⟩
                    · exact Or.inr ⟨by simp [h8], h8⟩
                · simp only [if_neg h28] at h
                  by_cases h3 : im.kind = 3
                  · simp only [if_pos h3] at h
                    cases hf : tokNat t with
                    | none => simp [hf] at h
                    | some n =>
                      simp only [hf] at h
                      exact key (.val (.uint n)) ⟨⟨h3, tokNat_lt hf⟩, rfl⟩ h
                  · simp only [if_neg h3] at h
                    by_cases h4 : im.kind = 4
                    · simp only [if_pos h4] at h
                      cases hf : tokBytes t with
                      | error x => simp [hf] at h
                      | ok b =>
                        simp only [hf] at h
                        by_cases hl : env.maxStringSize < b.length
                        · simp [hl] at h
                        · simp only [if_neg hl] at h
                          exact key (.val (.bytes b)) ⟨⟨h4, by omega⟩, rfl⟩ h
                    · simp [if_neg h4] at h

/-! ### one instruction statement -/

def pBlockLen (p : PInstr) : Nat :=
  match p.imms with
  | [.val (.ints vs)] => vs.length
  | [.val (.bytess bs)] => bs.length
  | _ => 0

def PInstrInv (env : Env) (v : Nat) (p : PInstr) : Prop :=
  byName env v p.spec.name = some p.spec ∧
  shapeOK (classOf env p.spec) p.spec = true ∧
  PImmsInv env v p.spec.imms p.imms ∧
  ((classOf env p.spec = .arg ∨ classOf env p.spec = .intc ∨ classOf env p.spec = .bytec) →
    ∀ b, p.imms = [.val (.byte b)] → 4 ≤ b) ∧
  (classOf env p.spec = .substring → ∀ a b, p.imms = [.val (.byte a), .val (.byte b)] → a ≤ b)

def pNextI (env : Env) (aI : Nat) (p : PInstr) : Nat := if classOf env p.spec = .intcBlock then max aI (pBlockLen p) else aI
def pNextB (env : Env) (aB : Nat) (p : PInstr) : Nat := if classOf env p.spec = .bytecBlock then max aB (pBlockLen p) else aB

theorem parseImms_plain_one {env : Env} {v : Nat} {im : Model.OpTables.Imm} {args : List Tok} {ims : List PImm}
    (hk : im.kind = 0) (hg : im.declGroup = "") (h : parseImms env v [im] args = .ok ims) :
    ∃ a b, args = [a] ∧ tokByte a = .ok b ∧ ims = [.val (.byte b)] := by
  unfold parseImms at h
  rw [if_neg (by omega), if_neg (by omega), if_neg (by omega)] at h
  cases args with
  | nil => simp at h
  | cons a rest =>
    simp only [if_pos hk, hg, ne_eq, not_true_eq_false, if_false] at h
    cases hb : tokByte a with
    | error x => simp [hb] at h
    | ok b =>
      simp only [hb] at h
      cases rest with
      | nil =>
        simp only [parseImms, Except.ok.injEq] at h
        exact ⟨a, b, rfl, hb, h.symm⟩
      | cons _ _ => simp [parseImms] at h

theorem parseImms_plain_two {env : Env} {v : Nat} {im1 im2 : Model.OpTables.Imm} {args : List Tok} {ims : List PImm}
    (hk1 : im1.kind = 0) (hg1 : im1.declGroup = "") (hk2 : im2.kind = 0) (hg2 : im2.declGroup = "")
    (h : parseImms env v [im1, im2] args = .ok ims) :
    ∃ a b x y, args = [a, b] ∧ tokByte a = .ok x ∧ tokByte b = .ok y ∧ ims = [.val (.byte x), .val (.byte y)] := by
  unfold parseImms at h
  rw [if_neg (by omega), if_neg (by omega), if_neg (by omega)] at h
  cases args with
  | nil => simp at h
  | cons a rest =>
    simp only [if_pos hk1, hg1, ne_eq, not_true_eq_false, if_false] at h
    cases hb : tokByte a with
    | error x => simp [hb] at h
    | ok x =>
      simp only [hb] at h
      cases hr : parseImms env v [im2] rest with
      | error e => simp [hr] at h
      | ok tl =>
        simp only [hr, Except.ok.injEq] at h
        obtain ⟨b, y, e1, e2, e3⟩ := parseImms_plain_one hk2 hg2 hr
        subst e1 e3
        exact ⟨a, b, x, y, rfl, hb, e2, h.symm⟩

/-- the result of `altSpec`: the looked-up spec itself, or a plain `asmDefault` spec found by name -/
theorem altSpec_inv {env : Env} {v : Nat} {c : FnClass} {s0 s : Spec} {args args' : List Tok}
    (h : altSpec env v c s0 args = .ok (s, args')) :
    (s = s0 ∧ args' = args ∧ ((c = .arg ∨ c = .intc ∨ c = .bytec) → ∃ a n, args = [a] ∧ tokByte a = .ok n ∧ 4 ≤ n)) ∨
    (byName env v s.name = some s ∧ classOf env s = .dflt ∧ shapeOK .dflt s = true ∧
      (c = .itxn ∨ c = .gitxn ∨ c = .arg ∨ c = .intc ∨ c = .bytec)) := by
  have arity : ∀ alt, arityAlt env v alt s0 args = .ok (s, args') → (c = .itxn ∨ c = .gitxn) →
      (s = s0 ∧ args' = args ∧ ((c = .arg ∨ c = .intc ∨ c = .bytec) → ∃ a n, args = [a] ∧ tokByte a = .ok n ∧ 4 ≤ n)) ∨
      (byName env v s.name = some s ∧ classOf env s = .dflt ∧ shapeOK .dflt s = true ∧
        (c = .itxn ∨ c = .gitxn ∨ c = .arg ∨ c = .intc ∨ c = .bytec)) := by
    intro alt ha hc
    unfold arityAlt at ha
    split at ha
    · simp only [Except.ok.injEq, Prod.mk.injEq] at ha
      refine Or.inl ⟨ha.1.symm, ha.2.symm, ?_⟩
      intro hc'; rcases hc with rfl | rfl <;> rcases hc' with hc' | hc' | hc' <;> cases hc'
    · split at ha
      · cases hb : byName env v alt with
        | none => simp [hb] at ha
        | some s' =>
          simp only [hb] at ha
          split at ha
          · rename_i hcond
            simp only [Except.ok.injEq, Prod.mk.injEq] at ha
            obtain ⟨rfl, _⟩ := ha
            refine Or.inr ⟨by rw [byName_name hb]; exact hb, hcond.1, hcond.2, ?_⟩
            rcases hc with rfl | rfl <;> simp
          · cases ha
      · cases ha
  have short : shortAlt env v s0 args = .ok (s, args') → (c = .arg ∨ c = .intc ∨ c = .bytec) →
      (s = s0 ∧ args' = args ∧ ((c = .arg ∨ c = .intc ∨ c = .bytec) → ∃ a n, args = [a] ∧ tokByte a = .ok n ∧ 4 ≤ n)) ∨
      (byName env v s.name = some s ∧ classOf env s = .dflt ∧ shapeOK .dflt s = true ∧
        (c = .itxn ∨ c = .gitxn ∨ c = .arg ∨ c = .intc ∨ c = .bytec)) := by
    intro ha hc
    unfold shortAlt at ha
    split at ha
    · rename_i a
      cases hb : tokByte a with
      | error x => simp [hb] at ha
      | ok n =>
        simp only [hb] at ha
        split at ha
        · cases hbn : byName env v (shortName s0.name n) with
          | none => simp [hbn] at ha
          | some s' =>
            simp only [hbn] at ha
            split at ha
            · rename_i hcond
              simp only [Except.ok.injEq, Prod.mk.injEq] at ha
              obtain ⟨rfl, _⟩ := ha
              refine Or.inr ⟨by rw [byName_name hbn]; exact hbn, hcond.2, ?_, ?_⟩
              · simp [shapeOK, kindsOf, hcond.1]
              · rcases hc with rfl | rfl | rfl <;> simp
            · cases ha
        · rename_i hn
          simp only [Except.ok.injEq, Prod.mk.injEq] at ha
          exact Or.inl ⟨ha.1.symm, ha.2.symm, fun _ => ⟨a, n, rfl, hb, by omega⟩⟩
    · cases ha
  cases c with
  | itxn => exact arity _ h (Or.inl rfl)
  | gitxn => exact arity _ h (Or.inr rfl)
  | arg => exact short h (Or.inl rfl)
  | intc => exact short h (Or.inr (Or.inl rfl))
  | bytec => exact short h (Or.inr (Or.inr rfl))
  | dflt => simp only [altSpec, Except.ok.injEq, Prod.mk.injEq] at h; exact Or.inl ⟨h.1.symm, h.2.symm, by simp⟩
  | substring => simp only [altSpec, Except.ok.injEq, Prod.mk.injEq] at h; exact Or.inl ⟨h.1.symm, h.2.symm, by simp⟩
  | fieldSet => simp only [altSpec, Except.ok.injEq, Prod.mk.injEq] at h; exact Or.inl ⟨h.1.symm, h.2.symm, by simp⟩
  | branch2 => simp only [altSpec, Except.ok.injEq, Prod.mk.injEq] at h; exact Or.inl ⟨h.1.symm, h.2.symm, by simp⟩
  | branchV => simp only [altSpec, Except.ok.injEq, Prod.mk.injEq] at h; exact Or.inl ⟨h.1.symm, h.2.symm, by simp⟩
  | switch => simp only [altSpec, Except.ok.injEq, Prod.mk.injEq] at h; exact Or.inl ⟨h.1.symm, h.2.symm, by simp⟩
  | pushInt => simp only [altSpec, Except.ok.injEq, Prod.mk.injEq] at h; exact Or.inl ⟨h.1.symm, h.2.symm, by simp⟩
  | pushBytes => simp only [altSpec, Except.ok.injEq, Prod.mk.injEq] at h; exact Or.inl ⟨h.1.symm, h.2.symm, by simp⟩
  | pushInts => simp only [altSpec, Except.ok.injEq, Prod.mk.injEq] at h; exact Or.inl ⟨h.1.symm, h.2.symm, by simp⟩
  | pushBytess => simp only [altSpec, Except.ok.injEq, Prod.mk.injEq] at h; exact Or.inl ⟨h.1.symm, h.2.symm, by simp⟩
  | intcBlock => simp only [altSpec, Except.ok.injEq, Prod.mk.injEq] at h; exact Or.inl ⟨h.1.symm, h.2.symm, by simp⟩
  | bytecBlock => simp only [altSpec, Except.ok.injEq, Prod.mk.injEq] at h; exact Or.inl ⟨h.1.symm, h.2.symm, by simp⟩
  | unknown => simp only [altSpec, Except.ok.injEq, Prod.mk.injEq] at h; exact Or.inl ⟨h.1.symm, h.2.symm, by simp⟩

theorem constDefined_any {env : Env} {idx cur deadMax anyMax : Nat} (h2 : env.constRule = 2) (hle : cur ≤ anyMax)
    (h : constDefined env idx cur deadMax anyMax = true) : idx < anyMax := by
  unfold constDefined at h
  simp only [h2, Bool.or_eq_true, Bool.and_eq_true, decide_eq_true_eq, beq_iff_eq] at h
  rcases h with (h | h) | h
  · omega
  · omega
  · exact h.2

theorem postAsm_inv {env : Env} {c : FnClass} {st st' : PState} {args : List Tok} (h2 : env.constRule = 2)
    (hle : st.intcN ≤ st.anyIntc ∧ st.bytecN ≤ st.anyBytec) (h : postAsm env c st args = .ok st') :
    st'.out = st.out ∧ st'.labels = st.labels ∧
    st'.anyIntc = (if c = .intcBlock then max st.anyIntc args.length else st.anyIntc) ∧
    st'.anyBytec = (if c = .bytecBlock then max st.anyBytec args.length else st.anyBytec) ∧
    st'.intcN ≤ st'.anyIntc ∧ st'.bytecN ≤ st'.anyBytec ∧
    (c = .intc → ∃ a n, args = [a] ∧ tokByte a = .ok n ∧ n < st.anyIntc) ∧
    (c = .bytec → ∃ a n, args = [a] ∧ tokByte a = .ok n ∧ n < st.anyBytec) ∧
    (c = .substring → ∃ a b x y, args = [a, b] ∧ tokNat a = some x ∧ tokNat b = some y ∧ x ≤ y) := by
  have same : st' = st → c ≠ .intcBlock → c ≠ .bytecBlock → c ≠ .intc → c ≠ .bytec → c ≠ .substring →
      st'.out = st.out ∧ st'.labels = st.labels ∧
      st'.anyIntc = (if c = .intcBlock then max st.anyIntc args.length else st.anyIntc) ∧
      st'.anyBytec = (if c = .bytecBlock then max st.anyBytec args.length else st.anyBytec) ∧
      st'.intcN ≤ st'.anyIntc ∧ st'.bytecN ≤ st'.anyBytec ∧
      (c = .intc → ∃ a n, args = [a] ∧ tokByte a = .ok n ∧ n < st.anyIntc) ∧
      (c = .bytec → ∃ a n, args = [a] ∧ tokByte a = .ok n ∧ n < st.anyBytec) ∧
      (c = .substring → ∃ a b x y, args = [a, b] ∧ tokNat a = some x ∧ tokNat b = some y ∧ x ≤ y) := by
    intro e n1 n2 n3 n4 n5
    subst e
    refine ⟨rfl, rfl, by rw [if_neg n1], by rw [if_neg n2], hle.1, hle.2, fun hc => absurd hc n3, fun hc => absurd hc n4,
      fun hc => absurd hc n5⟩
  cases c with
  | substring =>
    simp only [postAsm] at h
    split at h
    · rename_i a b
      cases ha : tokNat a with
      | none => simp [ha] at h
      | some x =>
        cases hb : tokNat b with
        | none => simp [ha, hb] at h
        | some y =>
          simp only [ha, hb] at h
          split at h
          · cases h
          · rename_i hxy
            simp only [Except.ok.injEq] at h; subst h
            refine ⟨rfl, rfl, by simp, by simp, hle.1, hle.2, by simp, by simp, fun _ => ⟨a, b, x, y, rfl, ha, hb, by omega⟩⟩
    · cases h
  | intc =>
    simp only [postAsm, constIdx] at h
    split at h
    · rename_i idx hidx
      split at hidx
      · rename_i a
        split at h
        · rename_i hdef
          simp only [Except.ok.injEq] at h; subst h
          refine ⟨rfl, rfl, by simp, by simp, hle.1, hle.2,
            fun _ => ⟨a, idx, rfl, hidx, constDefined_any h2 hle.1 hdef⟩, by simp, by simp⟩
        · cases h
      · cases hidx
    · cases h
  | bytec =>
    simp only [postAsm, constIdx] at h
    split at h
    · rename_i idx hidx
      split at hidx
      · rename_i a
        split at h
        · rename_i hdef
          simp only [Except.ok.injEq] at h; subst h
          refine ⟨rfl, rfl, by simp, by simp, hle.1, hle.2, by simp,
            fun _ => ⟨a, idx, rfl, hidx, constDefined_any h2 hle.2 hdef⟩, by simp⟩
        · cases h
      · cases hidx
    · cases h
  | intcBlock =>
    simp only [postAsm, Except.ok.injEq] at h; subst h
    split
    · refine ⟨rfl, rfl, by simp, by simp, ?_, hle.2, by simp, by simp, by simp⟩
      simp only []; omega
    · refine ⟨rfl, rfl, by simp, by simp, ?_, hle.2, by simp, by simp, by simp⟩
      simp only []; omega
  | bytecBlock =>
    simp only [postAsm, Except.ok.injEq] at h; subst h
    split
    · refine ⟨rfl, rfl, by simp, by simp, hle.1, ?_, by simp, by simp, by simp⟩
      simp only []; omega
    · refine ⟨rfl, rfl, by simp, by simp, hle.1, ?_, by simp, by simp, by simp⟩
      simp only []; omega
  | dflt => simp only [postAsm, Except.ok.injEq] at h; exact same h.symm (by simp) (by simp) (by simp) (by simp) (by simp)
  | arg => simp only [postAsm, Except.ok.injEq] at h; exact same h.symm (by simp) (by simp) (by simp) (by simp) (by simp)
  | itxn => simp only [postAsm, Except.ok.injEq] at h; exact same h.symm (by simp) (by simp) (by simp) (by simp) (by simp)
  | gitxn => simp only [postAsm, Except.ok.injEq] at h; exact same h.symm (by simp) (by simp) (by simp) (by simp) (by simp)
  | fieldSet => simp only [postAsm, Except.ok.injEq] at h; exact same h.symm (by simp) (by simp) (by simp) (by simp) (by simp)
  | branch2 => simp only [postAsm, Except.ok.injEq] at h; exact same h.symm (by simp) (by simp) (by simp) (by simp) (by simp)
  | branchV => simp only [postAsm, Except.ok.injEq] at h; exact same h.symm (by simp) (by simp) (by simp) (by simp) (by simp)
  | switch => simp only [postAsm, Except.ok.injEq] at h; exact same h.symm (by simp) (by simp) (by simp) (by simp) (by simp)
  | pushInt => simp only [postAsm, Except.ok.injEq] at h; exact same h.symm (by simp) (by simp) (by simp) (by simp) (by simp)
  | pushBytes => simp only [postAsm, Except.ok.injEq] at h; exact same h.symm (by simp) (by simp) (by simp) (by simp) (by simp)
  | pushInts => simp only [postAsm, Except.ok.injEq] at h; exact same h.symm (by simp) (by simp) (by simp) (by simp) (by simp)
  | pushBytess => simp only [postAsm, Except.ok.injEq] at h; exact same h.symm (by simp) (by simp) (by simp) (by simp) (by simp)
  | unknown => simp only [postAsm, Except.ok.injEq] at h; exact same h.symm (by simp) (by simp) (by simp) (by simp) (by simp)

theorem specFor_inv {env : Env} {v : Nat} {name : String} {argc : Nat} {s0 : Spec}
    (h : specFor env v name argc = .ok s0) : byName env v s0.name = some s0 := by
  unfold specFor at h
  split at h
  · cases h
  · split at h
    · rename_i alts _
      split at h
      · cases h
      · rename_i target _
        cases hb : byName env v target with
        | none => simp [hb] at h
        | some s =>
          simp only [hb, Except.ok.injEq] at h; subst h
          rw [byName_name hb]; exact hb
    · cases hb : byName env v name with
      | none => simp [hb] at h
      | some s =>
        simp only [hb, Except.ok.injEq] at h; subst h
        rw [byName_name hb]; exact hb

theorem parseImms_ints {env : Env} {v : Nat} {im : Model.OpTables.Imm} {args : List Tok} {ims : List PImm}
    (hk : im.kind = 5) (h : parseImms env v [im] args = .ok ims) :
    ∃ ns, ims = [.val (.ints ns)] ∧ ns.length = args.length := by
  unfold parseImms at h
  rw [if_pos hk] at h
  simp only [ne_eq, not_true_eq_false, if_false] at h
  cases ht : tokNats args with
  | error x => simp [ht] at h
  | ok ns =>
    simp only [ht, Except.ok.injEq] at h
    exact ⟨ns, h.symm, (tokNats_inv args ns ht).1⟩

theorem parseImms_bytess {env : Env} {v : Nat} {im : Model.OpTables.Imm} {args : List Tok} {ims : List PImm}
    (hk : im.kind = 6) (h : parseImms env v [im] args = .ok ims) :
    ∃ bs, ims = [.val (.bytess bs)] ∧ bs.length = args.length := by
  unfold parseImms at h
  rw [if_neg (by omega), if_pos hk] at h
  simp only [ne_eq, not_true_eq_false, if_false] at h
  cases ht : tokBytess env.maxStringSize args with
  | error x => simp [ht] at h
  | ok bs =>
    simp only [ht, Except.ok.injEq] at h
    exact ⟨bs, h.symm, (tokBytess_inv _ args bs ht).1⟩

/-- what `asmInstr` guarantees about the instruction it produced and the state it leaves -/
theorem asmInstr_inv {env : Env} {v : Nat} {st st2 : PState} {name : String} {args : List Tok} {p : PInstr}
    (hg : GroupIdx env) (h2 : env.constRule = 2) (hle : st.intcN ≤ st.anyIntc ∧ st.bytecN ≤ st.anyBytec)
    (h : asmInstr env v st name args = .ok (p, st2)) :
    PInstrInv env v p ∧ st2.out = st.out ∧ st2.labels = st.labels ∧
    st2.anyIntc = pNextI env st.anyIntc p ∧ st2.anyBytec = pNextB env st.anyBytec p ∧
    st2.intcN ≤ st2.anyIntc ∧ st2.bytecN ≤ st2.anyBytec ∧
    (classOf env p.spec = .intc → ∀ b, p.imms = [.val (.byte b)] → b < st.anyIntc) ∧
    (classOf env p.spec = .bytec → ∀ b, p.imms = [.val (.byte b)] → b < st.anyBytec) := by
  unfold asmInstr at h
  cases hs : specFor env v name args.length with
  | error x => simp [hs] at h
  | ok s0 =>
    simp only [hs] at h
    by_cases hsh : shapeOK (classOf env s0) s0 = true
    · simp only [hsh, not_true_eq_false, if_false] at h
      cases ha : altSpec env v (classOf env s0) s0 args with
      | error x => simp [ha] at h
      | ok q =>
        obtain ⟨s, args'⟩ := q
        simp only [ha] at h
        cases hp : parseImms env v s.imms args' with
        | error x => simp [hp] at h
        | ok ims =>
          simp only [hp] at h
          cases hq : postAsm env (classOf env s0) st args with
          | error x => simp [hq] at h
          | ok st' =>
            simp only [hq, Except.ok.injEq, Prod.mk.injEq] at h
            obtain ⟨rfl, rfl⟩ := h
            obtain ⟨q1, q2, q3, q4, q5, q6, q7, q8, q9⟩ := postAsm_inv h2 hle hq
            have hims := parseImms_inv hg s.imms args' ims hp
            rcases altSpec_inv ha with ⟨rfl, rfl, hn⟩ | ⟨hb, hcl, hshd, hc0⟩
            · -- assembled with the spec that was looked up
              have hbn := specFor_inv hs
              refine ⟨⟨hbn, hsh, hims, ?_, ?_⟩, q1, q2, ?_, ?_, q5, q6, ?_, ?_⟩
              · intro hc b hb
                obtain ⟨a, n, e1, e2, e3⟩ := hn hc
                have hpl : plainBytes s 1 = true := by
                  rcases hc with hc | hc | hc <;> (rw [hc] at hsh; exact hsh)
                obtain ⟨im, e, k, g⟩ := plainBytes_one hpl
                rw [e] at hp
                obtain ⟨a', b', f1, f2, f3⟩ := parseImms_plain_one k g hp
                simp only [] at hb
                rw [f3] at hb
                simp only [List.cons.injEq, PImm.val.injEq, Model.AsmFormat.Imm.byte.injEq, and_true] at hb
                subst hb
                rw [e1] at f1
                simp only [List.cons.injEq, and_true] at f1
                subst f1
                rw [e2] at f2
                simp only [Except.ok.injEq] at f2
                omega
              · intro hc a b hab
                obtain ⟨ta, tb, x, y, e1, e2, e3, e4⟩ := q9 hc
                rw [hc] at hsh
                obtain ⟨im1, im2, e, k1, g1, k2, g2⟩ := plainBytes_two hsh
                rw [e] at hp
                obtain ⟨a', b', x', y', f1, f2, f3, f4⟩ := parseImms_plain_two k1 g1 k2 g2 hp
                simp only [] at hab
                rw [f4] at hab
                simp only [List.cons.injEq, PImm.val.injEq, Model.AsmFormat.Imm.byte.injEq, and_true] at hab
                obtain ⟨rfl, rfl⟩ := hab
                rw [e1] at f1
                simp only [List.cons.injEq, and_true] at f1
                obtain ⟨rfl, rfl⟩ := f1
                have := (tokByte_le f2).2
                have := (tokByte_le f3).2
                simp_all
              · rw [q3]; unfold pNextI
                by_cases hc : classOf env s = .intcBlock
                · simp only [if_pos hc]
                  rw [hc] at hsh
                  simp only [shapeOK, beq_iff_eq] at hsh
                  obtain ⟨im, e, k⟩ := kinds_one hsh
                  rw [e] at hp
                  obtain ⟨ns, f1, f2⟩ := parseImms_ints k hp
                  simp [pBlockLen, f1, f2]
                · simp only [if_neg hc]
              · rw [q4]; unfold pNextB
                by_cases hc : classOf env s = .bytecBlock
                · simp only [if_pos hc]
                  rw [hc] at hsh
                  simp only [shapeOK, beq_iff_eq] at hsh
                  obtain ⟨im, e, k⟩ := kinds_one hsh
                  rw [e] at hp
                  obtain ⟨bs, f1, f2⟩ := parseImms_bytess k hp
                  simp [pBlockLen, f1, f2]
                · simp only [if_neg hc]
              · intro hc b hb
                obtain ⟨a, n, e1, e2, e3⟩ := q7 hc
                rw [hc] at hsh
                obtain ⟨im, e, k, g⟩ := plainBytes_one hsh
                rw [e] at hp
                obtain ⟨a', b', f1, f2, f3⟩ := parseImms_plain_one k g hp
                simp only [] at hb
                rw [f3] at hb
                simp only [List.cons.injEq, PImm.val.injEq, Model.AsmFormat.Imm.byte.injEq, and_true] at hb
                subst hb
                rw [e1] at f1
                simp only [List.cons.injEq, and_true] at f1
                subst f1
                rw [e2] at f2
                simp only [Except.ok.injEq] at f2
                omega
              · intro hc b hb
                obtain ⟨a, n, e1, e2, e3⟩ := q8 hc
                rw [hc] at hsh
                obtain ⟨im, e, k, g⟩ := plainBytes_one hsh
                rw [e] at hp
                obtain ⟨a', b', f1, f2, f3⟩ := parseImms_plain_one k g hp
                simp only [] at hb
                rw [f3] at hb
                simp only [List.cons.injEq, PImm.val.injEq, Model.AsmFormat.Imm.byte.injEq, and_true] at hb
                subst hb
                rw [e1] at f1
                simp only [List.cons.injEq, and_true] at f1
                subst f1
                rw [e2] at f2
                simp only [Except.ok.injEq] at f2
                omega
            · -- assembled with another, plain spec found by name
              have hnb : classOf env s0 ≠ .intcBlock ∧ classOf env s0 ≠ .bytecBlock := by
                rcases hc0 with hc | hc | hc | hc | hc <;> rw [hc] <;> simp
              refine ⟨⟨hb, by rw [hcl]; exact hshd, hims, ?_, ?_⟩, q1, q2, ?_, ?_, q5, q6, ?_, ?_⟩
              · intro hc; simp only [] at hc; rw [hcl] at hc; simp at hc
              · intro hc; simp only [] at hc; rw [hcl] at hc; simp at hc
              · rw [q3, if_neg hnb.1]; unfold pNextI; simp only []; rw [hcl]; simp
              · rw [q4, if_neg hnb.2]; unfold pNextB; simp only []; rw [hcl]; simp
              · intro hc; simp only [] at hc; rw [hcl] at hc; simp at hc
              · intro hc; simp only [] at hc; rw [hcl] at hc; simp at hc
    · simp [hsh] at h

/-! ### the whole source -/

def PConstsOKFrom (env : Env) : Nat → Nat → List PInstr → Prop
  | _, _, [] => True
  | aI, aB, p :: rest =>
    (classOf env p.spec = .intc → ∀ b, p.imms = [.val (.byte b)] → b < aI) ∧
    (classOf env p.spec = .bytec → ∀ b, p.imms = [.val (.byte b)] → b < aB) ∧
    PConstsOKFrom env (pNextI env aI p) (pNextB env aB p) rest

def pAccI (env : Env) (aI : Nat) (l : List PInstr) : Nat := l.foldl (pNextI env) aI
def pAccB (env : Env) (aB : Nat) (l : List PInstr) : Nat := l.foldl (pNextB env) aB

theorem pconsts_snoc (env : Env) : ∀ (l : List PInstr) (aI aB : Nat) (p : PInstr),
    PConstsOKFrom env aI aB l →
    (classOf env p.spec = .intc → ∀ b, p.imms = [.val (.byte b)] → b < pAccI env aI l) →
    (classOf env p.spec = .bytec → ∀ b, p.imms = [.val (.byte b)] → b < pAccB env aB l) →
    PConstsOKFrom env aI aB (l ++ [p])
  | [], aI, aB, p, _, h1, h2 => ⟨h1, h2, trivial⟩
  | q :: l, aI, aB, p, h, h1, h2 => by
    obtain ⟨a, b, c⟩ := h
    exact ⟨a, b, pconsts_snoc env l _ _ p c h1 h2⟩

structure SInv (env : Env) (v : Nat) (st : PState) : Prop where
  inv : ∀ p ∈ st.out, PInstrInv env v p
  labs : ∀ e ∈ st.labels, e.2 ≤ st.out.length
  leI : st.intcN ≤ st.anyIntc
  leB : st.bytecN ≤ st.anyBytec
  consts : PConstsOKFrom env 0 0 st.out.reverse
  accI : st.anyIntc = pAccI env 0 st.out.reverse
  accB : st.anyBytec = pAccB env 0 st.out.reverse

theorem defineLabel_inv {env : Env} {v : Nat} {st st1 : PState} {n : LName} (hs : SInv env v st)
    (h : defineLabel st n = .ok st1) : SInv env v st1 := by
  unfold defineLabel at h
  split at h
  · cases h
  · simp only [Except.ok.injEq] at h; subst h
    exact ⟨hs.inv, by
      intro e he
      simp only [List.mem_cons] at he
      rcases he with rfl | he
      · exact Nat.le_refl _
      · exact hs.labs e he, hs.leI, hs.leB, hs.consts, hs.accI, hs.accB⟩

theorem parseStmt_inv {env : Env} {v : Nat} {st st' : PState} {s : Stmt} (hg : GroupIdx env) (h2 : env.constRule = 2)
    (hs : SInv env v st) (h : parseStmt env v st s = .ok st') : SInv env v st' := by
  unfold parseStmt at h
  -- the label in front, if any
  have key : ∀ (st1 : PState) (rest : Stmt), SInv env v st1 →
      (match rest with
        | [] => (Except.ok st1 : Except Err PState)
        | .name m :: args =>
          match asmInstr env v st1 m args with
          | .error x => .error x
          | .ok (p, st2) =>
            .ok { st2 with out := p :: st2.out, dead := (if p.spec.name = "callsub" then false
                    else if env.deadens.contains p.spec.id then true else st2.dead) }
        | _ => .error .syntax) = .ok st' → SInv env v st' := by
    intro st1 rest hs1 hh
    cases rest with
    | nil => simp only [Except.ok.injEq] at hh; subst hh; exact hs1
    | cons t args =>
      cases t with
      | name m =>
        simp only [] at hh
        cases ha : asmInstr env v st1 m args with
        | error x => simp [ha] at hh
        | ok q =>
          obtain ⟨p, st2⟩ := q
          simp only [ha, Except.ok.injEq] at hh; subst hh
          obtain ⟨a1, a2, a3, a4, a5, a6, a7, a8, a9⟩ := asmInstr_inv hg h2 ⟨hs1.leI, hs1.leB⟩ ha
          refine ⟨?_, ?_, a6, a7, ?_, ?_, ?_⟩
          · intro q hq
            simp only [List.mem_cons] at hq
            rcases hq with rfl | hq
            · exact a1
            · rw [a2] at hq; exact hs1.inv q hq
          · intro e he
            simp only [] at he ⊢
            rw [a3] at he
            have := hs1.labs e he
            simp only [List.length_cons, a2]; omega
          · simp only [List.reverse_cons, a2]
            exact pconsts_snoc env _ 0 0 p hs1.consts (by rw [← hs1.accI]; exact a8) (by rw [← hs1.accB]; exact a9)
          · simp only [List.reverse_cons, a2, pAccI, List.foldl_append, List.foldl_cons, List.foldl_nil]
            rw [a4, hs1.accI]; rfl
          · simp only [List.reverse_cons, a2, pAccB, List.foldl_append, List.foldl_cons, List.foldl_nil]
            rw [a5, hs1.accB]; rfl
      | num n => simp at hh
      | sint i => simp at hh
      | hex nib => simp at hh
      | lref k => simp at hh
      | ldef k => simp at hh
      | sdef x => simp at hh
  cases s with
  | nil => exact key st [] hs h
  | cons t rest =>
    cases t with
    | ldef k =>
      simp only [] at h
      cases hd : defineLabel st (.gen k) with
      | error x => simp [hd, Except.map] at h
      | ok st1 =>
        simp only [hd, Except.map] at h
        exact key st1 rest (defineLabel_inv hs hd) h
    | sdef n =>
      simp only [] at h
      cases hd : defineLabel st (.src n) with
      | error x => simp [hd, Except.map] at h
      | ok st1 =>
        simp only [hd, Except.map] at h
        exact key st1 rest (defineLabel_inv hs hd) h
    | name m => exact key st (.name m :: rest) hs h
    | num n => exact key st (.num n :: rest) hs h
    | sint i => exact key st (.sint i :: rest) hs h
    | hex nib => exact key st (.hex nib :: rest) hs h
    | lref k => exact key st (.lref k :: rest) hs h

theorem parseStmts_inv {env : Env} {v : Nat} (hg : GroupIdx env) (h2 : env.constRule = 2) :
    ∀ (stmts : List Stmt) (st st' : PState), SInv env v st → parseStmts env v st stmts = .ok st' → SInv env v st'
  | [], st, st', hs, h => by simp only [parseStmts, Except.ok.injEq] at h; subst h; exact hs
  | s :: rest, st, st', hs, h => by
    simp only [parseStmts] at h
    cases h1 : parseStmt env v st s with
    | error x => simp [h1] at h
    | ok st1 =>
      simp only [h1] at h
      exact parseStmts_inv hg h2 rest st1 st' (parseStmt_inv hg h2 hs h1) h

/-! ### resolving the label names -/

def InLabels (labels : List (LName × Nat)) (t : Nat) : Prop := ∃ nm, (nm, t) ∈ labels

theorem lookupLabel_in {labels : List (LName × Nat)} {n : LName} {t : Nat} (h : lookupLabel labels n = .ok t) :
    InLabels labels t := by
  unfold lookupLabel at h
  cases hf : labels.find? (fun p => p.1 = n) with
  | none => simp [hf] at h
  | some e =>
    simp only [hf, Except.ok.injEq] at h
    subst h
    exact ⟨e.1, List.mem_of_find?_eq_some hf⟩

theorem lookupLabels_in {labels : List (LName × Nat)} : ∀ (ns : List LName) (ts : List Nat),
    lookupLabels labels ns = .ok ts → ts.length = ns.length ∧ ∀ t ∈ ts, InLabels labels t
  | [], ts, h => by simp only [lookupLabels, Except.ok.injEq] at h; subst h; simp
  | n :: ns, ts, h => by
    simp only [lookupLabels] at h
    cases h1 : lookupLabel labels n with
    | error x => simp [h1] at h
    | ok t =>
      cases h2 : lookupLabels labels ns with
      | error x => simp [h1, h2] at h
      | ok r =>
        simp only [h1, h2, Except.ok.injEq] at h; subst h
        obtain ⟨a, b⟩ := lookupLabels_in ns r h2
        refine ⟨by simp [a], ?_⟩
        intro q hq
        rcases List.mem_cons.mp hq with rfl | hq
        · exact lookupLabel_in h1
        · exact b q hq

/-- a value immediate (not a label reference) -/
def IsVal : Model.AsmFormat.Imm → Prop
  | .label _ => False
  | .vlabel _ => False
  | .labels _ => False
  | _ => True

/-- resolving one parsed immediate: the invariant carries over, label targets are defined labels, and a value stays the
    value it was -/
theorem fixImm_inv {env : Env} {v : Nat} {im : Model.OpTables.Imm} {labels : List (LName × Nat)} {p : PImm}
    {x : Model.AsmFormat.Imm} (hp : PImmInv env v im p) (h : fixImm labels p = .ok x) :
    ImmInv env v im x ∧ (∀ t ∈ immTargets x, InLabels labels t) ∧ (∀ y, IsVal y → (x = y ↔ p = .val y)) := by
  cases p with
  | val y =>
    simp only [fixImm, Except.ok.injEq] at h; subst h
    obtain ⟨a, b⟩ := hp
    refine ⟨a, by rw [b]; simp, ?_⟩
    intro z _
    constructor
    · intro e; rw [e]
    · intro e; simp only [PImm.val.injEq] at e; exact e
  | lab two n =>
    simp only [fixImm] at h
    cases hl : lookupLabel labels n with
    | error e => simp [hl, Except.map] at h
    | ok t =>
      simp only [hl, Except.map, Except.ok.injEq] at h
      simp only [PImmInv] at hp
      rcases hp with ⟨rfl, hk⟩ | ⟨rfl, hk⟩
      · simp only [if_true] at h; subst h
        refine ⟨hk, by simpa [immTargets] using lookupLabel_in hl, ?_⟩
        intro z hz
        constructor
        · intro e; subst e; exact absurd hz (by simp [IsVal])
        · intro e; cases e
      · simp only [Bool.false_eq_true, if_false] at h; subst h
        refine ⟨hk, by simpa [immTargets] using lookupLabel_in hl, ?_⟩
        intro z hz
        constructor
        · intro e; subst e; exact absurd hz (by simp [IsVal])
        · intro e; cases e
  | labs ns =>
    simp only [fixImm] at h
    cases hl : lookupLabels labels ns with
    | error e => simp [hl, Except.map] at h
    | ok ts =>
      simp only [hl, Except.map, Except.ok.injEq] at h; subst h
      obtain ⟨a, b⟩ := lookupLabels_in ns ts hl
      obtain ⟨hk, hlen⟩ := hp
      refine ⟨⟨hk, by omega⟩, by simpa [immTargets] using b, ?_⟩
      intro z hz
      constructor
      · intro e; subst e; exact absurd hz (by simp [IsVal])
      · intro e; cases e

theorem fixImms_inv {env : Env} {v : Nat} {labels : List (LName × Nat)} : ∀ (ims : List Model.OpTables.Imm) (ps : List PImm)
    (xs : List Model.AsmFormat.Imm), PImmsInv env v ims ps → fixImms labels ps = .ok xs →
    ImmsInv env v ims xs ∧ (∀ t ∈ xs.flatMap immTargets, InLabels labels t) ∧
      (∀ ys, (∀ y ∈ ys, IsVal y) → (xs = ys ↔ ps = ys.map .val))
  | [], [], xs, _, h => by
    simp only [fixImms, Except.ok.injEq] at h; subst h
    refine ⟨trivial, by simp, ?_⟩
    intro ys _
    cases ys <;> simp
  | [], _ :: _, _, hp, _ => by simp [PImmsInv] at hp
  | _ :: _, [], _, hp, _ => by simp [PImmsInv] at hp
  | im :: ims, p :: ps, xs, hp, h => by
    obtain ⟨h1, hl, h2⟩ := hp
    simp only [fixImms] at h
    cases f1 : fixImm labels p with
    | error e => simp [f1] at h
    | ok x =>
      cases f2 : fixImms labels ps with
      | error e => simp [f1, f2] at h
      | ok r =>
        simp only [f1, f2, Except.ok.injEq] at h; subst h
        obtain ⟨a1, a2, a3⟩ := fixImm_inv h1 f1
        obtain ⟨b1, b2, b3⟩ := fixImms_inv ims ps r h2 f2
        refine ⟨⟨a1, hl, b1⟩, ?_, ?_⟩
        · intro t ht
          simp only [List.flatMap_cons, List.mem_append] at ht
          rcases ht with ht | ht
          · exact a2 t ht
          · exact b2 t ht
        · intro ys hys
          cases ys with
          | nil => simp
          | cons y ys =>
            simp only [List.cons.injEq, List.map_cons]
            rw [a3 y (hys y List.mem_cons_self), b3 ys (fun z hz => hys z (List.mem_cons_of_mem _ hz))]

theorem fixInstrs_length {labels : List (LName × Nat)} : ∀ (ps : List PInstr) (is : List Instr),
    fixInstrs labels ps = .ok is → is.length = ps.length
  | [], is, h => by simp only [fixInstrs, Except.ok.injEq] at h; subst h; rfl
  | p :: ps, is, h => by
    simp only [fixInstrs] at h
    cases f1 : fixImms labels p.imms with
    | error e => simp [f1] at h
    | ok x =>
      cases f2 : fixInstrs labels ps with
      | error e => simp [f1, f2] at h
      | ok r =>
        simp only [f1, f2, Except.ok.injEq] at h; subst h
        simp [fixInstrs_length ps r f2]

theorem blockLen_fix {labels : List (LName × Nat)} {p : PInstr} {xs : List Model.AsmFormat.Imm}
    (h : fixImms labels p.imms = .ok xs) : blockLen ⟨p.spec, xs⟩ = pBlockLen p := by
  unfold blockLen pBlockLen
  simp only []
  cases hp : p.imms with
  | nil =>
    rw [hp] at h
    simp only [fixImms, Except.ok.injEq] at h; subst h; rfl
  | cons q qs =>
    rw [hp] at h
    simp only [fixImms] at h
    cases f1 : fixImm labels q with
    | error e => simp [f1] at h
    | ok x =>
      cases f2 : fixImms labels qs with
      | error e => simp [f1, f2] at h
      | ok r =>
        simp only [f1, f2, Except.ok.injEq] at h; subst h
        cases qs with
        | nil =>
          simp only [fixImms, Except.ok.injEq] at f2; subst f2
          cases q with
          | val y =>
            simp only [fixImm, Except.ok.injEq] at f1; subst f1
            cases y <;> rfl
          | lab two n =>
            simp only [fixImm] at f1
            cases hl : lookupLabel labels n with
            | error e => simp [hl, Except.map] at f1
            | ok t =>
              simp only [hl, Except.map, Except.ok.injEq] at f1
              subst f1
              cases two <;> rfl
          | labs ns =>
            simp only [fixImm] at f1
            cases hl : lookupLabels labels ns with
            | error e => simp [hl, Except.map] at f1
            | ok ts =>
              simp only [hl, Except.map, Except.ok.injEq] at f1
              subst f1
              rfl
        | cons q2 qs2 =>
          simp only [fixImms] at f2
          cases g1 : fixImm labels q2 with
          | error e => simp [g1] at f2
          | ok x2 =>
            cases g2 : fixImms labels qs2 with
            | error e => simp [g1, g2] at f2
            | ok r2 =>
              simp only [g1, g2, Except.ok.injEq] at f2; subst f2
              cases x <;> (cases q with
                | val y => cases y <;> rfl
                | lab _ _ => rfl
                | labs _ => rfl)

/-- resolving the labels of the parsed instructions: every invariant carries over -/
theorem fixInstrs_inv {env : Env} {v : Nat} {labels : List (LName × Nat)} : ∀ (ps : List PInstr) (is : List Instr) (aI aB : Nat),
    (∀ p ∈ ps, PInstrInv env v p) → PConstsOKFrom env aI aB ps → fixInstrs labels ps = .ok is →
    (∀ i ∈ is, InstrInv env v i) ∧ ConstsOKFrom env aI aB is ∧
      (∀ i ∈ is, ∀ t ∈ i.imms.flatMap immTargets, InLabels labels t)
  | [], is, aI, aB, _, _, h => by
    simp only [fixInstrs, Except.ok.injEq] at h; subst h
    exact ⟨by simp, trivial, by simp⟩
  | p :: ps, is, aI, aB, hp, hc, h => by
    simp only [fixInstrs] at h
    cases f1 : fixImms labels p.imms with
    | error e => simp [f1] at h
    | ok xs =>
      cases f2 : fixInstrs labels ps with
      | error e => simp [f1, f2] at h
      | ok r =>
        simp only [f1, f2, Except.ok.injEq] at h; subst h
        obtain ⟨p1, p2, p3, p4, p5⟩ := hp p List.mem_cons_self
        obtain ⟨a1, a2, a3⟩ := fixImms_inv p.spec.imms p.imms xs p3 f1
        obtain ⟨c1, c2, c3⟩ := hc
        have hbyte : ∀ b, xs = [.byte b] ↔ p.imms = [.val (.byte b)] := fun b => by
          simpa using a3 [.byte b] (by simp [IsVal])
        have hlenI : blockLen ⟨p.spec, xs⟩ = pBlockLen p := blockLen_fix f1
        have hnI : nextI env aI ⟨p.spec, xs⟩ = pNextI env aI p := by unfold nextI pNextI; simp only [hlenI]
        have hnB : nextB env aB ⟨p.spec, xs⟩ = pNextB env aB p := by unfold nextB pNextB; simp only [hlenI]
        obtain ⟨d1, d2, d3⟩ := fixInstrs_inv ps r _ _ (fun q hq => hp q (List.mem_cons_of_mem _ hq)) c3 f2
        refine ⟨?_, ⟨?_, ?_, ?_⟩, ?_⟩
        · intro i hi
          rcases List.mem_cons.mp hi with rfl | hi
          · refine ⟨p1, p2, a1, ?_, ?_⟩
            · intro hc b hb; exact p4 hc b ((hbyte b).mp hb)
            · intro hc a b hab
              exact p5 hc a b (by simpa using (a3 [.byte a, .byte b] (by simp [IsVal])).mp hab)
          · exact d1 i hi
        · intro hc b hb; exact c1 hc b ((hbyte b).mp hb)
        · intro hc b hb; exact c2 hc b ((hbyte b).mp hb)
        · rw [hnI, hnB]; exact d2
        · intro i hi t ht
          rcases List.mem_cons.mp hi with rfl | hi
          · exact a2 t ht
          · exact d3 i hi t ht

/-- FULL. Whatever the token-level front end accepts satisfies the program invariants (`ProgInv`): every spec is found under
    its own name, immediates are in range and of the spec's kinds, explicit constant loads are "normal" (index ≥ 4) and
    defined by an earlier block, label targets are positions of the program. -/
theorem parseProg_inv {env : Env} {v : Nat} {src : List Stmt} {is : List Instr} (hg : GroupIdx env)
    (h2 : env.constRule = 2) (h : parseProg env v src = .ok is) : ProgInv env v is ∧ v ≤ env.logicVersion := by
  unfold parseProg at h
  split at h
  · cases h
  · rename_i hv
    cases hp : parseStmts env v {} src with
    | error x => simp [hp] at h
    | ok st =>
      simp only [hp] at h
      have h0 : SInv env v ({} : PState) :=
        ⟨fun p hp' => by simp at hp', fun e he => by simp at he, Nat.le_refl _, Nat.le_refl _, trivial, rfl, rfl⟩
      have hs := parseStmts_inv hg h2 src {} st h0 hp
      obtain ⟨a, b, c⟩ := fixInstrs_inv (env := env) (v := v) st.out.reverse is 0 0
        (fun p hp' => hs.inv p (List.mem_reverse.mp hp')) hs.consts h
      have hlen := fixInstrs_length _ _ h
      refine ⟨⟨a, b, ?_⟩, by omega⟩
      intro i hi t ht
      obtain ⟨nm, hm⟩ := c i hi t ht
      have := hs.labs (nm, t) hm
      simp only [] at this
      rw [hlen, List.length_reverse]; exact this

/-- list immediates have fewer than 2^64 items (a Go slice always has) -/
def SmallImm : Model.AsmFormat.Imm → Prop
  | .ints ns => ns.length < two64
  | .bytess bs => bs.length < two64
  | _ => True

def SmallProg (is : List Instr) : Prop := ∀ i ∈ is, ∀ x ∈ i.imms, SmallImm x

theorem immOK_of_inv {env : Env} {v : Nat} {im : Model.OpTables.Imm} {x : Model.AsmFormat.Imm} (hm : env.maxStringSize < two64)
    (h : ImmInv env v im x) (hs : SmallImm x) : ImmOK im.kind x := by
  cases x with
  | byte b =>
    simp only [ImmInv] at h
    rcases h with ⟨k, _⟩ | ⟨k, _⟩ | ⟨k, _⟩
    · exact Or.inl k
    · exact Or.inl k
    · exact Or.inr k
  | uint n => exact ⟨h.1, fits_of_lt h.2⟩
  | bytes b => exact ⟨h.1, fits_of_lt (by have := h.2; omega)⟩
  | ints ns => exact ⟨h.1, fits_of_lt hs, fun n hn => fits_of_lt (h.2 n hn)⟩
  | bytess bs => exact ⟨h.1, fits_of_lt hs, fun b hb => fits_of_lt (by have := h.2 b hb; omega)⟩
  | label t => exact h
  | vlabel t => exact h
  | labels ts => exact h.1

theorem immsOK_of_inv {env : Env} {v : Nat} (hm : env.maxStringSize < two64) : ∀ (ims : List Model.OpTables.Imm)
    (xs : List Model.AsmFormat.Imm), ImmsInv env v ims xs → (∀ x ∈ xs, SmallImm x) → ImmsOK (ims.map (·.kind)) xs
  | [], [], _, _ => trivial
  | [], _ :: _, h, _ => by simp [ImmsInv] at h
  | _ :: _, [], h, _ => by simp [ImmsInv] at h
  | im :: ims, x :: xs, h, hs => by
    obtain ⟨h1, _, h2⟩ := h
    exact ⟨immOK_of_inv hm h1 (hs x List.mem_cons_self),
      immsOK_of_inv hm ims xs h2 (fun y hy => hs y (List.mem_cons_of_mem _ hy))⟩

end Lemmas.AsmFormat
