import AlgoVerif.Lemmas.PlayerAttestKeep
/-!
Third instance of the generic pass (`PlayerAttestFrame`): the next-threshold cache of one (round, period).

`cacheRoot root r q` is what `voteTrackerPeriod.Cached` of (r, q) holds (the empty cache if the tracker does not exist).
While the routers keep (r, q) — `COk r q pl`: `rootRouter.update` keeps round `r` (`r + lag ≥ Round`) and
`roundRouter.update` keeps period `q` (`q + 1 ≥ Period` or `q ≤ 1`) — every tree operation changes it by `cache` operations
only (`CMono`): trackers are created empty, never reset, and only `voteTrackerPeriod.handle(nextThreshold)` writes the cache.
Here also the two operations that are not ordinary (`stage`, `newPeriod`) are harmless: they do not touch the cache.
-/
namespace AlgoVerif.Lemmas.PlayerAttest
open AlgoVerif.Model AlgoVerif.Model.Player AlgoVerif.Model.VoteTracker AlgoVerif.Lemmas.Player

variable {P : Params}

def cacheR (rr : RoundR) (q : Nat) : NextStatus :=
  match aget rr.periods q with
  | some pr => pr.cached
  | none => {}

def cacheRoot (root : Root) (r q : Nat) : NextStatus :=
  match aget root.rounds r with
  | some rr => cacheR rr q
  | none => {}

/-- the routers keep (r, q) for this player -/
def COk (P : Params) (r q : Nat) (pl : PlayerF) : Prop := keepRound P pl r = true ∧ keepPeriod pl q = true

theorem aget_none_not_mem {α : Type} {l : List (Nat × α)} {k : Nat} (h : aget l k = none) (x : α) : (k, x) ∉ l := by
  induction l with
  | nil => exact List.not_mem_nil
  | cons kv rest ih =>
    obtain ⟨k', v'⟩ := kv
    unfold aget at h ih
    by_cases hk : k = k'
    · subst hk; simp at h
    · have hb : (k == k') = false := by simpa using hk
      simp only [List.lookup_cons, hb] at h
      intro hm
      rcases List.mem_cons.mp hm with heq | hin
      · cases heq; exact hk rfl
      · exact ih h hin

theorem cacheR_empty (q : Nat) : cacheR {} q = {} := rfl

theorem cacheR_of_some {rr : RoundR} {q : Nat} {pr : PeriodR} (h : aget rr.periods q = some pr) : cacheR rr q = pr.cached := by
  unfold cacheR; rw [h]

theorem cacheR_rupd {pl : PlayerF} (rr : RoundR) (q q' : Nat) (hk : keepPeriod pl q = true) :
    cacheR (rr.upd pl q') q = cacheR rr q := by
  cases h : aget rr.periods q with
  | some pr => rw [cacheR_of_some h, cacheR_of_some (upd_aget_keep h hk)]
  | none =>
    have h0 : cacheR rr q = {} := by unfold cacheR; rw [h]
    rw [h0]
    cases h' : aget (rr.upd pl q').periods q with
    | none => unfold cacheR; rw [h']
    | some pr' =>
      rw [cacheR_of_some h']
      rcases upd_aget_cases h' with h2 | h2
      · rw [h] at h2; cases h2
      · rw [h2]

theorem cacheR_store (rr : RoundR) (st : Store) (q : Nat) : cacheR { rr with store := st } q = cacheR rr q := rfl

/-- a period machine step under which the cache of the period changes by `cache` operations only -/
theorem cr_atPeriod {α : Type} {c₀ : NextStatus} {pl : PlayerF} {rr rr' : RoundR} {q q' s : Nat}
    {f : PeriodR → Except Panic (PeriodR × α)} {a : α} (hk : keepPeriod pl q = true) (h0 : CMono c₀ (cacheR rr q))
    (hf : ∀ pr pr' a, f pr = .ok (pr', a) → CMono pr.cached pr'.cached) (h : rr.atPeriod pl q' s f = .ok (rr', a)) :
    CMono c₀ (cacheR rr' q) := by
  obtain ⟨pr₀, pr', hp0, hfa, hper, _⟩ := atPeriod_out h
  by_cases hqq : q = q'
  · subst hqq
    have h1 : cacheR rr' q = pr'.cached := cacheR_of_some (by rw [hper]; exact aget_aset_self _ _ _)
    have h2 : pr₀.cached = cacheR rr q := by rw [← cacheR_rupd rr q q hk, cacheR_of_some hp0]
    have h3 := hf _ _ _ hfa
    rw [(PeriodR.upd_fields pr₀ s).2.2, h2] at h3
    rw [h1]; exact h0.trans h3
  · have : cacheR rr' q = cacheR (rr.upd pl q') q := by
      unfold cacheR; rw [hper, aget_aset_ne _ _ _ _ hqq]
    rw [this, cacheR_rupd rr q q' hk]; exact h0

theorem cr_readStaging {c₀ : NextStatus} {pl : PlayerF} {q q' : Nat} {rr rr' : RoundR} {st : Staged}
    (hk : keepPeriod pl q = true) (h0 : CMono c₀ (cacheR rr q)) (h : rr.readStaging pl q' = .ok (rr', st)) :
    CMono c₀ (cacheR rr' q) := by
  unfold RoundR.readStaging at h
  split at h
  · cases h
  rename_i rr₁ w hat
  simp only [Except.ok.injEq, Prod.mk.injEq] at h
  obtain ⟨rfl, _⟩ := h
  exact cr_atPeriod hk h0 (fun pr pr' a hf => by
    simp only [Except.ok.injEq, Prod.mk.injEq] at hf
    rw [← hf.1]; exact CMono.refl _) hat

theorem cmono_of_pview {pr pr' : PeriodR} (h : pview pr' = pview pr) : CMono pr.cached pr'.cached := (ssc_of_pview h).2

theorem cr_pvote {c₀ : NextStatus} {pl : PlayerF} {q : Nat} {rr rr' : RoundR} {x : PVote} {res : PVRes}
    (hk : keepPeriod pl q = true) (h0 : CMono c₀ (cacheR rr q)) (h : rr.pvoteVerified pl x = .ok (rr', res)) :
    CMono c₀ (cacheR rr' q) := by
  unfold RoundR.pvoteVerified at h
  split at h
  · cases h
  · rename_i rr₁ b hat
    simp only [Except.ok.injEq, Prod.mk.injEq] at h
    obtain ⟨rfl, _⟩ := h
    exact cr_atPeriod hk h0 (fun pr pr' a hf => cmono_of_pview (pvoteVerified_pview hf)) hat
  · rename_i rr₁ val pay hat
    simp only [Except.ok.injEq, Prod.mk.injEq] at h
    obtain ⟨rfl, _⟩ := h
    have h1 := cr_atPeriod hk h0 (fun pr pr' a hf => cmono_of_pview (pvoteVerified_pview hf)) hat
    exact h1

theorem cr_payP {c₀ : NextStatus} (pl : PlayerF) {q : Nat} (rr : RoundR) (up : Payload) (h0 : CMono c₀ (cacheR rr q)) :
    CMono c₀ (cacheR (rr.payloadPresent pl up).1 q) := by
  unfold RoundR.payloadPresent
  split
  · exact h0
  split
  · exact h0
  split
  · exact h0
  exact h0

theorem cr_payV {c₀ : NextStatus} {pl : PlayerF} {q : Nat} {rr rr' : RoundR} {pp : Payload} {res : PayRes}
    (hk : keepPeriod pl q = true) (h0 : CMono c₀ (cacheR rr q)) (h : rr.payloadVerified pl pp = .ok (rr', res)) :
    CMono c₀ (cacheR rr' q) := by
  unfold RoundR.payloadVerified at h
  split at h
  · simp only [Except.ok.injEq, Prod.mk.injEq] at h; obtain ⟨rfl, _⟩ := h; exact h0
  split at h
  · simp only [Except.ok.injEq, Prod.mk.injEq] at h; obtain ⟨rfl, _⟩ := h; exact h0
  simp only [] at h
  split at h
  · cases h
  rename_i rr₁ a hst
  unfold RoundR.stagedSelf at hst
  have h1 := cr_readStaging hk (by rw [cacheR_rupd _ q _ hk]; exact h0) hst
  split at h <;> (simp only [Except.ok.injEq, Prod.mk.injEq] at h; obtain ⟨rfl, _⟩ := h; exact h1)

/-! ### root level -/

theorem cacheRoot_of_some {root : Root} {r q : Nat} {rr : RoundR} (h : aget root.rounds r = some rr) :
    cacheRoot root r q = cacheR rr q := by
  unfold cacheRoot; rw [h]

theorem cacheRoot_upd {pl : PlayerF} (root : Root) (r q r' : Nat) (hk : keepRound P pl r = true) :
    cacheRoot (root.upd P pl r') r q = cacheRoot root r q := by
  cases h : aget root.rounds r with
  | some rr => rw [cacheRoot_of_some h, cacheRoot_of_some (Root.upd_aget_keep h hk)]
  | none =>
    have h0 : cacheRoot root r q = {} := by unfold cacheRoot; rw [h]
    rw [h0]
    cases h' : aget (root.upd P pl r').rounds r with
    | none => unfold cacheRoot; rw [h']
    | some rr' =>
      rw [cacheRoot_of_some h']
      rcases Root.upd_rounds_mem (aget_mem h') with h2 | h2
      · exact absurd h2 (aget_none_not_mem h rr')
      · cases h2; rfl

theorem croot_atRound {α : Type} {c₀ : NextStatus} {r q : Nat} {pl : PlayerF} {root root' : Root} {r' q' : Nat}
    {f : RoundR → Except Panic (RoundR × α)} {a : α} (hok : COk P r q pl) (h0 : CMono c₀ (cacheRoot root r q))
    (hf : r' = r → ∀ rr rr' a, CMono c₀ (cacheR rr q) → f rr = .ok (rr', a) → CMono c₀ (cacheR rr' q))
    (h : root.atRound P pl r' q' f = .ok (root', a)) : CMono c₀ (cacheRoot root' r q) := by
  obtain ⟨rr₀, rr', hrr₀, hfa, hrounds⟩ := atRound_out' h
  by_cases hrr : r' = r
  · subst hrr
    have h1 : cacheRoot root' r' q = cacheR rr' q := cacheRoot_of_some (by rw [hrounds]; exact aget_aset_self _ _ _)
    have h2 : cacheR rr₀ q = cacheRoot root r' q := by rw [← cacheRoot_upd root r' q r' hok.1, cacheRoot_of_some hrr₀]
    rw [h1]
    exact hf rfl _ _ _ (by rw [cacheR_rupd _ q _ hok.2, h2]; exact h0) hfa
  · have : cacheRoot root' r q = cacheRoot (root.upd P pl r') r q := by
      unfold cacheRoot; rw [hrounds, aget_aset_ne _ _ _ _ (fun e => hrr e.symm)]
    rw [this, cacheRoot_upd root r q r' hok.1]; exact h0

theorem cframe (r q : Nat) (c₀ : NextStatus) :
    Frame P (COk P r q) (fun root => CMono c₀ (cacheRoot root r q)) (fun r' rr => r' = r → CMono c₀ (cacheR rr q)) where
  congr := by
    intro pl pl' h1 h2 ⟨a, b⟩
    unfold COk keepRound keepPeriod at *
    rw [h1, h2]; exact ⟨a, b⟩
  upd := by
    intro pl root r' hok h0
    rw [cacheRoot_upd root r q r' hok.1]; exact h0
  atRound := fun pl root root' r' q' f a hok h0 hf h =>
    croot_atRound hok h0 (fun e rr rr' a hd hfa => hf rr rr' a (fun _ => hd) hfa e) h
  rupd := fun pl r' rr q' hok h e => by rw [cacheR_rupd rr q q' hok.2]; exact h e
  atPeriod := fun pl r' rr rr' q' s f a hok h0 hf h e =>
    cr_atPeriod hok.2 (h0 e) (fun pr pr' a h' => (hf pr pr' a h').2) h
  pvote := fun pl r' rr rr' x res hok h0 h e => cr_pvote hok.2 (h0 e) h
  payP := fun pl r' rr up hok h0 e => cr_payP pl rr up (h0 e)
  payV := fun pl r' rr rr' pp res hok h0 h e => cr_payV hok.2 (h0 e) h
  fresh := fun r' rr ev b h e => h e

/-! ### the two operations that are not ordinary do not touch the cache -/

theorem cr_threshold {c₀ : NextStatus} {pl : PlayerF} {q : Nat} {rr rr' : RoundR} {e : Thresh}
    {c : Option (Nat × Option PVote)} (hk : keepPeriod pl q = true) (h0 : CMono c₀ (cacheR rr q))
    (h : rr.threshold pl e = .ok (rr', c)) : CMono c₀ (cacheR rr' q) := by
  unfold RoundR.threshold at h
  split at h
  · cases h
  rename_i rr₁ hat
  have h1 : CMono c₀ (cacheR rr₁ q) := cr_atPeriod hk h0 (fun pr pr' a hf => by
    have := congrArg PView.cached (stage_pview hf)
    simp only [pview] at this
    rw [this]; exact CMono.refl _) hat
  simp only [] at h
  split at h <;> (simp only [Except.ok.injEq, Prod.mk.injEq] at h; obtain ⟨rfl, _⟩ := h; exact h1)

theorem cr_newPeriod {c₀ : NextStatus} {pl : PlayerF} {q : Nat} {rr rr' : RoundR} {target starting : Nat}
    (hk : keepPeriod pl q = true) (h0 : CMono c₀ (cacheR rr q)) (h : rr.newPeriod pl target starting = .ok (rr', ())) :
    CMono c₀ (cacheR rr' q) := by
  unfold RoundR.newPeriod at h
  split at h
  · cases h
  rename_i rr₁ staged hst
  simp only [Except.ok.injEq, Prod.mk.injEq] at h
  obtain ⟨rfl, _⟩ := h
  unfold RoundR.stagedSelf at hst
  have h1 := cr_readStaging hk (by rw [cacheR_rupd rr q pl.period hk]; exact h0) hst
  exact h1

theorem pmNewPeriod_c {c₀ : NextStatus} {r q : Nat} {σ σ' : State} {e : Thresh} (hok : COk P r q σ.pl)
    (h0 : CMono c₀ (cacheRoot σ.root r q)) (h : pmNewPeriod P σ e = .ok σ') :
    CMono c₀ (cacheRoot σ'.root r q) ∧ σ'.pl = σ.pl := by
  unfold pmNewPeriod at h
  simp only [] at h
  split at h
  · cases h
  rename_i _ root hx
  simp only [Except.ok.injEq] at h
  subst h
  exact ⟨croot_atRound hok h0 (fun _ rr rr' a hn hf => cr_newPeriod hok.2 hn hf) hx, rfl⟩

theorem pmThreshold_c {c₀ : NextStatus} {r q : Nat} {σ σ' : State} {rt : Nat} {e : Thresh} {c : Option (Nat × Option PVote)}
    (hok : COk P r q σ.pl) (h0 : CMono c₀ (cacheRoot σ.root r q)) (h : pmThreshold P σ rt e = .ok (σ', c)) :
    CMono c₀ (cacheRoot σ'.root r q) ∧ σ'.pl = σ.pl := by
  unfold pmThreshold at h
  simp only [] at h
  split at h
  · cases h
  split at h
  · cases h
  split at h
  · cases h
  have h1 : CMono c₀ (cacheRoot ({ σ with root := σ.root.upd P σ.pl rt } : State).root r q) := by
    show CMono c₀ (cacheRoot (σ.root.upd P σ.pl rt) r q)
    rw [cacheRoot_upd σ.root r q rt hok.1]; exact h0
  split at h
  · split at h
    · cases h
    rename_i σ₁ hnp
    simp only [Except.ok.injEq, Prod.mk.injEq] at h
    obtain ⟨rfl, _⟩ := h
    exact pmNewPeriod_c (σ := { σ with root := σ.root.upd P σ.pl rt }) hok h1 hnp
  · split at h
    · cases h
    rename_i σ₁ hσ₁
    have h2 : CMono c₀ (cacheRoot σ₁.root r q) ∧ σ₁.pl = σ.pl := by
      split at hσ₁
      · exact pmNewPeriod_c (σ := { σ with root := σ.root.upd P σ.pl rt }) hok h1 hσ₁
      · simp only [Except.ok.injEq] at hσ₁; subst hσ₁; exact ⟨h1, rfl⟩
    split at h
    · cases h
    rename_i root c' hx
    simp only [Except.ok.injEq, Prod.mk.injEq] at h
    obtain ⟨rfl, _⟩ := h
    have hok₁ : COk P r q σ₁.pl := by rw [h2.2]; exact hok
    exact ⟨croot_atRound hok₁ h2.1 (fun _ rr rr' a hd hf => cr_threshold hok₁.2 hd hf) hx, h2.2⟩

end AlgoVerif.Lemmas.PlayerAttest
