/-
Lemmas.LedgerCoreMoney — conservation of Algos (C18) on Model.LedgerCore.
`money P x l U` = Σ over the addresses of `U` of the balance with pending rewards at the block's level, read through the
child layer `l` and its parents.  Every modelled operation keeps it, for every duplicate-free `U` containing the addresses
the operation touches.
-/
import AlgoVerif.Lemmas.LedgerCore
namespace AlgoVerif.Lemmas.LedgerCore
open AlgoVerif.Model.LedgerCore

def money (P : Params) (x : Ctx) (l : Layer) (U : List Addr) : Nat :=
  (U.map (fun a => balWP P (acctOf x l a))).sum

theorem sum_map_congr {U : List Addr} (f g : Addr → Nat) (h : ∀ b ∈ U, g b = f b) : (U.map g).sum = (U.map f).sum := by
  induction U with
  | nil => rfl
  | cons u r ih =>
    simp only [List.map_cons, List.sum_cons]
    rw [h u (List.mem_cons_self), ih (fun b hb => h b (List.mem_cons_of_mem _ hb))]

/-- changing a function at one point of a duplicate-free list changes the sum by the difference at that point -/
theorem sum_map_update {U : List Addr} (hU : U.Nodup) {a : Addr} (ha : a ∈ U) (f g : Addr → Nat)
    (hfg : ∀ b, b ≠ a → g b = f b) : (U.map g).sum + f a = (U.map f).sum + g a := by
  induction U with
  | nil => cases ha
  | cons u r ih =>
    simp only [List.map_cons, List.sum_cons]
    rw [List.nodup_cons] at hU
    by_cases e : u = a
    · subst e
      have : (r.map g).sum = (r.map f).sum :=
        sum_map_congr f g (fun b hb => hfg b (fun e => hU.1 (e ▸ hb)))
      omega
    · have har : a ∈ r := by
        rcases List.mem_cons.mp ha with h | h
        · exact absurd h.symm e
        · exact h
      have := ih hU.2 har
      rw [hfg u e]
      omega

theorem money_congr (P : Params) (x : Ctx) (l l' : Layer) (U : List Addr)
    (h : ∀ b ∈ U, acctOf x l' b = acctOf x l b) : money P x l' U = money P x l U := by
  unfold money
  exact sum_map_congr _ _ (fun b hb => by rw [h b hb])

theorem money_putAcct (P : Params) (x : Ctx) (l : Layer) {U : List Addr} (hU : U.Nodup) {a : Addr} (ha : a ∈ U) (v : Account) :
    money P x (putAcct l a v) U + balWP P (acctOf x l a) = money P x l U + balWP P v := by
  unfold money
  have := sum_map_update hU ha (fun b => balWP P (acctOf x l b)) (fun b => balWP P (acctOf x (putAcct l a v) b))
    (fun b hb => by simp only [acctOf_putAcct, if_neg hb])
  simp only [acctOf_putAcct] at this ⊢
  simpa using this

/-- writing an account with the same money keeps the total -/
theorem money_putAcct_same (P : Params) (x : Ctx) (l : Layer) {U : List Addr} (hU : U.Nodup) (a : Addr) (v : Account)
    (hv : balWP P v = balWP P (acctOf x l a)) : money P x (putAcct l a v) U = money P x l U := by
  by_cases ha : a ∈ U
  · have := money_putAcct P x l hU ha v
    omega
  · apply money_congr
    intro b hb
    rw [acctOf_putAcct, if_neg (fun e => ha (by rw [← e]; exact hb))]

/-! ## Move -/

/-- the source half of `Move` -/
theorem move_src {P : Params} {x : Ctx} {l : Layer} {src : Addr} {amt : Nat} {fromNew : Account}
    (hw : withRewards P (acctOf x l src) = .ok fromNew) (hge : amt ≤ fromNew.bal) :
    balWP P (autoHeartbeat P (acctOf x l src) { fromNew with bal := fromNew.bal - amt }) + amt = balWP P (acctOf x l src) := by
  obtain ⟨h1, h2, _⟩ := withRewards_ok hw
  rw [balWP_autoHeartbeat, balWP_settled (settled_bal h2 _)]
  simp only
  omega

theorem move_dst {P : Params} {x : Ctx} {l : Layer} {dst : Addr} {amt : Nat} {toNew : Account}
    (hw : withRewards P (acctOf x l dst) = .ok toNew) :
    balWP P (autoHeartbeat P (acctOf x l dst) { toNew with bal := toNew.bal + amt }) = balWP P (acctOf x l dst) + amt := by
  obtain ⟨h1, h2, _⟩ := withRewards_ok hw
  rw [balWP_autoHeartbeat, balWP_settled (settled_bal h2 _)]
  simp only
  omega

/-- C18 `move_conserves`: `Move` only moves money (also through its zero-amount shortcut and when `src = dst`) -/
theorem move_conserves {P : Params} {x : Ctx} {l l' : Layer} {src dst : Addr} {amt : Nat} {U : List Addr}
    (hU : U.Nodup) (hs : src ∈ U) (hd : dst ∈ U) (h : move P x l src dst amt = .ok l') :
    money P x l' U = money P x l U := by
  unfold move at h
  simp only at h
  split at h
  · cases h
  · rename_i fromNew hwf
    -- first half
    have key1 : ∀ l1, (if meaningful P amt (acctOf x l src) then
        (if fromNew.bal < amt then (.error .overspend : Except Err Layer)
         else .ok (putAcct l src (autoHeartbeat P (acctOf x l src) { fromNew with bal := fromNew.bal - amt })))
        else .ok l) = .ok l1 → money P x l1 U + amt = money P x l U := by
      intro l1 h1
      split at h1
      · split at h1
        · cases h1
        · rename_i hlt
          cases h1
          have := money_putAcct P x l hU hs (autoHeartbeat P (acctOf x l src) { fromNew with bal := fromNew.bal - amt })
          have := move_src hwf (Nat.le_of_not_lt hlt)
          omega
      · rename_i hm
        cases h1
        have : amt = 0 := meaningful_false (by simpa using hm)
        omega
    split at h
    · cases h
    · rename_i l1 h1
      have k1 := key1 l1 h1
      split at h
      · cases h
      · rename_i toNew hwt
        split at h
        · split at h
          · cases h
          · cases h
            have := money_putAcct P x l1 hU hd (autoHeartbeat P (acctOf x l1 dst) { toNew with bal := toNew.bal + amt })
            have := move_dst (amt := amt) hwt
            omega
        · rename_i hm
          cases h
          have : amt = 0 := meaningful_false (by simpa using hm)
          omega

theorem takeFee_conserves {P : Params} {x : Ctx} {l l' : Layer} {t : Txn} {U : List Addr}
    (hU : U.Nodup) (hs : t.sender ∈ U) (hk : P.feeSink ∈ U) (h : takeFee P x l t = .ok l') :
    money P x l' U = money P x l U := by
  unfold takeFee at h
  split at h
  · cases h
  · rename_i l1 hm
    have := move_conserves hU hs hk hm
    split at h
    · cases h; exact this
    · cases h; exact this

/-! ## Payment -/

theorem payment_conserves {P : Params} {x : Ctx} {l l' : Layer} {t : Txn} {U : List Addr}
    (hU : U.Nodup) (hs : t.sender ∈ U) (hr : t.receiver ∈ U) (hc : t.closeTo ∈ U) (h : payment P x l t = .ok l') :
    money P x l' U = money P x l U := by
  unfold payment at h
  simp only at h
  split at h
  · cases h
  · rename_i l1 h1
    have k1 : money P x l1 U = money P x l U := by
      split at h1
      · exact move_conserves hU hs hr h1
      · cases h1; rfl
    split at h
    · cases h; exact k1
    · split at h
      · cases h
      · rename_i rec hrec
        split at h
        · cases h
        · rename_i l2 h2
          have k2 := move_conserves hU hs hc h2
          split at h
          · cases h
          · rename_i rec2 hrec2
            split at h
            · cases h
            · split at h
              · cases h
              · split at h
                · cases h
                · rename_i hz _ _
                  cases h
                  -- the closed account holds nothing: replacing it by the zero record keeps the total
                  have hb : balWP P (acctOf x l2 t.sender) = 0 := by
                    rw [← balWP_withRewards hrec2]
                    obtain ⟨_, hs2, _⟩ := withRewards_ok hrec2
                    rw [balWP_settled hs2]
                    simpa using hz
                  have : money P x (putAcct l2 t.sender Account.zero) U = money P x l2 U :=
                    money_putAcct_same P x l2 hU _ _ (by rw [hb]; simp [balWP, pending, Account.zero])
                  omega

/-! ## after `Move` the source has no pending rewards (needed by keyreg → non-participating) -/

theorem pending_units_zero {P : Params} {a : Account} (h : ¬ 0 < a.bal / P.rewardUnit) : pending P a = 0 := by
  unfold pending
  split
  · rfl
  · have : a.bal / P.rewardUnit = 0 := Nat.eq_zero_of_not_pos h
    rw [this]; simp

theorem move_settles {P : Params} {x : Ctx} {l l' : Layer} {src dst : Addr} {amt : Nat}
    (h : move P x l src dst amt = .ok l') : pending P (acctOf x l' src) = 0 := by
  unfold move at h
  simp only at h
  split at h
  · cases h
  · rename_i fromNew hwf
    obtain ⟨_, hsf, _⟩ := withRewards_ok hwf
    split at h
    · cases h
    · rename_i l1 h1
      have k1 : pending P (acctOf x l1 src) = 0 := by
        split at h1
        · split at h1
          · cases h1
          · cases h1
            rw [acctOf_putAcct, if_pos rfl]
            exact pending_settled (settled_autoHeartbeat _ (settled_bal hsf _))
        · rename_i hm
          cases h1
          have hm' : meaningful P amt (acctOf x l src) = false := by simpa using hm
          unfold meaningful at hm'
          simp only [Bool.or_eq_false_iff, decide_eq_false_iff_not] at hm'
          exact pending_units_zero hm'.1.2
      split at h
      · cases h
      · rename_i toNew hwt
        obtain ⟨_, hst, _⟩ := withRewards_ok hwt
        split at h
        · split at h
          · cases h
          · cases h
            rw [acctOf_putAcct]
            split
            · exact pending_settled (settled_autoHeartbeat _ (settled_bal hst _))
            · exact k1
        · cases h; exact k1

theorem takeFee_settles {P : Params} {x : Ctx} {l l' : Layer} {t : Txn}
    (h : takeFee P x l t = .ok l') : pending P (acctOf x l' t.sender) = 0 := by
  unfold takeFee at h
  split at h
  · cases h
  · rename_i l1 hm
    have := move_settles hm
    split at h
    · cases h; exact this
    · cases h; exact this

/-! ## Keyreg -/

theorem keyreg_conserves {P : Params} {x : Ctx} {l l' : Layer} {t : Txn} {U : List Addr}
    (hU : U.Nodup) (hp : pending P (acctOf x l t.sender) = 0) (h : keyreg P x l t = .ok l') :
    money P x l' U = money P x l U := by
  unfold keyreg at h
  simp only at h
  split at h
  · cases h
  · rename_i hnp
    have hpend : ∀ v : Account, v.bal = (acctOf x l t.sender).bal → v.rewardsBase = (acctOf x l t.sender).rewardsBase →
        balWP P v = balWP P (acctOf x l t.sender) := by
      intro v hb hr
      unfold balWP
      rw [hp, hb]
      unfold pending at hp ⊢
      rw [if_neg hnp] at hp
      split
      · rfl
      · rw [hb, hr, hp]
    split at h
    · split at h
      · cases h
      · cases h
        exact money_putAcct_same P x l hU _ _ (hpend _ rfl rfl)
    · split at h
      · cases h
      · split at h
        · cases h
        · cases h
          apply money_putAcct_same P x l hU
          apply hpend
          · split <;> rfl
          · split <;> rfl

/-! ## asset transactions: only counters of account records change -/

/-- a record that differs from the stored one only in fields that are not balance, status or rewards base -/
theorem balWP_counters (P : Params) (a v : Account) (hb : v.bal = a.bal) (hs : v.status = a.status)
    (hr : v.rewardsBase = a.rewardsBase) : balWP P v = balWP P a := by
  unfold balWP pending; rw [hb, hs, hr]

theorem money_putHoldingD (P : Params) (x : Ctx) (l : Layer) (U : List Addr) (k : ResKey) (d : Delta Holding) :
    money P x (putHoldingD x l k d) U = money P x l U := rfl
theorem money_putParamsD (P : Params) (x : Ctx) (l : Layer) (U : List Addr) (k : ResKey) (d : Delta AssetParams) :
    money P x (putParamsD x l k d) U = money P x l U := rfl
theorem money_putCreatable (P : Params) (x : Ctx) (l : Layer) (U : List Addr) (i : AssetId) (cr : Addr) (b : Bool) :
    money P x (putCreatable l i cr b) U = money P x l U := rfl

theorem assetConfig_conserves {P : Params} {x : Ctx} {l l' : Layer} {t : Txn} {ctr : Nat} {U : List Addr}
    (hU : U.Nodup) (h : assetConfig P x l t ctr = .ok l') : money P x l' U = money P x l U := by
  unfold assetConfig at h
  simp only at h
  split at h
  · split at h
    · cases h
    · split at h
      · cases h
      · cases h
        rw [money_putCreatable, money_putHoldingD, money_putParamsD]
        exact money_putAcct_same P x l hU _ _ (balWP_counters P _ _ rfl rfl rfl)
  · split at h
    · cases h
    · split at h
      · cases h
      · split at h
        · split at h
          · cases h
          · split at h
            · cases h
            · split at h
              · cases h
              · split at h
                · cases h
                · cases h
                  rw [money_putParamsD, money_putHoldingD, money_putCreatable]
                  exact money_putAcct_same P x l hU _ _ (balWP_counters P _ _ rfl rfl rfl)
        · cases h
          rw [money_putParamsD]

theorem takeOut_conserves {P : Params} {x : Ctx} {l l' : Layer} {a : Addr} {i : AssetId} {amt : Nat} {b : Bool} {U : List Addr}
    (h : takeOut x l a i amt b = .ok l') : money P x l' U = money P x l U := by
  unfold takeOut at h
  split at h
  · cases h; rfl
  · split at h
    · cases h
    · split at h
      · cases h
      · split at h
        · cases h
        · cases h; rfl

theorem putIn_conserves {P : Params} {x : Ctx} {l l' : Layer} {a : Addr} {i : AssetId} {amt : Nat} {b : Bool} {U : List Addr}
    (h : putIn x l a i amt b = .ok l') : money P x l' U = money P x l U := by
  unfold putIn at h
  split at h
  · cases h; rfl
  · split at h
    · cases h
    · split at h
      · cases h
      · split at h
        · cases h
        · cases h; rfl

theorem optIn_conserves {P : Params} {x : Ctx} {l l' : Layer} {t : Txn} {s : Addr} {c : Bool} {U : List Addr}
    (hU : U.Nodup) (h : optIn P x l t s c = .ok l') : money P x l' U = money P x l U := by
  unfold optIn at h
  split at h
  · split at h
    · cases h; rfl
    · split at h
      · cases h
      · simp only at h
        split at h
        · cases h
        · cases h
          rw [money_putHoldingD]
          exact money_putAcct_same P x l hU _ _ (balWP_counters P _ _ rfl rfl rfl)
  · cases h; rfl

theorem assetClose_conserves {P : Params} {x : Ctx} {l l' : Layer} {t : Txn} {s : Addr} {c : Bool} {U : List Addr}
    (hU : U.Nodup) (h : assetClose x l t s c = .ok l') : money P x l' U = money P x l U := by
  unfold assetClose at h
  split at h
  · cases h; rfl
  · split at h
    · cases h
    · simp only at h
      split at h
      · cases h
      · split at h
        · cases h
        · split at h
          · cases h
          · split at h
            · cases h
            · rename_i l1 h1
              split at h
              · cases h
              · rename_i l2 h2
                split at h
                · cases h
                · split at h
                  · cases h
                  · cases h
                    rw [money_putHoldingD]
                    have e1 : money P x l1 U = money P x l U := takeOut_conserves h1
                    have e2 : money P x l2 U = money P x l1 U := putIn_conserves h2
                    have e3 : ∀ b, acctOf x l2 b = acctOf x l b := by
                      intro b
                      have a1 : acctOf x l1 b = acctOf x l b := by
                        unfold takeOut at h1
                        split at h1
                        · cases h1; rfl
                        · split at h1
                          · cases h1
                          · split at h1
                            · cases h1
                            · split at h1
                              · cases h1
                              · cases h1; rfl
                      have a2 : acctOf x l2 b = acctOf x l1 b := by
                        unfold putIn at h2
                        split at h2
                        · cases h2; rfl
                        · split at h2
                          · cases h2
                          · split at h2
                            · cases h2
                            · split at h2
                              · cases h2
                              · cases h2; rfl
                      rw [a2, a1]
                    rw [money_putAcct_same P x l2 hU _ _ (by rw [e3]; exact balWP_counters P _ _ rfl rfl rfl), e2, e1]

theorem assetTransfer_conserves {P : Params} {x : Ctx} {l l' : Layer} {t : Txn} {U : List Addr}
    (hU : U.Nodup) (h : assetTransfer P x l t = .ok l') : money P x l' U = money P x l U := by
  unfold assetTransfer at h
  split at h
  · cases h
  · split at h
    · cases h
    · rename_i l1 h1
      split at h
      · cases h
      · rename_i l2 h2
        split at h
        · cases h
        · rename_i l3 h3
          rw [assetClose_conserves hU h, putIn_conserves h3, takeOut_conserves h2, optIn_conserves hU h1]

theorem assetFreeze_conserves {P : Params} {x : Ctx} {l l' : Layer} {t : Txn} {U : List Addr}
    (h : assetFreeze x l t = .ok l') : money P x l' U = money P x l U := by
  unfold assetFreeze at h
  split at h
  · cases h
  · split at h
    · cases h
    · split at h
      · cases h
      · cases h; rfl

/-! ## applyTransaction / transaction -/

/-- the addresses whose balance a transaction may change -/
def txnAddrs (P : Params) (t : Txn) : List Addr := [t.sender, P.feeSink, t.receiver, t.closeTo]

/-- C18 `txn_conserves`: every modelled transaction kind (fee included) only moves money -/
theorem applyTxn_conserves {P : Params} {x : Ctx} {l l' : Layer} {t : Txn} {ctr : Nat} {U : List Addr}
    (hU : U.Nodup) (hA : ∀ a ∈ txnAddrs P t, a ∈ U) (h : applyTxn P x l t ctr = .ok l') :
    money P x l' U = money P x l U := by
  have hs : t.sender ∈ U := hA _ (by simp [txnAddrs])
  have hk : P.feeSink ∈ U := hA _ (by simp [txnAddrs])
  have hr : t.receiver ∈ U := hA _ (by simp [txnAddrs])
  have hc : t.closeTo ∈ U := hA _ (by simp [txnAddrs])
  unfold applyTxn at h
  split at h
  · cases h
  · rename_i l1 h1
    rw [← takeFee_conserves hU hs hk h1]
    unfold applyKind at h
    split at h
    · exact payment_conserves hU hs hr hc h
    · exact keyreg_conserves hU (takeFee_settles h1) h
    · exact assetConfig_conserves hU h
    · exact assetTransfer_conserves hU h
    · exact assetFreeze_conserves h

theorem evalTxn_conserves {P : Params} {x : Ctx} {l l' : Layer} {g : List Txn} {t : Txn} {U : List Addr}
    (hU : U.Nodup) (hA : ∀ a ∈ txnAddrs P t, a ∈ U) (h : evalTxn P x l g t = .ok l') :
    money P x l' U = money P x l U := by
  unfold evalTxn at h
  split at h
  · cases h
  · split at h
    · cases h
    · split at h
      · cases h
      · rename_i l1 h1
        split at h
        · cases h
        · cases h
          exact (money_congr P x l1 _ U (fun b _ => acctOf_addTx x l1 _ b)).trans (applyTxn_conserves hU hA h1)

theorem groupLoop_conserves {P : Params} {x : Ctx} {g : List Txn} {g0 : Nat} {U : List Addr} (hU : U.Nodup) :
    ∀ (ts : List Txn) (used i : Nat) (l l' : Layer), (∀ t ∈ ts, ∀ a ∈ txnAddrs P t, a ∈ U) →
      groupLoop P x g g0 used i l ts = .ok l' → money P x l' U = money P x l U := by
  intro ts
  induction ts with
  | nil => intro used i l l' _ h; cases h; rfl
  | cons t r ih =>
    intro used i l l' hA h
    unfold groupLoop at h
    split at h
    · cases h
    · rename_i l1 h1
      split at h
      · cases h
      · split at h
        · cases h
        · split at h
          · cases h
          · rw [ih _ (i + 1) l1 l' (fun t' ht' => hA t' (List.mem_cons_of_mem _ ht')) h]
            exact evalTxn_conserves hU (hA t List.mem_cons_self) h1

end AlgoVerif.Lemmas.LedgerCore
