import AlgoVerif.Lemmas.OnlineAcctsCirc
/-! C13: the top-N answer of the tracker (candidate merge + sort + total) is the history's. -/
namespace AlgoVerif.Lemmas.OnlineAccts
open AlgoVerif.Spec.OnlineHistory AlgoVerif.Model.OnlineAccts

/-- what the evaluator guarantees about every Online account state of a history: it carries voting data and (holding the
    minimum balance) its normalised balance under the genesis reward unit is positive -/
def HistWF (h : Hist) : Prop :=
  ∀ b ∈ h.rounds, ∀ e ∈ b.deltas, e.2.online = true →
    e.2.core.votingEmpty = false ∧ normBal (protoOf h.protos h.gen.proto).unit e.2.bal e.2.rb ≠ some 0

theorem lookup_mem {d : Delta} {a : Addr} {x : Acct} (h : d.lookup a = some x) : (a, x) ∈ d := by
  induction d with
  | nil => simp [List.lookup] at h
  | cons e tl ih =>
    obtain ⟨k, v⟩ := e
    simp only [List.lookup] at h
    split at h
    · rename_i heq
      have : a = k := by simpa using heq
      cases h; simp [this]
    · exact List.mem_cons_of_mem _ (ih h)

theorem lastIn_mem : ∀ (ds : List Delta) (a : Addr) (x : Acct), lastIn ds a = some x → ∃ d ∈ ds, (a, x) ∈ d := by
  intro ds
  induction ds with
  | nil => intro a x h; simp [lastIn] at h
  | cons d ds ih =>
    intro a x h
    simp only [lastIn] at h
    cases h1 : lastIn ds a with
    | some y =>
      rw [h1] at h; cases h
      obtain ⟨d', hd', hm⟩ := ih a x h1
      exact ⟨d', by simp [hd'], hm⟩
    | none =>
      rw [h1] at h
      exact ⟨d, by simp, lookup_mem h⟩

theorem HistWF.acctAt {h : Hist} (wf : HistWF h) {rnd : Nat} {a : Addr} {x : Acct} (hx : acctAt h rnd a = some x)
    (hon : x.online = true) :
    x.core.votingEmpty = false ∧ normBal (protoOf h.protos h.gen.proto).unit x.bal x.rb ≠ some 0 := by
  unfold Spec.OnlineHistory.acctAt at hx
  obtain ⟨d, hd, hm⟩ := lastIn_mem _ a x hx
  obtain ⟨b, hb, rfl⟩ := List.mem_map.mp hd
  exact wf b (List.mem_of_mem_take hb) (a, x) hm hon

theorem cand_online (g : Nat) (a : Addr) (d : Acct) (v : Nat) (hon : d.online = true) :
    (if (!(d.core.validAt v)) = true then (.ok none : Except Err (Option TopEntry)) else mkTop g a d.core) =
      topCandidate g a (some d) v := by
  unfold topCandidate mkTop
  cases hv : d.core.validAt v
  · simp [hon, hv]
  · simp only [hon, hv, Bool.not_true, Bool.false_eq_true, if_false, Bool.and_self, if_true]
    rfl

theorem paramsAt_err {σ : State} {rnd : Nat} {e : Err} (h : paramsAt σ rnd = .error e) : e = .beforeDb ∨ e = .tooHigh := by
  unfold paramsAt roundParamsOffset at h
  by_cases h1 : rnd < paramsStart σ
  · simp [h1] at h; exact Or.inl h.symm
  · by_cases h2 : rnd - paramsStart σ ≥ σ.params.length
    · simp [h1, h2] at h; exact Or.inr h.symm
    · simp only [h1, h2, if_false] at h
      cases hp : σ.params[rnd - paramsStart σ]? with
      | none => simp [hp] at h; exact Or.inr h.symm
      | some q => simp [hp] at h

/-- one address of the candidate merge against the history -/
theorem InvCore.topCandidate_eq {σ : State} {M : Nat} (inv : InvCore σ M) (wf : HistWF σ.hist) (rnd voteRnd : Nat) (a : Addr)
    (h1 : σ.dbParamsStart ≤ rnd) (h2 : rnd ≤ σ.latest) :
    topCandidateM σ (!decide (rnd < σ.dbRound)) (if rnd < σ.dbRound then 0 else rnd - σ.dbRound) rnd voteRnd a =
      topCandidate σ.genesisUnit a (acctAt σ.hist rnd a) voteRnd := by
  have hrec := inv.recAt_db rnd a h1 h2
  have hacct : acctAt σ.hist rnd a =
      match (if rnd < σ.dbRound then none else lastIn (σ.deltas.take (rnd - σ.dbRound)) a) with
      | some x => some x
      | none => acctAt σ.hist rnd a := by
    by_cases hh : rnd < σ.dbRound
    · simp [hh]
    · simp only [hh, if_false]
      have hD : σ.dbRound ≤ rnd := by omega
      have hd : (σ.hist.blocks.drop σ.dbRound).map (·.deltas) = σ.deltas := by rw [inv.hdeltas]; rfl
      have := acctAt_split σ.hist σ.dbRound rnd a hD
      rw [hd] at this
      cases hl : lastIn (σ.deltas.take (rnd - σ.dbRound)) a with
      | some x => rw [this, hl]
      | none => rfl
  have hsel : (if (!decide (rnd < σ.dbRound)) = true then lastIn (σ.deltas.take (if rnd < σ.dbRound then 0 else rnd - σ.dbRound)) a else none) =
      (if rnd < σ.dbRound then none else lastIn (σ.deltas.take (rnd - σ.dbRound)) a) := by
    by_cases hh : rnd < σ.dbRound <;> simp [hh]
  unfold topCandidateM
  rw [hsel]
  cases hd : (if rnd < σ.dbRound then none else lastIn (σ.deltas.take (rnd - σ.dbRound)) a) with
  | some d =>
    rw [hd] at hacct
    simp only at hacct ⊢
    rw [hacct]
    by_cases hon : d.online = true
    · simp only [hon, Bool.not_true, Bool.false_eq_true, if_false]
      exact cand_online σ.genesisUnit a d voteRnd hon
    · simp [hon, topCandidate]
  | none =>
    rw [hd] at hrec
    simp only at hrec ⊢
    have hg : σ.genesisUnit = (protoOf σ.hist.protos σ.hist.gen.proto).unit := rfl
    cases hox : acctAt σ.hist rnd a with
    | none =>
      have hz : recOfRow (rowAt (σ.db a) rnd) = ORec.zero := by
        rw [← hrec]; unfold recAt; rw [hox]; rfl
      cases hrow : rowAt (σ.db a) rnd with
      | none => simp [topCandidate]
      | some row =>
        rw [hrow] at hz
        simp only [recOfRow] at hz
        have hrk := (inv.hrows a).2.2 row (rowAt_mem hrow).1
        have hn : row.norm = 0 := (hrk.1 (by rw [hz]; exact zero_votingEmpty)).2
        simp [hn, topCandidate]
    | some x =>
      have hz : recOfRow (rowAt (σ.db a) rnd) = x.orec := by
        rw [← hrec]; unfold recAt; rw [hox]; rfl
      by_cases hon : x.online = true
      · obtain ⟨hk, hnp⟩ := wf.acctAt hox hon
        rw [orec_online hon] at hz
        cases hrow : rowAt (σ.db a) rnd with
        | none =>
          rw [hrow] at hz
          simp only [recOfRow] at hz
          rw [← hz] at hk
          simp [zero_votingEmpty] at hk
        | some row =>
          rw [hrow] at hz
          simp only [recOfRow] at hz
          have hrk := (inv.hrows a).2.2 row (rowAt_mem hrow).1
          have hnb := hrk.2 (by rw [hz]; exact hk)
          rw [hz] at hnb
          have hn : row.norm ≠ 0 := by
            intro h0; rw [h0] at hnb; rw [hg] at *; exact hnp hnb
          simp only [hn, if_false, hz]
          exact cand_online σ.genesisUnit a x voteRnd hon
      · have hoff : x.online = false := by cases hx : x.online <;> simp_all
        rw [orec_offline hoff] at hz
        cases hrow : rowAt (σ.db a) rnd with
        | none => simp [topCandidate, hoff]
        | some row =>
          rw [hrow] at hz
          simp only [recOfRow] at hz
          have hrk := (inv.hrows a).2.2 row (rowAt_mem hrow).1
          have hn : row.norm = 0 := (hrk.1 (by rw [hz]; exact zero_votingEmpty)).2
          simp [hn, topCandidate, hoff]

theorem InvCore.paramsAt_not_tooHigh {σ : State} {M : Nat} (inv : InvCore σ M) {rnd : Nat} (h : rnd ≤ σ.latest) :
    paramsAt σ rnd ≠ .error .tooHigh := by
  obtain ⟨s, hs1, hs2, hs3, _⟩ := inv.hparams
  have hlat := inv.latest_eq
  have hstart : paramsStart σ = s := by
    unfold paramsStart
    have : σ.params.length ≤ σ.latest + 1 := by omega
    simp [this]; omega
  unfold paramsAt roundParamsOffset
  rw [hstart]
  by_cases h1 : rnd < s
  · simp [h1]
  · have h2 : ¬ rnd - s ≥ σ.params.length := by omega
    simp only [h1, h2, if_false]
    have : rnd - s < σ.params.length := by omega
    rw [List.getElem?_eq_getElem this]
    simp

theorem InvCore.totalsEx_paramsEx {σ : State} {M : Nat} (inv : InvCore σ M) {rnd : Nat} {p : Params} (h : rnd ≤ σ.latest)
    (ht : totalsEx σ rnd = .ok p) : paramsEx σ rnd = .ok p := by
  unfold totalsEx at ht
  unfold paramsEx
  cases hm : paramsAt σ rnd with
  | ok q => rw [hm] at ht; exact ht
  | error e =>
    rw [hm] at ht
    cases e with
    | beforeDb => exact ht
    | tooHigh => exact absurd hm (inv.paramsAt_not_tooHigh h)
    | _ => rcases paramsAt_err hm with h' | h' <;> cases h'

/-- **top-N**: whenever the round's totals can be found (memory or DB), `TopOnlineAccounts` is the history's top-N -/
theorem InvCore.topOnline_eq {σ : State} {M : Nat} (inv : InvCore σ M) (iexp : InvExp σ) (wf : HistWF σ.hist)
    (rnd voteRnd n : Nat) (p : Params) (hp : totalsEx σ rnd = .ok p) :
    (topOnline σ rnd voteRnd n).1 = topN σ.hist rnd voteRnd n := by
  obtain ⟨h1, h2, b, hb, hpb⟩ := inv.totalsEx_ok hp
  have hpx := inv.totalsEx_paramsEx h2 hp
  have hlat := inv.latest_eq
  unfold topOnline topN topList topTotal
  rw [roundOffset_le h2]
  have hnot : ¬ rnd > σ.hist.latest := by
    have : σ.hist.latest = σ.ledger.length := rfl
    omega
  have hun : σ.hist.univ = σ.univ := rfl
  have hg : (protoOf σ.hist.protos σ.hist.gen.proto).unit = σ.genesisUnit := rfl
  have hmap : σ.univ.map (topCandidateM σ (!decide (rnd < σ.dbRound)) (if rnd < σ.dbRound then 0 else rnd - σ.dbRound) rnd voteRnd) =
      σ.univ.map (fun a => topCandidate σ.genesisUnit a (acctAt σ.hist rnd a) voteRnd) := by
    apply List.map_congr_left
    intro a _
    exact inv.topCandidate_eq wf rnd voteRnd a h1 h2
  have hexp := inv.expiredCirc_eq iexp rnd voteRnd p hpx
  have hsup : p.supply = b.supply := by rw [hpb]; rfl
  simp only [hnot, if_false, hun, hg, hb]
  by_cases hh : rnd < σ.dbRound
  · simp only [hh, if_true] at hmap ⊢
    simp only [decide_true, Bool.not_true] at hmap
    rw [hmap, hp]
    cases collect (σ.univ.map fun a => topCandidate σ.genesisUnit a (acctAt σ.hist rnd a) voteRnd) with
    | error e => rfl
    | ok cands =>
      simp only
      cases hc : expiredCirc σ rnd voteRnd with
      | mk r σ' =>
        rw [hc] at hexp
        simp only at hexp
        rw [← hexp, hsup]
        cases r with
        | error e => rfl
        | ok x => simp only; cases subStake b.supply x <;> rfl
  · simp only [hh, if_false] at hmap ⊢
    simp only [decide_false, Bool.not_false] at hmap
    rw [hmap, hp]
    cases collect (σ.univ.map fun a => topCandidate σ.genesisUnit a (acctAt σ.hist rnd a) voteRnd) with
    | error e => rfl
    | ok cands =>
      simp only
      cases hc : expiredCirc σ rnd voteRnd with
      | mk r σ' =>
        rw [hc] at hexp
        simp only at hexp
        rw [← hexp, hsup]
        cases r with
        | error e => rfl
        | ok x => simp only; cases subStake b.supply x <;> rfl

end AlgoVerif.Lemmas.OnlineAccts
