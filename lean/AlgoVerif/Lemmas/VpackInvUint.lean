import AlgoVerif.Lemmas.VpackInv
/-! Inversion of `readUintBytes`: the accepted encodings are exactly the images of `msgp.AppendUint64`. -/
set_option linter.unusedSimpArgs false
namespace AlgoVerif.Lemmas.Vpack
open AlgoVerif.Model.Vpack AlgoVerif.Spec.Vpack

theorem varuintRemaining_cases {b : UInt8} {m : Nat} (h : varuintRemaining b = some m) :
    (b = 0xcc ∧ m = 1) ∨ (b = 0xcd ∧ m = 2) ∨ (b = 0xce ∧ m = 4) ∨ (b = 0xcf ∧ m = 8) ∨ (b.toNat < 128 ∧ m = 0) := by
  unfold varuintRemaining at h
  split at h
  · rename_i hb; cases h; exact Or.inl ⟨hb, rfl⟩
  split at h
  · rename_i hb; cases h; exact Or.inr (Or.inl ⟨hb, rfl⟩)
  split at h
  · rename_i hb; cases h; exact Or.inr (Or.inr (Or.inl ⟨hb, rfl⟩))
  split at h
  · rename_i hb; cases h; exact Or.inr (Or.inr (Or.inr (Or.inl ⟨hb, rfl⟩)))
  split at h
  · rename_i hb
    cases h
    refine Or.inr (Or.inr (Or.inr (Or.inr ⟨?_, rfl⟩)))
    have := congrArg UInt8.toNat hb
    rw [UInt8.toNat_shiftRight] at this
    simp at this
    omega
  · cases h

theorem u8_ne_zero {a : UInt8} (h : a ≠ 0) : 1 ≤ a.toNat := by
  apply Classical.byContradiction
  intro hc
  apply h
  apply u8_eq_of_toNat
  have : (0 : UInt8).toNat = 0 := rfl
  omega

theorem beq_zero_false {a : UInt8} (h : (a == 0) = false) : 1 ≤ a.toNat := by
  apply u8_ne_zero
  intro hc
  rw [hc] at h
  simp at h

/-- a minimal 1-byte payload -/
theorem min1 (v : UInt8) (h : nonMinimal [v] = false) : appendUint64 v.toNat = [0xcc, v] := by
  have hv : 128 ≤ v.toNat := by
    simp only [nonMinimal, List.length_singleton] at h
    have h' : ¬ (v < 0x80) := by simpa using h
    have e : (0x80 : UInt8).toNat = 128 := rfl
    apply Classical.byContradiction
    intro hc
    exact h' (UInt8.lt_iff_toNat_lt.mpr (by rw [e]; omega))
  have hlt := UInt8.toNat_lt v
  unfold appendUint64
  rw [if_neg (by omega), if_pos (by omega), UInt8.ofNat_toNat]

theorem min2 (a b : UInt8) (h : nonMinimal [a, b] = false) :
    appendUint64 (a.toNat * 256 + b.toNat) = [0xcd, a, b] := by
  have ha : 1 ≤ a.toNat := by
    simp [nonMinimal] at h
    exact u8_ne_zero h
  have la := UInt8.toNat_lt a
  have lb := UInt8.toNat_lt b
  unfold appendUint64
  rw [if_neg (by omega), if_neg (by omega), if_pos (by omega)]
  rw [ofNat_eq (_ / 256) a (by omega), ofNat_eq _ b (by omega)]

theorem min4 (a b c d : UInt8) (h : nonMinimal [a, b, c, d] = false) :
    appendUint64 (((a.toNat * 256 + b.toNat) * 256 + c.toNat) * 256 + d.toNat) = [0xce, a, b, c, d] := by
  have hab : 1 ≤ a.toNat ∨ 1 ≤ b.toNat := by
    simp [nonMinimal] at h
    by_cases ha : a = 0
    · exact Or.inr (u8_ne_zero (h ha))
    · exact Or.inl (u8_ne_zero ha)
  have la := UInt8.toNat_lt a
  have lb := UInt8.toNat_lt b
  have lc := UInt8.toNat_lt c
  have ld := UInt8.toNat_lt d
  unfold appendUint64
  rw [if_neg (by omega), if_neg (by omega), if_neg (by omega), if_pos (by omega)]
  rw [ofNat_eq (_ / 16777216) a (by omega), ofNat_eq (_ / 65536) b (by omega), ofNat_eq (_ / 256) c (by omega),
    ofNat_eq _ d (by omega)]

theorem min8 (a b c d e f g i : UInt8) (h : nonMinimal [a, b, c, d, e, f, g, i] = false) :
    appendUint64 (((((((a.toNat * 256 + b.toNat) * 256 + c.toNat) * 256 + d.toNat) * 256 + e.toNat) * 256 + f.toNat) * 256 +
      g.toNat) * 256 + i.toNat) = [0xcf, a, b, c, d, e, f, g, i] ∧
    (((((((a.toNat * 256 + b.toNat) * 256 + c.toNat) * 256 + d.toNat) * 256 + e.toNat) * 256 + f.toNat) * 256 +
      g.toNat) * 256 + i.toNat) < M64 := by
  have hab : 1 ≤ a.toNat ∨ 1 ≤ b.toNat ∨ 1 ≤ c.toNat ∨ 1 ≤ d.toNat := by
    simp [nonMinimal] at h
    by_cases ha : a = 0
    · by_cases hb : b = 0
      · by_cases hc : c = 0
        · exact Or.inr (Or.inr (Or.inr (u8_ne_zero (h ha hb hc))))
        · exact Or.inr (Or.inr (Or.inl (u8_ne_zero hc)))
      · exact Or.inr (Or.inl (u8_ne_zero hb))
    · exact Or.inl (u8_ne_zero ha)
  have la := UInt8.toNat_lt a
  have lb := UInt8.toNat_lt b
  have lc := UInt8.toNat_lt c
  have ld := UInt8.toNat_lt d
  have le := UInt8.toNat_lt e
  have lf := UInt8.toNat_lt f
  have lg := UInt8.toNat_lt g
  have li := UInt8.toNat_lt i
  constructor
  · unfold appendUint64
    rw [if_neg (by omega), if_neg (by omega), if_neg (by omega), if_neg (by omega)]
    rw [ofNat_eq (_ / 72057594037927936) a (by omega), ofNat_eq (_ / 281474976710656) b (by omega),
      ofNat_eq (_ / 1099511627776) c (by omega), ofNat_eq (_ / 4294967296) d (by omega),
      ofNat_eq (_ / 16777216) e (by omega), ofNat_eq (_ / 65536) f (by omega), ofNat_eq (_ / 256) g (by omega),
      ofNat_eq _ i (by omega)]
  · simp only [M64]; omega

theorem appendUint64_lt_of (x : Nat) (hx : x < 4294967296) : x < M64 := by simp only [M64]; omega

/-- `readUintBytes` succeeds only on `appendUint64 x ++ rest` -/
theorem readUintBytes_inv {p p' : PS} {d : Bytes} (h : readUintBytes p = .ok (d, p')) :
    ∃ x r, x < M64 ∧ d = appendUint64 x ∧ p.rem = d ++ r ∧ p' = { p with rem := r } := by
  unfold readUintBytes at h
  split at h
  · cases h
  · rename_i b r hrem
    split at h
    · cases h
    · rename_i more hm
      rcases varuintRemaining_cases hm with ⟨hb, rfl⟩ | ⟨hb, rfl⟩ | ⟨hb, rfl⟩ | ⟨hb, rfl⟩ | ⟨hb, rfl⟩
      · -- uint8
        rw [if_neg (by decide)] at h
        rcases r with _ | ⟨v, r'⟩
        · simp at h
        · simp only [List.length_cons, List.take_succ_cons, List.take_zero, List.drop_succ_cons, List.drop_zero] at h
          rw [if_pos (by omega)] at h
          split at h
          · cases h
          · rename_i hnm
            simp only [Except.ok.injEq, Prod.mk.injEq] at h
            obtain ⟨hd, hp⟩ := h
            have := min1 v (by simpa using hnm)
            refine ⟨v.toNat, r', appendUint64_lt_of _ (by have := UInt8.toNat_lt v; omega), ?_, ?_, hp.symm⟩
            · rw [this, ← hd, hb]
            · rw [hrem, ← hd]; rfl
      · -- uint16
        rw [if_neg (by decide)] at h
        rcases r with _ | ⟨a, _ | ⟨c, r'⟩⟩
        · simp at h
        · simp at h
        · simp only [List.length_cons, List.take_succ_cons, List.take_zero, List.drop_succ_cons, List.drop_zero] at h
          rw [if_pos (by omega)] at h
          split at h
          · cases h
          · rename_i hnm
            simp only [Except.ok.injEq, Prod.mk.injEq] at h
            obtain ⟨hd, hp⟩ := h
            have := min2 a c (by simpa using hnm)
            have la := UInt8.toNat_lt a
            have lc := UInt8.toNat_lt c
            refine ⟨a.toNat * 256 + c.toNat, r', appendUint64_lt_of _ (by omega), ?_, ?_, hp.symm⟩
            · rw [this, ← hd, hb]
            · rw [hrem, ← hd]; rfl
      · -- uint32
        rw [if_neg (by decide)] at h
        rcases r with _ | ⟨a, _ | ⟨c, _ | ⟨e, _ | ⟨f, r'⟩⟩⟩⟩
        · simp at h
        · simp at h
        · simp at h
        · simp at h
        · simp only [List.length_cons, List.take_succ_cons, List.take_zero, List.drop_succ_cons, List.drop_zero] at h
          rw [if_pos (by omega)] at h
          split at h
          · cases h
          · rename_i hnm
            simp only [Except.ok.injEq, Prod.mk.injEq] at h
            obtain ⟨hd, hp⟩ := h
            have := min4 a c e f (by simpa using hnm)
            have la := UInt8.toNat_lt a
            have lc := UInt8.toNat_lt c
            have le := UInt8.toNat_lt e
            have lf := UInt8.toNat_lt f
            refine ⟨((a.toNat * 256 + c.toNat) * 256 + e.toNat) * 256 + f.toNat, r', appendUint64_lt_of _ (by omega), ?_, ?_, hp.symm⟩
            · rw [this, ← hd, hb]
            · rw [hrem, ← hd]; rfl
      · -- uint64
        rw [if_neg (by decide)] at h
        rcases r with _ | ⟨a1, _ | ⟨a2, _ | ⟨a3, _ | ⟨a4, _ | ⟨a5, _ | ⟨a6, _ | ⟨a7, _ | ⟨a8, r'⟩⟩⟩⟩⟩⟩⟩⟩
        · simp at h
        · simp at h
        · simp at h
        · simp at h
        · simp at h
        · simp at h
        · simp at h
        · simp at h
        · simp only [List.length_cons, List.take_succ_cons, List.take_zero, List.drop_succ_cons, List.drop_zero] at h
          rw [if_pos (by omega)] at h
          split at h
          · cases h
          · rename_i hnm
            simp only [Except.ok.injEq, Prod.mk.injEq] at h
            obtain ⟨hd, hp⟩ := h
            have := min8 a1 a2 a3 a4 a5 a6 a7 a8 (by simpa using hnm)
            refine ⟨_, r', this.2, ?_, ?_, hp.symm⟩
            · rw [this.1, ← hd, hb]
            · rw [hrem, ← hd]; rfl
      · -- fixint
        rw [if_pos rfl] at h
        simp only [Except.ok.injEq, Prod.mk.injEq] at h
        obtain ⟨hd, hp⟩ := h
        refine ⟨b.toNat, r, appendUint64_lt_of _ (by omega), ?_, ?_, hp.symm⟩
        · unfold appendUint64
          rw [if_pos (by omega), UInt8.ofNat_toNat, hd]
        · rw [hrem, ← hd]; rfl

end AlgoVerif.Lemmas.Vpack
