/-
Lemmas for Model.AsmFormat: the token level, whole programs. Parsing the statements `printProg` prints gives the program back.
-/
import AlgoVerif.Lemmas.AsmFormatText
namespace Lemmas.AsmFormat
open Model.OpTables Model.AsmFormat

/-- number of constants of a constant-block instruction -/
def blockLen (i : Instr) : Nat :=
  match i.imms with
  | [.ints vs] => vs.length
  | [.bytess bs] => bs.length
  | _ => 0

def nextI (env : Env) (aI : Nat) (i : Instr) : Nat := if classOf env i.spec = .intcBlock then max aI (blockLen i) else aI
def nextB (env : Env) (aB : Nat) (i : Instr) : Nat := if classOf env i.spec = .bytecBlock then max aB (blockLen i) else aB

/-- every explicit constant load names an index below the size of a constant block that precedes it -/
def ConstsOKFrom (env : Env) : Nat → Nat → List Instr → Prop
  | _, _, [] => True
  | aI, aB, i :: rest =>
    (classOf env i.spec = .intc → ∀ b, i.imms = [.byte b] → b < aI) ∧
    (classOf env i.spec = .bytec → ∀ b, i.imms = [.byte b] → b < aB) ∧
    ConstsOKFrom env (nextI env aI i) (nextB env aB i) rest

def pinstrsOf (order : List Nat) : List Instr → Option (List PInstr)
  | [] => some []
  | i :: rest =>
    match pimmsOf order i.imms, pinstrsOf order rest with
    | some ps, some r => some (⟨i.spec, ps⟩ :: r)
    | _, _ => none

/-- the label table while the printed program is parsed: exactly the generated labels of the positions below `k` -/
def LabelsInv (order : List Nat) (labels : List (LName × Nat)) (k : Nat) : Prop :=
  (∀ nm idx, (nm, idx) ∈ labels → ∃ n, nm = .gen n ∧ labelNo order idx = some n ∧ idx < k) ∧
  (∀ idx n, idx < k → labelNo order idx = some n → (LName.gen n, idx) ∈ labels)

theorem labelsInv_mono {order : List Nat} {labels : List (LName × Nat)} {k : Nat} (h : LabelsInv order labels k)
    (hn : labelNo order k = none) : LabelsInv order labels (k + 1) := by
  refine ⟨?_, ?_⟩
  · intro nm idx hm
    obtain ⟨n, a, b, c⟩ := h.1 nm idx hm
    exact ⟨n, a, b, by omega⟩
  · intro idx n hlt hl
    rcases Nat.lt_or_ge idx k with h1 | h1
    · exact h.2 idx n h1 hl
    · have : idx = k := by omega
      subst this; rw [hn] at hl; cases hl

/-- the label statement in front of position `k` -/
theorem parse_labelStmt {env : Env} {v : Nat} {order : List Nat} {st : PState} {k : Nat} {rest : List Stmt}
    (hk : st.out.length = k) (hl : LabelsInv order st.labels k) :
    ∃ st1, parseStmts env v st (labelStmt order k ++ rest) = parseStmts env v st1 rest ∧ st1.out = st.out ∧
      st1.anyIntc = st.anyIntc ∧ st1.anyBytec = st.anyBytec ∧ LabelsInv order st1.labels (k + 1) := by
  unfold labelStmt
  cases hn : labelNo order k with
  | none => exact ⟨st, rfl, rfl, rfl, rfl, labelsInv_mono hl hn⟩
  | some n =>
    have hfresh : st.labels.any (fun p => p.1 = LName.gen n) = false := by
      rw [Bool.eq_false_iff]
      intro hany
      rw [List.any_eq_true] at hany
      obtain ⟨p, hp, he⟩ := hany
      obtain ⟨n', a, b, c⟩ := hl.1 p.1 p.2 hp
      simp only [decide_eq_true_eq] at he
      rw [a] at he
      simp only [LName.gen.injEq] at he
      subst he
      have := labelNo_inj b hn
      omega
    refine ⟨{ st with labels := (.gen n, st.out.length) :: st.labels, dead := false }, ?_, rfl, rfl, rfl, ?_⟩
    · simp only [List.cons_append, List.nil_append, parseStmts, parseStmt, defineLabel, hfresh, Bool.false_eq_true,
        if_false, Except.map]
    · refine ⟨?_, ?_⟩
      · intro nm idx hm
        simp only [List.mem_cons, Prod.mk.injEq] at hm
        rcases hm with ⟨rfl, rfl⟩ | hm
        · exact ⟨n, rfl, by rw [hk]; exact hn, by omega⟩
        · obtain ⟨n', a, b, c⟩ := hl.1 nm idx hm
          exact ⟨n', a, b, by omega⟩
      · intro idx n' hlt hln
        rcases Nat.lt_or_ge idx k with h1 | h1
        · exact List.mem_cons_of_mem _ (hl.2 idx n' h1 hln)
        · have : idx = k := by omega
          subst this
          rw [hn] at hln
          simp only [Option.some.injEq] at hln
          subst hln
          rw [hk]
          exact List.mem_cons_self

/-- the number of tokens a constant block prints is its number of constants -/
theorem cblock_len {env : Env} {v : Nat} {i : Instr} {order : List Nat} {toks : List Tok} (hi : InstrInv env v i)
    (hp : printImms env order i.spec.imms i.imms = some toks)
    (hc : classOf env i.spec = .intcBlock ∨ classOf env i.spec = .bytecBlock) : toks.length = blockLen i := by
  obtain ⟨_, hsh, him, _, _⟩ := hi
  rcases hc with hc | hc
  · rw [hc] at hsh
    simp only [shapeOK, beq_iff_eq] at hsh
    obtain ⟨im, e, k⟩ := kinds_one hsh
    rw [e] at him hp
    cases hx : i.imms with
    | nil => rw [hx] at him; simp [ImmsInv] at him
    | cons x rest =>
      rw [hx] at him hp
      obtain ⟨h1, _, h2⟩ := him
      cases rest with
      | cons _ _ => simp [ImmsInv] at h2
      | nil =>
        cases x with
        | ints vs =>
          simp only [printImms, printImm, Option.some.injEq] at hp
          subst hp
          simp [blockLen, hx]
        | byte b => simp only [ImmInv] at h1; omega
        | uint n => simp only [ImmInv] at h1; omega
        | bytes bs => simp only [ImmInv] at h1; omega
        | bytess bss => simp only [ImmInv] at h1; omega
        | label t => simp only [ImmInv] at h1; omega
        | vlabel t => simp only [ImmInv] at h1; omega
        | labels ts => simp only [ImmInv] at h1; omega
  · rw [hc] at hsh
    simp only [shapeOK, beq_iff_eq] at hsh
    obtain ⟨im, e, k⟩ := kinds_one hsh
    rw [e] at him hp
    cases hx : i.imms with
    | nil => rw [hx] at him; simp [ImmsInv] at him
    | cons x rest =>
      rw [hx] at him hp
      obtain ⟨h1, _, h2⟩ := him
      cases rest with
      | cons _ _ => simp [ImmsInv] at h2
      | nil =>
        cases x with
        | bytess bss =>
          simp only [printImms, printImm, Option.some.injEq] at hp
          subst hp
          simp [blockLen, hx]
        | byte b => simp only [ImmInv] at h1; omega
        | uint n => simp only [ImmInv] at h1; omega
        | bytes bs => simp only [ImmInv] at h1; omega
        | ints vs => simp only [ImmInv] at h1; omega
        | label t => simp only [ImmInv] at h1; omega
        | vlabel t => simp only [ImmInv] at h1; omega
        | labels ts => simp only [ImmInv] at h1; omega

/-- parsing the printed statements of the instructions from position `k` on -/
theorem parseStmts_print {env : Env} {v : Nat} {order : List Nat} (hps : PseudoOK env) (h2 : env.constRule = 2) :
    ∀ (rest : List Instr) (k : Nat) (st : PState) (stmts : List Stmt),
    (∀ i ∈ rest, InstrInv env v i) → ConstsOKFrom env st.anyIntc st.anyBytec rest →
    printGo env order k rest = some stmts → st.out.length = k → LabelsInv order st.labels k →
    ∃ st' ps, parseStmts env v st stmts = .ok st' ∧ pinstrsOf order rest = some ps ∧ st'.out = ps.reverse ++ st.out ∧
      LabelsInv order st'.labels (k + rest.length + 1)
  | [], k, st, stmts, _, _, hp, hk, hl => by
    simp only [printGo, Option.some.injEq] at hp; subst hp
    obtain ⟨st1, e, o, _, _, l⟩ := parse_labelStmt (env := env) (v := v) (rest := []) hk hl
    rw [List.append_nil] at e
    refine ⟨st1, [], ?_, rfl, by simp [o], by simpa using l⟩
    rw [e]; rfl
  | i :: rest, k, st, stmts, hi, hc, hp, hk, hl => by
    simp only [printGo] at hp
    cases hpi : printInstr env order i with
    | none => simp [hpi] at hp
    | some s =>
      cases hpr : printGo env order (k + 1) rest with
      | none => simp [hpi, hpr] at hp
      | some r =>
        simp only [hpi, hpr, Option.some.injEq] at hp; subst hp
        unfold printInstr at hpi
        simp only [Option.map_eq_some_iff] at hpi
        obtain ⟨toks, hpt, rfl⟩ := hpi
        obtain ⟨st1, e1, o1, a1, b1, l1⟩ := parse_labelStmt (env := env) (v := v)
          (rest := (Tok.name i.spec.name :: toks) :: r) hk hl
        have hinv := hi i List.mem_cons_self
        obtain ⟨c1, c2, c3⟩ := hc
        have hconst : ConstOKAt env st1 i := by
          refine ⟨?_, ?_⟩
          · intro hcl b hb
            have := c1 hcl b hb
            simp only [constDefined, h2, a1]
            simp [this]
          · intro hcl b hb
            have := c2 hcl b hb
            simp only [constDefined, h2, b1]
            simp [this]
        obtain ⟨ps, st2, hps1, hasm, hupd⟩ := asmInstr_print (st := st1) hps hinv hpt hconst
        obtain ⟨u1, u2, u3, u4, u5⟩ := hupd
        -- the state after this instruction
        let st3 : PState := { st2 with
          out := ⟨i.spec, ps⟩ :: st2.out
          dead := (if i.spec.name = "callsub" then false else (if env.deadens.contains i.spec.id then true else st2.dead)) }
        have hstep : parseStmts env v st1 ((Tok.name i.spec.name :: toks) :: r) = parseStmts env v st3 r := by
          simp only [parseStmts, parseStmt, hasm]
          rfl
        have hc3 : ConstsOKFrom env st3.anyIntc st3.anyBytec rest := by
          have e1' : st3.anyIntc = nextI env st.anyIntc i := by
            show st2.anyIntc = _
            rw [u4, a1]
            unfold nextI
            split
            · rename_i hcl; rw [cblock_len hinv hpt (Or.inl hcl)]
            · rfl
          have e2' : st3.anyBytec = nextB env st.anyBytec i := by
            show st2.anyBytec = _
            rw [u5, b1]
            unfold nextB
            split
            · rename_i hcl; rw [cblock_len hinv hpt (Or.inr hcl)]
            · rfl
          rw [e1', e2']; exact c3
        have hk3 : st3.out.length = k + 1 := by
          show (⟨i.spec, ps⟩ :: st2.out).length = k + 1
          rw [u1, o1]; simp [hk]
        have hl3 : LabelsInv order st3.labels (k + 1) := by
          show LabelsInv order st2.labels (k + 1)
          rw [u2]; exact l1
        obtain ⟨st', ps', f1, f2, f3, f4⟩ := parseStmts_print hps h2 rest (k + 1) st3 r
          (fun j hj => hi j (List.mem_cons_of_mem _ hj)) hc3 hpr hk3 hl3
        refine ⟨st', ⟨i.spec, ps⟩ :: ps', ?_, by simp [pinstrsOf, hps1, f2], ?_, ?_⟩
        · rw [e1, hstep, f1]
        · rw [f3]
          show ps'.reverse ++ (⟨i.spec, ps⟩ :: st2.out) = _
          rw [u1, o1]; simp
        · rw [show k + (i :: rest).length + 1 = k + 1 + rest.length + 1 by simp; omega]; exact f4

/-! ### resolving the generated label names -/

theorem lookup_gen {order : List Nat} {labels : List (LName × Nat)} {k t n : Nat} (hl : LabelsInv order labels k)
    (ht : t < k) (hn : labelNo order t = some n) : lookupLabel labels (.gen n) = .ok t := by
  have hm := hl.2 t n ht hn
  unfold lookupLabel
  cases hf : labels.find? (fun p => p.1 = LName.gen n) with
  | none =>
    have := List.find?_eq_none.mp hf (LName.gen n, t) hm
    simp at this
  | some e =>
    have he := List.find?_some hf
    simp only [decide_eq_true_eq] at he
    have hmem := List.mem_of_find?_eq_some hf
    obtain ⟨n', a, b, _⟩ := hl.1 e.1 e.2 hmem
    rw [a] at he
    simp only [LName.gen.injEq] at he
    subst he
    simp only [labelNo_inj b hn]

theorem lookups_gen {order : List Nat} {labels : List (LName × Nat)} {k : Nat} (hl : LabelsInv order labels k) :
    ∀ (ts : List Nat) (ns : List LName), (∀ t ∈ ts, t < k) → labelNames order ts = some ns →
    lookupLabels labels ns = .ok ts
  | [], ns, _, h => by simp only [labelNames, Option.some.injEq] at h; subst h; rfl
  | t :: ts, ns, ht, h => by
    simp only [labelNames] at h
    cases h1 : labelNo order t with
    | none => simp [h1] at h
    | some n =>
      cases h2 : labelNames order ts with
      | none => simp [h1, h2] at h
      | some r =>
        simp only [h1, h2, Option.some.injEq] at h; subst h
        simp only [lookupLabels, lookup_gen hl (ht t List.mem_cons_self) h1,
          lookups_gen hl ts r (fun q hq => ht q (List.mem_cons_of_mem _ hq)) h2]

theorem fixImm_pimm {order : List Nat} {labels : List (LName × Nat)} {k : Nat} (hl : LabelsInv order labels k)
    {x : Model.AsmFormat.Imm} {p : PImm} (ht : ∀ t ∈ immTargets x, t < k) (h : pimmOf order x = some p) :
    fixImm labels p = .ok x := by
  cases x with
  | label t =>
    simp only [pimmOf, Option.map_eq_some_iff] at h
    obtain ⟨n, hn, rfl⟩ := h
    simp only [fixImm, lookup_gen hl (ht t (by simp [immTargets])) hn, Except.map, if_true]
  | vlabel t =>
    simp only [pimmOf, Option.map_eq_some_iff] at h
    obtain ⟨n, hn, rfl⟩ := h
    simp only [fixImm, lookup_gen hl (ht t (by simp [immTargets])) hn, Except.map]
    rfl
  | labels ts =>
    simp only [pimmOf, Option.map_eq_some_iff] at h
    obtain ⟨ns, hn, rfl⟩ := h
    simp only [fixImm, lookups_gen hl ts ns (fun t htm => ht t (by simpa [immTargets] using htm)) hn, Except.map]
  | byte b => simp only [pimmOf, Option.some.injEq] at h; subst h; rfl
  | uint n => simp only [pimmOf, Option.some.injEq] at h; subst h; rfl
  | bytes bs => simp only [pimmOf, Option.some.injEq] at h; subst h; rfl
  | ints vs => simp only [pimmOf, Option.some.injEq] at h; subst h; rfl
  | bytess bss => simp only [pimmOf, Option.some.injEq] at h; subst h; rfl

theorem fixImms_pimms {order : List Nat} {labels : List (LName × Nat)} {k : Nat} (hl : LabelsInv order labels k) :
    ∀ (xs : List Model.AsmFormat.Imm) (ps : List PImm), (∀ t ∈ xs.flatMap immTargets, t < k) → pimmsOf order xs = some ps →
    fixImms labels ps = .ok xs
  | [], ps, _, h => by simp only [pimmsOf, Option.some.injEq] at h; subst h; rfl
  | x :: xs, ps, ht, h => by
    simp only [pimmsOf] at h
    cases h1 : pimmOf order x with
    | none => simp [h1] at h
    | some a =>
      cases h2 : pimmsOf order xs with
      | none => simp [h1, h2] at h
      | some r =>
        simp only [h1, h2, Option.some.injEq] at h; subst h
        simp only [fixImms, fixImm_pimm hl (fun t htm => ht t (by simp [htm])) h1,
          fixImms_pimms hl xs r (fun t htm => ht t (by
            simp only [List.flatMap_cons, List.mem_append]; exact Or.inr htm)) h2]

theorem fixInstrs_pinstrs {order : List Nat} {labels : List (LName × Nat)} {k : Nat} (hl : LabelsInv order labels k) :
    ∀ (is : List Instr) (ps : List PInstr), (∀ i ∈ is, ∀ t ∈ i.imms.flatMap immTargets, t < k) → pinstrsOf order is = some ps →
    fixInstrs labels ps = .ok is
  | [], ps, _, h => by simp only [pinstrsOf, Option.some.injEq] at h; subst h; rfl
  | i :: is, ps, ht, h => by
    simp only [pinstrsOf] at h
    cases h1 : pimmsOf order i.imms with
    | none => simp [h1] at h
    | some a =>
      cases h2 : pinstrsOf order is with
      | none => simp [h1, h2] at h
      | some r =>
        simp only [h1, h2, Option.some.injEq] at h; subst h
        simp only [fixInstrs, fixImms_pimms hl i.imms a (ht i List.mem_cons_self) h1,
          fixInstrs_pinstrs hl is r (fun j hj => ht j (List.mem_cons_of_mem _ hj)) h2]

/-- the invariants of a program the token-level front end produced -/
def ProgInv (env : Env) (v : Nat) (is : List Instr) : Prop :=
  (∀ i ∈ is, InstrInv env v i) ∧ ConstsOKFrom env 0 0 is ∧ (∀ i ∈ is, ∀ t ∈ i.imms.flatMap immTargets, t ≤ is.length)

/-- parsing what `printProg` prints gives the program back -/
theorem parseProg_print {env : Env} {v : Nat} {is : List Instr} {stmts : List Stmt} (hps : PseudoOK env)
    (h2 : env.constRule = 2) (hv : v ≤ env.logicVersion) (hi : ProgInv env v is) (hp : printProg env is = some stmts) :
    parseProg env v stmts = .ok is := by
  unfold printProg at hp
  have hl0 : LabelsInv (labelOrder is) ({} : PState).labels 0 :=
    ⟨fun nm idx h => absurd h (by simp), fun idx n h => absurd h (by omega)⟩
  obtain ⟨st', ps, f1, f2, f3, f4⟩ := parseStmts_print (order := labelOrder is) hps h2 is 0 {} stmts hi.1 hi.2.1 hp rfl hl0
  unfold parseProg
  rw [if_neg (by omega), f1]
  simp only []
  have : st'.out.reverse = ps := by
    rw [f3]
    show (ps.reverse ++ []).reverse = ps
    simp
  rw [this]
  exact fixInstrs_pinstrs f4 is ps (fun i hi' t ht => by have := hi.2.2 i hi' t ht; omega) f2

/-! ### printing never fails on such programs -/

theorem addTarget_sub (order : List Nat) (t : Nat) : (∀ x ∈ order, x ∈ addTarget order t) ∧ t ∈ addTarget order t := by
  unfold addTarget
  by_cases h : order.contains t = true
  · rw [if_pos h]
    exact ⟨fun _ hx => hx, by simpa using h⟩
  · rw [if_neg h]
    exact ⟨fun x hx => List.mem_append_left _ hx, by simp⟩

theorem foldl_addTarget_sub : ∀ (ts : List Nat) (order : List Nat),
    (∀ x ∈ order, x ∈ ts.foldl addTarget order) ∧ (∀ t ∈ ts, t ∈ ts.foldl addTarget order)
  | [], order => ⟨fun _ hx => hx, fun _ ht => by cases ht⟩
  | t :: ts, order => by
    obtain ⟨a, b⟩ := foldl_addTarget_sub ts (addTarget order t)
    obtain ⟨c, d⟩ := addTarget_sub order t
    simp only [List.foldl_cons]
    refine ⟨fun x hx => a x (c x hx), ?_⟩
    intro x hx
    rcases List.mem_cons.mp hx with rfl | hx
    · exact a _ d
    · exact b x hx

theorem labelOrderGo_sub : ∀ (is : List Instr) (k : Nat) (order : List Nat),
    (∀ x ∈ order, x ∈ labelOrderGo k is order) ∧
    (∀ i ∈ is, ∀ t ∈ i.imms.flatMap immTargets, t ∈ labelOrderGo k is order)
  | [], k, order => ⟨fun _ hx => hx, fun _ hi => by cases hi⟩
  | i :: is, k, order => by
    simp only [labelOrderGo]
    obtain ⟨a, b⟩ := labelOrderGo_sub is (k + 1)
      ((i.imms.flatMap immTargets).foldl addTarget (if i.spec.name = "proto" then addTarget order k else order))
    obtain ⟨c, d⟩ := foldl_addTarget_sub (i.imms.flatMap immTargets) (if i.spec.name = "proto" then addTarget order k else order)
    refine ⟨?_, ?_⟩
    · intro x hx
      apply a; apply c
      split
      · exact (addTarget_sub order k).1 x hx
      · exact hx
    · intro j hj t ht
      rcases List.mem_cons.mp hj with rfl | hj
      · exact a _ (d t ht)
      · exact b j hj t ht

theorem labelNo_of_mem {order : List Nat} {t : Nat} (h : t ∈ order) : ∃ n, labelNo order t = some n := by
  unfold labelNo
  simp only []
  rw [if_pos (List.idxOf_lt_length_of_mem h)]
  exact ⟨_, rfl⟩

theorem printLabels_total {order : List Nat} : ∀ (ts : List Nat), (∀ t ∈ ts, t ∈ order) → ∃ toks, printLabels order ts = some toks
  | [], _ => ⟨[], rfl⟩
  | t :: ts, h => by
    obtain ⟨n, hn⟩ := labelNo_of_mem (h t List.mem_cons_self)
    obtain ⟨r, hr⟩ := printLabels_total ts (fun q hq => h q (List.mem_cons_of_mem _ hq))
    exact ⟨.lref n :: r, by simp [printLabels, hn, hr]⟩

theorem printImm_total {env : Env} {v : Nat} {order : List Nat} {im : Model.OpTables.Imm} {x : Model.AsmFormat.Imm}
    (hi : ImmInv env v im x) (ht : ∀ t ∈ immTargets x, t ∈ order) : ∃ toks, printImm env order im x = some toks := by
  cases x with
  | byte b =>
    simp only [ImmInv] at hi
    rcases hi with ⟨_, hg, gd, ge, fr, fe, g1, g2, g3, g4, _⟩ | ⟨hk, hg, _⟩ | ⟨hk, hg, _⟩
    · refine ⟨[.name fr.name], ?_⟩
      simp only [printImm, if_pos hg, g1, g3]
      have hne : ¬ fr.name = "" := (fieldByName_name g4).2
      rw [if_neg hne]
    · simp only [printImm, hg, ne_eq, not_true_eq_false, if_false]
      split <;> exact ⟨_, rfl⟩
    · simp only [printImm, hg, ne_eq, not_true_eq_false, if_false]
      split <;> exact ⟨_, rfl⟩
  | uint n => exact ⟨_, rfl⟩
  | bytes bs => exact ⟨_, rfl⟩
  | ints vs => exact ⟨_, rfl⟩
  | bytess bss => exact ⟨_, rfl⟩
  | label t =>
    obtain ⟨n, hn⟩ := labelNo_of_mem (ht t (by simp [immTargets]))
    exact ⟨[.lref n], by simp [printImm, hn]⟩
  | vlabel t =>
    obtain ⟨n, hn⟩ := labelNo_of_mem (ht t (by simp [immTargets]))
    exact ⟨[.lref n], by simp [printImm, hn]⟩
  | labels ts =>
    obtain ⟨r, hr⟩ := printLabels_total ts (fun t htm => ht t (by simpa [immTargets] using htm))
    exact ⟨r, by simp [printImm, hr]⟩

theorem printImms_total {env : Env} {v : Nat} {order : List Nat} : ∀ (ims : List Model.OpTables.Imm)
    (xs : List Model.AsmFormat.Imm), ImmsInv env v ims xs → (∀ t ∈ xs.flatMap immTargets, t ∈ order) →
    ∃ toks, printImms env order ims xs = some toks
  | [], [], _, _ => ⟨[], rfl⟩
  | [], _ :: _, hi, _ => by simp [ImmsInv] at hi
  | _ :: _, [], hi, _ => by simp [ImmsInv] at hi
  | im :: ims, x :: xs, hi, ht => by
    obtain ⟨h1, _, h2⟩ := hi
    obtain ⟨a, ha⟩ := printImm_total (order := order) h1 (fun t htm => ht t (by simp [htm]))
    obtain ⟨b, hb⟩ := printImms_total ims xs h2 (fun t htm => ht t (by
      simp only [List.flatMap_cons, List.mem_append]; exact Or.inr htm))
    exact ⟨a ++ b, by simp [printImms, ha, hb]⟩

theorem printGo_total {env : Env} {v : Nat} {order : List Nat} : ∀ (is : List Instr) (k : Nat),
    (∀ i ∈ is, InstrInv env v i) → (∀ i ∈ is, ∀ t ∈ i.imms.flatMap immTargets, t ∈ order) →
    ∃ stmts, printGo env order k is = some stmts
  | [], k, _, _ => ⟨_, rfl⟩
  | i :: is, k, hi, ht => by
    obtain ⟨toks, htk⟩ := printImms_total (order := order) _ _ (hi i List.mem_cons_self).2.2.1 (ht i List.mem_cons_self)
    obtain ⟨r, hr⟩ := printGo_total is (k + 1) (fun j hj => hi j (List.mem_cons_of_mem _ hj))
      (fun j hj => ht j (List.mem_cons_of_mem _ hj))
    exact ⟨labelStmt order k ++ (Tok.name i.spec.name :: toks) :: r, by simp [printGo, printInstr, htk, hr]⟩

/-- `printProg` succeeds on every program the front end can produce -/
theorem printProg_total {env : Env} {v : Nat} {is : List Instr} (hi : ProgInv env v is) :
    ∃ stmts, printProg env is = some stmts :=
  printGo_total is 0 hi.1 (labelOrderGo_sub is 0 []).2

end Lemmas.AsmFormat
