import AlgoVerif.Lemmas.AgreementAbsSafety
/-!
The lenient rule set (`WF true`: what `agreement/player.go` guarantees locally, with the excuses
`Conflict1 / Conflict2` for values a later threshold can overwrite) reduces to the strict one (`WF false`)
under the quorum hypothesis: by induction over the history, the history so far is strictly well-formed, hence
(`soft_unique`, `cert_needs_soft`, `next_values_unique_strict`) contains no conflict, hence the next event
could not use an excuse.
-/
namespace AlgoVerif.Lemmas.AgreementAbs
open AlgoVerif.Spec.AgreementAbs

/-- no period has two staged values, and no period has next quorums for two non-⊥ values -/
def NoConflict (P : Params) (h : List Ev) : Prop := ∀ p, ¬ Conflict1 P h p ∧ ¬ Conflict2 P h p

theorem no_conflict_strict {P : Params} (hq : HQ P) {h : List Ev} (wf : WF false P h) : NoConflict P h := by
  intro p
  constructor
  · rintro ⟨a, _, b, _, hne, h1, h2⟩
    exact hne (soft_unique hq wf (staged_soft hq wf h1) (staged_soft hq wf h2))
  · rintro ⟨_, a, _, b, _, hne, h1, h2⟩
    exact hne (next_values_unique_strict hq wf _ a b h1 h2)

theorem okEv_strict_of_lenient {P : Params} {pre : List Ev} (hn : NoConflict P pre) {e : Ev}
    (ok : okEv true P pre e) : okEv false P pre e := by
  cases e with
  | vote v =>
      intro hh
      have okv := ok hh
      obtain ⟨n, p, s, x⟩ := v
      have h1 := (hn p).1
      have h2 := (hn p).2
      cases s with
      | soft =>
          obtain ⟨hu, hp, hr⟩ := okv
          refine ⟨?_, hp, hr⟩
          rcases hu with hu | ⟨_, hc⟩
          · exact Or.inl hu
          · exact absurd hc (by simp)
      | cert =>
          obtain ⟨hu, hp, hr⟩ := okv
          refine ⟨?_, hp, hr⟩
          rcases hu with hu | ⟨_, hc⟩
          · exact Or.inl hu
          · exact absurd hc h1
      | next k =>
          obtain ⟨hu, hp, hoc, hv⟩ := okv
          refine ⟨?_, hp, ?_, hv⟩
          · rcases hu with hu | ⟨_, hc⟩
            · exact Or.inl hu
            · rcases hc with hc | hc
              · exact absurd hc h1
              · exact absurd hc h2
          · rcases hoc with hu | ⟨_, hc⟩
            · exact Or.inl hu
            · exact absurd hc h1
  | see n p y => exact ok
  | enter n p c => exact ok
  | commit n p v => exact ok
  | crash n => exact ok

theorem okEv_lenient_of_strict {P : Params} {pre : List Ev} {e : Ev}
    (ok : okEv false P pre e) : okEv true P pre e := by
  cases e with
  | vote v =>
      intro hh
      have okv := ok hh
      obtain ⟨n, p, s, x⟩ := v
      cases s with
      | soft =>
          obtain ⟨hu, hp, hr⟩ := okv
          refine ⟨?_, hp, hr⟩
          rcases hu with hu | ⟨hl, _⟩
          · exact Or.inl hu
          · cases hl
      | cert =>
          obtain ⟨hu, hp, hr⟩ := okv
          refine ⟨?_, hp, hr⟩
          rcases hu with hu | ⟨hl, _⟩
          · exact Or.inl hu
          · cases hl
      | next k =>
          obtain ⟨hu, hp, hoc, hv⟩ := okv
          refine ⟨?_, hp, ?_, hv⟩
          · rcases hu with hu | ⟨hl, _⟩
            · exact Or.inl hu
            · cases hl
          · rcases hoc with hu | ⟨hl, _⟩
            · exact Or.inl hu
            · cases hl
  | see n p y => exact ok
  | enter n p c => exact ok
  | commit n p v => exact ok
  | crash n => exact ok

/-- under the quorum hypothesis the excuses of the lenient rules are never used -/
theorem wf_strict_of_lenient {P : Params} (hq : HQ P) {h : List Ev} (wf : WF true P h) : WF false P h := by
  induction h with
  | nil => trivial
  | cons e pre ih =>
      have wfp := ih wf.1
      exact ⟨wfp, okEv_strict_of_lenient (no_conflict_strict hq wfp) wf.2⟩

theorem wf_lenient_of_strict {P : Params} {h : List Ev} (wf : WF false P h) : WF true P h := by
  induction h with
  | nil => trivial
  | cons e pre ih => exact ⟨ih wf.1, okEv_lenient_of_strict wf.2⟩

theorem wf_strict {l : Bool} {P : Params} (hq : HQ P) {h : List Ev} (wf : WF l P h) : WF false P h := by
  cases l
  · exact wf
  · exact wf_strict_of_lenient hq wf

end AlgoVerif.Lemmas.AgreementAbs
