import AlgoVerif.Model.VoteTracker
/-! Lemmas about the data-structure layer of `Model.VoteTracker`: association-list maps, the `overThreshold`
loop, the bundle sort and the quorum cut. -/
namespace AlgoVerif.Lemmas.VoteTracker
open AlgoVerif.Model.VoteTracker

/-! ### Counts as an association list -/

theorem lookup_setCounter (l : List (Nat × Counter)) (v : Nat) (c : Counter) (u : Nat) :
    (setCounter l v c).lookup u = if u = v then some c else l.lookup u := by
  induction l with
  | nil =>
    by_cases h : u = v
    · simp [setCounter, h]
    · have : (u == v) = false := by simp [h]
      simp [setCounter, List.lookup, h, this]
  | cons kd rest ih =>
    obtain ⟨k, d⟩ := kd
    unfold setCounter
    by_cases hk : k = v
    · subst hk
      by_cases h : u = k
      · simp [h]
      · have : (u == k) = false := by simp [h]
        simp [List.lookup, h, this]
    · simp only [hk, if_false]
      by_cases h : u = v
      · subst h
        have : (u == k) = false := by simp; exact fun h => hk h.symm
        simp [List.lookup, this, ih]
      · by_cases h2 : u = k
        · subst h2; simp [List.lookup, h]
        · have : (u == k) = false := by simp [h2]
          simp [List.lookup, this, ih, h]

theorem keys_setCounter (l : List (Nat × Counter)) (v : Nat) (c : Counter) :
    (setCounter l v c).map Prod.fst = if v ∈ l.map Prod.fst then l.map Prod.fst else l.map Prod.fst ++ [v] := by
  induction l with
  | nil => simp [setCounter]
  | cons kd rest ih =>
    obtain ⟨k, d⟩ := kd
    unfold setCounter
    by_cases hk : k = v
    · subst hk; simp
    · have hk' : ¬ v = k := fun h => hk h.symm
      simp only [hk, if_false, List.map_cons, ih, List.mem_cons, hk', false_or]
      by_cases h : v ∈ rest.map Prod.fst <;> simp [h]

theorem keys_setCounter_nodup {l : List (Nat × Counter)} (h : (l.map Prod.fst).Nodup) (v : Nat) (c : Counter) :
    ((setCounter l v c).map Prod.fst).Nodup := by
  rw [keys_setCounter]
  by_cases hv : v ∈ l.map Prod.fst
  · simp [hv, h]
  · rw [if_neg hv, List.nodup_append]
    refine ⟨h, by simp, ?_⟩
    intro a ha b hb
    simp at hb; subst hb
    intro hab; subst hab; exact hv ha

theorem lookup_delCounter (l : List (Nat × Counter)) (v u : Nat) :
    (delCounter l v).lookup u = if u = v then none else l.lookup u := by
  induction l with
  | nil => simp [delCounter, List.lookup]
  | cons kd rest ih =>
    obtain ⟨k, d⟩ := kd
    unfold delCounter at ih ⊢
    by_cases hk : k = v
    · subst hk
      simp only [List.filter_cons, bne_self_eq_false, Bool.false_eq_true, if_false, ih]
      by_cases h : u = k
      · simp [h]
      · have : (u == k) = false := by simp [h]
        simp [List.lookup, this, h]
    · have : (k != v) = true := by simp [hk]
      simp only [List.filter_cons, this, if_true]
      by_cases h : u = k
      · subst h; simp [List.lookup, hk]
      · have h2 : (u == k) = false := by simp [h]
        simp only [List.lookup, h2, ih]

theorem keys_delCounter_nodup {l : List (Nat × Counter)} (h : (l.map Prod.fst).Nodup) (v : Nat) :
    ((delCounter l v).map Prod.fst).Nodup := by
  have : (delCounter l v).Sublist l := List.filter_sublist
  exact (this.map Prod.fst).nodup h

theorem lookup_isSome_of_mem_keys {l : List (Nat × Counter)} {v : Nat} (h : v ∈ l.map Prod.fst) :
    ∃ c, l.lookup v = some c := by
  induction l with
  | nil => simp at h
  | cons kd rest ih =>
    obtain ⟨k, d⟩ := kd
    by_cases hk : v = k
    · subst hk; exact ⟨d, by simp [List.lookup]⟩
    · have : (v == k) = false := by simp [hk]
      simp only [List.map_cons, List.mem_cons, hk, false_or] at h
      obtain ⟨c, hc⟩ := ih h
      exact ⟨c, by simp [List.lookup, this, hc]⟩

theorem mem_keys_of_lookup {l : List (Nat × Counter)} {v : Nat} {c : Counter} (h : l.lookup v = some c) :
    v ∈ l.map Prod.fst := by
  induction l with
  | nil => simp [List.lookup] at h
  | cons kd rest ih =>
    obtain ⟨k, d⟩ := kd
    by_cases hk : v = k
    · subst hk; simp
    · have : (v == k) = false := by simp [hk]
      simp only [List.lookup, this] at h
      simp [ih h]

/-! ### the overThreshold loop -/

/-- the entries of `Counts` that are over the threshold -/
def overs (c : Cfg) (t : Tracker) (l : List (Nat × Counter)) : List (Nat × Counter) :=
  l.filter (fun kv => reachesQuorum c (count t kv.1))

def overResult (acc : Option Nat) (os : List (Nat × Counter)) : Except PanicKind (Option Nat) :=
  match os with
  | [] => .ok acc
  | [kv] =>
    match acc with
    | none => .ok (some kv.1)
    | some _ => .error .twoOverThreshold
  | _ :: _ :: _ => .error .twoOverThreshold

theorem overLoop_eq (c : Cfg) (t : Tracker) (l : List (Nat × Counter)) (acc : Option Nat) :
    overLoop c t l acc = overResult acc (overs c t l) := by
  induction l generalizing acc with
  | nil => simp [overLoop, overs, overResult]
  | cons kv rest ih =>
    unfold overLoop overs
    by_cases h : reachesQuorum c (count t kv.1) = true
    · simp only [h, if_true, List.filter_cons]
      cases acc with
      | some a =>
        cases hf : List.filter (fun kv => reachesQuorum c (count t kv.1)) rest <;> simp [overResult]
      | none =>
        simp only []
        rw [ih]
        unfold overs
        cases hf : List.filter (fun kv => reachesQuorum c (count t kv.1)) rest with
        | nil => simp [overResult]
        | cons b l' => cases l' <;> simp [overResult]
    · have h' : reachesQuorum c (count t kv.1) = false := by simpa using h
      simp only [h', Bool.false_eq_true, if_false, List.filter_cons]
      exact ih acc

theorem overThreshold_eq (c : Cfg) (t : Tracker) :
    overThreshold c t = overResult none (overs c t t.counts) := by
  unfold overThreshold
  rw [overLoop_eq]

/-- a key of Counts is over the threshold -/
def OverAt (c : Cfg) (t : Tracker) (v : Nat) : Prop :=
  v ∈ t.counts.map Prod.fst ∧ reachesQuorum c (count t v) = true

theorem mem_overs {c : Cfg} {t : Tracker} {l : List (Nat × Counter)} {kv : Nat × Counter} :
    kv ∈ overs c t l ↔ kv ∈ l ∧ reachesQuorum c (count t kv.1) = true := by
  unfold overs; simp

theorem overAt_iff {c : Cfg} {t : Tracker} {v : Nat} :
    OverAt c t v ↔ ∃ kv ∈ overs c t t.counts, kv.1 = v := by
  unfold OverAt
  constructor
  · rintro ⟨h1, h2⟩
    obtain ⟨kv, hkv, rfl⟩ := List.mem_map.mp h1
    exact ⟨kv, mem_overs.mpr ⟨hkv, h2⟩, rfl⟩
  · rintro ⟨kv, hkv, rfl⟩
    obtain ⟨h1, h2⟩ := mem_overs.mp hkv
    exact ⟨List.mem_map.mpr ⟨kv, h1, rfl⟩, h2⟩

theorem overThreshold_none {c : Cfg} {t : Tracker} (h : overThreshold c t = .ok none) : ∀ v, ¬ OverAt c t v := by
  rw [overThreshold_eq] at h
  intro v hv
  obtain ⟨kv, hkv, _⟩ := overAt_iff.mp hv
  cases ho : overs c t t.counts with
  | nil => rw [ho] at hkv; cases hkv
  | cons a l =>
    rw [ho] at h
    cases l <;> simp [overResult] at h

theorem overThreshold_some {c : Cfg} {t : Tracker} {v : Nat}
    (h : overThreshold c t = .ok (some v)) : OverAt c t v ∧ ∀ u, OverAt c t u → u = v := by
  rw [overThreshold_eq] at h
  cases ho : overs c t t.counts with
  | nil => rw [ho] at h; simp [overResult] at h
  | cons a l =>
    rw [ho] at h
    cases l with
    | cons b l' => simp [overResult] at h
    | nil =>
      simp [overResult] at h
      constructor
      · exact overAt_iff.mpr ⟨a, by rw [ho]; simp, h⟩
      · intro u hu
        obtain ⟨kv, hkv, rfl⟩ := overAt_iff.mp hu
        rw [ho] at hkv
        simp at hkv
        rw [hkv, h]

theorem overThreshold_error {c : Cfg} {t : Tracker} {k : PanicKind} (hk : (t.counts.map Prod.fst).Nodup)
    (h : overThreshold c t = .error k) : ∃ u v, u ≠ v ∧ OverAt c t u ∧ OverAt c t v := by
  rw [overThreshold_eq] at h
  cases ho : overs c t t.counts with
  | nil => rw [ho] at h; simp [overResult] at h
  | cons a l =>
    cases l with
    | nil => rw [ho] at h; simp [overResult] at h
    | cons b l' =>
      have hsub : (overs c t t.counts).Sublist t.counts := List.filter_sublist
      have hnd := (hsub.map Prod.fst).nodup hk
      rw [ho] at hnd
      simp only [List.map_cons, List.nodup_cons, List.mem_cons, not_or] at hnd
      refine ⟨a.1, b.1, hnd.1.1, ?_, ?_⟩
      · exact overAt_iff.mpr ⟨a, by rw [ho]; simp, rfl⟩
      · exact overAt_iff.mpr ⟨b, by rw [ho]; simp, rfl⟩

end AlgoVerif.Lemmas.VoteTracker
