import AlgoVerif.Spec.AgreementAbs
/-!
Lemmas 1–6 of DESIGN Appendix C for `Spec.AgreementAbs`:
weighted quorum intersection, monotonicity along history extension, well-formedness of earlier histories,
honest uniqueness, same-period uniqueness of quorums, `cert_needs_soft`.

Histories are newest-first; "`t` is an earlier history of `h`" is `t <:+ h`.
`WF false` is the strict rule set (see `Spec/AgreementAbs.lean`); the lenient one is reduced to it in
`Lemmas/AgreementAbsLift.lean`.
-/
namespace AlgoVerif.Lemmas.AgreementAbs
open AlgoVerif.Spec.AgreementAbs

/-! ### 1. list-sum arithmetic -/

theorem wtl_nil (w : Node → Nat) (a : Node → Bool) : wtl w [] a = 0 := rfl

theorem wtl_cons (w : Node → Nat) (n : Node) (l : List Node) (a : Node → Bool) :
    wtl w (n :: l) a = (if a n = true then w n else 0) + wtl w l a := by
  unfold wtl
  by_cases h : a n = true <;> simp [h]

theorem wtl_mono {w : Node → Nat} {l : List Node} {a b : Node → Bool}
    (h : ∀ n ∈ l, a n = true → b n = true) : wtl w l a ≤ wtl w l b := by
  induction l with
  | nil => simp [wtl_nil]
  | cons n l ih =>
      rw [wtl_cons, wtl_cons]
      have ih' := ih (fun m hm => h m (List.mem_cons_of_mem _ hm))
      have hn := h n (List.mem_cons_self)
      by_cases ha : a n = true
      · rw [if_pos ha, if_pos (hn ha)]; omega
      · rw [if_neg ha]; split <;> omega

/-- `w(A) + w(B) ≤ W + w(A ∩ B)` -/
theorem wtl_union (w : Node → Nat) (l : List Node) (a b : Node → Bool) :
    wtl w l a + wtl w l b ≤ wtl w l (fun _ => true) + wtl w l (fun n => a n && b n) := by
  induction l with
  | nil => simp [wtl_nil]
  | cons n l ih =>
      simp only [wtl_cons]
      cases ha : a n <;> cases hb : b n <;> simp <;> omega

/-- `w(C) ≤ w(C ∩ G) + w(¬G)` -/
theorem wtl_split (w : Node → Nat) (l : List Node) (c g : Node → Bool) :
    wtl w l c ≤ wtl w l (fun n => c n && g n) + wtl w l (fun n => !g n) := by
  induction l with
  | nil => simp [wtl_nil]
  | cons n l ih =>
      simp only [wtl_cons]
      cases hc : c n <;> cases hg : g n <;> simp <;> omega

theorem wtl_pos {w : Node → Nat} {l : List Node} {c : Node → Bool} (h : 0 < wtl w l c) :
    ∃ n ∈ l, c n = true := by
  induction l with
  | nil => simp [wtl_nil] at h
  | cons n l ih =>
      rw [wtl_cons] at h
      by_cases hc : c n = true
      · exact ⟨n, List.mem_cons_self, hc⟩
      · rw [if_neg hc] at h
        obtain ⟨m, hm, hcm⟩ := ih (by omega)
        exact ⟨m, List.mem_cons_of_mem _ hm, hcm⟩

/-- **Weighted quorum intersection.**  If `2·T > W + F`, two node sets of weight `≥ T` share an honest node. -/
theorem quorum_inter {P : Params} (hq : HQ P) (a b : Node → Bool)
    (ha : P.T ≤ wt P a) (hb : P.T ≤ wt P b) :
    ∃ n ∈ P.nodes, P.honest n = true ∧ a n = true ∧ b n = true := by
  have h1 := wtl_union P.w P.nodes a b
  have h2 := wtl_split P.w P.nodes (fun n => a n && b n) P.honest
  unfold HQ W F wt at hq
  unfold wt at ha hb
  have hpos : 0 < wtl P.w P.nodes (fun n => (a n && b n) && P.honest n) := by omega
  obtain ⟨n, hn, hc⟩ := wtl_pos hpos
  simp only [Bool.and_eq_true] at hc
  exact ⟨n, hn, hc.2, hc.1.1, hc.1.2⟩

/-! ### 2. `T > F`, a quorum has an honest member -/

theorem F_le_W (P : Params) : F P ≤ W P := wtl_mono (fun _ _ _ => rfl)

theorem T_gt_F {P : Params} (hq : HQ P) : F P < P.T := by
  have := F_le_W P; unfold HQ at hq; omega

theorem quorum_has_honest {P : Params} (hq : HQ P) (a : Node → Bool) (ha : P.T ≤ wt P a) :
    ∃ n ∈ P.nodes, P.honest n = true ∧ a n = true := by
  obtain ⟨n, hn, hh, han, _⟩ := quorum_inter hq a a ha ha
  exact ⟨n, hn, hh, han⟩

/-! ### 3. monotonicity along history extension -/

theorem votes_cons_vote (v : Vote) (h : List Ev) : votes (.vote v :: h) = v :: votes h := rfl

theorem votes_cons_subset (e : Ev) (h : List Ev) : votes h ⊆ votes (e :: h) := by
  cases e <;> simp [votes]

theorem votes_cons_sublist (e : Ev) (h : List Ev) : List.Sublist (votes h) (votes (e :: h)) := by
  cases e <;> simp [votes]

theorem votes_sublist {t h : List Ev} (hs : t <:+ h) : List.Sublist (votes t) (votes h) := by
  obtain ⟨s, rfl⟩ := hs
  induction s with
  | nil => simp
  | cons e s ih => exact ih.trans (votes_cons_sublist e (s ++ t))

theorem votes_subset {t h : List Ev} (hs : t <:+ h) : votes t ⊆ votes h := (votes_sublist hs).subset

theorem mem_votes_iff {v : Vote} {h : List Ev} : v ∈ votes h ↔ Ev.vote v ∈ h := by
  induction h with
  | nil => simp [votes]
  | cons e h ih =>
      cases e with
      | vote u => simp [votes, ih]
      | see => simp [votes, ih]
      | enter => simp [votes, ih]
      | commit => simp [votes, ih]
      | crash => simp [votes, ih]

/-- a vote of the history was cast after some earlier history -/
theorem mem_votes_split {v : Vote} {h : List Ev} (hv : v ∈ votes h) :
    ∃ pre, (Ev.vote v :: pre) <:+ h := by
  obtain ⟨s, t, rfl⟩ := List.append_of_mem (mem_votes_iff.1 hv)
  exact ⟨t, s, rfl⟩

theorem mem_split {e : Ev} {h : List Ev} (he : e ∈ h) : ∃ pre, (e :: pre) <:+ h := by
  obtain ⟨s, t, rfl⟩ := List.append_of_mem he
  exact ⟨t, s, rfl⟩

theorem votedFor_mono {t h : List Ev} (hs : t <:+ h) {n p s x} (hv : VotedFor t n p s x) :
    VotedFor h n p s x := votes_subset hs hv

theorem equivocated_mono {t h : List Ev} (hs : t <:+ h) {n p s} (hv : Equivocated t n p s) :
    Equivocated h n p s := by
  obtain ⟨a, ha, b, hb, r⟩ := hv
  exact ⟨a, votes_subset hs ha, b, votes_subset hs hb, r⟩

theorem inSupp_iff {h : List Ev} {p s x n} :
    inSupp h p s x n = true ↔ VotedFor h n p s x ∨ Equivocated h n p s := by
  simp [inSupp]

theorem inSupp_mono {t h : List Ev} (hs : t <:+ h) {p s x n} (hv : inSupp t p s x n = true) :
    inSupp h p s x n = true := by
  rw [inSupp_iff] at *
  exact hv.imp (votedFor_mono hs) (equivocated_mono hs)

/-- `Q` in the form of DESIGN Appendix C: the support of `(p, s, x)` weighs at least `T` -/
theorem Q_iff_supp {P : Params} {h : List Ev} {p s x} :
    Q P h p s x ↔ P.T ≤ ((supp P h p s x).map P.w).sum := Iff.rfl

theorem Q_mono {P : Params} {t h : List Ev} (hs : t <:+ h) {p s x} (hq : Q P t p s x) : Q P h p s x :=
  Nat.le_trans hq (wtl_mono (fun _ _ hv => inSupp_mono hs hv))

theorem softQ_mono {P : Params} {t h : List Ev} (hs : t <:+ h) {p v} (hq : softQ P t p v) :
    softQ P h p v := Q_mono hs hq
theorem certQ_mono {P : Params} {t h : List Ev} (hs : t <:+ h) {p v} (hq : certQ P t p v) :
    certQ P h p v := Q_mono hs hq
theorem stagedQ_mono {P : Params} {t h : List Ev} (hs : t <:+ h) {p v} (hq : stagedQ P t p v) :
    stagedQ P h p v := hq.imp (softQ_mono hs) (certQ_mono hs)

theorem mem_insertNew {a b : Nat} {l : List Nat} : b ∈ insertNew a l ↔ b = a ∨ b ∈ l := by
  unfold insertNew
  by_cases h : a ∈ l
  · rw [if_pos h]
    constructor
    · exact Or.inr
    · rintro (rfl | hb)
      · exact h
      · exact hb
  · rw [if_neg h]; exact List.mem_cons

theorem mem_nextKs {h : List Ev} {p k : Nat} :
    k ∈ nextKs h p ↔ ∃ v ∈ votes h, v.p = p ∧ v.s = .next k := by
  induction h with
  | nil => simp [nextKs, votes]
  | cons e h ih =>
      cases e with
      | vote v =>
          obtain ⟨n, q, s, x⟩ := v
          cases s with
          | next j =>
              by_cases hq : q = p
              · subst hq
                have e1 : nextKs (.vote ⟨n, q, .next j, x⟩ :: h) q = insertNew j (nextKs h q) := by
                  simp [nextKs]
                rw [e1, mem_insertNew, ih]
                constructor
                · rintro (rfl | ⟨v, hv, h1, h2⟩)
                  · exact ⟨_, List.mem_cons_self, rfl, rfl⟩
                  · exact ⟨v, List.mem_cons_of_mem _ hv, h1, h2⟩
                · rintro ⟨v, hv, h1, h2⟩
                  rcases List.mem_cons.1 hv with rfl | hv
                  · cases h2; exact Or.inl rfl
                  · exact Or.inr ⟨v, hv, h1, h2⟩
              · have e1 : nextKs (.vote ⟨n, q, .next j, x⟩ :: h) p = nextKs h p := by
                  simp [nextKs, hq]
                rw [e1, ih]
                constructor
                · rintro ⟨v, hv, h1, h2⟩
                  exact ⟨v, List.mem_cons_of_mem _ hv, h1, h2⟩
                · rintro ⟨v, hv, h1, h2⟩
                  rcases List.mem_cons.1 hv with rfl | hv
                  · exact absurd h1 hq
                  · exact ⟨v, hv, h1, h2⟩
          | soft => simp [nextKs, ih, votes]
          | cert => simp [nextKs, ih, votes]
      | see => simp [nextKs, ih, votes]
      | enter => simp [nextKs, ih, votes]
      | commit => simp [nextKs, ih, votes]
      | crash => simp [nextKs, ih, votes]

theorem nextKs_subset {t h : List Ev} (hs : t <:+ h) (p : Nat) : nextKs t p ⊆ nextKs h p := by
  intro k hk
  obtain ⟨v, hv, h1, h2⟩ := mem_nextKs.1 hk
  exact mem_nextKs.2 ⟨v, votes_subset hs hv, h1, h2⟩

theorem nextQ_mono {P : Params} {t h : List Ev} (hs : t <:+ h) {p y} (hq : nextQ P t p y) :
    nextQ P h p y := by
  obtain ⟨k, hk, hQ⟩ := hq
  exact ⟨k, nextKs_subset hs p hk, Q_mono hs hQ⟩

theorem mem_vals {h : List Ev} {a : Val} : a ∈ vals h ↔ ∃ v ∈ votes h, v.x = some a := by
  induction h with
  | nil => simp [vals, votes]
  | cons e h ih =>
      cases e with
      | vote v =>
          obtain ⟨n, q, s, x⟩ := v
          cases x with
          | none => simp [vals, ih, votes]
          | some b =>
              simp only [vals, mem_insertNew, ih, votes, List.mem_cons, exists_eq_or_imp, Option.some.injEq]
              constructor
              · rintro (rfl | h1)
                · exact Or.inl rfl
                · exact Or.inr h1
              · rintro (rfl | h1)
                · exact Or.inl rfl
                · exact Or.inr h1
      | see => simp [vals, ih, votes]
      | enter => simp [vals, ih, votes]
      | commit => simp [vals, ih, votes]
      | crash => simp [vals, ih, votes]

theorem vals_subset {t h : List Ev} (hs : t <:+ h) : vals t ⊆ vals h := by
  intro a ha
  obtain ⟨v, hv, h1⟩ := mem_vals.1 ha
  exact mem_vals.2 ⟨v, votes_subset hs hv, h1⟩

theorem conflict1_mono {P : Params} {t h : List Ev} (hs : t <:+ h) {p} (hc : Conflict1 P t p) :
    Conflict1 P h p := by
  obtain ⟨a, ha, b, hb, hne, h1, h2⟩ := hc
  exact ⟨a, vals_subset hs ha, b, vals_subset hs hb, hne, stagedQ_mono hs h1, stagedQ_mono hs h2⟩

theorem conflict2_mono {P : Params} {t h : List Ev} (hs : t <:+ h) {p} (hc : Conflict2 P t p) :
    Conflict2 P h p := by
  obtain ⟨hp, a, ha, b, hb, hne, h1, h2⟩ := hc
  exact ⟨hp, a, vals_subset hs ha, b, vals_subset hs hb, hne, nextQ_mono hs h1, nextQ_mono hs h2⟩

/-- a quorum of a next step that has a vote is a next quorum -/
theorem nextQ_of_Q {P : Params} {h : List Ev} {p k y} {v : Vote} (hv : v ∈ votes h) (hp : v.p = p)
    (hs : v.s = .next k) (hQ : Q P h p (.next k) y) : nextQ P h p y :=
  ⟨k, mem_nextKs.2 ⟨v, hv, hp, hs⟩, hQ⟩

/-! ### suffix bookkeeping -/

theorem suffix_of_cons_suffix {α} {x e : α} {a h : List α} (hs : (x :: a) <:+ (e :: h)) : a <:+ h := by
  rcases List.suffix_cons_iff.1 hs with heq | hs'
  · cases heq; exact List.suffix_refl _
  · exact (List.suffix_cons x a).trans hs'

theorem suffix_of_cons_suffix' {α} {x : α} {a h : List α} (hs : (x :: a) <:+ h) : a <:+ h :=
  (List.suffix_cons x a).trans hs

/-- two events of one history are ordered -/
theorem cons_suffix_trichotomy {α} {x y : α} {a b h : List α}
    (h1 : (x :: a) <:+ h) (h2 : (y :: b) <:+ h) :
    (x :: a) <:+ b ∨ (y :: b) <:+ a ∨ (x :: a = y :: b) := by
  rcases List.suffix_or_suffix_of_suffix h1 h2 with hs | hs
  · rcases List.suffix_cons_iff.1 hs with heq | hs'
    · exact Or.inr (Or.inr heq)
    · exact Or.inl hs'
  · rcases List.suffix_cons_iff.1 hs with heq | hs'
    · exact Or.inr (Or.inr heq.symm)
    · exact Or.inr (Or.inl hs')

/-! ### well-formedness of earlier histories -/

theorem wf_suffix {l : Bool} {P : Params} {t h : List Ev} (hs : t <:+ h) (wf : WF l P h) : WF l P t := by
  obtain ⟨s, rfl⟩ := hs
  induction s with
  | nil => simpa using wf
  | cons e s ih => exact ih wf.1

theorem wf_ok {l : Bool} {P : Params} {e : Ev} {pre h : List Ev} (hs : (e :: pre) <:+ h)
    (wf : WF l P h) : okEv l P pre e := (wf_suffix hs wf).2

theorem wf_pre {l : Bool} {P : Params} {e : Ev} {pre h : List Ev} (hs : (e :: pre) <:+ h)
    (wf : WF l P h) : WF l P pre := (wf_suffix hs wf).1

/-- an honest vote of a well-formed history obeyed the vote rules when it was cast -/
theorem vote_ok {l : Bool} {P : Params} {h : List Ev} (wf : WF l P h) {v : Vote} (hv : v ∈ votes h)
    (hh : P.honest v.n = true) :
    ∃ pre, (Ev.vote v :: pre) <:+ h ∧ okVote l P pre v := by
  obtain ⟨pre, hs⟩ := mem_votes_split hv
  exact ⟨pre, hs, wf_ok hs wf hh⟩

/-! ### 4. honest uniqueness (strict rules) -/

theorem honest_unique {P : Params} {h : List Ev} (wf : WF false P h) {n p s x x'}
    (hh : P.honest n = true) (h1 : VotedFor h n p s x) (h2 : VotedFor h n p s x') : x = x' := by
  induction h with
  | nil => simp [VotedFor, votes] at h1
  | cons e pre ih =>
      cases e with
      | vote v =>
          unfold VotedFor at h1 h2 ih
          rw [votes_cons_vote, List.mem_cons] at h1 h2
          have ok := wf.2
          rcases h1 with h1 | h1 <;> rcases h2 with h2 | h2
          · rw [← h1] at h2; cases h2; rfl
          · subst h1
            have ok' := (ok hh).1
            rcases ok' with hu | ⟨hl, _⟩
            · exact (hu _ h2 rfl rfl rfl).symm
            · cases hl
          · subst h2
            have ok' := (ok hh).1
            rcases ok' with hu | ⟨hl, _⟩
            · exact (hu _ h1 rfl rfl rfl)
            · cases hl
          · exact ih wf.1 h1 h2
      | see => exact ih wf.1 h1 h2
      | enter => exact ih wf.1 h1 h2
      | commit => exact ih wf.1 h1 h2
      | crash => exact ih wf.1 h1 h2

theorem honest_not_equivocator {P : Params} {h : List Ev} (wf : WF false P h) {n p s}
    (hh : P.honest n = true) : ¬ Equivocated h n p s := by
  rintro ⟨a, ha, b, hb, rfl, rfl, rfl, hbn, hbp, hbs, hne⟩
  apply hne
  have hb' : VotedFor h a.n a.p a.s b.x := by
    unfold VotedFor; rw [← hbn, ← hbp, ← hbs]; exact hb
  exact honest_unique wf hh (show VotedFor h a.n a.p a.s a.x from ha) hb'

theorem honest_in_supp {P : Params} {h : List Ev} (wf : WF false P h) {n p s x}
    (hh : P.honest n = true) (hi : inSupp h p s x n = true) : VotedFor h n p s x := by
  rcases inSupp_iff.1 hi with hv | he
  · exact hv
  · exact absurd he (honest_not_equivocator wf hh)

/-- a quorum contains an honest node that really voted for the value -/
theorem quorum_honest_voter {P : Params} (hq : HQ P) {h : List Ev} (wf : WF false P h) {p s x}
    (hQ : Q P h p s x) : ∃ n ∈ P.nodes, P.honest n = true ∧ VotedFor h n p s x := by
  obtain ⟨n, hn, hh, hi⟩ := quorum_has_honest hq _ hQ
  exact ⟨n, hn, hh, honest_in_supp wf hh hi⟩

/-- two quorums (possibly of earlier histories) share an honest node that voted in both -/
theorem quorum_inter_voters {P : Params} (hq : HQ P) {h t1 t2 : List Ev} (wf : WF false P h)
    (hs1 : t1 <:+ h) (hs2 : t2 <:+ h) {p1 s1 x1 p2 s2 x2}
    (hQ1 : Q P t1 p1 s1 x1) (hQ2 : Q P t2 p2 s2 x2) :
    ∃ n ∈ P.nodes, P.honest n = true ∧ VotedFor t1 n p1 s1 x1 ∧ VotedFor t2 n p2 s2 x2 := by
  obtain ⟨n, hn, hh, h1, h2⟩ := quorum_inter hq _ _ hQ1 hQ2
  exact ⟨n, hn, hh, honest_in_supp (wf_suffix hs1 wf) hh h1, honest_in_supp (wf_suffix hs2 wf) hh h2⟩

/-! ### 5. same-period uniqueness -/

/-- two quorums of the same `(period, step)` are for the same value -/
theorem Q_unique {P : Params} (hq : HQ P) {h : List Ev} (wf : WF false P h) {p s x x'}
    (h1 : Q P h p s x) (h2 : Q P h p s x') : x = x' := by
  obtain ⟨n, _, hh, v1, v2⟩ :=
    quorum_inter_voters hq wf (List.suffix_refl _) (List.suffix_refl _) h1 h2
  exact honest_unique wf hh v1 v2

theorem soft_unique {P : Params} (hq : HQ P) {h : List Ev} (wf : WF false P h) {p v v'}
    (h1 : softQ P h p v) (h2 : softQ P h p v') : v = v' :=
  Option.some.inj (Q_unique hq wf h1 h2)

theorem cert_unique {P : Params} (hq : HQ P) {h : List Ev} (wf : WF false P h) {p v v'}
    (h1 : certQ P h p v) (h2 : certQ P h p v') : v = v' :=
  Option.some.inj (Q_unique hq wf h1 h2)

/-! ### 6. a cert quorum needs an earlier soft quorum -/

theorem cert_needs_soft_aux {P : Params} (hq : HQ P) {h : List Ev} (wf : WF false P h) :
    ∀ t, t <:+ h → ∀ p v, certQ P t p v → ∃ pre, pre <:+ t ∧ softQ P pre p v := by
  induction h with
  | nil =>
      intro t ht p v hc
      rw [List.suffix_nil] at ht; subst ht
      obtain ⟨n, _, _, hv⟩ := quorum_honest_voter hq wf hc
      simp [VotedFor, votes] at hv
  | cons e pre ih =>
      intro t ht p v hc
      rcases List.suffix_cons_iff.1 ht with rfl | ht'
      · obtain ⟨n, _, hh, hv⟩ := quorum_honest_voter hq wf hc
        obtain ⟨pre1, hs1, ok⟩ := vote_ok wf hv hh
        have hst : stagedQ P pre1 p v := ok.2.2.2
        have hp1 : pre1 <:+ pre := suffix_of_cons_suffix hs1
        rcases hst with hsoft | hcert
        · exact ⟨pre1, hp1.trans (List.suffix_cons _ _), hsoft⟩
        · obtain ⟨pre2, hs2, hsq⟩ := ih wf.1 pre1 hp1 p v hcert
          exact ⟨pre2, (hs2.trans hp1).trans (List.suffix_cons _ _), hsq⟩
      · exact ih wf.1 t ht' p v hc

theorem cert_needs_soft {P : Params} (hq : HQ P) {h : List Ev} (wf : WF false P h) {p v}
    (hc : certQ P h p v) : ∃ pre, pre <:+ h ∧ softQ P pre p v :=
  cert_needs_soft_aux hq wf h (List.suffix_refl _) p v hc

/-- anything staged for a period has a soft quorum -/
theorem staged_soft {P : Params} (hq : HQ P) {h : List Ev} (wf : WF false P h) {p v}
    (hc : stagedQ P h p v) : softQ P h p v := by
  rcases hc with hs | hc
  · exact hs
  · obtain ⟨pre, hs, hsq⟩ := cert_needs_soft hq wf hc
    exact softQ_mono hs hsq

theorem staged_soft_pre {P : Params} (hq : HQ P) {h : List Ev} (wf : WF false P h) {p v}
    (hc : stagedQ P h p v) : ∃ pre, pre <:+ h ∧ softQ P pre p v := by
  rcases hc with hs | hc
  · exact ⟨h, List.suffix_refl _, hs⟩
  · exact cert_needs_soft hq wf hc

end AlgoVerif.Lemmas.AgreementAbs
