/-
Lemmas about Model.CodecSchema (schema layer of C40): `lexLt` is a strict order, inversion of `HasTy`,
shape of the emitted lists, emptiness of zero values, and the mutual inductions behind Props/C40Schema.lean.
-/
import AlgoVerif.Model.CodecSchema
import AlgoVerif.Lemmas.Msgpack
set_option linter.unusedSimpArgs false
set_option linter.unusedVariables false
namespace AlgoVerif.CodecSchema
open AlgoVerif.Msgpack

/-! ## `lexLt` is a strict order -/

theorem lexLt_irrefl : ∀ a : Bytes, lexLt a a = false
  | [] => rfl
  | a :: as => by
    have := lexLt_irrefl as
    simp [lexLt, this, UInt8.lt_irrefl]

theorem lexLt_trans : ∀ a b c : Bytes, lexLt a b = true → lexLt b c = true → lexLt a c = true
  | _, [], _, h, _ => by cases ‹Bytes› <;> simp [lexLt] at h
  | _, _ :: _, [], _, h => by simp [lexLt] at h
  | [], _ :: _, _ :: _, _, _ => by simp [lexLt]
  | a :: as, b :: bs, c :: cs, h₁, h₂ => by
    simp only [lexLt, Bool.or_eq_true, Bool.and_eq_true, decide_eq_true_eq, beq_iff_eq] at h₁ h₂ ⊢
    rcases h₁ with h₁ | ⟨rfl, h₁⟩
    · rcases h₂ with h₂ | ⟨rfl, _⟩
      · exact Or.inl (UInt8.lt_trans h₁ h₂)
      · exact Or.inl h₁
    · rcases h₂ with h₂ | ⟨rfl, h₂⟩
      · exact Or.inl h₂
      · exact Or.inr ⟨rfl, lexLt_trans as bs cs h₁ h₂⟩

theorem lexLt_ne {a b : Bytes} (h : lexLt a b = true) : a ≠ b := by
  rintro rfl
  rw [lexLt_irrefl] at h
  exact Bool.noConfusion h

theorem keyLt_str (a b : Bytes) : keyLt (.str a) (.str b) = lexLt a b := by
  simp [keyLt, sortKey, lexLt]

/-! ## inversion of `HasTy` -/

theorem hasTy_bool {ty b} (h : HasTy ty (.bool b) = true) : ty = .bool := by
  cases ty <;> simp only [HasTy] at h <;> first | exact Bool.noConfusion h | skip
  rfl

theorem hasTy_uint {ty n} (h : HasTy ty (.uint n) = true) :
    ∃ bits, ty = .uint bits ∧ bits ≤ 64 ∧ n < 2 ^ bits := by
  cases ty <;> simp only [HasTy, Bool.and_eq_true, decide_eq_true_eq] at h <;> first | exact Bool.noConfusion h | skip
  exact ⟨_, rfl, h⟩

theorem hasTy_int {ty i} (h : HasTy ty (.int i) = true) :
    ∃ bits, ty = .int bits ∧ 1 ≤ bits ∧ bits ≤ 64 ∧
      -((2 ^ (bits - 1) : Nat) : Int) ≤ i ∧ i < ((2 ^ (bits - 1) : Nat) : Int) := by
  cases ty <;> simp only [HasTy, Bool.and_eq_true, decide_eq_true_eq] at h <;> first | exact Bool.noConfusion h | skip
  exact ⟨_, rfl, h⟩

theorem hasTy_str {ty s} (h : HasTy ty (.str s) = true) : ty = .str ∧ s.length < 4294967296 := by
  cases ty <;> simp only [HasTy, Bool.and_eq_true, decide_eq_true_eq] at h <;> first | exact Bool.noConfusion h | skip
  exact ⟨rfl, h⟩

theorem hasTy_bytesNil {ty} (h : HasTy ty .bytesNil = true) : ty = .bytes := by
  cases ty <;> simp only [HasTy] at h <;> first | exact Bool.noConfusion h | skip
  rfl

theorem hasTy_bytes {ty b} (h : HasTy ty (.bytes b) = true) : ty = .bytes ∧ b.length < 4294967296 := by
  cases ty <;> simp only [HasTy, Bool.and_eq_true, decide_eq_true_eq] at h <;> first | exact Bool.noConfusion h | skip
  exact ⟨rfl, h⟩

theorem hasTy_fixed {ty b} (h : HasTy ty (.fixed b) = true) :
    ∃ n, ty = .fixedBytes n ∧ b.length = n ∧ n < 4294967296 := by
  cases ty <;> simp only [HasTy, Bool.and_eq_true, decide_eq_true_eq] at h <;> first | exact Bool.noConfusion h | skip
  exact ⟨_, rfl, h⟩

theorem hasTy_sliceNil {ty} (h : HasTy ty .sliceNil = true) : ∃ e, ty = .slice e := by
  cases ty <;> simp only [HasTy] at h <;> first | exact Bool.noConfusion h | skip
  exact ⟨_, rfl⟩

theorem hasTy_slice {ty xs} (h : HasTy ty (.slice xs) = true) :
    ∃ e, ty = .slice e ∧ xs.length < 4294967296 ∧ HasTyL e xs = true := by
  cases ty <;> simp only [HasTy, Bool.and_eq_true, decide_eq_true_eq] at h <;> first | exact Bool.noConfusion h | skip
  exact ⟨_, rfl, h⟩

theorem hasTy_array {ty xs} (h : HasTy ty (.array xs) = true) :
    ∃ n e, ty = .array n e ∧ xs.length = n ∧ n < 4294967296 ∧ HasTyL e xs = true := by
  cases ty <;> simp only [HasTy, Bool.and_eq_true, decide_eq_true_eq] at h <;> first | exact Bool.noConfusion h | skip
  exact ⟨_, _, rfl, h⟩

theorem hasTy_mapNil {ty} (h : HasTy ty .mapNil = true) : ∃ k v, ty = .map k v := by
  cases ty <;> simp only [HasTy] at h <;> first | exact Bool.noConfusion h | skip
  exact ⟨_, _, rfl⟩

theorem hasTy_map {ty kvs} (h : HasTy ty (.map kvs) = true) :
    ∃ k v, ty = .map k v ∧ kvs.length < 4294967296 ∧ HasTyM k v kvs = true ∧
      sortedKeys ((toVM k v kvs).map Prod.fst) = true := by
  cases ty <;> simp only [HasTy, Bool.and_eq_true, decide_eq_true_eq] at h <;> first | exact Bool.noConfusion h | skip
  exact ⟨_, _, rfl, h⟩

theorem hasTy_struct {ty os} (h : HasTy ty (.struct os) = true) :
    ∃ fs, ty = .struct fs ∧ HasTyF fs os = true := by
  cases ty <;> simp only [HasTy] at h <;> first | exact Bool.noConfusion h | skip
  exact ⟨_, rfl, h⟩

theorem hasTyF_nil_right {fs : List Field} (h : HasTyF fs [] = true) : fs = [] := by
  cases fs with
  | nil => rfl
  | cons f fs => simp [HasTyF] at h

theorem hasTyF_cons_right {fs : List Field} {o os} (h : HasTyF fs (o :: os) = true) :
    ∃ name oe ty fs', fs = (name, oe, ty) :: fs' ∧ HasTy ty o = true ∧ HasTyF fs' os = true := by
  cases fs with
  | nil => simp [HasTyF] at h
  | cons f fs =>
    obtain ⟨name, oe, ty⟩ := f
    simp only [HasTyF, Bool.and_eq_true] at h
    exact ⟨name, oe, ty, fs, rfl, h⟩

theorem hasTyF_length : ∀ {fs : List Field} {os : List Obj}, HasTyF fs os = true → fs.length = os.length
  | fs, [], h => by simp [hasTyF_nil_right h]
  | fs, o :: os, h => by
    obtain ⟨name, oe, ty, fs', rfl, _, h2⟩ := hasTyF_cons_right h
    simp [hasTyF_length h2]

/-! ## shape of the emitted lists -/

theorem toVL_length (e : Ty) (xs : List Obj) : (toVL e xs).length = xs.length := by
  induction xs with
  | nil => simp [toVL]
  | cons x xs ih => simp [toVL, ih]

theorem toVM_length (k v : Ty) (kvs : List (Obj × Obj)) : (toVM k v kvs).length = kvs.length := by
  induction kvs with
  | nil => simp [toVM]
  | cons x xs ih => obtain ⟨a, b⟩ := x; simp [toVM, ih]

theorem normL_length (e : Ty) (xs : List Obj) : (normL e xs).length = xs.length := by
  induction xs with
  | nil => simp [normL]
  | cons x xs ih => simp [normL, ih]

theorem normM_length (k v : Ty) (kvs : List (Obj × Obj)) : (normM k v kvs).length = kvs.length := by
  induction kvs with
  | nil => simp [normM]
  | cons x xs ih => obtain ⟨a, b⟩ := x; simp [normM, ih]

theorem toVF_nil_right (fs : List Field) : toVF fs [] = [] := by
  cases fs <;> simp [toVF]

theorem toVF_nil_left (os : List Obj) : toVF [] os = [] := by
  cases os <;> simp [toVF]

theorem toVF_cons (name : Bytes) (oe : Bool) (ty : Ty) (fs : List Field) (o : Obj) (os : List Obj) :
    toVF ((name, oe, ty) :: fs) (o :: os) =
      if (oe && emptyO o) = true then toVF fs os else (V.str name, toV ty o) :: toVF fs os := by
  simp [toVF]

theorem normF_cons (name : Bytes) (oe : Bool) (ty : Ty) (fs : List Field) (o : Obj) (os : List Obj) :
    normF ((name, oe, ty) :: fs) (o :: os) =
      (if (oe && emptyO o) = true then zero ty else normR ty o) :: normF fs os := by
  simp [normF]

theorem normF_nil_right (fs : List Field) : normF fs [] = [] := by
  cases fs <;> simp [normF]

theorem toVF_length_le : ∀ (fs : List Field) (os : List Obj), (toVF fs os).length ≤ os.length
  | fs, [] => by simp [toVF_nil_right]
  | [], o :: os => by simp [toVF_nil_left]
  | (name, oe, ty) :: fs, o :: os => by
    have := toVF_length_le fs os
    rw [toVF_cons]
    split <;> simp <;> omega

/-! ## the emitted struct keys are a sub-list of the (strictly sorted) field names -/

theorem namesSorted_cons {f : Field} : ∀ {fs : List Field}, namesSorted (f :: fs) = true →
    (∀ g ∈ fs, lexLt f.1 g.1 = true) ∧ namesSorted fs = true
  | [], _ => by simp [namesSorted]
  | g :: fs, h => by
    simp only [namesSorted, Bool.and_eq_true] at h
    have ih := namesSorted_cons h.2
    refine ⟨?_, h.2⟩
    intro g' hg'
    rcases List.mem_cons.mp hg' with rfl | hg'
    · exact h.1
    · exact lexLt_trans _ _ _ h.1 (ih.1 g' hg')

theorem toVF_keys_lb (n : Bytes) : ∀ (fs : List Field) (os : List Obj),
    (∀ g ∈ fs, lexLt n g.1 = true) → ∀ kv ∈ toVF fs os, ∃ m, kv.1 = V.str m ∧ lexLt n m = true
  | fs, [], _ => by simp [toVF_nil_right]
  | [], o :: os, _ => by simp [toVF_nil_left]
  | (name, oe, ty) :: fs, o :: os, h => by
    have ih := toVF_keys_lb n fs os (fun g hg => h g (List.mem_cons_of_mem _ hg))
    rw [toVF_cons]
    split
    · exact ih
    · intro kv hkv
      rcases List.mem_cons.mp hkv with rfl | hkv
      · exact ⟨name, rfl, h _ (List.mem_cons_self ..)⟩
      · exact ih kv hkv

theorem sortedKeys_cons_of_lb {a : V} : ∀ {ks : List V}, (∀ k ∈ ks, keyLt a k = true) →
    sortedKeys ks = true → sortedKeys (a :: ks) = true
  | [], _, _ => by simp [sortedKeys]
  | k :: ks, h, hs => by
    simp only [sortedKeys, Bool.and_eq_true]
    exact ⟨h k (List.mem_cons_self ..), hs⟩

theorem toVF_sorted : ∀ (fs : List Field) (os : List Obj), namesSorted fs = true →
    sortedKeys ((toVF fs os).map Prod.fst) = true
  | fs, [], _ => by simp [toVF_nil_right, sortedKeys]
  | [], o :: os, _ => by simp [toVF_nil_left, sortedKeys]
  | (name, oe, ty) :: fs, o :: os, h => by
    have hs := namesSorted_cons h
    have ih := toVF_sorted fs os hs.2
    rw [toVF_cons]
    split
    · exact ih
    · rw [List.map_cons]
      apply sortedKeys_cons_of_lb _ ih
      intro k hk
      obtain ⟨kv, hkv, rfl⟩ := List.mem_map.mp hk
      obtain ⟨m, hm, hlt⟩ := toVF_keys_lb name fs os hs.1 kv hkv
      rw [hm, keyLt_str]; exact hlt

/-! ## emptiness -/

theorem allZero_replicate (n : Nat) : allZero (List.replicate n 0) = true := by
  induction n with
  | zero => rfl
  | succ n ih => simp [List.replicate, allZero, ih]

theorem emptyL_replicate (n : Nat) (o : Obj) (h : emptyO o = true) : emptyL (List.replicate n o) = true := by
  induction n with
  | zero => simp [emptyL]
  | succ n ih => simp [List.replicate, emptyL, ih, h]

mutual
theorem emptyO_zero : ∀ ty : Ty, emptyO (zero ty) = true
  | .bool => by simp [zero, emptyO]
  | .uint _ => by simp [zero, emptyO]
  | .int _ => by simp [zero, emptyO]
  | .str => by simp [zero, emptyO]
  | .bytes => by simp [zero, emptyO]
  | .fixedBytes n => by simp [zero, emptyO, allZero_replicate]
  | .slice _ => by simp [zero, emptyO]
  | .array n e => by
    have := emptyO_zero e
    simp only [zero, emptyO]
    exact emptyL_replicate n _ this
  | .map _ _ => by simp [zero, emptyO]
  | .struct fs => by
    have := emptyL_zeroF fs
    simp only [zero, emptyO]
    exact this
theorem emptyL_zeroF : ∀ fs : List Field, emptyL (zeroF fs) = true
  | [] => by simp [zeroF, emptyL]
  | (_, _, ty) :: fs => by
    have h1 := emptyO_zero ty
    have h2 := emptyL_zeroF fs
    simp [zeroF, emptyL, h1, h2]
end

end AlgoVerif.CodecSchema
