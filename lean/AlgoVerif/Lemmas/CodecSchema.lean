/-
Lemmas about Model.CodecSchema (schema layer of C40): `lexLt` is a strict order, inversion of `HasTy`,
shape of the emitted lists, emptiness of zero values, and the mutual inductions behind Props/C40Schema.lean.
-/
import AlgoVerif.Model.CodecSchema
import AlgoVerif.Lemmas.Msgpack
set_option linter.unusedSimpArgs false
set_option linter.unusedVariables false
namespace AlgoVerif.CodecSchema
open AlgoVerif.Msgpack

/-! ## `lexLt` is a strict order -/

theorem lexLt_irrefl : ∀ a : Bytes, lexLt a a = false
  | [] => rfl
  | a :: as => by
    have := lexLt_irrefl as
    simp [lexLt, this, UInt8.lt_irrefl]

theorem lexLt_trans : ∀ a b c : Bytes, lexLt a b = true → lexLt b c = true → lexLt a c = true
  | _, [], _, h, _ => by cases ‹Bytes› <;> simp [lexLt] at h
  | _, _ :: _, [], _, h => by simp [lexLt] at h
  | [], _ :: _, _ :: _, _, _ => by simp [lexLt]
  | a :: as, b :: bs, c :: cs, h₁, h₂ => by
    simp only [lexLt, Bool.or_eq_true, Bool.and_eq_true, decide_eq_true_eq, beq_iff_eq] at h₁ h₂ ⊢
    rcases h₁ with h₁ | ⟨rfl, h₁⟩
    · rcases h₂ with h₂ | ⟨rfl, _⟩
      · exact Or.inl (UInt8.lt_trans h₁ h₂)
      · exact Or.inl h₁
    · rcases h₂ with h₂ | ⟨rfl, h₂⟩
      · exact Or.inl h₂
      · exact Or.inr ⟨rfl, lexLt_trans as bs cs h₁ h₂⟩

theorem lexLt_ne {a b : Bytes} (h : lexLt a b = true) : a ≠ b := by
  rintro rfl
  rw [lexLt_irrefl] at h
  exact Bool.noConfusion h

theorem keyLt_str (a b : Bytes) : keyLt (.str a) (.str b) = lexLt a b := by
  simp [keyLt, sortKey, lexLt]

/-! ## inversion of `HasTy` -/

theorem hasTy_bool {ty b} (h : HasTy ty (.bool b) = true) : ty = .bool := by
  cases ty <;> simp only [HasTy] at h <;> first | exact Bool.noConfusion h | skip
  rfl

theorem hasTy_uint {ty n} (h : HasTy ty (.uint n) = true) :
    ∃ bits, ty = .uint bits ∧ bits ≤ 64 ∧ n < 2 ^ bits := by
  cases ty <;> simp only [HasTy, Bool.and_eq_true, decide_eq_true_eq] at h <;> first | exact Bool.noConfusion h | skip
  exact ⟨_, rfl, h⟩

theorem hasTy_int {ty i} (h : HasTy ty (.int i) = true) :
    ∃ bits, ty = .int bits ∧ 1 ≤ bits ∧ bits ≤ 64 ∧
      -((2 ^ (bits - 1) : Nat) : Int) ≤ i ∧ i < ((2 ^ (bits - 1) : Nat) : Int) := by
  cases ty <;> simp only [HasTy, Bool.and_eq_true, decide_eq_true_eq] at h <;> first | exact Bool.noConfusion h | skip
  exact ⟨_, rfl, h⟩

theorem hasTy_str {ty s} (h : HasTy ty (.str s) = true) : ty = .str ∧ s.length < 4294967296 := by
  cases ty <;> simp only [HasTy, Bool.and_eq_true, decide_eq_true_eq] at h <;> first | exact Bool.noConfusion h | skip
  exact ⟨rfl, h⟩

theorem hasTy_bytesNil {ty} (h : HasTy ty .bytesNil = true) : ty = .bytes := by
  cases ty <;> simp only [HasTy] at h <;> first | exact Bool.noConfusion h | skip
  rfl

theorem hasTy_bytes {ty b} (h : HasTy ty (.bytes b) = true) : ty = .bytes ∧ b.length < 4294967296 := by
  cases ty <;> simp only [HasTy, Bool.and_eq_true, decide_eq_true_eq] at h <;> first | exact Bool.noConfusion h | skip
  exact ⟨rfl, h⟩

theorem hasTy_fixed {ty b} (h : HasTy ty (.fixed b) = true) :
    ∃ n, ty = .fixedBytes n ∧ b.length = n ∧ n < 4294967296 := by
  cases ty <;> simp only [HasTy, Bool.and_eq_true, decide_eq_true_eq] at h <;> first | exact Bool.noConfusion h | skip
  exact ⟨_, rfl, h⟩

theorem hasTy_sliceNil {ty} (h : HasTy ty .sliceNil = true) : ∃ e, ty = .slice e := by
  cases ty <;> simp only [HasTy] at h <;> first | exact Bool.noConfusion h | skip
  exact ⟨_, rfl⟩

theorem hasTy_slice {ty xs} (h : HasTy ty (.slice xs) = true) :
    ∃ e, ty = .slice e ∧ xs.length < 4294967296 ∧ HasTyL e xs = true := by
  cases ty <;> simp only [HasTy, Bool.and_eq_true, decide_eq_true_eq] at h <;> first | exact Bool.noConfusion h | skip
  exact ⟨_, rfl, h⟩

theorem hasTy_array {ty xs} (h : HasTy ty (.array xs) = true) :
    ∃ n e, ty = .array n e ∧ xs.length = n ∧ n < 4294967296 ∧ HasTyL e xs = true := by
  cases ty <;> simp only [HasTy, Bool.and_eq_true, decide_eq_true_eq] at h <;> first | exact Bool.noConfusion h | skip
  exact ⟨_, _, rfl, h⟩

theorem hasTy_mapNil {ty} (h : HasTy ty .mapNil = true) : ∃ k v, ty = .map k v := by
  cases ty <;> simp only [HasTy] at h <;> first | exact Bool.noConfusion h | skip
  exact ⟨_, _, rfl⟩

theorem hasTy_map {ty kvs} (h : HasTy ty (.map kvs) = true) :
    ∃ k v, ty = .map k v ∧ kvs.length < 4294967296 ∧ HasTyM k v kvs = true ∧
      sortedKeys ((toVM k v kvs).map Prod.fst) = true := by
  cases ty <;> simp only [HasTy, Bool.and_eq_true, decide_eq_true_eq] at h <;> first | exact Bool.noConfusion h | skip
  exact ⟨_, _, rfl, h⟩

theorem hasTy_struct {ty os} (h : HasTy ty (.struct os) = true) :
    ∃ fs, ty = .struct fs ∧ HasTyF fs os = true := by
  cases ty <;> simp only [HasTy] at h <;> first | exact Bool.noConfusion h | skip
  exact ⟨_, rfl, h⟩

theorem hasTyF_nil_right {fs : List Field} (h : HasTyF fs [] = true) : fs = [] := by
  cases fs with
  | nil => rfl
  | cons f fs => simp [HasTyF] at h

theorem hasTyF_cons_right {fs : List Field} {o os} (h : HasTyF fs (o :: os) = true) :
    ∃ name oe ty fs', fs = (name, oe, ty) :: fs' ∧ HasTy ty o = true ∧ HasTyF fs' os = true := by
  cases fs with
  | nil => simp [HasTyF] at h
  | cons f fs =>
    obtain ⟨name, oe, ty⟩ := f
    simp only [HasTyF, Bool.and_eq_true] at h
    exact ⟨name, oe, ty, fs, rfl, h⟩

theorem hasTyF_length : ∀ {fs : List Field} {os : List Obj}, HasTyF fs os = true → fs.length = os.length
  | fs, [], h => by simp [hasTyF_nil_right h]
  | fs, o :: os, h => by
    obtain ⟨name, oe, ty, fs', rfl, _, h2⟩ := hasTyF_cons_right h
    simp [hasTyF_length h2]

/-! ## shape of the emitted lists -/

theorem toVL_length (e : Ty) (xs : List Obj) : (toVL e xs).length = xs.length := by
  induction xs with
  | nil => simp [toVL]
  | cons x xs ih => simp [toVL, ih]

theorem toVM_length (k v : Ty) (kvs : List (Obj × Obj)) : (toVM k v kvs).length = kvs.length := by
  induction kvs with
  | nil => simp [toVM]
  | cons x xs ih => obtain ⟨a, b⟩ := x; simp [toVM, ih]

theorem normL_length (e : Ty) (xs : List Obj) : (normL e xs).length = xs.length := by
  induction xs with
  | nil => simp [normL]
  | cons x xs ih => simp [normL, ih]

theorem normM_length (k v : Ty) (kvs : List (Obj × Obj)) : (normM k v kvs).length = kvs.length := by
  induction kvs with
  | nil => simp [normM]
  | cons x xs ih => obtain ⟨a, b⟩ := x; simp [normM, ih]

theorem toVF_nil_right (fs : List Field) : toVF fs [] = [] := by
  cases fs <;> simp [toVF]

theorem toVF_nil_left (os : List Obj) : toVF [] os = [] := by
  cases os <;> simp [toVF]

theorem toVF_cons (name : Bytes) (oe : Bool) (ty : Ty) (fs : List Field) (o : Obj) (os : List Obj) :
    toVF ((name, oe, ty) :: fs) (o :: os) =
      if (oe && emptyO o) = true then toVF fs os else (V.str name, toV ty o) :: toVF fs os := by
  simp [toVF]

theorem normF_cons (name : Bytes) (oe : Bool) (ty : Ty) (fs : List Field) (o : Obj) (os : List Obj) :
    normF ((name, oe, ty) :: fs) (o :: os) =
      (if (oe && emptyO o) = true then zero ty else normR ty o) :: normF fs os := by
  simp [normF]

theorem normF_nil_right (fs : List Field) : normF fs [] = [] := by
  cases fs <;> simp [normF]

theorem toVF_length_le : ∀ (fs : List Field) (os : List Obj), (toVF fs os).length ≤ os.length
  | fs, [] => by simp [toVF_nil_right]
  | [], o :: os => by simp [toVF_nil_left]
  | (name, oe, ty) :: fs, o :: os => by
    have := toVF_length_le fs os
    rw [toVF_cons]
    split <;> simp <;> omega

/-! ## the emitted struct keys are a sub-list of the (strictly sorted) field names -/

theorem namesSorted_cons {f : Field} : ∀ {fs : List Field}, namesSorted (f :: fs) = true →
    (∀ g ∈ fs, lexLt f.1 g.1 = true) ∧ namesSorted fs = true
  | [], _ => by simp [namesSorted]
  | g :: fs, h => by
    simp only [namesSorted, Bool.and_eq_true] at h
    have ih := namesSorted_cons h.2
    refine ⟨?_, h.2⟩
    intro g' hg'
    rcases List.mem_cons.mp hg' with rfl | hg'
    · exact h.1
    · exact lexLt_trans _ _ _ h.1 (ih.1 g' hg')

theorem toVF_keys_lb (n : Bytes) : ∀ (fs : List Field) (os : List Obj),
    (∀ g ∈ fs, lexLt n g.1 = true) → ∀ kv ∈ toVF fs os, ∃ m, kv.1 = V.str m ∧ lexLt n m = true
  | fs, [], _ => by simp [toVF_nil_right]
  | [], o :: os, _ => by simp [toVF_nil_left]
  | (name, oe, ty) :: fs, o :: os, h => by
    have ih := toVF_keys_lb n fs os (fun g hg => h g (List.mem_cons_of_mem _ hg))
    rw [toVF_cons]
    split
    · exact ih
    · intro kv hkv
      rcases List.mem_cons.mp hkv with rfl | hkv
      · exact ⟨name, rfl, h _ (List.mem_cons_self ..)⟩
      · exact ih kv hkv

theorem sortedKeys_cons_of_lb {a : V} : ∀ {ks : List V}, (∀ k ∈ ks, keyLt a k = true) →
    sortedKeys ks = true → sortedKeys (a :: ks) = true
  | [], _, _ => by simp [sortedKeys]
  | k :: ks, h, hs => by
    simp only [sortedKeys, Bool.and_eq_true]
    exact ⟨h k (List.mem_cons_self ..), hs⟩

theorem toVF_sorted : ∀ (fs : List Field) (os : List Obj), namesSorted fs = true →
    sortedKeys ((toVF fs os).map Prod.fst) = true
  | fs, [], _ => by simp [toVF_nil_right, sortedKeys]
  | [], o :: os, _ => by simp [toVF_nil_left, sortedKeys]
  | (name, oe, ty) :: fs, o :: os, h => by
    have hs := namesSorted_cons h
    have ih := toVF_sorted fs os hs.2
    rw [toVF_cons]
    split
    · exact ih
    · rw [List.map_cons]
      apply sortedKeys_cons_of_lb _ ih
      intro k hk
      obtain ⟨kv, hkv, rfl⟩ := List.mem_map.mp hk
      obtain ⟨m, hm, hlt⟩ := toVF_keys_lb name fs os hs.1 kv hkv
      rw [hm, keyLt_str]; exact hlt

/-! ## emptiness -/

theorem allZero_replicate (n : Nat) : allZero (List.replicate n 0) = true := by
  induction n with
  | zero => rfl
  | succ n ih => simp [List.replicate, allZero, ih]

theorem emptyL_replicate (n : Nat) (o : Obj) (h : emptyO o = true) : emptyL (List.replicate n o) = true := by
  induction n with
  | zero => simp [emptyL]
  | succ n ih => simp [List.replicate, emptyL, ih, h]

mutual
theorem emptyO_zero : ∀ ty : Ty, emptyO (zero ty) = true
  | .bool => by simp [zero, emptyO]
  | .uint _ => by simp [zero, emptyO]
  | .int _ => by simp [zero, emptyO]
  | .str => by simp [zero, emptyO]
  | .bytes => by simp [zero, emptyO]
  | .fixedBytes n => by simp [zero, emptyO, allZero_replicate]
  | .slice _ => by simp [zero, emptyO]
  | .array n e => by
    have := emptyO_zero e
    simp only [zero, emptyO]
    exact emptyL_replicate n _ this
  | .map _ _ => by simp [zero, emptyO]
  | .struct fs => by
    have := emptyL_zeroF fs
    simp only [zero, emptyO]
    exact this
theorem emptyL_zeroF : ∀ fs : List Field, emptyL (zeroF fs) = true
  | [] => by simp [zeroF, emptyL]
  | (_, _, ty) :: fs => by
    have h1 := emptyO_zero ty
    have h2 := emptyL_zeroF fs
    simp [zeroF, emptyL, h1, h2]
end

/-! ## the emitted tree is canonical -/

theorem pow64 : (2:Nat)^64 = 18446744073709551616 := by decide
theorem pow63 : (2:Nat)^63 = 9223372036854775808 := by decide

mutual
theorem toV_wf_sorted : ∀ (ty : Ty) (o : Obj), SchemaWF ty = true → HasTy ty o = true →
    wfB (toV ty o) = true ∧ sortedB (toV ty o) = true
  | ty, .bool b, _, ht => by
    obtain rfl := hasTy_bool ht
    simp [toV, wfB, sortedB]
  | ty, .uint n, _, ht => by
    obtain ⟨bits, rfl, hb, hn⟩ := hasTy_uint ht
    have h1 : 2 ^ bits ≤ 2 ^ 64 := Nat.pow_le_pow_right (by decide) hb
    rw [pow64] at h1
    simp only [toV, wfB, sortedB, decide_eq_true_eq, and_true]
    omega
  | ty, .int i, _, ht => by
    obtain ⟨bits, rfl, hb1, hb, hlo, hhi⟩ := hasTy_int ht
    have h1 : 2 ^ (bits - 1) ≤ 2 ^ 63 := Nat.pow_le_pow_right (by decide) (by omega)
    rw [pow63] at h1
    generalize 2 ^ (bits - 1) = p at hlo hhi h1
    simp only [toV]
    split
    · simp only [wfB, sortedB, decide_eq_true_eq, and_true]; omega
    · simp only [wfB, sortedB, Bool.and_eq_true, decide_eq_true_eq, and_true]; omega
  | ty, .str s, _, ht => by
    obtain ⟨rfl, hl⟩ := hasTy_str ht
    simp only [toV, wfB, sortedB, decide_eq_true_eq, and_true]; exact hl
  | ty, .bytesNil, _, ht => by
    obtain rfl := hasTy_bytesNil ht
    simp [toV, wfB, sortedB]
  | ty, .bytes b, _, ht => by
    obtain ⟨rfl, hl⟩ := hasTy_bytes ht
    simp only [toV, wfB, sortedB, decide_eq_true_eq, and_true]; exact hl
  | ty, .fixed b, _, ht => by
    obtain ⟨n, rfl, hl, hn⟩ := hasTy_fixed ht
    simp only [toV, wfB, sortedB, decide_eq_true_eq, and_true]; omega
  | ty, .sliceNil, _, ht => by
    obtain ⟨e, rfl⟩ := hasTy_sliceNil ht
    simp [toV, wfB, sortedB]
  | ty, .slice xs, hw, ht => by
    obtain ⟨e, rfl, hl, hx⟩ := hasTy_slice ht
    simp only [SchemaWF] at hw
    have ih := toV_wf_sortedL e xs hw hx
    simp only [toV, wfB, sortedB, toVL_length, Bool.and_eq_true, decide_eq_true_eq]
    exact ⟨⟨hl, ih.1⟩, ih.2⟩
  | ty, .array xs, hw, ht => by
    obtain ⟨n, e, rfl, hl, hn, hx⟩ := hasTy_array ht
    simp only [SchemaWF] at hw
    have ih := toV_wf_sortedL e xs hw hx
    simp only [toV, wfB, sortedB, toVL_length, Bool.and_eq_true, decide_eq_true_eq]
    exact ⟨⟨by omega, ih.1⟩, ih.2⟩
  | ty, .mapNil, _, ht => by
    obtain ⟨k, v, rfl⟩ := hasTy_mapNil ht
    simp [toV, wfB, sortedB]
  | ty, .map kvs, hw, ht => by
    obtain ⟨k, v, rfl, hl, hm, hs⟩ := hasTy_map ht
    simp only [SchemaWF, Bool.and_eq_true] at hw
    have ih := toV_wf_sortedM k v kvs hw.2.1 hw.2.2 hm
    simp only [toV, wfB, sortedB, toVM_length, Bool.and_eq_true, decide_eq_true_eq]
    exact ⟨⟨hl, ih.1⟩, hs, ih.2⟩
  | ty, .struct os, hw, ht => by
    obtain ⟨fs, rfl, hf⟩ := hasTy_struct ht
    simp only [SchemaWF, Bool.and_eq_true, decide_eq_true_eq] at hw
    have ih := toV_wf_sortedF fs os hw.2.2 hf
    have hlen := toVF_length_le fs os
    have hlen' := hasTyF_length hf
    have hlt : (toVF fs os).length < 4294967296 := by omega
    simp only [toV, wfB, sortedB, Bool.and_eq_true, decide_eq_true_eq]
    exact ⟨⟨hlt, ih.1⟩, toVF_sorted fs os hw.2.1, ih.2⟩
theorem toV_wf_sortedL : ∀ (e : Ty) (xs : List Obj), SchemaWF e = true → HasTyL e xs = true →
    wfL (toVL e xs) = true ∧ sortedL (toVL e xs) = true
  | _, [], _, _ => by simp [toVL, wfL, sortedL]
  | e, x :: xs, hw, ht => by
    simp only [HasTyL, Bool.and_eq_true] at ht
    have h1 := toV_wf_sorted e x hw ht.1
    have h2 := toV_wf_sortedL e xs hw ht.2
    simp only [toVL, wfL, sortedL, Bool.and_eq_true]
    exact ⟨⟨h1.1, h2.1⟩, h1.2, h2.2⟩
theorem toV_wf_sortedM : ∀ (k v : Ty) (kvs : List (Obj × Obj)), SchemaWF k = true → SchemaWF v = true →
    HasTyM k v kvs = true → wfM (toVM k v kvs) = true ∧ sortedM (toVM k v kvs) = true
  | _, _, [], _, _, _ => by simp [toVM, wfM, sortedM]
  | k, v, (a, b) :: r, hk, hv, ht => by
    simp only [HasTyM, Bool.and_eq_true] at ht
    have h1 := toV_wf_sorted k a hk ht.1
    have h2 := toV_wf_sorted v b hv ht.2.1
    have h3 := toV_wf_sortedM k v r hk hv ht.2.2
    simp only [toVM, wfM, sortedM, Bool.and_eq_true]
    exact ⟨⟨h1.1, h2.1, h3.1⟩, h1.2, h2.2, h3.2⟩
theorem toV_wf_sortedF : ∀ (fs : List Field) (os : List Obj), SchemaWFF fs = true → HasTyF fs os = true →
    wfM (toVF fs os) = true ∧ sortedM (toVF fs os) = true
  | fs, [], _, _ => by rw [toVF_nil_right]; simp [wfM, sortedM]
  | fs, o :: os, hw, ht => by
    obtain ⟨name, oe, ty, fs', rfl, h1, h2⟩ := hasTyF_cons_right ht
    simp only [SchemaWFF, Bool.and_eq_true, decide_eq_true_eq] at hw
    have ih1 := toV_wf_sorted ty o hw.2.1 h1
    have ih2 := toV_wf_sortedF fs' os hw.2.2 h2
    rw [toVF_cons]
    split
    · exact ih2
    · simp only [wfM, sortedM, wfB, sortedB, Bool.and_eq_true, decide_eq_true_eq, true_and]
      exact ⟨⟨hw.1, ih1.1, ih2.1⟩, ih1.2, ih2.2⟩
end

/-! ## normalisation preserves emptiness and the emitted tree -/

mutual
theorem emptyO_normR : ∀ (ty : Ty) (o : Obj), HasTy ty o = true → emptyO (normR ty o) = emptyO o
  | ty, .bool b, ht => by obtain rfl := hasTy_bool ht; simp only [normR]
  | ty, .uint n, ht => by obtain ⟨bits, rfl, _⟩ := hasTy_uint ht; simp only [normR]
  | ty, .int i, ht => by obtain ⟨bits, rfl, _⟩ := hasTy_int ht; simp only [normR]
  | ty, .str s, ht => by obtain ⟨rfl, _⟩ := hasTy_str ht; simp only [normR]
  | ty, .bytesNil, ht => by obtain rfl := hasTy_bytesNil ht; simp only [normR]
  | ty, .bytes b, ht => by obtain ⟨rfl, _⟩ := hasTy_bytes ht; simp only [normR]
  | ty, .fixed b, ht => by obtain ⟨n, rfl, _⟩ := hasTy_fixed ht; simp only [normR]
  | ty, .sliceNil, ht => by obtain ⟨e, rfl⟩ := hasTy_sliceNil ht; simp only [normR]
  | ty, .slice xs, ht => by
    obtain ⟨e, rfl, _, _⟩ := hasTy_slice ht
    cases xs <;> simp [normR, normL, emptyO]
  | ty, .array xs, ht => by
    obtain ⟨n, e, rfl, _, _, hx⟩ := hasTy_array ht
    simp only [normR, emptyO]
    exact emptyL_normL e xs hx
  | ty, .mapNil, ht => by obtain ⟨k, v, rfl⟩ := hasTy_mapNil ht; simp only [normR]
  | ty, .map kvs, ht => by
    obtain ⟨k, v, rfl, _⟩ := hasTy_map ht
    cases kvs with
    | nil => simp [normR, normM, emptyO]
    | cons kv r => obtain ⟨a, b⟩ := kv; simp [normR, normM, emptyO]
  | ty, .struct os, ht => by
    obtain ⟨fs, rfl, hf⟩ := hasTy_struct ht
    simp only [normR, emptyO]
    exact emptyL_normF fs os hf
theorem emptyL_normL : ∀ (e : Ty) (xs : List Obj), HasTyL e xs = true → emptyL (normL e xs) = emptyL xs
  | _, [], _ => by simp [normL]
  | e, x :: xs, ht => by
    simp only [HasTyL, Bool.and_eq_true] at ht
    simp only [normL, emptyL, emptyO_normR e x ht.1, emptyL_normL e xs ht.2]
theorem emptyL_normF : ∀ (fs : List Field) (os : List Obj), HasTyF fs os = true →
    emptyL (normF fs os) = emptyL os
  | fs, [], _ => by rw [normF_nil_right]
  | fs, o :: os, ht => by
    obtain ⟨name, oe, ty, fs', rfl, h1, h2⟩ := hasTyF_cons_right ht
    have ih1 := emptyO_normR ty o h1
    have ih2 := emptyL_normF fs' os h2
    rw [normF_cons]
    simp only [emptyL, ih2]
    by_cases c : (oe && emptyO o) = true
    · rw [if_pos c, emptyO_zero]
      simp only [Bool.and_eq_true] at c
      rw [c.2]
    · rw [if_neg c, ih1]
end

mutual
theorem toV_normR : ∀ (ty : Ty) (o : Obj), HasTy ty o = true → toV ty (normR ty o) = toV ty o
  | ty, .bool b, ht => by obtain rfl := hasTy_bool ht; simp only [normR]
  | ty, .uint n, ht => by obtain ⟨bits, rfl, _⟩ := hasTy_uint ht; simp only [normR]
  | ty, .int i, ht => by obtain ⟨bits, rfl, _⟩ := hasTy_int ht; simp only [normR]
  | ty, .str s, ht => by obtain ⟨rfl, _⟩ := hasTy_str ht; simp only [normR]
  | ty, .bytesNil, ht => by obtain rfl := hasTy_bytesNil ht; simp only [normR]
  | ty, .bytes b, ht => by obtain ⟨rfl, _⟩ := hasTy_bytes ht; simp only [normR]
  | ty, .fixed b, ht => by obtain ⟨n, rfl, _⟩ := hasTy_fixed ht; simp only [normR]
  | ty, .sliceNil, ht => by obtain ⟨e, rfl⟩ := hasTy_sliceNil ht; simp only [normR]
  | ty, .slice xs, ht => by
    obtain ⟨e, rfl, _, hx⟩ := hasTy_slice ht
    simp only [normR, toV, toVL_normL e xs hx]
  | ty, .array xs, ht => by
    obtain ⟨n, e, rfl, _, _, hx⟩ := hasTy_array ht
    simp only [normR, toV, toVL_normL e xs hx]
  | ty, .mapNil, ht => by obtain ⟨k, v, rfl⟩ := hasTy_mapNil ht; simp only [normR]
  | ty, .map kvs, ht => by
    obtain ⟨k, v, rfl, _, hm, _⟩ := hasTy_map ht
    simp only [normR, toV, toVM_normM k v kvs hm]
  | ty, .struct os, ht => by
    obtain ⟨fs, rfl, hf⟩ := hasTy_struct ht
    simp only [normR, toV, toVF_normF fs os hf]
theorem toVL_normL : ∀ (e : Ty) (xs : List Obj), HasTyL e xs = true → toVL e (normL e xs) = toVL e xs
  | _, [], _ => by simp [normL]
  | e, x :: xs, ht => by
    simp only [HasTyL, Bool.and_eq_true] at ht
    simp only [normL, toVL, toV_normR e x ht.1, toVL_normL e xs ht.2]
theorem toVM_normM : ∀ (k v : Ty) (kvs : List (Obj × Obj)), HasTyM k v kvs = true →
    toVM k v (normM k v kvs) = toVM k v kvs
  | _, _, [], _ => by simp [normM]
  | k, v, (a, b) :: r, ht => by
    simp only [HasTyM, Bool.and_eq_true] at ht
    simp only [normM, toVM, toV_normR k a ht.1, toV_normR v b ht.2.1, toVM_normM k v r ht.2.2]
theorem toVF_normF : ∀ (fs : List Field) (os : List Obj), HasTyF fs os = true →
    toVF fs (normF fs os) = toVF fs os
  | fs, [], _ => by rw [normF_nil_right]
  | fs, o :: os, ht => by
    obtain ⟨name, oe, ty, fs', rfl, h1, h2⟩ := hasTyF_cons_right ht
    have ih1 := toV_normR ty o h1
    have ih2 := toVF_normF fs' os h2
    have he := emptyO_normR ty o h1
    rw [normF_cons, toVF_cons, toVF_cons, ih2]
    by_cases c : (oe && emptyO o) = true
    · have c' : (oe && emptyO (zero ty)) = true := by
        simp only [Bool.and_eq_true] at c ⊢
        exact ⟨c.1, emptyO_zero ty⟩
      rw [if_pos c, if_pos c', if_pos c]
    · rw [if_neg c, he, if_neg c, ih1, if_neg c]
end

/-! ## decode ∘ emit = normalise -/

theorem takeField_cons_self (name : Bytes) (v : V) (rest : List (V × V)) :
    takeField name ((V.str name, v) :: rest) = some (v, rest) := by
  simp [takeField]

theorem takeField_none {name : Bytes} {kvs : List (V × V)}
    (h : ∀ kv ∈ kvs, ∃ m, kv.1 = V.str m ∧ lexLt name m = true) : takeField name kvs = none := by
  cases kvs with
  | nil => simp [takeField]
  | cons kv rest =>
    obtain ⟨k, v⟩ := kv
    obtain ⟨m, hm, hlt⟩ := h (k, v) (List.mem_cons_self ..)
    simp only at hm
    subst hm
    have hne : ¬ m = name := fun e => lexLt_ne hlt e.symm
    simp only [takeField, if_neg hne]

mutual
theorem fromV_toV_normR : ∀ (ty : Ty) (o : Obj), SchemaWF ty = true → HasTy ty o = true →
    fromV ty (toV ty o) = some (normR ty o)
  | ty, .bool b, _, ht => by obtain rfl := hasTy_bool ht; simp only [toV, fromV, normR]
  | ty, .uint n, _, ht => by
    obtain ⟨bits, rfl, _, hn⟩ := hasTy_uint ht
    simp only [toV, fromV, normR, if_pos hn]
  | ty, .int i, _, ht => by
    obtain ⟨bits, rfl, _, _, hlo, hhi⟩ := hasTy_int ht
    simp only [toV, normR]
    split
    · next h0 =>
      have e : ((i.toNat : Nat) : Int) = i := Int.toNat_of_nonneg h0
      have hlt : i.toNat < 2 ^ (bits - 1) := by
        generalize 2 ^ (bits - 1) = p at hlo hhi ⊢
        omega
      simp only [fromV, if_pos hlt, e]
    · simp only [fromV, if_pos (And.intro hlo hhi)]
  | ty, .str s, _, ht => by obtain ⟨rfl, _⟩ := hasTy_str ht; simp only [toV, fromV, normR]
  | ty, .bytesNil, _, ht => by obtain rfl := hasTy_bytesNil ht; simp only [toV, fromV, normR]
  | ty, .bytes b, _, ht => by obtain ⟨rfl, _⟩ := hasTy_bytes ht; simp only [toV, fromV, normR]
  | ty, .fixed b, _, ht => by
    obtain ⟨n, rfl, hl, _⟩ := hasTy_fixed ht
    simp only [toV, fromV, normR, if_pos hl]
  | ty, .sliceNil, _, ht => by obtain ⟨e, rfl⟩ := hasTy_sliceNil ht; simp only [toV, fromV, normR]
  | ty, .slice xs, hw, ht => by
    obtain ⟨e, rfl, _, hx⟩ := hasTy_slice ht
    simp only [SchemaWF] at hw
    simp only [toV, fromV, normR, fromV_toVL e xs hw hx, Option.map_some]
  | ty, .array xs, hw, ht => by
    obtain ⟨n, e, rfl, hl, _, hx⟩ := hasTy_array ht
    simp only [SchemaWF] at hw
    have hl' : (toVL e xs).length = n := by rw [toVL_length]; exact hl
    simp only [toV, fromV, normR, if_pos hl', fromV_toVL e xs hw hx, Option.map_some]
  | ty, .mapNil, _, ht => by obtain ⟨k, v, rfl⟩ := hasTy_mapNil ht; simp only [toV, fromV, normR]
  | ty, .map kvs, hw, ht => by
    obtain ⟨k, v, rfl, _, hm, _⟩ := hasTy_map ht
    simp only [SchemaWF, Bool.and_eq_true] at hw
    simp only [toV, fromV, normR, fromV_toVM k v kvs hw.2.1 hw.2.2 hm, Option.map_some]
  | ty, .struct os, hw, ht => by
    obtain ⟨fs, rfl, hf⟩ := hasTy_struct ht
    simp only [SchemaWF, Bool.and_eq_true, decide_eq_true_eq] at hw
    simp only [toV, fromV, normR, fromV_toVF fs os hw.2.1 hw.2.2 hf, Option.map_some]
theorem fromV_toVL : ∀ (e : Ty) (xs : List Obj), SchemaWF e = true → HasTyL e xs = true →
    mapOpt (fromV e) (toVL e xs) = some (normL e xs)
  | _, [], _, _ => by simp [toVL, normL, mapOpt]
  | e, x :: xs, hw, ht => by
    simp only [HasTyL, Bool.and_eq_true] at ht
    simp only [toVL, normL, mapOpt, fromV_toV_normR e x hw ht.1, fromV_toVL e xs hw ht.2]
theorem fromV_toVM : ∀ (k v : Ty) (kvs : List (Obj × Obj)), SchemaWF k = true → SchemaWF v = true →
    HasTyM k v kvs = true → mapOpt2 (fromV k) (fromV v) (toVM k v kvs) = some (normM k v kvs)
  | _, _, [], _, _, _ => by simp [toVM, normM, mapOpt2]
  | k, v, (a, b) :: r, hk, hv, ht => by
    simp only [HasTyM, Bool.and_eq_true] at ht
    simp only [toVM, normM, mapOpt2, fromV_toV_normR k a hk ht.1, fromV_toV_normR v b hv ht.2.1,
      fromV_toVM k v r hk hv ht.2.2]
theorem fromV_toVF : ∀ (fs : List Field) (os : List Obj), namesSorted fs = true → SchemaWFF fs = true →
    HasTyF fs os = true → fromVF fs (toVF fs os) = some (normF fs os)
  | fs, [], _, _, ht => by
    obtain rfl := hasTyF_nil_right ht
    simp [toVF_nil_right, normF_nil_right, fromVF]
  | fs, o :: os, hs, hw, ht => by
    obtain ⟨name, oe, ty, fs', rfl, h1, h2⟩ := hasTyF_cons_right ht
    have hs' := namesSorted_cons hs
    simp only [SchemaWFF, Bool.and_eq_true, decide_eq_true_eq] at hw
    have ih1 := fromV_toV_normR ty o hw.2.1 h1
    have ih2 := fromV_toVF fs' os hs'.2 hw.2.2 h2
    rw [toVF_cons, normF_cons]
    by_cases c : (oe && emptyO o) = true
    · rw [if_pos c, if_pos c]
      have hoe : oe = true := by
        simp only [Bool.and_eq_true] at c
        exact c.1
      have hnone : takeField name (toVF fs' os) = none := takeField_none (toVF_keys_lb name fs' os hs'.1)
      simp only [fromVF, hnone, hoe, ih2, if_true, Option.map_some]
    · rw [if_neg c, if_neg c]
      simp only [fromVF, takeField_cons_self, ih1, ih2]
end

/-! ## zero values and normal forms are well typed -/

theorem hasTyL_replicate (e : Ty) (z : Obj) (h : HasTy e z = true) (n : Nat) :
    HasTyL e (List.replicate n z) = true := by
  induction n with
  | zero => simp [HasTyL]
  | succ n ih => simp [List.replicate, HasTyL, h, ih]

mutual
theorem hasTy_zero_of : ∀ (ty : Ty) (o : Obj), HasTy ty o = true → HasTy ty (zero ty) = true
  | ty, .bool b, ht => by obtain rfl := hasTy_bool ht; simp [zero, HasTy]
  | ty, .uint n, ht => by
    obtain ⟨bits, rfl, hb, _⟩ := hasTy_uint ht
    have := Nat.pow_pos (n := bits) (show 0 < 2 by decide)
    simp only [zero, HasTy, Bool.and_eq_true, decide_eq_true_eq]
    exact ⟨hb, this⟩
  | ty, .int i, ht => by
    obtain ⟨bits, rfl, hb1, hb, _, _⟩ := hasTy_int ht
    have := Nat.pow_pos (n := bits - 1) (show 0 < 2 by decide)
    simp only [zero, HasTy, Bool.and_eq_true, decide_eq_true_eq]
    generalize 2 ^ (bits - 1) = p at this
    omega
  | ty, .str s, ht => by obtain ⟨rfl, _⟩ := hasTy_str ht; simp [zero, HasTy]
  | ty, .bytesNil, ht => by obtain rfl := hasTy_bytesNil ht; simp [zero, HasTy]
  | ty, .bytes b, ht => by obtain ⟨rfl, _⟩ := hasTy_bytes ht; simp [zero, HasTy]
  | ty, .fixed b, ht => by
    obtain ⟨n, rfl, _, hn⟩ := hasTy_fixed ht
    simp [zero, HasTy, hn]
  | ty, .sliceNil, ht => by obtain ⟨e, rfl⟩ := hasTy_sliceNil ht; simp [zero, HasTy]
  | ty, .slice xs, ht => by obtain ⟨e, rfl, _⟩ := hasTy_slice ht; simp [zero, HasTy]
  | ty, .array [], ht => by
    obtain ⟨n, e, rfl, hl, hn, _⟩ := hasTy_array ht
    simp only [List.length_nil] at hl
    subst hl
    simp [zero, HasTy, HasTyL]
  | ty, .array (x :: xs), ht => by
    obtain ⟨n, e, rfl, hl, hn, hx⟩ := hasTy_array ht
    simp only [HasTyL, Bool.and_eq_true] at hx
    have ih := hasTy_zero_of e x hx.1
    simp only [zero, HasTy, Bool.and_eq_true, decide_eq_true_eq, List.length_replicate]
    exact ⟨trivial, hn, hasTyL_replicate e _ ih n⟩
  | ty, .mapNil, ht => by obtain ⟨k, v, rfl⟩ := hasTy_mapNil ht; simp [zero, HasTy]
  | ty, .map kvs, ht => by obtain ⟨k, v, rfl, _⟩ := hasTy_map ht; simp [zero, HasTy]
  | ty, .struct os, ht => by
    obtain ⟨fs, rfl, hf⟩ := hasTy_struct ht
    simp only [zero, HasTy]
    exact hasTyF_zeroF_of fs os hf
theorem hasTyF_zeroF_of : ∀ (fs : List Field) (os : List Obj), HasTyF fs os = true →
    HasTyF fs (zeroF fs) = true
  | fs, [], ht => by obtain rfl := hasTyF_nil_right ht; simp [zeroF, HasTyF]
  | fs, o :: os, ht => by
    obtain ⟨name, oe, ty, fs', rfl, h1, h2⟩ := hasTyF_cons_right ht
    simp only [zeroF, HasTyF, Bool.and_eq_true]
    exact ⟨hasTy_zero_of ty o h1, hasTyF_zeroF_of fs' os h2⟩
end

mutual
theorem hasTy_normR : ∀ (ty : Ty) (o : Obj), HasTy ty o = true → HasTy ty (normR ty o) = true
  | ty, .bool b, ht => by obtain rfl := hasTy_bool ht; simp only [normR]; exact ht
  | ty, .uint n, ht => by obtain ⟨bits, rfl, _⟩ := hasTy_uint ht; simp only [normR]; exact ht
  | ty, .int i, ht => by obtain ⟨bits, rfl, _⟩ := hasTy_int ht; simp only [normR]; exact ht
  | ty, .str s, ht => by obtain ⟨rfl, _⟩ := hasTy_str ht; simp only [normR]; exact ht
  | ty, .bytesNil, ht => by obtain rfl := hasTy_bytesNil ht; simp only [normR]; exact ht
  | ty, .bytes b, ht => by obtain ⟨rfl, _⟩ := hasTy_bytes ht; simp only [normR]; exact ht
  | ty, .fixed b, ht => by obtain ⟨n, rfl, _⟩ := hasTy_fixed ht; simp only [normR]; exact ht
  | ty, .sliceNil, ht => by obtain ⟨e, rfl⟩ := hasTy_sliceNil ht; simp only [normR]; exact ht
  | ty, .slice xs, ht => by
    obtain ⟨e, rfl, hl, hx⟩ := hasTy_slice ht
    simp only [normR, HasTy, normL_length, Bool.and_eq_true, decide_eq_true_eq]
    exact ⟨hl, hasTyL_normL e xs hx⟩
  | ty, .array xs, ht => by
    obtain ⟨n, e, rfl, hl, hn, hx⟩ := hasTy_array ht
    simp only [normR, HasTy, normL_length, Bool.and_eq_true, decide_eq_true_eq]
    exact ⟨hl, hn, hasTyL_normL e xs hx⟩
  | ty, .mapNil, ht => by obtain ⟨k, v, rfl⟩ := hasTy_mapNil ht; simp only [normR]; exact ht
  | ty, .map kvs, ht => by
    obtain ⟨k, v, rfl, hl, hm, hs⟩ := hasTy_map ht
    simp only [normR, HasTy, normM_length, toVM_normM k v kvs hm, Bool.and_eq_true, decide_eq_true_eq]
    exact ⟨hl, hasTyM_normM k v kvs hm, hs⟩
  | ty, .struct os, ht => by
    obtain ⟨fs, rfl, hf⟩ := hasTy_struct ht
    simp only [normR, HasTy]
    exact hasTyF_normF fs os hf
theorem hasTyL_normL : ∀ (e : Ty) (xs : List Obj), HasTyL e xs = true → HasTyL e (normL e xs) = true
  | _, [], _ => by simp [normL, HasTyL]
  | e, x :: xs, ht => by
    simp only [HasTyL, Bool.and_eq_true] at ht
    simp only [normL, HasTyL, Bool.and_eq_true]
    exact ⟨hasTy_normR e x ht.1, hasTyL_normL e xs ht.2⟩
theorem hasTyM_normM : ∀ (k v : Ty) (kvs : List (Obj × Obj)), HasTyM k v kvs = true →
    HasTyM k v (normM k v kvs) = true
  | _, _, [], _ => by simp [normM, HasTyM]
  | k, v, (a, b) :: r, ht => by
    simp only [HasTyM, Bool.and_eq_true] at ht
    simp only [normM, HasTyM, Bool.and_eq_true]
    exact ⟨hasTy_normR k a ht.1, hasTy_normR v b ht.2.1, hasTyM_normM k v r ht.2.2⟩
theorem hasTyF_normF : ∀ (fs : List Field) (os : List Obj), HasTyF fs os = true →
    HasTyF fs (normF fs os) = true
  | fs, [], ht => by rw [normF_nil_right]; exact ht
  | fs, o :: os, ht => by
    obtain ⟨name, oe, ty, fs', rfl, h1, h2⟩ := hasTyF_cons_right ht
    rw [normF_cons]
    simp only [HasTyF, Bool.and_eq_true]
    refine ⟨?_, hasTyF_normF fs' os h2⟩
    split
    · exact hasTy_zero_of ty o h1
    · exact hasTy_normR ty o h1
end

/-! ## decidable equality of objects, decidable `≈` -/

mutual
theorem beqO_iff : ∀ a b : Obj, beqO a b = true ↔ a = b
  | .bool a, b => by cases b <;> simp [beqO]
  | .uint a, b => by cases b <;> simp [beqO]
  | .int a, b => by cases b <;> simp [beqO]
  | .str a, b => by cases b <;> simp [beqO]
  | .bytesNil, b => by cases b <;> simp [beqO]
  | .bytes a, b => by cases b <;> simp [beqO]
  | .fixed a, b => by cases b <;> simp [beqO]
  | .sliceNil, b => by cases b <;> simp [beqO]
  | .slice a, b => by cases b <;> simp [beqO, beqL_iff a]
  | .array a, b => by cases b <;> simp [beqO, beqL_iff a]
  | .mapNil, b => by cases b <;> simp [beqO]
  | .map a, b => by cases b <;> simp [beqO, beqM_iff a]
  | .struct a, b => by cases b <;> simp [beqO, beqL_iff a]
theorem beqL_iff : ∀ a b : List Obj, beqL a b = true ↔ a = b
  | [], b => by cases b <;> simp [beqL]
  | a :: as, b => by cases b <;> simp [beqL, beqO_iff a, beqL_iff as]
theorem beqM_iff : ∀ a b : List (Obj × Obj), beqM a b = true ↔ a = b
  | [], b => by cases b <;> simp [beqM]
  | (a, a') :: as, b => by
    cases b with
    | nil => simp [beqM]
    | cons kv bs => obtain ⟨b, b'⟩ := kv; simp [beqM, beqO_iff a, beqO_iff a', beqM_iff as, and_assoc]
end

instance : DecidableEq Obj := fun a b =>
  if h : beqO a b = true then isTrue ((beqO_iff a b).mp h)
  else isFalse (fun e => h ((beqO_iff a b).mpr e))

instance (ty : Ty) (a b : Obj) : Decidable (Equiv ty a b) := inferInstanceAs (Decidable (norm ty false a = norm ty false b))

end AlgoVerif.CodecSchema
