import AlgoVerif.Lemmas.OnlineAcctsReach
/-! C13: genesis establishes the invariant; a reload (restart + replay + flush) keeps it and the history. -/
namespace AlgoVerif.Lemmas.OnlineAccts
open AlgoVerif.Spec.OnlineHistory AlgoVerif.Model.OnlineAccts

/-! ### genesis -/

/-- what genesis looks like: Online accounts carry voting data, a positive normalised balance and no incentive /
    proposal / heartbeat data (the online table migration copies voting data, MicroAlgos and RewardsBase only) -/
structure GenOK (protos : List Proto) (univ : List Addr) (gen : Block) (M : Nat) : Prop where
  pwf : ProtosWF protos M
  proto : gen.proto < protos.length
  univ : ∀ e ∈ gen.deltas, e.1 ∈ univ
  online : ∀ e ∈ gen.deltas, e.2.online = true →
    e.2.core.votingEmpty = false ∧ (∃ nb, normBal (protoOf protos gen.proto).unit e.2.bal e.2.rb = some nb ∧ nb ≠ 0) ∧
    e.2.ie = false ∧ e.2.lp = 0 ∧ e.2.lh = 0

theorem genesisRows_spec {protos : List Proto} {univ : List Addr} {gen : Block} {M : Nat} (ok : GenOK protos univ gen M)
    (a : Addr) :
    let g := (protoOf protos gen.proto).unit
    RowsSorted (genesisRows g gen.deltas a) ∧ RowsBelow (genesisRows g gen.deltas a) 1 ∧ RowsOK g (genesisRows g gen.deltas a) ∧
    recOfRow (rowAt (genesisRows g gen.deltas a) 0) = recOfOpt (gen.deltas.lookup a) := by
  intro g
  unfold genesisRows
  cases hl : gen.deltas.lookup a with
  | none => simp [RowsSorted, RowsBelow, RowsOK, rowAt, recOfRow, recOfOpt]
  | some x =>
    simp only
    by_cases hon : x.online = true
    · obtain ⟨hk, ⟨nb, hnb, hnz⟩, hie, hlp, hlh⟩ := ok.online (a, x) (lookup_mem hl) hon
      simp only at hk hnb hie hlp hlh
      have hcore : (⟨x.bal, x.rb, x.vf, x.vl, x.key, false, 0, 0⟩ : ORec) = x.core := by
        simp [Acct.core, hie, hlp, hlh]
      simp only [hon, if_true, hcore]
      have hnb' : normBal g x.bal x.rb = some nb := hnb
      rw [hnb']
      simp only
      refine ⟨by simp [RowsSorted], ?_, ?_, ?_⟩
      · intro r hr; simp at hr; rw [hr]; simp
      · intro r hr
        simp at hr; rw [hr]
        refine ⟨?_, ?_⟩
        · intro hv; simp only at hv; rw [hk] at hv; cases hv
        · intro _; exact hnb
      · simp [rowAt, recOfRow, recOfOpt, orec_online hon]
    · have hoff : x.online = false := by cases hx : x.online <;> simp_all
      simp [hoff, RowsSorted, RowsBelow, RowsOK, rowAt, recOfRow, recOfOpt, orec_offline hoff]

theorem init_inv {protos : List Proto} {univ : List Addr} {gen : Block} {M : Nat} (ok : GenOK protos univ gen M)
    (lookback cacheMax : Nat) : Inv (init protos univ lookback cacheMax gen) M := by
  let g := (protoOf protos gen.proto).unit
  -- first with an empty cache
  let σb : State :=
    { protos := protos, univ := univ, lookback := lookback, cacheMax := cacheMax, gen := gen, ledger := [],
      dbRound := 0, db := genesisRows g gen.deltas, dbParamsStart := 0, dbParams := [Block.params gen], deltas := [],
      params := [Block.params gen], cache := fun _ => [], voters := [], expCache := [] }
  have hbase : InvCore σb M := by
    refine
      { pwf := ok.pwf, valid := ?_, huniv := ?_, hdb := Nat.le_refl _, hdeltas := rfl,
        hparams := ⟨0, rfl, rfl, Nat.le_refl _, Or.inl rfl⟩, hdbparams := rfl, hH := Or.inl rfl,
        hrows := ?_, hlook := ?_, hcache := ?_ }
    · intro b hb; simp [σb] at hb; rw [hb]; exact ok.proto
    · intro b hb e he; simp [σb] at hb; rw [hb] at he; exact ok.univ e he
    · intro a; obtain ⟨h1, h2, h3, _⟩ := genesisRows_spec ok a; exact ⟨h1, h2, h3⟩
    · intro a rnd _ h2
      have h0 : rnd = 0 := by have : rnd ≤ 0 := h2; omega
      subst h0
      obtain ⟨_, _, _, h4⟩ := genesisRows_spec ok a
      show recOfRow (rowAt (genesisRows g gen.deltas a) 0) = recAt σb.hist 0 a
      rw [h4]
      unfold recAt acctAt
      simp [σb, State.hist, Hist.rounds, lastIn]
    · intro a; simp [σb, EntSorted, EntBelow, cacheRead]
  have hc := hbase.with_cache (initCache univ (genesisRows g gen.deltas) cacheMax) (fun a => by
    rcases initCache_cases univ (genesisRows g gen.deltas) cacheMax a with h | h
    · exact Or.inl h
    · exact Or.inr (Or.inl h))
  refine ⟨hc.of_eq rfl rfl rfl rfl rfl rfl rfl rfl rfl rfl rfl, ?_, ?_, ?_⟩
  · intro rv x hl; simp [init] at hl
  · intro b hb e he hon
    have : b = gen := by simpa [init, State.hist, Hist.rounds] using hb
    rw [this] at he
    obtain ⟨hk, ⟨nb, hnb, hnz⟩, _⟩ := ok.online e he hon
    refine ⟨hk, ?_⟩
    show normBal (protoOf protos gen.proto).unit e.2.bal e.2.rb ≠ some 0
    rw [hnb]; intro h; cases h; exact hnz rfl
  · intro r v hm; simp [init] at hm


/-! ### reload -/

theorem rounds_take_trunc (gen : Block) (ledger : List Block) (D k : Nat) (hk : k ≤ D + 1) :
    (gen :: ledger.take D).take k = (gen :: ledger).take k := by
  have : gen :: ledger.take D = (gen :: ledger).take (D + 1) := by simp
  rw [this, List.take_take]
  congr 1; omega

theorem restart_acctAt (σ : State) (rnd : Nat) (a : Addr) (h : rnd ≤ σ.dbRound) :
    acctAt (restart σ).hist rnd a = acctAt σ.hist rnd a := by
  unfold acctAt
  show lastIn (((σ.gen :: σ.ledger.take σ.dbRound).take (rnd + 1)).map (·.deltas)) a = _
  rw [rounds_take_trunc σ.gen σ.ledger σ.dbRound (rnd + 1) (by omega)]
  rfl

theorem restart_block? (σ : State) (rnd : Nat) (h : rnd ≤ σ.dbRound) :
    (restart σ).hist.block? rnd = σ.hist.block? rnd := by
  show (σ.gen :: σ.ledger.take σ.dbRound)[rnd]? = (σ.gen :: σ.ledger)[rnd]?
  have : σ.gen :: σ.ledger.take σ.dbRound = (σ.gen :: σ.ledger).take (σ.dbRound + 1) := by simp
  rw [this, List.getElem?_take]
  simp [show rnd < σ.dbRound + 1 by omega]

theorem Inv.restart_inv {σ : State} {M : Nat} (inv : Inv σ M) : Inv (restart σ) M := by
  have hdb := inv.core.hdb
  have hH := inv.core.horizon_le
  have hmem : ∀ b, b ∈ σ.gen :: σ.ledger.take σ.dbRound → b ∈ σ.gen :: σ.ledger := by
    intro b hb
    rcases List.mem_cons.mp hb with h | h
    · rw [h]; simp
    · exact List.mem_cons_of_mem _ (List.mem_of_mem_take h)
  have htl : (σ.ledger.take σ.dbRound).length = σ.dbRound := by simp; omega
  have hdbplen : σ.dbParams.length = σ.dbRound + 1 - σ.dbParamsStart := by
    rw [inv.core.hdbparams]; simp; omega
  have htrunc : ((σ.gen :: σ.ledger.take σ.dbRound).drop σ.dbParamsStart) =
      ((σ.gen :: σ.ledger).drop σ.dbParamsStart).take (σ.dbRound + 1 - σ.dbParamsStart) := by
    have : σ.gen :: σ.ledger.take σ.dbRound = (σ.gen :: σ.ledger).take (σ.dbRound + 1) := by simp
    rw [this, List.drop_take]
  -- first with an empty cache
  have hbase : InvCore { restart σ with cache := fun _ => [] } M := by
    refine
      { pwf := inv.core.pwf, valid := fun b hb => inv.core.valid b (hmem b hb),
        huniv := fun b hb => inv.core.huniv b (hmem b hb), hdb := ?_, hdeltas := ?_, hparams := ?_, hdbparams := ?_,
        hH := inv.core.hH, hrows := inv.core.hrows, hlook := ?_, hcache := ?_ }
    · show σ.dbRound ≤ (σ.ledger.take σ.dbRound).length
      omega
    · show ([] : List Delta) = ((σ.ledger.take σ.dbRound).drop σ.dbRound).map (·.deltas)
      rw [List.drop_eq_nil_of_le (by omega)]; rfl
    · refine ⟨σ.dbParamsStart, ?_, ?_, Nat.le_refl _, inv.core.hH⟩
      · show σ.dbParamsStart + σ.dbParams.length = (σ.ledger.take σ.dbRound).length + 1
        omega
      · show σ.dbParams = ((σ.gen :: σ.ledger.take σ.dbRound).drop σ.dbParamsStart).map Block.params
        rw [htrunc]; exact inv.core.hdbparams
    · show σ.dbParams = (((σ.gen :: σ.ledger.take σ.dbRound).drop σ.dbParamsStart).take (σ.dbRound + 1 - σ.dbParamsStart)).map Block.params
      rw [htrunc, List.take_take, Nat.min_self]; exact inv.core.hdbparams
    · intro a rnd h1 h2
      show recOfRow (rowAt (σ.db a) rnd) = recAt (restart σ).hist rnd a
      unfold recAt
      rw [restart_acctAt σ rnd a h2]
      exact inv.core.hlook a rnd h1 h2
    · intro a; simp [EntSorted, EntBelow, cacheRead]
  have hc := hbase.with_cache (initCache σ.univ σ.db 2500) (fun a => by
    rcases initCache_cases σ.univ σ.db 2500 a with h | h
    · exact Or.inl h
    · exact Or.inr (Or.inl h))
  refine ⟨hc.of_eq rfl rfl rfl rfl rfl rfl rfl rfl rfl rfl rfl, ?_, ?_, ?_⟩
  · intro rv x hl; simp [restart] at hl
  · intro b hb e he hon
    exact inv.wf b (hmem b hb) e he hon
  · intro r v hm; simp [restart] at hm

/-- loading the voters snapshots of the rounds r, r+step, … ≤ dbRound with the headers of the block store -/
theorem Inv.votersLoadRounds_inv {M : Nat} (hdrs : Nat → Option Block) :
    ∀ (fuel : Nat) (σ : State) (r step : Nat), Inv σ M → (∀ q b, hdrs q = some b → q ≤ σ.dbRound → σ.hist.block? q = some b) →
    Inv (votersLoadRounds σ hdrs fuel r step) M ∧ (votersLoadRounds σ hdrs fuel r step).hist = σ.hist := by
  intro fuel
  induction fuel with
  | zero => intro σ r step inv _; exact ⟨inv, rfl⟩
  | succ fuel ih =>
    intro σ r step inv hh
    unfold votersLoadRounds
    split
    · exact ⟨inv, rfl⟩
    · rename_i hle
      split
      · exact ⟨inv, rfl⟩
      · rename_i b hb
        have hblock := hh r b hb (by omega)
        obtain ⟨hinv', hhist'⟩ := inv.votersLoad_inv r b hblock
        have hdbr : (votersLoad σ r b).dbRound = σ.dbRound := by
          unfold votersLoad
          split
          · rfl
          · split
            · rfl
            · exact (loadTree_same σ r b).dbRound
        obtain ⟨h1, h2⟩ := ih (votersLoad σ r b) (r + step) step hinv' (fun q b' hq hq' => by
          rw [hhist']; exact hh q b' hq (by omega))
        exact ⟨h1, h2.trans hhist'⟩

/-- properties of the blocks of a history that `BlockOK` asks for, stated on the history -/
def BlockOKH (h : Hist) (b : Block) : Prop :=
  b.proto < h.protos.length ∧ (∀ e ∈ b.deltas, e.1 ∈ h.univ) ∧
  ∀ e ∈ b.deltas, e.2.online = true →
    e.2.core.votingEmpty = false ∧ normBal (protoOf h.protos h.gen.proto).unit e.2.bal e.2.rb ≠ some 0

theorem blockOK_of_H {σ : State} {b : Block} (h : BlockOKH σ.hist b) : BlockOK σ b := ⟨h.1, h.2.1, h.2.2⟩

/-- replaying blocks through `newBlock` -/
theorem Inv.replay_inv {M : Nat} : ∀ (bs : List Block) (σ : State), Inv σ M → (∀ b ∈ bs, BlockOKH σ.hist b) →
    Inv (bs.foldl newBlock σ) M ∧ (bs.foldl newBlock σ).hist = { σ.hist with blocks := σ.hist.blocks ++ bs } := by
  intro bs
  induction bs with
  | nil => intro σ inv _; exact ⟨inv, by simp⟩
  | cons b bs ih =>
    intro σ inv hok
    obtain ⟨h1, h2⟩ := inv.newBlock_inv b (blockOK_of_H (hok b (by simp)))
    obtain ⟨h3, h4⟩ := ih (newBlock σ b) h1 (fun b' hb' => by
      rw [h2]; exact hok b' (by simp [hb']))
    refine ⟨h3, ?_⟩
    simp only [List.foldl_cons]
    rw [h4, h2]
    simp [Hist.push]

theorem Inv.reloadVoters_inv {σ σ1 : State} {M : Nat} (inv : Inv σ M)
    (h : reloadVoters σ.protos σ.hdr? σ.ledger.length (restart σ) = .ok σ1) :
    Inv σ1 M ∧ σ1.hist = (restart σ).hist := by
  have hr0 := inv.restart_inv
  have hhdr : ∀ q b, σ.hdr? q = some b → q ≤ (restart σ).dbRound → (restart σ).hist.block? q = some b := by
    intro q b hq hle
    rw [restart_block? σ q hle]; exact hq
  unfold reloadVoters at h
  split at h
  · cases h
  · simp only at h
    split at h
    · cases h; exact ⟨hr0, rfl⟩
    · split at h
      · cases h
      · cases h
        exact Inv.votersLoadRounds_inv (M := M) σ.hdr? _ (restart σ) _ _ hr0 hhdr

theorem Inv.replayFlush_inv {σ1 σ' : State} {M : Nat} (inv : Inv σ1 M) (blocks : List Block) (flush : Bool) (latest : Nat)
    (hok : ∀ b ∈ blocks, BlockOKH σ1.hist b) (h : replayFlush σ1 blocks flush latest = .done σ') :
    Inv σ' M ∧ σ'.hist = { σ1.hist with blocks := σ1.hist.blocks ++ blocks } := by
  obtain ⟨hi2, hh2⟩ := inv.replay_inv blocks σ1 hok
  unfold replayFlush at h
  simp only at h
  split at h
  · cases hc : commit (blocks.foldl newBlock σ1) latest with
    | done σ3 =>
      rw [hc] at h; simp only at h; cases h
      obtain ⟨k1, k2, k3, k4⟩ := hi2.core.commit_inv _ hc
      refine ⟨⟨k1, InvExp.of_same k2 k3 hi2.exp, ?_, ?_⟩, k2.trans hh2⟩
      · rw [k2]; exact hi2.wf
      · intro r v hm; rw [k2]; exact hi2.vot r v (k4 _ hm)
    | noop => rw [hc] at h; simp only at h; cases h; exact ⟨hi2, hh2⟩
    | failed e => rw [hc] at h; simp only at h; cases h
  · cases h; exact ⟨hi2, hh2⟩

/-- **a successful reload keeps the invariant and the history** -/
theorem Inv.reload_inv {σ σ' : State} {M : Nat} (inv : Inv σ M) (h : reload σ = .done σ') :
    Inv σ' M ∧ σ'.hist = σ.hist := by
  have hblocks : ∀ b ∈ σ.ledger.drop σ.dbRound, BlockOKH (restart σ).hist b := by
    intro b hb
    have hb' : b ∈ σ.gen :: σ.ledger := List.mem_cons_of_mem _ (List.mem_of_mem_drop hb)
    exact ⟨inv.core.valid b hb', inv.core.huniv b hb', inv.wf b hb'⟩
  have hrestore : ({ (restart σ).hist with blocks := (restart σ).hist.blocks ++ σ.ledger.drop σ.dbRound } : Hist) = σ.hist := by
    show ({ protos := σ.protos, univ := σ.univ, gen := σ.gen, blocks := σ.ledger.take σ.dbRound ++ σ.ledger.drop σ.dbRound } : Hist) = _
    rw [List.take_append_drop]; rfl
  unfold reload at h
  simp only at h
  by_cases hend : (if σ.dbParams.isEmpty = true then 0 else σ.dbParamsStart + σ.dbParams.length - 1) ≠ σ.dbRound
  · rw [if_pos hend] at h; cases h
  · rw [if_neg hend] at h
    cases hv : reloadVoters σ.protos σ.hdr? σ.ledger.length (restart σ) with
    | error e => rw [hv] at h; cases h
    | ok σ1 =>
      rw [hv] at h
      simp only at h
      obtain ⟨hi1, hh1⟩ := inv.reloadVoters_inv hv
      obtain ⟨hi2, hh2⟩ := hi1.replayFlush_inv _ _ _ (fun b hb => by rw [hh1]; exact hblocks b hb) h
      rw [hh1, hrestore] at hh2
      exact ⟨hi2, hh2⟩

end AlgoVerif.Lemmas.OnlineAccts
