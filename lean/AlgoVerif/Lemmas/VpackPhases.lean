import AlgoVerif.Lemmas.Vpack
/-! Phase-by-phase simulation between `StatefulEncoder.Compress` and `StatefulDecoder.Decompress`:
each lemma says that the encoder phase succeeds on a well-formed field, keeps the invariant, and that the
matching decoder phase, started in the SAME table state on what the encoder appended, re-emits the field and
reaches the SAME table state. -/
namespace AlgoVerif.Lemmas.Vpack
open AlgoVerif.Model.Vpack AlgoVerif.Spec.Vpack

theorem passFixed_ok (n : Nat) (d rest : Bytes) (c : Ctx) (hd : d.length = n) (hrem : c.rem = d ++ rest) :
    passFixed n c = .ok { st := c.st, rem := rest, out := c.out ++ d, hdr1 := c.hdr1 } := by
  unfold passFixed
  rw [hrem, readFixed_append rest hd]

theorem whenBit_ok (hdr0 bit : UInt8) (d rest : Bytes) (c : Ctx)
    (hd : hdr0 &&& bit ≠ 0 → ∃ x, IsVaruint d x) (hrem : c.rem = opt hdr0 bit d ++ rest) :
    whenBit hdr0 bit passVaruint c = .ok { st := c.st, rem := rest, out := c.out ++ opt hdr0 bit d, hdr1 := c.hdr1 } := by
  unfold whenBit opt at *
  by_cases h : hdr0 &&& bit ≠ 0
  · obtain ⟨x, hx⟩ := hd h
    rw [if_pos h] at hrem ⊢
    unfold passVaruint
    rw [hrem, readVaruintBytes_append rest hx, if_pos h]
  · rw [if_neg h] at hrem ⊢
    rw [if_neg h]
    simp only [List.nil_append] at hrem
    cases c
    simp only at hrem
    subst hrem
    simp

theorem optFixed_ok (hdr0 bit : UInt8) (n : Nat) (d t : Bytes) (hd : hdr0 &&& bit ≠ 0 → d.length = n) :
    optFixed hdr0 bit n (opt hdr0 bit d ++ t) = .ok ((if hdr0 &&& bit ≠ 0 then d else zeros n), t) := by
  unfold optFixed opt
  by_cases h : hdr0 &&& bit ≠ 0
  · simp only [if_pos h, readFixed_append t (hd h)]
  · simp only [if_neg h, List.nil_append]

theorem readPropLiteral_ser (v : SVote) (hv : v.WF) (t : Bytes) :
    readPropLiteral v.hdr0 (v.propLit ++ t) = .ok (v.entry, t) := by
  unfold readPropLiteral SVote.propLit
  simp only [List.append_assoc]
  rw [optFixed_ok _ _ _ _ _ hv.dig]
  simp only
  rw [optFixed_ok _ _ _ _ _ hv.encdig]
  simp only
  have hop : (if v.hdr0 &&& bitOper ≠ 0 then readVaruintBytes (opt v.hdr0 bitOper v.oper ++ (opt v.hdr0 bitOprop v.oprop ++ t))
      else .ok ([], opt v.hdr0 bitOper v.oper ++ (opt v.hdr0 bitOprop v.oprop ++ t))) =
      .ok ((if v.hdr0 &&& bitOper ≠ 0 then v.oper else []), opt v.hdr0 bitOprop v.oprop ++ t) := by
    by_cases h : v.hdr0 &&& bitOper ≠ 0
    · obtain ⟨x, hx⟩ := hv.oper h
      simp only [if_pos h, opt]
      rw [readVaruintBytes_append _ hx]
    · simp only [if_neg h, opt, List.nil_append]
  rw [hop]
  simp only
  rw [optFixed_ok _ _ _ _ _ hv.oprop]
  rfl

theorem propBytes_hdr (v : SVote) : propBytes v.hdr0 v.entry = v.propLit := by
  unfold propBytes SVote.propLit SVote.entry opt
  simp only [List.append_assoc]
  by_cases h1 : v.hdr0 &&& bitDig ≠ 0 <;> by_cases h2 : v.hdr0 &&& bitEncDig ≠ 0 <;>
    by_cases h3 : v.hdr0 &&& bitOper ≠ 0 <;> by_cases h4 : v.hdr0 &&& bitOprop ≠ 0 <;>
    simp only [h1, h2, h3, h4, if_true, if_false, not_false_eq_true, ne_eq]

theorem propBytes_mask (v : SVote) : propBytes v.entry.mask v.entry = v.propLit := by
  rw [← propBytes_hdr]
  unfold propBytes
  have e : v.entry.mask = v.hdr0 &&& propFieldsMask := rfl
  rw [e, mask_bit _ bitDig (by decide), mask_bit _ bitEncDig (by decide), mask_bit _ bitOper (by decide),
    mask_bit _ bitOprop (by decide)]

theorem fin8_facts : ∀ (p : Fin 8), (UInt8.ofNat p.val).toNat = p.val ∧ (p.val ≠ 0 → UInt8.ofNat p.val ≠ 0) := by decide

theorem prop_sim (v : SVote) (hv : v.WF) (c : Ctx) (rest : Bytes) (hwf : WF c.st) (hrem : c.rem = v.propLit ++ rest) :
    ∃ (p : Fin 8) (st' : TableState) (chunk : Bytes),
      encProp v.hdr0 c = .ok { st := st', rem := rest, out := c.out ++ chunk, hdr1 := c.hdr1 ||| (UInt8.ofNat p.val <<< 2) } ∧
      WF st' ∧
      ∀ (H : UInt8) (o t : Bytes), (H &&& hdr1PropMask) >>> 2 = UInt8.ofNat p.val →
        decProp v.hdr0 { st := c.st, rem := chunk ++ t, out := o, hdr1 := H } =
          .ok { st := st', rem := t, out := o ++ v.propLit, hdr1 := H } := by
  obtain ⟨w1, w2, w3, w4, w5, w6⟩ := hwf
  unfold encProp
  rw [hrem, readPropLiteral_ser v hv rest]
  simp only
  by_cases hidx : c.st.win.lookup v.entry ≠ 0
  · obtain ⟨l1, l2, l3⟩ := lookup_byRef c.st.win v.entry hidx
    have hp : c.st.win.lookup v.entry < 8 := by omega
    refine ⟨⟨_, hp⟩, c.st, [], ?_, ⟨w1, w2, w3, w4, w5, w6⟩, ?_⟩
    · rw [if_pos hidx]; simp
    · intro H o t hH
      unfold decProp
      simp only [hH]
      have ff := fin8_facts ⟨_, hp⟩
      rw [if_neg (ff.2 hidx), ff.1]
      simp only [l3, propBytes_mask, List.nil_append]
  · rw [if_neg hidx]
    have hi := insertNew_wf c.st.win v.entry w4 w5
    refine ⟨⟨0, by decide⟩, { c.st with win := c.st.win.insertNew v.entry }, v.propLit, ?_, ⟨w1, w2, w3, hi.1, hi.2, w6⟩, ?_⟩
    · rw [propBytes_hdr]
      have : UInt8.ofNat (0 : Nat) <<< 2 = 0 := by decide
      simp [this]
    · intro H o t hH
      unfold decProp
      simp only [hH]
      rw [if_pos (by decide), readPropLiteral_ser v hv t]
      simp only [propBytes_mask]

theorem code_facts : (UInt8.ofNat (3 : Nat) = 3) ∧ (UInt8.ofNat (1 : Nat) = 1) ∧ (UInt8.ofNat (2 : Nat) = 2) ∧
    (UInt8.ofNat (0 : Nat) = 0) ∧ ((1 : UInt8) ≠ 3) ∧ ((2 : UInt8) ≠ 3) ∧ ((2 : UInt8) ≠ 1) ∧ ((0 : UInt8) ≠ 3) ∧
    ((0 : UInt8) ≠ 1) ∧ ((0 : UInt8) ≠ 2) := by decide

theorem rnd_sim (u : Nat) (hu : u < M64) (c : Ctx) (rest : Bytes) (hwf : WF c.st) (hrem : c.rem = appendUint64 u ++ rest) :
    ∃ (r : Fin 4) (chunk : Bytes),
      encRnd c = .ok { st := { c.st with lastRnd := u }, rem := rest, out := c.out ++ chunk, hdr1 := c.hdr1 ||| UInt8.ofNat r.val } ∧
      WF { c.st with lastRnd := u } ∧
      ∀ (H : UInt8) (o t : Bytes), H &&& hdr1RndMask = UInt8.ofNat r.val →
        decRnd { st := c.st, rem := chunk ++ t, out := o, hdr1 := H } =
          .ok { st := { c.st with lastRnd := u }, rem := t, out := o ++ appendUint64 u, hdr1 := H } := by
  obtain ⟨w1, w2, w3, w4, w5, w6⟩ := hwf
  obtain ⟨f3, f1, f2, f0, n13, n23, n21, n03, n01, n02⟩ := code_facts
  have hwf' : WF { c.st with lastRnd := u } := ⟨w1, w2, w3, w4, w5, hu⟩
  unfold encRnd
  rw [hrem, readVaruint_append rest (isVaruint_appendUint64 u hu)]
  simp only
  by_cases h1 : u = c.st.lastRnd
  · refine ⟨⟨3, by decide⟩, [], ?_, hwf', ?_⟩
    · rw [if_pos h1, f3]; simp
    · intro H o t hH
      unfold decRnd
      simp only [hH, f3, if_true]
      subst h1
      simp
  rw [if_neg h1]
  by_cases h2 : u = (c.st.lastRnd + 1) % M64 ∧ c.st.lastRnd < M64 - 1
  · refine ⟨⟨1, by decide⟩, [], ?_, hwf', ?_⟩
    · rw [if_pos h2, f1]; simp
    · intro H o t hH
      unfold decRnd
      simp only [hH, f1]
      have e : u = c.st.lastRnd + 1 := by
        have := h2.1; simp only [M64] at *; omega
      have ne : ¬ (c.st.lastRnd = M64 - 1) := by have := h2.2; omega
      subst e
      simp [n13, ne]
  rw [if_neg h2]
  by_cases h3 : u = (c.st.lastRnd + M64 - 1) % M64 ∧ c.st.lastRnd > 0
  · refine ⟨⟨2, by decide⟩, [], ?_, hwf', ?_⟩
    · rw [if_pos h3, f2]; simp
    · intro H o t hH
      unfold decRnd
      simp only [hH, f2]
      have e : u = c.st.lastRnd - 1 := by
        have := h3.1; have := h3.2; simp only [M64] at *; omega
      have ne : ¬ (c.st.lastRnd = 0) := by have := h3.2; omega
      subst e
      simp [n23, n21, ne]
  · rw [if_neg h3]
    refine ⟨⟨0, by decide⟩, appendUint64 u, ?_, hwf', ?_⟩
    · rw [f0]; simp
    · intro H o t hH
      unfold decRnd
      simp only [hH, f0]
      rw [if_neg n03, if_neg n01, if_neg n02, readVaruint_append t (isVaruint_appendUint64 u hu)]

theorem tbl_get_wf (T : Tbl) (s : TableState) (h : WF s) : LruWF (T.get s) := by
  cases T
  · exact h.1
  · exact h.2.1
  · exact h.2.2.1

theorem tbl_set_wf (T : Tbl) (s : TableState) (t : LruTable) (h : WF s) (ht : LruWF t) : WF (T.set s t) := by
  obtain ⟨w1, w2, w3, w4, w5, w6⟩ := h
  cases T
  · exact ⟨ht, w2, w3, w4, w5, w6⟩
  · exact ⟨w1, ht, w3, w4, w5, w6⟩
  · exact ⟨w1, w2, ht, w4, w5, w6⟩

theorem tbl_bit_ne (T : Tbl) : T.bit ≠ 0 := by cases T <;> decide

theorem lru_sim (T : Tbl) (k : Bytes) (hk : k.length = T.keyLen) (c : Ctx) (rest : Bytes) (hwf : WF c.st)
    (hrem : c.rem = k ++ rest) :
    ∃ (s : Bool) (st' : TableState) (chunk : Bytes),
      encLru T c = .ok { st := st', rem := rest, out := c.out ++ chunk, hdr1 := c.hdr1 ||| (if s then T.bit else 0) } ∧
      WF st' ∧
      ∀ (H : UInt8) (o t : Bytes), ((H &&& T.bit ≠ 0) ↔ s = true) →
        decLru T { st := c.st, rem := chunk ++ t, out := o, hdr1 := H } =
          .ok { st := st', rem := t, out := o ++ k, hdr1 := H } := by
  have hg := tbl_get_wf T c.st hwf
  unfold encLru
  rw [hrem, readFixed_append rest hk]
  simp only
  rcases lookup_ok (T.get c.st) k (T.hash k) hg with ⟨id, t', hl, hwf'⟩ | hl
  · obtain ⟨hid, hf⟩ := lookup_fetch ⟨hg.1, hg.2.1⟩ hl
    refine ⟨true, T.set c.st t', be16 id, ?_, tbl_set_wf T c.st t' hwf hwf', ?_⟩
    · rw [hl]; simp
    · intro H o t hH
      unfold decLru
      simp only
      rw [if_pos (hH.2 rfl), readFixed_append t (show (be16 id).length = 2 from rfl)]
      simp only [beNat_be16 id hid, hf]
  · obtain ⟨t', hi, hwf'⟩ := insert_ok (T.get c.st) k (T.hash k) hg
    refine ⟨false, T.set c.st t', k, ?_, tbl_set_wf T c.st t' hwf hwf', ?_⟩
    · rw [hl]; simp only [hi]; simp
    · intro H o t hH
      unfold decLru
      simp only
      have : ¬ (H &&& T.bit ≠ 0) := fun h => by have := hH.1 h; cases this
      rw [if_neg this, readFixed_append t hk]
      simp only [hi]

end AlgoVerif.Lemmas.Vpack
