/-
Lemmas about Model.Wallet used by Props/C46: the skip loop's specification, the state invariant `Inv` and its
preservation by every operation, and the bookkeeping of `genIdxs` / `impOks` along op sequences.
Core tactics only.
-/
import AlgoVerif.Model.Wallet
namespace Lemmas.Wallet
open AlgoVerif.Model.Wallet

set_option linter.unusedSectionVars false
variable {α : Type} [DecidableEq α]

/-! ## the skip loop -/

/-- `genLoop` returns the LEAST index ≥ next whose address is absent (and it is < 2^63). -/
theorem genLoop_some (derive : Nat → α) (keys : List (α × Option Nat)) (next j : Nat)
    (h : genLoop derive keys next = some j) :
    next ≤ j ∧ j < overflow ∧ derive j ∉ addrs keys ∧ ∀ i, next ≤ i → i < j → derive i ∈ addrs keys := by
  fun_induction genLoop derive keys next with
  | case1 next hov => simp at h
  | case2 next hov hmem ih =>
    obtain ⟨h1, h2, h3, h4⟩ := ih h
    refine ⟨by omega, h2, h3, ?_⟩
    intro i hi hij
    by_cases hin : i = next
    · subst hin; exact hmem
    · exact h4 i (by omega) hij
  | case3 next hov hmem =>
    simp at h; subst h
    exact ⟨Nat.le_refl _, by omega, hmem, fun i hi hij => by omega⟩

/-- errTooManyKeys only when every index from next up to 2^63 is taken. -/
theorem genLoop_none (derive : Nat → α) (keys : List (α × Option Nat)) (next : Nat)
    (h : genLoop derive keys next = none) :
    ∀ i, next ≤ i → i < overflow → derive i ∈ addrs keys := by
  fun_induction genLoop derive keys next with
  | case1 next hov => intro i hi hio; omega
  | case2 next hov hmem ih =>
    intro i hi hio
    by_cases hin : i = next
    · subst hin; exact hmem
    · exact ih h i (by omega) hio
  | case3 next hov hmem => simp at h

/-- when the first candidate is free the loop takes it -/
theorem genLoop_free (derive : Nat → α) (keys : List (α × Option Nat)) (next : Nat)
    (hov : next < overflow) (hfree : derive next ∉ addrs keys) : genLoop derive keys next = some next := by
  rw [genLoop]
  rw [if_neg (by omega), if_neg hfree]

theorem mem_addrs {keys : List (α × Option Nat)} {a : α} : a ∈ addrs keys ↔ ∃ o, (a, o) ∈ keys := by
  unfold addrs
  constructor
  · intro h
    obtain ⟨e, he, rfl⟩ := List.mem_map.mp h
    exact ⟨e.2, he⟩
  · rintro ⟨o, ho⟩
    exact List.mem_map.mpr ⟨(a, o), ho, rfl⟩

/-! ## the invariant -/

/-- what holds in every reachable state -/
structure Inv (derive : Nat → α) (w : Wallet α) : Prop where
  /-- address is the PRIMARY KEY -/
  nodup : (addrs w.keys).Nodup
  /-- a row with key_idx = k holds derive k, and k is at most the stored counter -/
  gen_idx : ∀ a k, (a, some k) ∈ w.keys → a = derive k ∧ 1 ≤ k ∧ k ≤ w.maxIdx
  /-- the counter stays below sqliteIntOverflow -/
  bound : w.maxIdx < overflow

theorem inv_create (derive : Nat → α) (m : Mdk) (pw : Pw) (name : Name) (others : List Name) :
    Inv derive (create m pw name others : Wallet α) :=
  ⟨by simp [create, addrs], by intro a k h; simp [create] at h, by simp [create, overflow]⟩

/-- successful GenerateKey: what it stores -/
theorem generate_some (derive : Nat → α) (w : Wallet α) (j : Nat) (h : nextGen derive w = some j) :
    generate derive w = ({ w with keys := w.keys ++ [(derive j, some j)], maxIdx := j }, .addr (derive j)) := by
  unfold nextGen at h
  unfold generate
  by_cases hu : w.unlocked = true
  · rw [if_pos hu] at h ⊢; rw [h]
  · rw [if_neg hu] at h; simp at h

/-- failed GenerateKey: nothing changes -/
theorem generate_none (derive : Nat → α) (w : Wallet α) (h : nextGen derive w = none) :
    (generate derive w).1 = w ∧ (generate derive w).2.isErr = true := by
  unfold nextGen at h
  unfold generate
  by_cases hu : w.unlocked = true
  · rw [if_pos hu] at h ⊢; rw [h]; exact ⟨rfl, rfl⟩
  · rw [if_neg hu]; exact ⟨rfl, rfl⟩

theorem nextGen_spec (derive : Nat → α) (w : Wallet α) (j : Nat) (h : nextGen derive w = some j) :
    w.unlocked = true ∧ w.maxIdx < j ∧ j < overflow ∧ derive j ∉ addrs w.keys ∧
      ∀ i, w.maxIdx < i → i < j → derive i ∈ addrs w.keys := by
  unfold nextGen at h
  by_cases hu : w.unlocked = true
  · rw [if_pos hu] at h
    obtain ⟨h1, h2, h3, h4⟩ := genLoop_some derive w.keys _ j h
    exact ⟨hu, by omega, h2, h3, fun i hi hij => h4 i (by omega) hij⟩
  · rw [if_neg hu] at h; simp at h

theorem addrs_append (k : List (α × Option Nat)) (e : α × Option Nat) : addrs (k ++ [e]) = addrs k ++ [e.1] := by
  simp [addrs]

theorem nodup_snoc {l : List α} {a : α} (hl : l.Nodup) (ha : a ∉ l) : (l ++ [a]).Nodup := by
  rw [List.nodup_append]
  refine ⟨hl, by simp, ?_⟩
  intro x hx y hy
  simp at hy
  subst hy
  intro hxy
  subst hxy
  exact ha hx

theorem addrs_filter_sublist (k : List (α × Option Nat)) (p : α × Option Nat → Bool) :
    (addrs (k.filter p)).Sublist (addrs k) := by
  unfold addrs
  exact List.Sublist.map _ List.filter_sublist

/-- every operation preserves the invariant -/
theorem inv_step (derive : Nat → α) (w : Wallet α) (op : Op α) (hw : Inv derive w) : Inv derive (step derive w op).1 := by
  cases op with
  | fetch => exact ⟨hw.nodup, hw.gen_idx, hw.bound⟩
  | init p =>
    simp only [step, init]
    split
    · exact ⟨hw.nodup, hw.gen_idx, hw.bound⟩
    · exact hw
  | gen =>
    simp only [step]
    cases hg : nextGen derive w with
    | none => rw [(generate_none derive w hg).1]; exact hw
    | some j =>
      rw [generate_some derive w j hg]
      obtain ⟨_, h1, h2, h3, _⟩ := nextGen_spec derive w j hg
      refine ⟨?_, ?_, h2⟩
      · show (addrs (w.keys ++ [(derive j, some j)])).Nodup
        rw [addrs_append]; exact nodup_snoc hw.nodup h3
      · intro a k hmem
        have hmem' : (a, some k) ∈ w.keys ++ [(derive j, some j)] := hmem
        rw [List.mem_append] at hmem'
        show a = derive k ∧ 1 ≤ k ∧ k ≤ j
        rcases hmem' with hold | hnew
        · obtain ⟨e1, e2, e3⟩ := hw.gen_idx a k hold
          exact ⟨e1, e2, by omega⟩
        · simp at hnew
          obtain ⟨rfl, rfl⟩ := hnew
          exact ⟨rfl, by omega, Nat.le_refl _⟩
  | genMn => exact hw
  | imp a =>
    simp only [step, importKey]
    split
    · split
      · exact hw
      · rename_i hu hna
        refine ⟨?_, ?_, hw.bound⟩
        · show (addrs (w.keys ++ [(a, none)])).Nodup
          rw [addrs_append]; exact nodup_snoc hw.nodup hna
        · intro b k hmem
          have hmem' : (b, some k) ∈ w.keys ++ [(a, none)] := hmem
          rw [List.mem_append] at hmem'
          rcases hmem' with hold | hnew
          · exact hw.gen_idx b k hold
          · simp at hnew
    · exact hw
  | del a p =>
    simp only [step, deleteKey]
    split
    · refine ⟨?_, ?_, hw.bound⟩
      · exact List.Nodup.sublist (addrs_filter_sublist _ _) hw.nodup
      · intro b k hmem
        exact hw.gen_idx b k (List.mem_filter.mp hmem).1
    · exact hw
  | exp a p =>
    simp only [step, exportKey]
    split
    · split
      · split <;> exact hw
      · exact hw
    · exact hw
  | mdk p =>
    simp only [step, exportMDK]
    split <;> exact hw
  | ren n p =>
    simp only [step, rename]
    split
    · exact hw
    · split
      · exact ⟨hw.nodup, hw.gen_idx, hw.bound⟩
      · exact hw
  | chk p =>
    simp only [step, checkPassword]
    split <;> exact hw
  | list => exact hw

theorem inv_run (derive : Nat → α) (ops : List (Op α)) : ∀ (w : Wallet α), Inv derive w → Inv derive (run derive w ops) := by
  induction ops with
  | nil => intro w hw; exact hw
  | cons op ops ih => intro w hw; exact ih _ (inv_step derive w op hw)

/-! ## fields no operation changes, and the counter -/

theorem step_pw (derive : Nat → α) (w : Wallet α) (op : Op α) : (step derive w op).1.pw = w.pw := by
  cases op <;> simp only [step, fetch, init, generate, generateMnemonic, importKey, deleteKey, exportKey, exportMDK,
    rename, checkPassword, listKeys] <;> (repeat' split) <;> rfl

theorem run_pw (derive : Nat → α) (ops : List (Op α)) : ∀ (w : Wallet α), (run derive w ops).pw = w.pw := by
  induction ops with
  | nil => intro w; rfl
  | cons op ops ih => intro w; simp only [run]; rw [ih, step_pw]

/-- the counter after one operation: the generated index if one was generated, unchanged otherwise -/
theorem step_maxIdx (derive : Nat → α) (w : Wallet α) (op : Op α) :
    (step derive w op).1.maxIdx = (genOf derive w op).getD w.maxIdx := by
  cases op with
  | gen =>
    simp only [step, genOf]
    cases hg : nextGen derive w with
    | none => rw [(generate_none derive w hg).1]; rfl
    | some j => rw [generate_some derive w j hg]; rfl
  | _ => simp only [step, fetch, init, generateMnemonic, importKey, deleteKey, exportKey, exportMDK,
      rename, checkPassword, listKeys, genOf] <;> (repeat' split) <;> rfl

theorem genOf_gt (derive : Nat → α) (w : Wallet α) (op : Op α) (j : Nat) (h : genOf derive w op = some j) :
    w.maxIdx < j := by
  cases op <;> simp only [genOf] at h <;> try (simp at h)
  exact (nextGen_spec derive w j h).2.1

theorem step_maxIdx_le (derive : Nat → α) (w : Wallet α) (op : Op α) : w.maxIdx ≤ (step derive w op).1.maxIdx := by
  rw [step_maxIdx]
  cases h : genOf derive w op with
  | none => exact Nat.le_refl _
  | some j => have := genOf_gt derive w op j h; simp only [Option.getD]; omega

/-! ## op sequences -/

theorem run_append (derive : Nat → α) (pre ops : List (Op α)) : ∀ (w : Wallet α),
    run derive w (pre ++ ops) = run derive (run derive w pre) ops := by
  induction pre with
  | nil => intro w; rfl
  | cons op pre ih => intro w; simp only [List.cons_append, run]; exact ih _

theorem genIdxs_append (derive : Nat → α) (pre ops : List (Op α)) : ∀ (w : Wallet α),
    genIdxs derive w (pre ++ ops) = genIdxs derive w pre ++ genIdxs derive (run derive w pre) ops := by
  induction pre with
  | nil => intro w; rfl
  | cons op pre ih => intro w; simp only [List.cons_append, genIdxs, run]; rw [ih]; simp

theorem impOks_append (derive : Nat → α) (pre ops : List (Op α)) : ∀ (w : Wallet α),
    impOks derive w (pre ++ ops) = impOks derive w pre ++ impOks derive (run derive w pre) ops := by
  induction pre with
  | nil => intro w; rfl
  | cons op pre ih => intro w; simp only [List.cons_append, impOks, run]; rw [ih]; simp

theorem lastOr_append_singleton (d j : Nat) (l : List Nat) : lastOr d (l ++ [j]) = j := by
  induction l generalizing d with
  | nil => rfl
  | cons x l ih => simp only [List.cons_append, lastOr]; exact ih x

/-- the stored counter IS the last generated index (or the initial counter) -/
theorem run_maxIdx (derive : Nat → α) (ops : List (Op α)) : ∀ (w : Wallet α),
    (run derive w ops).maxIdx = lastOr w.maxIdx (genIdxs derive w ops) := by
  induction ops with
  | nil => intro w; rfl
  | cons op ops ih =>
    intro w
    simp only [run, genIdxs]
    rw [ih, step_maxIdx]
    cases h : genOf derive w op with
    | none => rfl
    | some j => rfl

/-- generated indices lie strictly above the starting counter, at most the final counter, and increase strictly -/
theorem genIdxs_bounds (derive : Nat → α) (ops : List (Op α)) : ∀ (w : Wallet α),
    (∀ j ∈ genIdxs derive w ops, w.maxIdx < j ∧ j ≤ (run derive w ops).maxIdx) ∧
    (genIdxs derive w ops).Pairwise (· < ·) ∧ w.maxIdx ≤ (run derive w ops).maxIdx := by
  induction ops with
  | nil => intro w; simp [genIdxs, run]
  | cons op ops ih =>
    intro w
    obtain ⟨ih1, ih2, ih3⟩ := ih (step derive w op).1
    have hle := step_maxIdx_le derive w op
    simp only [genIdxs, run]
    cases h : genOf derive w op with
    | none =>
      simp only [Option.toList, List.nil_append]
      refine ⟨?_, ih2, by omega⟩
      intro j hj
      have := ih1 j hj
      exact ⟨by omega, this.2⟩
    | some j0 =>
      have hgt := genOf_gt derive w op j0 h
      have hmx : (step derive w op).1.maxIdx = j0 := by rw [step_maxIdx, h]; rfl
      simp only [Option.toList, List.singleton_append]
      refine ⟨?_, ?_, by omega⟩
      · intro j hj
        rcases List.mem_cons.mp hj with rfl | hj
        · exact ⟨hgt, by omega⟩
        · have := ih1 j hj
          exact ⟨by omega, this.2⟩
      · rw [List.pairwise_cons]
        refine ⟨?_, ih2⟩
        intro j hj
        have := ih1 j hj
        omega

/-- a row without key_idx was either there before or has just been imported by this very operation -/
theorem step_none_mem (derive : Nat → α) (w : Wallet α) (op : Op α) (a : α)
    (h : (a, none) ∈ (step derive w op).1.keys) : (a, none) ∈ w.keys ∨ impOf w op = some a := by
  cases op with
  | gen =>
    simp only [step] at h
    cases hg : nextGen derive w with
    | none => rw [(generate_none derive w hg).1] at h; exact Or.inl h
    | some j =>
      rw [generate_some derive w j hg] at h
      have h' : (a, none) ∈ w.keys ++ [(derive j, some j)] := h
      rw [List.mem_append] at h'
      rcases h' with h' | h'
      · exact Or.inl h'
      · simp at h'
  | imp b =>
    simp only [step, importKey] at h
    simp only [impOf]
    by_cases hu : w.unlocked = true
    · rw [if_pos hu] at h
      by_cases hb : b ∈ addrs w.keys
      · rw [if_pos hb] at h; exact Or.inl h
      · rw [if_neg hb] at h
        have h' : (a, none) ∈ w.keys ++ [(b, none)] := h
        rw [List.mem_append] at h'
        rcases h' with h' | h'
        · exact Or.inl h'
        · simp at h'
          subst h'
          right; rw [if_pos ⟨hu, hb⟩]
    · rw [if_neg hu] at h; exact Or.inl h
  | del b p =>
    simp only [step, deleteKey] at h
    split at h
    · exact Or.inl (List.mem_filter.mp h).1
    · exact Or.inl h
  | fetch => exact Or.inl h
  | init p => simp only [step, init] at h; split at h <;> exact Or.inl h
  | genMn => exact Or.inl h
  | exp b p => simp only [step, exportKey] at h; (repeat' split at h) <;> exact Or.inl h
  | mdk p => simp only [step, exportMDK] at h; split at h <;> exact Or.inl h
  | ren n p => simp only [step, rename] at h; (repeat' split at h) <;> exact Or.inl h
  | chk p => simp only [step, checkPassword] at h; split at h <;> exact Or.inl h
  | list => exact Or.inl h

/-- an address found present above the counter belongs to an IMPORTED row (needs injectivity of the derivation) -/
theorem present_above_is_imported (derive : Nat → α) (hinj : Function.Injective derive) (w : Wallet α)
    (hw : Inv derive w) (i : Nat) (hi : w.maxIdx < i) (hp : derive i ∈ addrs w.keys) : (derive i, none) ∈ w.keys := by
  obtain ⟨o, ho⟩ := mem_addrs.mp hp
  cases o with
  | none => exact ho
  | some k =>
    obtain ⟨e1, _, e3⟩ := hw.gen_idx _ k ho
    have := hinj e1
    omega

/-- every index the sequence passed over without generating it is the index of an address that was imported
    (in the starting state already, or by a successful ImportKey of the sequence) -/
theorem skipped_imported (derive : Nat → α) (hinj : Function.Injective derive) (ops : List (Op α)) :
    ∀ (w : Wallet α), Inv derive w → ∀ i, w.maxIdx < i → i ≤ (run derive w ops).maxIdx → i ∉ genIdxs derive w ops →
      (derive i, none) ∈ w.keys ∨ derive i ∈ impOks derive w ops := by
  induction ops with
  | nil => intro w _ i h1 h2 _; simp only [run] at h2; omega
  | cons op ops ih =>
    intro w hw i h1 h2 h3
    simp only [run] at h2
    simp only [genIdxs, List.mem_append, not_or] at h3
    simp only [impOks, List.mem_append]
    by_cases hle : i ≤ (step derive w op).1.maxIdx
    · -- passed over by this very operation
      rw [step_maxIdx] at hle
      cases hg : genOf derive w op with
      | none => rw [hg] at hle; simp only [Option.getD] at hle; omega
      | some j =>
        rw [hg] at hle h3
        simp only [Option.getD] at hle
        have hne : i ≠ j := by
          intro e; subst e; exact h3.1 (by simp [Option.toList])
        cases op <;> simp only [genOf] at hg <;> try (simp at hg)
        obtain ⟨_, _, _, _, hall⟩ := nextGen_spec derive w j hg
        exact Or.inl (present_above_is_imported derive hinj w hw i h1 (hall i h1 (by omega)))
    · rcases ih _ (inv_step derive w op hw) i (by omega) h2 h3.2 with h | h
      · rcases step_none_mem derive w op _ h with h | h
        · exact Or.inl h
        · right; left; rw [h]; simp [Option.toList]
      · exact Or.inr (Or.inr h)

/-- without imported rows and without ImportKey operations the generated indices are consecutive -/
theorem genIdxs_consecutive (derive : Nat → α) (hinj : Function.Injective derive) (ops : List (Op α))
    (hno : ∀ op ∈ ops, ∀ a, op ≠ Op.imp a) :
    ∀ (w : Wallet α), Inv derive w → (∀ e ∈ w.keys, e.2 ≠ none) →
      genIdxs derive w ops = List.range' (w.maxIdx + 1) (genIdxs derive w ops).length := by
  induction ops with
  | nil => intro w _ _; simp [genIdxs]
  | cons op ops ih =>
    intro w hw hnone
    have hno' : ∀ op' ∈ ops, ∀ a, op' ≠ Op.imp a := fun op' h => hno op' (List.mem_cons_of_mem _ h)
    have hnone' : ∀ e ∈ (step derive w op).1.keys, e.2 ≠ none := by
      intro e he hen
      have he' : (e.1, none) ∈ (step derive w op).1.keys := by rw [← hen]; exact he
      rcases step_none_mem derive w op _ he' with h | h
      · exact hnone _ h rfl
      · cases op <;> simp only [impOf] at h <;> try (simp at h)
        exact hno _ (List.mem_cons_self) _ rfl
    have ih' := ih hno' _ (inv_step derive w op hw) hnone'
    simp only [genIdxs]
    cases hg : genOf derive w op with
    | none =>
      have hmx : (step derive w op).1.maxIdx = w.maxIdx := by rw [step_maxIdx, hg]; rfl
      rw [hmx] at ih'
      simpa [Option.toList] using ih'
    | some j =>
      have hmx : (step derive w op).1.maxIdx = j := by rw [step_maxIdx, hg]; rfl
      rw [hmx] at ih'
      have hj : j = w.maxIdx + 1 := by
        cases op <;> simp only [genOf] at hg <;> try (simp at hg)
        obtain ⟨_, hlt, _, _, hall⟩ := nextGen_spec derive w j hg
        by_cases hjj : j = w.maxIdx + 1
        · exact hjj
        · exfalso
          have hp := hall (w.maxIdx + 1) (by omega) (by omega)
          exact hnone _ (present_above_is_imported derive hinj w hw _ (by omega) hp) rfl
      simp only [Option.toList, List.singleton_append, List.length_cons]
      rw [List.range'_succ, ← hj]
      congr 1

end Lemmas.Wallet
