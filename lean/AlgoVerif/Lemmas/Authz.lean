import AlgoVerif.Spec.Authz
/-! Helper lemmas for Props/C28: characterisation of each step of Model.Authz. Core Lean only. -/
namespace AlgoVerif.Lemmas.Authz
open AlgoVerif.Model.Authz AlgoVerif.Spec.Authz

variable {T : Types}

theorem batchOk_append (E : Env T) (a b : List (Enq T)) :
    batchOk E (a ++ b) = (batchOk E a && batchOk E b) := by
  unfold batchOk; exact List.all_append

theorem batchOk_msigEnq (E : Env T) (msg : Msg T) (l : List (SubSig T)) :
    batchOk E (msigEnq E msg l) = true ↔ ∀ s ∈ l, E.sigBlank s.sig = false → E.sigOk s.key msg s.sig = true := by
  unfold batchOk msigEnq
  simp only [List.all_eq_true, List.mem_map, List.mem_filter, Bool.not_eq_true', forall_exists_index, and_imp]
  constructor
  · intro h s hs hb
    exact h _ s hs hb rfl
  · intro h e s hs hb he
    subst he
    exact h s hs hb

/-- the signature-free part of `MsigValid` -/
def MsigShape (E : Env T) (addr : T.Addr) (m : MSig T) : Prop :=
  ∃ s0 rest, m.subsigs = some (s0 :: rest) ∧
    ¬ (E.pkIsZero s0.key = true ∧ E.sigBlank s0.sig = true) ∧
    m.version = 1 ∧ 1 ≤ m.threshold ∧ m.threshold ≤ (s0 :: rest).length ∧ (s0 :: rest).length ≤ 255 ∧
    addr = E.msigAddr 1 m.threshold ((s0 :: rest).map (·.key)) ∧
    m.threshold ≤ signatures E (s0 :: rest)

theorem msigValid_iff_shape (E : Env T) (msg : Msg T) (addr : T.Addr) (m : MSig T) :
    MsigValid E msg addr m ↔ MsigShape E addr m ∧
      ∀ s ∈ m.subs, E.sigBlank s.sig = false → E.sigOk s.key msg s.sig = true := by
  unfold MsigValid MsigShape
  constructor
  · rintro ⟨s0, rest, h1, h2, h3, h4, h5, h6, h7, h8, h9⟩
    refine ⟨⟨s0, rest, h1, h2, h3, h4, h5, h6, h7, h8⟩, ?_⟩
    unfold MSig.subs; rw [h1]; exact h9
  · rintro ⟨⟨s0, rest, h1, h2, h3, h4, h5, h6, h7, h8⟩, h9⟩
    refine ⟨s0, rest, h1, h2, h3, h4, h5, h6, h7, h8, ?_⟩
    unfold MSig.subs at h9; rw [h1] at h9; exact h9

theorem msigBatchPrep_ok_iff (E : Env T) (msg : Msg T) (addr : T.Addr) (m : MSig T) (q : List (Enq T)) :
    msigBatchPrep E msg addr m = .ok q ↔ MsigShape E addr m ∧ q = msigEnq E msg m.subs := by
  unfold msigBatchPrep MsigShape MSig.subs
  cases hs : m.subsigs with
  | none => simp
  | some l =>
    cases l with
    | nil => simp
    | cons s0 rest =>
      simp only [Option.some.injEq, List.cons.injEq]
      by_cases h1 : (E.pkIsZero s0.key && E.sigBlank s0.sig) = true
      · rw [if_pos h1]
        simp only [reduceCtorEq, false_iff, not_and]
        rintro ⟨a, b, ⟨rfl, rfl⟩, hz, _⟩
        rw [Bool.and_eq_true] at h1
        exact absurd (hz h1.1 h1.2) id
      rw [if_neg h1]
      by_cases h2 : m.version ≠ 1
      · rw [if_pos h2]
        simp only [reduceCtorEq, false_iff, not_and]
        rintro ⟨a, b, _, _, hv, _⟩
        exact absurd hv h2
      rw [if_neg h2]
      have h2' : m.version = 1 := by omega
      by_cases h3 : m.threshold = 0 ∨ m.threshold > (s0 :: rest).length
      · rw [if_pos h3]
        simp only [reduceCtorEq, false_iff, not_and]
        rintro ⟨a, b, ⟨rfl, rfl⟩, _, _, ht1, ht2, _⟩
        omega
      rw [if_neg h3]
      by_cases h4 : (!E.aeq addr (E.msigAddr m.version m.threshold ((s0 :: rest).map (·.key)))) = true
      · rw [if_pos h4]
        simp only [reduceCtorEq, false_iff, not_and]
        rintro ⟨a, b, ⟨rfl, rfl⟩, _, _, _, _, _, ha, _⟩
        rw [h2'] at h4
        have := (E.aeq_iff _ _).mpr ha
        rw [this] at h4
        exact absurd h4 (by decide)
      rw [if_neg h4]
      have h4' : addr = E.msigAddr 1 m.threshold ((s0 :: rest).map (·.key)) := by
        rw [← h2']; apply (E.aeq_iff _ _).mp; simpa using h4
      by_cases h5 : (s0 :: rest).length > 255
      · rw [if_pos h5]
        simp only [reduceCtorEq, false_iff, not_and]
        rintro ⟨a, b, ⟨rfl, rfl⟩, _, _, _, _, hl, _⟩
        omega
      rw [if_neg h5]
      by_cases h6 : signatures E (s0 :: rest) < m.threshold
      · rw [if_pos h6]
        simp only [reduceCtorEq, false_iff, not_and]
        rintro ⟨a, b, ⟨rfl, rfl⟩, _, _, _, _, _, _, hsg⟩
        omega
      rw [if_neg h6]
      simp only [Except.ok.injEq]
      constructor
      · intro hq
        refine ⟨⟨s0, rest, ⟨rfl, rfl⟩, ?_, h2', ?_, ?_, ?_, h4', ?_⟩, hq.symm⟩
        · intro hz; apply h1; simp [hz.1, hz.2]
        · omega
        · omega
        · omega
        · omega
      · rintro ⟨_, hq⟩; exact hq.symm

theorem msigVerify_iff (E : Env T) (msg : Msg T) (addr : T.Addr) (m : MSig T) :
    msigVerify E msg addr m = true ↔ MsigValid E msg addr m := by
  rw [msigValid_iff_shape]
  unfold msigVerify
  cases h : msigBatchPrep E msg addr m with
  | error e =>
    simp only [Bool.false_eq_true, false_iff, not_and]
    intro hsh
    have := (msigBatchPrep_ok_iff E msg addr m _).mpr ⟨hsh, rfl⟩
    rw [h] at this; cases this
  | ok q =>
    have := (msigBatchPrep_ok_iff E msg addr m q).mp h
    obtain ⟨hsh, rfl⟩ := this
    simp only [batchOk_msigEnq]
    exact ⟨fun hb => ⟨hsh, hb⟩, fun hb => hb.2⟩

theorem pqVerify_iff (E : Env T) (P : Params) (msg : Msg T) (auth : T.Addr) (p : PQSig T) :
    pqVerify E P msg auth p = .ok () ↔ PqValid E P msg auth p := by
  unfold pqVerify PqValid
  by_cases h1 : p.blank E = true
  · rw [if_pos h1]; simp [h1]
  rw [if_neg h1]
  have h1' : p.blank E = false := by simpa using h1
  by_cases h2 : p.scheme ≠ schemeFalcon1024
  · rw [if_pos h2]; simp only [reduceCtorEq, false_iff, not_and]; intro _ h; exact absurd h h2
  rw [if_neg h2]
  have h2' : p.scheme = schemeFalcon1024 := Classical.not_not.mp h2
  by_cases h3 : (!P.pqFalcon1024) = true
  · rw [if_pos h3]; simp only [reduceCtorEq, false_iff, not_and]; intro _ _ h; rw [h] at h3; exact absurd h3 (by decide)
  rw [if_neg h3]
  have h3' : P.pqFalcon1024 = true := by simpa using h3
  by_cases h4 : (!E.aeq (E.pqAddr p.scheme p.salt p.pk) auth) = true
  · rw [if_pos h4]; simp only [reduceCtorEq, false_iff, not_and]; intro _ _ _ h
    rw [(E.aeq_iff _ _).mpr h] at h4; exact absurd h4 (by decide)
  rw [if_neg h4]
  have h4' : E.pqAddr p.scheme p.salt p.pk = auth := by apply (E.aeq_iff _ _).mp; simpa using h4
  by_cases h5 : E.pqsEmpty p.sig = true
  · rw [if_pos h5]; simp [h5]
  rw [if_neg h5]
  have h5' : E.pqsEmpty p.sig = false := by simpa using h5
  by_cases h6 : (!E.pqOk p.pk msg p.sig) = true
  · rw [if_pos h6]; simp only [reduceCtorEq, false_iff, not_and]; intro _ _ _ _ _ h
    rw [h] at h6; exact absurd h6 (by decide)
  rw [if_neg h6]
  have h6' : E.pqOk p.pk msg p.sig = true := by simpa using h6
  exact ⟨fun _ => ⟨h1', h2', h3', h4', h5', h6'⟩, fun _ => rfl⟩

theorem msigPrepVerify_iff (E : Env T) (msg : Msg T) (addr : T.Addr) (m : MSig T) :
    (match msigBatchPrep E msg addr m with
      | .error e => (Except.error (LsigErr.msig e) : Except LsigErr Unit)
      | .ok q => if batchOk E q then .ok () else .error .badsig) = .ok () ↔ MsigValid E msg addr m := by
  rw [← msigVerify_iff]; unfold msigVerify
  cases msigBatchPrep E msg addr m with
  | error e => simp
  | ok q => cases batchOk E q <;> simp

theorem not_deleg_of (E : Env T) (P : Params) (auth : T.Addr) (l : LSig T)
    (h : (E.sigBlank l.sig).toNat + l.msig.blank.toNat + l.lmsig.blank.toNat + (l.pqsig.blank E).toNat < 3) :
    ¬ Delegation E P auth l := by
  intro d
  cases d <;> simp_all

theorem lsigDelegation_iff (E : Env T) (P : Params) (auth : T.Addr) (l : LSig T) :
    lsigDelegation E P auth l = .ok () ↔ Delegation E P auth l := by
  unfold lsigDelegation
  cases hs : E.sigBlank l.sig <;> cases hm : l.msig.blank <;> cases hl : l.lmsig.blank <;> cases hp : l.pqsig.blank E <;>
    simp
  any_goals (apply not_deleg_of; simp [hs, hm, hl, hp]; done)
  -- sig only
  · constructor
    · intro hk; exact .bySig hs hm hl hp hk
    · intro h; cases h <;> simp_all
  -- msig only
  · constructor
    · intro h
      by_cases hen : P.logicSigMsig = true
      · simp only [hen, Bool.true_eq_false, ↓reduceIte] at h
        exact .byMsig hs hm hl hp hen ((msigPrepVerify_iff E _ _ _).mp h)
      · simp only [Bool.not_eq_true] at hen; simp [hen] at h
    · intro h
      cases h <;> simp_all
      rename_i h
      exact (msigPrepVerify_iff E _ _ _).mpr h
  -- lmsig only
  · constructor
    · intro h
      by_cases hen : P.logicSigLMsig = true
      · simp only [hen, Bool.true_eq_false, ↓reduceIte] at h
        exact .byLMsig hs hm hl hp hen ((msigPrepVerify_iff E _ _ _).mp h)
      · simp only [Bool.not_eq_true] at hen; simp [hen] at h
    · intro h
      cases h <;> simp_all
      rename_i h
      exact (msigPrepVerify_iff E _ _ _).mpr h
  -- pq only
  · constructor
    · intro h
      cases hv : pqVerify E P (.pqProg auth l.logic) auth l.pqsig with
      | error e => rw [hv] at h; cases h
      | ok u => exact .byPQ hs hm hl hp ((pqVerify_iff E P _ _ _).mp hv)
    · intro h
      cases h <;> simp_all
      rename_i h
      rw [(pqVerify_iff E P _ _ _).mpr h]
  -- nothing: contract account
  · constructor
    · intro hk; exact .contract hs hm hl hp ((E.aeq_iff _ _).mp hk)
    · intro h
      cases h <;> simp_all
      exact (E.aeq_iff _ _).mpr rfl

theorem lsigSanity_iff (E : Env T) (P : Params) (gi : Nat) (grp : List (STxn T)) (s : STxn T) :
    lsigSanity E P gi grp s = .ok () ↔
      P.logicSigVersion ≠ 0 ∧ E.progLen s.lsig.logic ≠ 0 ∧ E.progLen s.lsig.logic ≤ P.maxAbsLogicSigProgramSize ∧
      (∃ v, E.progVersion s.lsig.logic = some v ∧ v ≤ P.logicSigVersion) ∧ E.progCheck gi grp = true ∧
      Delegation E P (authorizer E s) s.lsig := by
  unfold lsigSanity
  dsimp only
  by_cases h1 : P.logicSigVersion = 0
  · rw [if_pos h1]; simp [h1]
  rw [if_neg h1]
  by_cases h2 : (!s.lsig.hasProgram E) = true
  · rw [if_pos h2]
    have : E.progLen s.lsig.logic = 0 := by unfold LSig.hasProgram at h2; simpa using h2
    simp [this]
  rw [if_neg h2]
  have h2' : E.progLen s.lsig.logic ≠ 0 := by unfold LSig.hasProgram at h2; simpa using h2
  by_cases h3 : E.progLen s.lsig.logic > P.maxAbsLogicSigProgramSize
  · rw [if_pos h3]; simp only [reduceCtorEq, false_iff, not_and]; intro _ _ h; omega
  rw [if_neg h3]
  cases hv : E.progVersion s.lsig.logic with
  | none => simp
  | some v =>
    dsimp only
    by_cases h4 : v > P.logicSigVersion
    · rw [if_pos h4]; simp only [reduceCtorEq, false_iff, not_and]
      intro _ _ _ ⟨v', hv', hle⟩; cases hv'; omega
    rw [if_neg h4]
    by_cases h5 : (!E.progCheck gi grp) = true
    · rw [if_pos h5]; simp only [reduceCtorEq, false_iff, not_and]
      intro _ _ _ _ hc; rw [hc] at h5; exact absurd h5 (by decide)
    rw [if_neg h5]
    have h5' : E.progCheck gi grp = true := by simpa using h5
    rw [lsigDelegation_iff]
    constructor
    · intro h; exact ⟨h1, h2', by omega, ⟨v, rfl, by omega⟩, h5', h⟩
    · intro h; exact h.2.2.2.2.2

theorem lsigVerify_iff (E : Env T) (P : Params) (gi : Nat) (grp : List (STxn T)) (s : STxn T) :
    lsigVerify E P gi grp s = .ok () ↔ LsigValid E P gi grp s := by
  unfold lsigVerify LsigValid
  cases hsan : lsigSanity E P gi grp s with
  | error e =>
    simp only [reduceCtorEq, false_iff]
    intro h
    have := (lsigSanity_iff E P gi grp s).mpr ⟨h.1, h.2.1, h.2.2.1, h.2.2.2.1, h.2.2.2.2.1, h.2.2.2.2.2.1⟩
    rw [hsan] at this; cases this
  | ok u =>
    have h := (lsigSanity_iff E P gi grp s).mp hsan
    cases hev : E.progEval gi grp <;> simp [h.1, h.2.1, h.2.2.1, h.2.2.2.1, h.2.2.2.2.1, h.2.2.2.2.2]

/-! ### exactly one kind -/

theorem authorized_only (E : Env T) (P : Params) (gi : Nat) (grp : List (STxn T)) (s : STxn T) (k : Kind)
    (hk : Present E s k) (honly : ∀ k', Present E s k' → k' = k) :
    Authorized E P gi grp s ↔ ValidFor E P gi grp s k := by
  constructor
  · rintro (⟨k0, hp, _, hv⟩ | ⟨hn, _⟩)
    · rw [← honly k0 hp]; exact hv
    · exact absurd hk (hn k)
  · intro hv; exact Or.inl ⟨k, hk, honly, hv⟩

theorem authorized_two (E : Env T) (P : Params) (gi : Nat) (grp : List (STxn T)) (s : STxn T) (k1 k2 : Kind)
    (h1 : Present E s k1) (h2 : Present E s k2) (hne : k1 ≠ k2) : ¬ Authorized E P gi grp s := by
  rintro (⟨k0, _, ho, _⟩ | ⟨hn, _⟩)
  · exact hne ((ho k1 h1).trans (ho k2 h2).symm)
  · exact hn k1 h1

theorem authorized_none (E : Env T) (P : Params) (gi : Nat) (grp : List (STxn T)) (s : STxn T)
    (hn : ∀ k, ¬ Present E s k) :
    Authorized E P gi grp s ↔ E.sender s.txn = E.stateProofSender ∧ E.isStateProofTx s.txn = true := by
  constructor
  · rintro (⟨k0, hp, _, _⟩ | ⟨_, h⟩)
    · exact absurd hp (hn k0)
    · exact h
  · intro h; exact Or.inr ⟨hn, h⟩

theorem batchOk_hb (E : Env T) (t : T.Txn) :
    batchOk E (if E.isHeartbeat t = true then [Enq.hb t] else []) = true ↔ (E.isHeartbeat t = true → E.hbProofOk t = true) := by
  unfold batchOk
  by_cases h : E.isHeartbeat t = true
  · rw [if_pos h]; simp [enqOk, h]
  · rw [if_neg h]; simp [h]

/-- the value of the stateless check after the envelope rules -/
def coreOk (E : Env T) (P : Params) (gi : Nat) (grp : List (STxn T)) (s : STxn T) : Bool :=
  accepted E (stxnCoreChecks E P gi grp s)

theorem coreOk_iff (E : Env T) (P : Params) (gi : Nat) (grp : List (STxn T)) (s : STxn T) :
    coreOk E P gi grp s = true ↔
      (P.pqFalcon1024 = false → s.pqsig.blank E = true ∧ s.lsig.pqsig.blank E = true) ∧
      (E.isHeartbeat s.txn = true → E.hbProofOk s.txn = true) ∧
      Authorized E P gi grp s := by
  unfold coreOk stxnCoreChecks accepted
  by_cases hg : (!P.pqFalcon1024 && (!s.pqsig.blank E || !s.lsig.pqsig.blank E)) = true
  · rw [if_pos hg]
    simp only [Bool.false_eq_true, false_iff, not_and]
    intro h; simp only [Bool.and_eq_true, Bool.not_eq_eq_eq_not, Bool.not_true, Bool.or_eq_true] at hg
    have := h hg.1; rcases hg.2 with h2 | h2 <;> simp_all
  rw [if_neg hg]
  have hg' : P.pqFalcon1024 = false → s.pqsig.blank E = true ∧ s.lsig.pqsig.blank E = true := by
    intro h; simp only [h, Bool.not_false, Bool.true_and, Bool.or_eq_true, Bool.not_eq_eq_eq_not, Bool.not_true, not_or,
      Bool.not_eq_false] at hg; exact hg
  refine Iff.trans (b := (E.isHeartbeat s.txn = true → E.hbProofOk s.txn = true) ∧ Authorized E P gi grp s) ?_
    ⟨fun ⟨a, b⟩ => ⟨hg', a, b⟩, fun ⟨_, a, b⟩ => ⟨a, b⟩⟩
  unfold sigTypeCounts coreDispatch
  cases hs : E.sigBlank s.sig <;> cases hm : s.msig.blank <;> cases hl : s.lsig.hasProgram E <;> cases hp : s.pqsig.blank E <;>
    simp
  any_goals first
    | exact fun _ => authorized_two E P gi grp s .sig .msig hs hm (by decide)
    | exact fun _ => authorized_two E P gi grp s .sig .lsig hs hl (by decide)
    | exact fun _ => authorized_two E P gi grp s .sig .pq hs hp (by decide)
    | exact fun _ => authorized_two E P gi grp s .msig .lsig hm hl (by decide)
    | exact fun _ => authorized_two E P gi grp s .msig .pq hm hp (by decide)
    | exact fun _ => authorized_two E P gi grp s .lsig .pq hl hp (by decide)
  -- sig only
  · have honly : ∀ k', Present E s k' → k' = .sig := by intro k' hk'; cases k' <;> simp_all [Present]
    rw [batchOk_append, Bool.and_eq_true, batchOk_hb, authorized_only E P gi grp s .sig hs honly]
    simp [batchOk, enqOk, ValidFor]
  -- msig only
  · have honly : ∀ k', Present E s k' → k' = .msig := by intro k' hk'; cases k' <;> simp_all [Present]
    rw [authorized_only E P gi grp s .msig hm honly]
    show _ ↔ _ ∧ MsigValid E (.txn s.txn) (authorizer E s) s.msig
    rw [← msigVerify_iff]; unfold msigVerify
    cases msigBatchPrep E (.txn s.txn) (authorizer E s) s.msig with
    | error e => simp
    | ok q => simp only [batchOk_append, Bool.and_eq_true, batchOk_hb]
  -- pq only
  · have honly : ∀ k', Present E s k' → k' = .pq := by intro k' hk'; cases k' <;> simp_all [Present]
    rw [authorized_only E P gi grp s .pq hp honly]
    show _ ↔ _ ∧ PqValid E P (.txn s.txn) (authorizer E s) s.pqsig
    rw [← pqVerify_iff]
    cases pqVerify E P (.txn s.txn) (authorizer E s) s.pqsig with
    | error e => simp
    | ok u => simp only [batchOk_hb, and_true]
  -- nothing
  · have hn : ∀ k, ¬ Present E s k := by intro k hk; cases k <;> simp_all [Present]
    rw [authorized_none E P gi grp s hn]
    by_cases hsp : E.aeq (E.sender s.txn) E.stateProofSender = true ∧ E.isStateProofTx s.txn = true
    · rw [if_pos hsp]; simp only [batchOk_hb]
      have := (E.aeq_iff _ _).mp hsp.1
      simp [this, hsp.2]
    · rw [if_neg hsp]
      simp only [Bool.false_eq_true, false_iff, not_and]
      intro _ h1 h2; exact hsp ⟨(E.aeq_iff _ _).mpr h1, h2⟩
  -- lsig only
  · have honly : ∀ k', Present E s k' → k' = .lsig := by intro k' hk'; cases k' <;> simp_all [Present]
    rw [authorized_only E P gi grp s .lsig hl honly]
    show _ ↔ _ ∧ LsigValid E P gi grp s
    rw [← lsigVerify_iff]
    cases lsigVerify E P gi grp s with
    | error e => simp
    | ok u => simp only [batchOk_hb, and_true]

theorem accepted_error (E : Env T) (e : Rej) : accepted E (.error e) = false := rfl

theorem txnOk_iff (E : Env T) (P : Params) (gi : Nat) (grp : List (STxn T)) (s : STxn T) :
    txnOk E P gi grp s = true ↔ EnvelopeOk E P s ∧ Authorized E P gi grp s := by
  unfold txnOk txnBatchPrep EnvelopeOk
  by_cases h1 : (!P.supportRekeying && !E.aeq s.authAddr E.zeroAddr) = true
  · rw [if_pos h1, accepted_error]
    simp only [Bool.and_eq_true, Bool.not_eq_eq_eq_not, Bool.not_true] at h1
    constructor
    · intro h; cases h
    · rintro ⟨⟨(h | h), _⟩, _⟩
      · rw [h1.1] at h; cases h
      · rw [(E.aeq_iff _ _).mpr h] at h1; cases h1.2
  rw [if_neg h1]
  have h1' : P.supportRekeying = true ∨ s.authAddr = E.zeroAddr := by
    cases hr : P.supportRekeying
    · right; apply (E.aeq_iff _ _).mp; simpa [hr] using h1
    · left; rfl
  by_cases h2 : (P.enforceAuthAddrSenderDiff && !E.aeq s.authAddr E.zeroAddr && E.aeq s.authAddr (E.sender s.txn)) = true
  · rw [if_pos h2, accepted_error]
    simp only [Bool.and_eq_true, Bool.not_eq_eq_eq_not, Bool.not_true] at h2
    constructor
    · intro h; cases h
    · rintro ⟨⟨_, h, _⟩, _⟩
      exact absurd ⟨h2.1.1, (E.aeq_false_iff _ _).mp h2.1.2, (E.aeq_iff _ _).mp h2.2⟩ h
  rw [if_neg h2]
  have h2' : ¬ (P.enforceAuthAddrSenderDiff = true ∧ s.authAddr ≠ E.zeroAddr ∧ s.authAddr = E.sender s.txn) := by
    rintro ⟨a, b, c⟩
    apply h2
    rw [a, (E.aeq_false_iff _ _).mpr b, (E.aeq_iff _ _).mpr c]; rfl
  have := coreOk_iff E P gi grp s
  unfold coreOk at this
  rw [this]
  exact ⟨fun ⟨a, b, c⟩ => ⟨⟨h1', h2', a, b⟩, c⟩, fun ⟨⟨_, _, a, b⟩, c⟩ => ⟨a, b, c⟩⟩

/-! ### the group -/

theorem accepted_prepLoop_cons (E : Env T) (P : Params) (grp : List (STxn T)) (i : Nat) (s : STxn T) (rest : List (STxn T)) :
    accepted E (prepLoop E P grp i (s :: rest)) =
      (accepted E (txnBatchPrep E P i grp s) && accepted E (prepLoop E P grp (i + 1) rest)) := by
  rw [prepLoop]
  cases txnBatchPrep E P i grp s with
  | error e => simp [accepted]
  | ok q =>
    cases prepLoop E P grp (i + 1) rest with
    | error e => simp [accepted]
    | ok q' => simp [accepted, batchOk_append]

theorem accepted_prepLoop_iff (E : Env T) (P : Params) (grp : List (STxn T)) :
    ∀ (l : List (STxn T)) (i : Nat), accepted E (prepLoop E P grp i l) = true ↔
      ∀ j s, l[j]? = some s → txnOk E P (i + j) grp s = true := by
  intro l
  induction l with
  | nil => intro i; simp [prepLoop, accepted, batchOk]
  | cons a rest ih =>
    intro i
    rw [accepted_prepLoop_cons, Bool.and_eq_true, ih (i + 1)]
    constructor
    · rintro ⟨h0, hr⟩ j s hj
      cases j with
      | zero => simp only [List.getElem?_cons_zero, Option.some.injEq] at hj; subst hj; exact h0
      | succ j =>
        simp only [List.getElem?_cons_succ] at hj
        have := hr j s hj
        rwa [show i + 1 + j = i + (j + 1) by omega] at this
    · intro h
      refine ⟨h 0 a (by simp), ?_⟩
      intro j s hj
      have := h (j + 1) s (by simpa using hj)
      rwa [show i + (j + 1) = i + 1 + j by omega] at this

theorem firstIllFormed_none_iff (E : Env T) : ∀ (l : List (STxn T)) (i : Nat),
    firstIllFormed E i l = none ↔ ∀ s ∈ l, E.wellFormed s.txn = true := by
  intro l
  induction l with
  | nil => intro i; simp [firstIllFormed]
  | cons a rest ih =>
    intro i
    unfold firstIllFormed
    by_cases h : E.wellFormed a.txn = true
    · rw [if_pos h, ih (i + 1)]; simp [h]
    · rw [if_neg h]; simp [h]

end AlgoVerif.Lemmas.Authz
