import AlgoVerif.Lemmas.AcctUpdatesIdx
import AlgoVerif.Lemmas.AcctUpdatesLru
/-! The invariant of Model.AcctUpdates (`Inv`), well-formed histories (`HistWF`), and the link between the delta walk of
the model and `lastIn` of the oracle. -/
namespace AlgoVerif.Lemmas.AcctUpdates
open AlgoVerif.Spec.LedgerHistory AlgoVerif.Model.AcctUpdates

/-! ### per-round association lists of the four key spaces -/

def acctMods (d : Delta) : AMap Addr AcctData := d.accts
def resMods (d : Delta) : AMap (Addr × Cidx) ResRec := d.res.map (fun r => ((r.addr, r.cidx), r))
def kvMods (d : Delta) : AMap Key KvMod := d.kvs.map (fun m => (m.key, m))
def creatMods (d : Delta) : AMap Cidx CreatMod := d.creat.map (fun m => (m.cidx, m))

theorem acct?_eq_get (d : Delta) (a : Addr) : d.acct? a = AMap.get (acctMods d) a := by
  unfold Delta.acct? acctMods
  induction d.accts with
  | nil => rfl
  | cons p t ih =>
    obtain ⟨k, v⟩ := p
    rw [List.find?_cons, get_cons]
    by_cases h : k = a
    · simp [h]
    · have : (k == a) = false := by simp [h]
      simp only [this, h, if_false]; exact ih

theorem kvMod?_eq_get (d : Delta) (k : Key) : d.kvMod? k = AMap.get (kvMods d) k := by
  unfold Delta.kvMod? kvMods
  induction d.kvs with
  | nil => rfl
  | cons m t ih =>
    rw [List.find?_cons, List.map_cons, get_cons]
    by_cases h : m.key = k
    · simp [h]
    · have : (m.key == k) = false := by simp [h]
      simp only [this, h, if_false]; exact ih

theorem creat?_eq_get (d : Delta) (c : Cidx) : d.creat? c = AMap.get (creatMods d) c := by
  unfold Delta.creat? creatMods
  induction d.creat with
  | nil => rfl
  | cons m t ih =>
    rw [List.find?_cons, List.map_cons, get_cons]
    by_cases h : m.cidx = c
    · simp [h]
    · have : (m.cidx == c) = false := by simp [h]
      simp only [this, h, if_false]; exact ih

theorem find_res_eq_get (ct : Cidx → CType) (l : List ResRec) (hct : ∀ r ∈ l, r.ctype = ct r.cidx) (a : Addr) (c : Cidx) :
    l.find? (fun r => r.addr == a && r.cidx == c && r.ctype == ct c) = AMap.get (l.map (fun r => ((r.addr, r.cidx), r))) (a, c) := by
  induction l with
  | nil => rfl
  | cons r t ih =>
    have hr : r.ctype = ct r.cidx := hct r (by simp)
    have ih' := ih (fun r' hr' => hct r' (by simp [hr']))
    rw [List.find?_cons, List.map_cons, get_cons]
    by_cases h : r.addr = a ∧ r.cidx = c
    · obtain ⟨h1, h2⟩ := h
      have : r.ctype = ct c := by rw [hr, h2]
      simp [h1, h2, this]
    · have h' : ¬ (r.addr, r.cidx) = (a, c) := by
        intro e; apply h; simpa using e
      have : (r.addr == a && r.cidx == c && r.ctype == ct c) = false := by
        cases h1 : (r.addr == a) <;> cases h2 : (r.cidx == c) <;> simp
        exact absurd ⟨by simpa using h1, by simpa using h2⟩ h
      simp only [this, h', if_false]
      exact ih'

/-- with one creatable type per index, the type-specific record lookup of the deltas is the lookup by (addr, index) -/
theorem resRec?_eq_get (ct : Cidx → CType) (d : Delta) (hct : ∀ r ∈ d.res, r.ctype = ct r.cidx) (a : Addr) (c : Cidx) :
    d.resRec? a c (ct c) = AMap.get (resMods d) (a, c) :=
  find_res_eq_get ct d.res hct a c

theorem resRec?_wrong_type (ct : Cidx → CType) (d : Delta) (hct : ∀ r ∈ d.res, r.ctype = ct r.cidx) (a : Addr) (c : Cidx)
    (t : CType) (ht : t ≠ ct c) : d.resRec? a c t = none := by
  unfold Delta.resRec?
  rw [List.find?_eq_none]
  intro r hr
  simp only [Bool.and_eq_true, beq_iff_eq, not_and]
  intro ⟨_, h2⟩ h3
  have := hct r hr
  rw [h2] at this
  exact ht (by rw [← h3, this])

/-! ### well-formed deltas and histories -/

structure DeltaWF (ct : Cidx → CType) (d : Delta) : Prop where
  nodupA : (AMap.keys (acctMods d)).Nodup
  nodupR : (AMap.keys (resMods d)).Nodup
  nodupK : (AMap.keys (kvMods d)).Nodup
  nodupC : (AMap.keys (creatMods d)).Nodup
  ctR : ∀ r ∈ d.res, r.ctype = ct r.cidx
  ctC : ∀ m ∈ d.creat, m.ctype = ct m.cidx

/-- the creator table entry, whatever the type asked -/
def creatorRaw (h : History) (rnd : Nat) (c : Cidx) : Option Addr :=
  (lastIn (·.creat? c) (h.upTo rnd)).bind (fun m => if m.created then some m.creator else none)

/-- histories as the block evaluator produces them -/
structure HistWF (ct : Cidx → CType) (h : History) : Prop where
  genNodup : (AMap.keys h.gen).Nodup
  deltas : ∀ d ∈ h.blocks, DeltaWF ct d
  /-- KvValueDelta.OldData is the value before the round -/
  kvOld : ∀ (i : Nat) (d : Delta), h.blocks[i]? = some d → ∀ m ∈ d.kvs, m.old = kvAt h i m.key
  /-- resource records are full: a part that is neither set nor deleted did not exist before the round -/
  resFull : ∀ (i : Nat) (d : Delta), h.blocks[i]? = some d → ∀ r ∈ d.res,
    (r.params = .absent → (resAt h i r.addr r.cidx r.ctype).params = none) ∧
    (r.hold = .absent → (resAt h i r.addr r.cidx r.ctype).hold = none)
  /-- creatable ids are never reused: a creation is the first modification of its index -/
  creatFresh : ∀ (i : Nat) (d : Delta), h.blocks[i]? = some d → ∀ m ∈ d.creat, m.created = true →
    lastIn (·.creat? m.cidx) (h.upTo i) = none

/-! ### the delta walk against the oracle -/

theorem take_add_of_prefix {α : Type} (blocks deltas : List α) (r off : Nat) (hp : deltas <+: blocks.drop r)
    (hoff : off ≤ deltas.length) : blocks.take (r + off) = blocks.take r ++ deltas.take off := by
  obtain ⟨rest, hrest⟩ := hp
  have h1 : blocks.take (r + off) = blocks.take r ++ (blocks.drop r).take off := by
    rw [List.take_add]
  rw [h1, ← hrest, List.take_append_of_le_length hoff]

/-- `lastIn` up to round `dbRound + off` = walk the in-memory deltas backwards from `off`, then fall back to `dbRound` -/
theorem lastIn_split {α : Type} (f : Delta → Option α) (blocks deltas : List Delta) (r off : Nat)
    (hp : deltas <+: blocks.drop r) (hoff : off ≤ deltas.length) :
    lastIn f (blocks.take (r + off)) = (walkBack f deltas off).or (lastIn f (blocks.take r)) := by
  unfold lastIn walkBack
  rw [take_add_of_prefix blocks deltas r off hp hoff, List.reverse_append, List.findSome?_append]

theorem walkBack_eq_getLast {K E : Type} [DecidableEq K] (mods : Delta → AMap K E) (ds : List Delta) (off : Nat) (k : K) :
    walkBack (fun d => AMap.get (mods d) k) ds off = (entriesOf ((ds.take off).map mods) k).getLast? := by
  unfold walkBack
  rw [← findSome_reverse_eq_getLast, ← List.map_reverse, List.findSome?_map]
  rfl

theorem entriesOf_take_nil {K E : Type} [DecidableEq K] (rs : List (AMap K E)) (k : K) (n : Nat)
    (h : entriesOf rs k = []) : entriesOf (rs.take n) k = [] := by
  have := entriesOf_take_drop rs n k
  rw [h] at this
  have := List.append_eq_nil_iff.mp this.symm
  exact this.1

/-! ### the invariant -/

def rowOf (ct : Cidx → CType) (c : Cidx) (v : ResVal) : Option ResRow :=
  if v.isEmpty then none else some ⟨ct c, v⟩

def acctRow (v : AcctData) : Option AcctData := if v = AcctData.empty then none else some v

structure Inv (ct : Cidx → CType) (σ : State) : Prop where
  wf : HistWF ct σ.hist
  dbr : σ.db.round = σ.dbRound
  le : σ.dbRound ≤ σ.hist.blocks.length
  pre : σ.deltas <+: σ.hist.blocks.drop σ.dbRound
  dbA : ∀ a, AMap.get σ.db.accts a = acctRow (acctAt σ.hist σ.dbRound a)
  dbR : ∀ a c, AMap.get σ.db.res (a, c) = rowOf ct c (resAt σ.hist σ.dbRound a c (ct c))
  dbK : ∀ k, AMap.get σ.db.kvs k = kvAt σ.hist σ.dbRound k
  dbC : ∀ c, AMap.get σ.db.creat c = (creatorRaw σ.hist σ.dbRound c).map (fun a => (ct c, a))
  idxA : IdxInv (fun (v : AcctData) e => v = e) σ.accounts (σ.deltas.map acctMods)
  idxR : IdxInv (fun (v : Res4) (e : ResRec) => v.proj e.ctype = e.val) σ.resources (σ.deltas.map resMods)
  idxK : IdxInv (fun (v : Option Bytes) (e : KvMod) => v = e.data) σ.kvStore (σ.deltas.map kvMods)
  idxC : IdxInv (fun (v : CreatMod) e => v = e) σ.creatables (σ.deltas.map creatMods)
  lruA : LruInv σ.baseAccounts (fun a => AMap.get σ.db.accts a) σ.dbRound
  lruR : LruInv σ.baseResources (fun k => AMap.get σ.db.res k) σ.dbRound
  lruK : LruInv σ.baseKVs (fun k => AMap.get σ.db.kvs k) σ.dbRound

/-- every block of the store has been handed to the trackers -/
def Synced (σ : State) : Prop := σ.latest = σ.hist.blocks.length

theorem Inv.latest_le {ct : Cidx → CType} {σ : State} (h : Inv ct σ) : σ.latest ≤ σ.hist.blocks.length := by
  have := h.pre.length_le
  have := h.le
  simp only [List.length_drop] at *
  unfold State.latest
  omega

end AlgoVerif.Lemmas.AcctUpdates
