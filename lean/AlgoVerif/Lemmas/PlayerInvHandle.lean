import AlgoVerif.Lemmas.PlayerInvOps
/-!
`Inv` is preserved by `Model.Player.handle`, and every `ensure` action it emits carries a valid certificate
(`EnsureOK`).  The two emitting paths: `handleThresh` (certThreshold with the block staged) and `handlePayload`
(late payload against the freshest cert bundle).
-/
namespace AlgoVerif.Lemmas.Player
open AlgoVerif.Model AlgoVerif.Model.Player AlgoVerif.Model.VoteTracker AlgoVerif.Spec.VoteTracker

variable (P : Params) (good : Nat → Nat → Nat → Vote → Bool)

/-- what C03 demands of an `ensure` action -/
def EnsureOK : Action → Prop
  | .ensure pay c => c.step = 2 ∧ c.round = pay.round ∧ c.proposal = pay.value ∧
      Bundle.verify ⟨2, P.certT⟩ (good c.round c.period 2) ⟨c.proposal, c.votes, c.eqVotes⟩ = true
  | _ => True

def ActsOK : List Action → Prop
  | [] => True
  | a :: rest => EnsureOK P good a ∧ ActsOK rest

theorem actsOK_append (l₁ l₂ : List Action) : ActsOK P good (l₁ ++ l₂) ↔ ActsOK P good l₁ ∧ ActsOK P good l₂ := by
  induction l₁ with
  | nil => simp [ActsOK]
  | cons a rest ih => simp [ActsOK, ih, and_assoc]

theorem actsOK_mem {l : List Action} (h : ActsOK P good l) : ∀ a ∈ l, EnsureOK P good a := by
  induction l with
  | nil => intro a ha; cases ha
  | cons b rest ih =>
    intro a ha
    rcases List.mem_cons.mp ha with rfl | ha
    · exact h.1
    · exact ih h.2 a ha

/-- the certificate of a valid cert-threshold event, for a payload of the same round stored under the event's value -/
theorem ensureOK_of {e : Thresh} {pay : Payload} (he : ThreshValid P good e) (hk : e.kind = 2)
    (hv : pay.value = e.proposal) (hr : pay.round = e.round) : EnsureOK P good (.ensure pay e.cert) := by
  obtain ⟨_, h2, h3, h4⟩ := he.1 (by rw [hk]; decide)
  have hs := h3 hk
  refine ⟨hs, hr.symm, ?_, ?_⟩
  · show e.bundle.proposal = pay.value
    rw [h2, hv]
  · show Bundle.verify ⟨2, P.certT⟩ (good e.round e.period 2) ⟨e.bundle.proposal, e.bundle.votes, e.bundle.eqVotes⟩ = true
    rw [hs] at h4
    have : cfgOf P 2 = ⟨2, P.certT⟩ := by simp [cfgOf, stepT]
    rw [this] at h4
    exact h4

/-! ### player helpers without `ensure` -/

theorem partitionPolicy_spec {σ σ' : State} {acts : List Action} (hQ : QRoot P good σ.root)
    (h : partitionPolicy P σ = .ok (σ', acts)) : QRoot P good σ'.root ∧ ActsOK P good acts := by
  unfold partitionPolicy at h
  split at h
  · simp only [Except.ok.injEq, Prod.mk.injEq] at h; obtain ⟨rfl, rfl⟩ := h; exact ⟨hQ, trivial⟩
  split at h
  · cases h
  rename_i σ₁ ok fr hf
  obtain ⟨h1, _, _⟩ := freshest_spec P good hQ hf
  simp only [] at h
  have ha0 : ActsOK P good (if ok = true then [Action.broadcastBundle fr.cert] else []) := by
    split <;> simp [ActsOK, EnsureOK]
  split at h
  · split at h
    · cases h
    rename_i σ₂ st hs
    obtain ⟨h2, _, _⟩ := staged_spec P good h1 hs
    split at h
    · simp only [Except.ok.injEq, Prod.mk.injEq] at h; obtain ⟨rfl, rfl⟩ := h
      exact ⟨h2, (actsOK_append P good _ _).mpr ⟨ha0, by simp [ActsOK, EnsureOK]⟩⟩
    · split at h
      · cases h
      rename_i σ₃ pin hp
      obtain ⟨h3, _, _⟩ := pinned_spec P good h2 hp
      split at h
      · simp only [Except.ok.injEq, Prod.mk.injEq] at h; obtain ⟨rfl, rfl⟩ := h
        exact ⟨h3, (actsOK_append P good _ _).mpr ⟨ha0, by simp [ActsOK, EnsureOK]⟩⟩
      · simp only [Except.ok.injEq, Prod.mk.injEq] at h; obtain ⟨rfl, rfl⟩ := h
        exact ⟨h3, ha0⟩
  · simp only [Except.ok.injEq, Prod.mk.injEq] at h; obtain ⟨rfl, rfl⟩ := h
    exact ⟨h1, ha0⟩

theorem issueSoftVote_spec {σ σ' : State} {d : Nat} {acts : List Action} (hQ : QRoot P good σ.root)
    (h : issueSoftVote P σ d = .ok (σ', acts)) : QRoot P good σ'.root ∧ ActsOK P good acts := by
  unfold issueSoftVote at h
  split at h
  · cases h
  rename_i σ₁ frozen hf
  obtain ⟨h1, _⟩ := freezeProposal_spec P good hQ hf
  split at h
  · cases h
  rename_i σ₂ ns hn
  obtain ⟨h2, _⟩ := nextStatus_spec P good h1 hn
  simp only [] at h
  repeat' split at h
  all_goals (simp only [Except.ok.injEq, Prod.mk.injEq] at h; obtain ⟨rfl, rfl⟩ := h; exact ⟨h2, by simp [ActsOK, EnsureOK]⟩)

theorem issueNextVote_spec {σ σ' : State} {d : Nat} {acts : List Action} (hQ : QRoot P good σ.root)
    (h : issueNextVote P σ d = .ok (σ', acts)) : QRoot P good σ'.root ∧ ActsOK P good acts := by
  unfold issueNextVote at h
  split at h
  · cases h
  rename_i σ₁ acts₁ hp
  obtain ⟨h1, ha1⟩ := partitionPolicy_spec P good hQ hp
  split at h
  · cases h
  rename_i σ₂ ans hs
  obtain ⟨h2, _, _⟩ := staged_spec P good h1 hs
  simp only [] at h
  split at h
  · simp only [Except.ok.injEq, Prod.mk.injEq] at h; obtain ⟨rfl, rfl⟩ := h
    exact ⟨h2, (actsOK_append P good _ _).mpr ⟨ha1, by simp [ActsOK, EnsureOK]⟩⟩
  · split at h
    · cases h
    rename_i σ₃ ns hn
    obtain ⟨h3, _⟩ := nextStatus_spec P good h2 hn
    simp only [Except.ok.injEq, Prod.mk.injEq] at h; obtain ⟨rfl, rfl⟩ := h
    exact ⟨h3, (actsOK_append P good _ _).mpr ⟨ha1, by simp [ActsOK, EnsureOK]⟩⟩

theorem fastFinish_ok {σ : State} {acts : List Action} (aStep v : Nat) (hQ : QRoot P good σ.root) (ha : ActsOK P good acts) :
    QRoot P good (fastFinish σ acts aStep v).1.root ∧ ActsOK P good (fastFinish σ acts aStep v).2 :=
  ⟨hQ, (actsOK_append P good _ _).mpr ⟨ha, by simp [ActsOK, EnsureOK]⟩⟩

theorem issueFastVote_spec {σ σ' : State} {acts : List Action} (hQ : QRoot P good σ.root)
    (h : issueFastVote P σ = .ok (σ', acts)) : QRoot P good σ'.root ∧ ActsOK P good acts := by
  unfold issueFastVote at h
  split at h
  · cases h
  rename_i σ₁ acts₁ hp
  obtain ⟨h1, ha1⟩ := partitionPolicy_spec P good hQ hp
  split at h
  · cases h
  rename_i σ₂ e1 hd1
  obtain ⟨h2, _⟩ := dumpVotes_spec P good h1 hd1
  split at h
  · cases h
  rename_i σ₃ e2 hd2
  obtain ⟨h3, _⟩ := dumpVotes_spec P good h2 hd2
  split at h
  · cases h
  rename_i σ₄ e3 hd3
  obtain ⟨h4, _⟩ := dumpVotes_spec P good h3 hd3
  simp only [] at h
  split at h
  · cases h
  rename_i σ₅ ans hs
  obtain ⟨h5, _, _⟩ := staged_spec P good h4 hs
  have hb : ActsOK P good (acts₁ ++ [Action.broadcastVotes (e1 ++ (e2 ++ e3))]) :=
    (actsOK_append P good _ _).mpr ⟨ha1, by simp [ActsOK, EnsureOK]⟩
  split at h
  · simp only [Except.ok.injEq] at h
    split at h <;> (show QRoot P good (σ', acts).1.root ∧ ActsOK P good (σ', acts).2; rw [← h]; exact fastFinish_ok P good _ _ h5 hb)
  · split at h
    · cases h
    rename_i σ₆ ns hn
    obtain ⟨h6, _⟩ := nextStatus_spec P good h5 hn
    repeat' split at h
    all_goals (simp only [Except.ok.injEq] at h; show QRoot P good (σ', acts).1.root ∧ ActsOK P good (σ', acts).2; rw [← h]; exact fastFinish_ok P good _ _ h6 hb)

theorem enterPeriod_spec {σ σ' : State} {src : Thresh} {target : Nat} {acts : List Action} (hQ : QRoot P good σ.root)
    (h : enterPeriod P σ src target = .ok (σ', acts)) : QRoot P good σ'.root ∧ ActsOK P good acts := by
  unfold enterPeriod at h
  split at h
  · cases h
  rename_i σ₁ acts₁ hp
  obtain ⟨h1, ha1⟩ := partitionPolicy_spec P good hQ hp
  split at h
  · cases h
  rename_i σ₂ c ht
  obtain ⟨h2, _, _⟩ := pmThreshold_spec P good h1 ht
  simp only [] at h
  have hb : ActsOK P good (acts₁ ++ [Action.rezero σ₂.pl.round]) :=
    (actsOK_append P good _ _).mpr ⟨ha1, by simp [ActsOK, EnsureOK]⟩
  repeat' split at h
  all_goals (simp only [Except.ok.injEq, Prod.mk.injEq] at h; obtain ⟨rfl, rfl⟩ := h
             first
               | exact ⟨h2, hb⟩
               | exact ⟨h2, (actsOK_append P good _ _).mpr ⟨hb, by simp [ActsOK, EnsureOK]⟩⟩)

/-! ### round changes and threshold events -/

/-- what the continuation of `enterRoundK` must satisfy -/
def KOK (k : State → Thresh → Except Panic (State × List Action)) : Prop :=
  ∀ σ e σ' acts, QRoot P good σ.root → ThreshValid P good e → k σ e = .ok (σ', acts) →
    QRoot P good σ'.root ∧ ActsOK P good acts

theorem enterRoundK_spec {k : State → Thresh → Except Panic (State × List Action)} (hk : KOK P good k)
    {σ σ' : State} {target : Nat} {acts : List Action} (hQ : QRoot P good σ.root)
    (h : enterRoundK P k σ target = .ok (σ', acts)) : QRoot P good σ'.root ∧ ActsOK P good acts := by
  unfold enterRoundK at h
  split at h
  · cases h
  rename_i σ₁ e hn
  obtain ⟨h1, _⟩ := pmNewRound_spec P good hQ hn
  simp only [] at h
  split at h
  · cases h
  rename_i σ₂ ok fr hf
  have hq : ∀ pl', QRoot P good (⟨pl', σ₁.root⟩ : State).root := fun _ => h1
  obtain ⟨h2, hfr, _⟩ := freshest_spec P good (res := (ok, fr)) (hq _) hf
  have hb' : ∀ e' : PayRes, ActsOK P good (match e' with
      | PayRes.pipelined _ per pin _ up _ => [Action.rezero target, Action.assemble target 0] ++ [Action.verifyPayload target per pin up]
      | _ => [Action.rezero target, Action.assemble target 0]) := by
    intro e'; split <;> simp [ActsOK, EnsureOK]
  have hb := hb' e
  split at h
  · split at h
    · cases h
    rename_i σ₃ a4 hk4
    obtain ⟨h3, ha4⟩ := hk σ₂ fr _ _ h2 (threshValid_of_ok P good hfr) hk4
    simp only [Except.ok.injEq, Prod.mk.injEq] at h; obtain ⟨rfl, rfl⟩ := h
    exact ⟨h3, (actsOK_append P good _ _).mpr ⟨hb, ha4⟩⟩
  · simp only [Except.ok.injEq, Prod.mk.injEq] at h; obtain ⟨rfl, rfl⟩ := h
    exact ⟨h2, hb⟩

theorem handleThresh_spec : ∀ fuel, KOK P good (handleThresh P fuel) := by
  intro fuel
  induction fuel with
  | zero => intro σ e σ' acts _ _ h; simp [handleThresh] at h
  | succ fuel ih =>
    intro σ e σ' acts hQ he h
    simp only [handleThresh] at h
    split at h
    · simp only [Except.ok.injEq, Prod.mk.injEq] at h; obtain ⟨rfl, rfl⟩ := h; exact ⟨hQ, trivial⟩
    split at h
    · -- certThreshold
      rename_i hk0 hk2
      split at h
      · cases h
      rename_i σ₁ c ht
      obtain ⟨h1, _, hst⟩ := pmThreshold_spec P good hQ ht
      split at h
      · cases h
      rename_i σ₂ res hs
      obtain ⟨h2, hres, _⟩ := staged_spec P good h1 hs
      have hprop : res.proposal = e.proposal := staged_reads P (hst (by rw [hk2]; decide)) hs
      split at h
      · rename_i pay hpay
        split at h
        · cases h
        rename_i σ₃ hc
        obtain ⟨h3, _⟩ := credHistoryTouch_spec P good h2 hc
        split at h
        · cases h
        rename_i σ₄ as her
        obtain ⟨h4, ha4⟩ := enterRoundK_spec P good ih h3 her
        simp only [Except.ok.injEq, Prod.mk.injEq] at h; obtain ⟨rfl, rfl⟩ := h
        obtain ⟨hv, hr⟩ := hres pay hpay
        exact ⟨h4, ensureOK_of P good he hk2 (hv.trans hprop) hr, ha4⟩
      · split at h
        · split at h
          · cases h
          rename_i σ₃ as hep
          obtain ⟨h3, ha3⟩ := enterPeriod_spec P good h2 hep
          simp only [Except.ok.injEq, Prod.mk.injEq] at h; obtain ⟨rfl, rfl⟩ := h
          exact ⟨h3, by simp [EnsureOK], ha3⟩
        · simp only [Except.ok.injEq, Prod.mk.injEq] at h; obtain ⟨rfl, rfl⟩ := h
          exact ⟨h2, by simp [ActsOK, EnsureOK]⟩
    split at h
    · -- softThreshold
      split at h
      · simp only [Except.ok.injEq, Prod.mk.injEq] at h; obtain ⟨rfl, rfl⟩ := h; exact ⟨hQ, trivial⟩
      split at h
      · exact enterPeriod_spec P good hQ h
      split at h
      · cases h
      rename_i σ₁ c ht
      obtain ⟨h1, _, _⟩ := pmThreshold_spec P good hQ ht
      repeat' split at h
      all_goals (simp only [Except.ok.injEq, Prod.mk.injEq] at h; obtain ⟨rfl, rfl⟩ := h
                 exact ⟨h1, by simp [ActsOK, EnsureOK]⟩)
    · -- nextThreshold
      split at h
      · simp only [Except.ok.injEq, Prod.mk.injEq] at h; obtain ⟨rfl, rfl⟩ := h; exact ⟨hQ, trivial⟩
      · exact enterPeriod_spec P good hQ h

/-! ### message events -/

theorem payloadPre_ok (round : Nat) (p : Payload) (ef : PayRes) :
    (∀ ret, (payloadPre round p ef).1 = some ret → ActsOK P good ret) ∧ ActsOK P good (payloadPre round p ef).2 := by
  cases ef with
  | pipelined r per pin v up vote =>
    unfold payloadPre
    by_cases hr : r = round
    · simp only [hr, if_true]
      refine ⟨?_, trivial⟩
      intro ret h; simp only [Option.some.injEq] at h; subst h; simp [ActsOK, EnsureOK]
    · simp only [hr, if_false]
      exact ⟨(by intro ret h; cases h), (by simp [ActsOK, EnsureOK])⟩
  | rejected => exact ⟨(by intro ret h; cases h), trivial⟩
  | malformed => exact ⟨(by intro ret h; cases h), trivial⟩
  | accepted _ _ => exact ⟨(by intro ret h; cases h), trivial⟩
  | committable _ _ => exact ⟨(by intro ret h; cases h), trivial⟩

theorem payloadActs_ok (round : Nat) (p : Payload) (own : Bool) (ef : PayRes) :
    ActsOK P good (payloadActs round p own ef) := by
  unfold payloadActs
  split
  · exact (actsOK_append P good _ _).mpr ⟨(payloadPre_ok P good round p ef).2, by simp [ActsOK, EnsureOK]⟩
  · exact (payloadPre_ok P good round p ef).2

theorem payloadCont_ok {σ : State} {ef : PayRes} {acts : List Action} (hQ : QRoot P good σ.root) (ha : ActsOK P good acts) :
    QRoot P good (payloadCont σ ef acts).1.root ∧ ActsOK P good (payloadCont σ ef acts).2 := by
  unfold payloadCont
  split
  · split
    · exact ⟨hQ, (actsOK_append P good _ _).mpr ⟨ha, by simp [ActsOK, EnsureOK]⟩⟩
    · exact ⟨hQ, ha⟩
  · exact ⟨hQ, ha⟩

/-- a late (accepted / committable) answer of the proposalManager only comes from a successfully verified payload -/
theorem pmPayload_late {σ σ' : State} {verified : Bool} {bad : Bad} {p : Payload} {ef : PayRes}
    (h : pmPayload P σ verified bad p = .ok (σ', ef)) (hl : ef.isLate = true) : verified = true ∧ bad ≠ 2 ∧ bad ≠ 1 := by
  unfold pmPayload at h
  simp only [] at h
  cases verified with
  | false =>
    exfalso
    simp only [Bool.not_false, if_true] at h
    have hnl : ∀ (pl : PlayerF) (rr : RoundR), (rr.payloadPresent pl p).2.isLate = false := by
      intro pl rr
      unfold RoundR.payloadPresent
      repeat' split
      all_goals rfl
    have hres : ∀ (root root' : Root) (pl : PlayerF) (r q : Nat) (res : PayRes),
        root.atRound P pl r q (fun rr => .ok (rr.payloadPresent pl p)) = .ok (root', res) → res.isLate = false := by
      intro root root' pl r q res hx
      unfold Root.atRound at hx
      simp only [] at hx
      split at hx
      · cases hx
      simp only [Except.ok.injEq, Prod.mk.injEq] at hx
      rw [← hx.2]; exact hnl _ _
    repeat' split at h
    all_goals first
      | (simp only [Except.ok.injEq, Prod.mk.injEq] at h; obtain ⟨_, rfl⟩ := h
         first
           | (simp [PayRes.isLate] at hl; done)
           | (have := hres _ _ _ _ _ _ (by assumption)
              rw [hl] at this; cases this))
      | cases h
  | true =>
    refine ⟨rfl, ?_, ?_⟩
    · intro hb; subst hb
      simp at h
      obtain ⟨_, rfl⟩ := h; simp [PayRes.isLate] at hl
    · intro hb; subst hb
      simp at h
      obtain ⟨_, rfl⟩ := h; simp [PayRes.isLate] at hl

theorem handlePayload_spec {fuel : Nat} {σ σ' : State} {verified : Bool} {bad : Bad} {p : Payload} {own : Bool}
    {acts : List Action} (hQ : QRoot P good σ.root)
    (hp : verified = true → bad ≠ 2 → bad ≠ 1 → p.round = σ.pl.round)
    (h : handlePayload P fuel σ verified bad p own = .ok (σ', acts)) : QRoot P good σ'.root ∧ ActsOK P good acts := by
  unfold handlePayload at h
  split at h
  · cases h
  rename_i σ₁ ef hpm
  obtain ⟨h1, hpl⟩ := pmPayload_spec P good hQ hp hpm
  split at h
  · simp only [Except.ok.injEq, Prod.mk.injEq] at h; obtain ⟨rfl, rfl⟩ := h; exact ⟨h1, by simp [ActsOK, EnsureOK]⟩
  split at h
  · rename_i ret hret
    simp only [Except.ok.injEq, Prod.mk.injEq] at h; obtain ⟨rfl, rfl⟩ := h
    exact ⟨h1, (payloadPre_ok P good _ p ef).1 _ hret⟩
  simp only [] at h
  have hacts := payloadActs_ok P good σ₁.pl.round p own ef
  split at h
  · rename_i hlate
    split at h
    · cases h
    rename_i σ₂ ok fr hf
    obtain ⟨h2, hfr, hpl2⟩ := freshest_spec P good (res := (ok, fr)) h1 hf
    split at h
    · rename_i hcond
      simp only [Bool.and_eq_true, decide_eq_true_eq] at hcond
      obtain ⟨⟨hok, hk2⟩, hval⟩ := hcond
      split at h
      · cases h
      rename_i σ₃ hc
      obtain ⟨h3, _⟩ := credHistoryTouch_spec P good h2 hc
      split at h
      · cases h
      rename_i σ₄ as her
      obtain ⟨h4, ha4⟩ := enterRoundK_spec P good (handleThresh_spec P good fuel) h3 her
      simp only [Except.ok.injEq, Prod.mk.injEq] at h; obtain ⟨rfl, rfl⟩ := h
      refine ⟨h4, (actsOK_append P good _ _).mpr ⟨hacts, ?_, ha4⟩⟩
      obtain ⟨hv1, hv2, hv3⟩ := pmPayload_late P hpm hlate
      have hround : p.round = fr.round := by
        obtain ⟨hr, _⟩ := hfr.1 (by rw [hk2]; decide)
        rw [hr, hpl]; exact hp hv1 hv2 hv3
      exact ensureOK_of P good (threshValid_of_ok P good hfr) hk2 hval.symm hround
    · simp only [Except.ok.injEq] at h
      have := payloadCont_ok P good (ef := ef) h2 hacts
      rw [h] at this; exact this
  · simp only [Except.ok.injEq] at h
    have := payloadCont_ok P good (ef := ef) h1 hacts
    rw [h] at this; exact this

theorem pvoteFinish_spec {fuel : Nat} {verified : Bool} {taskIndex : Nat} {tail : Option Payload} {σ σ' : State}
    {acts acts' : List Action} {done : Bool} (hQ : QRoot P good σ.root) (ha : ActsOK P good acts)
    (h : pvoteFinish P fuel verified taskIndex tail σ acts done = .ok (σ', acts')) :
    QRoot P good σ'.root ∧ ActsOK P good acts' := by
  unfold pvoteFinish at h
  simp only [] at h
  split at h
  · simp only [Except.ok.injEq, Prod.mk.injEq] at h; obtain ⟨rfl, rfl⟩ := h; exact ⟨hQ, ha⟩
  split at h
  · simp only [Except.ok.injEq, Prod.mk.injEq] at h; obtain ⟨rfl, rfl⟩ := h; exact ⟨hQ, ha⟩
  split at h
  · cases h
  rename_i σ₁ suffix hp
  have hq : ∀ pl', QRoot P good (⟨pl', σ.root⟩ : State).root := fun _ => hQ
  obtain ⟨h1, h2⟩ := handlePayload_spec P good (hq _) (by intro hv; cases hv) hp
  simp only [Except.ok.injEq, Prod.mk.injEq] at h; obtain ⟨rfl, rfl⟩ := h
  exact ⟨h1, (actsOK_append P good _ _).mpr ⟨ha, h2⟩⟩

theorem pvoteGo_spec {fuel : Nat} {verified : Bool} {v : PVote} {taskIndex : Nat} {tail : Option Payload} {ef : PMVote}
    {σ σ' : State} {acts : List Action} (hQ : QRoot P good σ.root)
    (h : pvoteGo P fuel verified v taskIndex tail ef σ = .ok (σ', acts)) : QRoot P good σ'.root ∧ ActsOK P good acts := by
  unfold pvoteGo at h
  split at h
  · have hq : ∀ pl', QRoot P good (⟨pl', σ.root⟩ : State).root := fun _ => hQ
    exact pvoteFinish_spec P good (hq _) (acts := [Action.verifyVote v.round v.period (pendingPush σ.pl tail).2]) (by simp [ActsOK, EnsureOK]) h
  split at h
  · exact pvoteFinish_spec P good hQ (by simp [ActsOK, EnsureOK]) h
  · exact pvoteFinish_spec P good hQ (by simp [ActsOK, EnsureOK]) h
  · cases h

theorem handlePVote_spec {fuel : Nat} {σ σ' : State} {verified : Bool} {bad : Bad} {v : PVote} {taskIndex : Nat}
    {tail : Option Payload} {acts : List Action} (hQ : QRoot P good σ.root)
    (h : handlePVote P fuel σ verified bad v taskIndex tail = .ok (σ', acts)) : QRoot P good σ'.root ∧ ActsOK P good acts := by
  unfold handlePVote at h
  split at h
  · cases h
  rename_i σ₁ ef hpm
  have h1 : QRoot P good σ₁.root := by
    split at hpm
    · exact (pmVoteVerified_spec P good hQ hpm).1
    · exact (pmVotePresent_spec P good hQ hpm).1
  split at h
  · exact pvoteFinish_spec P good h1 (by simp [ActsOK, EnsureOK]) h
  · repeat' split at h
    all_goals first
      | exact pvoteFinish_spec P good h1 (by simp [ActsOK, EnsureOK]) h
      | exact pvoteGo_spec P good h1 h
  · exact pvoteGo_spec P good h1 h

/-! ### the top level -/

/-- what the verifiers guarantee about an event delivered in state `σ`: votes delivered as verified satisfy the per-vote
predicate of their (round, period, step); a validated payload is a block of the player's round -/
def EventOK (σ : State) : Player.Event → Prop
  | .vote verified bad r p s x => verified = true → bad ≠ 2 → bad ≠ 3 → bad ≠ 1 → good r p s x = true
  | .bundle verified bad r p s value votes eqs =>
    verified = true → bad ≠ 2 → bad ≠ 3 → bad ≠ 1 → ∀ x ∈ bundleVotes value votes eqs, good r p s x = true
  | .payload verified bad p _ => verified = true → bad ≠ 2 → bad ≠ 1 → p.round = σ.pl.round
  | _ => True

theorem handle_spec (hg : GoodSpec good) {σ σ' : State} {ev : Player.Event} {acts : List Action} (hQ : QRoot P good σ.root)
    (hev : EventOK good σ ev) (h : Player.handle P σ ev = .ok (σ', acts)) : QRoot P good σ'.root ∧ ActsOK P good acts := by
  have hQ₀ := QRoot_updσ P good 0 hQ
  unfold Player.handle at h
  simp only [] at h
  cases ev with
  | vote verified bad r p s x =>
    simp only [] at h
    split at h
    · cases h
    rename_i σ₁ ef hv
    obtain ⟨h1, h2, _⟩ := vaVote_spec P good hg (σ := ⟨_, _⟩) hQ₀ hev hv
    split at h
    · simp only [Except.ok.injEq, Prod.mk.injEq] at h; obtain ⟨rfl, rfl⟩ := h; exact ⟨h1, by simp [ActsOK, EnsureOK]⟩
    · simp only [Except.ok.injEq, Prod.mk.injEq] at h; obtain ⟨rfl, rfl⟩ := h; exact ⟨h1, by simp [ActsOK, EnsureOK]⟩
    · split at h <;> (simp only [Except.ok.injEq, Prod.mk.injEq] at h; obtain ⟨rfl, rfl⟩ := h; exact ⟨h1, by simp [ActsOK, EnsureOK]⟩)
    · split at h
      · simp only [Except.ok.injEq, Prod.mk.injEq] at h; obtain ⟨rfl, rfl⟩ := h; exact ⟨h1, by simp [ActsOK, EnsureOK]⟩
      split at h
      · cases h
      rename_i σ₂ a1 ht
      obtain ⟨h3, h4⟩ := handleThresh_spec P good _ _ _ _ _ h1 h2 ht
      simp only [Except.ok.injEq, Prod.mk.injEq] at h; obtain ⟨rfl, rfl⟩ := h
      exact ⟨h3, by simp [EnsureOK], h4⟩
  | pvote verified bad v taskIndex tail => exact handlePVote_spec P good (σ := ⟨_, _⟩) hQ₀ h
  | payload verified bad p own => exact handlePayload_spec P good (σ := ⟨_, _⟩) hQ₀ hev h
  | bundle verified bad r p s value votes eqs =>
    simp only [] at h
    split at h
    · cases h
    rename_i σ₁ ef hv
    obtain ⟨h1, h2, _⟩ := vaBundle_spec P good hg (σ := ⟨_, _⟩) hQ₀ hev hv
    split at h
    · simp only [Except.ok.injEq, Prod.mk.injEq] at h; obtain ⟨rfl, rfl⟩ := h; exact ⟨h1, by simp [ActsOK, EnsureOK]⟩
    · simp only [Except.ok.injEq, Prod.mk.injEq] at h; obtain ⟨rfl, rfl⟩ := h; exact ⟨h1, by simp [ActsOK, EnsureOK]⟩
    · simp only [Except.ok.injEq, Prod.mk.injEq] at h; obtain ⟨rfl, rfl⟩ := h; exact ⟨h1, by simp [ActsOK, EnsureOK]⟩
    · split at h
      · cases h
      rename_i σ₂ a1 ht
      obtain ⟨h3, h4⟩ := handleThresh_spec P good _ _ _ _ _ h1 h2 ht
      simp only [Except.ok.injEq, Prod.mk.injEq] at h; obtain ⟨rfl, rfl⟩ := h
      exact ⟨h3, by simp [EnsureOK], h4⟩
  | timeout entropy =>
    simp only [] at h
    split at h
    · split at h
      · cases h
      rename_i σ₁ acts₁ hs
      obtain ⟨h1, h2⟩ := issueSoftVote_spec P good (σ := ⟨_, _⟩) hQ₀ hs
      simp only [Except.ok.injEq, Prod.mk.injEq] at h; obtain ⟨rfl, rfl⟩ := h
      exact ⟨h1, h2⟩
    have hq : ∀ pl', QRoot P good (⟨pl', σ.root.upd P σ.pl 0⟩ : State).root := fun _ => hQ₀
    split at h
    · exact issueNextVote_spec P good (hq _) h
    split at h
    · exact issueNextVote_spec P good (hq _) h
    · simp only [Except.ok.injEq, Prod.mk.injEq] at h; obtain ⟨rfl, rfl⟩ := h; exact ⟨hQ₀, trivial⟩
  | fastTimeout entropy =>
    simp only [] at h
    split at h
    · simp only [Except.ok.injEq, Prod.mk.injEq] at h; obtain ⟨rfl, rfl⟩ := h; exact ⟨hQ₀, trivial⟩
    · have hq : ∀ pl', QRoot P good (⟨pl', σ.root.upd P σ.pl 0⟩ : State).root := fun _ => hQ₀
      exact issueFastVote_spec P good (hq _) h
  | roundInterruption r => exact enterRoundK_spec P good (handleThresh_spec P good _) (σ := ⟨_, _⟩) hQ₀ h
  | checkpoint r p s err =>
    simp only [Except.ok.injEq, Prod.mk.injEq] at h; obtain ⟨rfl, rfl⟩ := h; exact ⟨hQ₀, by simp [ActsOK, EnsureOK]⟩

/-- every event of the list meets `EventOK` in the state it is delivered in -/
def RunOK : State → List Player.Event → Prop
  | _, [] => True
  | σ, e :: rest => EventOK good σ e ∧ ∀ σ' as, Player.handle P σ e = .ok (σ', as) → RunOK σ' rest

theorem run_spec (hg : GoodSpec good) : ∀ (es : List Player.Event) {σ σ' : State} {ass : List (List Action)},
    QRoot P good σ.root → RunOK P good σ es → Player.run P σ es = .ok (σ', ass) →
    QRoot P good σ'.root ∧ ∀ as ∈ ass, ActsOK P good as := by
  intro es
  induction es with
  | nil =>
    intro σ σ' ass hQ _ h
    simp only [Player.run, Except.ok.injEq, Prod.mk.injEq] at h
    obtain ⟨rfl, rfl⟩ := h
    exact ⟨hQ, by intro as h; cases h⟩
  | cons e rest ih =>
    intro σ σ' ass hQ hrun h
    simp only [Player.run] at h
    split at h
    · cases h
    rename_i σ₁ as₁ hh
    split at h
    · cases h
    rename_i σ₂ ass₂ hr
    simp only [Except.ok.injEq, Prod.mk.injEq] at h; obtain ⟨rfl, rfl⟩ := h
    obtain ⟨h1, h2⟩ := handle_spec P good hg hQ hrun.1 hh
    obtain ⟨h3, h4⟩ := ih h1 (hrun.2 _ _ hh) hr
    refine ⟨h3, ?_⟩
    intro as has
    rcases List.mem_cons.mp has with rfl | has
    · exact h2
    · exact h4 as has

end AlgoVerif.Lemmas.Player
