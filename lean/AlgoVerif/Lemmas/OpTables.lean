/-
Lemmas about Model.OpTables.tableAt for EVERY row list: a positional invariant (what is stored where), table length,
and the slot-wise characterisation used for completeness.
-/
import AlgoVerif.Model.OpTables
namespace Lemmas.OpTables
open Model.OpTables

/-! ### positional invariant -/

/-- every spec stored in cell `i`, slot `j` (slot 0 = the cell's own spec, slot j = SubOps[j]) satisfies `P i j` -/
def Inv (P : Nat → Nat → Spec → Prop) (t : Table) : Prop :=
  ∀ i c, t[i]? = some c →
    (∀ s, c.spec = some s → P i 0 s) ∧ (∀ j s, c.subs[j]? = some (some s) → P i j s)

theorem inv_empty (P) : Inv P emptyTable := by
  intro i c h
  unfold emptyTable at h
  rw [List.getElem?_replicate] at h
  split at h
  · cases h
    constructor
    · intro s hs; simp [emptyCell] at hs
    · intro j s hs; simp [emptyCell] at hs
  · cases h

theorem inv_mono {P Q : Nat → Nat → Spec → Prop} (h : ∀ i j s, P i j s → Q i j s) {t : Table} (ht : Inv P t) : Inv Q t := by
  intro i c hc
  obtain ⟨h1, h2⟩ := ht i c hc
  exact ⟨fun s hs => h _ _ _ (h1 s hs), fun j s hs => h _ _ _ (h2 j s hs)⟩

theorem inv_set {P} {t : Table} (ht : Inv P t) (k : Nat) (c' : Cell)
    (h1 : ∀ s, c'.spec = some s → P k 0 s) (h2 : ∀ j s, c'.subs[j]? = some (some s) → P k j s) :
    Inv P (t.set k c') := by
  intro i c hc
  rw [List.getElem?_set] at hc
  split at hc
  · rename_i hki
    subst hki
    split at hc
    · cases hc; exact ⟨h1, h2⟩
    · cases hc
  · exact ht i c hc

theorem getElem?_padTo (l : List (Option Spec)) (n j : Nat) (s : Spec) (h : (padTo l n)[j]? = some (some s)) :
    l[j]? = some (some s) := by
  unfold padTo at h
  rw [List.getElem?_append] at h
  split at h
  · exact h
  · rw [List.getElem?_replicate] at h
    split at h <;> cases h

theorem inv_addRow {P} {t : Table} (ht : Inv P t) (oi : Spec) (hoi : P oi.opcode oi.sub oi) : Inv P (addRow t oi) := by
  unfold addRow
  split
  · -- sub-opcode
    unfold addToSubOps
    split
    · exact ht
    · rename_i c hc
      obtain ⟨h1, h2⟩ := ht _ c hc
      apply inv_set ht
      · exact h1
      · intro j s hs
        simp only at hs
        rw [List.getElem?_set] at hs
        split at hs
        · rename_i hj
          subst hj
          split at hs
          · cases hs; exact hoi
          · cases hs
        · exact h2 j s (getElem?_padTo _ _ _ _ hs)
  · rename_i hsub
    have hsub0 : oi.sub = 0 := by
      by_cases h : oi.sub = 0
      · exact h
      · exact absurd h hsub
    apply inv_set ht
    · intro s hs
      cases hs
      rw [← hsub0]; exact hoi
    · intro j s hs
      simp at hs

theorem inv_foldl {P} (f : Spec → Option Spec) (rows : List Spec) :
    ∀ {t : Table}, Inv P t → (∀ oi ∈ rows, ∀ oi', f oi = some oi' → P oi'.opcode oi'.sub oi') →
    Inv P (rows.foldl (fun t oi => match f oi with | some oi' => addRow t oi' | none => t) t) := by
  induction rows with
  | nil => intro t ht _; exact ht
  | cons r rest ih =>
    intro t ht h
    simp only [List.foldl_cons]
    apply ih
    · cases hf : f r with
      | none => simpa [hf] using ht
      | some r' =>
        simp only []
        exact inv_addRow ht r' (h r (by simp) r' hf)
    · intro oi hoi; exact h oi (by simp [hoi])

theorem overlay_eq (rows : List Spec) (v : Nat) (t : Table) :
    overlay rows v t = rows.foldl (fun t oi => match (if oi.version = v then some oi else none) with
      | some oi' => addRow t oi' | none => t) t := by
  unfold overlay
  congr 1
  funext t oi
  split <;> simp_all

theorem overlay0_eq (rows : List Spec) (t : Table) :
    overlay0 rows t = rows.foldl (fun t oi => match (if oi.version = 1 then some { oi with version := 0 } else none) with
      | some oi' => addRow t oi' | none => t) t := by
  unfold overlay0
  congr 1
  funext t oi
  split <;> simp_all

/-- what may legitimately sit in table `v` at cell `i`, slot `j`: a row of the list (for table 0: a version-1 row with its
    version overwritten to 0) whose opcode is `i`, whose sub-opcode is `j`, and whose version is at most `v` -/
def Stored (rows : List Spec) (v i j : Nat) (s : Spec) : Prop :=
  ((s ∈ rows ∧ 1 ≤ s.version) ∨ (v = 0 ∧ ∃ r ∈ rows, r.version = 1 ∧ s = { r with version := 0 })) ∧
  s.version ≤ v ∧ s.opcode = i ∧ s.sub = j

theorem inv_tableAt (rows : List Spec) : ∀ v, Inv (Stored rows v) (tableAt rows v)
  | 0 => by
    unfold tableAt
    rw [overlay0_eq]
    apply inv_foldl _ _ (inv_empty _)
    intro oi hoi oi' h
    split at h
    · cases h
      rename_i hv
      exact ⟨Or.inr ⟨rfl, oi, hoi, hv, rfl⟩, Nat.le_refl _, rfl, rfl⟩
    · cases h
  | 1 => by
    unfold tableAt
    rw [overlay_eq]
    apply inv_foldl _ _ (inv_empty _)
    intro oi hoi oi' h
    split at h
    · cases h
      rename_i hv
      exact ⟨Or.inl ⟨hoi, by omega⟩, by omega, rfl, rfl⟩
    · cases h
  | v + 2 => by
    unfold tableAt
    rw [overlay_eq]
    apply inv_foldl
    · apply inv_mono _ (inv_tableAt rows (v + 1))
      intro i j s ⟨h1, h2, h3, h4⟩
      refine ⟨?_, by omega, h3, h4⟩
      rcases h1 with h1 | ⟨h0, _⟩
      · exact Or.inl h1
      · omega
    · intro oi hoi oi' h
      split at h
      · cases h
        rename_i hv
        exact ⟨Or.inl ⟨hoi, by omega⟩, by omega, rfl, rfl⟩
      · cases h

/-- GetOpSpec only ever returns something stored in the cell it looked at -/
theorem getSpec_stored {P} {tbl : Nat → Table} {v op : Nat} {next : Option Nat} {s : Spec}
    (hinv : Inv P (tbl v)) (h : getSpec tbl v op next = some s) : ∃ j, (j = 0 ∨ next = some j) ∧ P op j s := by
  unfold getSpec at h
  cases hc : (tbl v)[op]? with
  | none => simp [hc] at h
  | some c =>
    obtain ⟨h1, h2⟩ := hinv op c hc
    simp only [hc] at h
    cases hsubs : c.subs with
    | nil => simp only [hsubs] at h; exact ⟨0, Or.inl rfl, h1 s h⟩
    | cons x xs =>
      cases next with
      | none => simp only [hsubs] at h; exact ⟨0, Or.inl rfl, h1 s h⟩
      | some sub =>
        simp only [hsubs] at h
        cases hg : (x :: xs)[sub]? with
        | none => simp only [hg] at h; exact ⟨0, Or.inl rfl, h1 s h⟩
        | some o =>
          cases o with
          | none => simp only [hg] at h; exact ⟨0, Or.inl rfl, h1 s h⟩
          | some s' =>
            simp only [hg] at h
            cases h
            exact ⟨sub, Or.inr rfl, h2 sub s (by rw [hsubs]; exact hg)⟩

/-! ### length -/

theorem length_addRow (t : Table) (oi : Spec) : (addRow t oi).length = t.length := by
  unfold addRow addToSubOps
  split
  · split <;> simp
  · simp

theorem length_foldl (g : Table → Spec → Table) (hg : ∀ t oi, (g t oi).length = t.length) (rows : List Spec) :
    ∀ t, (rows.foldl g t).length = t.length := by
  induction rows with
  | nil => intro t; rfl
  | cons r rest ih => intro t; simp only [List.foldl_cons]; rw [ih, hg]

theorem length_overlay (rows : List Spec) (v : Nat) (t : Table) : (overlay rows v t).length = t.length := by
  unfold overlay
  apply length_foldl
  intro t oi; split
  · exact length_addRow _ _
  · rfl

theorem length_overlay0 (rows : List Spec) (t : Table) : (overlay0 rows t).length = t.length := by
  unfold overlay0
  apply length_foldl
  intro t oi; split
  · exact length_addRow _ _
  · rfl

theorem length_tableAt (rows : List Spec) : ∀ v, (tableAt rows v).length = 256
  | 0 => by unfold tableAt; rw [length_overlay0]; exact List.length_replicate
  | 1 => by unfold tableAt; rw [length_overlay]; exact List.length_replicate
  | v + 2 => by unfold tableAt; rw [length_overlay]; exact length_tableAt rows (v + 1)

/-! ### slot-wise characterisation (completeness) -/

/-- content of cell `op`, slot `sub` (slot 0 = the cell's own spec) -/
def slot (t : Table) (op sub : Nat) : Option Spec :=
  match t[op]? with
  | none => none
  | some c => if sub = 0 then c.spec else (c.subs[sub]?).join

theorem join_padTo (l : List (Option Spec)) (n j : Nat) : ((padTo l n)[j]?).join = (l[j]?).join := by
  unfold padTo
  rw [List.getElem?_append]
  split
  · rfl
  · rename_i h
    rw [List.getElem?_replicate, List.getElem?_eq_none (by omega)]
    split <;> rfl

theorem length_padTo (l : List (Option Spec)) (n : Nat) : n < (padTo l n).length := by
  unfold padTo
  rw [List.length_append, List.length_replicate]
  omega

/-- a row "wipes" slot (op, sub ≠ 0) when it is a single-byte row on the same opcode byte: the plain assignment
    `table[op] = oi` discards the SubOps slice -/
def Wipes (oi : Spec) (op sub : Nat) : Prop := oi.opcode = op ∧ oi.sub = 0 ∧ sub ≠ 0

theorem slot_addRow (t : Table) (oi : Spec) (op sub : Nat) (hop : op < t.length) (hnw : ¬ Wipes oi op sub) :
    slot (addRow t oi) op sub = if oi.opcode = op ∧ oi.sub = sub then some oi else slot t op sub := by
  unfold addRow
  by_cases hs : oi.sub = 0
  · -- plain row
    rw [if_neg (by simpa using hs)]
    unfold slot
    rw [List.getElem?_set]
    by_cases ho : oi.opcode = op
    · subst ho
      rw [if_pos rfl, if_pos hop]
      by_cases hsub : sub = 0
      · subst hsub; simp [hs]
      · exact absurd ⟨rfl, hs, hsub⟩ hnw
    · rw [if_neg ho, if_neg (by intro h; exact ho h.1)]
  · rw [if_pos (by simpa using hs)]
    unfold addToSubOps
    cases hc : t[oi.opcode]? with
    | none =>
      simp only []
      have : oi.opcode ≠ op := by
        intro h; subst h
        rw [List.getElem?_eq_none_iff] at hc; omega
      rw [if_neg (by intro h; exact this h.1)]
    | some c =>
      simp only []
      unfold slot
      rw [List.getElem?_set]
      by_cases ho : oi.opcode = op
      · subst ho
        rw [if_pos rfl, if_pos hop, hc]
        simp only [true_and]
        by_cases hsub : sub = 0
        · subst hsub
          rw [if_pos rfl, if_pos rfl, if_neg hs]
        · rw [if_neg hsub, if_neg hsub, List.getElem?_set]
          by_cases he : oi.sub = sub
          · subst he
            rw [if_pos rfl, if_pos (length_padTo _ _), if_pos rfl]; rfl
          · rw [if_neg he, if_neg he, join_padTo]
      · rw [if_neg ho, if_neg (by intro h; exact ho h.1)]

/-- the option-valued shadow of the table fold -/
def pick (f : Spec → Option Spec) (op sub : Nat) (rows : List Spec) (init : Option Spec) : Option Spec :=
  rows.foldl (fun acc oi => match f oi with
    | some oi' => if oi'.opcode = op ∧ oi'.sub = sub then some oi' else acc
    | none => acc) init

theorem slot_foldl (f : Spec → Option Spec) (op sub : Nat) (rows : List Spec) :
    ∀ (t : Table), op < t.length → (∀ oi ∈ rows, ∀ oi', f oi = some oi' → ¬ Wipes oi' op sub) →
    slot (rows.foldl (fun t oi => match f oi with | some oi' => addRow t oi' | none => t) t) op sub
      = pick f op sub rows (slot t op sub) := by
  induction rows with
  | nil => intro t _ _; rfl
  | cons r rest ih =>
    intro t hop hnw
    simp only [List.foldl_cons, pick]
    cases hf : f r with
    | none =>
      simp only []
      exact ih t hop (fun oi hoi => hnw oi (by simp [hoi]))
    | some r' =>
      simp only []
      have := ih (addRow t r') (by rw [length_addRow]; exact hop) (fun oi hoi => hnw oi (by simp [hoi]))
      rw [this, slot_addRow t r' op sub hop (hnw r (by simp) r' hf)]
      rfl

/-- candidates for slot (op, sub) produced by the loop body `f`, in list order -/
def cands (f : Spec → Option Spec) (op sub : Nat) (rows : List Spec) : List Spec :=
  rows.filterMap (fun oi => (f oi).bind (fun oi' => if oi'.opcode = op ∧ oi'.sub = sub then some oi' else none))

theorem pick_eq (f : Spec → Option Spec) (op sub : Nat) (rows : List Spec) :
    ∀ init, pick f op sub rows init = ((cands f op sub rows).getLast?).or init := by
  induction rows with
  | nil => intro init; simp [pick, cands]
  | cons r rest ih =>
    intro init
    unfold pick at ih ⊢
    simp only [List.foldl_cons]
    rw [ih]
    unfold cands
    rw [List.filterMap_cons]
    cases hf : f r with
    | none => simp
    | some r' =>
      simp only [Option.bind_some]
      split
      · simp only []
        rw [List.getLast?_cons]
        cases (List.filterMap _ rest).getLast? <;> simp
      · simp

theorem slot_empty (op sub : Nat) : slot emptyTable op sub = none := by
  unfold slot emptyTable
  rw [List.getElem?_replicate]
  by_cases h : op < 256
  · rw [if_pos h]
    simp only [emptyCell]
    split <;> simp
  · rw [if_neg h]

/-! ### cell-level invariant (used for: no sub-opcode rows ⇒ SubOps stays nil) -/

def CInv (Q : Nat → Cell → Prop) (t : Table) : Prop := ∀ i c, t[i]? = some c → Q i c

theorem cinv_set {Q} {t : Table} (ht : CInv Q t) (k : Nat) (c' : Cell) (h : Q k c') : CInv Q (t.set k c') := by
  intro i c hc
  rw [List.getElem?_set] at hc
  split at hc
  · rename_i hki
    subst hki
    split at hc
    · cases hc; exact h
    · cases hc
  · exact ht i c hc

/-- `HasSub rows i`: some row of the list is a sub-opcode row on opcode byte `i` -/
def SubsOnlyIfRows (rows : List Spec) (i : Nat) (c : Cell) : Prop :=
  c.subs ≠ [] → ∃ r ∈ rows, r.opcode = i ∧ r.sub ≠ 0

theorem cinv_addRow {rows : List Spec} {t : Table} (ht : CInv (SubsOnlyIfRows rows) t) (oi : Spec)
    (hoi : ∃ r ∈ rows, r.opcode = oi.opcode ∧ r.sub = oi.sub) : CInv (SubsOnlyIfRows rows) (addRow t oi) := by
  unfold addRow
  split
  · rename_i hs
    unfold addToSubOps
    split
    · exact ht
    · apply cinv_set ht
      intro _
      obtain ⟨r, hr, h1, h2⟩ := hoi
      exact ⟨r, hr, h1, by rw [h2]; simpa using hs⟩
  · apply cinv_set ht
    intro h; exact absurd rfl h

theorem cinv_foldl {rows : List Spec} (f : Spec → Option Spec) (l : List Spec) :
    ∀ {t : Table}, CInv (SubsOnlyIfRows rows) t →
      (∀ oi ∈ l, ∀ oi', f oi = some oi' → ∃ r ∈ rows, r.opcode = oi'.opcode ∧ r.sub = oi'.sub) →
      CInv (SubsOnlyIfRows rows) (l.foldl (fun t oi => match f oi with | some oi' => addRow t oi' | none => t) t) := by
  induction l with
  | nil => intro t ht _; exact ht
  | cons r rest ih =>
    intro t ht h
    simp only [List.foldl_cons]
    apply ih
    · cases hf : f r with
      | none => simpa [hf] using ht
      | some r' =>
        simp only []
        exact cinv_addRow ht r' (h r (by simp) r' hf)
    · intro oi hoi; exact h oi (by simp [hoi])

theorem cinv_empty (rows : List Spec) : CInv (SubsOnlyIfRows rows) emptyTable := by
  intro i c h
  unfold emptyTable at h
  rw [List.getElem?_replicate] at h
  split at h
  · cases h; intro hne; exact absurd rfl hne
  · cases h

theorem cinv_tableAt (rows : List Spec) : ∀ v, CInv (SubsOnlyIfRows rows) (tableAt rows v)
  | 0 => by
    unfold tableAt
    rw [overlay0_eq]
    apply cinv_foldl _ _ (cinv_empty rows)
    intro oi hoi oi' h
    split at h
    · cases h; exact ⟨oi, hoi, rfl, rfl⟩
    · cases h
  | 1 => by
    unfold tableAt
    rw [overlay_eq]
    apply cinv_foldl _ _ (cinv_empty rows)
    intro oi hoi oi' h
    split at h
    · cases h; exact ⟨oi, hoi, rfl, rfl⟩
    · cases h
  | v + 2 => by
    unfold tableAt
    rw [overlay_eq]
    apply cinv_foldl _ _ (cinv_tableAt rows (v + 1))
    intro oi hoi oi' h
    split at h
    · cases h; exact ⟨oi, hoi, rfl, rfl⟩
    · cases h

end Lemmas.OpTables
