import AlgoVerif.Model.OnlineAccts
/-! List-level lemmas behind C13: `lastIn`, row lookups, `applyUpd(s)`, `deleteBefore`, cache lists. -/
namespace AlgoVerif.Lemmas.OnlineAccts
open AlgoVerif.Spec.OnlineHistory AlgoVerif.Model.OnlineAccts

/-! ### lastIn -/

theorem lastIn_append (xs ys : List Delta) (a : Addr) :
    lastIn (xs ++ ys) a = match lastIn ys a with | some x => some x | none => lastIn xs a := by
  induction xs with
  | nil => simp only [List.nil_append, lastIn]; cases lastIn ys a <;> rfl
  | cons d xs ih =>
    simp only [List.cons_append, lastIn, ih]
    cases lastIn ys a <;> rfl

theorem lastIn_nil (a : Addr) : lastIn [] a = none := rfl

theorem lastIn_singleton (d : Delta) (a : Addr) : lastIn [d] a = d.lookup a := by
  simp [lastIn]

/-! ### rows -/

def RowsSorted (rows : List Row) : Prop := rows.Pairwise (fun x y => y.upd < x.upd)
/-- every row is older than round `b` -/
def RowsBelow (rows : List Row) (b : Nat) : Prop := ∀ r ∈ rows, r.upd < b
/-- a row is either the all-zero "offline" row (norm 0) or carries voting data and the normalised balance of its data -/
def RowOK (g : Nat) (row : Row) : Prop :=
  (row.data.votingEmpty = true → row.data = ORec.zero ∧ row.norm = 0) ∧
  (row.data.votingEmpty = false → normBal g row.data.bal row.data.rb = some row.norm)
def RowsOK (g : Nat) (rows : List Row) : Prop := ∀ r ∈ rows, RowOK g r

/-- the newest row's data (the empty record if there is none): `prevAcct` -/
def cur (rows : List Row) : ORec := recOfRow rows.head?

theorem rowAt_cons (x : Row) (xs : List Row) (rnd : Nat) :
    rowAt (x :: xs) rnd = if x.upd ≤ rnd then some x else rowAt xs rnd := by
  unfold rowAt
  by_cases h : x.upd ≤ rnd <;> simp [List.find?, h]

theorem rowAt_nil (rnd : Nat) : rowAt [] rnd = none := rfl

theorem rowAt_all_le (rows : List Row) (rnd : Nat) (h : RowsBelow rows (rnd + 1)) : rowAt rows rnd = rows.head? := by
  cases rows with
  | nil => rfl
  | cons x xs =>
    have : x.upd ≤ rnd := by have := h x (by simp); omega
    simp [rowAt_cons, this]

theorem rowAt_skip (xs ys : List Row) (rnd : Nat) (h : ∀ r ∈ xs, rnd < r.upd) : rowAt (xs ++ ys) rnd = rowAt ys rnd := by
  induction xs with
  | nil => rfl
  | cons x xs ih =>
    have hx : ¬ x.upd ≤ rnd := by have := h x (by simp); omega
    simp only [List.cons_append, rowAt_cons, hx, if_false]
    exact ih (fun r hr => h r (by simp [hr]))

theorem rowAt_append_hit (xs ys : List Row) (rnd : Nat) (r : Row) (h : rowAt xs rnd = some r) :
    rowAt (xs ++ ys) rnd = some r := by
  unfold rowAt at *
  simp [List.find?_append, h]

theorem rowAt_append_miss (xs ys : List Row) (rnd : Nat) (h : rowAt xs rnd = none) :
    rowAt (xs ++ ys) rnd = rowAt ys rnd := by
  unfold rowAt at *
  simp [List.find?_append, h]

theorem rowAt_mem {rows : List Row} {rnd : Nat} {r : Row} (h : rowAt rows rnd = some r) : r ∈ rows ∧ r.upd ≤ rnd := by
  unfold rowAt at h
  have h1 := List.mem_of_find?_eq_some h
  have h2 := List.find?_some h
  exact ⟨h1, by simpa using h2⟩


/-! ### one update of an address (`onlineAccountsNewRoundImpl` body) -/

theorem orec_online {x : Acct} (h : x.online = true) : x.orec = x.core := by simp [Acct.orec, h]
theorem orec_offline {x : Acct} (h : x.online = false) : x.orec = ORec.zero := by simp [Acct.orec, h]

theorem zero_votingEmpty : ORec.zero.votingEmpty = true := by decide

theorem mkRow_ok {g upd : Nat} {r : ORec} {row : Row} (h : mkRow g upd r = .ok row) :
    row.upd = upd ∧ row.data = r ∧ normBal g r.bal r.rb = some row.norm := by
  unfold mkRow at h
  split at h
  · cases h
  · rename_i nb hnb
    cases h
    exact ⟨rfl, rfl, hnb⟩

/-- what one update does to the rows of its address: at most one new row in front, dated with the update's round, and
    afterwards the newest row says exactly what the update means for the online table -/
theorem applyUpd_spec {g : Nat} {rows rows' : List Row} {r : Nat} {x : Acct}
    (h : applyUpd g rows (r, x) = .ok rows') (hok : RowsOK g rows) :
    (rows' = rows ∨ ∃ row, rows' = row :: rows ∧ row.upd = r ∧ RowOK g row) ∧ cur rows' = x.orec := by
  unfold applyUpd at h
  simp only at h
  split at h
  · cases h
  · rename_i hchk
    have hchk' : ¬ (x.online = true ∧ x.core.votingEmpty = true) := by simpa using hchk
    cases rows with
    | nil =>
      simp only at h
      by_cases hon : x.online = true
      · simp only [hon, if_true] at h
        cases hm : mkRow g r x.core with
        | error e => simp [hm, Except.map] at h
        | ok row =>
          simp [hm, Except.map] at h
          obtain ⟨h1, h2, h3⟩ := mkRow_ok hm
          have hve : row.data.votingEmpty = false := by
            rw [h2]; cases hv : x.core.votingEmpty
            · rfl
            · exact absurd ⟨hon, hv⟩ hchk'
          refine ⟨Or.inr ⟨row, h.symm, h1, ?_, ?_⟩, ?_⟩
          · intro hv; rw [hve] at hv; cases hv
          · intro _; rw [h2]; exact h3
          · rw [← h]; simp [cur, recOfRow, h2, orec_online hon]
      · have hoff : x.online = false := by cases hx : x.online <;> simp_all
        simp only [hoff] at h
        simp at h
        subst h
        exact ⟨Or.inl rfl, by simp [cur, recOfRow, orec_offline hoff]⟩
    | cons prev rest =>
      simp only at h
      by_cases hon : x.online = true
      · simp only [hon, if_true] at h
        by_cases hne : prev.data ≠ x.core
        · rw [if_pos hne] at h
          cases hm : mkRow g r x.core with
          | error e => simp [hm, Except.map] at h
          | ok row =>
            simp [hm, Except.map] at h
            obtain ⟨h1, h2, h3⟩ := mkRow_ok hm
            have hve : row.data.votingEmpty = false := by
              rw [h2]; cases hv : x.core.votingEmpty
              · rfl
              · exact absurd ⟨hon, hv⟩ hchk'
            refine ⟨Or.inr ⟨row, h.symm, h1, ?_, ?_⟩, ?_⟩
            · intro hv; rw [hve] at hv; cases hv
            · intro _; rw [h2]; exact h3
            · rw [← h]; simp [cur, recOfRow, h2, orec_online hon]
        · have heq : prev.data = x.core := by simpa using hne
          rw [if_neg hne] at h
          cases h
          exact ⟨Or.inl rfl, by simp [cur, recOfRow, heq, orec_online hon]⟩
      · have hoff : x.online = false := by cases hx : x.online <;> simp_all
        simp only [hoff] at h
        by_cases hpe : prev.data.votingEmpty = true
        · simp [hpe] at h
          subst h
          have := (hok prev (by simp)).1 hpe
          exact ⟨Or.inl rfl, by simp [cur, recOfRow, this.1, orec_offline hoff]⟩
        · simp [hpe] at h
          subst h
          refine ⟨Or.inr ⟨⟨r, ORec.zero, 0⟩, rfl, rfl, ?_, ?_⟩, ?_⟩
          · intro _; exact ⟨rfl, rfl⟩
          · intro hv; simp [zero_votingEmpty] at hv
          · simp [cur, recOfRow, orec_offline hoff]


/-! ### all updates of an address in a committed range -/

theorem sorted_cons_of_below {row : Row} {rows : List Row} {b : Nat} (hs : RowsSorted rows) (hb : RowsBelow rows b)
    (h : b ≤ row.upd) : RowsSorted (row :: rows) := by
  unfold RowsSorted at *
  refine List.Pairwise.cons ?_ hs
  intro y hy
  have := hb y hy
  omega

theorem lastIn_take_succ (d : Delta) (ds : List Delta) (k : Nat) (a : Addr) :
    lastIn ((d :: ds).take (k + 1)) a = match lastIn (ds.take k) a with | some x => some x | none => d.lookup a := by
  simp only [List.take, lastIn]
  cases lastIn (List.take k ds) a <;> rfl

/-- the rows of an address after `onlineAccountsNewRoundImpl` went through its updates of rounds r0, r0+1, …:
    new rows in front (dated inside the range), still sorted / well formed, and for every round from r0 on the newest row
    not newer than the round says what the newest delta up to that round means (or what the old newest row said). -/
theorem applyUpds_spec (g : Nat) (a : Addr) :
    ∀ (ds : List Delta) (r0 : Nat) (rows rows' : List Row),
      applyUpds g rows (updsOf ds r0 a) = .ok rows' →
      RowsSorted rows → RowsBelow rows r0 → RowsOK g rows →
      (∃ news, rows' = news ++ rows ∧ (∀ r ∈ news, r0 ≤ r.upd ∧ r.upd < r0 + ds.length)) ∧
      RowsSorted rows' ∧ RowsOK g rows' ∧
      (∀ rnd, r0 ≤ rnd → recOfRow (rowAt rows' rnd) =
        match lastIn (ds.take (rnd + 1 - r0)) a with | some x => x.orec | none => cur rows) := by
  intro ds
  induction ds with
  | nil =>
    intro r0 rows rows' h hs hb hok
    simp only [updsOf, applyUpds] at h
    cases h
    refine ⟨⟨[], rfl, by simp⟩, hs, hok, ?_⟩
    intro rnd hr
    have : rowAt rows rnd = rows.head? := rowAt_all_le rows rnd (fun r hr' => by have := hb r hr'; omega)
    simp [this, lastIn, cur]
  | cons d ds ih =>
    intro r0 rows rows' h hs hb hok
    simp only [updsOf] at h
    cases hl : d.lookup a with
    | none =>
      simp only [hl, List.nil_append] at h
      have hb' : RowsBelow rows (r0 + 1) := fun r hr => by have := hb r hr; omega
      obtain ⟨⟨news, hn1, hn2⟩, hs', hok', hf⟩ := ih (r0 + 1) rows rows' h hs hb' hok
      refine ⟨⟨news, hn1, ?_⟩, hs', hok', ?_⟩
      · intro r hr; have := hn2 r hr; simp only [List.length_cons]; omega
      · intro rnd hr
        by_cases he : rnd = r0
        · subst he
          have h1 : rowAt rows' rnd = rowAt rows rnd := by
            rw [hn1]; exact rowAt_skip news rows rnd (fun r hr' => by have := hn2 r hr'; omega)
          have h2 : rowAt rows rnd = rows.head? := rowAt_all_le rows rnd (fun r hr' => by have := hb r hr'; omega)
          have h3 : rnd + 1 - rnd = 0 + 1 := by omega
          rw [h1, h2, h3, lastIn_take_succ]
          simp [lastIn, hl, cur]
        · have hr' : r0 + 1 ≤ rnd := by omega
          have h3 : rnd + 1 - r0 = (rnd + 1 - (r0 + 1)) + 1 := by omega
          rw [hf rnd hr', h3, lastIn_take_succ, hl]
          cases lastIn (List.take (rnd + 1 - (r0 + 1)) ds) a <;> rfl
    | some x =>
      simp only [hl, List.singleton_append, applyUpds] at h
      cases h1 : applyUpd g rows (r0, x) with
      | error e => simp [h1] at h
      | ok rows1 =>
        simp only [h1] at h
        obtain ⟨hstruct, hcur⟩ := applyUpd_spec h1 hok
        have hs1 : RowsSorted rows1 := by
          rcases hstruct with h | ⟨row, h, hu, _⟩
          · rw [h]; exact hs
          · rw [h]; exact sorted_cons_of_below hs hb (by omega)
        have hb1 : RowsBelow rows1 (r0 + 1) := by
          intro r hr
          rcases hstruct with h | ⟨row, h, hu, _⟩
          · rw [h] at hr; have := hb r hr; omega
          · rw [h] at hr
            rcases List.mem_cons.mp hr with h' | h'
            · rw [h']; omega
            · have := hb r h'; omega
        have hok1 : RowsOK g rows1 := by
          intro r hr
          rcases hstruct with h | ⟨row, h, hu, hrok⟩
          · rw [h] at hr; exact hok r hr
          · rw [h] at hr
            rcases List.mem_cons.mp hr with h' | h'
            · rw [h']; exact hrok
            · exact hok r h'
        obtain ⟨⟨news, hn1, hn2⟩, hs', hok', hf⟩ := ih (r0 + 1) rows1 rows' h hs1 hb1 hok1
        have hnews : ∃ news', rows' = news' ++ rows ∧ (∀ r ∈ news', r0 ≤ r.upd ∧ r.upd < r0 + (d :: ds).length) := by
          rcases hstruct with h | ⟨row, h, hu, _⟩
          · refine ⟨news, by rw [hn1, h], ?_⟩
            intro r hr; have := hn2 r hr; simp only [List.length_cons]; omega
          · refine ⟨news ++ [row], by rw [hn1, h]; simp, ?_⟩
            intro r hr
            rcases List.mem_append.mp hr with h' | h'
            · have := hn2 r h'; simp only [List.length_cons]; omega
            · simp at h'; rw [h']; simp only [List.length_cons]; omega
        refine ⟨hnews, hs', hok', ?_⟩
        intro rnd hr
        by_cases he : rnd = r0
        · subst he
          have h2 : rowAt rows' rnd = rowAt rows1 rnd := by
            rw [hn1]; exact rowAt_skip news rows1 rnd (fun r hr' => by have := hn2 r hr'; omega)
          have h3 : rowAt rows1 rnd = rows1.head? := rowAt_all_le rows1 rnd hb1
          have h4 : rnd + 1 - rnd = 0 + 1 := by omega
          rw [h2, h3, h4, lastIn_take_succ]
          simp only [List.take_zero, lastIn, hl]
          exact hcur
        · have hr' : r0 + 1 ≤ rnd := by omega
          have h3 : rnd + 1 - r0 = (rnd + 1 - (r0 + 1)) + 1 := by omega
          rw [hf rnd hr', h3, lastIn_take_succ, hl]
          cases lastIn (List.take (rnd + 1 - (r0 + 1)) ds) a
          · exact hcur
          · rfl

theorem applyUpds_old {g : Nat} {a : Addr} {ds : List Delta} {r0 : Nat} {rows rows' : List Row}
    (h : applyUpds g rows (updsOf ds r0 a) = .ok rows') (hs : RowsSorted rows) (hb : RowsBelow rows r0) (hok : RowsOK g rows)
    (rnd : Nat) (hr : rnd < r0) : rowAt rows' rnd = rowAt rows rnd := by
  obtain ⟨⟨news, hn1, hn2⟩, _, _, _⟩ := applyUpds_spec g a ds r0 rows rows' h hs hb hok
  rw [hn1]
  exact rowAt_skip news rows rnd (fun r hr' => by have := hn2 r hr'; omega)


/-! ### OnlineAccountsDelete -/

theorem deleteBefore_cons_ge (fb : Nat) (x : Row) (xs : List Row) (h : fb ≤ x.upd) :
    deleteBefore fb (x :: xs) = x :: deleteBefore fb xs := by
  have h1 : decide (x.upd ≥ fb) = true := by simpa using h
  have h2 : decide (x.upd < fb) = false := by simp; omega
  unfold deleteBefore
  simp only [List.filter_cons, h1, h2, if_true]
  cases List.filter (fun r => decide (r.upd < fb)) xs with
  | nil => simp
  | cons r rest => by_cases hv : r.data.votingEmpty = true <;> simp [hv]

theorem deleteBefore_cons_lt (fb : Nat) (x : Row) (xs : List Row) (h : x.upd < fb) (hs : RowsSorted (x :: xs)) :
    deleteBefore fb (x :: xs) = if x.data.votingEmpty then [] else [x] := by
  have h1 : decide (x.upd ≥ fb) = false := by simp; omega
  have h2 : decide (x.upd < fb) = true := by simpa using h
  have h3 : List.filter (fun r => decide (r.upd ≥ fb)) xs = [] := by
    rw [List.filter_eq_nil_iff]
    intro y hy
    have := (List.pairwise_cons.mp hs).1 y hy
    simp; omega
  unfold deleteBefore
  simp only [List.filter_cons, h1, h2, if_true, h3]
  by_cases hv : x.data.votingEmpty = true <;> simp [hv]

theorem deleteBefore_mem {fb : Nat} {rows : List Row} {r : Row} (h : r ∈ deleteBefore fb rows) : r ∈ rows := by
  unfold deleteBefore at h
  simp only at h
  split at h
  · exact (List.mem_filter.mp h).1
  · rename_i r0 rest heq
    have hr0 : r0 ∈ rows := by
      have : r0 ∈ List.filter (fun r => decide (r.upd < fb)) rows := by rw [heq]; simp
      exact (List.mem_filter.mp this).1
    split at h
    · exact (List.mem_filter.mp h).1
    · rcases List.mem_append.mp h with h' | h'
      · exact (List.mem_filter.mp h').1
      · simp at h'; rw [h']; exact hr0

theorem deleteBefore_sorted (fb : Nat) : ∀ (rows : List Row), RowsSorted rows → RowsSorted (deleteBefore fb rows) := by
  intro rows
  induction rows with
  | nil => intro _; simp [deleteBefore, RowsSorted]
  | cons x xs ih =>
    intro hs
    by_cases h : fb ≤ x.upd
    · rw [deleteBefore_cons_ge fb x xs h]
      have hp := List.pairwise_cons.mp hs
      refine List.Pairwise.cons ?_ (ih hp.2)
      intro y hy
      exact hp.1 y (deleteBefore_mem hy)
    · rw [deleteBefore_cons_lt fb x xs (by omega) hs]
      by_cases hv : x.data.votingEmpty = true <;> simp [hv, RowsSorted]

/-- pruning below the horizon `fb` does not change what a lookup at or above the horizon means -/
theorem deleteBefore_rec (g fb : Nat) : ∀ (rows : List Row), RowsSorted rows → RowsOK g rows → ∀ rnd, fb ≤ rnd →
    recOfRow (rowAt (deleteBefore fb rows) rnd) = recOfRow (rowAt rows rnd) := by
  intro rows
  induction rows with
  | nil => intro _ _ rnd _; simp [deleteBefore]
  | cons x xs ih =>
    intro hs hok rnd hr
    by_cases h : fb ≤ x.upd
    · rw [deleteBefore_cons_ge fb x xs h, rowAt_cons, rowAt_cons]
      by_cases hx : x.upd ≤ rnd
      · simp [hx]
      · simp only [hx, if_false]
        exact ih (List.pairwise_cons.mp hs).2 (fun r hr' => hok r (by simp [hr'])) rnd hr
    · rw [deleteBefore_cons_lt fb x xs (by omega) hs, rowAt_cons]
      have hx : x.upd ≤ rnd := by omega
      simp only [hx, if_true]
      by_cases hv : x.data.votingEmpty = true
      · have := (hok x (by simp)).1 hv
        rw [if_pos hv]
        simp [rowAt, recOfRow, this.1]
      · simp [hv, rowAt_cons, hx]

end AlgoVerif.Lemmas.OnlineAccts
