/-
Lemmas for Model.AsmFormat: canonical (assembler-shaped) raw programs. Two minimal raw programs with the same layout that
un-resolve to the same instructions are equal.
-/
import AlgoVerif.Lemmas.AsmFormatRelax
namespace Lemmas.AsmFormat
open Model.OpTables Model.AsmFormat

/-- widths as the assembler writes them: minimal varuints, minimal zig-zag varints -/
def RImmMin : RImm → Prop
  | .uint v w => w = uvarLen v
  | .bytes lw bs => lw = uvarLen bs.length
  | .ints cw vs => cw = uvarLen vs.length ∧ ∀ p ∈ vs, p.2 = uvarLen p.1
  | .bytess cw bss => cw = uvarLen bss.length ∧ ∀ p ∈ bss, p.1 = uvarLen p.2.length
  | .voff o w => w = needed o
  | _ => True

def RawMin (rs : List RInstr) : Prop := ∀ r ∈ rs, ∀ i ∈ r.imms, RImmMin i

theorem pairs_eq_of_fst : ∀ {vs vs' : List (Nat × Nat)}, vs.map (·.1) = vs'.map (·.1) →
    (∀ p ∈ vs, p.2 = uvarLen p.1) → (∀ p ∈ vs', p.2 = uvarLen p.1) → vs = vs'
  | [], [], _, _, _ => rfl
  | [], _ :: _, h, _, _ => by simp at h
  | _ :: _, [], h, _, _ => by simp at h
  | (a, b) :: vs, (a', b') :: vs', h, m, m' => by
    simp only [List.map_cons, List.cons.injEq] at h
    obtain ⟨h1, h2⟩ := h
    have e1 := m (a, b) List.mem_cons_self
    have e2 := m' (a', b') List.mem_cons_self
    simp only at h1 e1 e2
    subst h1
    rw [pairs_eq_of_fst h2 (fun p hp => m p (List.mem_cons_of_mem _ hp)) (fun p hp => m' p (List.mem_cons_of_mem _ hp)), e1, e2]

theorem items_eq_of_snd : ∀ {vs vs' : List (Nat × Bytes)}, vs.map (·.2) = vs'.map (·.2) →
    (∀ p ∈ vs, p.1 = uvarLen p.2.length) → (∀ p ∈ vs', p.1 = uvarLen p.2.length) → vs = vs'
  | [], [], _, _, _ => rfl
  | [], _ :: _, h, _, _ => by simp at h
  | _ :: _, [], h, _, _ => by simp at h
  | (a, b) :: vs, (a', b') :: vs', h, m, m' => by
    simp only [List.map_cons, List.cons.injEq] at h
    obtain ⟨h1, h2⟩ := h
    have e1 := m (a, b) List.mem_cons_self
    have e2 := m' (a', b') List.mem_cons_self
    simp only at h1 e1 e2
    subst h1
    rw [items_eq_of_snd h2 (fun p hp => m p (List.mem_cons_of_mem _ hp)) (fun p hp => m' p (List.mem_cons_of_mem _ hp)), e1, e2]

/-- an offset is determined by the instruction start it lands on -/
theorem off_eq_of_idx {S : List Nat} {e : Nat} {o o' : Int} {t : Nat}
    (h : idxOfPos S ((e : Int) + o) = some t) (h' : idxOfPos S ((e : Int) + o') = some t) : o = o' := by
  obtain ⟨a1, a2⟩ := idxOfPos_inv h
  obtain ⟨b1, b2⟩ := idxOfPos_inv h'
  rw [a2] at b2
  simp only [Option.some.injEq] at b2
  omega

theorem unresolveOffs_inj {S : List Nat} {e : Nat} : ∀ {os os' : List Int} {ts : List Nat},
    unresolveOffs S e os = some ts → unresolveOffs S e os' = some ts → os = os'
  | [], [], _, _, _ => rfl
  | [], o' :: os', ts, h, h' => by
    simp only [unresolveOffs, Option.some.injEq] at h; subst h
    simp only [unresolveOffs] at h'
    split at h' <;> simp at h'
  | o :: os, [], ts, h, h' => by
    simp only [unresolveOffs, Option.some.injEq] at h'; subst h'
    simp only [unresolveOffs] at h
    split at h <;> simp at h
  | o :: os, o' :: os', ts, h, h' => by
    simp only [unresolveOffs] at h h'
    cases h1 : idxOfPos S ((e : Int) + o) with
    | none => simp [h1] at h
    | some t =>
      cases h2 : unresolveOffs S e os with
      | none => simp [h1, h2] at h
      | some tl =>
        simp only [h1, h2, Option.some.injEq] at h
        subst h
        cases h3 : idxOfPos S ((e : Int) + o') with
        | none => simp [h3] at h'
        | some t' =>
          cases h4 : unresolveOffs S e os' with
          | none => simp [h3, h4] at h'
          | some tl' =>
            simp only [h3, h4, Option.some.injEq, List.cons.injEq] at h'
            obtain ⟨rfl, rfl⟩ := h'
            rw [off_eq_of_idx h1 h3, unresolveOffs_inj h2 h4]

/-- one immediate: minimal raw immediates that un-resolve to the same immediate are equal -/
theorem unresolveImm_inj {S : List Nat} {p e : Nat} (hpe : p < e) {r r' : RImm} {im : Model.AsmFormat.Imm}
    (h : unresolveImm S p e r = some im) (h' : unresolveImm S p e r' = some im) (m : RImmMin r) (m' : RImmMin r') :
    r = r' := by
  cases r with
  | byte b =>
    simp only [unresolveImm, Option.some.injEq] at h; subst h
    cases r' with
    | byte b' =>
      simp only [unresolveImm, Option.some.injEq, Model.AsmFormat.Imm.byte.injEq] at h'
      rw [h']
    | uint _ _ => simp [unresolveImm] at h'
    | bytes _ _ => simp [unresolveImm] at h'
    | ints _ _ => simp [unresolveImm] at h'
    | bytess _ _ => simp [unresolveImm] at h'
    | off2 _ => simp [unresolveImm] at h'
    | voff _ _ => simp [unresolveImm] at h'
    | offs _ => simp [unresolveImm] at h'
  | uint v w =>
    simp only [unresolveImm, Option.some.injEq] at h; subst h
    cases r' with
    | uint v' w' =>
      simp only [unresolveImm, Option.some.injEq, Model.AsmFormat.Imm.uint.injEq] at h'
      simp only [RImmMin] at m m'
      subst h'
      rw [m, m']
    | byte _ => simp [unresolveImm] at h'
    | bytes _ _ => simp [unresolveImm] at h'
    | ints _ _ => simp [unresolveImm] at h'
    | bytess _ _ => simp [unresolveImm] at h'
    | off2 _ => simp [unresolveImm] at h'
    | voff _ _ => simp [unresolveImm] at h'
    | offs _ => simp [unresolveImm] at h'
  | bytes lw bs =>
    simp only [unresolveImm, Option.some.injEq] at h; subst h
    cases r' with
    | bytes lw' bs' =>
      simp only [unresolveImm, Option.some.injEq, Model.AsmFormat.Imm.bytes.injEq] at h'
      simp only [RImmMin] at m m'
      subst h'
      rw [m, m']
    | byte _ => simp [unresolveImm] at h'
    | uint _ _ => simp [unresolveImm] at h'
    | ints _ _ => simp [unresolveImm] at h'
    | bytess _ _ => simp [unresolveImm] at h'
    | off2 _ => simp [unresolveImm] at h'
    | voff _ _ => simp [unresolveImm] at h'
    | offs _ => simp [unresolveImm] at h'
  | ints cw vs =>
    simp only [unresolveImm, Option.some.injEq] at h; subst h
    cases r' with
    | ints cw' vs' =>
      simp only [unresolveImm, Option.some.injEq, Model.AsmFormat.Imm.ints.injEq] at h'
      obtain ⟨m1, m2⟩ := m
      obtain ⟨m1', m2'⟩ := m'
      have := pairs_eq_of_fst h'.symm m2 m2'
      subst this
      rw [m1, m1']
    | byte _ => simp [unresolveImm] at h'
    | uint _ _ => simp [unresolveImm] at h'
    | bytes _ _ => simp [unresolveImm] at h'
    | bytess _ _ => simp [unresolveImm] at h'
    | off2 _ => simp [unresolveImm] at h'
    | voff _ _ => simp [unresolveImm] at h'
    | offs _ => simp [unresolveImm] at h'
  | bytess cw bss =>
    simp only [unresolveImm, Option.some.injEq] at h; subst h
    cases r' with
    | bytess cw' bss' =>
      simp only [unresolveImm, Option.some.injEq, Model.AsmFormat.Imm.bytess.injEq] at h'
      obtain ⟨m1, m2⟩ := m
      obtain ⟨m1', m2'⟩ := m'
      have := items_eq_of_snd h'.symm m2 m2'
      subst this
      rw [m1, m1']
    | byte _ => simp [unresolveImm] at h'
    | uint _ _ => simp [unresolveImm] at h'
    | bytes _ _ => simp [unresolveImm] at h'
    | ints _ _ => simp [unresolveImm] at h'
    | off2 _ => simp [unresolveImm] at h'
    | voff _ _ => simp [unresolveImm] at h'
    | offs _ => simp [unresolveImm] at h'
  | off2 o =>
    simp only [unresolveImm, Option.map_eq_some_iff] at h
    obtain ⟨t, h1, rfl⟩ := h
    cases r' with
    | off2 o' =>
      simp only [unresolveImm, Option.map_eq_some_iff, Model.AsmFormat.Imm.label.injEq] at h'
      obtain ⟨t', h2, rfl⟩ := h'
      rw [off_eq_of_idx h1 h2]
    | byte _ => simp [unresolveImm] at h'
    | uint _ _ => simp [unresolveImm] at h'
    | bytes _ _ => simp [unresolveImm] at h'
    | ints _ _ => simp [unresolveImm] at h'
    | bytess _ _ => simp [unresolveImm] at h'
    | voff _ _ => simp [unresolveImm] at h'
    | offs _ => simp [unresolveImm] at h'
  | voff o w =>
    simp only [unresolveImm, Option.map_eq_some_iff] at h
    obtain ⟨t, h1, rfl⟩ := h
    cases r' with
    | voff o' w' =>
      simp only [unresolveImm, Option.map_eq_some_iff, Model.AsmFormat.Imm.vlabel.injEq] at h'
      obtain ⟨t', h2, rfl⟩ := h'
      obtain ⟨a1, a2⟩ := idxOfPos_inv h1
      obtain ⟨b1, b2⟩ := idxOfPos_inv h2
      rw [a2] at b2
      simp only [Option.some.injEq] at b2
      simp only [RImmMin] at m m'
      have : o = o' := by
        by_cases ho : o < 0 <;> by_cases ho' : o' < 0 <;> simp only [ho, ho', if_true, if_false] at a1 b1 b2 <;> omega
      subst this
      rw [m, m']
    | byte _ => simp [unresolveImm] at h'
    | uint _ _ => simp [unresolveImm] at h'
    | bytes _ _ => simp [unresolveImm] at h'
    | ints _ _ => simp [unresolveImm] at h'
    | bytess _ _ => simp [unresolveImm] at h'
    | off2 _ => simp [unresolveImm] at h'
    | offs _ => simp [unresolveImm] at h'
  | offs os =>
    simp only [unresolveImm, Option.map_eq_some_iff] at h
    obtain ⟨ts, h1, rfl⟩ := h
    cases r' with
    | offs os' =>
      simp only [unresolveImm, Option.map_eq_some_iff, Model.AsmFormat.Imm.labels.injEq] at h'
      obtain ⟨ts', h2, rfl⟩ := h'
      rw [unresolveOffs_inj h1 h2]
    | byte _ => simp [unresolveImm] at h'
    | uint _ _ => simp [unresolveImm] at h'
    | bytes _ _ => simp [unresolveImm] at h'
    | ints _ _ => simp [unresolveImm] at h'
    | bytess _ _ => simp [unresolveImm] at h'
    | off2 _ => simp [unresolveImm] at h'
    | voff _ _ => simp [unresolveImm] at h'

theorem unresolveImms_inj {S : List Nat} {p e : Nat} (hpe : p < e) : ∀ {rs rs' : List RImm} {ims : List Model.AsmFormat.Imm},
    unresolveImms S p e rs = some ims → unresolveImms S p e rs' = some ims →
    (∀ r ∈ rs, RImmMin r) → (∀ r ∈ rs', RImmMin r) → rs = rs'
  | [], [], _, _, _, _, _ => rfl
  | [], r' :: rs', ims, h, h', _, _ => by
    simp only [unresolveImms, Option.some.injEq] at h; subst h
    simp only [unresolveImms] at h'
    split at h' <;> simp at h'
  | r :: rs, [], ims, h, h', _, _ => by
    simp only [unresolveImms, Option.some.injEq] at h'; subst h'
    simp only [unresolveImms] at h
    split at h <;> simp at h
  | r :: rs, r' :: rs', ims, h, h', m, m' => by
    simp only [unresolveImms] at h h'
    cases h1 : unresolveImm S p e r with
    | none => simp [h1] at h
    | some i =>
      cases h2 : unresolveImms S p e rs with
      | none => simp [h1, h2] at h
      | some tl =>
        simp only [h1, h2, Option.some.injEq] at h
        subst h
        cases h3 : unresolveImm S p e r' with
        | none => simp [h3] at h'
        | some i' =>
          cases h4 : unresolveImms S p e rs' with
          | none => simp [h3, h4] at h'
          | some tl' =>
            simp only [h3, h4, Option.some.injEq, List.cons.injEq] at h'
            obtain ⟨rfl, rfl⟩ := h'
            rw [unresolveImm_inj hpe h1 h3 (m r List.mem_cons_self) (m' r' List.mem_cons_self),
              unresolveImms_inj hpe h2 h4 (fun q hq => m q (List.mem_cons_of_mem _ hq))
                (fun q hq => m' q (List.mem_cons_of_mem _ hq))]

theorem unresolveGo_inj {S : List Nat} (hS : S.Pairwise (· < ·)) : ∀ {rs rs' : List RInstr} {k : Nat} {is : List Instr},
    unresolveGo S k rs = some is → unresolveGo S k rs' = some is → RawMin rs → RawMin rs' → rs = rs'
  | [], [], _, _, _, _, _, _ => rfl
  | [], r' :: rs', k, is, h, h', _, _ => by
    simp only [unresolveGo, Option.some.injEq] at h; subst h
    simp only [unresolveGo] at h'
    split at h'
    · split at h' <;> simp at h'
    · simp at h'
  | r :: rs, [], k, is, h, h', _, _ => by
    simp only [unresolveGo, Option.some.injEq] at h'; subst h'
    simp only [unresolveGo] at h
    split at h
    · split at h <;> simp at h
    · simp at h
  | r :: rs, r' :: rs', k, is, h, h', m, m' => by
    simp only [unresolveGo] at h h'
    cases hp : S[k]? with
    | none => simp [hp] at h
    | some p =>
      cases he : S[k + 1]? with
      | none => simp [hp, he] at h
      | some e =>
        simp only [hp, he] at h h'
        obtain ⟨hpl, hpp⟩ := getElem?_some_iff.mp hp
        obtain ⟨hel, hee⟩ := getElem?_some_iff.mp he
        have hpe : p < e := by rw [← hpp, ← hee]; exact pairwise_lt_get hS hpl hel (by omega)
        cases h1 : unresolveImms S p e r.imms with
        | none => simp [h1] at h
        | some ims =>
          cases h2 : unresolveGo S (k + 1) rs with
          | none => simp [h1, h2] at h
          | some tl =>
            simp only [h1, h2, Option.some.injEq] at h
            subst h
            cases h3 : unresolveImms S p e r'.imms with
            | none => simp [h3] at h'
            | some ims' =>
              cases h4 : unresolveGo S (k + 1) rs' with
              | none => simp [h3, h4] at h'
              | some tl' =>
                simp only [h3, h4, Option.some.injEq, List.cons.injEq, Instr.mk.injEq] at h'
                obtain ⟨⟨hs, rfl⟩, rfl⟩ := h'
                have e1 := unresolveImms_inj hpe h1 h3 (m r List.mem_cons_self) (m' r' List.mem_cons_self)
                have e2 := unresolveGo_inj hS h2 h4 (fun q hq => m q (List.mem_cons_of_mem _ hq))
                  (fun q hq => m' q (List.mem_cons_of_mem _ hq))
                cases r; cases r'
                simp only at hs e1
                subst hs e1 e2
                rfl

/-- resolution produces minimal raw immediates -/
theorem resolveImm_min {v bb : Nat} {S : List Nat} {total k w e : Nat} {im : Model.AsmFormat.Imm} {r : RImm}
    (h : resolveImm v bb S total k w e im = .ok r) : RImmMin r := by
  cases im with
  | byte b => simp only [resolveImm, Except.ok.injEq] at h; subst h; trivial
  | uint x => simp only [resolveImm, Except.ok.injEq] at h; subst h; rfl
  | bytes bs => simp only [resolveImm, Except.ok.injEq] at h; subst h; rfl
  | ints vs =>
    simp only [resolveImm, Except.ok.injEq] at h; subst h
    refine ⟨by simp, ?_⟩
    intro p hp
    obtain ⟨x, _, rfl⟩ := List.mem_map.mp hp
    rfl
  | bytess bss =>
    simp only [resolveImm, Except.ok.injEq] at h; subst h
    refine ⟨by simp, ?_⟩
    intro p hp
    obtain ⟨x, _, rfl⟩ := List.mem_map.mp hp
    rfl
  | label t =>
    simp only [resolveImm] at h
    cases h1 : off2Of v bb S total e t with
    | error x => simp [h1] at h
    | ok o => simp only [h1, Except.ok.injEq] at h; subst h; trivial
  | labels ts =>
    simp only [resolveImm] at h
    cases h1 : off2sOf v bb S total e ts with
    | error x => simp [h1] at h
    | ok o => simp only [h1, Except.ok.injEq] at h; subst h; trivial
  | vlabel t =>
    simp only [resolveImm] at h
    cases hd : S[t]? with
    | none => simp [hd] at h
    | some d =>
      simp only [hd] at h
      split at h
      · cases h
      · split at h
        · cases h
        · cases hj : vjump S k t with
          | none => simp [hj] at h
          | some j =>
            simp only [hj] at h
            split at h
            · cases h
            · split at h
              · cases h
              · simp only [Except.ok.injEq] at h; subst h
                simp only [RImmMin]; omega

theorem resolveImms_min {v bb : Nat} {S : List Nat} {total k w e : Nat} : ∀ {ims : List Model.AsmFormat.Imm} {rs : List RImm},
    resolveImms v bb S total k w e ims = .ok rs → ∀ r ∈ rs, RImmMin r
  | [], rs, h => by simp only [resolveImms, Except.ok.injEq] at h; subst h; simp
  | im :: ims, rs, h => by
    simp only [resolveImms] at h
    cases h1 : resolveImm v bb S total k w e im with
    | error x => simp [h1] at h
    | ok r =>
      simp only [h1] at h
      cases h2 : resolveImms v bb S total k w e ims with
      | error x => simp [h2] at h
      | ok rs' =>
        simp only [h2, Except.ok.injEq] at h; subst h
        intro q hq
        rcases List.mem_cons.mp hq with rfl | hq
        · exact resolveImm_min h1
        · exact resolveImms_min h2 q hq

theorem resolveGo_min {v bb : Nat} {S : List Nat} {total : Nat} : ∀ {xs : List (Instr × Nat)} {k : Nat} {rs : List RInstr},
    resolveGo v bb S total k xs = .ok rs → RawMin rs
  | [], k, rs, h => by simp only [resolveGo, Except.ok.injEq] at h; subst h; simp [RawMin]
  | (i, w) :: xs, k, rs, h => by
    simp only [resolveGo] at h
    cases he : S[k + 1]? with
    | none => simp [he] at h
    | some e =>
      simp only [he] at h
      cases h1 : resolveImms v bb S total k w e i.imms with
      | error x => simp [h1] at h
      | ok ims =>
        simp only [h1] at h
        cases h2 : resolveGo v bb S total (k + 1) xs with
        | error x => simp [h2] at h
        | ok rs' =>
          simp only [h2, Except.ok.injEq] at h; subst h
          intro r hr
          rcases List.mem_cons.mp hr with rfl | hr
          · exact resolveImms_min h1
          · exact resolveGo_min h2 r hr

/-- a decoded immediate with minimal widths is a well-formed immediate of its kind -/
theorem decoded_immOK {S : List Nat} {p e k : Nat} {r : RImm} {im : Model.AsmFormat.Imm}
    (hk : RImmOK k r) (hm : RImmMin r) (h : unresolveImm S p e r = some im) : ImmOK k im := by
  cases r with
  | byte b => simp only [unresolveImm, Option.some.injEq] at h; subst h; exact hk
  | uint v w =>
    simp only [unresolveImm, Option.some.injEq] at h; subst h
    obtain ⟨rfl, ok⟩ := hk
    simp only [RImmMin] at hm; subst hm
    exact ⟨rfl, ok⟩
  | bytes lw bs =>
    simp only [unresolveImm, Option.some.injEq] at h; subst h
    obtain ⟨rfl, ok⟩ := hk
    simp only [RImmMin] at hm; subst hm
    exact ⟨rfl, ok⟩
  | ints cw vs =>
    simp only [unresolveImm, Option.some.injEq] at h; subst h
    obtain ⟨rfl, ok, oks⟩ := hk
    obtain ⟨m1, m2⟩ := hm
    subst m1
    refine ⟨rfl, by simpa [Fits] using ok, ?_⟩
    intro v hv
    obtain ⟨q, hq, rfl⟩ := List.mem_map.mp hv
    have := oks q hq
    rw [m2 q hq] at this
    exact this
  | bytess cw bss =>
    simp only [unresolveImm, Option.some.injEq] at h; subst h
    obtain ⟨rfl, ok, oks⟩ := hk
    obtain ⟨m1, m2⟩ := hm
    subst m1
    refine ⟨rfl, by simpa [Fits] using ok, ?_⟩
    intro b hb
    obtain ⟨q, hq, rfl⟩ := List.mem_map.mp hb
    have := oks q hq
    rw [m2 q hq] at this
    exact this
  | off2 o =>
    simp only [unresolveImm, Option.map_eq_some_iff] at h
    obtain ⟨t, _, rfl⟩ := h
    exact hk.1
  | voff o w =>
    simp only [unresolveImm, Option.map_eq_some_iff] at h
    obtain ⟨t, _, rfl⟩ := h
    exact hk.1
  | offs os =>
    simp only [unresolveImm, Option.map_eq_some_iff] at h
    obtain ⟨t, _, rfl⟩ := h
    exact hk.1

theorem decoded_immsOK {S : List Nat} {p e : Nat} : ∀ {ks : List Nat} {rs : List RImm} {ims : List Model.AsmFormat.Imm},
    RImmsOK ks rs → (∀ r ∈ rs, RImmMin r) → unresolveImms S p e rs = some ims → ImmsOK ks ims
  | [], [], ims, _, _, h => by simp only [unresolveImms, Option.some.injEq] at h; subst h; trivial
  | [], _ :: _, _, hk, _, _ => by simp [RImmsOK] at hk
  | _ :: _, [], _, hk, _, _ => by simp [RImmsOK] at hk
  | k :: ks, r :: rs, ims, hk, hm, h => by
    simp only [unresolveImms] at h
    cases h1 : unresolveImm S p e r with
    | none => simp [h1] at h
    | some i =>
      cases h2 : unresolveImms S p e rs with
      | none => simp [h1, h2] at h
      | some tl =>
        simp only [h1, h2, Option.some.injEq] at h; subst h
        exact ⟨decoded_immOK hk.1 (hm r List.mem_cons_self) h1,
          decoded_immsOK hk.2 (fun q hq => hm q (List.mem_cons_of_mem _ hq)) h2⟩

theorem decoded_instrsOK {look : Nat → Option Nat → Option Spec} {S : List Nat} : ∀ {rs : List RInstr} {k : Nat} {is : List Instr},
    (∀ r ∈ rs, Reg look r.spec ∧ RImmsOK (kindsOf r.spec) r.imms) → RawMin rs → unresolveGo S k rs = some is →
    ∀ i ∈ is, InstrOK look i
  | [], k, is, _, _, h => by simp only [unresolveGo, Option.some.injEq] at h; subst h; simp
  | r :: rs, k, is, hk, hm, h => by
    simp only [unresolveGo] at h
    cases hp : S[k]? with
    | none => simp [hp] at h
    | some p =>
      cases he : S[k + 1]? with
      | none => simp [hp, he] at h
      | some e =>
        simp only [hp, he] at h
        cases h1 : unresolveImms S p e r.imms with
        | none => simp [h1] at h
        | some ims =>
          cases h2 : unresolveGo S (k + 1) rs with
          | none => simp [h1, h2] at h
          | some tl =>
            simp only [h1, h2, Option.some.injEq] at h; subst h
            intro i hi
            rcases List.mem_cons.mp hi with rfl | hi
            · obtain ⟨a, b⟩ := hk r List.mem_cons_self
              exact ⟨a, decoded_immsOK b (hm r List.mem_cons_self) h1⟩
            · exact decoded_instrsOK (fun q hq => hk q (List.mem_cons_of_mem _ hq))
                (fun q hq => hm q (List.mem_cons_of_mem _ hq)) h2 i hi

end Lemmas.AsmFormat
