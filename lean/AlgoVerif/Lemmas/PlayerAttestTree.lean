import AlgoVerif.Lemmas.PlayerInvHandle
/-!
Tree-side facts of PlayerM needed to link it to the abstract agreement model (C01/C02 deepening, `Props.C01Player`).

The *view* of a period router is what the player's vote decisions read from it:
`proposalTracker.Staging`, whether a soft/cert threshold ever wrote it (`sawSoft ∨ sawCert` of the contract — the Go
`proposalTrackerContract`), and the next-threshold cache `voteTrackerPeriod.Cached`.

`GRoot G` — a generic invariant "every period router of every round satisfies `G round period view`" — is threaded
through every tree operation, jointly with the C03 invariant `QRoot` (which provides `ThreshOK` of the threshold events
that write the view).  `GSpec` lists what `G` must be closed under: an empty router, a soft/cert threshold staging a
value, a next threshold being cached.  Instances (in `PlayerAttestOnce`, `Props.C01Player`):
"staging ≠ 0 only if a threshold staged it", "a staged value has a delivered quorum", "a cached value has a delivered
next quorum".

Read-after-write facts (`PAt`): what `stagedValue` / `nextThresholdStatusRequest` / `pmThreshold` / a committable
`payloadVerified` leave in the tree at the player's own (round, period), and that a `freshestBundleRequest` to the
player's round does not disturb it.
-/
namespace AlgoVerif.Lemmas.PlayerAttest
open AlgoVerif.Model AlgoVerif.Model.Player AlgoVerif.Model.VoteTracker AlgoVerif.Spec.VoteTracker AlgoVerif.Lemmas.Player

/-- what the player's vote decisions read from a period router -/
structure PView where
  staging : Nat
  set : Bool
  cached : NextStatus
deriving DecidableEq, Repr

def pview (pr : PeriodR) : PView :=
  ⟨pr.ptracker.staging, pr.ptContract.sawSoft || pr.ptContract.sawCert, pr.cached⟩

theorem pview_upd (pr : PeriodR) (s : Nat) : pview (pr.upd s) = pview pr := by
  obtain ⟨e1, e2, e3⟩ := PeriodR.upd_fields pr s
  simp only [pview, e1, e2, e3]

theorem pview_empty : pview ({} : PeriodR) = ⟨0, false, {}⟩ := rfl

/-- the period router the tree holds for (r, p) -/
def PAt (root : Root) (r p : Nat) (pr : PeriodR) : Prop :=
  ∃ rr, aget root.rounds r = some rr ∧ aget rr.periods p = some pr

/-- executable form: the view the tree holds for (r, p) -/
def viewAt (root : Root) (r p : Nat) : Option PView :=
  (aget root.rounds r).bind (fun rr => (aget rr.periods p).map pview)

theorem viewAt_of_PAt {root : Root} {r p : Nat} {pr : PeriodR} (h : PAt root r p pr) : viewAt root r p = some (pview pr) := by
  obtain ⟨rr, h1, h2⟩ := h
  simp [viewAt, h1, h2]

/-- a threshold event has the kind of its step (`voteTracker`: `eventKind`), and a soft / cert threshold is never for
bottom (`voteTrackerContract.post`) -/
def KindOK (e : Thresh) : Prop :=
  e.kind = 0 ∨ (e.kind = 1 ∧ e.step = 1 ∧ e.proposal ≠ 0) ∨ (e.kind = 2 ∧ e.step = 2 ∧ e.proposal ≠ 0) ∨
    (e.kind = 3 ∧ e.step ≠ 1 ∧ e.step ≠ 2)

theorem kindOK_empty : KindOK {} := Or.inl rfl

variable (P : Params) (good : Nat → Nat → Nat → Vote → Bool) (G : Nat → Nat → PView → Prop)

/-- closure conditions of a view invariant -/
structure GSpec : Prop where
  empty : ∀ r p, G r p ⟨0, false, {}⟩
  stage : ∀ r p vw (e : Thresh), G r p vw → ThreshOK P good r e → KindOK e → e.kind = 1 ∨ e.kind = 2 → e.period = p →
    G r p ⟨e.proposal, true, vw.cached⟩
  cache : ∀ r p vw (e : Thresh), G r p vw → ThreshOK P good r e → e.kind ≠ 0 → e.step ≥ 3 → e.period = p →
    G r p ⟨vw.staging, vw.set, vw.cached.cache e.proposal⟩

def GR (r : Nat) (rr : RoundR) : Prop := (∀ kv ∈ rr.periods, G r kv.1 (pview kv.2)) ∧ KindOK rr.freshest
def GRoot (root : Root) : Prop := ∀ kv ∈ root.rounds, GR G kv.1 kv.2

variable {P good G}

theorem GRoot_empty : GRoot G ({} : Root) := by intro kv h; exact (List.not_mem_nil h).elim

theorem GR_upd (hs : GSpec P good G) {pl : PlayerF} {r p : Nat} {rr : RoundR} (h : GR G r rr) : GR G r (rr.upd pl p) := by
  obtain ⟨_, e2, _⟩ := RoundR.upd_fields pl rr p
  refine ⟨?_, e2 ▸ h.2⟩
  intro kv hkv
  rcases RoundR.upd_periods_mem hkv with h' | h'
  · exact h.1 kv h'
  · subst h'; exact hs.empty r p

theorem GRoot_upd (hs : GSpec P good G) {pl : PlayerF} {r : Nat} {root : Root} (h : GRoot G root) :
    GRoot G (root.upd P pl r) := by
  intro kv hkv
  rcases Root.upd_rounds_mem hkv with h' | h'
  · exact h kv h'
  · subst h'; exact ⟨by intro kv' h''; exact (List.not_mem_nil h'').elim, kindOK_empty⟩

/-! ### zoom combinators, jointly with `QRoot` -/

theorem both_atPeriod {α : Type} {R : PeriodR → α → Prop} (hs : GSpec P good G) {pl : PlayerF} {r p s : Nat}
    {rr rr' : RoundR} {a : α} {f : PeriodR → Except Panic (PeriodR × α)}
    (hQ : QR P good r rr) (hG : GR G r rr)
    (hf : ∀ pr pr' a, QP good r p pr → G r p (pview pr) → f pr = .ok (pr', a) → G r p (pview pr') ∧ R pr' a)
    (h : rr.atPeriod pl p s f = .ok (rr', a)) :
    GR G r rr' ∧ ∃ pr', aget rr'.periods p = some pr' ∧ R pr' a := by
  unfold RoundR.atPeriod at h
  simp only [] at h
  split at h
  · cases h
  · rename_i pr hpr
    split at h
    · cases h
    · rename_i pr' a' hfa
      simp only [Except.ok.injEq, Prod.mk.injEq] at h
      obtain ⟨rfl, rfl⟩ := h
      have hupQ := QR_upd P good (pl := pl) (p := p) hQ
      have hupG := GR_upd hs (pl := pl) (p := p) hG
      have hprQ : QP good r p pr := hupQ.1 (p, pr) (aget_mem hpr)
      have hprG : G r p (pview pr) := hupG.1 (p, pr) (aget_mem hpr)
      obtain ⟨h1, h2⟩ := hf (pr.upd s) pr' a' (QP_upd good hprQ) (by rw [pview_upd]; exact hprG) hfa
      refine ⟨⟨?_, hupG.2⟩, pr', aget_aset_self _ _ _, h2⟩
      intro kv hkv
      rcases mem_aset hkv with h' | h'
      · exact hupG.1 kv h'
      · subst h'; exact h1

theorem both_atRound {α : Type} {R : RoundR → α → Prop} (hs : GSpec P good G) {pl : PlayerF} {r p : Nat}
    {root root' : Root} {a : α} {f : RoundR → Except Panic (RoundR × α)}
    (hQ : QRoot P good root) (hG : GRoot G root)
    (hf : ∀ rr rr' a, QR P good r rr → GR G r rr → f rr = .ok (rr', a) → GR G r rr' ∧ R rr' a)
    (h : root.atRound P pl r p f = .ok (root', a)) :
    GRoot G root' ∧ ∃ rr', aget root'.rounds r = some rr' ∧ R rr' a := by
  unfold Root.atRound at h
  simp only [] at h
  split at h
  · cases h
  · rename_i rr hrr
    split at h
    · cases h
    · rename_i rr' a' hfa
      simp only [Except.ok.injEq, Prod.mk.injEq] at h
      obtain ⟨rfl, rfl⟩ := h
      have hupQ := QRoot_upd P good (pl := pl) (r := r) hQ
      have hupG := GRoot_upd hs (pl := pl) (r := r) hG
      have hrrQ : QR P good r rr := hupQ (r, rr) (aget_mem hrr)
      have hrrG : GR G r rr := hupG (r, rr) (aget_mem hrr)
      obtain ⟨h1, h2⟩ := hf (rr.upd pl p) rr' a' (QR_upd P good hrrQ) (GR_upd hs hrrG) hfa
      refine ⟨?_, rr', aget_aset_self _ _ _, h2⟩
      intro kv hkv
      rcases mem_aset hkv with h' | h'
      · exact hupG kv h'
      · subst h'; exact h1

theorem both_lift {α : Type} {R : RoundR → α → Prop} (hs : GSpec P good G) {σ σ' : State} {r p : Nat}
    {f : RoundR → Except Panic (RoundR × α)} {a : α}
    (hQ : QRoot P good σ.root) (hG : GRoot G σ.root)
    (hf : ∀ rr rr' a, QR P good r rr → GR G r rr → f rr = .ok (rr', a) → GR G r rr' ∧ R rr' a)
    (h : liftRoot σ (σ.root.atRound P σ.pl r p f) = .ok (σ', a)) :
    GRoot G σ'.root ∧ (∃ rr', aget σ'.root.rounds r = some rr' ∧ R rr' a) ∧ σ'.pl = σ.pl := by
  unfold liftRoot at h
  split at h
  · cases h
  · rename_i x' root a' hx
    simp only [Except.ok.injEq, Prod.mk.injEq] at h
    obtain ⟨rfl, rfl⟩ := h
    obtain ⟨h1, h2⟩ := both_atRound hs hQ hG hf hx
    exact ⟨h1, h2, rfl⟩

/-- a period-level function that leaves the view alone -/
theorem both_atPeriod_keep {α : Type} {R : PeriodR → α → Prop} (hs : GSpec P good G) {pl : PlayerF} {r p s : Nat}
    {rr rr' : RoundR} {a : α} {f : PeriodR → Except Panic (PeriodR × α)}
    (hQ : QR P good r rr) (hG : GR G r rr)
    (hf : ∀ pr pr' a, f pr = .ok (pr', a) → pview pr' = pview pr ∧ R pr' a)
    (h : rr.atPeriod pl p s f = .ok (rr', a)) :
    GR G r rr' ∧ ∃ pr', aget rr'.periods p = some pr' ∧ R pr' a :=
  both_atPeriod hs hQ hG (fun pr pr' a _ hg hfa => ⟨(hf pr pr' a hfa).1 ▸ hg, (hf pr pr' a hfa).2⟩) h

/-! ### queries -/

theorem readStaging_g (hs : GSpec P good G) {pl : PlayerF} {r p : Nat} {rr rr' : RoundR} {st : Staged}
    (hQ : QR P good r rr) (hG : GR G r rr) (h : rr.readStaging pl p = .ok (rr', st)) :
    GR G r rr' ∧ ∃ pr', aget rr'.periods p = some pr' ∧ pr'.ptracker.staging = st.proposal := by
  unfold RoundR.readStaging at h
  split at h
  · cases h
  rename_i rr₁ v hat
  simp only [Except.ok.injEq, Prod.mk.injEq] at h
  obtain ⟨rfl, rfl⟩ := h
  exact both_atPeriod_keep (R := fun pr' v => pr'.ptracker.staging = v) hs hQ hG (fun pr pr' a hf => by
    simp only [Except.ok.injEq, Prod.mk.injEq] at hf
    obtain ⟨rfl, rfl⟩ := hf
    exact ⟨rfl, rfl⟩) hat

theorem stagedSelf_g (hs : GSpec P good G) {pl : PlayerF} {r : Nat} {rr rr' : RoundR} {st : Staged}
    (hQ : QR P good r rr) (hG : GR G r rr) (h : RoundR.stagedSelf pl rr = .ok (rr', st)) :
    GR G r rr' ∧ ∃ pr', aget rr'.periods pl.period = some pr' ∧ pr'.ptracker.staging = st.proposal := by
  unfold RoundR.stagedSelf at h
  exact readStaging_g hs (QR_upd P good hQ) (GR_upd hs hG) h

theorem staged_g (hs : GSpec P good G) {σ σ' : State} {r p : Nat} {st : Staged}
    (hQ : QRoot P good σ.root) (hG : GRoot G σ.root) (h : staged P σ r p = .ok (σ', st)) :
    GRoot G σ'.root ∧ (∃ pr, PAt σ'.root r p pr ∧ pr.ptracker.staging = st.proposal) ∧ σ'.pl = σ.pl := by
  rw [staged_eq] at h
  obtain ⟨h1, ⟨rr', hrr', pr', hpr', hst⟩, h3⟩ := both_lift hs hQ hG
    (fun rr rr' a hq hg hf => readStaging_g hs hq hg hf) h
  exact ⟨h1, ⟨pr', ⟨rr', hrr', hpr'⟩, hst⟩, h3⟩

theorem pinned_g (hs : GSpec P good G) {σ σ' : State} {r : Nat} {st : Staged}
    (hQ : QRoot P good σ.root) (hG : GRoot G σ.root) (h : pinned P σ r = .ok (σ', st)) :
    GRoot G σ'.root ∧ σ'.pl = σ.pl := by
  rw [pinned_eq] at h
  obtain ⟨h1, _, h3⟩ := both_lift (R := fun _ _ => True) hs hQ hG (fun rr rr' a hq hg hf => by
    simp only [Except.ok.injEq, Prod.mk.injEq] at hf
    obtain ⟨rfl, _⟩ := hf
    exact ⟨hg, trivial⟩) h
  exact ⟨h1, h3⟩

theorem freshest_g (hs : GSpec P good G) {σ σ' : State} {r : Nat} {res : Bool × Thresh}
    (hQ : QRoot P good σ.root) (hG : GRoot G σ.root) (h : freshest P σ r = .ok (σ', res)) :
    GRoot G σ'.root ∧ KindOK res.2 ∧ σ'.pl = σ.pl := by
  rw [freshest_eq] at h
  obtain ⟨h1, ⟨_, _, h2⟩, h3⟩ := both_lift (R := fun _ a => KindOK a.2) hs hQ hG (fun rr rr' a hq hg hf => by
    simp only [Except.ok.injEq, Prod.mk.injEq] at hf
    obtain ⟨rfl, rfl⟩ := hf
    exact ⟨hg, hg.2⟩) h
  exact ⟨h1, h2, h3⟩

theorem nextStatus_g (hs : GSpec P good G) {σ σ' : State} {ns : NextStatus}
    (hQ : QRoot P good σ.root) (hG : GRoot G σ.root) (h : nextStatus P σ = .ok (σ', ns)) :
    GRoot G σ'.root ∧ (∃ pr, PAt σ'.root σ.pl.round (predPeriod σ.pl.period) pr ∧ pr.cached = ns) ∧ σ'.pl = σ.pl := by
  rw [nextStatus_eq] at h
  obtain ⟨h1, ⟨rr', hrr', pr', hpr', hst⟩, h3⟩ := both_lift
    (R := fun rr' ns => ∃ pr', aget rr'.periods (predPeriod σ.pl.period) = some pr' ∧ pr'.cached = ns) hs hQ hG
    (fun rr rr' a hq hg hf => both_atPeriod_keep (R := fun pr' ns => pr'.cached = ns) hs hq hg (fun pr pr' a hf => by
      simp only [Except.ok.injEq, Prod.mk.injEq] at hf
      obtain ⟨rfl, rfl⟩ := hf
      exact ⟨rfl, rfl⟩) hf) h
  exact ⟨h1, ⟨pr', ⟨rr', hrr', hpr'⟩, hst⟩, h3⟩

/-- a query that goes down to a period machine and leaves the view alone -/
theorem periodQuery_g {α : Type} (hs : GSpec P good G) {σ σ' : State} {r p s : Nat}
    {f : PeriodR → Except Panic (PeriodR × α)} {a : α}
    (hQ : QRoot P good σ.root) (hG : GRoot G σ.root)
    (hf : ∀ pr pr' a, f pr = .ok (pr', a) → pview pr' = pview pr)
    (h : σ.root.atRound P σ.pl r p (fun rr => rr.atPeriod σ.pl p s f) = .ok (σ'.root, a)) :
    GRoot G σ'.root :=
  (both_atRound (R := fun _ _ => True) hs hQ hG (fun rr rr' a hq hg hfr =>
    ⟨(both_atPeriod_keep (R := fun _ _ => True) hs hq hg (fun pr pr' a hfp => ⟨hf pr pr' a hfp, trivial⟩) hfr).1, trivial⟩) h).1

theorem atStep_pview {α : Type} {pr pr' : PeriodR} {s : Nat} {a : α} {f : StepR → Except Panic (StepR × α)}
    (h : pr.atStep s f = .ok (pr', a)) : pview pr' = pview pr := by
  unfold PeriodR.atStep at h
  simp only [] at h
  split at h
  · cases h
  · split at h
    · cases h
    · simp only [Except.ok.injEq, Prod.mk.injEq] at h
      obtain ⟨rfl, _⟩ := h
      exact pview_upd pr s

theorem freeze_pview {pr pr' : PeriodR} {v : Nat} (h : pr.freeze = .ok (pr', v)) : pview pr' = pview pr := by
  unfold PeriodR.freeze at h
  split at h
  · cases h
  split at h
  · cases h
  simp only [Except.ok.injEq, Prod.mk.injEq] at h
  obtain ⟨rfl, _⟩ := h
  rfl

theorem pvoteVerified_pview {pr pr' : PeriodR} {v : PVote} {res : PVRes} (h : pr.pvoteVerified v = .ok (pr', res)) :
    pview pr' = pview pr := by
  unfold PeriodR.pvoteVerified at h
  simp only [] at h
  split at h
  · cases h
  · simp only [Except.ok.injEq, Prod.mk.injEq] at h
    obtain ⟨rfl, _⟩ := h
    unfold PTracker.voteVerified
    simp only [pview]
    repeat' split
    all_goals rfl

theorem freezeProposal_g (hs : GSpec P good G) {σ σ' : State} {v : Nat}
    (hQ : QRoot P good σ.root) (hG : GRoot G σ.root) (h : freezeProposal P σ = .ok (σ', v)) :
    GRoot G σ'.root ∧ σ'.pl = σ.pl := by
  rw [freezeProposal_eq] at h
  unfold liftRoot at h
  split at h
  · cases h
  rename_i x root a hx
  simp only [Except.ok.injEq, Prod.mk.injEq] at h
  obtain ⟨rfl, rfl⟩ := h
  exact ⟨periodQuery_g (σ' := ⟨σ.pl, root⟩) hs hQ hG (fun pr pr' a hf => freeze_pview hf) hx, rfl⟩

theorem credHistoryTouch_g (hs : GSpec P good G) {σ σ' : State}
    (hQ : QRoot P good σ.root) (hG : GRoot G σ.root) (h : credHistoryTouch P σ = .ok σ') :
    GRoot G σ'.root ∧ σ'.pl = σ.pl := by
  unfold credHistoryTouch at h
  split at h
  · cases h; exact ⟨hG, rfl⟩
  split at h
  · cases h; exact ⟨hG, rfl⟩
  simp only [] at h
  split at h
  · cases h
  rename_i _ root hx
  simp only [Except.ok.injEq] at h
  subst h
  exact ⟨periodQuery_g (σ' := ⟨σ.pl, root⟩) hs hQ hG (fun pr pr' a hf => by
    simp only [Except.ok.injEq, Prod.mk.injEq] at hf
    rw [← hf.1]) hx, rfl⟩

theorem dumpVotes_g (hs : GSpec P good G) {σ σ' : State} {s : Nat} {vs : List UVote}
    (hQ : QRoot P good σ.root) (hG : GRoot G σ.root) (h : dumpVotes P σ s = .ok (σ', vs)) :
    GRoot G σ'.root ∧ σ'.pl = σ.pl := by
  unfold dumpVotes at h
  simp only [] at h
  split at h
  · cases h
  rename_i root a hx
  simp only [Except.ok.injEq, Prod.mk.injEq] at h
  obtain ⟨rfl, _⟩ := h
  exact ⟨periodQuery_g (σ' := ⟨σ.pl, root⟩) hs hQ hG (fun pr pr' a hf => atStep_pview hf) hx, rfl⟩

/-! ### proposalManager -/

theorem newPeriod_g (hs : GSpec P good G) {pl : PlayerF} {r : Nat} {rr rr' : RoundR} {target starting : Nat}
    (hQ : QR P good r rr) (hG : GR G r rr) (h : rr.newPeriod pl target starting = .ok (rr', ())) : GR G r rr' := by
  unfold RoundR.newPeriod at h
  split at h
  · cases h
  rename_i rr₁ staged hst
  simp only [Except.ok.injEq, Prod.mk.injEq] at h
  obtain ⟨rfl, _⟩ := h
  exact (stagedSelf_g hs hQ hG hst).1

theorem pmNewPeriod_g (hs : GSpec P good G) {σ σ' : State} {e : Thresh}
    (hQ : QRoot P good σ.root) (hG : GRoot G σ.root) (h : pmNewPeriod P σ e = .ok σ') :
    GRoot G σ'.root ∧ σ'.pl = σ.pl := by
  unfold pmNewPeriod at h
  simp only [] at h
  split at h
  · cases h
  rename_i root u hx
  simp only [Except.ok.injEq] at h
  subst h
  exact ⟨(both_atRound (R := fun _ _ => True) hs hQ hG
    (fun rr rr' a hq hg hfr => ⟨newPeriod_g hs hq hg hfr, trivial⟩) hx).1, rfl⟩

theorem stage_pview {pr pr' : PeriodR} {kind value : Nat} (h : pr.stage kind value = .ok (pr', ())) :
    pview pr' = ⟨value, true, pr.cached⟩ := by
  unfold PeriodR.stage at h
  split at h
  · cases h
  simp only [Except.ok.injEq, Prod.mk.injEq] at h
  obtain ⟨rfl, _⟩ := h
  simp only [pview]
  split <;> simp

theorem threshold_g (hs : GSpec P good G) {pl : PlayerF} {r : Nat} {rr rr' : RoundR} {e : Thresh}
    {c : Option (Nat × Option PVote)} (hQ : QR P good r rr) (hG : GR G r rr) (he : ThreshOK P good r e)
    (hkind : KindOK e) (hk : e.kind = 1 ∨ e.kind = 2) (h : rr.threshold pl e = .ok (rr', c)) :
    GR G r rr' ∧ (∃ pr', aget rr'.periods e.period = some pr' ∧ (pview pr').set = true ∧ (pview pr').staging = e.proposal) ∧
      (∀ v a, c = some (v, a) → v = e.proposal) := by
  unfold RoundR.threshold at h
  split at h
  · cases h
  rename_i rr₁ hat
  obtain ⟨h1, pr', hpr', hv⟩ := both_atPeriod (R := fun pr' _ => (pview pr').set = true ∧ (pview pr').staging = e.proposal)
    hs hQ hG (fun pr pr' a _ hg hf => by
      have := stage_pview hf
      rw [this]
      exact ⟨hs.stage r e.period (pview pr) e hg he hkind hk rfl, rfl, rfl⟩) hat
  simp only [] at h
  split at h
  · simp only [Except.ok.injEq, Prod.mk.injEq] at h
    obtain ⟨rfl, rfl⟩ := h
    refine ⟨h1, ⟨pr', hpr', hv⟩, ?_⟩
    intro v a hc
    simp only [Option.some.injEq, Prod.mk.injEq] at hc
    exact hc.1.symm
  · simp only [Except.ok.injEq, Prod.mk.injEq] at h
    obtain ⟨rfl, rfl⟩ := h
    exact ⟨h1, ⟨pr', hpr', hv⟩, by intro v a hc; cases hc⟩

theorem GRoot_updσ (hs : GSpec P good G) {σ : State} (r : Nat) (hG : GRoot G σ.root) :
    GRoot G ({ σ with root := σ.root.upd P σ.pl r } : State).root := GRoot_upd hs hG

theorem pmThreshold_g (hs : GSpec P good G) {σ σ' : State} {rt : Nat} {e : Thresh} {c : Option (Nat × Option PVote)}
    (hQ : QRoot P good σ.root) (hG : GRoot G σ.root) (he : ThreshValid P good e) (hkind : KindOK e) (hk0 : e.kind ≠ 0)
    (h : pmThreshold P σ rt e = .ok (σ', c)) :
    GRoot G σ'.root ∧ σ'.pl = σ.pl ∧ σ.pl.round = e.round ∧
      (e.kind ≠ 3 → ∃ pr, PAt σ'.root e.round e.period pr ∧ (pview pr).set = true ∧ (pview pr).staging = e.proposal) ∧
      (∀ v a, c = some (v, a) → v = e.proposal ∧ e.kind ≠ 3) := by
  unfold pmThreshold at h
  simp only [] at h
  split at h
  · cases h
  rename_i hround
  have hround : σ.pl.round = e.round := by simpa using hround
  split at h
  · cases h
  split at h
  · cases h
  have hQ₀ := QRoot_updσ P good rt hQ
  have hG₀ := GRoot_updσ hs rt hG
  split at h
  · rename_i hk
    split at h
    · cases h
    rename_i σ₁ hnp
    simp only [Except.ok.injEq, Prod.mk.injEq] at h
    obtain ⟨rfl, rfl⟩ := h
    obtain ⟨h1, h2⟩ := pmNewPeriod_g hs (σ := { σ with root := σ.root.upd P σ.pl rt }) hQ₀ hG₀ hnp
    exact ⟨h1, h2, hround, fun hne => absurd hk hne, by intro v a hc; cases hc⟩
  · rename_i hk
    split at h
    · cases h
    rename_i σ₁ hσ₁
    have hQG₁ : QRoot P good σ₁.root ∧ GRoot G σ₁.root ∧ σ₁.pl = σ.pl := by
      split at hσ₁
      · obtain ⟨a1, a2⟩ := pmNewPeriod_spec P good (σ := { σ with root := σ.root.upd P σ.pl rt }) hQ₀ hσ₁
        obtain ⟨b1, _⟩ := pmNewPeriod_g hs (σ := { σ with root := σ.root.upd P σ.pl rt }) hQ₀ hG₀ hσ₁
        exact ⟨a1, b1, a2⟩
      · simp only [Except.ok.injEq] at hσ₁; subst hσ₁; exact ⟨hQ₀, hG₀, rfl⟩
    split at h
    · cases h
    rename_i root c' hx
    simp only [Except.ok.injEq, Prod.mk.injEq] at h
    obtain ⟨rfl, rfl⟩ := h
    obtain ⟨h1, rr', hrr', hst, hc⟩ := both_atRound
      (R := fun rr' c => (∃ pr', aget rr'.periods e.period = some pr' ∧ (pview pr').set = true ∧ (pview pr').staging = e.proposal) ∧
        (∀ v a, c = some (v, a) → v = e.proposal)) hs hQG₁.1 hQG₁.2.1
      (fun rr rr' a hq hg hfr => threshold_g hs hq hg he hkind (by
        rcases hkind with h0 | ⟨h1, _⟩ | ⟨h2, _⟩ | ⟨h3, _⟩
        · exact absurd h0 hk0
        · exact Or.inl h1
        · exact Or.inr h2
        · exact absurd h3 hk) hfr) hx
    obtain ⟨pr', hpr', hv⟩ := hst
    exact ⟨h1, hQG₁.2.2, hround, fun _ => ⟨pr', ⟨rr', hrr', hpr'⟩, hv⟩, fun v a hcv => ⟨hc v a hcv, hk⟩⟩

theorem pmNewRound_g (hs : GSpec P good G) {σ σ' : State} {target : Nat} {res : PayRes}
    (hQ : QRoot P good σ.root) (hG : GRoot G σ.root) (h : pmNewRound P σ target = .ok (σ', res)) :
    GRoot G σ'.root ∧ σ'.pl = σ.pl := by
  unfold pmNewRound at h
  simp only [] at h
  split at h
  · cases h
  rename_i root a hx
  simp only [Except.ok.injEq, Prod.mk.injEq] at h
  obtain ⟨rfl, _⟩ := h
  exact ⟨(both_atRound (R := fun _ _ => True) hs (QRoot_updσ P good target hQ) (GRoot_updσ hs target hG)
    (fun rr rr' a hq hg hfr => ⟨newRound_spec hfr ▸ hg, trivial⟩) hx).1, rfl⟩

theorem rr_pvoteVerified_g (hs : GSpec P good G) {pl : PlayerF} {r : Nat} {rr rr' : RoundR} {v : PVote} {res : PVRes}
    (hQ : QR P good r rr) (hG : GR G r rr) (h : rr.pvoteVerified pl v = .ok (rr', res)) : GR G r rr' := by
  unfold RoundR.pvoteVerified at h
  split at h
  · cases h
  · rename_i rr₁ b hat
    simp only [Except.ok.injEq, Prod.mk.injEq] at h
    obtain ⟨rfl, _⟩ := h
    exact (both_atPeriod_keep (R := fun _ _ => True) hs hQ hG
      (fun pr pr' a hf => ⟨pvoteVerified_pview hf, trivial⟩) hat).1
  · rename_i rr₁ val pay hat
    simp only [Except.ok.injEq, Prod.mk.injEq] at h
    obtain ⟨rfl, _⟩ := h
    exact (both_atPeriod_keep (R := fun _ _ => True) hs hQ hG
      (fun pr pr' a hf => ⟨pvoteVerified_pview hf, trivial⟩) hat).1

theorem pmVoteVerified_g (hs : GSpec P good G) {σ σ' : State} {bad : Bad} {v : PVote} {res : PMVote}
    (hQ : QRoot P good σ.root) (hG : GRoot G σ.root) (h : pmVoteVerified P σ bad v = .ok (σ', res)) :
    GRoot G σ'.root := by
  unfold pmVoteVerified at h
  simp only [] at h
  have hQ₀ := QRoot_updσ P good 0 hQ
  have hG₀ := GRoot_updσ hs 0 hG
  split at h
  · simp only [Except.ok.injEq, Prod.mk.injEq] at h; obtain ⟨rfl, _⟩ := h; exact hG₀
  split at h
  · simp only [Except.ok.injEq, Prod.mk.injEq] at h; obtain ⟨rfl, _⟩ := h; exact hG₀
  split at h
  · simp only [Except.ok.injEq, Prod.mk.injEq] at h; obtain ⟨rfl, _⟩ := h; exact hG₀
  split at h
  · cases h
  rename_i root res' hx
  have h1 := (both_atRound (R := fun _ _ => True) hs hQ₀ hG₀
    (fun rr rr' a hq hg hfr => ⟨rr_pvoteVerified_g hs hq hg hfr, trivial⟩) hx).1
  repeat' split at h
  all_goals (simp only [Except.ok.injEq, Prod.mk.injEq] at h; obtain ⟨rfl, _⟩ := h; exact h1)

theorem pmVotePresent_g (hs : GSpec P good G) {σ σ' : State} {v : PVote} {res : PMVote}
    (hQ : QRoot P good σ.root) (hG : GRoot G σ.root) (h : pmVotePresent P σ v = .ok (σ', res)) :
    GRoot G σ'.root := by
  have hQ₀ := QRoot_updσ P good 0 hQ
  have hG₀ := GRoot_updσ hs 0 hG
  have hdup : ∀ (τ τ' : State) (d : Bool), QRoot P good τ.root → GRoot G τ.root →
      (match τ.root.atRound P τ.pl v.round v.period (fun rr => rr.atPeriod τ.pl v.period 0 (fun pr => .ok (pr, pr.pvoteDup v.sender))) with
        | .error e => (.error e : Except Panic (State × Bool))
        | .ok (root, d) => .ok ({ τ with root := root }, d)) = .ok (τ', d) → GRoot G τ'.root := by
    intro τ τ' d hq hg hm
    split at hm
    · cases hm
    rename_i root d' hx
    simp only [Except.ok.injEq, Prod.mk.injEq] at hm
    obtain ⟨rfl, _⟩ := hm
    exact periodQuery_g (σ' := ⟨τ.pl, root⟩) hs hq hg (fun pr pr' a hf => by
      simp only [Except.ok.injEq, Prod.mk.injEq] at hf
      rw [← hf.1]) hx
  unfold pmVotePresent at h
  simp only [] at h
  split at h
  · split at h
    · split at h
      · cases h
      rename_i τ' dup hd
      simp only [Except.ok.injEq, Prod.mk.injEq] at h
      obtain ⟨rfl, _⟩ := h
      exact hdup { σ with root := σ.root.upd P σ.pl 0 } _ _ hQ₀ hG₀ hd
    · simp only [Except.ok.injEq, Prod.mk.injEq] at h; obtain ⟨rfl, _⟩ := h; exact hG₀
  · split at h
    · cases h
    rename_i τ' dup hd
    have := hdup { σ with root := σ.root.upd P σ.pl 0 } _ _ hQ₀ hG₀ hd
    split at h <;> (simp only [Except.ok.injEq, Prod.mk.injEq] at h; obtain ⟨rfl, _⟩ := h; exact this)

theorem payloadPresent_GR {r : Nat} (pl : PlayerF) (rr : RoundR) (up : Payload) (h : GR G r rr) :
    GR G r (rr.payloadPresent pl up).1 := by
  unfold RoundR.payloadPresent
  repeat' split
  all_goals exact h

theorem payloadVerified_g (hs : GSpec P good G) {pl : PlayerF} {r : Nat} {rr rr' : RoundR} {pp : Payload} {res : PayRes}
    (hQ : QR P good r rr) (hG : GR G r rr) (hr : pp.round = r) (h : rr.payloadVerified pl pp = .ok (rr', res)) :
    GR G r rr' ∧ (∀ v a, res = .committable v a → v = pp.value ∧
      ∃ pr', aget rr'.periods pl.period = some pr' ∧ pr'.ptracker.staging = v) := by
  unfold RoundR.payloadVerified at h
  split at h
  · simp only [Except.ok.injEq, Prod.mk.injEq] at h; obtain ⟨rfl, rfl⟩ := h
    exact ⟨hG, by intro v a hc; cases hc⟩
  rename_i ea hea
  split at h
  · simp only [Except.ok.injEq, Prod.mk.injEq] at h; obtain ⟨rfl, rfl⟩ := h
    exact ⟨hG, by intro v a hc; cases hc⟩
  simp only [] at h
  split at h
  · cases h
  rename_i rr₁ a hst
  have hQ' : QR P good r { rr with store := { rr.store with assemblers := aset rr.store.assemblers pp.value { ea with payload := some pp } } } := by
    obtain ⟨h1, h2, h3⟩ := hQ
    refine ⟨h1, h2, ?_⟩
    apply asmOK_aset h3
    intro pl' hpl'
    simp only [Option.some.injEq] at hpl'
    subst hpl'
    exact ⟨rfl, hr⟩
  obtain ⟨g1, pr', hpr', hv⟩ := stagedSelf_g hs hQ' (rr := { rr with store := _ }) hG hst
  split at h
  · rename_i heq
    simp only [Except.ok.injEq, Prod.mk.injEq] at h; obtain ⟨rfl, rfl⟩ := h
    refine ⟨g1, ?_⟩
    intro v a' hc
    simp only [PayRes.committable.injEq] at hc
    obtain ⟨rfl, _⟩ := hc
    exact ⟨rfl, pr', hpr', hv.trans heq⟩
  · simp only [Except.ok.injEq, Prod.mk.injEq] at h; obtain ⟨rfl, rfl⟩ := h
    exact ⟨g1, by intro v a' hc; cases hc⟩

theorem pmPayload_g (hs : GSpec P good G) {σ σ' : State} {verified : Bool} {bad : Bad} {p : Payload} {res : PayRes}
    (hQ : QRoot P good σ.root) (hG : GRoot G σ.root)
    (hp : verified = true → bad ≠ 2 → bad ≠ 1 → p.round = σ.pl.round)
    (h : pmPayload P σ verified bad p = .ok (σ', res)) :
    GRoot G σ'.root ∧ (∀ v a, res = .committable v a → v = p.value ∧
      ∃ pr, PAt σ'.root σ.pl.round σ.pl.period pr ∧ pr.ptracker.staging = v) := by
  have hQ₀ := QRoot_updσ P good 0 hQ
  have hG₀ := GRoot_updσ hs 0 hG
  have hpres : ∀ (pl : PlayerF) (rr : RoundR) v a, (rr.payloadPresent pl p).2 ≠ .committable v a := by
    intro pl rr v a
    unfold RoundR.payloadPresent
    repeat' split
    all_goals (intro hc; cases hc)
  unfold pmPayload at h
  simp only [] at h
  split at h
  · split at h
    · split at h
      · cases h
      rename_i root res' hx
      obtain ⟨h1, rr', _, hres⟩ := both_atRound (R := fun _ res => ∀ v a, res ≠ PayRes.committable v a) hs hQ₀ hG₀
        (fun rr rr' a hq hg hfr => by
          simp only [Except.ok.injEq] at hfr
          have hper := payloadPresent_GR σ.pl rr p hg
          rw [hfr] at hper
          have hne := hpres σ.pl rr
          rw [hfr] at hne
          exact ⟨hper, hne⟩) hx
      split at h
      · simp only [Except.ok.injEq, Prod.mk.injEq] at h; obtain ⟨rfl, rfl⟩ := h
        exact ⟨h1, by intro v a hc; cases hc⟩
      · simp only [Except.ok.injEq, Prod.mk.injEq] at h; obtain ⟨rfl, rfl⟩ := h
        exact ⟨h1, fun v a hc => absurd hc (hres v a)⟩
    · split at h
      · cases h
      rename_i root res' hx
      obtain ⟨h1, rr', _, hres⟩ := both_atRound (R := fun _ res => ∀ v a, res ≠ PayRes.committable v a) hs hQ₀ hG₀
        (fun rr rr' a hq hg hfr => by
          simp only [Except.ok.injEq] at hfr
          have hper := payloadPresent_GR σ.pl rr p hg
          rw [hfr] at hper
          have hne := hpres σ.pl rr
          rw [hfr] at hne
          exact ⟨hper, hne⟩) hx
      split at h
      · simp only [Except.ok.injEq, Prod.mk.injEq] at h; obtain ⟨rfl, rfl⟩ := h
        exact ⟨h1, by intro v a hc; cases hc⟩
      · simp only [Except.ok.injEq, Prod.mk.injEq] at h; obtain ⟨rfl, rfl⟩ := h
        exact ⟨h1, fun v a hc => absurd hc (hres v a)⟩
  · rename_i hver
    split at h
    · simp only [Except.ok.injEq, Prod.mk.injEq] at h; obtain ⟨rfl, rfl⟩ := h
      exact ⟨hG₀, by intro v a hc; cases hc⟩
    split at h
    · simp only [Except.ok.injEq, Prod.mk.injEq] at h; obtain ⟨rfl, rfl⟩ := h
      exact ⟨hG₀, by intro v a hc; cases hc⟩
    rename_i hb2 hb1
    split at h
    · cases h
    rename_i root res' hx
    simp only [Except.ok.injEq, Prod.mk.injEq] at h
    obtain ⟨rfl, rfl⟩ := h
    have hv : verified = true := by cases verified <;> simp_all
    obtain ⟨h1, rr', hrr', hres⟩ := both_atRound
      (R := fun rr' res => ∀ v a, res = PayRes.committable v a → v = p.value ∧
        ∃ pr', aget rr'.periods σ.pl.period = some pr' ∧ pr'.ptracker.staging = v) hs hQ₀ hG₀
      (fun rr rr' a hq hg hfr => payloadVerified_g hs hq hg (hp hv hb2 hb1) hfr) hx
    refine ⟨h1, ?_⟩
    intro v a hc
    obtain ⟨e1, pr', hpr', hst⟩ := hres v a hc
    exact ⟨e1, pr', ⟨rr', hrr', hpr'⟩, hst⟩

/-! ### voteAggregator -/

theorem vaFilterVote_g (hs : GSpec P good G) {σ σ' : State} {r p s : Nat} {x : Vote} {pass : Bool}
    (hQ : QRoot P good σ.root) (hG : GRoot G σ.root) (h : vaFilterVote P σ r p s x = .ok (σ', pass)) :
    GRoot G σ'.root := by
  unfold vaFilterVote at h
  split at h
  · simp only [Except.ok.injEq, Prod.mk.injEq] at h; obtain ⟨rfl, _⟩ := h; exact hG
  split at h
  · cases h
  rename_i root a hx
  simp only [Except.ok.injEq, Prod.mk.injEq] at h
  obtain ⟨rfl, _⟩ := h
  exact periodQuery_g (σ' := ⟨σ.pl, root⟩) hs hQ hG (fun pr pr' a hf => atStep_pview hf) hx

theorem accept_kind (hg : GoodSpec good) {r p s : Nat} {x : Vote} {sr sr' : StepR} {th : Thresh}
    (hQ : QS good r p s sr) (hx : good r p s x = true) (h : sr.accept P r p s x = .ok (sr', th)) :
    KindOK th ∧ (th.kind ≠ 0 → th.round = r ∧ th.period = p ∧ th.step = s) := by
  unfold StepR.accept at h
  split at h
  · cases h
  split at h
  · cases h
  simp only [] at h
  split at h
  · cases h
  rename_i t' ev hh
  obtain ⟨vs, hR, hall⟩ := hQ
  have hall' : ∀ a ∈ vs ++ [x], good r p s a = true := by
    intro a ha
    rcases List.mem_append.mp ha with ha | ha
    · exact hall a ha
    · simp at ha; subst ha; exact hx
  have hpos : PosWeights (vs ++ [x]) := fun a ha => hg.pos r p s a (hall' a ha)
  have hcons : Consistent (vs ++ [x]) := fun a ha b hb hs => hg.cons r p s a b (hall' a ha) (hall' b hb) hs
  split at h
  · cases h
  rename_i hbad
  simp only [Except.ok.injEq, Prod.mk.injEq] at h
  obtain ⟨_, rfl⟩ := h
  cases ev with
  | none => exact ⟨Or.inl rfl, fun hk => absurd rfl hk⟩
  | threshold k v b =>
    have hk := ((Props.C06.threshold_exact hR hpos hcons hh).2 k v b rfl).2.2
    refine ⟨?_, fun _ => ⟨rfl, rfl, rfl⟩⟩
    show KindOK ⟨k, r, p, s, v, b⟩
    simp only [vtPost, Bool.or_eq_true, Bool.and_eq_true, not_or] at hbad
    have hbot : ¬ ((v == 0) = true ∧ decide (s < 3) = true) := hbad.1.2
    subst hk
    unfold KindOK eventKind cfgOf
    simp only []
    by_cases h1 : s = 1
    · have hv : v ≠ 0 := by intro hv; exact hbot (by simp [hv, h1])
      simp [h1, hv]
    · by_cases h2 : s = 2
      · have hv : v ≠ 0 := by intro hv; exact hbot (by simp [hv, h2])
        simp [h2, hv]
      · simp [h1, h2]

theorem pr_voteAccepted_g (hs : GSpec P good G) (hg : GoodSpec good) {r p s : Nat} {x : Vote} {pr pr' : PeriodR} {ev : Thresh}
    (hq : QP good r p pr) (hG : G r p (pview pr)) (hx : good r p s x = true)
    (hf : pr.voteAccepted P r p s x = .ok (pr', ev)) : G r p (pview pr') ∧ KindOK ev := by
  unfold PeriodR.voteAccepted at hf
  split at hf
  · cases hf
  rename_i pr₂ ev₂ hst
  obtain ⟨_, ⟨hev₂, hkind, hper⟩, _⟩ := atStep_spec good
    (R := fun a => ThreshOK P good r a ∧ KindOK a ∧ (a.kind ≠ 0 → a.round = r ∧ a.period = p ∧ a.step = s)) hq
    (fun sr sr' a hqs hfs => ⟨(accept_spec P good hg hqs hx hfs).1, (accept_spec P good hg hqs hx hfs).2,
      accept_kind hg hqs hx hfs⟩) hst
  have hpv := atStep_pview hst
  split at hf
  · rename_i hc
    simp only [Except.ok.injEq, Prod.mk.injEq] at hf
    obtain ⟨rfl, rfl⟩ := hf
    have : pview { pr₂.upd 0 with cached := (pr₂.upd 0).cached.cache ev₂.proposal } =
        ⟨(pview pr).staging, (pview pr).set, (pview pr).cached.cache ev₂.proposal⟩ := by
      obtain ⟨e1, e2, e3⟩ := PeriodR.upd_fields pr₂ 0
      rw [← hpv]
      simp only [pview, e1, e2, e3]
    rw [this]
    exact ⟨hs.cache r p (pview pr) ev₂ hG hev₂ hc.1 hc.2 (hper hc.1).2.1, hkind⟩
  · simp only [Except.ok.injEq, Prod.mk.injEq] at hf
    obtain ⟨rfl, rfl⟩ := hf
    rw [hpv]; exact ⟨hG, hkind⟩

theorem rr_voteAccepted_g (hs : GSpec P good G) (hg : GoodSpec good) {pl : PlayerF} {r p s : Nat} {x : Vote}
    {rr rr' : RoundR} {ev : Thresh} (hQ : QR P good r rr) (hG : GR G r rr) (hx : good r p s x = true)
    (h : rr.voteAccepted P pl r p s x = .ok (rr', ev)) : GR G r rr' ∧ KindOK ev := by
  unfold RoundR.voteAccepted at h
  split at h
  · cases h
  rename_i rr₁ ev₁ hat
  obtain ⟨h1, _, _, hk⟩ := both_atPeriod (R := fun _ ev => KindOK ev) hs hQ hG
    (fun pr pr' a hq hgp hf => pr_voteAccepted_g hs hg hq hgp hx hf) hat
  split at h
  · split at h
    · simp only [Except.ok.injEq, Prod.mk.injEq] at h
      obtain ⟨rfl, rfl⟩ := h
      exact ⟨⟨(GR_upd hs (pl := pl) (p := 0) h1).1, hk⟩, hk⟩
    · simp only [Except.ok.injEq, Prod.mk.injEq] at h
      obtain ⟨rfl, rfl⟩ := h
      exact ⟨GR_upd hs h1, kindOK_empty⟩
  · simp only [Except.ok.injEq, Prod.mk.injEq] at h
    obtain ⟨rfl, rfl⟩ := h
    exact ⟨h1, kindOK_empty⟩

theorem deliverVote_g (hs : GSpec P good G) (hg : GoodSpec good) {σ σ' : State} {r p s : Nat} {x : Vote} {ev : Thresh}
    (hQ : QRoot P good σ.root) (hG : GRoot G σ.root) (hx : good r p s x = true)
    (h : deliverVote P σ r p s x = .ok (σ', ev)) : GRoot G σ'.root ∧ KindOK ev := by
  unfold deliverVote at h
  split at h
  · cases h
  rename_i root a hat
  simp only [Except.ok.injEq, Prod.mk.injEq] at h
  obtain ⟨rfl, rfl⟩ := h
  obtain ⟨h1, _, _, h2⟩ := both_atRound (R := fun _ ev => KindOK ev) hs hQ hG
    (fun rr rr' a hq hgr hfr => rr_voteAccepted_g hs hg hq hgr hx hfr) hat
  exact ⟨h1, h2⟩

/-- a threshold event handed to the player has the kind of its step -/
def VAKind : VARes → Prop
  | .threshold e => KindOK e
  | _ => True

theorem vaVote_g (hs : GSpec P good G) (hg : GoodSpec good) {σ σ' : State} {verified : Bool} {bad : Bad} {r p s : Nat}
    {x : Vote} {res : VARes} (hQ : QRoot P good σ.root) (hG : GRoot G σ.root)
    (hx : verified = true → bad ≠ 2 → bad ≠ 3 → bad ≠ 1 → good r p s x = true)
    (h : vaVote P σ verified bad r p s x = .ok (σ', res)) : GRoot G σ'.root ∧ VAKind res := by
  have hQ₀ := QRoot_updσ P good 0 hQ
  have hG₀ := GRoot_updσ hs 0 hG
  unfold vaVote at h
  simp only [] at h
  split at h
  · split at h
    · simp only [Except.ok.injEq, Prod.mk.injEq] at h; obtain ⟨rfl, rfl⟩ := h; exact ⟨hG₀, trivial⟩
    split at h
    · cases h
    rename_i τ pass hf
    simp only [Except.ok.injEq, Prod.mk.injEq] at h
    obtain ⟨rfl, rfl⟩ := h
    exact ⟨vaFilterVote_g hs (σ := { σ with root := σ.root.upd P σ.pl 0 }) hQ₀ hG₀ hf, by split <;> trivial⟩
  rename_i hver
  split at h
  · simp only [Except.ok.injEq, Prod.mk.injEq] at h; obtain ⟨rfl, rfl⟩ := h; exact ⟨hG₀, trivial⟩
  split at h
  · simp only [Except.ok.injEq, Prod.mk.injEq] at h; obtain ⟨rfl, rfl⟩ := h; exact ⟨hG₀, trivial⟩
  split at h
  · simp only [Except.ok.injEq, Prod.mk.injEq] at h; obtain ⟨rfl, rfl⟩ := h; exact ⟨hG₀, trivial⟩
  rename_i hb2 hb3 hb1
  split at h
  · cases h
  · rename_i τ hf
    simp only [Except.ok.injEq, Prod.mk.injEq] at h; obtain ⟨rfl, rfl⟩ := h
    exact ⟨vaFilterVote_g hs (σ := { σ with root := σ.root.upd P σ.pl 0 }) hQ₀ hG₀ hf, trivial⟩
  · rename_i τ hf
    obtain ⟨q1, _⟩ := vaFilterVote_spec P good (σ := { σ with root := σ.root.upd P σ.pl 0 }) hQ₀ hf
    have g1 := vaFilterVote_g hs (σ := { σ with root := σ.root.upd P σ.pl 0 }) hQ₀ hG₀ hf
    split at h
    · cases h
    rename_i τ' ev hd
    have hv : verified = true := by cases verified <;> simp_all
    obtain ⟨g2, k2⟩ := deliverVote_g hs hg q1 g1 (hx hv hb2 hb3 hb1) hd
    repeat' split at h
    all_goals first
      | (simp only [Except.ok.injEq, Prod.mk.injEq] at h; obtain ⟨rfl, rfl⟩ := h
         exact ⟨g2, by first | trivial | exact k2⟩)
      | cases h

theorem deliverAll_g (hs : GSpec P good G) (hg : GoodSpec good) {r p s : Nat} : ∀ (vs : List Vote) {σ σ' : State} {acc ev : Thresh},
    QRoot P good σ.root → GRoot G σ.root → (∀ x ∈ vs, good r p s x = true) → KindOK acc →
    deliverAll P r p s σ vs acc = .ok (σ', ev) → GRoot G σ'.root ∧ KindOK ev := by
  intro vs
  induction vs with
  | nil =>
    intro σ σ' acc ev _ hG _ hacc h
    simp only [deliverAll, Except.ok.injEq, Prod.mk.injEq] at h
    obtain ⟨rfl, rfl⟩ := h
    exact ⟨hG, hacc⟩
  | cons x rest ih =>
    intro σ σ' acc ev hQ hG hall hacc h
    simp only [deliverAll] at h
    split at h
    · cases h
    rename_i τ e₁ hd
    obtain ⟨q1, _, _⟩ := deliverVote_spec P good hg hQ (hall x List.mem_cons_self) hd
    obtain ⟨g1, k1⟩ := deliverVote_g hs hg hQ hG (hall x List.mem_cons_self) hd
    exact ih q1 g1 (fun y hy => hall y (List.mem_cons_of_mem _ hy)) (by split <;> assumption) h

theorem vaBundle_g (hs : GSpec P good G) (hg : GoodSpec good) {σ σ' : State} {verified : Bool} {bad : Bad}
    {r p s value : Nat} {votes : List (Nat × Nat)} {eqs : List EqVote} {res : VARes}
    (hQ : QRoot P good σ.root) (hG : GRoot G σ.root)
    (hx : verified = true → bad ≠ 2 → bad ≠ 3 → bad ≠ 1 → ∀ x ∈ bundleVotes value votes eqs, good r p s x = true)
    (h : vaBundle P σ verified bad r p s value votes eqs = .ok (σ', res)) : GRoot G σ'.root ∧ VAKind res := by
  have hQ₀ := QRoot_updσ P good 0 hQ
  have hG₀ := GRoot_updσ hs 0 hG
  unfold vaBundle at h
  simp only [] at h
  split at h
  · simp only [Except.ok.injEq, Prod.mk.injEq] at h; obtain ⟨rfl, rfl⟩ := h; exact ⟨hG₀, by split <;> trivial⟩
  rename_i hver
  split at h
  · simp only [Except.ok.injEq, Prod.mk.injEq] at h; obtain ⟨rfl, rfl⟩ := h; exact ⟨hG₀, trivial⟩
  split at h
  · simp only [Except.ok.injEq, Prod.mk.injEq] at h; obtain ⟨rfl, rfl⟩ := h; exact ⟨hG₀, trivial⟩
  split at h
  · simp only [Except.ok.injEq, Prod.mk.injEq] at h; obtain ⟨rfl, rfl⟩ := h; exact ⟨hG₀, trivial⟩
  rename_i hb2 hb3 hb1
  split at h
  · simp only [Except.ok.injEq, Prod.mk.injEq] at h; obtain ⟨rfl, rfl⟩ := h; exact ⟨hG₀, trivial⟩
  split at h
  · cases h
  rename_i τ ev hd
  have hv : verified = true := by cases verified <;> simp_all
  obtain ⟨g1, k1⟩ := deliverAll_g hs hg _ (σ := { σ with root := σ.root.upd P σ.pl 0 }) hQ₀ hG₀ (hx hv hb2 hb3 hb1)
    kindOK_empty hd
  split at h <;> (simp only [Except.ok.injEq, Prod.mk.injEq] at h; obtain ⟨rfl, rfl⟩ := h
                  exact ⟨g1, by first | trivial | exact k1⟩)

/-! ### a `freshestBundleRequest` to the player's own round keeps the period router of the player's own period -/

theorem upd_aget_keep {pl : PlayerF} {rr : RoundR} {p q : Nat} {pr : PeriodR} (h : aget rr.periods p = some pr)
    (hk : keepPeriod pl p = true) : aget (rr.upd pl q).periods p = some pr := by
  unfold RoundR.upd
  cases hq : aget rr.periods q with
  | some x =>
    simp only []
    by_cases hpq : p = q
    · subst hpq
      rw [h] at hq
      simp only [Option.some.injEq] at hq
      subst hq
      exact aget_aset_self _ _ _
    · rw [aget_aset_ne _ _ _ _ hpq, aget_filter_key rr.periods (keepPeriod pl) p, hk]
      simpa using h
  | none =>
    simp only []
    have hpq : p ≠ q := by
      intro hpq; subst hpq; rw [h] at hq; cases hq
    rw [aget_aset_ne _ _ _ _ hpq, aget_filter_key (rr.periods ++ [(q, ({} : PeriodR))]) (keepPeriod pl) p, hk, aget_append, h]
    rfl

theorem keepPeriod_self {pl : PlayerF} (hfit : pl.period + 1 < 18446744073709551616) : keepPeriod pl pl.period = true := by
  unfold keepPeriod
  rw [Nat.mod_eq_of_lt hfit]
  simp

theorem keepRound_self (P : Params) (pl : PlayerF) : keepRound P pl pl.round = true := by
  unfold keepRound
  simp

theorem freshest_frame {σ σ' : State} {res : Bool × Thresh} {pr : PeriodR}
    (hfit : σ.pl.period + 1 < 18446744073709551616)
    (hp : PAt σ.root σ.pl.round σ.pl.period pr) (h : freshest P σ σ.pl.round = .ok (σ', res)) :
    PAt σ'.root σ.pl.round σ.pl.period pr := by
  rw [freshest_eq] at h
  unfold liftRoot at h
  split at h
  · cases h
  rename_i x root a hx
  simp only [Except.ok.injEq, Prod.mk.injEq] at h
  obtain ⟨rfl, _⟩ := h
  obtain ⟨rr, hrr, hpr⟩ := hp
  unfold Root.atRound at hx
  simp only [] at hx
  split at hx
  · cases hx
  rename_i rr₀ hrr₀
  simp only [Except.ok.injEq, Prod.mk.injEq] at hx
  obtain ⟨rfl, _⟩ := hx
  rw [Root.upd_aget_of_some hrr, keepRound_self] at hrr₀
  simp only [if_true, Option.some.injEq] at hrr₀
  subst hrr₀
  exact ⟨_, aget_aset_self _ _ _, upd_aget_keep hpr (keepPeriod_self hfit)⟩

end AlgoVerif.Lemmas.PlayerAttest
