import AlgoVerif.Spec.OnlineHistory
/-! C13: `Spec.sortTop` really sorts (by normalised balance, then address, both descending) and only permutes. -/
namespace AlgoVerif.Lemmas.OnlineAccts
open AlgoVerif.Spec.OnlineHistory

/-- `y` does not have to come before `x` -/
def ordered (x y : TopEntry) : Prop := y.before x = false

theorem before_false_iff (x y : TopEntry) :
    x.before y = false ↔ (x.norm < y.norm ∨ (x.norm = y.norm ∧ x.addr ≤ y.addr)) := by
  unfold TopEntry.before
  constructor
  · intro h
    simp at h
    obtain ⟨h1, h2⟩ := h
    by_cases he : x.norm = y.norm
    · exact Or.inr ⟨he, h2 he⟩
    · exact Or.inl (by omega)
  · intro h
    simp
    rcases h with h | ⟨h1, h2⟩
    · exact ⟨by omega, fun he => by omega⟩
    · exact ⟨by omega, fun _ => h2⟩

theorem before_true_iff (x y : TopEntry) :
    x.before y = true ↔ (x.norm > y.norm ∨ (x.norm = y.norm ∧ x.addr > y.addr)) := by
  unfold TopEntry.before
  simp

theorem ordered_trans {x y z : TopEntry} (h1 : ordered x y) (h2 : ordered y z) : ordered x z := by
  unfold ordered at *
  rw [before_false_iff] at *
  rcases h1 with h1 | ⟨h1, h1'⟩ <;> rcases h2 with h2 | ⟨h2, h2'⟩
  · left; omega
  · left; omega
  · left; omega
  · exact Or.inr ⟨by omega, Nat.le_trans h2' h1'⟩

theorem insertTop_mem {x : TopEntry} {l : List TopEntry} {y : TopEntry} (h : y ∈ insertTop x l) : y = x ∨ y ∈ l := by
  induction l with
  | nil => simp [insertTop] at h; exact Or.inl h
  | cons z zs ih =>
    unfold insertTop at h
    split at h
    · simp at h; rcases h with h | h | h
      · exact Or.inl h
      · exact Or.inr (by simp [h])
      · exact Or.inr (by simp [h])
    · simp at h; rcases h with h | h
      · exact Or.inr (by simp [h])
      · rcases ih h with h' | h'
        · exact Or.inl h'
        · exact Or.inr (by simp [h'])

theorem insertTop_sorted (x : TopEntry) : ∀ l : List TopEntry, l.Pairwise ordered → (insertTop x l).Pairwise ordered := by
  intro l
  induction l with
  | nil => intro _; simp [insertTop]
  | cons z zs ih =>
    intro hs
    have hp := List.pairwise_cons.mp hs
    unfold insertTop
    split
    · rename_i hb
      refine List.Pairwise.cons ?_ hs
      intro y hy
      -- x before z, z ordered y
      have hxz : ordered x z := by
        unfold ordered
        rw [before_false_iff]
        rcases (before_true_iff x z).mp hb with h | ⟨h, h'⟩
        · left; omega
        · exact Or.inr ⟨by omega, Nat.le_of_lt h'⟩
      rcases List.mem_cons.mp hy with h | h
      · rw [h]; exact hxz
      · exact ordered_trans hxz (hp.1 y h)
    · rename_i hb
      have hzx : ordered z x := by
        unfold ordered; simpa using hb
      refine List.Pairwise.cons ?_ (ih hp.2)
      intro y hy
      rcases insertTop_mem hy with h | h
      · rw [h]; exact hzx
      · exact hp.1 y h

theorem sortTop_sorted : ∀ l : List TopEntry, (sortTop l).Pairwise ordered := by
  intro l
  induction l with
  | nil => simp [sortTop]
  | cons x xs ih => exact insertTop_sorted x _ ih

theorem insertTop_perm (x : TopEntry) : ∀ l : List TopEntry, (insertTop x l).Perm (x :: l) := by
  intro l
  induction l with
  | nil => exact List.Perm.refl _
  | cons z zs ih =>
    unfold insertTop
    split
    · exact List.Perm.refl _
    · exact ((List.Perm.cons z ih).trans (List.Perm.swap x z zs))

theorem sortTop_perm : ∀ l : List TopEntry, (sortTop l).Perm l := by
  intro l
  induction l with
  | nil => exact List.Perm.refl _
  | cons x xs ih => exact (insertTop_perm x _).trans (List.Perm.cons x ih)
end AlgoVerif.Lemmas.OnlineAccts
