import AlgoVerif.Lemmas.AppStorageStore
/-! Lemmas about Model.AppStorage: the box-counter invariant of the ledger primitives NewBox / SetBox / DelBox
(applications.go) and their frame properties. -/
namespace AlgoVerif.Model.AppStorage

attribute [local irreducible] M64

theorem upd_same {α : Type} (f : Nat → α) (a : Nat) (v : α) : upd f a v a = v := by simp [upd]
theorem upd_other {α : Type} (f : Nat → α) {a x : Nat} (v : α) (h : x ≠ a) : upd f a v x = f x := by simp [upd, h]

theorem addSat_eq {a b : Nat} (h : a + b < M64) : addSat a b = a + b := by
  unfold addSat; rw [if_neg (by omega)]

theorem subSat_eq {a b : Nat} (h : b ≤ a) : subSat a b = a - b := by
  unfold subSat; rw [if_neg (by omega)]

/-- the length of the box `r` (none when it does not exist) -/
def boxLenAt (σ : State) (r : BoxRef) : Option Nat :=
  match aget (σ.boxes r.1) r.2 with
  | some c => some c.length
  | none => none

/-- the per-application box invariant: no duplicate names, the application account's counters are the number of boxes and
    Σ (|name| + |value|), every box respects the size limits, at most `n` boxes -/
structure BoxInv (P : Proto) (n : Nat) (σ : State) : Prop where
  nodup : ∀ a, keysNodup (σ.boxes a)
  tb_eq : ∀ a, σ.tb a = (σ.boxes a).length
  tbb_eq : ∀ a, σ.tbb a = boxBytes σ a
  small : ∀ a p, p ∈ σ.boxes a → p.1.length ≤ P.maxKeyLen ∧ p.2.length ≤ P.maxBoxSize
  len_le : ∀ a, (σ.boxes a).length ≤ n

/-- room for one more box without saturating the counters -/
def Fits (P : Proto) (n : Nat) : Prop := n + 1 < M64 ∧ (n + 1) * (P.maxKeyLen + P.maxBoxSize) < M64

theorem BoxInv.mono {P : Proto} {n m : Nat} {σ : State} (h : BoxInv P n σ) (hnm : n ≤ m) : BoxInv P m σ :=
  ⟨h.nodup, h.tb_eq, h.tbb_eq, h.small, fun a => Nat.le_trans (h.len_le a) hnm⟩

theorem BoxInv.bytes_le {P : Proto} {n : Nat} {σ : State} (h : BoxInv P n σ) (a : AppId) :
    boxBytes σ a ≤ n * (P.maxKeyLen + P.maxBoxSize) := by
  unfold boxBytes
  have h1 : wsum boxWeight (σ.boxes a) ≤ (σ.boxes a).length * (P.maxKeyLen + P.maxBoxSize) := by
    apply wsum_le_length_mul
    intro p hp
    have := h.small a p hp
    unfold boxWeight; omega
  have h2 := h.len_le a
  have h3 : (σ.boxes a).length * (P.maxKeyLen + P.maxBoxSize) ≤ n * (P.maxKeyLen + P.maxBoxSize) := Nat.mul_le_mul_right _ h2
  omega

theorem BoxInv.empty (P : Proto) : BoxInv P 0 State.empty :=
  ⟨fun _ => by simp [State.empty, keysNodup], fun _ => rfl, fun _ => rfl, fun _ p hp => by simp [State.empty] at hp, fun _ => by simp [State.empty]⟩

/-- what a successful `newBox` does -/
theorem newBox_eq {P : Proto} {σ σ' : State} {a : AppId} {name val : Bytes} (h : newBox P σ a name val = .ok σ') :
    name.length ≤ P.maxKeyLen ∧ val.length ≤ P.maxBoxSize ∧ aget (σ.boxes a) name = none ∧
    σ' = { σ with tb := upd σ.tb a (addSat (σ.tb a) 1), tbb := upd σ.tbb a (addSat (σ.tbb a) (name.length + val.length)),
                  boxes := upd σ.boxes a (aset (σ.boxes a) name val) } := by
  unfold newBox at h
  split at h
  · cases h
  · split at h
    · cases h
    · split at h
      · cases h
      · split at h
        · cases h
        · rename_i h1 _ h3 h4
          cases h
          refine ⟨by omega, by omega, ?_, rfl⟩
          cases hg : aget (σ.boxes a) name with
          | none => rfl
          | some c => rw [hg] at h4; simp at h4

theorem newBox_inv {P : Proto} {n : Nat} {σ σ' : State} {a : AppId} {name val : Bytes}
    (hi : BoxInv P n σ) (hf : Fits P n) (h : newBox P σ a name val = .ok σ') : BoxInv P (n + 1) σ' := by
  obtain ⟨hn, hv, hnone, he⟩ := newBox_eq h
  have hb := hi.bytes_le a
  have hl := hi.len_le a
  have htb := hi.tb_eq a
  have htbb := hi.tbb_eq a
  have hmul : (n + 1) * (P.maxKeyLen + P.maxBoxSize) = n * (P.maxKeyLen + P.maxBoxSize) + (P.maxKeyLen + P.maxBoxSize) := by
    rw [Nat.add_mul, Nat.one_mul]
  have hf1 := hf.1
  have hf2 := hf.2
  have hws := wsum_aset boxWeight name val (hi.nodup a)
  rw [wold_none hnone] at hws
  have hlen : (aset (σ.boxes a) name val).length ≤ (σ.boxes a).length + 1 := length_aset_le _ _ _
  have hlen1 := wsum_aset (fun (_ : Bytes) (_ : Bytes) => 1) name val (hi.nodup a)
  rw [wold_none hnone, wsum_one_eq_length, wsum_one_eq_length] at hlen1
  subst he
  refine ⟨?_, ?_, ?_, ?_, ?_⟩
  · intro x
    show keysNodup (upd σ.boxes a (aset (σ.boxes a) name val) x)
    by_cases hx : x = a
    · subst hx; rw [upd_same]; exact keysNodup_aset _ _ (hi.nodup x)
    · rw [upd_other _ _ hx]; exact hi.nodup x
  · intro x
    show upd σ.tb a (addSat (σ.tb a) 1) x = (upd σ.boxes a (aset (σ.boxes a) name val) x).length
    by_cases hx : x = a
    · subst hx; rw [upd_same, upd_same, addSat_eq (by omega)]; omega
    · rw [upd_other _ _ hx, upd_other _ _ hx]; exact hi.tb_eq x
  · intro x
    show upd σ.tbb a (addSat (σ.tbb a) (name.length + val.length)) x = wsum boxWeight (upd σ.boxes a (aset (σ.boxes a) name val) x)
    by_cases hx : x = a
    · subst hx
      rw [upd_same, upd_same]
      unfold boxBytes at htbb hb
      have : boxWeight name val = name.length + val.length := rfl
      rw [addSat_eq (by omega)]; omega
    · rw [upd_other _ _ hx, upd_other _ _ hx]; exact hi.tbb_eq x
  · intro x p hp
    have hp' : p ∈ upd σ.boxes a (aset (σ.boxes a) name val) x := hp
    by_cases hx : x = a
    · subst hx
      rw [upd_same] at hp'
      unfold aset at hp'
      rcases List.mem_cons.mp hp' with hp1 | hp2
      · subst hp1; exact ⟨hn, hv⟩
      · exact hi.small x p (mem_adel hp2).1
    · rw [upd_other _ _ hx] at hp'; exact hi.small x p hp'
  · intro x
    show (upd σ.boxes a (aset (σ.boxes a) name val) x).length ≤ n + 1
    by_cases hx : x = a
    · subst hx; rw [upd_same]; omega
    · rw [upd_other _ _ hx]; have := hi.len_le x; omega

theorem newBox_frame {P : Proto} {σ σ' : State} {a : AppId} {name val : Bytes} (h : newBox P σ a name val = .ok σ') :
    σ'.apps = σ.apps ∧ σ'.locals = σ.locals ∧ σ'.nextApp = σ.nextApp ∧
    boxLenAt σ' (a, name) = some val.length ∧ ∀ r, r ≠ (a, name) → boxLenAt σ' r = boxLenAt σ r := by
  obtain ⟨_, _, _, he⟩ := newBox_eq h
  subst he
  refine ⟨rfl, rfl, rfl, ?_, ?_⟩
  · show (match aget (upd σ.boxes a (aset (σ.boxes a) name val) a) name with | some c => some c.length | none => none) = _
    rw [upd_same, aget_aset]; simp
  · intro r hr
    obtain ⟨ra, rn⟩ := r
    show (match aget (upd σ.boxes a (aset (σ.boxes a) name val) ra) rn with | some c => some c.length | none => none) = boxLenAt σ (ra, rn)
    by_cases hx : ra = a
    · subst hx
      rw [upd_same, aget_aset]
      have : ¬ name = rn := by intro e; apply hr; rw [e]
      rw [if_neg this]; rfl
    · rw [upd_other _ _ hx]; rfl

/-- what a successful `setBox` does -/
theorem setBox_eq {σ σ' : State} {a : AppId} {name val : Bytes} (h : setBox σ a name val = .ok σ') :
    ∃ old, aget (σ.boxes a) name = some old ∧ old.length = val.length ∧
      σ' = { σ with boxes := upd σ.boxes a (aset (σ.boxes a) name val) } := by
  unfold setBox at h
  split at h
  · cases h
  · rename_i old ho
    split at h
    · cases h
    · rename_i hl
      cases h
      exact ⟨old, ho, by omega, rfl⟩

theorem setBox_inv {P : Proto} {n : Nat} {σ σ' : State} {a : AppId} {name val : Bytes}
    (hi : BoxInv P n σ) (h : setBox σ a name val = .ok σ') : BoxInv P n σ' := by
  obtain ⟨old, ho, hlen, he⟩ := setBox_eq h
  have hws := wsum_aset boxWeight name val (hi.nodup a)
  rw [wold_some ho] at hws
  have hl1 := wsum_aset (fun (_ : Bytes) (_ : Bytes) => 1) name val (hi.nodup a)
  rw [wold_some ho, wsum_one_eq_length, wsum_one_eq_length] at hl1
  have hold : name.length ≤ P.maxKeyLen ∧ old.length ≤ P.maxBoxSize := hi.small a (name, old) (aget_mem ho)
  have hw1 : boxWeight name old = name.length + old.length := rfl
  have hw2 : boxWeight name val = name.length + val.length := rfl
  subst he
  refine ⟨?_, ?_, ?_, ?_, ?_⟩
  · intro x
    show keysNodup (upd σ.boxes a (aset (σ.boxes a) name val) x)
    by_cases hx : x = a
    · subst hx; rw [upd_same]; exact keysNodup_aset _ _ (hi.nodup x)
    · rw [upd_other _ _ hx]; exact hi.nodup x
  · intro x
    show σ.tb x = (upd σ.boxes a (aset (σ.boxes a) name val) x).length
    by_cases hx : x = a
    · subst hx; rw [upd_same]; have := hi.tb_eq x; omega
    · rw [upd_other _ _ hx]; exact hi.tb_eq x
  · intro x
    show σ.tbb x = wsum boxWeight (upd σ.boxes a (aset (σ.boxes a) name val) x)
    by_cases hx : x = a
    · subst hx; rw [upd_same]; have := hi.tbb_eq x; unfold boxBytes at this; omega
    · rw [upd_other _ _ hx]; exact hi.tbb_eq x
  · intro x p hp
    have hp' : p ∈ upd σ.boxes a (aset (σ.boxes a) name val) x := hp
    by_cases hx : x = a
    · subst hx
      rw [upd_same] at hp'
      unfold aset at hp'
      rcases List.mem_cons.mp hp' with hp1 | hp2
      · subst hp1; exact ⟨hold.1, by have := hold.2; show val.length ≤ P.maxBoxSize; omega⟩
      · exact hi.small x p (mem_adel hp2).1
    · rw [upd_other _ _ hx] at hp'; exact hi.small x p hp'
  · intro x
    show (upd σ.boxes a (aset (σ.boxes a) name val) x).length ≤ n
    by_cases hx : x = a
    · subst hx; rw [upd_same]; have := hi.len_le x; omega
    · rw [upd_other _ _ hx]; exact hi.len_le x

theorem setBox_frame {σ σ' : State} {a : AppId} {name val : Bytes} (h : setBox σ a name val = .ok σ') :
    σ'.apps = σ.apps ∧ σ'.locals = σ.locals ∧ σ'.nextApp = σ.nextApp ∧
    boxLenAt σ' (a, name) = some val.length ∧ ∀ r, r ≠ (a, name) → boxLenAt σ' r = boxLenAt σ r := by
  obtain ⟨old, _, _, he⟩ := setBox_eq h
  subst he
  refine ⟨rfl, rfl, rfl, ?_, ?_⟩
  · show (match aget (upd σ.boxes a (aset (σ.boxes a) name val) a) name with | some c => some c.length | none => none) = _
    rw [upd_same, aget_aset]; simp
  · intro r hr
    obtain ⟨ra, rn⟩ := r
    show (match aget (upd σ.boxes a (aset (σ.boxes a) name val) ra) rn with | some c => some c.length | none => none) = boxLenAt σ (ra, rn)
    by_cases hx : ra = a
    · subst hx
      rw [upd_same, aget_aset]
      have : ¬ name = rn := by intro e; apply hr; rw [e]
      rw [if_neg this]; rfl
    · rw [upd_other _ _ hx]; rfl

/-- `delBox` of an existing box -/
theorem delBox_eq {σ : State} {a : AppId} {name val : Bytes} (ho : aget (σ.boxes a) name = some val) :
    (delBox σ a name).2 = { σ with tb := upd σ.tb a (subSat (σ.tb a) 1),
                                   tbb := upd σ.tbb a (subSat (σ.tbb a) (name.length + val.length)),
                                   boxes := upd σ.boxes a (adel (σ.boxes a) name) } := by
  unfold delBox; rw [ho]

theorem delBox_none {σ : State} {a : AppId} {name : Bytes} (ho : aget (σ.boxes a) name = none) : (delBox σ a name).2 = σ := by
  unfold delBox; rw [ho]

/-- `DelBox` keeps the counters exact: the subtractions never saturate because the deleted box is part of the totals -/
theorem delBox_inv {P : Proto} {n : Nat} {σ : State} (a : AppId) (name : Bytes) (hi : BoxInv P n σ) :
    BoxInv P n (delBox σ a name).2 := by
  cases ho : aget (σ.boxes a) name with
  | none => rw [delBox_none ho]; exact hi
  | some val =>
    rw [delBox_eq ho]
    have hws := wsum_adel boxWeight name (hi.nodup a)
    rw [wold_some ho] at hws
    have hl1 := wsum_adel (fun (_ : Bytes) (_ : Bytes) => 1) name (hi.nodup a)
    rw [wold_some ho, wsum_one_eq_length, wsum_one_eq_length] at hl1
    have hw1 : boxWeight name val = name.length + val.length := rfl
    have htb := hi.tb_eq a
    have htbb := hi.tbb_eq a
    unfold boxBytes at htbb
    refine ⟨?_, ?_, ?_, ?_, ?_⟩
    · intro x
      show keysNodup (upd σ.boxes a (adel (σ.boxes a) name) x)
      by_cases hx : x = a
      · subst hx; rw [upd_same]; exact keysNodup_adel _ (hi.nodup x)
      · rw [upd_other _ _ hx]; exact hi.nodup x
    · intro x
      show upd σ.tb a (subSat (σ.tb a) 1) x = (upd σ.boxes a (adel (σ.boxes a) name) x).length
      by_cases hx : x = a
      · subst hx; rw [upd_same, upd_same, subSat_eq (by omega)]; omega
      · rw [upd_other _ _ hx, upd_other _ _ hx]; exact hi.tb_eq x
    · intro x
      show upd σ.tbb a (subSat (σ.tbb a) (name.length + val.length)) x = wsum boxWeight (upd σ.boxes a (adel (σ.boxes a) name) x)
      by_cases hx : x = a
      · subst hx; rw [upd_same, upd_same, subSat_eq (by omega)]; omega
      · rw [upd_other _ _ hx, upd_other _ _ hx]; exact hi.tbb_eq x
    · intro x p hp
      have hp' : p ∈ upd σ.boxes a (adel (σ.boxes a) name) x := hp
      by_cases hx : x = a
      · subst hx; rw [upd_same] at hp'; exact hi.small x p (mem_adel hp').1
      · rw [upd_other _ _ hx] at hp'; exact hi.small x p hp'
    · intro x
      show (upd σ.boxes a (adel (σ.boxes a) name) x).length ≤ n
      by_cases hx : x = a
      · subst hx; rw [upd_same]; have := hi.len_le x; have := length_adel_le (σ.boxes x) name; omega
      · rw [upd_other _ _ hx]; exact hi.len_le x

theorem delBox_frame (σ : State) (a : AppId) (name : Bytes) :
    (delBox σ a name).2.apps = σ.apps ∧ (delBox σ a name).2.locals = σ.locals ∧ (delBox σ a name).2.nextApp = σ.nextApp ∧
    boxLenAt (delBox σ a name).2 (a, name) = none ∧ ∀ r, r ≠ (a, name) → boxLenAt (delBox σ a name).2 r = boxLenAt σ r := by
  cases ho : aget (σ.boxes a) name with
  | none =>
    rw [delBox_none ho]
    refine ⟨rfl, rfl, rfl, ?_, fun _ _ => rfl⟩
    show (match aget (σ.boxes a) name with | some c => some c.length | none => none) = none
    rw [ho]
  | some val =>
    rw [delBox_eq ho]
    refine ⟨rfl, rfl, rfl, ?_, ?_⟩
    · show (match aget (upd σ.boxes a (adel (σ.boxes a) name) a) name with | some c => some c.length | none => none) = none
      rw [upd_same, aget_adel]; simp
    · intro r hr
      obtain ⟨ra, rn⟩ := r
      show (match aget (upd σ.boxes a (adel (σ.boxes a) name) ra) rn with | some c => some c.length | none => none) = boxLenAt σ (ra, rn)
      by_cases hx : ra = a
      · subst hx
        rw [upd_same, aget_adel]
        have : ¬ rn = name := by intro e; apply hr; rw [e]
        rw [if_neg this]; rfl
      · rw [upd_other _ _ hx]; rfl

/-- the contents `boxResizeImpl` writes have the requested size -/
theorem resized_length (c : Bytes) (n : Nat) : (resized c n).length = n := by
  unfold resized zeros
  split
  · simp; omega
  · simp; omega

theorem replaceCarefully_length {orig repl out : Bytes} {start : Nat} (h : replaceCarefully orig repl start = .ok out) :
    out.length = orig.length := by
  unfold replaceCarefully at h
  split at h
  · cases h
  · split at h
    · cases h
    · cases h; simp; omega

theorem spliceCarefully_length {orig repl out : Bytes} {start olen : Nat} (h : spliceCarefully orig repl start olen = .ok out) :
    out.length = orig.length := by
  unfold spliceCarefully at h
  split at h
  · cases h
  · split at h
    · cases h
    · split at h
      · cases h
      · dsimp only at h
        split at h
        · cases h
        · cases h; simp [zeros]; omega

end AlgoVerif.Model.AppStorage
