import AlgoVerif.Lemmas.PlayerAttestComm
/-!
A generic pass over the tree operations of PlayerM.

`Frame P okp Φ Ψ`: a root predicate `Φ` with its round-router part `Ψ r rr` that every *ordinary* store / tracker operation
preserves (for players `pl` satisfying `okp`): router `update`s (creation + garbage collection), the zoom combinators,
period machines that leave Staging and the staged flag alone, proposal-vote / payload delivery at the store, the freshest
cache.  From a `Frame` this file derives, once and for all, that every query, the proposalManager entry points (except
threshold events) and the whole voteAggregator preserve `Φ` and leave the player's (Round, Period) alone — pure unfolding,
no other invariant needed.  The two operations that are NOT ordinary — `proposalStore` on a soft/cert threshold (`stage`)
and on a new period (`newPeriod`) — are treated per instance (`PlayerAttestKeep`: two instances).
-/
namespace AlgoVerif.Lemmas.PlayerAttest
open AlgoVerif.Model AlgoVerif.Model.Player AlgoVerif.Model.VoteTracker AlgoVerif.Lemmas.Player

/-- a period machine step that leaves Staging and the staged flag alone -/
def SS (pr pr' : PeriodR) : Prop :=
  pr'.ptracker.staging = pr.ptracker.staging ∧ (pview pr').set = (pview pr).set

theorem ss_of_pview {pr pr' : PeriodR} (h : pview pr' = pview pr) : SS pr pr' := by
  unfold SS; rw [h]; exact ⟨congrArg PView.staging h, rfl⟩

theorem ss_refl (pr : PeriodR) : SS pr pr := ⟨rfl, rfl⟩

/-- the next-threshold cache changes by `cache` operations only (`voteTrackerPeriod.handle`, case `nextThreshold`): Bottom is
never cleared, Proposal is only overwritten by a non-bottom value -/
def CMono (old new : NextStatus) : Prop :=
  (old.bottom = true → new.bottom = true) ∧ (new.proposal = old.proposal ∨ new.proposal ≠ 0)

instance (a b : NextStatus) : Decidable (CMono a b) := by unfold CMono; infer_instance

theorem CMono.refl (c : NextStatus) : CMono c c := ⟨id, Or.inl rfl⟩

theorem CMono.trans {a b c : NextStatus} (h1 : CMono a b) (h2 : CMono b c) : CMono a c := by
  refine ⟨fun h => h2.1 (h1.1 h), ?_⟩
  rcases h2.2 with h | h
  · rcases h1.2 with h' | h'
    · exact Or.inl (h.trans h')
    · exact Or.inr (by rw [h]; exact h')
  · exact Or.inr h

theorem cmono_cache (c : NextStatus) (v : Nat) : CMono c (c.cache v) := by
  unfold NextStatus.cache
  split
  · exact ⟨fun _ => rfl, Or.inl rfl⟩
  · rename_i hv; exact ⟨id, Or.inr hv⟩

/-- … and the cache changes by `cache` operations only -/
def SSC (pr pr' : PeriodR) : Prop := SS pr pr' ∧ CMono pr.cached pr'.cached

theorem ssc_of_pview {pr pr' : PeriodR} (h : pview pr' = pview pr) : SSC pr pr' := by
  refine ⟨ss_of_pview h, ?_⟩
  have := congrArg PView.cached h
  simp only [pview] at this
  rw [this]; exact CMono.refl _

theorem ssc_refl (pr : PeriodR) : SSC pr pr := ⟨ss_refl pr, CMono.refl _⟩

structure Frame (P : Params) (okp : PlayerF → Prop) (Φ : Root → Prop) (Ψ : Nat → RoundR → Prop) : Prop where
  congr : ∀ pl pl' : PlayerF, pl'.round = pl.round → pl'.period = pl.period → okp pl → okp pl'
  upd : ∀ (pl : PlayerF) (root : Root) (r : Nat), okp pl → Φ root → Φ (root.upd P pl r)
  atRound : ∀ {α : Type} (pl : PlayerF) (root root' : Root) (r q : Nat) (f : RoundR → Except Panic (RoundR × α)) (a : α),
    okp pl → Φ root → (∀ rr rr' a, Ψ r rr → f rr = .ok (rr', a) → Ψ r rr') →
    root.atRound P pl r q f = .ok (root', a) → Φ root'
  rupd : ∀ (pl : PlayerF) (r : Nat) (rr : RoundR) (q : Nat), okp pl → Ψ r rr → Ψ r (rr.upd pl q)
  atPeriod : ∀ {α : Type} (pl : PlayerF) (r : Nat) (rr rr' : RoundR) (q s : Nat)
    (f : PeriodR → Except Panic (PeriodR × α)) (a : α), okp pl → Ψ r rr →
    (∀ pr pr' a, f pr = .ok (pr', a) → SSC pr pr') → rr.atPeriod pl q s f = .ok (rr', a) → Ψ r rr'
  pvote : ∀ (pl : PlayerF) (r : Nat) (rr rr' : RoundR) (v : PVote) (res : PVRes), okp pl → Ψ r rr →
    rr.pvoteVerified pl v = .ok (rr', res) → Ψ r rr'
  payP : ∀ (pl : PlayerF) (r : Nat) (rr : RoundR) (up : Payload), okp pl → Ψ r rr → Ψ r (rr.payloadPresent pl up).1
  payV : ∀ (pl : PlayerF) (r : Nat) (rr rr' : RoundR) (pp : Payload) (res : PayRes), okp pl → Ψ r rr →
    rr.payloadVerified pl pp = .ok (rr', res) → Ψ r rr'
  fresh : ∀ (r : Nat) (rr : RoundR) (ev : Thresh) (b : Bool), Ψ r rr → Ψ r { rr with freshest := ev, ok := b }

variable {P : Params} {okp : PlayerF → Prop} {Φ : Root → Prop} {Ψ : Nat → RoundR → Prop}

/-! ### period machines that keep Staging -/

theorem voteAccepted_ss {pr pr' : PeriodR} {r p s : Nat} {x : Vote} {ev : Thresh}
    (h : pr.voteAccepted P r p s x = .ok (pr', ev)) : SS pr pr' := by
  unfold PeriodR.voteAccepted at h
  split at h
  · cases h
  rename_i pr₂ ev₂ hst
  have hpv := atStep_pview hst
  split at h
  · simp only [Except.ok.injEq, Prod.mk.injEq] at h
    obtain ⟨rfl, _⟩ := h
    obtain ⟨e1, e2, _⟩ := PeriodR.upd_fields pr₂ 0
    have h1 := congrArg PView.staging hpv
    have h2 := congrArg PView.set hpv
    simp only [pview] at h1 h2
    exact ⟨by show (pr₂.upd 0).ptracker.staging = _; rw [e1]; exact h1,
           by show ((pr₂.upd 0).ptContract.sawSoft || (pr₂.upd 0).ptContract.sawCert) = _; rw [e2]; exact h2⟩
  · simp only [Except.ok.injEq, Prod.mk.injEq] at h
    obtain ⟨rfl, _⟩ := h
    exact ss_of_pview hpv

theorem voteAccepted_ssc {pr pr' : PeriodR} {r p s : Nat} {x : Vote} {ev : Thresh}
    (h : pr.voteAccepted P r p s x = .ok (pr', ev)) : SSC pr pr' := by
  refine ⟨voteAccepted_ss h, ?_⟩
  unfold PeriodR.voteAccepted at h
  split at h
  · cases h
  rename_i pr₂ ev₂ hst
  have hc : pr₂.cached = pr.cached := by
    have := congrArg PView.cached (atStep_pview hst)
    simpa only [pview] using this
  split at h
  · simp only [Except.ok.injEq, Prod.mk.injEq] at h
    obtain ⟨rfl, _⟩ := h
    obtain ⟨_, _, e3⟩ := PeriodR.upd_fields pr₂ 0
    show CMono pr.cached ((pr₂.upd 0).cached.cache ev₂.proposal)
    rw [e3, hc]; exact cmono_cache _ _
  · simp only [Except.ok.injEq, Prod.mk.injEq] at h
    obtain ⟨rfl, _⟩ := h
    rw [hc]; exact CMono.refl _

/-! ### round machines -/

theorem f_readStaging (F : Frame P okp Φ Ψ) {pl : PlayerF} {r p : Nat} {rr rr' : RoundR} {st : Staged} (hok : okp pl)
    (h0 : Ψ r rr) (h : rr.readStaging pl p = .ok (rr', st)) : Ψ r rr' := by
  unfold RoundR.readStaging at h
  split at h
  · cases h
  rename_i rr₁ v hat
  simp only [Except.ok.injEq, Prod.mk.injEq] at h
  obtain ⟨rfl, _⟩ := h
  exact F.atPeriod pl r rr rr₁ p 0 _ v hok h0 (fun pr pr' a hf => by
    simp only [Except.ok.injEq, Prod.mk.injEq] at hf
    rw [← hf.1]; exact ssc_refl _) hat

theorem f_voteAccepted (F : Frame P okp Φ Ψ) {pl : PlayerF} {r r₀ p s : Nat} {x : Vote} {rr rr' : RoundR} {ev : Thresh}
    (hok : okp pl) (h0 : Ψ r rr) (h : rr.voteAccepted P pl r₀ p s x = .ok (rr', ev)) : Ψ r rr' := by
  unfold RoundR.voteAccepted at h
  split at h
  · cases h
  rename_i rr₁ ev₁ hat
  have h1 := F.atPeriod pl r rr rr₁ p 0 _ ev₁ hok h0 (fun pr pr' a hf => voteAccepted_ssc hf) hat
  split at h
  · split at h
    · simp only [Except.ok.injEq, Prod.mk.injEq] at h
      obtain ⟨rfl, _⟩ := h
      exact F.fresh r _ ev₁ true (F.rupd pl r rr₁ 0 hok h1)
    · simp only [Except.ok.injEq, Prod.mk.injEq] at h
      obtain ⟨rfl, _⟩ := h
      exact F.rupd pl r rr₁ 0 hok h1
  · simp only [Except.ok.injEq, Prod.mk.injEq] at h
    obtain ⟨rfl, _⟩ := h
    exact h1

/-! ### root level: queries -/

/-- the shape of every query: `atRound` with a round-level function, the player untouched -/
theorem f_query {α : Type} (F : Frame P okp Φ Ψ) {σ σ' : State} {r q : Nat} {f : RoundR → Except Panic (RoundR × α)} {a : α}
    (hok : okp σ.pl) (h0 : Φ σ.root) (hf : ∀ rr rr' a, Ψ r rr → f rr = .ok (rr', a) → Ψ r rr')
    (h : (match σ.root.atRound P σ.pl r q f with
          | .error e => (.error e : Except Panic (State × α))
          | .ok (root, a) => .ok ({ σ with root := root }, a)) = .ok (σ', a)) :
    Φ σ'.root ∧ σ'.pl = σ.pl := by
  split at h
  · cases h
  rename_i root a' hx
  simp only [Except.ok.injEq, Prod.mk.injEq] at h
  obtain ⟨rfl, rfl⟩ := h
  exact ⟨F.atRound σ.pl σ.root root r q f a' hok h0 hf hx, rfl⟩

theorem f_staged (F : Frame P okp Φ Ψ) {σ σ' : State} {r p : Nat} {st : Staged} (hok : okp σ.pl) (h0 : Φ σ.root)
    (h : staged P σ r p = .ok (σ', st)) : Φ σ'.root ∧ σ'.pl = σ.pl := by
  unfold staged at h
  try simp only [] at h
  split at h
  · cases h
  rename_i root a hx
  simp only [Except.ok.injEq, Prod.mk.injEq] at h
  obtain ⟨rfl, _⟩ := h
  refine ⟨F.atRound σ.pl σ.root root _ _ _ a hok h0 ?_ hx, rfl⟩
  intro rr rr' a hp hf
  exact f_readStaging F hok hp hf

theorem f_pinned (F : Frame P okp Φ Ψ) {σ σ' : State} {r : Nat} {st : Staged} (hok : okp σ.pl) (h0 : Φ σ.root)
    (h : pinned P σ r = .ok (σ', st)) : Φ σ'.root ∧ σ'.pl = σ.pl := by
  unfold pinned at h
  try simp only [] at h
  split at h
  · cases h
  rename_i root a hx
  simp only [Except.ok.injEq, Prod.mk.injEq] at h
  obtain ⟨rfl, _⟩ := h
  refine ⟨F.atRound σ.pl σ.root root _ _ _ a hok h0 ?_ hx, rfl⟩
  intro rr rr' a hp hf
  simp only [Except.ok.injEq, Prod.mk.injEq] at hf; rw [← hf.1]; exact hp

theorem f_freshest (F : Frame P okp Φ Ψ) {σ σ' : State} {r : Nat} {res : Bool × Thresh} (hok : okp σ.pl) (h0 : Φ σ.root)
    (h : freshest P σ r = .ok (σ', res)) : Φ σ'.root ∧ σ'.pl = σ.pl := by
  unfold freshest at h
  try simp only [] at h
  split at h
  · cases h
  rename_i root a hx
  simp only [Except.ok.injEq, Prod.mk.injEq] at h
  obtain ⟨rfl, _⟩ := h
  refine ⟨F.atRound σ.pl σ.root root _ _ _ a hok h0 ?_ hx, rfl⟩
  intro rr rr' a hp hf
  simp only [Except.ok.injEq, Prod.mk.injEq] at hf; rw [← hf.1]; exact hp

theorem f_nextStatus (F : Frame P okp Φ Ψ) {σ σ' : State} {ns : NextStatus} (hok : okp σ.pl) (h0 : Φ σ.root)
    (h : nextStatus P σ = .ok (σ', ns)) : Φ σ'.root ∧ σ'.pl = σ.pl := by
  unfold nextStatus at h
  try simp only [] at h
  split at h
  · cases h
  rename_i root a hx
  simp only [Except.ok.injEq, Prod.mk.injEq] at h
  obtain ⟨rfl, _⟩ := h
  refine ⟨F.atRound σ.pl σ.root root _ _ _ a hok h0 ?_ hx, rfl⟩
  intro rr rr' a hp hf
  refine F.atPeriod σ.pl _ rr rr' _ _ _ a hok hp ?_ hf
  intro pr pr' a hfp
  simp only [Except.ok.injEq, Prod.mk.injEq] at hfp; rw [← hfp.1]; exact ssc_refl _

theorem f_dumpVotes (F : Frame P okp Φ Ψ) {σ σ' : State} {s : Nat} {vs : List UVote} (hok : okp σ.pl) (h0 : Φ σ.root)
    (h : dumpVotes P σ s = .ok (σ', vs)) : Φ σ'.root ∧ σ'.pl = σ.pl := by
  unfold dumpVotes at h
  try simp only [] at h
  split at h
  · cases h
  rename_i root a hx
  simp only [Except.ok.injEq, Prod.mk.injEq] at h
  obtain ⟨rfl, _⟩ := h
  refine ⟨F.atRound σ.pl σ.root root _ _ _ a hok h0 ?_ hx, rfl⟩
  intro rr rr' a hp hf
  refine F.atPeriod σ.pl _ rr rr' _ _ _ a hok hp ?_ hf
  intro pr pr' a hfp
  exact ssc_of_pview (atStep_pview hfp)

theorem f_freezeProposal (F : Frame P okp Φ Ψ) {σ σ' : State} {v : Nat} (hok : okp σ.pl) (h0 : Φ σ.root)
    (h : freezeProposal P σ = .ok (σ', v)) : Φ σ'.root ∧ σ'.pl = σ.pl := by
  unfold freezeProposal at h
  try simp only [] at h
  split at h
  · cases h
  rename_i root a hx
  simp only [Except.ok.injEq, Prod.mk.injEq] at h
  obtain ⟨rfl, _⟩ := h
  refine ⟨F.atRound σ.pl σ.root root _ _ _ a hok h0 ?_ hx, rfl⟩
  intro rr rr' a hp hf
  refine F.atPeriod σ.pl _ rr rr' _ _ _ a hok hp ?_ hf
  intro pr pr' a hfp
  exact ssc_of_pview (freeze_pview hfp)

theorem f_credHistoryTouch (F : Frame P okp Φ Ψ) {σ σ' : State} (hok : okp σ.pl) (h0 : Φ σ.root)
    (h : credHistoryTouch P σ = .ok σ') : Φ σ'.root ∧ σ'.pl = σ.pl := by
  unfold credHistoryTouch at h
  split at h
  · cases h; exact ⟨h0, rfl⟩
  split at h
  · cases h; exact ⟨h0, rfl⟩
  simp only [] at h
  split at h
  · cases h
  rename_i _ root hx
  simp only [Except.ok.injEq] at h
  subst h
  exact ⟨F.atRound σ.pl σ.root root _ 0 _ () hok h0 (fun rr rr' a hp hf =>
    F.atPeriod σ.pl _ rr rr' 0 0 _ a hok hp (fun pr pr' a hfp => by
      simp only [Except.ok.injEq, Prod.mk.injEq] at hfp; rw [← hfp.1]; exact ssc_refl _) hf) hx, rfl⟩

theorem f_vaFilterVote (F : Frame P okp Φ Ψ) {σ σ' : State} {r p s : Nat} {x : Vote} {pass : Bool} (hok : okp σ.pl)
    (h0 : Φ σ.root) (h : vaFilterVote P σ r p s x = .ok (σ', pass)) : Φ σ'.root ∧ σ'.pl = σ.pl := by
  unfold vaFilterVote at h
  split at h
  · simp only [Except.ok.injEq, Prod.mk.injEq] at h; obtain ⟨rfl, _⟩ := h; exact ⟨h0, rfl⟩
  split at h
  · cases h
  rename_i root a hx
  simp only [Except.ok.injEq, Prod.mk.injEq] at h
  obtain ⟨rfl, _⟩ := h
  exact ⟨F.atRound σ.pl σ.root root r p _ a hok h0 (fun rr rr' a hp hf =>
    F.atPeriod σ.pl _ rr rr' p s _ a hok hp (fun pr pr' a hfp => ssc_of_pview (atStep_pview hfp)) hf) hx, rfl⟩

theorem f_deliverVote (F : Frame P okp Φ Ψ) {σ σ' : State} {r p s : Nat} {x : Vote} {ev : Thresh} (hok : okp σ.pl) (h0 : Φ σ.root)
    (h : deliverVote P σ r p s x = .ok (σ', ev)) : Φ σ'.root ∧ σ'.pl = σ.pl := by
  unfold deliverVote at h
  try simp only [] at h
  split at h
  · cases h
  rename_i root a hx
  simp only [Except.ok.injEq, Prod.mk.injEq] at h
  obtain ⟨rfl, _⟩ := h
  refine ⟨F.atRound σ.pl σ.root root _ _ _ a hok h0 ?_ hx, rfl⟩
  intro rr rr' a hp hf
  exact f_voteAccepted F hok hp hf

theorem f_updσ (F : Frame P okp Φ Ψ) {σ : State} (r : Nat) (hok : okp σ.pl) (h0 : Φ σ.root) :
    Φ ({ σ with root := σ.root.upd P σ.pl r } : State).root := F.upd σ.pl σ.root r hok h0

theorem f_vaVote (F : Frame P okp Φ Ψ) {σ σ' : State} {verified : Bool} {bad : Bad} {r p s : Nat} {x : Vote} {res : VARes}
    (hok : okp σ.pl) (h0 : Φ σ.root) (h : vaVote P σ verified bad r p s x = .ok (σ', res)) :
    Φ σ'.root ∧ σ'.pl = σ.pl := by
  have h1 := f_updσ F 0 hok h0
  unfold vaVote at h
  simp only [] at h
  split at h
  · split at h
    · simp only [Except.ok.injEq, Prod.mk.injEq] at h; obtain ⟨rfl, _⟩ := h; exact ⟨h1, rfl⟩
    split at h
    · cases h
    rename_i τ pass hf
    simp only [Except.ok.injEq, Prod.mk.injEq] at h
    obtain ⟨rfl, _⟩ := h
    exact f_vaFilterVote F (σ := { σ with root := σ.root.upd P σ.pl 0 }) hok h1 hf
  split at h
  · simp only [Except.ok.injEq, Prod.mk.injEq] at h; obtain ⟨rfl, _⟩ := h; exact ⟨h1, rfl⟩
  split at h
  · simp only [Except.ok.injEq, Prod.mk.injEq] at h; obtain ⟨rfl, _⟩ := h; exact ⟨h1, rfl⟩
  split at h
  · simp only [Except.ok.injEq, Prod.mk.injEq] at h; obtain ⟨rfl, _⟩ := h; exact ⟨h1, rfl⟩
  split at h
  · cases h
  · rename_i τ hf
    simp only [Except.ok.injEq, Prod.mk.injEq] at h; obtain ⟨rfl, _⟩ := h
    exact f_vaFilterVote F (σ := { σ with root := σ.root.upd P σ.pl 0 }) hok h1 hf
  · rename_i τ hf
    obtain ⟨h2, p2⟩ := f_vaFilterVote F (σ := { σ with root := σ.root.upd P σ.pl 0 }) hok h1 hf
    split at h
    · cases h
    rename_i τ' ev hd
    obtain ⟨h3, p3⟩ := f_deliverVote F (by rw [p2]; exact hok) h2 hd
    repeat' split at h
    all_goals first
      | (simp only [Except.ok.injEq, Prod.mk.injEq] at h; obtain ⟨rfl, _⟩ := h; exact ⟨h3, p3.trans p2⟩)
      | cases h

theorem f_deliverAll (F : Frame P okp Φ Ψ) {r p s : Nat} : ∀ (vs : List Vote) {σ σ' : State} {acc ev : Thresh},
    okp σ.pl → Φ σ.root → deliverAll P r p s σ vs acc = .ok (σ', ev) → Φ σ'.root ∧ σ'.pl = σ.pl := by
  intro vs
  induction vs with
  | nil =>
    intro σ σ' acc ev _ h0 h
    simp only [deliverAll, Except.ok.injEq, Prod.mk.injEq] at h
    obtain ⟨rfl, _⟩ := h
    exact ⟨h0, rfl⟩
  | cons x rest ih =>
    intro σ σ' acc ev hok h0 h
    simp only [deliverAll] at h
    split at h
    · cases h
    rename_i τ e₁ hd
    obtain ⟨h1, p1⟩ := f_deliverVote F hok h0 hd
    obtain ⟨h2, p2⟩ := ih (by rw [p1]; exact hok) h1 h
    exact ⟨h2, p2.trans p1⟩

theorem f_vaBundle (F : Frame P okp Φ Ψ) {σ σ' : State} {verified : Bool} {bad : Bad} {r p s value : Nat}
    {votes : List (Nat × Nat)} {eqs : List EqVote} {res : VARes} (hok : okp σ.pl) (h0 : Φ σ.root)
    (h : vaBundle P σ verified bad r p s value votes eqs = .ok (σ', res)) : Φ σ'.root ∧ σ'.pl = σ.pl := by
  have h1 := f_updσ F 0 hok h0
  unfold vaBundle at h
  simp only [] at h
  split at h
  · simp only [Except.ok.injEq, Prod.mk.injEq] at h; obtain ⟨rfl, _⟩ := h; exact ⟨h1, rfl⟩
  split at h
  · simp only [Except.ok.injEq, Prod.mk.injEq] at h; obtain ⟨rfl, _⟩ := h; exact ⟨h1, rfl⟩
  split at h
  · simp only [Except.ok.injEq, Prod.mk.injEq] at h; obtain ⟨rfl, _⟩ := h; exact ⟨h1, rfl⟩
  split at h
  · simp only [Except.ok.injEq, Prod.mk.injEq] at h; obtain ⟨rfl, _⟩ := h; exact ⟨h1, rfl⟩
  split at h
  · simp only [Except.ok.injEq, Prod.mk.injEq] at h; obtain ⟨rfl, _⟩ := h; exact ⟨h1, rfl⟩
  split at h
  · cases h
  rename_i τ ev hd
  obtain ⟨h2, p2⟩ := f_deliverAll F _ (σ := { σ with root := σ.root.upd P σ.pl 0 }) hok h1 hd
  split at h <;> (simp only [Except.ok.injEq, Prod.mk.injEq] at h; obtain ⟨rfl, _⟩ := h; exact ⟨h2, p2⟩)

/-! ### root level: proposalManager (without threshold events) -/

theorem f_pmNewRound (F : Frame P okp Φ Ψ) {σ σ' : State} {target : Nat} {res : PayRes} (hok : okp σ.pl) (h0 : Φ σ.root)
    (h : pmNewRound P σ target = .ok (σ', res)) : Φ σ'.root ∧ σ'.pl = σ.pl := by
  unfold pmNewRound at h
  simp only [] at h
  split at h
  · cases h
  rename_i root a hx
  simp only [Except.ok.injEq, Prod.mk.injEq] at h
  obtain ⟨rfl, _⟩ := h
  refine ⟨F.atRound σ.pl _ root _ _ _ a hok (F.upd σ.pl σ.root target hok h0) ?_ hx, rfl⟩
  intro rr rr' a hp hf
  rw [newRound_spec hf]; exact hp

theorem f_pmVoteVerified (F : Frame P okp Φ Ψ) {σ σ' : State} {bad : Bad} {v : PVote} {res : PMVote} (hok : okp σ.pl)
    (h0 : Φ σ.root) (h : pmVoteVerified P σ bad v = .ok (σ', res)) : Φ σ'.root ∧ σ'.pl = σ.pl := by
  have h1 := f_updσ F 0 hok h0
  unfold pmVoteVerified at h
  simp only [] at h
  split at h
  · simp only [Except.ok.injEq, Prod.mk.injEq] at h; obtain ⟨rfl, _⟩ := h; exact ⟨h1, rfl⟩
  split at h
  · simp only [Except.ok.injEq, Prod.mk.injEq] at h; obtain ⟨rfl, _⟩ := h; exact ⟨h1, rfl⟩
  split at h
  · simp only [Except.ok.injEq, Prod.mk.injEq] at h; obtain ⟨rfl, _⟩ := h; exact ⟨h1, rfl⟩
  split at h
  · cases h
  rename_i root res' hx
  have h2 := F.atRound σ.pl _ root v.round v.period _ res' hok h1 (fun rr rr' a hp hf => F.pvote σ.pl _ rr rr' v a hok hp hf) hx
  repeat' split at h
  all_goals (simp only [Except.ok.injEq, Prod.mk.injEq] at h; obtain ⟨rfl, _⟩ := h; exact ⟨h2, rfl⟩)

theorem f_pmVotePresent (F : Frame P okp Φ Ψ) {σ σ' : State} {v : PVote} {res : PMVote} (hok : okp σ.pl)
    (h0 : Φ σ.root) (h : pmVotePresent P σ v = .ok (σ', res)) : Φ σ'.root ∧ σ'.pl = σ.pl := by
  have h1 := f_updσ F 0 hok h0
  have hdup : ∀ (τ τ' : State) (d : Bool), okp τ.pl → Φ τ.root →
      (match τ.root.atRound P τ.pl v.round v.period (fun rr => rr.atPeriod τ.pl v.period 0 (fun pr => .ok (pr, pr.pvoteDup v.sender))) with
        | .error e => (.error e : Except Panic (State × Bool))
        | .ok (root, d) => .ok ({ τ with root := root }, d)) = .ok (τ', d) → Φ τ'.root ∧ τ'.pl = τ.pl := by
    intro τ τ' d hk hq hm
    split at hm
    · cases hm
    rename_i root a hx
    simp only [Except.ok.injEq, Prod.mk.injEq] at hm
    obtain ⟨rfl, _⟩ := hm
    refine ⟨F.atRound τ.pl τ.root root _ _ _ a hk hq ?_ hx, rfl⟩
    intro rr rr' a hp hf
    refine F.atPeriod τ.pl _ rr rr' _ _ _ a hk hp ?_ hf
    intro pr pr' a hfp
    simp only [Except.ok.injEq, Prod.mk.injEq] at hfp; rw [← hfp.1]; exact ssc_refl _
  unfold pmVotePresent at h
  simp only [] at h
  split at h
  · split at h
    · split at h
      · cases h
      rename_i τ' dup hd
      simp only [Except.ok.injEq, Prod.mk.injEq] at h
      obtain ⟨rfl, _⟩ := h
      exact hdup { σ with root := σ.root.upd P σ.pl 0 } _ _ hok h1 hd
    · simp only [Except.ok.injEq, Prod.mk.injEq] at h; obtain ⟨rfl, _⟩ := h; exact ⟨h1, rfl⟩
  · split at h
    · cases h
    rename_i τ' dup hd
    have := hdup { σ with root := σ.root.upd P σ.pl 0 } _ _ hok h1 hd
    split at h <;> (simp only [Except.ok.injEq, Prod.mk.injEq] at h; obtain ⟨rfl, _⟩ := h; exact this)

theorem f_pmPayload (F : Frame P okp Φ Ψ) {σ σ' : State} {verified : Bool} {bad : Bad} {p : Payload} {res : PayRes}
    (hok : okp σ.pl) (h0 : Φ σ.root) (h : pmPayload P σ verified bad p = .ok (σ', res)) : Φ σ'.root ∧ σ'.pl = σ.pl := by
  have h1 := f_updσ F 0 hok h0
  unfold pmPayload at h
  simp only [] at h
  split at h
  · split at h
    · split at h
      · cases h
      rename_i root res' hx
      have h2 := F.atRound σ.pl _ root _ _ _ res' hok h1 (fun rr rr' a hp hf => by
        simp only [Except.ok.injEq] at hf
        have := F.payP σ.pl _ rr p hok hp
        rw [hf] at this; exact this) hx
      split at h <;> (simp only [Except.ok.injEq, Prod.mk.injEq] at h; obtain ⟨rfl, _⟩ := h; exact ⟨h2, rfl⟩)
    · split at h
      · cases h
      rename_i root res' hx
      have h2 := F.atRound σ.pl _ root _ _ _ res' hok h1 (fun rr rr' a hp hf => by
        simp only [Except.ok.injEq] at hf
        have := F.payP σ.pl _ rr p hok hp
        rw [hf] at this; exact this) hx
      split at h <;> (simp only [Except.ok.injEq, Prod.mk.injEq] at h; obtain ⟨rfl, _⟩ := h; exact ⟨h2, rfl⟩)
  · split at h
    · simp only [Except.ok.injEq, Prod.mk.injEq] at h; obtain ⟨rfl, _⟩ := h; exact ⟨h1, rfl⟩
    split at h
    · simp only [Except.ok.injEq, Prod.mk.injEq] at h; obtain ⟨rfl, _⟩ := h; exact ⟨h1, rfl⟩
    split at h
    · cases h
    rename_i root res' hx
    simp only [Except.ok.injEq, Prod.mk.injEq] at h
    obtain ⟨rfl, _⟩ := h
    exact ⟨F.atRound σ.pl _ root _ _ _ res' hok h1 (fun rr rr' a hp hf => F.payV σ.pl _ rr rr' p a hok hp hf) hx, rfl⟩

/-! ### player level: the vote-issuing functions -/

theorem f_partitionPolicy (F : Frame P okp Φ Ψ) {σ σ' : State} {acts : List Action} (hok : okp σ.pl) (h0 : Φ σ.root)
    (h : partitionPolicy P σ = .ok (σ', acts)) : Φ σ'.root ∧ σ'.pl = σ.pl := by
  unfold partitionPolicy at h
  split at h
  · simp only [Except.ok.injEq, Prod.mk.injEq] at h; obtain ⟨rfl, _⟩ := h; exact ⟨h0, rfl⟩
  split at h
  · cases h
  rename_i σ₁ ok fr hf
  obtain ⟨h1, p1⟩ := f_freshest F hok h0 hf
  have k1 : okp σ₁.pl := by rw [p1]; exact hok
  simp only [] at h
  split at h
  · split at h
    · cases h
    rename_i σ₂ st hs2
    obtain ⟨h2, p2⟩ := f_staged F k1 h1 hs2
    have k2 : okp σ₂.pl := by rw [p2]; exact k1
    split at h
    · simp only [Except.ok.injEq, Prod.mk.injEq] at h; obtain ⟨rfl, _⟩ := h; exact ⟨h2, p2.trans p1⟩
    · split at h
      · cases h
      rename_i σ₃ pin hp
      obtain ⟨h3, p3⟩ := f_pinned F k2 h2 hp
      split at h <;> (simp only [Except.ok.injEq, Prod.mk.injEq] at h; obtain ⟨rfl, _⟩ := h
                      exact ⟨h3, p3.trans (p2.trans p1)⟩)
  · simp only [Except.ok.injEq, Prod.mk.injEq] at h; obtain ⟨rfl, _⟩ := h; exact ⟨h1, p1⟩

theorem f_issueSoftVote (F : Frame P okp Φ Ψ) {σ σ' : State} {d : Nat} {acts : List Action} (hok : okp σ.pl) (h0 : Φ σ.root)
    (h : issueSoftVote P σ d = .ok (σ', acts)) : Φ σ'.root := by
  unfold issueSoftVote at h
  split at h
  · cases h
  rename_i σ₁ frozen hf
  obtain ⟨h1, p1⟩ := f_freezeProposal F hok h0 hf
  split at h
  · cases h
  rename_i σ₂ ns hn
  obtain ⟨h2, _⟩ := f_nextStatus F (by rw [p1]; exact hok) h1 hn
  simp only [] at h
  repeat' split at h
  all_goals (simp only [Except.ok.injEq, Prod.mk.injEq] at h; obtain ⟨rfl, _⟩ := h; exact h2)

theorem f_issueNextVote (F : Frame P okp Φ Ψ) {σ σ' : State} {d : Nat} {acts : List Action} (hok : okp σ.pl) (h0 : Φ σ.root)
    (h : issueNextVote P σ d = .ok (σ', acts)) : Φ σ'.root := by
  unfold issueNextVote at h
  split at h
  · cases h
  rename_i σ₁ acts₁ hp
  obtain ⟨h1, p1⟩ := f_partitionPolicy F hok h0 hp
  have k1 : okp σ₁.pl := by rw [p1]; exact hok
  split at h
  · cases h
  rename_i σ₂ ans hs2
  obtain ⟨h2, p2⟩ := f_staged F k1 h1 hs2
  simp only [] at h
  split at h
  · simp only [Except.ok.injEq, Prod.mk.injEq] at h; obtain ⟨rfl, _⟩ := h; exact h2
  · split at h
    · cases h
    rename_i σ₃ ns hn
    obtain ⟨h3, _⟩ := f_nextStatus F (by rw [p2]; exact k1) h2 hn
    simp only [Except.ok.injEq, Prod.mk.injEq] at h; obtain ⟨rfl, _⟩ := h; exact h3

theorem f_issueFastVote (F : Frame P okp Φ Ψ) {σ σ' : State} {acts : List Action} (hok : okp σ.pl) (h0 : Φ σ.root)
    (h : issueFastVote P σ = .ok (σ', acts)) : Φ σ'.root := by
  unfold issueFastVote at h
  split at h
  · cases h
  rename_i σ₁ acts₁ hp
  obtain ⟨h1, p1⟩ := f_partitionPolicy F hok h0 hp
  have k1 : okp σ₁.pl := by rw [p1]; exact hok
  split at h
  · cases h
  rename_i σ₂ e1 hd1
  obtain ⟨h2, p2⟩ := f_dumpVotes F k1 h1 hd1
  have k2 : okp σ₂.pl := by rw [p2]; exact k1
  split at h
  · cases h
  rename_i σ₃ e2 hd2
  obtain ⟨h3, p3⟩ := f_dumpVotes F k2 h2 hd2
  have k3 : okp σ₃.pl := by rw [p3]; exact k2
  split at h
  · cases h
  rename_i σ₄ e3 hd3
  obtain ⟨h4, p4⟩ := f_dumpVotes F k3 h3 hd3
  have k4 : okp σ₄.pl := by rw [p4]; exact k3
  simp only [] at h
  split at h
  · cases h
  rename_i σ₅ ans hs5
  obtain ⟨h5, p5⟩ := f_staged F k4 h4 hs5
  split at h
  · simp only [Except.ok.injEq] at h
    split at h <;> (show Φ (σ', acts).1.root; rw [← h]; exact h5)
  · split at h
    · cases h
    rename_i σ₆ ns hn
    obtain ⟨h6, _⟩ := f_nextStatus F (by rw [p5]; exact k4) h5 hn
    repeat' split at h
    all_goals (simp only [Except.ok.injEq] at h
               show Φ (σ', acts).1.root; rw [← h]; exact h6)

end AlgoVerif.Lemmas.PlayerAttest
