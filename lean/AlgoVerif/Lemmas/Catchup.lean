import AlgoVerif.Model.Catchup
/-!
Invariants of the catchup acceptor `Model.Catchup` used by `Props.C30`.

* `WF` — the released waiters trail the ledger by at most one round (`notified ≤ last ≤ notified + 1`);
  `step_last` — one accepted event appends nothing, or exactly round `last + 1`.
* `TaskInv` — the prevDone / attempt invariant: whenever the task of round `r` holds a pair `p`, the events of that
  task since its latest `fetch`/`retry` are exactly `fetched r p`, then `contents r p.b ok` iff the contents check is
  marked done, then `auth r p.b p.c ok` iff the auth check is marked done (`expected`), and the marks are backed by
  the ground truth carried by `p`.
-/
namespace AlgoVerif.Lemmas.Catchup
open AlgoVerif.Model.Catchup

/-! ### `run` -/

theorem run_append (cfg : Cfg) (s : St) (a b : List Event) :
    run cfg s (a ++ b) = match run cfg s a with
      | .ok s' => run cfg s' b
      | .error x => .error x := by
  induction a generalizing s with
  | nil => simp [run]
  | cons e es ih =>
    simp only [List.cons_append, run]
    cases step cfg s e with
    | error x => simp
    | ok s' => simpa using ih s'

theorem run_snoc_ok {cfg : Cfg} {s s2 : St} {a : List Event} {e : Event} {post : List Event}
    (h : run cfg s (a ++ e :: post) = .ok s2) :
    ∃ s1 s1', run cfg s a = .ok s1 ∧ step cfg s1 e = .ok s1' ∧ run cfg s1' post = .ok s2 := by
  rw [run_append] at h
  cases h1 : run cfg s a with
  | error x => rw [h1] at h; simp at h
  | ok s1 =>
    rw [h1] at h
    simp only [run] at h
    cases h2 : step cfg s1 e with
    | error x => rw [h2] at h; simp at h
    | ok s1' => rw [h2] at h; exact ⟨s1, s1', rfl, h2, h⟩

/-! ### the ledger / waiter counters -/

def WF (s : St) : Prop := s.notified ≤ s.last ∧ s.last ≤ s.notified + 1

theorem writeReady_ok {cfg : Cfg} {s : St} {r : Nat} {b c : Id} (h : writeReady cfg s r b c = .ok ()) :
    ∃ p, s.task r = .have p cfg.vp cfg.vc ∧ p.b = b ∧ p.c = c ∧ r ≤ s.notified + 1 := by
  unfold writeReady at h
  split at h
  · rename_i p cD aD ht
    split at h; · simp at h
    split at h; · simp at h
    split at h; · simp at h
    split at h; · simp at h
    rename_i h1 h2 h3 h4
    have e1 : cD = cfg.vp := by simpa using h1
    have e2 : aD = cfg.vc := by simpa using h2
    have e3 : p.b = b ∧ p.c = c := by
      constructor
      · exact Classical.byContradiction fun hn => h3 (Or.inl hn)
      · exact Classical.byContradiction fun hn => h3 (Or.inr hn)
    subst e1 e2
    exact ⟨p, ht, e3.1, e3.2, by omega⟩
  · simp at h
  · simp at h

/-- one accepted event appends nothing, or exactly the round after the ledger's last one -/
theorem step_last {cfg : Cfg} {s s' : St} {e : Event} (h : step cfg s e = .ok s') (wf : WF s) :
    WF s' ∧ ((appended [e] = [] ∧ s'.last = s.last) ∨ (appended [e] = [s.last + 1] ∧ s'.last = s.last + 1)) := by
  cases e with
  | fetch r =>
    simp only [step, stepFetch] at h
    split at h
    · split at h
      · simp at h
      · cases h; exact ⟨wf, .inl ⟨rfl, rfl⟩⟩
    · simp at h
  | retry r =>
    simp only [step, stepRetry] at h
    split at h
    · cases h; exact ⟨wf, .inl ⟨rfl, rfl⟩⟩
    · simp at h
    · simp at h
  | fetched r p =>
    simp only [step, stepFetched] at h
    split at h
    · split at h <;> (cases h; exact ⟨wf, .inl ⟨rfl, rfl⟩⟩)
    · simp at h
  | fetcherr r =>
    simp only [step, stepFetchErr] at h
    split at h
    · cases h; exact ⟨wf, .inl ⟨rfl, rfl⟩⟩
    · simp at h
  | contents r b v =>
    simp only [step, stepContents] at h
    split at h
    · split at h; · simp at h
      split at h; · simp at h
      split at h; · simp at h
      split at h <;> (cases h; exact ⟨wf, .inl ⟨rfl, rfl⟩⟩)
    · simp at h
    · simp at h
  | auth r b c v =>
    simp only [step, stepAuth] at h
    split at h
    · split at h; · simp at h
      split at h; · simp at h
      split at h; · simp at h
      split at h; · simp at h
      split at h; · simp at h
      split at h <;> (cases h; exact ⟨wf, .inl ⟨rfl, rfl⟩⟩)
    · simp at h
    · simp at h
    · simp at h
  | wrote r b c =>
    simp only [step, stepWrote] at h
    split at h
    · simp at h
    · rename_i hw
      obtain ⟨p, _, _, _, hr⟩ := writeReady_ok hw
      split at h
      · simp at h
      · rename_i hl
        cases h
        obtain ⟨w1, w2⟩ := wf
        have : r = s.last + 1 := by omega
        subst this
        refine ⟨⟨?_, ?_⟩, .inr ⟨rfl, rfl⟩⟩ <;> simp <;> omega
  | dup r b c =>
    simp only [step, stepDup] at h
    split at h
    · simp at h
    · split at h
      · simp at h
      · cases h; exact ⟨wf, .inl ⟨rfl, rfl⟩⟩
  | done r =>
    simp only [step, stepDone] at h
    split at h
    · rename_i hc
      cases h
      obtain ⟨w1, w2⟩ := wf
      refine ⟨⟨?_, ?_⟩, .inl ⟨rfl, rfl⟩⟩ <;> simp <;> omega
    · simp at h
  | ext r =>
    simp only [step, stepExt] at h
    split at h
    · rename_i hc
      cases h
      obtain ⟨w1, w2⟩ := wf
      obtain ⟨hc1, hc2⟩ := hc
      subst hc1
      refine ⟨⟨?_, ?_⟩, .inr ⟨rfl, rfl⟩⟩ <;> simp <;> omega
    · simp at h

theorem appended_cons (e : Event) (es : List Event) : appended (e :: es) = appended [e] ++ appended es := by
  cases e <;> simp [appended]

/-- the appended rounds of an accepted trace are `last+1, last+2, …` -/
theorem run_appended {cfg : Cfg} {es : List Event} {s s' : St} (h : run cfg s es = .ok s') (wf : WF s) :
    WF s' ∧ s.last ≤ s'.last ∧ appended es = List.range' (s.last + 1) (s'.last - s.last) := by
  induction es generalizing s with
  | nil =>
    simp only [run] at h
    cases h
    exact ⟨wf, Nat.le_refl _, by simp [appended]⟩
  | cons e es ih =>
    simp only [run] at h
    cases h1 : step cfg s e with
    | error x => rw [h1] at h; simp at h
    | ok s1 =>
      rw [h1] at h
      obtain ⟨wf1, hcase⟩ := step_last h1 wf
      obtain ⟨wf', hle, happ⟩ := ih h wf1
      rw [appended_cons, happ]
      rcases hcase with ⟨ha, hl⟩ | ⟨ha, hl⟩
      · rw [ha, hl]
        exact ⟨wf', by omega, by simp⟩
      · rw [ha, hl]
        refine ⟨wf', by omega, ?_⟩
        have : s'.last - s.last = (s'.last - (s.last + 1)) + 1 := by omega
        rw [this, List.range'_succ]
        simp

/-! ### attempts -/

theorem attempt_snoc (r : Nat) (hist : List Event) (e : Event) :
    attempt r (hist ++ [e]) = attemptStep r (attempt r hist) e := by
  simp [attempt, List.foldl_append]

theorem foldl_attempt_mem (r : Nat) (es acc : List Event) :
    ∀ x ∈ es.foldl (attemptStep r) acc, x ∈ acc ∨ x ∈ es := by
  induction es generalizing acc with
  | nil => intro x hx; exact .inl hx
  | cons e es ih =>
    intro x hx
    simp only [List.foldl_cons] at hx
    rcases ih _ x hx with h | h
    · unfold attemptStep at h
      split at h
      · simp at h
      · simp only [List.mem_append, List.mem_singleton] at h
        rcases h with h | h
        · exact .inl h
        · exact .inr (by simp [h])
      · exact .inl h
    · exact .inr (List.mem_cons_of_mem _ h)

/-- the events of the current attempt are events of the trace -/
theorem attempt_subset (r : Nat) (es : List Event) : ∀ x ∈ attempt r es, x ∈ es := by
  intro x hx
  rcases foldl_attempt_mem r es [] x hx with h | h
  · simp at h
  · exact h

theorem foldl_attempt_filter (r : Nat) (es acc : List Event) (h : ∀ x ∈ es, taskEvent r x ≠ some true) :
    es.foldl (attemptStep r) acc = acc ++ es.filter (fun x => taskEvent r x == some false) := by
  induction es generalizing acc with
  | nil => simp
  | cons e es ih =>
    have he := h e (by simp)
    have hes : ∀ x ∈ es, taskEvent r x ≠ some true := fun x hx => h x (List.mem_cons_of_mem _ hx)
    simp only [List.foldl_cons]
    rw [ih _ hes]
    unfold attemptStep
    cases hte : taskEvent r e with
    | none => simp [hte]
    | some v =>
      cases v with
      | true => exact absurd hte he
      | false => simp [hte]

/-- `attempt` forgets everything up to and including the latest `fetch r` / `retry r` … -/
theorem attempt_restart (r : Nat) (a b : List Event) (e : Event) (he : taskEvent r e = some true) :
    attempt r (a ++ e :: b) = attempt r b := by
  simp only [attempt, List.foldl_append, List.foldl_cons]
  congr 1
  simp [attemptStep, he]

/-- … and keeps, in order, exactly the events of the task of round `r` after it -/
theorem attempt_filter (r : Nat) (b : List Event) (h : ∀ x ∈ b, taskEvent r x ≠ some true) :
    attempt r b = b.filter (fun x => taskEvent r x == some false) := by
  simpa [attempt] using foldl_attempt_filter r b [] h

/-! ### the attempt invariant -/

def taskOk (cfg : Cfg) (hist : List Event) (r : Nat) : Task → Prop
  | .have p cD aD => attempt r hist = expected r p cD aD ∧ p.brnd = r ∧ p.crnd = r ∧
      (cD = true → p.cm = true ∧ cfg.vp = true) ∧ (aD = true → p.au = true ∧ cfg.vc = true)
  | .fetching => attempt r hist = []
  | _ => True

def TaskInv (cfg : Cfg) (hist : List Event) (f : Nat → Task) : Prop := ∀ r, taskOk cfg hist r (f r)

theorem taskOk_congr {cfg : Cfg} {h1 h2 : List Event} {r : Nat} {t : Task} (h : attempt r h2 = attempt r h1) :
    taskOk cfg h1 r t → taskOk cfg h2 r t := by
  cases t <;> simp [taskOk, h]

theorem inv_update {cfg : Cfg} {hist : List Event} {f : Nat → Task} {e : Event} {r0 : Nat} {t : Task}
    (hinv : TaskInv cfg hist f) (hne : ∀ r, r ≠ r0 → taskEvent r e = none)
    (h0 : taskOk cfg (hist ++ [e]) r0 t) : TaskInv cfg (hist ++ [e]) (setTask f r0 t) := by
  intro r
  by_cases hr : r = r0
  · subst hr; simpa [setTask] using h0
  · simp only [setTask, if_neg hr]
    apply taskOk_congr _ (hinv r)
    rw [attempt_snoc]; simp [attemptStep, hne r hr]

theorem inv_keep {cfg : Cfg} {hist : List Event} {f : Nat → Task} {e : Event}
    (hinv : TaskInv cfg hist f) (hne : ∀ r, taskEvent r e = none) : TaskInv cfg (hist ++ [e]) f := by
  intro r
  apply taskOk_congr _ (hinv r)
  rw [attempt_snoc]; simp [attemptStep, hne r]

theorem step_inv {cfg : Cfg} {s s' : St} {e : Event} {hist : List Event} (h : step cfg s e = .ok s')
    (hinv : TaskInv cfg hist s.task) : TaskInv cfg (hist ++ [e]) s'.task := by
  cases e with
  | fetch r =>
    simp only [step, stepFetch] at h
    split at h
    · split at h
      · simp at h
      · cases h
        refine inv_update hinv (fun r' hr' => by simp [taskEvent, Ne.symm hr']) ?_
        simp [taskOk, attempt_snoc, attemptStep, taskEvent]
    · simp at h
  | retry r =>
    simp only [step, stepRetry] at h
    split at h
    · cases h
      refine inv_update hinv (fun r' hr' => by simp [taskEvent, Ne.symm hr']) ?_
      simp [taskOk, attempt_snoc, attemptStep, taskEvent]
    · simp at h
    · simp at h
  | fetched r p =>
    simp only [step, stepFetched] at h
    split at h
    · rename_i ht
      have hprev := hinv r
      rw [ht] at hprev
      simp only [taskOk] at hprev
      split at h
      · rename_i hrr
        cases h
        refine inv_update hinv (fun r' hr' => by simp [taskEvent, Ne.symm hr']) ?_
        simp [taskOk, attempt_snoc, attemptStep, taskEvent, hprev, expected, hrr.1, hrr.2]
      · cases h
        refine inv_update hinv (fun r' hr' => by simp [taskEvent, Ne.symm hr']) ?_
        simp [taskOk]
    · simp at h
  | fetcherr r =>
    simp only [step, stepFetchErr] at h
    split at h
    · cases h
      refine inv_update hinv (fun r' hr' => by simp [taskEvent, Ne.symm hr']) ?_
      simp [taskOk]
    · simp at h
  | contents r b v =>
    simp only [step, stepContents] at h
    split at h
    · rename_i p ht
      have hprev := hinv r
      rw [ht] at hprev
      simp only [taskOk] at hprev
      split at h; · simp at h
      split at h; · simp at h
      split at h; · simp at h
      rename_i hvp hb hv
      split at h
      · rename_i hvt
        cases h
        refine inv_update hinv (fun r' hr' => by simp [taskEvent, Ne.symm hr']) ?_
        have hb' : p.b = b := by simpa using hb
        have hv' : v = p.cm := by simpa using hv
        have hvp' : cfg.vp = true := by simpa using hvp
        subst hb'
        simp only [taskOk, attempt_snoc, attemptStep, taskEvent, if_true, hprev.1]
        refine ⟨?_, hprev.2.1, hprev.2.2.1, ?_, ?_⟩
        · simp [expected, hvt]
        · intro _; exact ⟨by rw [← hv']; exact hvt, hvp'⟩
        · intro hf; simp at hf
      · cases h
        refine inv_update hinv (fun r' hr' => by simp [taskEvent, Ne.symm hr']) ?_
        simp [taskOk]
    · simp at h
    · simp at h
  | auth r b c v =>
    simp only [step, stepAuth] at h
    split at h
    · rename_i p cD ht
      have hprev := hinv r
      rw [ht] at hprev
      simp only [taskOk] at hprev
      split at h; · simp at h
      split at h; · simp at h
      split at h; · simp at h
      split at h; · simp at h
      split at h; · simp at h
      rename_i hvc hcd hbc hlb hv
      split at h
      · rename_i hvt
        cases h
        refine inv_update hinv (fun r' hr' => by simp [taskEvent, Ne.symm hr']) ?_
        have hb' : p.b = b := Classical.byContradiction fun hn => hbc (Or.inl hn)
        have hc' : p.c = c := Classical.byContradiction fun hn => hbc (Or.inr hn)
        have hv' : v = p.au := by simpa using hv
        have hvc' : cfg.vc = true := by simpa using hvc
        subst hb' hc'
        simp only [taskOk, attempt_snoc, attemptStep, taskEvent, if_true, hprev.1]
        refine ⟨?_, hprev.2.1, hprev.2.2.1, hprev.2.2.2.1, ?_⟩
        · simp [expected, hvt]
        · intro _; exact ⟨by rw [← hv']; exact hvt, hvc'⟩
      · cases h
        refine inv_update hinv (fun r' hr' => by simp [taskEvent, Ne.symm hr']) ?_
        simp [taskOk]
    · simp at h
    · simp at h
    · simp at h
  | wrote r b c =>
    simp only [step, stepWrote] at h
    split at h
    · simp at h
    · split at h
      · simp at h
      · cases h
        refine inv_update hinv (fun r' hr' => by simp [taskEvent, Ne.symm hr']) ?_
        simp [taskOk]
  | dup r b c =>
    simp only [step, stepDup] at h
    split at h
    · simp at h
    · split at h
      · simp at h
      · cases h
        refine inv_update hinv (fun r' hr' => by simp [taskEvent, Ne.symm hr']) ?_
        simp [taskOk]
  | done r =>
    simp only [step, stepDone] at h
    split at h
    · cases h; exact inv_keep hinv (fun _ => rfl)
    · simp at h
  | ext r =>
    simp only [step, stepExt] at h
    split at h
    · cases h; exact inv_keep hinv (fun _ => rfl)
    · simp at h

theorem run_inv {cfg : Cfg} {es : List Event} {s s' : St} {hist : List Event} (h : run cfg s es = .ok s')
    (hinv : TaskInv cfg hist s.task) : TaskInv cfg (hist ++ es) s'.task := by
  induction es generalizing s hist with
  | nil => simp only [run] at h; cases h; simpa using hinv
  | cons e es ih =>
    simp only [run] at h
    cases h1 : step cfg s e with
    | error x => rw [h1] at h; simp at h
    | ok s1 =>
      rw [h1] at h
      have := ih h (step_inv h1 hinv)
      simpa using this

theorem init_inv (cfg : Cfg) (k : Nat) : TaskInv cfg [] (init k).task := by
  intro r; simp [init, taskOk]

/-! ### the certificate path -/

def ctaskOk (r : Nat) (hist : List CEvent) : CTask → Prop
  | .got p => CEvent.answer p ∈ hist ∧ p.brnd = r ∧ p.crnd = r
  | _ => True

theorem cstep_inv {r : Nat} {tr : Id} {t t' : CTask} {e : CEvent} {hist : List CEvent}
    (h : cstep r tr t e = .ok t') (_hinv : ctaskOk r hist t) : ctaskOk r (hist ++ [e]) t' := by
  cases e with
  | request =>
    simp only [cstep] at h
    split at h
    · cases h; trivial
    · split at h
      · simp at h
      · cases h; trivial
    · simp at h
  | answer p =>
    simp only [cstep] at h
    split at h
    · split at h
      · rename_i hr
        cases h
        exact ⟨by simp, hr.1, hr.2⟩
      · cases h; trivial
    · simp at h
  | err =>
    simp only [cstep] at h
    split at h
    · cases h; trivial
    · simp at h
  | ensure b c =>
    simp only [cstep] at h
    split at h
    · split at h; · simp at h
      split at h; · simp at h
      split at h; · simp at h
      split at h; · simp at h
      cases h; trivial
    · simp at h

theorem crun_inv {r : Nat} {tr : Id} {es : List CEvent} {t t' : CTask} {hist : List CEvent}
    (h : crun r tr t es = .ok t') (hinv : ctaskOk r hist t) : ctaskOk r (hist ++ es) t' := by
  induction es generalizing t hist with
  | nil => simp only [crun] at h; cases h; simpa using hinv
  | cons e es ih =>
    simp only [crun] at h
    cases h1 : cstep r tr t e with
    | error x => rw [h1] at h; simp at h
    | ok t1 =>
      rw [h1] at h
      have := ih h (cstep_inv h1 hinv)
      simpa using this

theorem crun_append (r : Nat) (tr : Id) (t : CTask) (a b : List CEvent) :
    crun r tr t (a ++ b) = match crun r tr t a with
      | .ok t' => crun r tr t' b
      | .error x => .error x := by
  induction a generalizing t with
  | nil => simp [crun]
  | cons e es ih =>
    simp only [List.cons_append, crun]
    cases cstep r tr t e with
    | error x => simp
    | ok t' => simpa using ih t'

end AlgoVerif.Lemmas.Catchup
