import AlgoVerif.Lemmas.OnlineAcctsRows
/-! Cache-list lemmas behind C13: `cacheRead`, `writeHistory`, `cacheAppend`, `pruneList`. -/
namespace AlgoVerif.Lemmas.OnlineAccts
open AlgoVerif.Spec.OnlineHistory AlgoVerif.Model.OnlineAccts

abbrev Ent := Nat × ORec
def EntSorted (l : List Ent) : Prop := l.Pairwise (fun x y => y.1 < x.1)
def EntBelow (l : List Ent) (b : Nat) : Prop := ∀ e ∈ l, e.1 < b
def entOf (r : Row) : Ent := (r.upd, r.data)

theorem cacheRead_cons (e : Ent) (l : List Ent) (rnd : Nat) :
    cacheRead (e :: l) rnd = if e.1 ≤ rnd then some e.2 else cacheRead l rnd := by
  unfold cacheRead
  by_cases h : e.1 ≤ rnd <;> simp [List.find?, h]

theorem cacheRead_nil (rnd : Nat) : cacheRead [] rnd = none := rfl

theorem cacheRead_map (rows : List Row) (rnd : Nat) :
    cacheRead (rows.map entOf) rnd = (rowAt rows rnd).map (·.data) := by
  induction rows with
  | nil => rfl
  | cons x xs ih =>
    rw [List.map_cons, cacheRead_cons, rowAt_cons]
    by_cases h : x.upd ≤ rnd
    · simp [entOf, h]
    · simp [entOf, h, ih]

theorem entSorted_map {rows : List Row} (h : RowsSorted rows) : EntSorted (rows.map entOf) := by
  unfold EntSorted RowsSorted at *
  rw [List.pairwise_map]
  exact h

theorem entBelow_map {rows : List Row} {b : Nat} (h : RowsBelow rows b) : EntBelow (rows.map entOf) b := by
  intro e he
  obtain ⟨r, hr, rfl⟩ := List.mem_map.mp he
  exact h r hr

/-- the history of an address, written oldest first into an empty slot, ends up as the rows themselves (newest first) -/
theorem writeHistory_rev : ∀ (ys acc : List Ent), EntSorted (ys.reverse ++ acc) → writeHistory acc ys = some (ys.reverse ++ acc) := by
  intro ys
  induction ys with
  | nil => intro acc _; rfl
  | cons e rest ih =>
    intro acc hs
    have hs' : EntSorted (rest.reverse ++ (e :: acc)) := by
      simpa [List.reverse_cons, List.append_assoc] using hs
    have hwf : writeFront acc e = some (e :: acc) := by
      cases acc with
      | nil => rfl
      | cons f tl =>
        have h1 : EntSorted (e :: f :: tl) := by
          unfold EntSorted at hs' ⊢
          exact (List.pairwise_append.mp hs').2.1
        have : f.1 < e.1 := (List.pairwise_cons.mp h1).1 f (by simp)
        have hn : ¬ e.1 ≤ f.1 := by omega
        simp [writeFront, hn]
    simp only [writeHistory, hwf]
    rw [ih (e :: acc) hs']
    simp [List.reverse_cons, List.append_assoc]

theorem writeHistory_rows {rows : List Row} (h : RowsSorted rows) :
    writeHistory [] (historyAsc rows) = some (rows.map entOf) := by
  have := writeHistory_rev (historyAsc rows) [] (by
    unfold historyAsc
    simp only [List.reverse_reverse, List.append_nil]
    exact entSorted_map h)
  rw [this]
  unfold historyAsc
  simp [entOf]

/-- every entry at most `D`: a read at or above `D` is a read at `D` -/
theorem cacheRead_above {l : List Ent} {D rnd : Nat} (hb : EntBelow l (D + 1)) (h : D ≤ rnd) :
    cacheRead l rnd = cacheRead l D := by
  cases l with
  | nil => rfl
  | cons e tl =>
    have : e.1 < D + 1 := hb e (by simp)
    have h1 : e.1 ≤ rnd := by omega
    have h2 : e.1 ≤ D := by omega
    simp [cacheRead_cons, h1, h2]

theorem rowAt_above {rows : List Row} {D rnd : Nat} (hb : RowsBelow rows (D + 1)) (h : D ≤ rnd) :
    rowAt rows rnd = rowAt rows D := by
  rw [rowAt_all_le rows rnd (fun r hr => by have := hb r hr; omega), rowAt_all_le rows D hb]

/-- `writeFrontIfExist` for the rows a commit inserted: nothing for an address that is not cached, otherwise they go in front -/
theorem cacheAppend_eq : ∀ (news : List Row) (l : List Ent) (D : Nat), RowsSorted news → (∀ r ∈ news, D < r.upd) →
    EntBelow l (D + 1) → cacheAppend l news = if l = [] then [] else news.map entOf ++ l := by
  intro news
  induction news with
  | nil => intro l D _ _ _; by_cases h : l = [] <;> simp [cacheAppend, h]
  | cons n news ih =>
    intro l D hs hn hb
    have hp := List.pairwise_cons.mp hs
    have ih' := ih l D hp.2 (fun r hr => hn r (by simp [hr])) hb
    unfold cacheAppend at ih' ⊢
    rw [List.reverse_cons, List.foldl_append, ih']
    by_cases hl : l = []
    · simp [hl]
    · simp only [hl, if_false, List.foldl_cons, List.foldl_nil, List.map_cons]
      cases hm : (news.map entOf ++ l) with
      | nil => simp at hm; exact absurd hm.2 hl
      | cons f tl =>
        have hf : f.1 < n.upd := by
          have hmem : f ∈ news.map entOf ++ l := by rw [hm]; simp
          rcases List.mem_append.mp hmem with h | h
          · obtain ⟨r, hr, rfl⟩ := List.mem_map.mp h
            exact hp.1 r hr
          · have := hb f h; have := hn n (by simp); omega
        have : ¬ n.upd ≤ f.1 := by omega
        simp [this, entOf, hm]


/-! ### prune -/

theorem dropOld_suffix (t : Nat) : ∀ xs : List Ent, ∃ j, dropOld t xs = xs.drop j := by
  intro xs
  induction xs with
  | nil => exact ⟨0, rfl⟩
  | cons x tl ih =>
    cases tl with
    | nil => exact ⟨0, rfl⟩
    | cons y rest =>
      by_cases h : y.1 < t
      · obtain ⟨j, hj⟩ := ih
        refine ⟨j + 1, ?_⟩
        simp only [dropOld, h, if_true, List.drop_succ_cons]
        exact hj
      · exact ⟨0, by simp [dropOld, h]⟩

/-- pruning only ever cuts the old end of a cache list -/
theorem pruneList_prefix (t : Nat) (l : List Ent) : ∃ k, pruneList t l = l.take k := by
  obtain ⟨j, hj⟩ := dropOld_suffix t l.reverse
  have h1 : (dropOld t l.reverse).reverse = l.take (l.length - j) := by
    rw [hj, List.drop_reverse, List.reverse_reverse]
  unfold pruneList
  rw [h1]
  split
  · rename_i e he
    by_cases hv : e.2.votingEmpty = true
    · exact ⟨0, by simp [hv]⟩
    · exact ⟨l.length - j, by simp [hv, he]⟩
  · exact ⟨l.length - j, rfl⟩

theorem find?_of_take {α : Type} (p : α → Bool) (l : List α) (k : Nat) (x : α) (h : (l.take k).find? p = some x) :
    l.find? p = some x := by
  have h1 : l.find? p = (l.take k ++ l.drop k).find? p := by rw [List.take_append_drop]
  rw [h1, List.find?_append, h]
  rfl

theorem cacheRead_of_take {l : List Ent} {k rnd : Nat} {r : ORec} (h : cacheRead (l.take k) rnd = some r) :
    cacheRead l rnd = some r := by
  unfold cacheRead at *
  cases hf : (l.take k).find? (fun e => decide (e.1 ≤ rnd)) with
  | none => simp [hf] at h
  | some e =>
    rw [hf] at h
    rw [find?_of_take _ l k e hf]
    exact h

theorem entSorted_take {l : List Ent} (k : Nat) (h : EntSorted l) : EntSorted (l.take k) :=
  List.Pairwise.sublist (List.take_sublist k l) h

theorem entBelow_take {l : List Ent} {b : Nat} (k : Nat) (h : EntBelow l b) : EntBelow (l.take k) b :=
  fun e he => h e (List.mem_of_mem_take he)

/-- after the rows of a commit went in front of both the DB rows and the cached list of an address, a read above the old
    DB round finds the same record in both, provided they agreed at the old DB round -/
theorem cache_rows_parallel : ∀ (news : List Row) (l : List Ent) (rows0 : List Row) (D : Nat) (c : ORec),
    EntBelow l (D + 1) → RowsBelow rows0 (D + 1) → cacheRead l D = some c → recOfRow (rowAt rows0 D) = c →
    ∀ rnd, D ≤ rnd → cacheRead (news.map entOf ++ l) rnd = some (recOfRow (rowAt (news ++ rows0) rnd)) := by
  intro news
  induction news with
  | nil =>
    intro l rows0 D c hl hr hc hrow rnd hrnd
    simp only [List.map_nil, List.nil_append]
    rw [cacheRead_above hl hrnd, rowAt_above hr hrnd, hc, hrow]
  | cons n news ih =>
    intro l rows0 D c hl hr hc hrow rnd hrnd
    simp only [List.map_cons, List.cons_append, cacheRead_cons, rowAt_cons, entOf]
    by_cases h : n.upd ≤ rnd
    · simp [h, recOfRow]
    · simp only [h, if_false]
      exact ih l rows0 D c hl hr hc hrow rnd hrnd

end AlgoVerif.Lemmas.OnlineAccts
