/-
C29: the msgpack value of a `TxGroup` (Model.Commitments.txGroupV) is canonical in the sense of C40, so the concrete
`msgpackGroup` encoder inherits injectivity from `Props.C40.enc_inj`.
-/
import AlgoVerif.Lemmas.Commitments
import AlgoVerif.Props.C40
namespace Lemmas.Commitments
open Model.Commitments
open AlgoVerif.Msgpack (V wfL wfB wfM sortedL sortedB sortedM sortedKeys Canon canonB)

theorem wfL_bins : ∀ (ids : List Bytes), (∀ id ∈ ids, id.length = 32) → wfL (ids.map V.bin) = true
  | [], _ => by simp [wfL]
  | a :: r, h => by
    have ha : a.length = 32 := h a (by simp)
    simp only [List.map_cons, wfL, wfB, ha, Bool.and_eq_true, decide_eq_true_eq]
    exact ⟨by omega, wfL_bins r (fun id hid => h id (by simp [hid]))⟩

theorem sortedL_bins : ∀ (ids : List Bytes), sortedL (ids.map V.bin) = true
  | [] => by simp [sortedL]
  | a :: r => by simp [sortedL, sortedB, sortedL_bins r]

theorem txGroupV_canon (ids : List Bytes) (h32 : ∀ id ∈ ids, id.length = 32) (hn : ids.length < 4294967296) :
    Canon (txGroupV ids) := by
  unfold Canon canonB txGroupV
  by_cases he : ids = []
  · simp [he, wfB, wfM, sortedB, sortedKeys, sortedM]
  · simp [he, wfB, wfM, sortedB, sortedKeys, sortedM, wfL_bins ids h32, sortedL_bins ids, hn]

end Lemmas.Commitments
