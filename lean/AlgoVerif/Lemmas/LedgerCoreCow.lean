/-
Lemmas.LedgerCoreCow — the copy-on-write layers (C19):
* `Steps`: every modelled operation is a composition of writes to the innermost layer (parents are never written);
* well-formedness (`Layer.WF`) and coherence (`Coherent`) of a child are kept by all operations;
* `commitToParent` followed by a lookup = the lookup through child and parent (accounts, asset params, holdings, creators,
  txn counter, seen tx ids).
-/
import AlgoVerif.Lemmas.LedgerCore
namespace AlgoVerif.Lemmas.LedgerCore
open AlgoVerif.Model.LedgerCore

/-! ## operations are compositions of writes to the innermost layer -/

inductive Steps (x : Ctx) : Layer → Layer → Prop
  | refl (l : Layer) : Steps x l l
  | acct {l l1 : Layer} (a : Addr) (v : Account) : Steps x l l1 → Steps x l (putAcct l1 a v)
  | holding {l l1 : Layer} (k : ResKey) (d : Delta Holding) : Steps x l l1 → d ≠ .absent → Steps x l (putHoldingD x l1 k d)
  | params {l l1 : Layer} (k : ResKey) (d : Delta AssetParams) : Steps x l l1 → d ≠ .absent → Steps x l (putParamsD x l1 k d)
  | creat {l l1 : Layer} (i : AssetId) (cr : Addr) (b : Bool) : Steps x l l1 → Steps x l (putCreatable l1 i cr b)
  | fees {l l1 : Layer} (f : Nat) : Steps x l l1 → Steps x l { l1 with fees := f }
  | tx {l l1 : Layer} (id : TxId) : Steps x l l1 → Steps x l (addTx l1 id)

theorem Steps.trans {x : Ctx} {a b c : Layer} (h1 : Steps x a b) (h2 : Steps x b c) : Steps x a c := by
  induction h2 with
  | refl => exact h1
  | acct a v _ ih => exact Steps.acct a v ih
  | holding k d _ hd ih => exact Steps.holding k d ih hd
  | params k d _ hd ih => exact Steps.params k d ih hd
  | creat i cr b _ ih => exact Steps.creat i cr b ih
  | fees f _ ih => exact Steps.fees f ih
  | tx id _ ih => exact Steps.tx id ih

syntax "steps_close" : tactic
macro_rules
  | `(tactic| steps_close) => `(tactic| first
      | assumption
      | exact Steps.refl _
      | (apply Steps.acct; steps_close)
      | (refine Steps.holding _ _ ?_ (by simp); steps_close)
      | (refine Steps.params _ _ ?_ (by simp); steps_close)
      | (apply Steps.creat; steps_close)
      | (apply Steps.fees; steps_close)
      | (apply Steps.tx; steps_close))

theorem move_steps {P : Params} {x : Ctx} {l l' : Layer} {s d : Addr} {amt : Nat}
    (h : move P x l s d amt = .ok l') : Steps x l l' := by
  unfold move at h
  simp only at h
  split at h
  · cases h
  · split at h
    · cases h
    · rename_i l1 h1
      have s1 : Steps x l l1 := by
        split at h1
        · split at h1
          · cases h1
          · cases h1; exact Steps.acct _ _ (Steps.refl _)
        · cases h1; exact Steps.refl _
      split at h
      · cases h
      · split at h
        · split at h
          · cases h
          · cases h; exact Steps.acct _ _ s1
        · cases h; exact s1

theorem takeFee_steps {P : Params} {x : Ctx} {l l' : Layer} {t : Txn} (h : takeFee P x l t = .ok l') : Steps x l l' := by
  unfold takeFee at h
  split at h
  · cases h
  · rename_i l1 hm
    have := move_steps hm
    split at h <;> cases h
    · exact this
    · exact Steps.fees _ this

theorem payment_steps {P : Params} {x : Ctx} {l l' : Layer} {t : Txn} (h : payment P x l t = .ok l') : Steps x l l' := by
  unfold payment at h
  simp only at h
  split at h
  · cases h
  · rename_i l1 h1
    have s1 : Steps x l l1 := by
      split at h1
      · exact move_steps h1
      · cases h1; exact Steps.refl _
    split at h
    · cases h; exact s1
    · split at h
      · cases h
      · split at h
        · cases h
        · rename_i l2 h2
          have s2 := s1.trans (move_steps h2)
          repeat' split at h
          all_goals first | cases h | skip
          exact Steps.acct _ _ s2

theorem keyreg_steps {P : Params} {x : Ctx} {l l' : Layer} {t : Txn} (h : keyreg P x l t = .ok l') : Steps x l l' := by
  unfold keyreg at h
  simp only at h
  repeat' split at h
  all_goals first | cases h | skip
  all_goals steps_close

theorem assetConfig_steps {P : Params} {x : Ctx} {l l' : Layer} {t : Txn} {c : Nat}
    (h : assetConfig P x l t c = .ok l') : Steps x l l' := by
  unfold assetConfig at h
  simp only at h
  repeat' split at h
  all_goals first | cases h | skip
  all_goals steps_close

theorem takeOut_steps {x : Ctx} {l l' : Layer} {a : Addr} {i : AssetId} {amt : Nat} {b : Bool}
    (h : takeOut x l a i amt b = .ok l') : Steps x l l' := by
  unfold takeOut at h
  repeat' split at h
  all_goals first | cases h | skip
  all_goals steps_close

theorem putIn_steps {x : Ctx} {l l' : Layer} {a : Addr} {i : AssetId} {amt : Nat} {b : Bool}
    (h : putIn x l a i amt b = .ok l') : Steps x l l' := by
  unfold putIn at h
  repeat' split at h
  all_goals first | cases h | skip
  all_goals steps_close

theorem optIn_steps {P : Params} {x : Ctx} {l l' : Layer} {t : Txn} {s : Addr} {c : Bool}
    (h : optIn P x l t s c = .ok l') : Steps x l l' := by
  unfold optIn at h
  simp only at h
  repeat' split at h
  all_goals first | cases h | skip
  all_goals steps_close

theorem assetClose_steps {x : Ctx} {l l' : Layer} {t : Txn} {s : Addr} {c : Bool}
    (h : assetClose x l t s c = .ok l') : Steps x l l' := by
  unfold assetClose at h
  split at h
  · cases h; exact Steps.refl _
  · split at h
    · cases h
    · simp only at h
      split at h
      · cases h
      · split at h
        · cases h
        · split at h
          · cases h
          · split at h
            · cases h
            · rename_i l1 h1
              split at h
              · cases h
              · rename_i l2 h2
                have s2 := (takeOut_steps h1).trans (putIn_steps h2)
                repeat' split at h
                all_goals first | cases h | skip
                exact Steps.holding _ _ (Steps.acct _ _ s2) (by simp)

theorem assetTransfer_steps {P : Params} {x : Ctx} {l l' : Layer} {t : Txn}
    (h : assetTransfer P x l t = .ok l') : Steps x l l' := by
  unfold assetTransfer at h
  split at h
  · cases h
  · split at h
    · cases h
    · rename_i l1 h1
      split at h
      · cases h
      · rename_i l2 h2
        split at h
        · cases h
        · rename_i l3 h3
          exact (((optIn_steps h1).trans (takeOut_steps h2)).trans (putIn_steps h3)).trans (assetClose_steps h)

theorem assetFreeze_steps {x : Ctx} {l l' : Layer} {t : Txn} (h : assetFreeze x l t = .ok l') : Steps x l l' := by
  unfold assetFreeze at h
  repeat' split at h
  all_goals first | cases h | skip
  all_goals steps_close

theorem applyTxn_steps {P : Params} {x : Ctx} {l l' : Layer} {t : Txn} {c : Nat}
    (h : applyTxn P x l t c = .ok l') : Steps x l l' := by
  unfold applyTxn at h
  split at h
  · cases h
  · rename_i l1 h1
    refine (takeFee_steps h1).trans ?_
    unfold applyKind at h
    split at h
    · exact payment_steps h
    · exact keyreg_steps h
    · exact assetConfig_steps h
    · exact assetTransfer_steps h
    · exact assetFreeze_steps h

theorem evalTxn_steps {P : Params} {x : Ctx} {l l' : Layer} {g : List Txn} {t : Txn}
    (h : evalTxn P x l g t = .ok l') : Steps x l l' := by
  unfold evalTxn at h
  split at h
  · cases h
  · split at h
    · cases h
    · split at h
      · cases h
      · rename_i l1 h1
        split at h
        · cases h
        · cases h
          exact Steps.tx _ (applyTxn_steps h1)

theorem groupLoop_steps {P : Params} {x : Ctx} {g : List Txn} {g0 : Nat} :
    ∀ (ts : List Txn) (used i : Nat) (l l' : Layer), groupLoop P x g g0 used i l ts = .ok l' → Steps x l l' := by
  intro ts
  induction ts with
  | nil => intro used i l l' h; cases h; exact Steps.refl _
  | cons t r ih =>
    intro used i l l' h
    unfold groupLoop at h
    split at h
    · cases h
    · rename_i l1 h1
      split at h
      · cases h
      · split at h
        · cases h
        · split at h
          · cases h
          · exact (evalTxn_steps h1).trans (ih _ _ _ _ h)

/-! ## invariants kept along `Steps` -/

theorem wf_steps {x : Ctx} {l l' : Layer} (h : Steps x l l') (hw : Layer.WF l) : Layer.WF l' := by
  induction h with
  | refl => exact hw
  | acct a v _ ih => exact wf_putAcct ih a v
  | holding k d _ _ ih => exact wf_putHoldingD ih x k d
  | params k d _ _ ih => exact wf_putParamsD ih x k d
  | creat i cr b _ ih => exact wf_putCreatable ih i cr b
  | fees f _ ih => exact ⟨ih.accts, ih.res, ih.creat⟩
  | tx id _ ih => exact ⟨ih.accts, ih.res, ih.creat⟩

theorem modified_steps {x : Ctx} {l l' : Layer} (h : Steps x l l') {a : Addr} (ha : a ∈ modified l) : a ∈ modified l' := by
  induction h with
  | refl => exact ha
  | acct a' v _ ih => exact (modified_putAcct _ _ _ _).mpr (Or.inr ih)
  | holding k d _ _ ih => exact ih
  | params k d _ _ ih => exact ih
  | creat i cr b _ ih => exact ih
  | fees f _ ih => exact ih
  | tx id _ ih => exact ih

/-! ## coherence of the resource records of a child with what its parents show -/

theorem lookupParamsD_absent_tail {p : Layer} {ps : List Layer} {b : Base} {k : ResKey}
    (h : lookupParamsD (p :: ps) b k = .absent) : lookupParamsD ps b k = .absent := by
  unfold lookupParamsD at h
  split at h
  · rename_i r _
    split at h
    · exact h
    · rename_i hne; exact absurd h hne
  · exact h

theorem lookupHoldingD_absent_tail {p : Layer} {ps : List Layer} {b : Base} {k : ResKey}
    (h : lookupHoldingD (p :: ps) b k = .absent) : lookupHoldingD ps b k = .absent := by
  unfold lookupHoldingD at h
  split at h
  · rename_i r _
    split at h
    · exact h
    · rename_i hne; exact absurd h hne
  · exact h

/-- a record of the child says "absent" only where the parents show nothing either -/
def Coherent (x : Ctx) (l : Layer) : Prop :=
  ∀ k r, alookup k l.res = some r →
    (r.params = .absent → lookupParamsD x.parents x.base k = .absent) ∧
    (r.holding = .absent → lookupHoldingD x.parents x.base k = .absent)

theorem coherent_empty (x : Ctx) : Coherent x {} := by
  intro k r h; simp [alookup] at h

theorem coherent_steps {x : Ctx} {l l' : Layer} (h : Steps x l l') (hc : Coherent x l) : Coherent x l' := by
  induction h with
  | refl => exact hc
  | acct a v _ ih => exact ih
  | creat i cr b _ ih => exact ih
  | fees f _ ih => exact ih
  | tx id _ ih => exact ih
  | holding k d _ hd ih =>
    intro k' r hr
    simp only [putHoldingD, alookup_upsert] at hr
    split at hr
    · rename_i hk
      subst hk
      cases hr
      exact ⟨fun hp => lookupParamsD_absent_tail (p := _) hp, fun hh => absurd hh hd⟩
    · exact ih k' r hr
  | params k d _ hd ih =>
    intro k' r hr
    simp only [putParamsD, alookup_upsert] at hr
    split at hr
    · rename_i hk
      subst hk
      cases hr
      exact ⟨fun hp => absurd hp hd, fun hh => lookupHoldingD_absent_tail (p := _) hh⟩
    · exact ih k' r hr

/-! ## commitToParent: lookups after the merge = lookups through child and parent -/

/-- C19 `commitToParent_merge` (accounts) -/
theorem lookupAcct_commit (c p : Layer) (ps : List Layer) (b : Base) (hw : Layer.WF c) (a : Addr) :
    lookupAcct (commitToParent c p :: ps) b a = lookupAcct (c :: p :: ps) b a := by
  simp only [lookupAcct, commitToParent]
  rw [alookup_mergeInto _ _ hw.accts]
  cases alookup a c.accts <;> simp [Option.or]

theorem lookupParamsD_commit (c p : Layer) (ps : List Layer) (b : Base) (hw : Layer.WF c)
    (hc : Coherent ⟨p :: ps, b⟩ c) (k : ResKey) :
    lookupParamsD (commitToParent c p :: ps) b k = lookupParamsD (c :: p :: ps) b k := by
  have e1 : lookupParamsD (commitToParent c p :: ps) b k =
      match alookup k (mergeInto c.res p.res) with
      | some r => if r.params = .absent then lookupParamsD ps b k else r.params
      | none => lookupParamsD ps b k := rfl
  have e2 : lookupParamsD (c :: p :: ps) b k =
      match alookup k c.res with
      | some r => if r.params = .absent then lookupParamsD (p :: ps) b k else r.params
      | none => lookupParamsD (p :: ps) b k := rfl
  rw [e1, e2, alookup_mergeInto _ _ hw.res]
  cases hk : alookup k c.res with
  | none => simp only [Option.or]; rfl
  | some r =>
    simp only [Option.or]
    by_cases ha : r.params = .absent
    · rw [if_pos ha, if_pos ha]
      have := (hc k r hk).1 ha
      rw [this]; exact lookupParamsD_absent_tail this
    · rw [if_neg ha, if_neg ha]

theorem lookupHoldingD_commit (c p : Layer) (ps : List Layer) (b : Base) (hw : Layer.WF c)
    (hc : Coherent ⟨p :: ps, b⟩ c) (k : ResKey) :
    lookupHoldingD (commitToParent c p :: ps) b k = lookupHoldingD (c :: p :: ps) b k := by
  have e1 : lookupHoldingD (commitToParent c p :: ps) b k =
      match alookup k (mergeInto c.res p.res) with
      | some r => if r.holding = .absent then lookupHoldingD ps b k else r.holding
      | none => lookupHoldingD ps b k := rfl
  have e2 : lookupHoldingD (c :: p :: ps) b k =
      match alookup k c.res with
      | some r => if r.holding = .absent then lookupHoldingD (p :: ps) b k else r.holding
      | none => lookupHoldingD (p :: ps) b k := rfl
  rw [e1, e2, alookup_mergeInto _ _ hw.res]
  cases hk : alookup k c.res with
  | none => simp only [Option.or]; rfl
  | some r =>
    simp only [Option.or]
    by_cases ha : r.holding = .absent
    · rw [if_pos ha, if_pos ha]
      have := (hc k r hk).2 ha
      rw [this]; exact lookupHoldingD_absent_tail this
    · rw [if_neg ha, if_neg ha]

theorem lookupCreator_commit (c p : Layer) (ps : List Layer) (b : Base) (hw : Layer.WF c) (i : AssetId) :
    lookupCreator (commitToParent c p :: ps) b i = lookupCreator (c :: p :: ps) b i := by
  simp only [lookupCreator, commitToParent]
  rw [alookup_mergeInto _ _ hw.creat]
  cases alookup i c.creat <;> simp [Option.or]

theorem counter_commit (c p : Layer) (ps : List Layer) (b : Base) :
    counterOf ⟨ps, b⟩ (commitToParent c p) = counterOf ⟨p :: ps, b⟩ c := by
  simp only [counterOf, commitToParent, List.map_cons, List.sum_cons]
  omega

theorem seenTx_commit (c p : Layer) (ps : List Layer) (b : Base) (id : TxId) :
    seenTx ⟨ps, b⟩ (commitToParent c p) id = seenTx ⟨p :: ps, b⟩ c id := by
  simp only [seenTx, commitToParent, List.any_cons, List.mem_append]
  by_cases h1 : id ∈ c.txids <;> by_cases h2 : id ∈ p.txids <;> simp [h1, h2]

end AlgoVerif.Lemmas.LedgerCore
