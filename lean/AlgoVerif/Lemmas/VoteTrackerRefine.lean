import AlgoVerif.Lemmas.VoteTrackerHist
import AlgoVerif.Lemmas.VoteTrackerModel
/-! The refinement step: `handle` maps a state that `Refines vs` to one that `Refines (vs ++ [x])`. -/
namespace AlgoVerif.Lemmas.VoteTracker
open AlgoVerif.Model.VoteTracker AlgoVerif.Spec.VoteTracker

/-! ### reading a refined state -/

theorem findEq_none_iff {vs : List Vote} {t : Tracker} (hR : Refines vs t) (s : Nat) :
    findEq t.equivocators s = none ↔ ¬ IsEquiv vs s := by
  unfold findEq
  rw [List.find?_eq_none, ← hR.eqMem s]
  constructor
  · rintro h ⟨e, he, hs⟩
    exact h e he (by simp [hs])
  · intro h e he hs
    exact h ⟨e, he, by simpa using hs⟩

theorem findVoter_some {l : List Vote} {s : Nat} {old : Vote} (h : findVoter l s = some old) :
    old ∈ l ∧ old.sender = s := by
  unfold findVoter at h
  exact ⟨List.mem_of_find?_eq_some h, by simpa using List.find?_some h⟩

theorem findVoter_none {l : List Vote} {s : Nat} (h : findVoter l s = none) : ∀ a ∈ l, a.sender ≠ s := by
  unfold findVoter at h
  intro a ha hs
  exact List.find?_eq_none.mp h a ha (by simp [hs])

theorem getCounter_refines {vs : List Vote} {t : Tracker} (hR : Refines vs t) (v : Nat) :
    getCounter t.counts v = ⟨regWeight vs v, votersOf vs v⟩ := by
  unfold getCounter
  rw [hR.counts v]
  unfold counterOf regWeight
  by_cases h : votersOf vs v = []
  · simp [h, zeroCounter, wsum]
  · simp [h]

theorem count_refines' {vs : List Vote} {t : Tracker} (hR : Refines vs t) (v : Nat) :
    count t v = specCount vs v := by
  unfold count specCount
  rw [getCounter_refines hR, hR.eqCount]

theorem mem_keys_iff {vs : List Vote} {t : Tracker} (hR : Refines vs t) (v : Nat) :
    v ∈ t.counts.map Prod.fst ↔ votersOf vs v ≠ [] := by
  constructor
  · intro h
    obtain ⟨c, hc⟩ := lookup_isSome_of_mem_keys h
    rw [hR.counts v] at hc
    unfold counterOf at hc
    intro h0
    simp [h0] at hc
  · intro h
    have := hR.counts v
    unfold counterOf at this
    rw [if_neg h] at this
    exact mem_keys_of_lookup this

theorem overAt_iff_specOver {c : Cfg} {vs : List Vote} {t : Tracker} (hR : Refines vs t) (v : Nat) :
    OverAt c t v ↔ SpecOver c vs v := by
  unfold OverAt SpecOver
  rw [mem_keys_iff hR, count_refines' hR]

theorem votersOf_mem {vs : List Vote} {v : Nat} {a : Vote} : a ∈ votersOf vs v ↔ a ∈ regular vs ∧ a.value = v := by
  unfold votersOf; simp

/-! ### the three ways the state evolves -/

/-- (E)/(D): history classes unchanged -/
theorem refines_same {vs : List Vote} {t : Tracker} {x : Vote} (hR : Refines vs t)
    (hf : firsts (vs ++ [x]) = firsts vs) (he : ∀ s, IsEquiv (vs ++ [x]) s ↔ IsEquiv vs s) :
    Refines (vs ++ [x]) t := by
  obtain ⟨h1, h2⟩ := spec_same hf he
  have hv : ∀ v, votersOf (vs ++ [x]) v = votersOf vs v := by intro v; unfold votersOf; rw [h1]
  exact {
    voters := by rw [hR.voters, h1]
    counts := by intro v; rw [hR.counts v]; unfold counterOf; rw [hv]
    keys := hR.keys
    eqMem := by intro s; rw [hR.eqMem s, he s]
    eqNodup := hR.eqNodup
    eqCount := by rw [hR.eqCount]; unfold eqWeight; rw [h2]
    eqSum := hR.eqSum
    eqPairs := by
      intro e he'
      obtain ⟨a, b, c⟩ := hR.eqPairs e he'
      exact ⟨a, List.mem_append_left _ b, List.mem_append_left _ c⟩ }

/-- (N): the first vote of a new sender -/
theorem refines_insert {vs : List Vote} {t : Tracker} {x : Vote} (hR : Refines vs t) (hn : ¬ Seen vs x.sender) :
    Refines (vs ++ [x])
      { t with
        voters := t.voters ++ [x]
        counts := setCounter t.counts x.value
          { count := (getCounter t.counts x.value).count + x.weight
            votes := (getCounter t.counts x.value).votes ++ [x] } } := by
  obtain ⟨h1, h2⟩ := regular_snoc_new hn
  obtain ⟨_, he⟩ := snoc_new hn
  have hv : ∀ v, votersOf (vs ++ [x]) v = votersOf vs v ++ (if x.value = v then [x] else []) := by
    intro v; unfold votersOf; rw [h1, List.filter_append]
    by_cases h : x.value = v <;> simp [h]
  exact {
    voters := by simp only [hR.voters, h1]
    counts := by
      intro v
      simp only [lookup_setCounter, getCounter_refines hR]
      by_cases h : v = x.value
      · subst h
        unfold counterOf
        rw [hv]
        simp [regWeight, wsum_append, wsum_cons, wsum_nil]
      · rw [if_neg h, hR.counts v]
        have : votersOf (vs ++ [x]) v = votersOf vs v := by
          rw [hv, if_neg (fun h' => h h'.symm), List.append_nil]
        unfold counterOf; rw [this]
    keys := keys_setCounter_nodup hR.keys _ _
    eqMem := by intro s; simp only []; rw [hR.eqMem s, he s]
    eqNodup := hR.eqNodup
    eqCount := by simp only [hR.eqCount]; unfold eqWeight; rw [h2]
    eqSum := hR.eqSum
    eqPairs := by
      intro e he'
      obtain ⟨a, b, c⟩ := hR.eqPairs e he'
      exact ⟨a, List.mem_append_left _ b, List.mem_append_left _ c⟩ }

/-- facts about the Counts entry of the value an equivocating sender voted for first -/
theorem old_entry {vs : List Vote} {x old : Vote} (hpos : PosWeights vs)
    (hold : old ∈ regular vs) (hs : old.sender = x.sender) :
    wsum (votersOf vs old.value) = old.weight + wsum ((votersOf vs old.value).filter (fun y => y.sender != x.sender)) ∧
    (wsum (votersOf vs old.value) ≤ old.weight ↔ (votersOf vs old.value).filter (fun y => y.sender != x.sender) = []) ∧
    (∀ v, v ≠ old.value → (votersOf vs v).filter (fun y => y.sender != x.sender) = votersOf vs v) := by
  have hU : old ∈ votersOf vs old.value := votersOf_mem.mpr ⟨hold, rfl⟩
  have hsubU : (votersOf vs old.value).Sublist (regular vs) := List.filter_sublist
  have hndU := (hsubU.map Vote.sender).nodup (regular_nodup vs)
  have hsingle := filter_sender_singleton hndU hU _ hs
  have hsplit := wsum_filter_split (fun a => a.sender == x.sender) (votersOf vs old.value)
  rw [hsingle, wsum_cons, wsum_nil] at hsplit
  have hbne : (fun a : Vote => !(a.sender == x.sender)) = (fun y => y.sender != x.sender) := by
    funext a; rfl
  rw [hbne] at hsplit
  refine ⟨by omega, ?_, ?_⟩
  · constructor
    · intro hle
      apply wsum_eq_zero_of_pos
      · intro a ha
        have := (List.mem_filter.mp ha).1
        exact hpos a (mem_of_mem_firsts (regular_sub_firsts (votersOf_mem.mp this).1).1)
      · omega
    · intro h0
      rw [h0, wsum_nil] at hsplit; omega
  · intro v hv
    rw [List.filter_eq_self]
    intro a ha
    obtain ⟨har, hav⟩ := votersOf_mem.mp ha
    simp only [bne_iff_ne, ne_eq]
    intro hsa
    have : a = old := firsts_inj (regular_sub_firsts har).1 (regular_sub_firsts hold).1 (hsa.trans hs.symm)
    subst this
    exact hv hav.symm

/-- (Q): a regular sender votes for a second value -/
theorem refines_equivocate {vs : List Vote} {t : Tracker} {x old : Vote} (hR : Refines vs t) (hpos : PosWeights vs)
    (hold : old ∈ regular vs) (hs : old.sender = x.sender) (hv : old.value ≠ x.value) (hw : x.weight = old.weight) :
    Refines (vs ++ [x])
      { voters := t.voters.filter (fun y => y.sender != x.sender)
        counts :=
          if (getCounter t.counts old.value).count ≤ old.weight then delCounter t.counts old.value
          else setCounter t.counts old.value
            { count := (getCounter t.counts old.value).count - old.weight
              votes := (getCounter t.counts old.value).votes.filter (fun y => y.sender != x.sender) }
        equivocators := t.equivocators ++ [⟨old.sender, old.weight, old.value, x.value⟩]
        eqCount := t.eqCount + x.weight } := by
  obtain ⟨holdf, hne'⟩ := regular_sub_firsts hold
  have hne : ¬ IsEquiv vs x.sender := hs ▸ hne'
  obtain ⟨h1, h2⟩ := regular_snoc_equivocate holdf hs hne hv
  obtain ⟨_, he⟩ := snoc_equivocate holdf hs hv
  obtain ⟨e1, e2, e3⟩ := old_entry hpos hold hs
  have hvo : ∀ v, votersOf (vs ++ [x]) v = (votersOf vs v).filter (fun y => y.sender != x.sender) := by
    intro v; unfold votersOf; rw [h1, List.filter_filter, List.filter_filter]
    apply filter_congr'; intro a _; exact Bool.and_comm _ _
  simp only [getCounter_refines hR]
  unfold regWeight
  exact {
    voters := by simp only [hR.voters, h1]
    counts := by
      intro v
      simp only []
      by_cases hc : wsum (votersOf vs old.value) ≤ old.weight
      · rw [if_pos hc, lookup_delCounter]
        unfold counterOf
        rw [hvo]
        by_cases h : v = old.value
        · subst h; rw [if_pos rfl, if_pos (e2.mp hc)]
        · rw [if_neg h, e3 v h, hR.counts v]; rfl
      · rw [if_neg hc, lookup_setCounter]
        unfold counterOf
        rw [hvo]
        by_cases h : v = old.value
        · subst h
          have : ¬ (votersOf vs old.value).filter (fun y => y.sender != x.sender) = [] := fun h0 => hc (e2.mpr h0)
          rw [if_pos rfl, if_neg this]
          congr 2
          omega
        · rw [if_neg h, e3 v h, hR.counts v]; rfl
    keys := by
      simp only []
      by_cases hc : wsum (votersOf vs old.value) ≤ old.weight
      · rw [if_pos hc]; exact keys_delCounter_nodup hR.keys _
      · rw [if_neg hc]; exact keys_setCounter_nodup hR.keys _ _
    eqMem := by
      intro s
      simp only [List.mem_append, List.mem_singleton]
      rw [he s, ← hR.eqMem s]
      constructor
      · rintro ⟨e, he' | he', hes⟩
        · exact Or.inl ⟨e, he', hes⟩
        · subst he'; exact Or.inr (hes.symm.trans hs)
      · rintro (⟨e, he', hes⟩ | hsx)
        · exact ⟨e, Or.inl he', hes⟩
        · exact ⟨_, Or.inr rfl, hs.trans hsx.symm⟩
    eqNodup := by
      simp only [List.map_append, List.map_cons, List.map_nil]
      rw [List.nodup_append]
      refine ⟨hR.eqNodup, by simp, ?_⟩
      intro a ha b hb
      simp at hb; subst hb
      intro hab; subst hab
      obtain ⟨e, he', hes⟩ := List.mem_map.mp ha
      exact hne' ((hR.eqMem _).mp ⟨e, he', hes⟩)
    eqCount := by simp only [hR.eqCount, h2, hw]
    eqSum := by
      simp only [List.map_append, List.map_cons, List.map_nil, List.sum_append, List.sum_cons, List.sum_nil, hR.eqSum, hw]
      omega
    eqPairs := by
      intro e he'
      simp only [List.mem_append, List.mem_singleton] at he'
      rcases he' with he' | he'
      · obtain ⟨a, b, c⟩ := hR.eqPairs e he'
        exact ⟨a, List.mem_append_left _ b, List.mem_append_left _ c⟩
      · subst he'
        refine ⟨hv, List.mem_append_left _ (mem_of_mem_firsts holdf), ?_⟩
        have : (⟨old.sender, old.weight, x.value⟩ : Vote) = x := by
          cases x; cases old; simp_all
        simp [this] }

theorem finish_state {c : Cfg} {t₁ t' : Tracker} {ob : Bool} {ev : Event} (h : finish c t₁ ob = .ok (t', ev)) : t' = t₁ := by
  unfold finish at h
  split at h
  · cases h
  · simp at h; exact h.1.symm
  · split at h
    · simp at h; exact h.1.symm
    · split at h
      · cases h
      · simp at h; exact h.1.symm

/-- what one successful `handle` does, in history terms: either the history classes are unchanged and so is the
state, or the state now refines the extended history and the event is the one computed by `finish` -/
theorem handle_cases {c : Cfg} {vs : List Vote} {t t' : Tracker} {x : Vote} {ev : Event}
    (hR : Refines vs t) (hpos : PosWeights (vs ++ [x])) (hcons : Consistent (vs ++ [x]))
    (h : handle c t x = .ok (t', ev)) :
    (t' = t ∧ ev = .none ∧ firsts (vs ++ [x]) = firsts vs ∧ ∀ s, IsEquiv (vs ++ [x]) s ↔ IsEquiv vs s)
    ∨ (∃ ob, overThreshold c t = .ok ob ∧ Refines (vs ++ [x]) t' ∧
        (¬ Seen vs x.sender ∨
          (∃ old ∈ regular vs, old.sender = x.sender ∧ old.value ≠ x.value ∧ reachesQuorum c t'.eqCount = false)) ∧
        ((t'.voters = [] ∧ ev = .none) ∨ finish c t' ob.isSome = .ok (t', ev))) := by
  have hposvs : PosWeights vs := fun a ha => hpos a (List.mem_append_left _ ha)
  unfold handle at h
  cases hfe : findEq t.equivocators x.sender with
  | some e =>
    -- (E) known equivocator
    rw [hfe] at h
    simp only [Except.ok.injEq, Prod.mk.injEq] at h
    have hne : findEq t.equivocators x.sender ≠ none := by rw [hfe]; simp
    have heq : IsEquiv vs x.sender := by
      by_cases h' : IsEquiv vs x.sender
      · exact h'
      · exact absurd ((findEq_none_iff hR _).mpr h') hne
    obtain ⟨hf, he⟩ := snoc_equiv heq
    exact Or.inl ⟨h.1.symm, h.2.symm, hf, he⟩
  | none =>
    rw [hfe] at h
    have hne : ¬ IsEquiv vs x.sender := (findEq_none_iff hR _).mp hfe
    cases hob : overThreshold c t with
    | error k => rw [hob] at h; cases h
    | ok ob =>
      rw [hob] at h
      simp only [] at h
      cases hfv : findVoter t.voters x.sender with
      | none =>
        -- (N) first vote of the sender
        rw [hfv] at h
        simp only [] at h
        have hns : ¬ Seen vs x.sender := by
          intro hseen
          obtain ⟨old, ho, hso⟩ := seen_regular hseen hne
          rw [hR.voters] at hfv
          exact findVoter_none hfv old ho hso
        have ht' := finish_state h
        have hR' := refines_insert hR hns
        rw [← ht'] at hR'
        refine Or.inr ⟨ob, rfl, hR', Or.inl hns, Or.inr ?_⟩
        rw [ht']; rw [ht'] at h; exact h
      | some old =>
        rw [hfv] at h
        simp only [] at h
        rw [hR.voters] at hfv
        obtain ⟨hold, hs⟩ := findVoter_some hfv
        obtain ⟨holdf, _⟩ := regular_sub_firsts hold
        by_cases hv : old.value = x.value
        · -- (D) duplicate
          rw [if_pos hv] at h
          simp only [Except.ok.injEq, Prod.mk.injEq] at h
          obtain ⟨hf, he⟩ := snoc_dup holdf hs hne hv
          exact Or.inl ⟨h.1.symm, h.2.symm, hf, he⟩
        · -- (Q) equivocation
          rw [if_neg hv] at h
          have hw : x.weight = old.weight :=
            hcons x (by simp) old (List.mem_append_left _ (mem_of_mem_firsts holdf)) hs.symm
          by_cases hq : reachesQuorum c (t.eqCount + x.weight) = true
          · rw [if_pos hq] at h; cases h
          · rw [if_neg hq] at h
            have hR' := refines_equivocate hR hposvs hold hs hv hw
            have hq' : reachesQuorum c (t.eqCount + x.weight) = false := by simpa using hq
            split at h
            · -- no regular voter left
              rename_i hemp
              simp only [Except.ok.injEq, Prod.mk.injEq] at h
              obtain ⟨h1, h2⟩ := h
              subst h1; subst h2
              refine Or.inr ⟨ob, rfl, hR', Or.inr ⟨old, hold, hs, hv, hq'⟩, Or.inl ⟨?_, rfl⟩⟩
              simpa using hemp
            · have ht' := finish_state h
              rw [← ht'] at hR'
              refine Or.inr ⟨ob, rfl, hR', Or.inr ⟨old, hold, hs, hv, ?_⟩, Or.inr ?_⟩
              · rw [ht']; exact hq'
              · rw [ht']; rw [ht'] at h; exact h

end AlgoVerif.Lemmas.VoteTracker
