import AlgoVerif.Lemmas.PlayerInv
/-!
`Inv` (= `QRoot` on the router tree) is preserved by every player-level query and by the two root machines
(proposalManager, voteAggregator); with the postconditions C03 needs: what `stagedValue` returns is stored under its
own value and belongs to the round, the freshest bundle / every delivered threshold event is `ThreshOK`, and the
staging value written by a certThreshold is the one read back.
-/
namespace AlgoVerif.Lemmas.Player
open AlgoVerif.Model AlgoVerif.Model.Player AlgoVerif.Model.VoteTracker AlgoVerif.Spec.VoteTracker

variable (P : Params) (good : Nat → Nat → Nat → Vote → Bool)

/-- the shape of every player-level query: run something on the tree, keep the player -/
def liftRoot {α : Type} (σ : State) (x : Except Panic (Root × α)) : Except Panic (State × α) :=
  match x with
  | .error e => .error e
  | .ok (root, a) => .ok ({ σ with root := root }, a)

theorem liftRoot_spec {α : Type} {R : α → Prop} {σ σ' : State} {x : Except Panic (Root × α)} {a : α}
    (hx : ∀ root' a, x = .ok (root', a) → QRoot P good root' ∧ R a)
    (h : liftRoot σ x = .ok (σ', a)) : QRoot P good σ'.root ∧ R a ∧ σ'.pl = σ.pl := by
  unfold liftRoot at h
  split at h
  · cases h
  · rename_i x' root a'
    simp only [Except.ok.injEq, Prod.mk.injEq] at h
    obtain ⟨rfl, rfl⟩ := h
    obtain ⟨h1, h2⟩ := hx root a' rfl
    exact ⟨h1, h2, rfl⟩

/-- a query through `atRound` whose round-level function keeps `QR` -/
theorem liftRound_spec {α : Type} {R : α → Prop} {σ σ' : State} {r p : Nat} {f : RoundR → Except Panic (RoundR × α)} {a : α}
    (hQ : QRoot P good σ.root)
    (hf : ∀ rr rr' a, QR P good r rr → f rr = .ok (rr', a) → QR P good r rr' ∧ R a)
    (h : liftRoot σ (σ.root.atRound P σ.pl r p f) = .ok (σ', a)) : QRoot P good σ'.root ∧ R a ∧ σ'.pl = σ.pl :=
  liftRoot_spec P good (fun _ _ hx => atRound_spec P good hQ hf hx) h

/-! ### queries -/

theorem staged_eq (σ : State) (r p : Nat) :
    staged P σ r p = liftRoot σ (σ.root.atRound P σ.pl r p (fun rr => rr.readStaging σ.pl p)) := by
  unfold staged liftRoot; split <;> simp_all

theorem staged_spec {σ σ' : State} {r p : Nat} {st : Staged} (hQ : QRoot P good σ.root) (h : staged P σ r p = .ok (σ', st)) :
    QRoot P good σ'.root ∧ StagedOK r st ∧ σ'.pl = σ.pl := by
  rw [staged_eq] at h
  exact liftRound_spec P good hQ (fun rr rr' a hq hf => readStaging_spec P good hq hf) h

theorem pinned_eq (σ : State) (r : Nat) :
    pinned P σ r = liftRoot σ (σ.root.atRound P σ.pl r 0
      (fun rr => .ok (rr, (⟨rr.store.pinned, (rr.store.asm rr.store.pinned).payload⟩ : Staged)))) := by
  unfold pinned liftRoot; split <;> simp_all

theorem pinned_spec {σ σ' : State} {r : Nat} {st : Staged} (hQ : QRoot P good σ.root) (h : pinned P σ r = .ok (σ', st)) :
    QRoot P good σ'.root ∧ StagedOK r st ∧ σ'.pl = σ.pl := by
  rw [pinned_eq] at h
  refine liftRound_spec P good hQ (fun rr rr' a hq hf => ?_) h
  simp only [Except.ok.injEq, Prod.mk.injEq] at hf
  obtain ⟨rfl, rfl⟩ := hf
  exact ⟨hq, fun pay hp => asm_ok hq.2.2 hp⟩

theorem freshest_eq (σ : State) (r : Nat) :
    freshest P σ r = liftRoot σ (σ.root.atRound P σ.pl r 0 (fun rr => .ok (rr, (rr.ok, rr.freshest)))) := by
  unfold freshest liftRoot; split <;> simp_all

theorem freshest_spec {σ σ' : State} {r : Nat} {res : Bool × Thresh} (hQ : QRoot P good σ.root)
    (h : freshest P σ r = .ok (σ', res)) : QRoot P good σ'.root ∧ ThreshOK P good r res.2 ∧ σ'.pl = σ.pl := by
  rw [freshest_eq] at h
  refine liftRound_spec P good (R := fun a => ThreshOK P good r a.2) hQ (fun rr rr' a hq hf => ?_) h
  simp only [Except.ok.injEq, Prod.mk.injEq] at hf
  obtain ⟨rfl, rfl⟩ := hf
  exact ⟨hq, hq.2.1⟩

/-- queries that go down to a period machine without touching the step children -/
theorem periodQuery_spec {α : Type} {σ σ' : State} {r p s : Nat} {f : PeriodR → Except Panic (PeriodR × α)} {a : α}
    (hQ : QRoot P good σ.root)
    (hf : ∀ pr pr' a, f pr = .ok (pr', a) → pr'.steps = pr.steps)
    (h : liftRoot σ (σ.root.atRound P σ.pl r p (fun rr => rr.atPeriod σ.pl p s f)) = .ok (σ', a)) :
    QRoot P good σ'.root ∧ σ'.pl = σ.pl := by
  obtain ⟨h1, _, h3⟩ := liftRound_spec P good (R := fun _ => True) hQ (fun rr rr' a hq hfr =>
    ⟨(atPeriod_spec P good (R := fun _ => True) hq (fun pr pr' a hqp hfp => ⟨QP_of_steps good hqp (hf pr pr' a hfp), trivial⟩) hfr).1, trivial⟩) h
  exact ⟨h1, h3⟩

theorem nextStatus_eq (σ : State) :
    nextStatus P σ = liftRoot σ (σ.root.atRound P σ.pl σ.pl.round (predPeriod σ.pl.period)
      (fun rr => rr.atPeriod σ.pl (predPeriod σ.pl.period) 0 (fun pr => .ok (pr, pr.cached)))) := by
  unfold nextStatus liftRoot; simp only []; split <;> simp_all

theorem nextStatus_spec {σ σ' : State} {ns : NextStatus} (hQ : QRoot P good σ.root) (h : nextStatus P σ = .ok (σ', ns)) :
    QRoot P good σ'.root ∧ σ'.pl = σ.pl := by
  rw [nextStatus_eq] at h
  refine periodQuery_spec P good hQ (fun pr pr' a hf => ?_) h
  simp only [Except.ok.injEq, Prod.mk.injEq] at hf
  rw [← hf.1]

theorem freezeProposal_eq (σ : State) :
    freezeProposal P σ = liftRoot σ (σ.root.atRound P σ.pl σ.pl.round σ.pl.period
      (fun rr => rr.atPeriod σ.pl σ.pl.period 0 (fun pr => pr.freeze))) := by
  unfold freezeProposal liftRoot; simp only []; split <;> simp_all

theorem freezeProposal_spec {σ σ' : State} {v : Nat} (hQ : QRoot P good σ.root) (h : freezeProposal P σ = .ok (σ', v)) :
    QRoot P good σ'.root ∧ σ'.pl = σ.pl := by
  rw [freezeProposal_eq] at h
  exact periodQuery_spec P good hQ (fun pr pr' a hf => freeze_steps hf) h

theorem credHistoryTouch_spec {σ σ' : State} (hQ : QRoot P good σ.root) (h : credHistoryTouch P σ = .ok σ') :
    QRoot P good σ'.root ∧ σ'.pl = σ.pl := by
  unfold credHistoryTouch at h
  split at h
  · cases h; exact ⟨hQ, rfl⟩
  split at h
  · cases h; exact ⟨hQ, rfl⟩
  simp only [] at h
  split at h
  · cases h
  rename_i root u hx
  simp only [Except.ok.injEq] at h
  subst h
  have := atRound_spec P good (R := fun _ => True) hQ (fun rr rr' a hq hfr =>
    ⟨(atPeriod_spec P good (R := fun _ => True) hq (fun pr pr' a hqp hfp => by
        simp only [Except.ok.injEq, Prod.mk.injEq] at hfp
        exact ⟨hfp.1 ▸ hqp, trivial⟩) hfr).1, trivial⟩) hx
  exact ⟨this.1, rfl⟩

theorem dumpVotes_spec {σ σ' : State} {s : Nat} {vs : List UVote} (hQ : QRoot P good σ.root)
    (h : dumpVotes P σ s = .ok (σ', vs)) : QRoot P good σ'.root ∧ σ'.pl = σ.pl := by
  unfold dumpVotes at h
  simp only [] at h
  split at h
  · cases h
  rename_i root a hx
  simp only [Except.ok.injEq, Prod.mk.injEq] at h
  obtain ⟨rfl, _⟩ := h
  have := atRound_spec P good (R := fun _ => True) hQ (fun rr rr' a hq hfr =>
    ⟨(atPeriod_spec P good (R := fun _ => True) hq (fun pr pr' a hqp hfp =>
        ⟨(atStep_spec good (R := fun _ => True) hqp (fun sr sr' a hqs hfs => by
            simp only [Except.ok.injEq, Prod.mk.injEq] at hfs
            exact ⟨hfs.1 ▸ hqs, trivial⟩) hfp).1, trivial⟩) hfr).1, trivial⟩) hx
  exact ⟨this.1, rfl⟩

/-! ### read-after-write of the staging value -/

/-- the staging value the tree holds for (r, p) -/
def stagingAt (root : Root) (r p : Nat) : Option Nat := (aget root.rounds r).bind (fun rr => stagingOf rr p)

theorem upd_stagingOf {pl : PlayerF} {rr : RoundR} {p v : Nat} (h : stagingOf rr p = some v) :
    stagingOf (rr.upd pl p) p = some v := by
  unfold stagingOf at h ⊢
  cases hg : aget rr.periods p with
  | none => rw [hg] at h; cases h
  | some pr => rw [RoundR.upd_aget_of_some hg]; rw [hg] at h; exact h

theorem readStaging_reads {pl : PlayerF} {rr rr' : RoundR} {p v : Nat} {st : Staged} (hs : stagingOf rr p = some v)
    (h : rr.readStaging pl p = .ok (rr', st)) : st.proposal = v := by
  unfold RoundR.readStaging at h
  split at h
  · cases h
  rename_i rr₁ w hat
  simp only [Except.ok.injEq, Prod.mk.injEq] at h
  obtain ⟨_, rfl⟩ := h
  unfold RoundR.atPeriod at hat
  simp only [] at hat
  split at hat
  · cases hat
  rename_i pr hpr
  simp only [Except.ok.injEq, Prod.mk.injEq] at hat
  obtain ⟨_, rfl⟩ := hat
  have h' := upd_stagingOf (pl := pl) hs
  unfold stagingOf at h'
  rw [hpr] at h'
  simp only [Option.map_some, Option.some.injEq] at h'
  show (pr.upd 0).ptracker.staging = v
  rw [(PeriodR.upd_fields pr 0).1]; exact h'

theorem staged_reads {σ σ' : State} {r p v : Nat} {st : Staged} (hs : stagingAt σ.root r p = some v)
    (h : staged P σ r p = .ok (σ', st)) : st.proposal = v := by
  rw [staged_eq] at h
  unfold liftRoot at h
  split at h
  · cases h
  rename_i root a hx
  simp only [Except.ok.injEq, Prod.mk.injEq] at h
  obtain ⟨_, rfl⟩ := h
  unfold Root.atRound at hx
  simp only [] at hx
  split at hx
  · cases hx
  rename_i rr hrr
  split at hx
  · cases hx
  rename_i rr' a' hfa
  simp only [Except.ok.injEq, Prod.mk.injEq] at hx
  obtain ⟨_, rfl⟩ := hx
  unfold stagingAt at hs
  cases hg : aget σ.root.rounds r with
  | none => rw [hg] at hs; cases hs
  | some rr₀ =>
    rw [hg] at hs
    simp only [Option.bind_some] at hs
    rw [Root.upd_aget_of_some hg] at hrr
    split at hrr
    · simp only [Option.some.injEq] at hrr
      subst hrr
      exact readStaging_reads (upd_stagingOf (pl := σ.pl) hs) hfa
    · cases hrr

/-! ### proposalManager -/

/-- `atRound` with a postcondition on the new round router, which is then the one stored under `r` -/
theorem atRound_spec' {α : Type} {R : RoundR → α → Prop} {pl : PlayerF} {r p : Nat} {root root' : Root} {a : α}
    {f : RoundR → Except Panic (RoundR × α)}
    (hQ : QRoot P good root)
    (hf : ∀ rr rr' a, QR P good r rr → f rr = .ok (rr', a) → QR P good r rr' ∧ R rr' a)
    (h : root.atRound P pl r p f = .ok (root', a)) :
    QRoot P good root' ∧ ∃ rr', aget root'.rounds r = some rr' ∧ R rr' a := by
  have h1 := (atRound_spec P good (R := fun _ => True) hQ (fun rr rr' a hq hfr => ⟨(hf rr rr' a hq hfr).1, trivial⟩) h).1
  refine ⟨h1, ?_⟩
  unfold Root.atRound at h
  simp only [] at h
  split at h
  · cases h
  · rename_i rr hrr
    split at h
    · cases h
    · rename_i rr' a' hfa
      simp only [Except.ok.injEq, Prod.mk.injEq] at h
      obtain ⟨rfl, rfl⟩ := h
      have hup := QRoot_upd P good (pl := pl) (r := r) hQ
      have hrrQ : QR P good r rr := hup (r, rr) (aget_mem hrr)
      exact ⟨rr', aget_aset_self _ _ _, (hf _ rr' a' (QR_upd P good hrrQ) hfa).2⟩

theorem pmNewPeriod_spec {σ σ' : State} {e : Thresh} (hQ : QRoot P good σ.root) (h : pmNewPeriod P σ e = .ok σ') :
    QRoot P good σ'.root ∧ σ'.pl = σ.pl := by
  unfold pmNewPeriod at h
  simp only [] at h
  split at h
  · cases h
  rename_i root u hx
  simp only [Except.ok.injEq] at h
  subst h
  exact ⟨(atRound_spec P good (R := fun _ => True) hQ (fun rr rr' a hq hfr => ⟨newPeriod_spec P good hq hfr, trivial⟩) hx).1, rfl⟩

theorem QRoot_updσ {σ : State} (r : Nat) (hQ : QRoot P good σ.root) :
    QRoot P good ({ σ with root := σ.root.upd P σ.pl r } : State).root := QRoot_upd P good hQ

theorem pmThreshold_spec {σ σ' : State} {rt : Nat} {e : Thresh} {c : Option (Nat × Option PVote)} (hQ : QRoot P good σ.root)
    (h : pmThreshold P σ rt e = .ok (σ', c)) :
    QRoot P good σ'.root ∧ σ'.pl = σ.pl ∧ (e.kind ≠ 3 → stagingAt σ'.root e.round e.period = some e.proposal) := by
  unfold pmThreshold at h
  simp only [] at h
  split at h
  · cases h
  split at h
  · cases h
  split at h
  · cases h
  have hQ₀ := QRoot_updσ P good rt hQ
  split at h
  · rename_i hk
    split at h
    · cases h
    rename_i σ₁ hnp
    simp only [Except.ok.injEq, Prod.mk.injEq] at h
    obtain ⟨rfl, _⟩ := h
    obtain ⟨h1, h2⟩ := pmNewPeriod_spec P good (σ := { σ with root := σ.root.upd P σ.pl rt }) hQ₀ hnp
    exact ⟨h1, h2, fun hne => absurd hk hne⟩
  · split at h
    · cases h
    rename_i σ₁ hσ₁
    have hQ₁ : QRoot P good σ₁.root ∧ σ₁.pl = σ.pl := by
      split at hσ₁
      · exact pmNewPeriod_spec P good (σ := { σ with root := σ.root.upd P σ.pl rt }) hQ₀ hσ₁
      · simp only [Except.ok.injEq] at hσ₁; subst hσ₁; exact ⟨hQ₀, rfl⟩
    split at h
    · cases h
    rename_i root c' hx
    simp only [Except.ok.injEq, Prod.mk.injEq] at h
    obtain ⟨rfl, _⟩ := h
    obtain ⟨h1, rr', hrr', hst⟩ := atRound_spec' P good (R := fun rr' _ => stagingOf rr' e.period = some e.proposal) hQ₁.1
      (fun rr rr' a hq hfr => threshold_spec P good hq hfr) hx
    refine ⟨h1, hQ₁.2, fun _ => ?_⟩
    show stagingAt root e.round e.period = some e.proposal
    unfold stagingAt
    rw [hrr']; exact hst

theorem pmNewRound_spec {σ σ' : State} {target : Nat} {res : PayRes} (hQ : QRoot P good σ.root)
    (h : pmNewRound P σ target = .ok (σ', res)) : QRoot P good σ'.root ∧ σ'.pl = σ.pl := by
  unfold pmNewRound at h
  simp only [] at h
  split at h
  · cases h
  rename_i root a hx
  simp only [Except.ok.injEq, Prod.mk.injEq] at h
  obtain ⟨rfl, _⟩ := h
  exact ⟨(atRound_spec P good (R := fun _ => True) (QRoot_updσ P good target hQ)
    (fun rr rr' a hq hfr => ⟨newRound_spec hfr ▸ hq, trivial⟩) hx).1, rfl⟩

theorem pmVoteVerified_spec {σ σ' : State} {bad : Bad} {v : PVote} {res : PMVote} (hQ : QRoot P good σ.root)
    (h : pmVoteVerified P σ bad v = .ok (σ', res)) : QRoot P good σ'.root ∧ σ'.pl = σ.pl := by
  unfold pmVoteVerified at h
  simp only [] at h
  have hQ₀ := QRoot_updσ P good 0 hQ
  split at h
  · simp only [Except.ok.injEq, Prod.mk.injEq] at h; obtain ⟨rfl, _⟩ := h; exact ⟨hQ₀, rfl⟩
  split at h
  · simp only [Except.ok.injEq, Prod.mk.injEq] at h; obtain ⟨rfl, _⟩ := h; exact ⟨hQ₀, rfl⟩
  split at h
  · simp only [Except.ok.injEq, Prod.mk.injEq] at h; obtain ⟨rfl, _⟩ := h; exact ⟨hQ₀, rfl⟩
  split at h
  · cases h
  rename_i root res' hx
  have h1 := (atRound_spec P good (R := fun _ => True) hQ₀
    (fun rr rr' a hq hfr => ⟨pvoteVerified_spec P good hq hfr, trivial⟩) hx).1
  repeat' split at h
  all_goals (simp only [Except.ok.injEq, Prod.mk.injEq] at h; obtain ⟨rfl, _⟩ := h; exact ⟨h1, rfl⟩)

theorem pmVotePresent_spec {σ σ' : State} {v : PVote} {res : PMVote} (hQ : QRoot P good σ.root)
    (h : pmVotePresent P σ v = .ok (σ', res)) : QRoot P good σ'.root ∧ σ'.pl = σ.pl := by
  have hQ₀ := QRoot_updσ P good 0 hQ
  have hdup : ∀ (τ τ' : State) (d : Bool), QRoot P good τ.root →
      (match τ.root.atRound P τ.pl v.round v.period (fun rr => rr.atPeriod τ.pl v.period 0 (fun pr => .ok (pr, pr.pvoteDup v.sender))) with
        | .error e => (.error e : Except Panic (State × Bool))
        | .ok (root, d) => .ok ({ τ with root := root }, d)) = .ok (τ', d) → QRoot P good τ'.root ∧ τ'.pl = τ.pl := by
    intro τ τ' d hq hm
    split at hm
    · cases hm
    rename_i root d' hx
    simp only [Except.ok.injEq, Prod.mk.injEq] at hm
    obtain ⟨rfl, _⟩ := hm
    exact ⟨(atRound_spec P good (R := fun _ => True) hq (fun rr rr' a hqr hfr =>
      ⟨(atPeriod_spec P good (R := fun _ => True) hqr (fun pr pr' a hqp hfp => by
          simp only [Except.ok.injEq, Prod.mk.injEq] at hfp
          exact ⟨hfp.1 ▸ hqp, trivial⟩) hfr).1, trivial⟩) hx).1, rfl⟩
  unfold pmVotePresent at h
  simp only [] at h
  split at h
  · split at h
    · split at h
      · cases h
      rename_i τ' dup hd
      simp only [Except.ok.injEq, Prod.mk.injEq] at h
      obtain ⟨rfl, _⟩ := h
      exact hdup { σ with root := σ.root.upd P σ.pl 0 } _ _ hQ₀ hd
    · simp only [Except.ok.injEq, Prod.mk.injEq] at h; obtain ⟨rfl, _⟩ := h; exact ⟨hQ₀, rfl⟩
  · split at h
    · cases h
    rename_i τ' dup hd
    have := hdup { σ with root := σ.root.upd P σ.pl 0 } _ _ hQ₀ hd
    split at h <;> (simp only [Except.ok.injEq, Prod.mk.injEq] at h; obtain ⟨rfl, _⟩ := h; exact this)

theorem pmPayload_spec {σ σ' : State} {verified : Bool} {bad : Bad} {p : Payload} {res : PayRes} (hQ : QRoot P good σ.root)
    (hp : verified = true → bad ≠ 2 → bad ≠ 1 → p.round = σ.pl.round)
    (h : pmPayload P σ verified bad p = .ok (σ', res)) : QRoot P good σ'.root ∧ σ'.pl = σ.pl := by
  have hQ₀ := QRoot_updσ P good 0 hQ
  unfold pmPayload at h
  simp only [] at h
  split at h
  · split at h
    · split at h
      · cases h
      rename_i root res' hx
      have h1 := (atRound_spec P good (R := fun _ => True) hQ₀ (fun rr rr' a hq hfr => by
        simp only [Except.ok.injEq] at hfr
        have := payloadPresent_spec P good (pl := σ.pl) (up := p) hq
        rw [hfr] at this
        exact ⟨this, trivial⟩) hx).1
      split at h <;> (simp only [Except.ok.injEq, Prod.mk.injEq] at h; obtain ⟨rfl, _⟩ := h; exact ⟨h1, rfl⟩)
    · split at h
      · cases h
      rename_i root res' hx
      have h1 := (atRound_spec P good (R := fun _ => True) hQ₀ (fun rr rr' a hq hfr => by
        simp only [Except.ok.injEq] at hfr
        have := payloadPresent_spec P good (pl := σ.pl) (up := p) hq
        rw [hfr] at this
        exact ⟨this, trivial⟩) hx).1
      split at h <;> (simp only [Except.ok.injEq, Prod.mk.injEq] at h; obtain ⟨rfl, _⟩ := h; exact ⟨h1, rfl⟩)
  · rename_i hver
    split at h
    · simp only [Except.ok.injEq, Prod.mk.injEq] at h; obtain ⟨rfl, _⟩ := h; exact ⟨hQ₀, rfl⟩
    split at h
    · simp only [Except.ok.injEq, Prod.mk.injEq] at h; obtain ⟨rfl, _⟩ := h; exact ⟨hQ₀, rfl⟩
    rename_i hb2 hb1
    split at h
    · cases h
    rename_i root res' hx
    simp only [Except.ok.injEq, Prod.mk.injEq] at h
    obtain ⟨rfl, _⟩ := h
    have hv : verified = true := by cases verified <;> simp_all
    exact ⟨(atRound_spec P good (R := fun _ => True) hQ₀
      (fun rr rr' a hq hfr => ⟨payloadVerified_spec P good hq (hp hv hb2 hb1) hfr, trivial⟩) hx).1, rfl⟩

/-! ### voteAggregator -/

/-- a threshold event that is valid for its own round -/
def ThreshValid (e : Thresh) : Prop := ThreshOK P good e.round e

theorem threshValid_of_ok {r : Nat} {e : Thresh} (h : ThreshOK P good r e) : ThreshValid P good e := by
  refine ⟨fun hk => ?_, h.2⟩
  obtain ⟨h1, h2, h3, h4⟩ := h.1 hk
  exact ⟨rfl, h2, h3, h1 ▸ h4⟩

theorem threshValid_empty : ThreshValid P good {} := threshOK_empty P good _

theorem vaFilterVote_spec {σ σ' : State} {r p s : Nat} {x : Vote} {pass : Bool} (hQ : QRoot P good σ.root)
    (h : vaFilterVote P σ r p s x = .ok (σ', pass)) : QRoot P good σ'.root ∧ σ'.pl = σ.pl := by
  unfold vaFilterVote at h
  split at h
  · simp only [Except.ok.injEq, Prod.mk.injEq] at h; obtain ⟨rfl, _⟩ := h; exact ⟨hQ, rfl⟩
  split at h
  · cases h
  rename_i root a hx
  simp only [Except.ok.injEq, Prod.mk.injEq] at h
  obtain ⟨rfl, _⟩ := h
  have := atRound_spec P good (R := fun _ => True) hQ (fun rr rr' a hq hfr =>
    ⟨(atPeriod_spec P good (R := fun _ => True) hq (fun pr pr' a hqp hfp =>
        ⟨(atStep_spec good (R := fun _ => True) hqp (fun sr sr' a hqs hfs => by
            simp only [Except.ok.injEq, Prod.mk.injEq] at hfs
            exact ⟨hfs.1 ▸ hqs, trivial⟩) hfp).1, trivial⟩) hfr).1, trivial⟩) hx
  exact ⟨this.1, rfl⟩

theorem deliverVote_spec (hg : GoodSpec good) {σ σ' : State} {r p s : Nat} {x : Vote} {ev : Thresh} (hQ : QRoot P good σ.root)
    (hx : good r p s x = true) (h : deliverVote P σ r p s x = .ok (σ', ev)) :
    QRoot P good σ'.root ∧ ThreshOK P good r ev ∧ σ'.pl = σ.pl := by
  unfold deliverVote at h
  split at h
  · cases h
  rename_i root a hat
  simp only [Except.ok.injEq, Prod.mk.injEq] at h
  obtain ⟨rfl, rfl⟩ := h
  obtain ⟨h1, h2⟩ := atRound_spec P good (R := fun a => ThreshOK P good r a) hQ
    (fun rr rr' a hq hfr => voteAccepted_spec P good hg hq hx hfr) hat
  exact ⟨h1, h2, rfl⟩

/-- postcondition of the vote machine: a threshold event it hands to the player is valid -/
def VAResOK : VARes → Prop
  | .threshold e => ThreshValid P good e
  | _ => True

theorem vaVote_spec (hg : GoodSpec good) {σ σ' : State} {verified : Bool} {bad : Bad} {r p s : Nat} {x : Vote} {res : VARes}
    (hQ : QRoot P good σ.root) (hx : verified = true → bad ≠ 2 → bad ≠ 3 → bad ≠ 1 → good r p s x = true)
    (h : vaVote P σ verified bad r p s x = .ok (σ', res)) :
    QRoot P good σ'.root ∧ VAResOK P good res ∧ σ'.pl = σ.pl := by
  have hQ₀ := QRoot_updσ P good 0 hQ
  unfold vaVote at h
  simp only [] at h
  split at h
  · split at h
    · simp only [Except.ok.injEq, Prod.mk.injEq] at h; obtain ⟨rfl, rfl⟩ := h; exact ⟨hQ₀, trivial, rfl⟩
    split at h
    · cases h
    rename_i τ pass hf
    obtain ⟨h1, h2⟩ := vaFilterVote_spec P good (σ := { σ with root := σ.root.upd P σ.pl 0 }) hQ₀ hf
    simp only [Except.ok.injEq, Prod.mk.injEq] at h
    obtain ⟨rfl, rfl⟩ := h
    exact ⟨h1, by split <;> trivial, h2⟩
  rename_i hver
  split at h
  · simp only [Except.ok.injEq, Prod.mk.injEq] at h; obtain ⟨rfl, rfl⟩ := h; exact ⟨hQ₀, trivial, rfl⟩
  split at h
  · simp only [Except.ok.injEq, Prod.mk.injEq] at h; obtain ⟨rfl, rfl⟩ := h; exact ⟨hQ₀, trivial, rfl⟩
  split at h
  · simp only [Except.ok.injEq, Prod.mk.injEq] at h; obtain ⟨rfl, rfl⟩ := h; exact ⟨hQ₀, trivial, rfl⟩
  rename_i hb2 hb3 hb1
  split at h
  · cases h
  · rename_i τ hf
    obtain ⟨h1, h2⟩ := vaFilterVote_spec P good (σ := { σ with root := σ.root.upd P σ.pl 0 }) hQ₀ hf
    simp only [Except.ok.injEq, Prod.mk.injEq] at h; obtain ⟨rfl, rfl⟩ := h; exact ⟨h1, trivial, h2⟩
  · rename_i τ hf
    obtain ⟨h1, h2⟩ := vaFilterVote_spec P good (σ := { σ with root := σ.root.upd P σ.pl 0 }) hQ₀ hf
    split at h
    · cases h
    rename_i τ' ev hd
    have hv : verified = true := by cases verified <;> simp_all
    obtain ⟨h3, h4, h5⟩ := deliverVote_spec P good hg h1 (hx hv hb2 hb3 hb1) hd
    repeat' split at h
    all_goals first
      | (simp only [Except.ok.injEq, Prod.mk.injEq] at h; obtain ⟨rfl, rfl⟩ := h
         exact ⟨h3, by first | trivial | exact threshValid_of_ok P good h4, h5.trans h2⟩)
      | cases h

theorem deliverAll_spec (hg : GoodSpec good) {r p s : Nat} : ∀ (vs : List Vote) {σ σ' : State} {acc ev : Thresh},
    QRoot P good σ.root → (∀ x ∈ vs, good r p s x = true) → ThreshValid P good acc →
    deliverAll P r p s σ vs acc = .ok (σ', ev) → QRoot P good σ'.root ∧ ThreshValid P good ev ∧ σ'.pl = σ.pl := by
  intro vs
  induction vs with
  | nil =>
    intro σ σ' acc ev hQ _ hacc h
    simp only [deliverAll, Except.ok.injEq, Prod.mk.injEq] at h
    obtain ⟨rfl, rfl⟩ := h
    exact ⟨hQ, hacc, rfl⟩
  | cons x rest ih =>
    intro σ σ' acc ev hQ hall hacc h
    simp only [deliverAll] at h
    split at h
    · cases h
    rename_i τ e₁ hd
    obtain ⟨h1, h2, h3⟩ := deliverVote_spec P good hg hQ (hall x List.mem_cons_self) hd
    obtain ⟨h4, h5, h6⟩ := ih h1 (fun y hy => hall y (List.mem_cons_of_mem _ hy))
      (by split
          · exact threshValid_of_ok P good h2
          · exact hacc) h
    exact ⟨h4, h5, h6.trans h3⟩

theorem vaBundle_spec (hg : GoodSpec good) {σ σ' : State} {verified : Bool} {bad : Bad} {r p s value : Nat}
    {votes : List (Nat × Nat)} {eqs : List EqVote} {res : VARes} (hQ : QRoot P good σ.root)
    (hx : verified = true → bad ≠ 2 → bad ≠ 3 → bad ≠ 1 → ∀ x ∈ bundleVotes value votes eqs, good r p s x = true)
    (h : vaBundle P σ verified bad r p s value votes eqs = .ok (σ', res)) :
    QRoot P good σ'.root ∧ VAResOK P good res ∧ σ'.pl = σ.pl := by
  have hQ₀ := QRoot_updσ P good 0 hQ
  unfold vaBundle at h
  simp only [] at h
  split at h
  · simp only [Except.ok.injEq, Prod.mk.injEq] at h; obtain ⟨rfl, rfl⟩ := h
    exact ⟨hQ₀, by split <;> trivial, rfl⟩
  rename_i hver
  split at h
  · simp only [Except.ok.injEq, Prod.mk.injEq] at h; obtain ⟨rfl, rfl⟩ := h; exact ⟨hQ₀, trivial, rfl⟩
  split at h
  · simp only [Except.ok.injEq, Prod.mk.injEq] at h; obtain ⟨rfl, rfl⟩ := h; exact ⟨hQ₀, trivial, rfl⟩
  split at h
  · simp only [Except.ok.injEq, Prod.mk.injEq] at h; obtain ⟨rfl, rfl⟩ := h; exact ⟨hQ₀, trivial, rfl⟩
  rename_i hb2 hb3 hb1
  split at h
  · simp only [Except.ok.injEq, Prod.mk.injEq] at h; obtain ⟨rfl, rfl⟩ := h; exact ⟨hQ₀, trivial, rfl⟩
  split at h
  · cases h
  rename_i τ ev hd
  have hv : verified = true := by cases verified <;> simp_all
  obtain ⟨h1, h2, h3⟩ := deliverAll_spec P good hg _ (σ := { σ with root := σ.root.upd P σ.pl 0 }) hQ₀
    (hx hv hb2 hb3 hb1) (threshValid_empty P good) hd
  split at h <;> (simp only [Except.ok.injEq, Prod.mk.injEq] at h; obtain ⟨rfl, rfl⟩ := h; exact ⟨h1, by first | trivial | exact h2, h3⟩)

end AlgoVerif.Lemmas.Player
