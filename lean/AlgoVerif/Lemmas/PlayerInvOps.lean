import AlgoVerif.Lemmas.PlayerInv
/-!
`Inv` (= `QRoot` on the router tree) is preserved by every player-level query and by the two root machines
(proposalManager, voteAggregator); with the postconditions C03 needs: what `stagedValue` returns is stored under its
own value and belongs to the round, the freshest bundle / every delivered threshold event is `ThreshOK`, and the
staging value written by a certThreshold is the one read back.
-/
namespace AlgoVerif.Lemmas.Player
open AlgoVerif.Model AlgoVerif.Model.Player AlgoVerif.Model.VoteTracker AlgoVerif.Spec.VoteTracker

variable (P : Params) (good : Nat → Nat → Nat → Vote → Bool)

/-- the shape of every player-level query: run something on the tree, keep the player -/
def liftRoot {α : Type} (σ : State) (x : Except Panic (Root × α)) : Except Panic (State × α) :=
  match x with
  | .error e => .error e
  | .ok (root, a) => .ok ({ σ with root := root }, a)

theorem liftRoot_spec {α : Type} {R : α → Prop} {σ σ' : State} {x : Except Panic (Root × α)} {a : α}
    (hx : ∀ root' a, x = .ok (root', a) → QRoot P good root' ∧ R a)
    (h : liftRoot σ x = .ok (σ', a)) : QRoot P good σ'.root ∧ R a ∧ σ'.pl = σ.pl := by
  unfold liftRoot at h
  split at h
  · cases h
  · rename_i root a' hx'
    simp only [Except.ok.injEq, Prod.mk.injEq] at h
    obtain ⟨rfl, rfl⟩ := h
    obtain ⟨h1, h2⟩ := hx root a' hx'
    exact ⟨h1, h2, rfl⟩

theorem staged_eq (σ : State) (r p : Nat) :
    staged P σ r p = liftRoot σ (σ.root.atRound P σ.pl r p (fun rr => rr.readStaging σ.pl p)) := rfl

theorem staged_spec {σ σ' : State} {r p : Nat} {st : Staged} (hQ : QRoot P good σ.root) (h : staged P σ r p = .ok (σ', st)) :
    QRoot P good σ'.root ∧ StagedOK r st ∧ σ'.pl = σ.pl := by
  rw [staged_eq] at h
  exact liftRoot_spec P good (fun root' a hx => atRound_spec P good hQ (fun rr rr' a hq hf => readStaging_spec P good hq hf) hx) h

/-- the staging value the tree holds for (r, p) -/
def stagingAt (root : Root) (r p : Nat) : Option Nat := (aget root.rounds r).bind (fun rr => stagingOf rr p)

theorem upd_stagingOf {pl : PlayerF} {rr : RoundR} {p v : Nat} (h : stagingOf rr p = some v) :
    stagingOf (rr.upd pl p) p = some v ∨ aget (rr.upd pl p).periods p = none := by
  unfold stagingOf at h ⊢
  cases hg : aget rr.periods p with
  | none => rw [hg] at h; cases h
  | some pr =>
    rw [RoundR.upd_aget_of_some hg]
    split
    · left; rw [hg] at h; exact h
    · right; rfl

theorem readStaging_reads {pl : PlayerF} {rr rr' : RoundR} {p v : Nat} {st : Staged} (hs : stagingOf rr p = some v)
    (h : rr.readStaging pl p = .ok (rr', st)) : st.proposal = v := by
  unfold RoundR.readStaging at h
  split at h
  · cases h
  rename_i rr₁ w hat
  simp only [Except.ok.injEq, Prod.mk.injEq] at h
  obtain ⟨_, rfl⟩ := h
  unfold RoundR.atPeriod at hat
  simp only [] at hat
  split at hat
  · cases hat
  rename_i pr hpr
  simp only [Except.ok.injEq, Prod.mk.injEq] at hat
  obtain ⟨_, rfl⟩ := hat
  rcases upd_stagingOf (pl := pl) hs with h' | h'
  · unfold stagingOf at h'
    rw [hpr] at h'
    simp only [Option.map_some, Option.some.injEq] at h'
    show (pr.upd 0).ptracker.staging = v
    rw [(PeriodR.upd_fields pr 0).1]; exact h'
  · rw [hpr] at h'; cases h'

theorem staged_reads {σ σ' : State} {r p v : Nat} {st : Staged} (hs : stagingAt σ.root r p = some v)
    (h : staged P σ r p = .ok (σ', st)) : st.proposal = v := by
  rw [staged_eq] at h
  unfold liftRoot at h
  split at h
  · cases h
  rename_i root a hx
  simp only [Except.ok.injEq, Prod.mk.injEq] at h
  obtain ⟨_, rfl⟩ := h
  unfold Root.atRound at hx
  simp only [] at hx
  split at hx
  · cases hx
  rename_i rr hrr
  split at hx
  · cases hx
  rename_i rr' a' hfa
  simp only [Except.ok.injEq, Prod.mk.injEq] at hx
  obtain ⟨_, rfl⟩ := hx
  unfold stagingAt at hs
  cases hg : aget σ.root.rounds r with
  | none => rw [hg] at hs; cases hs
  | some rr₀ =>
    rw [hg] at hs
    simp only [Option.bind_some] at hs
    rw [Root.upd_aget_of_some hg] at hrr
    split at hrr
    · simp only [Option.some.injEq] at hrr
      subst hrr
      rcases upd_stagingOf (pl := σ.pl) hs with h' | h'
      · exact readStaging_reads h' hfa
      · -- the period router was collected: the nested dispatch dereferences nil
        exfalso
        unfold RoundR.readStaging RoundR.atPeriod at hfa
        simp only [] at hfa
        have : aget ((rr₀.upd σ.pl p).upd σ.pl p).periods p = none := by
          unfold RoundR.upd at h' ⊢
          simp only [] at h' ⊢
          rw [h']
          simp only [aget_append, Option.none_or]
          rw [aget_filter_key _ (keepPeriod σ.pl) p]
          unfold RoundR.upd at h'
          sorry
        sorry
    · cases hrr

end AlgoVerif.Lemmas.Player
