/-
Lemmas for Model.AsmFormat: the table facts the format and token theorems assume, for `buildTables` of any row list and for
today's generated tables (`genEnv`). Builds on the finished C34 theorems about `buildTables`.
-/
import AlgoVerif.Props.C34
import AlgoVerif.Lemmas.AsmFormatParse
namespace Lemmas.AsmFormat
open Model.OpTables Model.AsmFormat

/-- FULL (every row list). The table of any version only returns a spec under its own opcode / sub-opcode bytes. -/
theorem lookSound_build (rows : List Spec) (v : Nat) : LookSound (getSpec (buildTables rows) v) := by
  intro op next s h
  obtain ⟨_, _, h3, h4⟩ := Props.C34.table_version_sound rows v op next s h
  refine ⟨h3, fun hne => ?_⟩
  rcases h4 with h4 | h4
  · exact absurd h4 hne
  · exact h4

/-- a sub-opcode list stores at index `j` only specs with sub-opcode `j ≠ 0` -/
def subsOKB : List (Option Spec) → Nat → Bool
  | [], _ => true
  | none :: rest, j => subsOKB rest (j + 1)
  | some s :: rest, j => s.sub == j && j != 0 && subsOKB rest (j + 1)

/-- a cell is either a plain opcode or a pure prefix -/
def cellOKB (c : Cell) : Bool := (c.subs.isEmpty || c.spec.isNone) && subsOKB c.subs 0

def tableOKB (t : Table) : Bool := t.all cellOKB

theorem subsOKB_get : ∀ (l : List (Option Spec)) (j k : Nat) (s : Spec), subsOKB l j = true → l[k]? = some (some s) →
    s.sub = j + k ∧ j + k ≠ 0
  | [], _, _, _, _, h => by simp at h
  | none :: rest, j, k, s, hok, h => by
    cases k with
    | zero => simp at h
    | succ k =>
      simp only [List.getElem?_cons_succ] at h
      have := subsOKB_get rest (j + 1) k s (by simpa [subsOKB] using hok) h
      omega
  | some s0 :: rest, j, k, s, hok, h => by
    simp only [subsOKB, Bool.and_eq_true, beq_iff_eq, bne_iff_ne] at hok
    cases k with
    | zero =>
      simp only [List.getElem?_cons_zero, Option.some.injEq] at h
      subst h
      exact ⟨by omega, by omega⟩
    | succ k =>
      simp only [List.getElem?_cons_succ] at h
      have := subsOKB_get rest (j + 1) k s hok.2 h
      omega

/-- whatever a well-shaped table returns is registered: looking its own bytes up again returns it -/
theorem reg_of_lookup {tbl : Nat → Table} {v op : Nat} {next : Option Nat} {s : Spec} (hc : tableOKB (tbl v) = true)
    (hl : LookSound (getSpec tbl v)) (h : getSpec tbl v op next = some s) : Reg (getSpec tbl v) s := by
  obtain ⟨hop, _⟩ := hl op next s h
  unfold getSpec at h
  cases hcell : (tbl v)[op]? with
  | none => simp [hcell] at h
  | some c =>
    simp only [hcell] at h
    have hcok : cellOKB c = true := by
      unfold tableOKB at hc
      rw [List.all_eq_true] at hc
      exact hc c (List.mem_of_getElem? hcell)
    unfold cellOKB at hcok
    simp only [Bool.and_eq_true, Bool.or_eq_true, List.isEmpty_iff, Option.isNone_iff_eq_none] at hcok
    intro next' hn'
    unfold getSpec
    rw [hop, hcell]
    cases hsubs : c.subs with
    | nil =>
      simp only [hsubs] at h ⊢
      exact h
    | cons x xs =>
      have hnone : c.spec = none := by
        rcases hcok.1 with h1 | h1
        · rw [hsubs] at h1; cases h1
        · exact h1
      cases next with
      | none => simp only [hsubs, hnone] at h; cases h
      | some sub =>
        simp only [hsubs] at h
        cases hg : (x :: xs)[sub]? with
        | none => simp only [hg, hnone] at h; cases h
        | some o =>
          cases o with
          | none => simp only [hg, hnone] at h; cases h
          | some s' =>
            simp only [hg, Option.some.injEq] at h
            subst h
            obtain ⟨hsub, hne⟩ := subsOKB_get (x :: xs) 0 sub s' (by rw [← hsubs]; exact hcok.2) hg
            have hn2 := hn' (by omega)
            subst hn2
            have : s'.sub = sub := by omega
            rw [this]
            simp only [hsubs, hg]

/-! ### today's tables -/

section Gen
open Gen.OpTable
set_option maxRecDepth 100000

theorem gen_tables_ok : (List.range (logicVersion + 1)).all (fun v => tableOKB (buildTables opSpecs v)) = true := by
  decide +kernel

theorem gen_tableOK (v : Nat) (hv : v ≤ logicVersion) : tableOKB (genEnv.tbl v) = true := by
  have := List.all_eq_true.mp gen_tables_ok v (List.mem_range.mpr (by omega))
  exact this

/-- FULL for today's tables: every spec the table of a version returns is registered in it. -/
theorem gen_lookReg (v : Nat) (hv : v ≤ logicVersion) :
    ∀ op next s, genEnv.look v op next = some s → Reg (genEnv.look v) s :=
  fun _ _ _ h => reg_of_lookup (gen_tableOK v hv) (lookSound_build opSpecs v) h

theorem gen_lookSound (v : Nat) : LookSound (genEnv.look v) := lookSound_build opSpecs v

/-- row ids identify rows -/
theorem gen_id_inj {r r' : Spec} (hr : r ∈ opSpecs) (hr' : r' ∈ opSpecs) (h : r.id = r'.id) : r = r' := by
  obtain ⟨i, hi, ei⟩ := List.mem_iff_getElem.mp hr
  obtain ⟨j, hj, ej⟩ := List.mem_iff_getElem.mp hr'
  have hm := Props.C34.ids_are_positions
  have h1 : (opSpecs.map (·.id))[i]? = some r.id := by simp [hi, ei]
  have h2 : (opSpecs.map (·.id))[j]? = some r'.id := by simp [hj, ej]
  rw [hm] at h1 h2
  rw [List.getElem?_range hi] at h1
  rw [List.getElem?_range hj] at h2
  simp only [Option.some.injEq] at h1 h2
  have : i = j := by omega
  subst this
  rw [← ei, ← ej]

def lookupKey (tbl : Nat → Table) (v : Nat) (p : Spec) : Option Spec :=
  if p.sub = 0 then
    match (tbl v)[p.opcode]? with
    | some ⟨some s', []⟩ => some s'
    | _ => none
  else getSpec tbl v p.opcode (some p.sub)

def namesRegB (env : Env) : Bool :=
  env.rows.all (fun r0 => (List.range (env.logicVersion + 1)).all (fun v =>
    match pickLatest v (env.rows.filter (fun r => sameKey r0 r)) with
    | none => true
    | some p =>
      match lookupKey env.tbl v p with
      | some s' => s'.id == p.id && s'.version == (if v = 0 then 0 else p.version)
      | none => false))

theorem gen_namesRegB : namesRegB genEnv = true := by decide +kernel

theorem gen_rows_version (r : Spec) (hr : r ∈ opSpecs) : 1 ≤ r.version := by
  have wf := List.all_eq_true.mp Props.C34.rows_well_formed r hr
  simp only [Bool.and_eq_true, decide_eq_true_eq] at wf
  exact wf.1.2

/-- FULL for today's tables: the spec found under a name is the one the version's table returns for its bytes. -/
theorem gen_namesReg (v : Nat) (hv : v ≤ logicVersion) :
    ∀ name s, byName genEnv v name = some s → Reg (genEnv.look v) s := by
  intro name s h
  unfold byName at h
  cases hf : genEnv.rows.find? (fun r => r.name = name) with
  | none => simp [hf] at h
  | some r0 =>
    simp only [hf] at h
    cases hp : pickLatest v (genEnv.rows.filter (fun r => sameKey r0 r)) with
    | none => simp [hp] at h
    | some p =>
      simp only [hp] at h
      split at h
      · simp only [Option.some.injEq] at h
        have hr0 : r0 ∈ genEnv.rows := List.mem_of_find?_eq_some hf
        have hchk := List.all_eq_true.mp (List.all_eq_true.mp gen_namesRegB r0 hr0) v
          (List.mem_range.mpr (by show v < logicVersion + 1; omega))
        simp only [hp] at hchk
        have hpmem : p ∈ opSpecs := by
          unfold pickLatest at hp
          rcases pickLatest_mem v _ none p hp with h1 | h1
          · exact (List.mem_filter.mp h1).1
          · cases h1
        cases hk : lookupKey genEnv.tbl v p with
        | none => simp [hk] at hchk
        | some s' =>
          simp only [hk, Bool.and_eq_true, beq_iff_eq] at hchk
          -- the table entry is `s`
          have hget : ∃ next, getSpec genEnv.tbl v p.opcode next = some s' ∧ (p.sub = 0 → ∀ n, getSpec genEnv.tbl v p.opcode n = some s') := by
            unfold lookupKey at hk
            by_cases hsub : p.sub = 0
            · rw [if_pos hsub] at hk
              cases hcell : (genEnv.tbl v)[p.opcode]? with
              | none => simp [hcell] at hk
              | some c =>
                obtain ⟨cs, csubs⟩ := c
                cases cs with
                | none => simp [hcell] at hk
                | some s0 =>
                  cases csubs with
                  | cons _ _ => simp [hcell] at hk
                  | nil =>
                    simp only [hcell, Option.some.injEq] at hk
                    subst hk
                    have : ∀ n, getSpec genEnv.tbl v p.opcode n = some s0 := by
                      intro n; unfold getSpec; rw [hcell]
                    exact ⟨none, this none, fun _ => this⟩
            · rw [if_neg hsub] at hk
              exact ⟨_, hk, fun h0 => absurd h0 hsub⟩
          obtain ⟨next, hg, _⟩ := hget
          obtain ⟨hrow, _, _, _⟩ := Props.C34.table_version_sound opSpecs v p.opcode next s' hg
          have hs' : s' = (if v = 0 then { p with version := 0 } else p) := by
            rcases hrow with hrow | ⟨hv0, r', hr', hver, hs'⟩
            · -- a genuine row: versions are ≥ 1, so v ≠ 0
              have := gen_rows_version s' hrow
              by_cases hv0 : v = 0
              · simp only [hv0, if_true] at hchk; omega
              · rw [if_neg hv0]
                exact gen_id_inj hrow hpmem hchk.1
            · subst hv0
              simp only [if_true]
              subst hs'
              simp only [Props.C34.alias0] at hchk ⊢
              have := gen_id_inj hr' hpmem hchk.1
              subst this
              rfl
          rw [← h, ← hs']
          exact reg_of_lookup (gen_tableOK v hv) (lookSound_build opSpecs v) hg
      · cases h

def pseudoOKB (env : Env) : Bool :=
  env.rows.all (fun r => !env.pseudoFull.contains r.name &&
    (match env.pseudoArgc.find? (fun q => q.1 = r.name) with
     | none => true
     | some p => r.imms.all (fun im => !(im.kind == 5 || im.kind == 6 || im.kind == 7)) &&
         p.2.find? (fun a => a.1 = r.imms.length) == some (r.imms.length, r.name)))

theorem pseudoOK_of_B {env : Env} (h : pseudoOKB env = true) : PseudoOK env := by
  unfold pseudoOKB at h
  rw [List.all_eq_true] at h
  refine ⟨?_, ?_⟩
  · intro r hr
    have := h r hr
    simp only [Bool.and_eq_true, Bool.not_eq_true'] at this
    exact this.1
  · intro r hr p hp
    have := h r hr
    simp only [Bool.and_eq_true, hp, List.all_eq_true, Bool.not_eq_true', Bool.or_eq_false_iff, beq_eq_false_iff_ne,
      beq_iff_eq] at this
    refine ⟨?_, this.2.2⟩
    intro im him hl
    have := this.2.1 im him
    unfold isListKind at hl
    omega

theorem gen_pseudoOKB : pseudoOKB genEnv = true := by decide +kernel

theorem gen_pseudoOK : PseudoOK genEnv := pseudoOK_of_B gen_pseudoOKB

theorem gen_groupIdx : GroupIdx genEnv := by
  unfold GroupIdx
  decide +kernel

end Gen

end Lemmas.AsmFormat
