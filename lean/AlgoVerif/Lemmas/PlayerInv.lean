import AlgoVerif.Lemmas.PlayerBasic
import AlgoVerif.Props.C06
/-!
The node-local invariant of PlayerM behind C03 (`Inv`), and its preservation by every router-level operation.

* every vote tracker in the tree refines a history of *good* votes (votes that satisfied the per-vote predicate for the
  tracker's (round, period, step)) — so `Props.C06.genBundle_valid` applies to every threshold event it emits;
* the freshest threshold event cached by every round router carries a bundle that passes the structural bundle
  verification for its (round, period, step, value);
* every validated payload held by the proposal store of round `r` is stored under its own proposal-value and is a
  block of round `r`.
-/
namespace AlgoVerif.Lemmas.Player
open AlgoVerif.Model AlgoVerif.Model.Player AlgoVerif.Model.VoteTracker AlgoVerif.Spec.VoteTracker

/-- what vote verification guarantees about the votes of one (round, period, step): positive weight, and the weight is
a function of the sender (hypotheses `PosWeights` / `Consistent` of C06) -/
structure GoodSpec (good : Nat → Nat → Nat → Vote → Bool) : Prop where
  pos : ∀ r p s a, good r p s a = true → 0 < a.weight
  cons : ∀ r p s a b, good r p s a = true → good r p s b = true → a.sender = b.sender → a.weight = b.weight

variable (P : Params) (good : Nat → Nat → Nat → Vote → Bool)

/-- the tracker of (r, p, s) holds exactly what a history of good votes prescribes -/
def TrackerOK (r p s : Nat) (t : Tracker) : Prop := ∃ vs, Refines vs t ∧ ∀ a ∈ vs, good r p s a = true

/-- a threshold event of round `r` is backed by a structurally valid bundle of good votes -/
def ThreshOK (r : Nat) (e : Thresh) : Prop :=
  (e.kind ≠ 0 → e.round = r ∧ e.bundle.proposal = e.proposal ∧ (e.kind = 2 → e.step = 2) ∧
    Bundle.verify (cfgOf P e.step) (good r e.period e.step) e.bundle = true) ∧
  (e.kind = 0 → e.bundle.proposal = 0)

def QS (r p s : Nat) (sr : StepR) : Prop := TrackerOK good r p s sr.tracker
def QP (r p : Nat) (pr : PeriodR) : Prop := ∀ kv ∈ pr.steps, QS good r p kv.1 kv.2
def AsmOK (r : Nat) (st : Store) : Prop :=
  ∀ kv ∈ st.assemblers, ∀ pl, kv.2.payload = some pl → pl.value = kv.1 ∧ pl.round = r
def QR (r : Nat) (rr : RoundR) : Prop :=
  (∀ kv ∈ rr.periods, QP good r kv.1 kv.2) ∧ ThreshOK P good r rr.freshest ∧ AsmOK r rr.store
def QRoot (root : Root) : Prop := ∀ kv ∈ root.rounds, QR P good kv.1 kv.2

theorem trackerOK_empty (r p s : Nat) : TrackerOK good r p s {} := ⟨[], Props.C06.refines_init, by simp⟩
theorem QS_empty (r p s : Nat) : QS good r p s {} := trackerOK_empty good r p s
theorem QP_empty (r p : Nat) : QP good r p {} := by intro kv h; exact (List.not_mem_nil h).elim
theorem threshOK_empty (r : Nat) : ThreshOK P good r {} := ⟨fun h => absurd rfl h, fun _ => rfl⟩
theorem QR_empty (r : Nat) : QR P good r {} := by
  refine ⟨?_, threshOK_empty P good r, ?_⟩
  · intro kv h; exact (List.not_mem_nil h).elim
  · intro kv h; exact (List.not_mem_nil h).elim

theorem QP_upd {r p s : Nat} {pr : PeriodR} (h : QP good r p pr) : QP good r p (pr.upd s) := by
  intro kv hkv
  rcases PeriodR.upd_steps_mem hkv with h' | h'
  · exact h kv h'
  · subst h'; exact QS_empty good r p s

theorem QR_upd {pl : PlayerF} {r p : Nat} {rr : RoundR} (h : QR P good r rr) : QR P good r (rr.upd pl p) := by
  obtain ⟨h1, h2, h3⟩ := h
  obtain ⟨e1, e2, _⟩ := RoundR.upd_fields pl rr p
  refine ⟨?_, e2 ▸ h2, e1 ▸ h3⟩
  intro kv hkv
  rcases RoundR.upd_periods_mem hkv with h' | h'
  · exact h1 kv h'
  · subst h'; exact QP_empty good r p

theorem QRoot_upd {pl : PlayerF} {r : Nat} {root : Root} (h : QRoot P good root) : QRoot P good (root.upd P pl r) := by
  intro kv hkv
  rcases Root.upd_rounds_mem hkv with h' | h'
  · exact h kv h'
  · subst h'; exact QR_empty P good r

/-! ### the three zoom combinators -/

theorem atStep_spec {α : Type} {R : α → Prop} {r p s : Nat} {pr pr' : PeriodR} {a : α} {f : StepR → Except Panic (StepR × α)}
    (hQ : QP good r p pr)
    (hf : ∀ sr sr' a, QS good r p s sr → f sr = .ok (sr', a) → QS good r p s sr' ∧ R a)
    (h : pr.atStep s f = .ok (pr', a)) :
    QP good r p pr' ∧ R a ∧ pr'.ptracker = pr.ptracker ∧ pr'.ptContract = pr.ptContract ∧ pr'.cached = pr.cached := by
  unfold PeriodR.atStep at h
  simp only [] at h
  split at h
  · cases h
  · rename_i sr hsr
    split at h
    · cases h
    · rename_i sr' a' hfa
      simp only [Except.ok.injEq, Prod.mk.injEq] at h
      obtain ⟨rfl, rfl⟩ := h
      have hup := QP_upd good (s := s) hQ
      have hsrQ : QS good r p s sr := hup (s, sr) (aget_mem hsr)
      obtain ⟨h1, h2⟩ := hf sr sr' a' hsrQ hfa
      obtain ⟨e1, e2, e3⟩ := PeriodR.upd_fields pr s
      refine ⟨?_, h2, e1, e2, e3⟩
      intro kv hkv
      rcases mem_aset hkv with h' | h'
      · exact hup kv h'
      · subst h'; exact h1

theorem atPeriod_spec {α : Type} {R : α → Prop} {pl : PlayerF} {r p s : Nat} {rr rr' : RoundR} {a : α}
    {f : PeriodR → Except Panic (PeriodR × α)}
    (hQ : QR P good r rr)
    (hf : ∀ pr pr' a, QP good r p pr → f pr = .ok (pr', a) → QP good r p pr' ∧ R a)
    (h : rr.atPeriod pl p s f = .ok (rr', a)) :
    QR P good r rr' ∧ R a ∧ rr'.store = rr.store ∧ rr'.freshest = rr.freshest ∧ rr'.ok = rr.ok := by
  unfold RoundR.atPeriod at h
  simp only [] at h
  split at h
  · cases h
  · rename_i pr hpr
    split at h
    · cases h
    · rename_i pr' a' hfa
      simp only [Except.ok.injEq, Prod.mk.injEq] at h
      obtain ⟨rfl, rfl⟩ := h
      have hup := QR_upd P good (pl := pl) (p := p) hQ
      obtain ⟨hu1, hu2, hu3⟩ := hup
      have hprQ : QP good r p pr := hu1 (p, pr) (aget_mem hpr)
      obtain ⟨h1, h2⟩ := hf (pr.upd s) pr' a' (QP_upd good hprQ) hfa
      obtain ⟨e1, e2, e3⟩ := RoundR.upd_fields pl rr p
      refine ⟨⟨?_, hu2, hu3⟩, h2, e1, e2, e3⟩
      intro kv hkv
      rcases mem_aset hkv with h' | h'
      · exact hu1 kv h'
      · subst h'; exact h1

theorem atRound_spec {α : Type} {R : α → Prop} {pl : PlayerF} {r p : Nat} {root root' : Root} {a : α}
    {f : RoundR → Except Panic (RoundR × α)}
    (hQ : QRoot P good root)
    (hf : ∀ rr rr' a, QR P good r rr → f rr = .ok (rr', a) → QR P good r rr' ∧ R a)
    (h : root.atRound P pl r p f = .ok (root', a)) :
    QRoot P good root' ∧ R a := by
  unfold Root.atRound at h
  simp only [] at h
  split at h
  · cases h
  · rename_i rr hrr
    split at h
    · cases h
    · rename_i rr' a' hfa
      simp only [Except.ok.injEq, Prod.mk.injEq] at h
      obtain ⟨rfl, rfl⟩ := h
      have hup := QRoot_upd P good (pl := pl) (r := r) hQ
      have hrrQ : QR P good r rr := hup (r, rr) (aget_mem hrr)
      obtain ⟨h1, h2⟩ := hf (rr.upd pl p) rr' a' (QR_upd P good hrrQ) hfa
      refine ⟨?_, h2⟩
      intro kv hkv
      rcases mem_aset hkv with h' | h'
      · exact hup kv h'
      · subst h'; exact h1

/-! ### the step machine -/

theorem verify_mono {c : Cfg} {v₁ v₂ : Vote → Bool} (hv : ∀ a, v₁ a = true → v₂ a = true) {b : Bundle}
    (h : Bundle.verify c v₁ b = true) : Bundle.verify c v₂ b = true := by
  unfold Bundle.verify at h ⊢
  simp only [Bool.and_eq_true, List.all_eq_true] at h ⊢
  obtain ⟨⟨⟨⟨⟨h1, h2⟩, h3⟩, h4⟩, h5⟩, h6⟩ := h
  refine ⟨⟨⟨⟨⟨h1, h2⟩, h3⟩, ?_⟩, ?_⟩, h6⟩
  · intro a ha; exact hv _ (h4 a ha)
  · intro e he
    obtain ⟨⟨ha, hb⟩, hc⟩ := h5 e he
    exact ⟨⟨ha, hv _ hb⟩, hv _ hc⟩

theorem accept_spec (hg : GoodSpec good) {r p s : Nat} {x : Vote} {sr sr' : StepR} {th : Thresh}
    (hQ : QS good r p s sr) (hx : good r p s x = true) (h : sr.accept P r p s x = .ok (sr', th)) :
    QS good r p s sr' ∧ ThreshOK P good r th := by
  unfold StepR.accept at h
  split at h
  · cases h
  split at h
  · cases h
  simp only [] at h
  split at h
  · cases h
  rename_i t' ev hh
  obtain ⟨vs, hR, hall⟩ := hQ
  have hall' : ∀ a ∈ vs ++ [x], good r p s a = true := by
    intro a ha
    rcases List.mem_append.mp ha with ha | ha
    · exact hall a ha
    · simp at ha; subst ha; exact hx
  have hpos : PosWeights (vs ++ [x]) := fun a ha => hg.pos r p s a (hall' a ha)
  have hcons : Consistent (vs ++ [x]) := fun a ha b hb hs => hg.cons r p s a b (hall' a ha) (hall' b hb) hs
  have hR' := Props.C06.handle_refines hR hpos hcons hh
  split at h
  · cases h
  rename_i hbad
  simp only [Except.ok.injEq, Prod.mk.injEq] at h
  obtain ⟨rfl, rfl⟩ := h
  refine ⟨⟨vs ++ [x], hR', hall'⟩, ?_⟩
  cases ev with
  | none => exact threshOK_empty P good r
  | threshold k v b =>
    obtain ⟨hbv, hver⟩ := Props.C06.genBundle_valid hR hpos hcons hh
    show ThreshOK P good r ⟨k, r, p, s, v, b⟩
    refine ⟨fun _ => ⟨rfl, hbv, ?_, ?_⟩, fun hk0 => ?_⟩
    rotate_left 2
    · -- an emitted event has the kind of its step, never `none`
      have hk := ((Props.C06.threshold_exact hR hpos hcons hh).2 k v b rfl).2.2
      have hk0' : k = 0 := hk0
      rw [hk0'] at hk
      unfold eventKind at hk
      split at hk
      · cases hk
      · split at hk <;> cases hk
    · intro hk
      simp only [vtPost, Bool.or_eq_true, Bool.and_eq_true, not_or] at hbad
      have hk2 : ¬ ((k == 2) = true ∧ (s != 2) = true) := hbad.1.1.1.1.2
      have hk' : k = 2 := hk
      subst hk'
      show s = 2
      apply Decidable.byContradiction
      intro hs
      exact hk2 ⟨by simp, by simpa using hs⟩
    · exact verify_mono (fun a ha => hall' a (by simpa using ha)) hver

/-! ### the proposal store -/

theorem asm_ok {r : Nat} {st : Store} (h : AsmOK r st) {v : Nat} {pl : Payload} (hp : (st.asm v).payload = some pl) :
    pl.value = v ∧ pl.round = r := by
  unfold Store.asm at hp
  cases hg : aget st.assemblers v with
  | none => rw [hg] at hp; cases hp
  | some ea => rw [hg] at hp; exact h (v, ea) (aget_mem hg) pl hp

theorem asmOK_aset {r : Nat} {st : Store} (h : AsmOK r st) (k : Nat) (ea : Assembler) (rel : List (Nat × Nat)) (pin : Nat)
    (hea : ∀ pl, ea.payload = some pl → pl.value = k ∧ pl.round = r) :
    AsmOK r { relevant := rel, pinned := pin, assemblers := aset st.assemblers k ea } := by
  intro kv hkv pl hpl
  rcases mem_aset hkv with h' | h'
  · exact h kv h' pl hpl
  · subst h'; exact hea pl hpl

theorem trim_fold_inv (st : Store) (period : Nat) (keys : List Nat) :
    ∀ acc : List (Nat × Assembler), (∀ kv ∈ acc, kv.2 = (st.asm kv.1).trim period) →
      ∀ kv ∈ keys.foldl (fun acc k => aset acc k ((st.asm k).trim period)) acc, kv.2 = (st.asm kv.1).trim period := by
  induction keys with
  | nil => intro acc h; exact h
  | cons k rest ih =>
    intro acc h
    simp only [List.foldl]
    apply ih
    intro kv hkv
    rcases mem_aset hkv with h' | h'
    · exact h kv h'
    · subst h'; rfl

theorem trim_asmOK {r : Nat} {st : Store} (h : AsmOK r st) (period : Nat) : AsmOK r (st.trim period) := by
  intro kv hkv pl hpl
  unfold Store.trim at hkv
  simp only [adel, List.mem_filter] at hkv
  have := trim_fold_inv st period (st.pinned :: st.relevant.map Prod.snd) [] (by intro kv h; cases h) kv hkv.1
  rw [this] at hpl
  exact asm_ok h (v := kv.1) (by simpa [Assembler.trim] using hpl)

theorem asmOK_congr {r : Nat} {st st' : Store} (h : AsmOK r st) (he : st'.assemblers = st.assemblers) : AsmOK r st' := by
  intro kv hkv; rw [he] at hkv; exact h kv hkv

/-! ### period machines that do not touch the step children -/

theorem QP_of_steps {r p : Nat} {pr pr' : PeriodR} (h : QP good r p pr) (he : pr'.steps = pr.steps) : QP good r p pr' := by
  intro kv hkv; rw [he] at hkv; exact h kv hkv

theorem pvoteVerified_steps {pr pr' : PeriodR} {v : PVote} {res : PVRes} (h : pr.pvoteVerified v = .ok (pr', res)) :
    pr'.steps = pr.steps := by
  unfold PeriodR.pvoteVerified at h
  simp only [] at h
  split at h
  · cases h
  · simp only [Except.ok.injEq, Prod.mk.injEq] at h; obtain ⟨rfl, _⟩ := h; rfl

theorem freeze_steps {pr pr' : PeriodR} {v : Nat} (h : pr.freeze = .ok (pr', v)) : pr'.steps = pr.steps := by
  unfold PeriodR.freeze at h
  split at h
  · cases h
  split at h
  · cases h
  simp only [Except.ok.injEq, Prod.mk.injEq] at h
  obtain ⟨rfl, _⟩ := h
  rfl

theorem stage_spec {pr pr' : PeriodR} {kind value : Nat} (h : pr.stage kind value = .ok (pr', ())) :
    pr'.steps = pr.steps ∧ pr'.ptracker.staging = value := by
  unfold PeriodR.stage at h
  split at h
  · cases h
  simp only [Except.ok.injEq, Prod.mk.injEq] at h
  obtain ⟨rfl, _⟩ := h
  exact ⟨rfl, rfl⟩

/-! ### round machines -/

def StagedOK (r : Nat) (st : Staged) : Prop := ∀ pay, st.payload = some pay → pay.value = st.proposal ∧ pay.round = r

theorem readStaging_spec {pl : PlayerF} {r p : Nat} {rr rr' : RoundR} {st : Staged} (hQ : QR P good r rr)
    (h : rr.readStaging pl p = .ok (rr', st)) : QR P good r rr' ∧ StagedOK r st := by
  unfold RoundR.readStaging at h
  split at h
  · cases h
  rename_i rr₁ v hat
  simp only [Except.ok.injEq, Prod.mk.injEq] at h
  obtain ⟨rfl, rfl⟩ := h
  obtain ⟨h1, _, _⟩ := atPeriod_spec P good (R := fun _ => True) hQ
    (fun pr pr' a hq hf => by
      simp only [Except.ok.injEq, Prod.mk.injEq] at hf
      obtain ⟨rfl, _⟩ := hf
      exact ⟨hq, trivial⟩) hat
  exact ⟨h1, fun pay hp => asm_ok h1.2.2 hp⟩

theorem stagedSelf_spec {pl : PlayerF} {r : Nat} {rr rr' : RoundR} {st : Staged} (hQ : QR P good r rr)
    (h : RoundR.stagedSelf pl rr = .ok (rr', st)) : QR P good r rr' ∧ StagedOK r st := by
  unfold RoundR.stagedSelf at h
  exact readStaging_spec P good (QR_upd P good hQ) h

theorem pvoteVerified_spec {pl : PlayerF} {r : Nat} {rr rr' : RoundR} {v : PVote} {res : PVRes} (hQ : QR P good r rr)
    (h : rr.pvoteVerified pl v = .ok (rr', res)) : QR P good r rr' := by
  unfold RoundR.pvoteVerified at h
  split at h
  · cases h
  · rename_i rr₁ b hat
    simp only [Except.ok.injEq, Prod.mk.injEq] at h
    obtain ⟨rfl, _⟩ := h
    exact (atPeriod_spec P good (R := fun _ => True) hQ
      (fun pr pr' a hq hf => ⟨QP_of_steps good hq (pvoteVerified_steps hf), trivial⟩) hat).1
  · rename_i rr₁ val pay hat
    simp only [Except.ok.injEq, Prod.mk.injEq] at h
    obtain ⟨rfl, _⟩ := h
    obtain ⟨⟨h1, h2, h3⟩, _⟩ := atPeriod_spec P good (R := fun _ => True) hQ
      (fun pr pr' a hq hf => ⟨QP_of_steps good hq (pvoteVerified_steps hf), trivial⟩) hat
    refine ⟨h1, h2, ?_⟩
    apply trim_asmOK
    apply asmOK_aset h3
    intro pl' hpl'
    exact asm_ok h3 hpl'

theorem payloadPresent_spec {pl : PlayerF} {r : Nat} {rr : RoundR} {up : Payload} (hQ : QR P good r rr) :
    QR P good r (rr.payloadPresent pl up).1 := by
  unfold RoundR.payloadPresent
  split
  · exact hQ
  rename_i ea hea
  split
  · exact hQ
  split
  · exact hQ
  obtain ⟨h1, h2, h3⟩ := hQ
  refine ⟨h1, h2, ?_⟩
  apply asmOK_aset h3
  intro pl' hpl'
  exact h3 (up.value, ea) (aget_mem hea) pl' hpl'

theorem payloadVerified_spec {pl : PlayerF} {r : Nat} {rr rr' : RoundR} {pp : Payload} {res : PayRes} (hQ : QR P good r rr)
    (hr : pp.round = r) (h : rr.payloadVerified pl pp = .ok (rr', res)) : QR P good r rr' := by
  unfold RoundR.payloadVerified at h
  split at h
  · simp only [Except.ok.injEq, Prod.mk.injEq] at h; obtain ⟨rfl, _⟩ := h; exact hQ
  rename_i ea hea
  split at h
  · simp only [Except.ok.injEq, Prod.mk.injEq] at h; obtain ⟨rfl, _⟩ := h; exact hQ
  simp only [] at h
  split at h
  · cases h
  rename_i rr₁ a hs
  have hQ₁ : QR P good r rr₁ := by
    refine (stagedSelf_spec P good ?_ hs).1
    obtain ⟨h1, h2, h3⟩ := hQ
    refine ⟨h1, h2, ?_⟩
    apply asmOK_aset h3
    intro pl' hpl'
    simp only [Option.some.injEq] at hpl'
    subst hpl'
    exact ⟨rfl, hr⟩
  split at h <;> (simp only [Except.ok.injEq, Prod.mk.injEq] at h; obtain ⟨rfl, _⟩ := h; exact hQ₁)

theorem newPeriod_spec {pl : PlayerF} {r : Nat} {rr rr' : RoundR} {target starting : Nat} (hQ : QR P good r rr)
    (h : rr.newPeriod pl target starting = .ok (rr', ())) : QR P good r rr' := by
  unfold RoundR.newPeriod at h
  split at h
  · cases h
  rename_i rr₁ staged hs
  simp only [Except.ok.injEq, Prod.mk.injEq] at h
  obtain ⟨rfl, _⟩ := h
  obtain ⟨⟨h1, h2, h3⟩, _⟩ := stagedSelf_spec P good hQ hs
  refine ⟨h1, h2, ?_⟩
  apply trim_asmOK
  exact asmOK_congr h3 rfl

theorem newRound_spec {pl : PlayerF} {rr rr' : RoundR} {res : PayRes} (h : rr.newRound pl = .ok (rr', res)) : rr' = rr := by
  unfold RoundR.newRound at h
  split at h
  · simp only [Except.ok.injEq, Prod.mk.injEq] at h; exact h.1.symm
  · split at h <;> (simp only [Except.ok.injEq, Prod.mk.injEq] at h; exact h.1.symm)
  · cases h

/-- the staging value a round router holds for period `p` -/
def stagingOf (rr : RoundR) (p : Nat) : Option Nat := (aget rr.periods p).map (fun pr => pr.ptracker.staging)

theorem threshold_spec {pl : PlayerF} {r : Nat} {rr rr' : RoundR} {e : Thresh} {c : Option (Nat × Option PVote)}
    (hQ : QR P good r rr) (h : rr.threshold pl e = .ok (rr', c)) :
    QR P good r rr' ∧ stagingOf rr' e.period = some e.proposal := by
  unfold RoundR.threshold at h
  split at h
  · cases h
  rename_i rr₁ hat
  have hst : stagingOf rr₁ e.period = some e.proposal := by
    unfold RoundR.atPeriod at hat
    simp only [] at hat
    split at hat
    · cases hat
    split at hat
    · cases hat
    rename_i pr' u hst
    simp only [Except.ok.injEq, Prod.mk.injEq] at hat
    obtain ⟨rfl, _⟩ := hat
    unfold stagingOf
    simp only [aget_aset_self, Option.map_some, (stage_spec hst).2]
  obtain ⟨⟨h1, h2, h3⟩, _⟩ := atPeriod_spec P good (R := fun _ => True) hQ
    (fun pr pr' a hq hf => ⟨QP_of_steps good hq (stage_spec hf).1, trivial⟩) hat
  simp only [] at h
  split at h
  · simp only [Except.ok.injEq, Prod.mk.injEq] at h
    obtain ⟨rfl, _⟩ := h
    exact ⟨⟨h1, h2, h3⟩, hst⟩
  · simp only [Except.ok.injEq, Prod.mk.injEq] at h
    obtain ⟨rfl, _⟩ := h
    refine ⟨⟨h1, h2, ?_⟩, hst⟩
    apply trim_asmOK
    apply asmOK_aset h3
    intro pl' hpl'
    exact asm_ok h3 hpl'

theorem pvoteAccepted_spec (hg : GoodSpec good) {r p s : Nat} {x : Vote} {pr pr' : PeriodR} {ev : Thresh}
    (hq : QP good r p pr) (hx : good r p s x = true) (hf : pr.voteAccepted P r p s x = .ok (pr', ev)) :
    QP good r p pr' ∧ ThreshOK P good r ev := by
  unfold PeriodR.voteAccepted at hf
  split at hf
  · cases hf
  rename_i pr₂ ev₂ hst
  obtain ⟨hq₂, hev₂, _⟩ := atStep_spec good (R := fun a => ThreshOK P good r a) hq
    (fun sr sr' a hqs hfs => accept_spec P good hg hqs hx hfs) hst
  split at hf
  · simp only [Except.ok.injEq, Prod.mk.injEq] at hf
    obtain ⟨rfl, rfl⟩ := hf
    exact ⟨QP_of_steps good (QP_upd good hq₂) rfl, hev₂⟩
  · simp only [Except.ok.injEq, Prod.mk.injEq] at hf
    obtain ⟨rfl, rfl⟩ := hf
    exact ⟨hq₂, hev₂⟩

theorem voteAccepted_spec (hg : GoodSpec good) {pl : PlayerF} {r p s : Nat} {x : Vote} {rr rr' : RoundR} {ev : Thresh}
    (hQ : QR P good r rr) (hx : good r p s x = true) (h : rr.voteAccepted P pl r p s x = .ok (rr', ev)) :
    QR P good r rr' ∧ ThreshOK P good r ev := by
  unfold RoundR.voteAccepted at h
  split at h
  · cases h
  rename_i rr₁ ev₁ hat
  obtain ⟨⟨h1, h2, h3⟩, hev, _⟩ := atPeriod_spec P good (R := fun a => ThreshOK P good r a) hQ
    (fun pr pr' a hq hf => pvoteAccepted_spec P good hg hq hx hf) hat
  split at h
  · split at h
    · simp only [Except.ok.injEq, Prod.mk.injEq] at h
      obtain ⟨rfl, rfl⟩ := h
      have hu := QR_upd P good (pl := pl) (p := 0) (rr := rr₁) ⟨h1, h2, h3⟩
      exact ⟨⟨hu.1, hev, hu.2.2⟩, hev⟩
    · simp only [Except.ok.injEq, Prod.mk.injEq] at h
      obtain ⟨rfl, rfl⟩ := h
      exact ⟨QR_upd P good ⟨h1, h2, h3⟩, threshOK_empty P good r⟩
  · simp only [Except.ok.injEq, Prod.mk.injEq] at h
    obtain ⟨rfl, rfl⟩ := h
    exact ⟨⟨h1, h2, h3⟩, threshOK_empty P good r⟩

end AlgoVerif.Lemmas.Player
