import AlgoVerif.Lemmas.PlayerBasic
/-!
C07 restore bisimulation, part 1: the erasure `E n` (drop rounds below `n`, erase the unexported late-credential state —
`persistView σ = ⟨σ.pl, ⟨E σ.pl.round σ.root.rounds⟩⟩`) and how the association-list primitives and the router `update`s
commute with it.
-/
namespace AlgoVerif.Lemmas.Player
open AlgoVerif.Model AlgoVerif.Model.Player

/-- persisted image of a period map -/
def Pm (l : List (Nat × PeriodR)) : List (Nat × PeriodR) := l.map (fun kv => (kv.1, kv.2.persist))

/-- persisted image of the round map of a player in round `n` -/
def E (n : Nat) (l : List (Nat × RoundR)) : List (Nat × RoundR) :=
  (l.filter (fun kv => decide (kv.1 ≥ n))).map (fun kv => (kv.1, kv.2.persist))

theorem persistView_eq (σ : State) : persistView σ = ⟨σ.pl, ⟨E σ.pl.round σ.root.rounds⟩⟩ := rfl

theorem RoundR.persist_periods (rr : RoundR) : rr.persist.periods = Pm rr.periods := rfl

theorem aget_map' {α β : Type} (f : α → β) (l : List (Nat × α)) (k : Nat) :
    aget (l.map (fun kv => (kv.1, f kv.2))) k = (aget l k).map f := by
  unfold aget
  induction l with
  | nil => rfl
  | cons hd rest ih =>
    obtain ⟨k', v'⟩ := hd
    simp only [List.map, List.lookup]
    split <;> simp_all

theorem aset_map {α β : Type} (f : α → β) (l : List (Nat × α)) (k : Nat) (x : α) :
    aset (l.map (fun kv => (kv.1, f kv.2))) k (f x) = (aset l k x).map (fun kv => (kv.1, f kv.2)) := by
  induction l with
  | nil => rfl
  | cons hd rest ih =>
    obtain ⟨k', v'⟩ := hd
    simp only [List.map, aset]
    split
    · rfl
    · simp only [List.map, ih]

theorem aget_Pm (l : List (Nat × PeriodR)) (p : Nat) : aget (Pm l) p = (aget l p).map PeriodR.persist := aget_map' _ l p
theorem aset_Pm (l : List (Nat × PeriodR)) (p : Nat) (x : PeriodR) : aset (Pm l) p x.persist = Pm (aset l p x) := aset_map _ l p x

theorem aget_E (n : Nat) (l : List (Nat × RoundR)) (r : Nat) :
    aget (E n l) r = if r ≥ n then (aget l r).map RoundR.persist else none := by
  unfold E
  rw [aget_map' RoundR.persist, aget_filter_key l (fun k => decide (k ≥ n)) r]
  by_cases h : r ≥ n <;> simp [h]

theorem E_nil (n : Nat) : E n [] = [] := rfl

theorem E_cons (n : Nat) (kv : Nat × RoundR) (l : List (Nat × RoundR)) :
    E n (kv :: l) = if kv.1 ≥ n then (kv.1, kv.2.persist) :: E n l else E n l := by
  unfold E
  by_cases h : kv.1 ≥ n <;> simp [List.filter, h]

theorem E_append (n : Nat) (l₁ l₂ : List (Nat × RoundR)) : E n (l₁ ++ l₂) = E n l₁ ++ E n l₂ := by
  unfold E; simp [List.filter_append]

theorem PeriodR.persist_idem' (p : PeriodR) : p.persist.persist = p.persist := rfl

theorem Pm_idem (l : List (Nat × PeriodR)) : Pm (Pm l) = Pm l := by
  unfold Pm; simp [List.map_map, Function.comp_def, PeriodR.persist_idem']

theorem RoundR.persist_idem' (r : RoundR) : r.persist.persist = r.persist := by
  show ({ r.persist with periods := Pm r.persist.periods } : RoundR) = r.persist
  rw [RoundR.persist_periods, Pm_idem]; rfl

/-- dropping more rounds later subsumes dropping fewer earlier -/
theorem E_mono {n n' : Nat} (h : n ≤ n') (l : List (Nat × RoundR)) : E n' (E n l) = E n' l := by
  induction l with
  | nil => rfl
  | cons kv rest ih =>
    rw [E_cons n, E_cons n']
    by_cases h1 : kv.1 ≥ n
    · rw [if_pos h1, E_cons n']
      simp only [RoundR.persist_idem', ih]
    · rw [if_neg h1, ih, if_neg (by omega)]

theorem E_idem (n : Nat) (l : List (Nat × RoundR)) : E n (E n l) = E n l := E_mono (Nat.le_refl n) l

/-- filtering on keys commutes with the erasure -/
theorem E_filter_key (n : Nat) (q : Nat → Bool) (l : List (Nat × RoundR)) :
    E n (l.filter (fun kv => q kv.1)) = (E n l).filter (fun kv => q kv.1) := by
  induction l with
  | nil => rfl
  | cons kv rest ih =>
    by_cases hq : q kv.1 = true
    · simp only [List.filter, hq]
      rw [E_cons, E_cons]
      by_cases h1 : kv.1 ≥ n
      · simp only [if_pos h1, List.filter, hq, ih]
      · simp only [if_neg h1, ih]
    · have hq' : q kv.1 = false := by simpa using hq
      simp only [List.filter, hq']
      rw [E_cons]
      by_cases h1 : kv.1 ≥ n
      · simp only [if_pos h1, List.filter, hq', ih]
      · simp only [if_neg h1, ih]

theorem E_aset_ge {n r : Nat} (h : r ≥ n) (l : List (Nat × RoundR)) (x : RoundR) :
    E n (aset l r x) = aset (E n l) r x.persist := by
  induction l with
  | nil => simp [aset, E_cons, h, E_nil]
  | cons kv rest ih =>
    obtain ⟨k, v⟩ := kv
    simp only [aset]
    by_cases hk : k = r
    · subst hk
      simp only [if_true, E_cons, if_pos h, aset]
    · simp only [if_neg hk, E_cons]
      by_cases h1 : k ≥ n
      · simp only [if_pos h1, aset, if_neg hk, ih]
      · simp only [if_neg h1, ih]

theorem E_aset_lt {n r : Nat} (h : r < n) (l : List (Nat × RoundR)) (x : RoundR) : E n (aset l r x) = E n l := by
  induction l with
  | nil => simp [aset, E_cons, E_nil]; omega
  | cons kv rest ih =>
    obtain ⟨k, v⟩ := kv
    simp only [aset]
    by_cases hk : k = r
    · subst hk
      simp only [if_true, E_cons]
      rw [if_neg (by omega), if_neg (by simp; omega)]
    · simp only [if_neg hk, E_cons, ih]

/-! ### `update` and the erasure -/

theorem PeriodR.upd_persist (pr : PeriodR) (s : Nat) : (pr.upd s).persist = pr.persist.upd s := by
  unfold PeriodR.upd
  show _ = match aget pr.steps s with | some _ => pr.persist | none => _
  cases aget pr.steps s <;> rfl

theorem Pm_filter_key (q : Nat → Bool) (l : List (Nat × PeriodR)) :
    Pm (l.filter (fun kv => q kv.1)) = (Pm l).filter (fun kv => q kv.1) := by
  unfold Pm
  induction l with
  | nil => rfl
  | cons kv rest ih =>
    by_cases hq : q kv.1 = true
    · simp only [List.filter, hq, List.map, ih]
    · have hq' : q kv.1 = false := by simpa using hq
      simp only [List.filter, hq', List.map, ih]

theorem Pm_append_empty (l : List (Nat × PeriodR)) (p : Nat) : Pm (l ++ [(p, ({} : PeriodR))]) = Pm l ++ [(p, ({} : PeriodR))] := by
  unfold Pm; simp only [List.map_append]; rfl

theorem RoundR.upd_persist (pl : PlayerF) (rr : RoundR) (p : Nat) : (rr.upd pl p).persist = rr.persist.upd pl p := by
  unfold RoundR.upd
  simp only [RoundR.persist_periods, aget_Pm]
  cases h : aget rr.periods p with
  | some pr =>
    simp only [Option.map_some]
    show ({ rr.persist with periods := Pm (aset (rr.periods.filter (fun kv => keepPeriod pl kv.1)) p pr) } : RoundR) = _
    rw [← aset_Pm, Pm_filter_key]
  | none =>
    simp only [Option.map_none]
    show ({ rr.persist with periods := Pm (aset ((rr.periods ++ [(p, ({} : PeriodR))]).filter (fun kv => keepPeriod pl kv.1)) p {}) } : RoundR) = _
    rw [← aset_Pm, Pm_filter_key, Pm_append_empty]; rfl

theorem keepRound_of_ge {P : Params} {pl : PlayerF} {r : Nat} (h : r ≥ pl.round) : keepRound P pl r = true := by
  unfold keepRound; simp; omega

/-- `rootRouter.update` seen through the erasure of a player in round `n = pl.round`: the addressed round is created in
both (or in neither), the GC only removes rounds the erasure drops anyway -/
theorem Root.upd_E (P : Params) (pl : PlayerF) (l : List (Nat × RoundR)) (r : Nat) :
    E pl.round ((Root.upd P pl ⟨l⟩ r).rounds) = E pl.round ((Root.upd P pl ⟨E pl.round l⟩ r).rounds) := by
  unfold Root.upd
  simp only []
  have hkeep : ∀ (l' : List (Nat × RoundR)), E pl.round (l'.filter (fun kv => keepRound P pl kv.1)) = E pl.round l' := by
    intro l'
    induction l' with
    | nil => rfl
    | cons kv rest ih =>
      by_cases hk : keepRound P pl kv.1 = true
      · simp only [List.filter, hk, E_cons, ih]
      · have hk' : keepRound P pl kv.1 = false := by simpa using hk
        simp only [List.filter, hk', E_cons, ih]
        have : ¬ kv.1 ≥ pl.round := fun hge => by rw [keepRound_of_ge hge] at hk'; cases hk'
        rw [if_neg this]
  rw [hkeep, hkeep, aget_E]
  by_cases hr : r ≥ pl.round
  · rw [if_pos hr]
    cases h : aget l r with
    | some rr => simp only [Option.map_some, E_idem]
    | none => simp only [Option.map_none, E_append, E_idem]
  · rw [if_neg hr]
    cases h : aget l r with
    | some rr => simp only [E_append, E_idem]; rw [E_cons, if_neg hr]; simp [E_nil]
    | none => simp only [E_append, E_idem]

end AlgoVerif.Lemmas.Player
