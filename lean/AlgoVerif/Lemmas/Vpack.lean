import AlgoVerif.Spec.Vpack
/-! Helper lemmas for C42 (readers, msgpack integers, header bits, proposal window, LRU table). -/
namespace AlgoVerif.Lemmas.Vpack
open AlgoVerif.Model.Vpack AlgoVerif.Spec.Vpack

/-! ### readers -/

theorem readFixed_append {n : Nat} {d : Bytes} (t : Bytes) (h : d.length = n) :
    readFixed n (d ++ t) = some (d, t) := by
  unfold readFixed
  have : n ≤ (d ++ t).length := by simp [List.length_append]; omega
  rw [if_pos this, List.take_left' h, List.drop_left' h]

theorem readVaruint_append {d : Bytes} {v : Nat} (t : Bytes) (h : IsVaruint d v) :
    readVaruint (d ++ t) = .ok (d, v, t) := by
  obtain ⟨b, rest, rfl, hm, hv⟩ := h
  show readVaruint (b :: (rest ++ t)) = _
  unfold readVaruint
  simp only [hm]
  have : rest.length ≤ (rest ++ t).length := by simp [List.length_append]
  rw [if_pos this, List.take_left' rfl, List.drop_left' rfl, hv]

theorem readVaruintBytes_append {d : Bytes} {v : Nat} (t : Bytes) (h : IsVaruint d v) :
    readVaruintBytes (d ++ t) = .ok (d, t) := by
  unfold readVaruintBytes
  rw [readVaruint_append t h]

theorem fixint_facts : ∀ (x : Fin 128),
    varuintRemaining (UInt8.ofNat x.val) = some 0 ∧ (UInt8.ofNat x.val).toNat = x.val := by decide

theorem M64_eq : M64 = 18446744073709551616 := rfl

theorem isVaruint_appendUint64 (u : Nat) (hu : u < M64) : IsVaruint (appendUint64 u) u := by
  unfold appendUint64
  rw [M64_eq] at hu
  split
  · rename_i h
    have := fixint_facts ⟨u, by omega⟩
    exact ⟨UInt8.ofNat u, [], rfl, this.1, by simp [this.2]⟩
  split
  · exact ⟨0xcc, [_], rfl, by rfl, by simp [beNat, UInt8.toNat_ofNat']; omega⟩
  split
  · exact ⟨0xcd, [_, _], rfl, by rfl, by simp [beNat, UInt8.toNat_ofNat']; omega⟩
  split
  · exact ⟨0xce, [_, _, _, _], rfl, by rfl, by simp [beNat, UInt8.toNat_ofNat']; omega⟩
  · exact ⟨0xcf, [_, _, _, _, _, _, _, _], rfl, by rfl, by simp [beNat, UInt8.toNat_ofNat']; omega⟩

theorem beNat_be16 (id : Nat) (h : id < 65536) : beNat (be16 id) = id := by
  simp [beNat, be16, UInt8.toNat_ofNat']; omega

/-! ### header byte of the stateful layer -/

theorem hdr_fields : ∀ (p : Fin 8) (r : Fin 4) (s k k2 : Bool),
    let H : UInt8 := ((((((0 : UInt8) ||| (UInt8.ofNat p.val <<< 2)) ||| UInt8.ofNat r.val) ||| (if s then hdr1SndRef else 0)) |||
      (if k then hdr1PkRef else 0)) ||| (if k2 then hdr1Pk2Ref else 0))
    ((H &&& hdr1PropMask) >>> 2 = UInt8.ofNat p.val) ∧ (H &&& hdr1RndMask = UInt8.ofNat r.val) ∧
    ((H &&& hdr1SndRef ≠ 0) ↔ (s = true)) ∧ ((H &&& hdr1PkRef ≠ 0) ↔ (k = true)) ∧ ((H &&& hdr1Pk2Ref ≠ 0) ↔ (k2 = true)) := by
  decide

theorem mask_bit (h b : UInt8) (hb : propFieldsMask &&& b = b) : (h &&& propFieldsMask) &&& b = h &&& b := by
  rw [UInt8.and_assoc, hb]

/-! ### proposal window -/

theorem lookupFrom_spec (w : PropWindow) (pv : PropEntry) :
    ∀ n i, i + n = w.size → w.lookupFrom pv i n ≠ 0 →
      ∃ j, j < w.size ∧ w.lookupFrom pv i n = w.size - j ∧ w.slotAt j = pv := by
  intro n
  induction n with
  | zero => intro i _ h; simp [PropWindow.lookupFrom] at h
  | succ n ih =>
    intro i hi h
    unfold PropWindow.lookupFrom at h ⊢
    by_cases heq : w.slotAt i = pv
    · rw [if_pos heq]; exact ⟨i, by omega, rfl, heq⟩
    · rw [if_neg heq] at h ⊢
      exact ih (i + 1) (by omega) h

theorem lookup_byRef (w : PropWindow) (pv : PropEntry) (h : w.lookup pv ≠ 0) :
    1 ≤ w.lookup pv ∧ w.lookup pv ≤ w.size ∧ w.byRef (w.lookup pv) = some pv := by
  obtain ⟨j, hj, he, hs⟩ := lookupFrom_spec w pv w.size 0 (by omega) h
  unfold PropWindow.lookup at *
  rw [he]
  refine ⟨by omega, by omega, ?_⟩
  unfold PropWindow.byRef
  rw [if_neg (by omega)]
  unfold PropWindow.slotAt at hs
  have : w.head + w.size - (w.size - j) = w.head + j := by omega
  simp only [this, hs]

theorem insertNew_wf (w : PropWindow) (pv : PropEntry) (hs : w.size ≤ 7) (hh : w.head < 7) :
    (w.insertNew pv).size ≤ 7 ∧ (w.insertNew pv).head < 7 := by
  unfold PropWindow.insertNew proposalWindowSize
  split
  · simp; omega
  · simp; omega

/-! ### LRU table -/

theorem setMRUSlot_ok (t : LruTable) (b s : Nat) (hwf : LruWF t) (hb : b < t.numBuckets) :
    ∃ t', t.setMRUSlot b s = .ok t' ∧ LruWF t' ∧ t'.buckets = t.buckets ∧ t'.numBuckets = t.numBuckets := by
  obtain ⟨h1, h2, h3, h4⟩ := hwf
  unfold LruTable.setMRUSlot
  have hlt : LruTable.mruByteIdx b < t.mru.size := by
    unfold LruTable.mruByteIdx; rw [Nat.shiftRight_eq_div_pow]; omega
  rw [Array.getElem?_eq_getElem hlt]
  exact ⟨_, rfl, ⟨h1, h2, h3, by simp only [Array.size_setIfInBounds]; exact h4⟩, rfl, rfl⟩

theorem setMRUSlot_buckets {t t' : LruTable} {b s : Nat} (h : t.setMRUSlot b s = .ok t') :
    t'.buckets = t.buckets ∧ t'.numBuckets = t.numBuckets := by
  unfold LruTable.setMRUSlot at h
  split at h
  · cases h
  · cases h; exact ⟨rfl, rfl⟩

theorem bucketOf_lt (t : LruTable) (h : Nat) (hnb : 1 ≤ t.numBuckets) : t.bucketOf h < t.numBuckets := by
  unfold LruTable.bucketOf
  have := @Nat.and_le_right h (t.numBuckets - 1)
  omega

theorem ref_bits (b : Nat) (hb : b < 32768) :
    ((b <<< 1) % 65536) >>> 1 = b ∧ ((b <<< 1) % 65536) &&& 1 = 0 ∧
    ((b <<< 1 ||| 1) % 65536) >>> 1 = b ∧ ((b <<< 1 ||| 1) % 65536) &&& 1 = 1 ∧
    (b <<< 1) % 65536 < 65536 ∧ (b <<< 1 ||| 1) % 65536 < 65536 := by
  have h1 : b <<< 1 ||| 1 = b <<< 1 + 1 := (Nat.shiftLeft_add_eq_or_of_lt (i := 1) (b := 1) (by decide) b).symm
  rw [h1]
  simp only [Nat.shiftLeft_eq, Nat.shiftRight_eq_div_pow, Nat.and_one_is_mod]
  omega

/-- a reference emitted by `lookup` fetches the same value, with the same effect on the table -/
theorem lookup_fetch {t t' : LruTable} {k : Bytes} {h id : Nat}
    (hnb : 1 ≤ t.numBuckets ∧ t.numBuckets ≤ 32768)
    (hl : t.lookup k h = .ok (some id, t')) :
    id < 65536 ∧ t.fetch id = .ok (some (k, t')) := by
  have hb := bucketOf_lt t h hnb.1
  have hbits := ref_bits (t.bucketOf h) (by omega)
  unfold LruTable.lookup at hl
  simp only at hl
  split at hl
  · cases hl
  · rename_i bk hbk
    split at hl
    · rename_i hk
      split at hl
      · cases hl
      · rename_i t'' hset
        simp only [Except.ok.injEq, Prod.mk.injEq, Option.some.injEq] at hl
        obtain ⟨rfl, rfl⟩ := hl
        refine ⟨hbits.2.2.2.2.1, ?_⟩
        unfold LruTable.fetch
        simp only [hbits.1, hbits.2.1]
        rw [if_neg (by omega), hset]
        simp only [(setMRUSlot_buckets hset).1, hbk, if_pos, hk]
    · split at hl
      · rename_i hk
        split at hl
        · cases hl
        · rename_i t'' hset
          simp only [Except.ok.injEq, Prod.mk.injEq, Option.some.injEq] at hl
          obtain ⟨rfl, rfl⟩ := hl
          refine ⟨hbits.2.2.2.2.2, ?_⟩
          unfold LruTable.fetch
          simp only [hbits.2.2.1, hbits.2.2.2.1]
          rw [if_neg (by omega), hset]
          simp only [(setMRUSlot_buckets hset).1, hbk, hk]
          simp
      · cases hl

/-- under the invariant `lookup` never panics, keeps the invariant, and a hit is a valid reference -/
theorem lookup_ok (t : LruTable) (k : Bytes) (h : Nat) (hwf : LruWF t) :
    (∃ id t', t.lookup k h = .ok (some id, t') ∧ LruWF t') ∨ t.lookup k h = .ok (none, t) := by
  have hb := bucketOf_lt t h hwf.1
  unfold LruTable.lookup
  simp only
  rw [Array.getElem?_eq_getElem (by rw [hwf.2.2.1]; exact hb)]
  simp only
  split
  · obtain ⟨t', h1, h2, _⟩ := setMRUSlot_ok t (t.bucketOf h) 0 hwf hb
    rw [h1]; exact Or.inl ⟨_, _, rfl, h2⟩
  · split
    · obtain ⟨t', h1, h2, _⟩ := setMRUSlot_ok t (t.bucketOf h) 1 hwf hb
      rw [h1]; exact Or.inl ⟨_, _, rfl, h2⟩
    · exact Or.inr rfl

theorem insert_ok (t : LruTable) (k : Bytes) (h : Nat) (hwf : LruWF t) :
    ∃ t', t.insert k h = .ok t' ∧ LruWF t' := by
  have hb := bucketOf_lt t h hwf.1
  obtain ⟨h1, h2, h3, h4⟩ := hwf
  have hlt : LruTable.mruByteIdx (t.bucketOf h) < t.mru.size := by
    unfold LruTable.mruByteIdx; rw [Nat.shiftRight_eq_div_pow]; omega
  have hget : ∃ e, t.getLRUSlot (t.bucketOf h) = .ok e := by
    unfold LruTable.getLRUSlot
    rw [Array.getElem?_eq_getElem hlt]
    simp only
    split <;> exact ⟨_, rfl⟩
  obtain ⟨e, he⟩ := hget
  unfold LruTable.insert
  simp only [he, Array.getElem?_eq_getElem (show t.bucketOf h < t.buckets.size by omega)]
  generalize (if e = 0 then (k, t.buckets[t.bucketOf h].2) else (t.buckets[t.bucketOf h].1, k)) = bk'
  obtain ⟨t', a, b, _⟩ := setMRUSlot_ok ({ t with buckets := t.buckets.setIfInBounds (t.bucketOf h) bk' } : LruTable)
      (t.bucketOf h) e ⟨h1, h2, by simp only [Array.size_setIfInBounds]; exact h3, h4⟩ hb
  exact ⟨t', a, b⟩

end AlgoVerif.Lemmas.Vpack
