/-
C29: the Merkle root of `merklearray.Build` determines the array — derived from the C37 theorems
(completeness `prove_verify` of one tree + soundness `verify_sound` of the other), plus the empty / non-empty case of the
root copied into a zeroed digest.
-/
import AlgoVerif.Props.C37
import AlgoVerif.Lemmas.Commitments
namespace Lemmas.Commitments
open Model.MerkleArray Lemmas.MerkleArray

theorem upPure_isHash (c : Cfg) : ∀ (L : List Bytes), ∀ h ∈ upPure c L, ∃ x, h = c.H x
  | [], h, hh => by simp [upPure] at hh
  | [a], h, hh => by
    simp only [upPure, List.mem_singleton] at hh
    exact ⟨_, hh⟩
  | a :: b :: rest, h, hh => by
    simp only [upPure, List.mem_cons] at hh
    rcases hh with rfl | hh
    · exact ⟨_, rfl⟩
    · exact upPure_isHash c rest h hh

theorem chain_isHash (c : Cfg) : ∀ (lv : List (List Bytes)), Chain c lv →
    (∀ L, lv[0]? = some L → ∀ h ∈ L, ∃ x, h = c.H x) → ∀ L ∈ lv, ∀ h ∈ L, ∃ x, h = c.H x
  | [], hc, _ => absurd hc (by simp [Chain])
  | [top], _, h0 => by
    intro L hL
    simp only [List.mem_singleton] at hL
    subst hL
    exact h0 L (by simp)
  | A :: B :: rest, hc, h0 => by
    intro L hL
    simp only [List.mem_cons] at hL
    rcases hL with rfl | hL
    · exact h0 L (by simp)
    · have hB : B = upPure c A := hc.2.1
      refine chain_isHash c (B :: rest) hc.2.2 ?_ L (by simpa using hL)
      intro L' hL' h hh
      simp only [List.getElem?_cons_zero, Option.some.injEq] at hL'
      subst hL'
      rw [hB] at hh
      exact upPure_isHash c A h hh

/-- the root of the tree over a non-empty array is a digest: `d` bytes, not all zero -/
theorem build_root_digest (c : Cfg) (hlen : ∀ x, (c.H x).length = c.d) (hnz : ∀ x, c.H x ≠ zeros c.d)
    (arr : List Bytes) (hne : arr ≠ []) :
    ∃ t root, build c arr = .ok t ∧ t.root = some root ∧ root.length = c.d ∧ root ≠ zeros c.d := by
  obtain ⟨rest, hb, hc, hsz⟩ := Props.C37.build_ok c hlen arr hne
  obtain ⟨r, hlast⟩ := chain_last c _ hc
  have hmem : [r] ∈ (arr.map c.H :: rest) := List.mem_of_getElem? hlast
  have hh := chain_isHash c _ hc (by
    intro L hL h hh
    simp only [List.getElem?_cons_zero, Option.some.injEq] at hL
    subst hL
    simp only [List.mem_map] at hh
    obtain ⟨x, _, rfl⟩ := hh
    exact ⟨x, rfl⟩) [r] hmem r (by simp)
  obtain ⟨x, rfl⟩ := hh
  exact ⟨_, c.H x, hb, Props.C37.root_of_last _ _ _ _ hlast, hlen x, hnz x⟩

/-- every element of `arr'` sits at the same position of `arr` when the two trees have the same root -/
theorem build_root_sub (c : Cfg) (hf : c.fixedOff = true) (hvld : c.hashValid = true)
    (hlen : ∀ x, (c.H x).length = c.d) (hnz : ∀ x, c.H x ≠ zeros c.d)
    (arr arr' : List Bytes) (hs' : arr'.length ≤ 2 ^ 63)
    (t t' : Tree) (root : Bytes) (hb : build c arr = .ok t) (hr : t.root = some root)
    (hb' : build c arr' = .ok t') (hr' : t'.root = some root)
    (hup : ∀ L ∈ t.levels, UniquePre c L)
    (hsepA : ∀ e ∈ arr, ¬ nodeTag <+: e) (hsepA' : ∀ e ∈ arr', ¬ nodeTag <+: e)
    (i : Nat) (hi : i < arr'.length) : arr[i]? = arr'[i]? := by
  have hx : arr'[i]? = some arr'[i] := List.getElem?_eq_getElem hi
  obtain ⟨t'', root'', pf, hb'', hr'', _, _, hv⟩ :=
    Props.C37.prove_verify c hlen hvld arr' hs' [i] (by simp) (by simp [hi]) [(i, arr'[i])]
      (by simp [sortNat, insertNat, dedupAdj]) (by simp)
  rw [hb'] at hb''
  simp only [Except.ok.injEq] at hb''
  subst hb''
  rw [hr'] at hr''
  simp only [Option.some.injEq] at hr''
  subst hr''
  have hs := Props.C37.verify_sound c hf hlen hnz arr t root hb hr hup hsepA [(i, arr'[i])]
    (by
      intro ie hie
      simp only [List.mem_singleton] at hie
      subst hie
      exact hsepA' _ (List.getElem_mem hi))
    (by simp) pf hv
  have := hs.1 (i, arr'[i]) (by simp)
  rw [hx]
  exact this

/-- **the Merkle root binds the array** (C37 completeness + soundness, both directions) -/
theorem build_root_inj (c : Cfg) (hf : c.fixedOff = true) (hvld : c.hashValid = true)
    (hlen : ∀ x, (c.H x).length = c.d) (hnz : ∀ x, c.H x ≠ zeros c.d)
    (arr arr' : List Bytes) (hs : arr.length ≤ 2 ^ 63) (hs' : arr'.length ≤ 2 ^ 63)
    (t t' : Tree) (root : Bytes) (hb : build c arr = .ok t) (hr : t.root = some root)
    (hb' : build c arr' = .ok t') (hr' : t'.root = some root)
    (hup : ∀ L ∈ t.levels, UniquePre c L) (hup' : ∀ L ∈ t'.levels, UniquePre c L)
    (hsepA : ∀ e ∈ arr, ¬ nodeTag <+: e) (hsepA' : ∀ e ∈ arr', ¬ nodeTag <+: e) : arr = arr' := by
  apply List.ext_getElem?
  intro i
  by_cases h1 : i < arr'.length
  · exact build_root_sub c hf hvld hlen hnz arr arr' hs' t t' root hb hr hb' hr' hup hsepA hsepA' i h1
  · by_cases h2 : i < arr.length
    · exact (build_root_sub c hf hvld hlen hnz arr' arr hs t' t root hb' hr' hb hr hup' hsepA' hsepA i h2).symm
    · rw [List.getElem?_eq_none (by omega), List.getElem?_eq_none (by omega)]

/-- … including the copy into a zeroed digest (`Model.Commitments.rootOf`): the empty array gives the zero digest, which no
non-empty array gives -/
theorem rootOf_build_inj (c : Cfg) (hf : c.fixedOff = true) (hvld : c.hashValid = true)
    (hlen : ∀ x, (c.H x).length = c.d) (hnz : ∀ x, c.H x ≠ zeros c.d)
    (arr arr' : List Bytes) (hs : arr.length ≤ 2 ^ 63) (hs' : arr'.length ≤ 2 ^ 63)
    (hup : ∀ t, build c arr = .ok t → ∀ L ∈ t.levels, UniquePre c L)
    (hup' : ∀ t, build c arr' = .ok t → ∀ L ∈ t.levels, UniquePre c L)
    (hsepA : ∀ e ∈ arr, ¬ nodeTag <+: e) (hsepA' : ∀ e ∈ arr', ¬ nodeTag <+: e)
    (r : Bytes) (h : Model.Commitments.rootOf c.d (build c arr) = .ok r)
    (h' : Model.Commitments.rootOf c.d (build c arr') = .ok r) : arr = arr' := by
  by_cases he : arr = []
  · by_cases he' : arr' = []
    · rw [he, he']
    · exfalso
      subst he
      obtain ⟨t', root', hb', hr', hl', hz'⟩ := build_root_digest c hlen hnz arr' he'
      simp only [Model.Commitments.rootOf, build, if_true, Tree.root, List.getLast?_nil, Except.ok.injEq] at h
      simp only [Model.Commitments.rootOf, hb', hr', Except.ok.injEq] at h'
      rw [fit_of_length _ _ hl'] at h'
      rw [Lemmas.Commitments.fit_nil] at h
      exact hz' (h'.trans h.symm)
  · obtain ⟨t, root, hb, hr, hl, hz⟩ := build_root_digest c hlen hnz arr he
    by_cases he' : arr' = []
    · exfalso
      subst he'
      simp only [Model.Commitments.rootOf, build, if_true, Tree.root, List.getLast?_nil, Except.ok.injEq] at h'
      simp only [Model.Commitments.rootOf, hb, hr, Except.ok.injEq] at h
      rw [fit_of_length _ _ hl] at h
      rw [Lemmas.Commitments.fit_nil] at h'
      exact hz (h.trans h'.symm)
    · obtain ⟨t', root', hb', hr', hl', _⟩ := build_root_digest c hlen hnz arr' he'
      simp only [Model.Commitments.rootOf, hb, hr, Except.ok.injEq] at h
      simp only [Model.Commitments.rootOf, hb', hr', Except.ok.injEq] at h'
      rw [fit_of_length _ _ hl] at h
      rw [fit_of_length _ _ hl'] at h'
      have hroot : root' = root := h'.trans h.symm
      subst hroot
      exact build_root_inj c hf hvld hlen hnz arr arr' hs hs' t t' root' hb hr hb' hr' (hup t hb) (hup' t' hb') hsepA hsepA'

end Lemmas.Commitments
