/-
C29: the Merkle root of `merklearray.Build` determines the array — derived from the C37 theorems
(completeness `prove_verify` of one tree + soundness `verify_sound` of the other), plus the empty / non-empty case of the
root copied into a zeroed digest.
-/
import AlgoVerif.Props.C37
import AlgoVerif.Lemmas.Commitments
namespace Lemmas.Commitments
open Model.MerkleArray Lemmas.MerkleArray

theorem upPure_isHash (c : Cfg) : ∀ (L : List Bytes), ∀ h ∈ upPure c L, ∃ x, h = c.H x
  | [], h, hh => by simp [upPure] at hh
  | [a], h, hh => by
    simp only [upPure, List.mem_singleton] at hh
    exact ⟨_, hh⟩
  | a :: b :: rest, h, hh => by
    simp only [upPure, List.mem_cons] at hh
    rcases hh with rfl | hh
    · exact ⟨_, rfl⟩
    · exact upPure_isHash c rest h hh

theorem chain_isHash (c : Cfg) : ∀ (lv : List (List Bytes)), Chain c lv →
    (∀ L, lv[0]? = some L → ∀ h ∈ L, ∃ x, h = c.H x) → ∀ L ∈ lv, ∀ h ∈ L, ∃ x, h = c.H x
  | [], hc, _ => absurd hc (by simp [Chain])
  | [top], _, h0 => by
    intro L hL
    simp only [List.mem_singleton] at hL
    subst hL
    exact h0 L (by simp)
  | A :: B :: rest, hc, h0 => by
    intro L hL
    simp only [List.mem_cons] at hL
    rcases hL with rfl | hL
    · exact h0 L (by simp)
    · have hB : B = upPure c A := hc.2.1
      refine chain_isHash c (B :: rest) hc.2.2 ?_ L (by simpa using hL)
      intro L' hL' h hh
      simp only [List.getElem?_cons_zero, Option.some.injEq] at hL'
      subst hL'
      rw [hB] at hh
      exact upPure_isHash c A h hh

/-- the root of the tree over a non-empty array is a digest: `d` bytes, not all zero -/
theorem build_root_digest (c : Cfg) (hlen : ∀ x, (c.H x).length = c.d) (hnz : ∀ x, c.H x ≠ zeros c.d)
    (arr : List Bytes) (hne : arr ≠ []) :
    ∃ t root, build c arr = .ok t ∧ t.root = some root ∧ root.length = c.d ∧ root ≠ zeros c.d := by
  obtain ⟨rest, hb, hc, hsz⟩ := Props.C37.build_ok c hlen arr hne
  obtain ⟨r, hlast⟩ := chain_last c _ hc
  have hmem : [r] ∈ (arr.map c.H :: rest) := List.mem_of_getElem? hlast
  have hh := chain_isHash c _ hc (by
    intro L hL h hh
    simp only [List.getElem?_cons_zero, Option.some.injEq] at hL
    subst hL
    simp only [List.mem_map] at hh
    obtain ⟨x, _, rfl⟩ := hh
    exact ⟨x, rfl⟩) [r] hmem r (by simp)
  obtain ⟨x, rfl⟩ := hh
  exact ⟨_, c.H x, hb, Props.C37.root_of_last _ _ _ _ hlast, hlen x, hnz x⟩

/-- every element of `arr'` sits at the same position of `arr` when the two trees have the same root -/
theorem build_root_sub (c : Cfg) (hf : c.fixedOff = true) (hvld : c.hashValid = true)
    (hlen : ∀ x, (c.H x).length = c.d) (hnz : ∀ x, c.H x ≠ zeros c.d)
    (arr arr' : List Bytes) (hs' : arr'.length ≤ 2 ^ 63)
    (t t' : Tree) (root : Bytes) (hb : build c arr = .ok t) (hr : t.root = some root)
    (hb' : build c arr' = .ok t') (hr' : t'.root = some root)
    (hup : ∀ L ∈ t.levels, UniquePre c L)
    (hsepA : ∀ e ∈ arr, ¬ nodeTag <+: e) (hsepA' : ∀ e ∈ arr', ¬ nodeTag <+: e)
    (i : Nat) (hi : i < arr'.length) : arr[i]? = arr'[i]? := by
  have hx : arr'[i]? = some arr'[i] := List.getElem?_eq_getElem hi
  obtain ⟨t'', root'', pf, hb'', hr'', _, _, hv⟩ :=
    Props.C37.prove_verify c hlen hvld arr' hs' [i] (by simp) (by simp [hi]) [(i, arr'[i])]
      (by simp [sortNat, insertNat, dedupAdj]) (by simp)
  rw [hb'] at hb''
  simp only [Except.ok.injEq] at hb''
  subst hb''
  rw [hr'] at hr''
  simp only [Option.some.injEq] at hr''
  subst hr''
  have hs := Props.C37.verify_sound c hf hlen hnz arr t root hb hr hup hsepA [(i, arr'[i])]
    (by
      intro ie hie
      simp only [List.mem_singleton] at hie
      subst hie
      exact hsepA' _ (List.getElem_mem hi))
    (by simp) pf hv
  have := hs.1 (i, arr'[i]) (by simp)
  rw [hx]
  exact this

/-- **the Merkle root binds the array** (C37 completeness + soundness, both directions) -/
theorem build_root_inj (c : Cfg) (hf : c.fixedOff = true) (hvld : c.hashValid = true)
    (hlen : ∀ x, (c.H x).length = c.d) (hnz : ∀ x, c.H x ≠ zeros c.d)
    (arr arr' : List Bytes) (hs : arr.length ≤ 2 ^ 63) (hs' : arr'.length ≤ 2 ^ 63)
    (t t' : Tree) (root : Bytes) (hb : build c arr = .ok t) (hr : t.root = some root)
    (hb' : build c arr' = .ok t') (hr' : t'.root = some root)
    (hup : ∀ L ∈ t.levels, UniquePre c L) (hup' : ∀ L ∈ t'.levels, UniquePre c L)
    (hsepA : ∀ e ∈ arr, ¬ nodeTag <+: e) (hsepA' : ∀ e ∈ arr', ¬ nodeTag <+: e) : arr = arr' := by
  apply List.ext_getElem?
  intro i
  by_cases h1 : i < arr'.length
  · exact build_root_sub c hf hvld hlen hnz arr arr' hs' t t' root hb hr hb' hr' hup hsepA hsepA' i h1
  · by_cases h2 : i < arr.length
    · exact (build_root_sub c hf hvld hlen hnz arr' arr hs t' t root hb' hr' hb hr hup' hsepA' hsepA i h2).symm
    · rw [List.getElem?_eq_none (by omega), List.getElem?_eq_none (by omega)]

/-- … including the copy into a zeroed digest (`Model.Commitments.rootOf`): the empty array gives the zero digest, which no
non-empty array gives -/
theorem rootOf_build_inj (c : Cfg) (hf : c.fixedOff = true) (hvld : c.hashValid = true)
    (hlen : ∀ x, (c.H x).length = c.d) (hnz : ∀ x, c.H x ≠ zeros c.d)
    (arr arr' : List Bytes) (hs : arr.length ≤ 2 ^ 63) (hs' : arr'.length ≤ 2 ^ 63)
    (hup : ∀ t, build c arr = .ok t → ∀ L ∈ t.levels, UniquePre c L)
    (hup' : ∀ t, build c arr' = .ok t → ∀ L ∈ t.levels, UniquePre c L)
    (hsepA : ∀ e ∈ arr, ¬ nodeTag <+: e) (hsepA' : ∀ e ∈ arr', ¬ nodeTag <+: e)
    (r : Bytes) (h : Model.Commitments.rootOf c.d (build c arr) = .ok r)
    (h' : Model.Commitments.rootOf c.d (build c arr') = .ok r) : arr = arr' := by
  by_cases he : arr = []
  · by_cases he' : arr' = []
    · rw [he, he']
    · exfalso
      subst he
      obtain ⟨t', root', hb', hr', hl', hz'⟩ := build_root_digest c hlen hnz arr' he'
      simp only [Model.Commitments.rootOf, build, if_true, Tree.root, List.getLast?_nil, Except.ok.injEq] at h
      simp only [Model.Commitments.rootOf, hb', hr', Except.ok.injEq] at h'
      rw [fit_of_length _ _ hl'] at h'
      rw [Lemmas.Commitments.fit_nil] at h
      exact hz' (h'.trans h.symm)
  · obtain ⟨t, root, hb, hr, hl, hz⟩ := build_root_digest c hlen hnz arr he
    by_cases he' : arr' = []
    · exfalso
      subst he'
      simp only [Model.Commitments.rootOf, build, if_true, Tree.root, List.getLast?_nil, Except.ok.injEq] at h'
      simp only [Model.Commitments.rootOf, hb, hr, Except.ok.injEq] at h
      rw [fit_of_length _ _ hl] at h
      rw [Lemmas.Commitments.fit_nil] at h'
      exact hz (h.trans h'.symm)
    · obtain ⟨t', root', hb', hr', hl', _⟩ := build_root_digest c hlen hnz arr' he'
      simp only [Model.Commitments.rootOf, hb, hr, Except.ok.injEq] at h
      simp only [Model.Commitments.rootOf, hb', hr', Except.ok.injEq] at h'
      rw [fit_of_length _ _ hl] at h
      rw [fit_of_length _ _ hl'] at h'
      have hroot : root' = root := h'.trans h.symm
      subst hroot
      exact build_root_inj c hf hvld hlen hnz arr arr' hs hs' t t' root' hb hr hb' hr' (hup t hb) (hup' t' hb') hsepA hsepA'

theorem vcPath_pos (n : Nat) : 1 ≤ vcPath n := by
  unfold vcPath
  split
  · omega
  · rename_i h
    have : n - 1 ≠ 0 := by omega
    simp only [bitLen, this, if_false]; omega

/-- equal padded sizes ⇒ equal path lengths -/
theorem vcPath_eq_of_padded (n n' : Nat) (h : vcPadded n = vcPadded n') : vcPath n = vcPath n' := by
  unfold vcPadded at h
  by_cases h1 : n ≤ 1 <;> by_cases h2 : n' ≤ 1
  · simp [vcPath, h1, h2]
  · simp only [h1, h2, if_true, if_false] at h
    have := vcPath_pos n'
    have : 2 ^ 1 ≤ 2 ^ vcPath n' := Nat.pow_le_pow_right (by omega) this
    omega
  · simp only [h1, h2, if_true, if_false] at h
    have := vcPath_pos n
    have : 2 ^ 1 ≤ 2 ^ vcPath n := Nat.pow_le_pow_right (by omega) this
    omega
  · simp only [h1, h2, if_false] at h
    rcases Nat.lt_trichotomy (vcPath n) (vcPath n') with hl | he | hg
    · have := Nat.pow_lt_pow_right (a := 2) (by omega) hl; omega
    · exact he
    · have := Nat.pow_lt_pow_right (a := 2) (by omega) hg; omega

/-- position `bitrev k i` of the padded leaf list holds `arr[i]` -/
theorem vcLeaves_at_rev (arr : List Bytes) (i : Nat) (hi : i < arr.length) :
    bitrev (vcPath arr.length) i < vcPadded arr.length ∧
      (vcLeaves arr)[bitrev (vcPath arr.length) i]? = some arr[i] := by
  have hge := vcPadded_ge arr.length
  have hlt : i < 2 ^ vcPath arr.length := by
    by_cases h1 : arr.length ≤ 1
    · have : i = 0 := by omega
      subst this
      exact Nat.two_pow_pos _
    · simp only [vcPadded, h1, if_false] at hge; omega
  have hm : bitrev (vcPath arr.length) i < vcPadded arr.length := by
    by_cases h1 : arr.length ≤ 1
    · have : i = 0 := by omega
      subst this
      simp [vcPadded, vcPath, h1, bitrev]
    · simp only [vcPadded, h1, if_false]; exact bitrev_lt _ _
  refine ⟨hm, ?_⟩
  rw [vcLeaves_get arr _ hm, bitrev_bitrev _ _ hlt]
  simp [List.getElem?_eq_getElem hi]

theorem vcLeaves_sub (arr arr' : List Bytes) (hnb : ∀ x ∈ arr, x ≠ bottomPre)
    (h : vcLeaves arr = vcLeaves arr') (i : Nat) (hi : i < arr.length) : arr'[i]? = some arr[i] := by
  have hp : vcPadded arr.length = vcPadded arr'.length := by
    rw [← vcLeaves_length, ← vcLeaves_length, h]
  have hk := vcPath_eq_of_padded _ _ hp
  obtain ⟨hm, hget⟩ := vcLeaves_at_rev arr i hi
  rw [h, vcLeaves_get arr' _ (hp ▸ hm), ← hk] at hget
  have hlt : i < 2 ^ vcPath arr.length := by
    by_cases h1 : arr.length ≤ 1
    · have : i = 0 := by omega
      subst this
      exact Nat.two_pow_pos _
    · have hge := vcPadded_ge arr.length
      simp only [vcPadded, h1, if_false] at hge; omega
  rw [bitrev_bitrev _ _ hlt] at hget
  cases he : arr'[i]? with
  | none =>
    rw [he] at hget
    simp only [Option.some.injEq] at hget
    exact absurd hget.symm (hnb _ (List.getElem_mem hi))
  | some x =>
    rw [he] at hget
    simp only [Option.some.injEq] at hget
    rw [hget]

/-- the bit-reversal padding is injective on arrays without the bottom leaf -/
theorem vcLeaves_inj (arr arr' : List Bytes) (hnb : ∀ x ∈ arr, x ≠ bottomPre) (hnb' : ∀ x ∈ arr', x ≠ bottomPre)
    (h : vcLeaves arr = vcLeaves arr') : arr = arr' := by
  apply List.ext_getElem?
  intro i
  by_cases h1 : i < arr.length
  · rw [vcLeaves_sub arr arr' hnb h i h1, List.getElem?_eq_getElem h1]
  · by_cases h2 : i < arr'.length
    · rw [vcLeaves_sub arr' arr hnb' h.symm i h2, List.getElem?_eq_getElem h2]
    · rw [List.getElem?_eq_none (by omega), List.getElem?_eq_none (by omega)]

theorem mem_vcLeaves (arr : List Bytes) (x : Bytes) (hx : x ∈ vcLeaves arr) : x ∈ arr ∨ x = bottomPre := by
  simp only [vcLeaves, List.mem_map, List.mem_range] at hx
  obtain ⟨pos, _, rfl⟩ := hx
  split
  · rename_i e he; exact Or.inl (List.mem_of_getElem? he)
  · exact Or.inr rfl

theorem rootOf_buildVC (c : Cfg) (n : Nat) (arr : List Bytes) :
    Model.Commitments.rootOf n (buildVC c arr) = Model.Commitments.rootOf n (build c (vcLeaves arr)) := by
  unfold buildVC
  cases build c (vcLeaves arr) with
  | error e => rfl
  | ok t => simp [Model.Commitments.rootOf, Tree.root]

/-- **the vector-commitment root binds the array** (arrays without the bottom leaf "MB") -/
theorem rootOf_buildVC_inj (c : Cfg) (hf : c.fixedOff = true) (hvld : c.hashValid = true)
    (hlen : ∀ x, (c.H x).length = c.d) (hnz : ∀ x, c.H x ≠ zeros c.d)
    (arr arr' : List Bytes) (hs : (vcLeaves arr).length ≤ 2 ^ 63) (hs' : (vcLeaves arr').length ≤ 2 ^ 63)
    (hup : ∀ t, build c (vcLeaves arr) = .ok t → ∀ L ∈ t.levels, UniquePre c L)
    (hup' : ∀ t, build c (vcLeaves arr') = .ok t → ∀ L ∈ t.levels, UniquePre c L)
    (hsepA : ∀ e ∈ arr, ¬ nodeTag <+: e) (hsepA' : ∀ e ∈ arr', ¬ nodeTag <+: e)
    (hnb : ∀ x ∈ arr, x ≠ bottomPre) (hnb' : ∀ x ∈ arr', x ≠ bottomPre)
    (r : Bytes) (h : Model.Commitments.rootOf c.d (buildVC c arr) = .ok r)
    (h' : Model.Commitments.rootOf c.d (buildVC c arr') = .ok r) : arr = arr' := by
  rw [rootOf_buildVC] at h h'
  have hbot : ¬ nodeTag <+: bottomPre := by decide
  have hsep : ∀ (a : List Bytes), (∀ e ∈ a, ¬ nodeTag <+: e) → ∀ e ∈ vcLeaves a, ¬ nodeTag <+: e := by
    intro a ha e he
    rcases mem_vcLeaves a e he with h1 | h1
    · exact ha e h1
    · rw [h1]; exact hbot
  exact vcLeaves_inj arr arr' hnb hnb'
    (rootOf_build_inj c hf hvld hlen hnz _ _ hs hs' hup hup' (hsep arr hsepA) (hsep arr' hsepA') r h h')

end Lemmas.Commitments
