/-
Lemmas for Model.AsmFormat: the branch-size relaxation (findBranchSizes) terminates within its fuel, and at its fixpoint
every varint offset fills its placeholder exactly.
-/
import AlgoVerif.Lemmas.AsmFormatLabels
namespace Lemmas.AsmFormat
open Model.OpTables Model.AsmFormat

/-! ### termination -/

theorem relaxGo_sum (S : List Nat) : ∀ (k : Nat) (xs : List (Instr × Nat)),
    listSum (widthsOf (relaxGo S k xs)) ≤ listSum (widthsOf xs) ∧
    (listSum (widthsOf (relaxGo S k xs)) = listSum (widthsOf xs) → widthsOf (relaxGo S k xs) = widthsOf xs)
  | _, [] => by simp [relaxGo, widthsOf, listSum]
  | k, (i, w) :: rest => by
    obtain ⟨ih1, ih2⟩ := relaxGo_sum S (k + 1) rest
    simp only [relaxGo, widthsOf, List.map_cons, listSum] at ih1 ih2 ⊢
    have key : ∀ (y : Instr × Nat), y.2 ≤ w →
        (y.2 + listSum (List.map (·.2) (relaxGo S (k + 1) rest)) ≤ w + listSum (List.map (·.2) rest)) ∧
        (y.2 + listSum (List.map (·.2) (relaxGo S (k + 1) rest)) = w + listSum (List.map (·.2) rest) →
          y.2 :: List.map (·.2) (relaxGo S (k + 1) rest) = w :: List.map (·.2) rest) := by
      intro y hy
      refine ⟨by omega, ?_⟩
      intro he
      have h1 : y.2 = w := by omega
      have h2 := ih2 (by omega)
      rw [h1, h2]
    split
    · exact key (i, w) (Nat.le_refl _)
    · split
      · exact key (i, w) (Nat.le_refl _)
      · split
        · rename_i hlt
          exact key (i, _) (Nat.le_of_lt hlt)
        · exact key (i, w) (Nat.le_refl _)

/-- the fuel `listSum widths + 1` is never exhausted: every round that changes a width lowers the sum of the widths -/
theorem relax_fuel : ∀ (fuel : Nat) (xs : List (Instr × Nat)), listSum (widthsOf xs) < fuel →
    ∃ ys, relax fuel xs = .ok ys
  | 0, _, h => by omega
  | fuel + 1, xs, h => by
    simp only [relax]
    by_cases he : widthsOf (relaxStep xs) = widthsOf xs
    · rw [if_pos he]; exact ⟨xs, rfl⟩
    · rw [if_neg he]
      obtain ⟨h1, h2⟩ := relaxGo_sum (startsOf xs) 0 xs
      have hlt : listSum (widthsOf (relaxStep xs)) < listSum (widthsOf xs) := by
        rcases Nat.lt_or_ge (listSum (widthsOf (relaxStep xs))) (listSum (widthsOf xs)) with h3 | h3
        · exact h3
        · exact absurd (h2 (by unfold relaxStep at h3; omega)) he
      exact relax_fuel fuel _ (by omega)

theorem listSum_const (is : List Instr) (w : Nat) : listSum (widthsOf (is.map (fun i => (i, w)))) = w * is.length := by
  induction is with
  | nil => simp [widthsOf, listSum]
  | cons a l ih =>
    simp only [widthsOf, List.map_cons, listSum, List.length_cons] at ih ⊢
    rw [ih, Nat.mul_succ]; omega

/-! ### at the fixpoint nothing can shrink -/

theorem relax_fix : ∀ (fuel : Nat) (xs ys : List (Instr × Nat)), relax fuel xs = .ok ys →
    widthsOf (relaxStep ys) = widthsOf ys
  | 0, _, _, h => by simp [relax] at h
  | fuel + 1, xs, ys, h => by
    simp only [relax] at h
    split at h
    · rename_i he
      simp only [Except.ok.injEq] at h; subst h; exact he
    · exact relax_fix fuel _ ys h

theorem relaxGo_fix (S : List Nat) : ∀ (k : Nat) (xs : List (Instr × Nat)),
    widthsOf (relaxGo S k xs) = widthsOf xs →
    ∀ (idx : Nat) (i : Instr) (w : Nat), xs[idx]? = some (i, w) → ∀ t j, vtarget i = some t → vjump S (k + idx) t = some j →
      ¬ needed j < w
  | _, [], _, idx, i, w, hx, _, _, _, _ => by simp at hx
  | k, (i0, w0) :: rest, he, idx, i, w, hx, t, j, ht, hj => by
    simp only [relaxGo, widthsOf, List.map_cons, List.cons.injEq] at he
    obtain ⟨he1, he2⟩ := he
    cases idx with
    | zero =>
      simp only [List.getElem?_cons_zero, Option.some.injEq, Prod.mk.injEq] at hx
      obtain ⟨rfl, rfl⟩ := hx
      simp only [Nat.add_zero] at hj
      simp only [ht, hj] at he1
      intro hlt
      rw [if_pos hlt] at he1
      simp only [] at he1
      omega
    | succ n =>
      simp only [List.getElem?_cons_succ] at hx
      have := relaxGo_fix S (k + 1) rest he2 n i w hx t j ht (by rw [show k + 1 + n = k + (n + 1) by omega]; exact hj)
      exact this

theorem off2Of_not_placeholder {v bb : Nat} {S : List Nat} {total e t : Nat} :
    off2Of v bb S total e t ≠ .error .placeholder := by
  unfold off2Of
  split
  · simp
  · split
    · simp
    · split
      · simp
      · split <;> simp

theorem off2sOf_not_placeholder {v bb : Nat} {S : List Nat} {total e : Nat} : ∀ (ts : List Nat),
    off2sOf v bb S total e ts ≠ .error .placeholder
  | [] => by simp [off2sOf]
  | t :: ts => by
    simp only [off2sOf]
    cases h1 : off2Of v bb S total e t with
    | error x =>
      simp only []
      intro h
      simp only [Except.error.injEq] at h
      subst h
      exact off2Of_not_placeholder h1
    | ok o =>
      simp only []
      cases h2 : off2sOf v bb S total e ts with
      | error x =>
        simp only []
        intro h
        simp only [Except.error.injEq] at h
        subst h
        exact off2sOf_not_placeholder ts h2
      | ok os => simp

theorem resolveImm_placeholder {v bb : Nat} {S : List Nat} {total k w e : Nat} {im : Model.AsmFormat.Imm}
    (h : resolveImm v bb S total k w e im = .error .placeholder) :
    ∃ t j, im = .vlabel t ∧ vjump S k t = some j ∧ needed j < w := by
  cases im with
  | byte b => simp [resolveImm] at h
  | uint x => simp [resolveImm] at h
  | bytes bs => simp [resolveImm] at h
  | ints vs => simp [resolveImm] at h
  | bytess bss => simp [resolveImm] at h
  | label t =>
    simp only [resolveImm] at h
    cases h1 : off2Of v bb S total e t with
    | error x =>
      simp only [h1, Except.error.injEq] at h
      subst h
      exact absurd h1 off2Of_not_placeholder
    | ok o => simp [h1] at h
  | labels ts =>
    simp only [resolveImm] at h
    cases h1 : off2sOf v bb S total e ts with
    | error x =>
      simp only [h1, Except.error.injEq] at h
      subst h
      exact absurd h1 (off2sOf_not_placeholder ts)
    | ok o => simp [h1] at h
  | vlabel t =>
    simp only [resolveImm] at h
    cases hd : S[t]? with
    | none => simp [hd] at h
    | some d =>
      simp only [hd] at h
      split at h
      · simp at h
      · split at h
        · simp at h
        · cases hj : vjump S k t with
          | none => simp [hj] at h
          | some j =>
            simp only [hj] at h
            split at h
            · simp at h
            · split at h
              · rename_i hlt
                exact ⟨t, j, rfl, hj, hlt⟩
              · simp at h

theorem resolveImms_placeholder {v bb : Nat} {S : List Nat} {total k w e : Nat} : ∀ {ims : List Model.AsmFormat.Imm},
    resolveImms v bb S total k w e ims = .error .placeholder →
    ∃ t j, Model.AsmFormat.Imm.vlabel t ∈ ims ∧ vjump S k t = some j ∧ needed j < w
  | [], h => by simp [resolveImms] at h
  | im :: rest, h => by
    simp only [resolveImms] at h
    cases h1 : resolveImm v bb S total k w e im with
    | error x =>
      simp only [h1, Except.error.injEq] at h
      subst h
      obtain ⟨t, j, rfl, a, b⟩ := resolveImm_placeholder h1
      exact ⟨t, j, List.mem_cons_self, a, b⟩
    | ok r =>
      simp only [h1] at h
      cases h2 : resolveImms v bb S total k w e rest with
      | error x =>
        simp only [h2, Except.error.injEq] at h
        subst h
        obtain ⟨t, j, m, a, b⟩ := resolveImms_placeholder h2
        exact ⟨t, j, List.mem_cons_of_mem _ m, a, b⟩
      | ok rs => simp [h2] at h

theorem resolveGo_placeholder {v bb : Nat} {S : List Nat} {total : Nat} : ∀ {xs : List (Instr × Nat)} {k : Nat},
    resolveGo v bb S total k xs = .error .placeholder →
    ∃ idx i w t j, xs[idx]? = some (i, w) ∧ Model.AsmFormat.Imm.vlabel t ∈ i.imms ∧ vjump S (k + idx) t = some j ∧ needed j < w
  | [], k, h => by simp [resolveGo] at h
  | (i, w) :: rest, k, h => by
    simp only [resolveGo] at h
    cases he : S[k + 1]? with
    | none => simp [he] at h
    | some e =>
      simp only [he] at h
      cases h1 : resolveImms v bb S total k w e i.imms with
      | error x =>
        simp only [h1, Except.error.injEq] at h
        subst h
        obtain ⟨t, j, m, a, b⟩ := resolveImms_placeholder h1
        exact ⟨0, i, w, t, j, rfl, m, by simpa using a, b⟩
      | ok ims =>
        simp only [h1] at h
        cases h2 : resolveGo v bb S total (k + 1) rest with
        | error x =>
          simp only [h2, Except.error.injEq] at h
          subst h
          obtain ⟨idx, i', w', t, j, a, m, b, c⟩ := resolveGo_placeholder h2
          exact ⟨idx + 1, i', w', t, j, by simpa using a, m, by rw [show k + (idx + 1) = k + 1 + idx by omega]; exact b, c⟩
        | ok rs => simp [h2] at h

/-! ### label resolution never reports `fuel` -/

theorem off2Of_not_fuel {v bb : Nat} {S : List Nat} {total e t : Nat} :
    off2Of v bb S total e t ≠ .error .fuel := by
  unfold off2Of
  split
  · simp
  · split
    · simp
    · split
      · simp
      · split <;> simp

theorem off2sOf_not_fuel {v bb : Nat} {S : List Nat} {total e : Nat} : ∀ (ts : List Nat),
    off2sOf v bb S total e ts ≠ .error .fuel
  | [] => by simp [off2sOf]
  | t :: ts => by
    simp only [off2sOf]
    cases h1 : off2Of v bb S total e t with
    | error x =>
      simp only []
      intro h
      simp only [Except.error.injEq] at h
      subst h
      exact off2Of_not_fuel h1
    | ok o =>
      simp only []
      cases h2 : off2sOf v bb S total e ts with
      | error x =>
        simp only []
        intro h
        simp only [Except.error.injEq] at h
        subst h
        exact off2sOf_not_fuel ts h2
      | ok os => simp

theorem resolveImm_not_fuel {v bb : Nat} {S : List Nat} {total k w e : Nat} {im : Model.AsmFormat.Imm} :
    resolveImm v bb S total k w e im ≠ .error .fuel := by
  intro h
  cases im with
  | byte b => simp [resolveImm] at h
  | uint x => simp [resolveImm] at h
  | bytes bs => simp [resolveImm] at h
  | ints vs => simp [resolveImm] at h
  | bytess bss => simp [resolveImm] at h
  | label t =>
    simp only [resolveImm] at h
    cases h1 : off2Of v bb S total e t with
    | error x =>
      simp only [h1, Except.error.injEq] at h
      subst h
      exact off2Of_not_fuel h1
    | ok o => simp [h1] at h
  | labels ts =>
    simp only [resolveImm] at h
    cases h1 : off2sOf v bb S total e ts with
    | error x =>
      simp only [h1, Except.error.injEq] at h
      subst h
      exact off2sOf_not_fuel ts h1
    | ok o => simp [h1] at h
  | vlabel t =>
    simp only [resolveImm] at h
    cases hd : S[t]? with
    | none => simp [hd] at h
    | some d =>
      simp only [hd] at h
      split at h
      · simp at h
      · split at h
        · simp at h
        · cases hj : vjump S k t with
          | none => simp [hj] at h
          | some j =>
            simp only [hj] at h
            split at h
            · simp at h
            · split at h <;> simp at h

theorem resolveImms_not_fuel {v bb : Nat} {S : List Nat} {total k w e : Nat} : ∀ (ims : List Model.AsmFormat.Imm),
    resolveImms v bb S total k w e ims ≠ .error .fuel
  | [] => by simp [resolveImms]
  | im :: rest => by
    simp only [resolveImms]
    cases h1 : resolveImm v bb S total k w e im with
    | error x =>
      simp only []
      intro h
      simp only [Except.error.injEq] at h
      subst h
      exact resolveImm_not_fuel h1
    | ok r =>
      simp only []
      cases h2 : resolveImms v bb S total k w e rest with
      | error x =>
        simp only []
        intro h
        simp only [Except.error.injEq] at h
        subst h
        exact resolveImms_not_fuel rest h2
      | ok rs => simp

theorem resolveGo_not_fuel {v bb : Nat} {S : List Nat} {total : Nat} : ∀ (xs : List (Instr × Nat)) (k : Nat),
    resolveGo v bb S total k xs ≠ .error .fuel
  | [], k => by simp [resolveGo]
  | (i, w) :: rest, k => by
    simp only [resolveGo]
    cases he : S[k + 1]? with
    | none => simp
    | some e =>
      simp only []
      cases h1 : resolveImms v bb S total k w e i.imms with
      | error x =>
        simp only []
        intro h
        simp only [Except.error.injEq] at h
        subst h
        exact resolveImms_not_fuel _ h1
      | ok ims =>
        simp only []
        cases h2 : resolveGo v bb S total (k + 1) rest with
        | error x =>
          simp only []
          intro h
          simp only [Except.error.injEq] at h
          subst h
          exact resolveGo_not_fuel rest (k + 1) h2
        | ok rs => simp

theorem resolve_not_fuel {v bb : Nat} (xs : List (Instr × Nat)) : resolve v bb xs ≠ .error .fuel :=
  resolveGo_not_fuel xs 0

/-- the varint-label immediate of an instruction is the one relaxation looks at (branch ops have exactly one) -/
def OneV (i : Instr) : Prop := ∀ t, Model.AsmFormat.Imm.vlabel t ∈ i.imms → vtarget i = some t

/-- at the fixpoint of the relaxation no varint offset is narrower than its placeholder: resolveLabels never leaves stray
    zero bytes behind an offset -/
theorem relax_fits (fuel : Nat) (xs ys : List (Instr × Nat)) (v bb : Nat) (h : relax fuel xs = .ok ys)
    (h1 : ∀ y ∈ ys, OneV y.1) : resolve v bb ys ≠ .error .placeholder := by
  intro hp
  unfold resolve at hp
  obtain ⟨idx, i, w, t, j, a, m, b, c⟩ := resolveGo_placeholder hp
  have hfix := relax_fix fuel xs ys h
  unfold relaxStep at hfix
  have hmem : (i, w) ∈ ys := List.mem_of_getElem? a
  exact relaxGo_fix (startsOf ys) 0 ys hfix idx i w a t j (h1 (i, w) hmem t m) b c

end Lemmas.AsmFormat
