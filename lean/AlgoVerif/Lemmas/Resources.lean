import AlgoVerif.Spec.Resources
/-!
Lemmas.Resources — helper lemmas for C35: the Bool deciders of Model.Resources against the declarative predicates of
Spec.Resources, and the closure of `computeAvailability` over arbitrary groups.
-/
namespace AlgoVerif.Lemmas.Resources
open AlgoVerif.Model.Resources AlgoVerif.Spec.Resources

/-! ### own references -/

theorem indexByAddress_isSome (snd : Addr) (f : Appl) (a : Addr) :
    (indexByAddress snd f a).isSome = true ↔ a = snd ∨ a ∈ f.accounts ∨ ∃ rr ∈ accessList f, rr.address = a := by
  unfold indexByAddress
  by_cases h : a = snd
  · simp [h]
  · simp only [h, if_false, false_or]
    cases h1 : (accessList f).findIdx? (fun rr => decide (rr.address = a)) with
    | some i =>
      have : ((accessList f).findIdx? (fun rr => decide (rr.address = a))).isSome = true := by simp [h1]
      rw [List.findIdx?_isSome, List.any_eq_true] at this
      obtain ⟨rr, hm, hp⟩ := this
      simp only [Option.isSome_some, true_iff]
      exact Or.inr ⟨rr, hm, by simpa using hp⟩
    | none =>
      rw [List.findIdx?_eq_none_iff] at h1
      have hno : ¬ ∃ rr ∈ accessList f, rr.address = a := by
        rintro ⟨rr, hm, hp⟩
        have := h1 rr hm
        simp [hp] at this
      simp only [hno, or_false]
      cases h2 : f.accounts.findIdx? (fun x => decide (x = a)) with
      | some i =>
        have : (f.accounts.findIdx? (fun x => decide (x = a))).isSome = true := by simp [h2]
        rw [List.findIdx?_isSome, List.any_eq_true] at this
        obtain ⟨x, hm, hp⟩ := this
        have hx : x = a := by simpa using hp
        simp only [Option.isSome_some, true_iff]
        exact hx ▸ hm
      | none =>
        rw [List.findIdx?_eq_none_iff] at h2
        simp only [Option.isSome_none, Bool.false_eq_true, false_iff]
        intro hm
        have := h2 a hm
        simp at this

/-! ### closure of computeAvailability -/

theorem foldl_fill_accounts (g : List Txn) (r : Res) (a : Addr) :
    a ∈ (g.foldl fill r).sharedAccounts ↔ a ∈ r.sharedAccounts ∨ ∃ tx ∈ g, a ∈ (contrib tx).accounts := by
  induction g generalizing r with
  | nil => simp
  | cons tx g ih =>
    simp only [List.foldl_cons, ih, fill, Res.add, List.mem_append, List.mem_cons, exists_eq_or_imp]
    constructor
    · rintro ((h | h) | h)
      · exact Or.inr (Or.inl h)
      · exact Or.inl h
      · exact Or.inr (Or.inr h)
    · rintro (h | h | h)
      · exact Or.inl (Or.inr h)
      · exact Or.inl (Or.inl h)
      · exact Or.inr h

theorem foldl_fill_asas (g : List Txn) (r : Res) (a : Nat) :
    a ∈ (g.foldl fill r).sharedAsas ↔ a ∈ r.sharedAsas ∨ ∃ tx ∈ g, a ∈ (contrib tx).asas := by
  induction g generalizing r with
  | nil => simp
  | cons tx g ih =>
    simp only [List.foldl_cons, ih, fill, Res.add, List.mem_append, List.mem_cons, exists_eq_or_imp]
    constructor
    · rintro ((h | h) | h)
      · exact Or.inr (Or.inl h)
      · exact Or.inl h
      · exact Or.inr (Or.inr h)
    · rintro (h | h | h)
      · exact Or.inl (Or.inr h)
      · exact Or.inl (Or.inl h)
      · exact Or.inr h

theorem foldl_fill_apps (g : List Txn) (r : Res) (a : Nat) :
    a ∈ (g.foldl fill r).sharedApps ↔ a ∈ r.sharedApps ∨ ∃ tx ∈ g, a ∈ (contrib tx).apps := by
  induction g generalizing r with
  | nil => simp
  | cons tx g ih =>
    simp only [List.foldl_cons, ih, fill, Res.add, List.mem_append, List.mem_cons, exists_eq_or_imp]
    constructor
    · rintro ((h | h) | h)
      · exact Or.inr (Or.inl h)
      · exact Or.inl h
      · exact Or.inr (Or.inr h)
    · rintro (h | h | h)
      · exact Or.inl (Or.inr h)
      · exact Or.inl (Or.inl h)
      · exact Or.inr h

theorem foldl_fill_holdings (g : List Txn) (r : Res) (a : Addr × Nat) :
    a ∈ (g.foldl fill r).sharedHoldings ↔ a ∈ r.sharedHoldings ∨ ∃ tx ∈ g, a ∈ (contrib tx).holdings := by
  induction g generalizing r with
  | nil => simp
  | cons tx g ih =>
    simp only [List.foldl_cons, ih, fill, Res.add, List.mem_append, List.mem_cons, exists_eq_or_imp]
    constructor
    · rintro ((h | h) | h)
      · exact Or.inr (Or.inl h)
      · exact Or.inl h
      · exact Or.inr (Or.inr h)
    · rintro (h | h | h)
      · exact Or.inl (Or.inr h)
      · exact Or.inl (Or.inl h)
      · exact Or.inr h

theorem foldl_fill_locals (g : List Txn) (r : Res) (a : Addr × Nat) :
    a ∈ (g.foldl fill r).sharedLocals ↔ a ∈ r.sharedLocals ∨ ∃ tx ∈ g, a ∈ (contrib tx).locals := by
  induction g generalizing r with
  | nil => simp
  | cons tx g ih =>
    simp only [List.foldl_cons, ih, fill, Res.add, List.mem_append, List.mem_cons, exists_eq_or_imp]
    constructor
    · rintro ((h | h) | h)
      · exact Or.inr (Or.inl h)
      · exact Or.inl h
      · exact Or.inr (Or.inr h)
    · rintro (h | h | h)
      · exact Or.inl (Or.inr h)
      · exact Or.inl (Or.inl h)
      · exact Or.inr h

/-! ### one transaction's contribution against `Declares*` -/

theorem accessKind_address (al : List RRef) (snd : Addr) (cur : Nat) (rr : RRef) (a : Addr) :
    accessKind al snd cur rr = .address a ↔ rr.address ≠ .zero ∧ a = rr.address := by
  unfold accessKind
  repeat' split
  all_goals simp_all [eq_comm]

theorem accessKind_asset (al : List RRef) (snd : Addr) (cur : Nat) (rr : RRef) (i : Nat) :
    accessKind al snd cur rr = .asset i ↔ rr.address = .zero ∧ rr.asset ≠ 0 ∧ i = rr.asset := by
  unfold accessKind
  repeat' split
  all_goals simp_all [eq_comm]

theorem accessKind_app (al : List RRef) (snd : Addr) (cur : Nat) (rr : RRef) (i : Nat) :
    accessKind al snd cur rr = .app i ↔ rr.address = .zero ∧ rr.asset = 0 ∧ rr.app ≠ 0 ∧ i = rr.app := by
  unfold accessKind
  repeat' split
  all_goals simp_all [eq_comm]

theorem accessKind_holding (al : List RRef) (snd : Addr) (cur : Nat) (rr : RRef) (a : Addr) (i : Nat) :
    accessKind al snd cur rr = .holding a i ↔ IsHoldingElem rr ∧ (a, i) = holdingOf al snd rr.holding := by
  unfold accessKind IsHoldingElem holdingOf
  repeat' split
  all_goals simp_all [eq_comm]

theorem accessKind_locals (al : List RRef) (snd : Addr) (cur : Nat) (rr : RRef) (a : Addr) (i : Nat) :
    accessKind al snd cur rr = .locals a i ↔ IsLocalsElem rr ∧ (a, i) = localsOf al snd cur rr.locals := by
  unfold accessKind IsLocalsElem localsOf
  repeat' split
  all_goals simp_all [eq_comm]

theorem mem_foreignTxAccounts (snd : Addr) (f : Appl) (a : Addr) :
    a ∈ foreignTxAccounts snd f ↔ ForeignAccount snd f a := by
  unfold foreignTxAccounts ForeignAccount
  by_cases h : f.appId ≠ 0 <;> simp [h, eq_comm]

theorem mem_foreignTxApps (f : Appl) (p : Nat) : p ∈ foreignTxApps f ↔ ForeignApp f p := by
  unfold foreignTxApps ForeignApp
  by_cases h : f.appId ≠ 0 <;> simp [h]

theorem contrib_accounts (tx : Txn) (a : Addr) : a ∈ (contrib tx).accounts ↔ DeclaresAccount tx a := by
  cases tx with
  | pay snd rcv close => by_cases h : close ≠ .zero <;> simp [contrib, DeclaresAccount, h]
  | keyreg snd => simp [contrib, DeclaresAccount]
  | acfg snd asset => simp [contrib, DeclaresAccount]
  | axfer snd asset rcv asnd aclose =>
    by_cases h1 : asnd ≠ .zero <;> by_cases h2 : aclose ≠ .zero <;> simp [contrib, DeclaresAccount, h1, h2]
  | afrz snd asset acct => simp [contrib, DeclaresAccount]
  | other snd => simp [contrib, DeclaresAccount]
  | appl snd f =>
    unfold contrib DeclaresAccount
    cases hacc : f.access with
    | none => simp only [hacc, contribForeign]; exact mem_foreignTxAccounts snd f a
    | some al =>
      simp only [hacc, contribAccess, List.mem_cons, List.mem_filterMap, List.mem_map]
      constructor
      · rintro (h | ⟨k, ⟨rr, hm, hk⟩, hs⟩)
        · exact Or.inl h
        · cases k <;> simp at hs
          subst hs
          exact Or.inr ⟨rr, hm, (accessKind_address al snd f.appId rr _).1 hk⟩
      · rintro (h | ⟨rr, hm, hz, ha⟩)
        · exact Or.inl h
        · exact Or.inr ⟨.address a, ⟨rr, hm, (accessKind_address al snd f.appId rr a).2 ⟨hz, ha⟩⟩, rfl⟩

theorem contrib_asas (tx : Txn) (id : Nat) : id ∈ (contrib tx).asas ↔ DeclaresAsset tx id := by
  cases tx with
  | pay snd rcv close => simp [contrib, DeclaresAsset]
  | keyreg snd => simp [contrib, DeclaresAsset]
  | acfg snd asset => by_cases h : asset ≠ 0 <;> simp [contrib, DeclaresAsset, h]
  | axfer snd asset rcv asnd aclose => simp [contrib, DeclaresAsset]
  | afrz snd asset acct => simp [contrib, DeclaresAsset]
  | other snd => simp [contrib, DeclaresAsset]
  | appl snd f =>
    unfold contrib DeclaresAsset
    cases hacc : f.access with
    | none => simp [hacc, contribForeign]
    | some al =>
      simp only [hacc, contribAccess, List.mem_filterMap, List.mem_map]
      constructor
      · rintro ⟨k, ⟨rr, hm, hk⟩, hs⟩
        cases k <;> simp at hs
        subst hs
        exact ⟨rr, hm, (accessKind_asset al snd f.appId rr _).1 hk⟩
      · rintro ⟨rr, hm, h⟩
        exact ⟨.asset id, ⟨rr, hm, (accessKind_asset al snd f.appId rr id).2 h⟩, rfl⟩

theorem contrib_apps (tx : Txn) (p : Nat) : p ∈ (contrib tx).apps ↔ DeclaresApp tx p := by
  cases tx with
  | pay snd rcv close => simp [contrib, DeclaresApp]
  | keyreg snd => simp [contrib, DeclaresApp]
  | acfg snd asset => simp [contrib, DeclaresApp]
  | axfer snd asset rcv asnd aclose => simp [contrib, DeclaresApp]
  | afrz snd asset acct => simp [contrib, DeclaresApp]
  | other snd => simp [contrib, DeclaresApp]
  | appl snd f =>
    unfold contrib DeclaresApp
    cases hacc : f.access with
    | none => simp only [hacc, contribForeign]; exact mem_foreignTxApps f p
    | some al =>
      simp only [hacc, contribAccess, List.mem_append, List.mem_filterMap, List.mem_map]
      constructor
      · rintro (h | ⟨k, ⟨rr, hm, hk⟩, hs⟩)
        · left; by_cases h0 : f.appId ≠ 0 <;> simp [h0] at h; exact ⟨h0, h⟩
        · cases k <;> simp at hs
          subst hs
          exact Or.inr ⟨rr, hm, (accessKind_app al snd f.appId rr _).1 hk⟩
      · rintro (⟨h0, h⟩ | ⟨rr, hm, h⟩)
        · left; simp [h0, h]
        · exact Or.inr ⟨.app p, ⟨rr, hm, (accessKind_app al snd f.appId rr p).2 h⟩, rfl⟩

theorem contrib_holdings (tx : Txn) (a : Addr) (id : Nat) :
    (a, id) ∈ (contrib tx).holdings ↔ DeclaresHolding tx a id := by
  cases tx with
  | pay snd rcv close => simp [contrib, DeclaresHolding]
  | keyreg snd => simp [contrib, DeclaresHolding]
  | acfg snd asset => simp [contrib, DeclaresHolding]
  | other snd => simp [contrib, DeclaresHolding]
  | afrz snd asset acct =>
    by_cases h : asset ≠ 0 <;> simp [contrib, DeclaresHolding, holdingIf, h, and_comm]
  | axfer snd asset rcv asnd aclose =>
    by_cases h : asset ≠ 0 <;> by_cases h1 : asnd ≠ .zero <;> by_cases h2 : aclose ≠ .zero <;>
      simp [contrib, DeclaresHolding, holdingIf, h, h1, h2, List.mem_flatMap] <;> grind
  | appl snd f =>
    unfold contrib DeclaresHolding
    cases hacc : f.access with
    | none =>
      simp only [hacc, contribForeign, List.mem_flatMap, List.mem_map, Prod.mk.injEq]
      constructor
      · rintro ⟨x, hx, y, hy, rfl, rfl⟩
        exact ⟨(mem_foreignTxAccounts snd f _).1 hx, hy⟩
      · rintro ⟨hx, hy⟩
        exact ⟨a, (mem_foreignTxAccounts snd f a).2 hx, id, hy, rfl, rfl⟩
    | some al =>
      simp only [hacc, contribAccess, List.mem_filterMap, List.mem_map]
      constructor
      · rintro ⟨k, ⟨rr, hm, hk⟩, hs⟩
        cases k <;> simp at hs
        obtain ⟨rfl, rfl⟩ := hs
        exact ⟨rr, hm, (accessKind_holding al snd f.appId rr _ _).1 hk⟩
      · rintro ⟨rr, hm, h⟩
        exact ⟨.holding a id, ⟨rr, hm, (accessKind_holding al snd f.appId rr a id).2 h⟩, rfl⟩

theorem contrib_locals (tx : Txn) (a : Addr) (p : Nat) :
    (a, p) ∈ (contrib tx).locals ↔ DeclaresLocals tx a p := by
  cases tx with
  | pay snd rcv close => simp [contrib, DeclaresLocals]
  | keyreg snd => simp [contrib, DeclaresLocals]
  | acfg snd asset => simp [contrib, DeclaresLocals]
  | other snd => simp [contrib, DeclaresLocals]
  | afrz snd asset acct => simp [contrib, DeclaresLocals]
  | axfer snd asset rcv asnd aclose => simp [contrib, DeclaresLocals]
  | appl snd f =>
    unfold contrib DeclaresLocals
    cases hacc : f.access with
    | none =>
      simp only [hacc, contribForeign, List.mem_flatMap, List.mem_map, Prod.mk.injEq]
      constructor
      · rintro ⟨x, hx, y, hy, rfl, rfl⟩
        exact ⟨(mem_foreignTxAccounts snd f _).1 hx, (mem_foreignTxApps f _).1 hy⟩
      · rintro ⟨hx, hy⟩
        exact ⟨a, (mem_foreignTxAccounts snd f a).2 hx, p, (mem_foreignTxApps f p).2 hy, rfl, rfl⟩
    | some al =>
      simp only [hacc, contribAccess, List.mem_append, List.mem_filterMap, List.mem_map]
      constructor
      · rintro (h | ⟨k, ⟨rr, hm, hk⟩, hs⟩)
        · left; by_cases h0 : f.appId ≠ 0 <;> simp [h0] at h; exact ⟨h0, h.1, h.2⟩
        · cases k <;> simp at hs
          obtain ⟨rfl, rfl⟩ := hs
          exact Or.inr ⟨rr, hm, (accessKind_locals al snd f.appId rr _ _).1 hk⟩
      · rintro (⟨h0, h1, h2⟩ | ⟨rr, hm, h⟩)
        · left; simp [h0, h1, h2]
        · exact Or.inr ⟨.locals a p, ⟨rr, hm, (accessKind_locals al snd f.appId rr a p).2 h⟩, rfl⟩

/-! ### closure: what the evaluator's shared sets contain, for EVERY group -/

theorem shared_accounts_iff (g : List Txn) (a : Addr) :
    a ∈ (computeAvailability g).sharedAccounts ↔ ∃ tx ∈ g, DeclaresAccount tx a := by
  simp [computeAvailability, foldl_fill_accounts, contrib_accounts]

theorem shared_asas_iff (g : List Txn) (id : Nat) :
    id ∈ (computeAvailability g).sharedAsas ↔ ∃ tx ∈ g, DeclaresAsset tx id := by
  simp [computeAvailability, foldl_fill_asas, contrib_asas]

theorem shared_apps_iff (g : List Txn) (p : Nat) :
    p ∈ (computeAvailability g).sharedApps ↔ ∃ tx ∈ g, DeclaresApp tx p := by
  simp [computeAvailability, foldl_fill_apps, contrib_apps]

theorem shared_holdings_iff (g : List Txn) (a : Addr) (id : Nat) :
    (a, id) ∈ (computeAvailability g).sharedHoldings ↔ ∃ tx ∈ g, DeclaresHolding tx a id := by
  simp [computeAvailability, foldl_fill_holdings, contrib_holdings]

theorem shared_locals_iff (g : List Txn) (a : Addr) (p : Nat) :
    (a, p) ∈ (computeAvailability g).sharedLocals ↔ ∃ tx ∈ g, DeclaresLocals tx a p := by
  simp [computeAvailability, foldl_fill_locals, contrib_locals]

/-! ### the Bool deciders are the declarative predicates -/

theorem polAcct_iff (E : Env) (low : Bool) (a : Addr) : polAcct (E.cx low) a = true ↔ PolAccount E a := by
  unfold polAcct PolAccount Env.cx
  cases E.policy <;> simp

theorem polAsset_iff (E : Env) (low : Bool) (a : Nat) : polAsset (E.cx low) a = true ↔ PolAsset E a := by
  unfold polAsset PolAsset Env.cx
  cases E.policy <;> simp

theorem polApp_iff (E : Env) (low : Bool) (a : Nat) : polApp (E.cx low) a = true ↔ PolApp E a := by
  unfold polApp PolApp Env.cx
  cases E.policy <;> simp

theorem availableAccount_iff (E : Env) (low : Bool) (a : Addr) :
    availableAccount (E.cx low) a = true ↔ AvailAccount E a := by
  unfold availableAccount AvailAccount OwnAccount
  simp only [Bool.or_eq_true, Bool.and_eq_true, decide_eq_true_eq, List.any_eq_true, List.contains_iff_mem,
    polAcct_iff]
  simp only [Env.cx, Env.res, indexByAddress_isSome, shared_accounts_iff]
  constructor
  · rintro (((((h | h) | h) | h) | h) | h)
    · exact Or.inl h
    · exact Or.inr (Or.inl ⟨h.1, by obtain ⟨c, hc, e⟩ := h.2; exact ⟨c, hc, e.symm⟩⟩)
    · exact Or.inr (Or.inr (Or.inl h))
    · exact Or.inr (Or.inr (Or.inr (Or.inl ⟨h.1, by obtain ⟨c, hc, e⟩ := h.2; exact ⟨c, hc, e.symm⟩⟩)))
    · exact Or.inr (Or.inr (Or.inr (Or.inr (Or.inl h.symm))))
    · exact Or.inr (Or.inr (Or.inr (Or.inr (Or.inr h))))
  · rintro (h | h | h | h | h | h)
    · exact Or.inl (Or.inl (Or.inl (Or.inl (Or.inl h))))
    · exact Or.inl (Or.inl (Or.inl (Or.inl (Or.inr ⟨h.1, by obtain ⟨c, hc, e⟩ := h.2; exact ⟨c, hc, e.symm⟩⟩))))
    · exact Or.inl (Or.inl (Or.inl (Or.inr h)))
    · exact Or.inl (Or.inl (Or.inr ⟨h.1, by obtain ⟨c, hc, e⟩ := h.2; exact ⟨c, hc, e.symm⟩⟩))
    · exact Or.inl (Or.inr h.symm)
    · exact Or.inr h

theorem availableAsset_iff (E : Env) (low : Bool) (id : Nat) :
    availableAsset (E.cx low) id = true ↔ AvailAsset E id := by
  unfold availableAsset AvailAsset OwnAsset
  simp only [Bool.or_eq_true, Bool.and_eq_true, decide_eq_true_eq, List.any_eq_true, List.contains_iff_mem,
    polAsset_iff]
  simp only [Env.cx, Env.res, shared_asas_iff]
  constructor
  · rintro ((((h | h) | h) | h) | h)
    · exact Or.inl (Or.inr h)
    · exact Or.inl (Or.inl h)
    · exact Or.inr (Or.inl h)
    · exact Or.inr (Or.inr (Or.inl h))
    · exact Or.inr (Or.inr (Or.inr h))
  · rintro ((h | h) | h | h | h)
    · exact Or.inl (Or.inl (Or.inl (Or.inr h)))
    · exact Or.inl (Or.inl (Or.inl (Or.inl h)))
    · exact Or.inl (Or.inl (Or.inr h))
    · exact Or.inl (Or.inr h)
    · exact Or.inr h

theorem availableApp_iff (E : Env) (low : Bool) (p : Nat) :
    availableApp (E.cx low) p = true ↔ AvailApp E p := by
  unfold availableApp AvailApp OwnApp
  simp only [Bool.or_eq_true, Bool.and_eq_true, decide_eq_true_eq, List.any_eq_true, List.contains_iff_mem,
    polApp_iff]
  simp only [Env.cx, Env.res, shared_apps_iff]
  constructor
  · rintro (((((h | h) | h) | h) | h) | h)
    · exact Or.inl (Or.inr h)
    · exact Or.inl (Or.inl h)
    · exact Or.inr (Or.inl h)
    · exact Or.inr (Or.inr (Or.inl h.symm))
    · exact Or.inr (Or.inr (Or.inr (Or.inl h)))
    · exact Or.inr (Or.inr (Or.inr (Or.inr h)))
  · rintro ((h | h) | h | h | h | h)
    · exact Or.inl (Or.inl (Or.inl (Or.inl (Or.inr h))))
    · exact Or.inl (Or.inl (Or.inl (Or.inl (Or.inl h))))
    · exact Or.inl (Or.inl (Or.inl (Or.inr h)))
    · exact Or.inl (Or.inl (Or.inr h.symm))
    · exact Or.inl (Or.inr h)
    · exact Or.inr h

/-! ### the sharing rule: the early returns of allowsHolding / allowsLocals lose nothing -/

theorem createdApp_account (E : Env) (hv : E.version ≥ createdResourcesVersion) (a : Addr)
    (h : ∃ c ∈ E.createdApps, a = appAddr c) : AvailAccount E a :=
  Or.inr (Or.inl ⟨hv, h⟩)

theorem allowsHolding_iff (E : Env) (low : Bool) (hv : E.version ≥ createdResourcesVersion) (a : Addr) (id : Nat) :
    allowsHolding (E.cx low) a id = true ↔ SharedHolding E a id := by
  have hA := availableAccount_iff E low a
  have hS := availableAsset_iff E low id
  unfold allowsHolding SharedHolding
  have e1 : (E.cx low).res.sharedHoldings.contains (a, id) = true ↔ ∃ tx ∈ E.group, DeclaresHolding tx a id := by
    simp only [Env.cx, Env.res, List.contains_iff_mem, shared_holdings_iff]
  have e2 : (E.cx low).res.createdAsas.contains id = true ↔ id ∈ E.createdAsas := by
    simp only [Env.cx, Env.res, List.contains_iff_mem]
  have e3 : (E.cx low).res.createdApps.any (fun c => decide (appAddr c = a)) = true ↔ ∃ c ∈ E.createdApps, a = appAddr c := by
    simp only [Env.cx, Env.res, List.any_eq_true, decide_eq_true_eq]
    constructor <;> (rintro ⟨c, hc, e⟩; exact ⟨c, hc, e.symm⟩)
  by_cases c1 : (E.cx low).res.sharedHoldings.contains (a, id) = true
  · simp only [c1, if_true, true_iff]; exact Or.inl (e1.1 c1)
  · simp only [c1, if_false, Bool.false_eq_true]
    have n1 : ¬ ∃ tx ∈ E.group, DeclaresHolding tx a id := fun h => c1 (e1.2 h)
    by_cases c2 : (E.cx low).res.createdAsas.contains id = true
    · simp only [c2, if_true, hA]
      constructor
      · intro h; exact Or.inr (Or.inl ⟨e2.1 c2, h⟩)
      · rintro (h | h | h | ⟨p, _, h, _⟩)
        · exact absurd h n1
        · exact h.2
        · exact createdApp_account E hv a h.1
        · exact h
    · simp only [c2, if_false, Bool.false_eq_true]
      have n2 : id ∉ E.createdAsas := fun h => c2 (e2.2 h)
      by_cases c3 : (E.cx low).res.createdApps.any (fun c => decide (appAddr c = a)) = true
      · simp only [c3, if_true, hS]
        constructor
        · intro h; exact Or.inr (Or.inr (Or.inl ⟨e3.1 c3, h⟩))
        · rintro (h | h | h | ⟨p, _, _, h, _⟩)
          · exact absurd h n1
          · exact absurd h.1 n2
          · exact h.2
          · exact h
      · simp only [c3, if_false, Bool.false_eq_true]
        have n3 : ¬ ∃ c ∈ E.createdApps, a = appAddr c := fun h => c3 (e3.2 h)
        cases hp : E.policy with
        | none =>
          simp only [Env.cx, hp, Bool.false_eq_true, false_iff]
          rintro (h | h | h | ⟨p, h, _⟩)
          · exact n1 h
          · exact n2 h.1
          · exact n3 h.1
          · cases h
        | some p =>
          have hpol : (E.cx low).policy = some p := by simp [Env.cx, hp]
          simp only [hpol, Bool.and_eq_true, hA, hS, List.contains_iff_mem]
          constructor
          · rintro ⟨⟨h1, h2⟩, h3⟩; exact Or.inr (Or.inr (Or.inr ⟨p, rfl, h1, h2, h3⟩))
          · rintro (h | h | h | ⟨q, hq, h1, h2, h3⟩)
            · exact absurd h n1
            · exact absurd h.1 n2
            · exact absurd h.1 n3
            · cases hq; exact ⟨⟨h1, h2⟩, h3⟩

theorem allowsLocals_iff (E : Env) (low : Bool) (hv : E.version ≥ createdResourcesVersion) (a : Addr) (p : Nat) :
    allowsLocals (E.cx low) a p = true ↔ SharedLocals E a p := by
  have hA := availableAccount_iff E low a
  have hS := availableApp_iff E low p
  unfold allowsLocals SharedLocals
  have e1 : (E.cx low).res.sharedLocals.contains (a, p) = true ↔ ∃ tx ∈ E.group, DeclaresLocals tx a p := by
    simp only [Env.cx, Env.res, List.contains_iff_mem, shared_locals_iff]
  have e2 : (E.cx low).res.createdApps.contains p = true ↔ p ∈ E.createdApps := by
    simp only [Env.cx, Env.res, List.contains_iff_mem]
  have e3 : (E.cx low).res.createdApps.any (fun c => decide (appAddr c = a)) = true ↔ ∃ c ∈ E.createdApps, a = appAddr c := by
    simp only [Env.cx, Env.res, List.any_eq_true, decide_eq_true_eq]
    constructor <;> (rintro ⟨c, hc, e⟩; exact ⟨c, hc, e.symm⟩)
  by_cases c1 : (E.cx low).res.sharedLocals.contains (a, p) = true
  · simp only [c1, if_true, true_iff]; exact Or.inl (e1.1 c1)
  · simp only [c1, if_false, Bool.false_eq_true]
    have n1 : ¬ ∃ tx ∈ E.group, DeclaresLocals tx a p := fun h => c1 (e1.2 h)
    by_cases c2 : (E.cx low).res.createdApps.contains p = true
    · simp only [c2, if_true, hA]
      constructor
      · intro h; exact Or.inr (Or.inl ⟨e2.1 c2, h⟩)
      · rintro (h | h | h | ⟨q, _, _, h, _⟩)
        · exact absurd h n1
        · exact h.2
        · exact createdApp_account E hv a h.1
        · exact h
    · simp only [c2, if_false, Bool.false_eq_true]
      have n2 : p ∉ E.createdApps := fun h => c2 (e2.2 h)
      by_cases c3 : (E.cx low).res.createdApps.any (fun c => decide (appAddr c = a)) = true
      · simp only [c3, if_true, hS]
        constructor
        · intro h; exact Or.inr (Or.inr (Or.inl ⟨e3.1 c3, h⟩))
        · rintro (h | h | h | ⟨q, _, h, _, _⟩)
          · exact absurd h n1
          · exact absurd h.1 n2
          · exact h.2
          · exact h
      · simp only [c3, if_false, Bool.false_eq_true]
        have n3 : ¬ ∃ c ∈ E.createdApps, a = appAddr c := fun h => c3 (e3.2 h)
        cases hp : E.policy with
        | none =>
          simp only [Env.cx, hp, Bool.false_eq_true, false_iff]
          rintro (h | h | h | ⟨q, h, _⟩)
          · exact n1 h
          · exact n2 h.1
          · exact n3 h.1
          · cases h
        | some q =>
          have hpol : (E.cx low).policy = some q := by simp [Env.cx, hp]
          simp only [hpol, Bool.and_eq_true, hA, hS, List.contains_iff_mem]
          constructor
          · rintro ⟨⟨h1, h2⟩, h3⟩; exact Or.inr (Or.inr (Or.inr ⟨q, rfl, h1, h2, h3⟩))
          · rintro (h | h | h | ⟨q', hq, h1, h2, h3⟩)
            · exact absurd h n1
            · exact absurd h.1 n2
            · exact absurd h.1 n3
            · cases hq; exact ⟨⟨h1, h2⟩, h3⟩

/-! ### resolvers: success implies the available* predicate -/

theorem lowGuard_ok {cx : Ctx} {r : Except Deny Nat} {id : Nat} (h : lowGuard cx r = .ok id) :
    r = .ok id ∧ (cx.low = true → id > lastForbiddenResource) := by
  unfold lowGuard at h
  cases r with
  | error e => simp at h
  | ok aid =>
    simp only at h
    by_cases hc : cx.low = true ∧ aid ≤ lastForbiddenResource
    · simp [hc] at h
    · simp only [hc, if_false, Except.ok.injEq] at h
      subst h
      refine ⟨rfl, fun hl => ?_⟩
      by_cases hle : aid ≤ lastForbiddenResource
      · exact absurd ⟨hl, hle⟩ hc
      · omega

theorem addressByIndex_named {snd : Addr} {f : Appl} {n : Nat} {a : Addr} (h : addressByIndex snd f n = .ok a) :
    (indexByAddress snd f a).isSome = true := by
  rw [indexByAddress_isSome]
  unfold addressByIndex at h
  split at h
  · cases h; exact Or.inl rfl
  · split at h
    · rename_i al hal
      split at h
      · cases h
      · split at h
        · rename_i rr hrr
          split at h
          · cases h
          · cases h
            exact Or.inr (Or.inr ⟨rr, by simp only [accessList, hal]; exact List.mem_of_getElem? hrr, rfl⟩)
        · cases h
    · split at h
      · rename_i x hx
        cases h
        exact Or.inr (Or.inl (List.mem_of_getElem? hx))
      · cases h

theorem named_available {cx : Ctx} {a : Addr} (h : (indexByAddress cx.snd cx.f a).isSome = true) :
    availableAccount cx a = true := by
  unfold availableAccount; simp [h]

theorem resolveAccount_idx {cx : Ctx} {n : Nat} {a : Addr} {i : Option Nat}
    (h : resolveAccount cx (.idx n) = .ok (a, i)) : availableAccount cx a = true := by
  unfold resolveAccount at h
  cases h1 : addressByIndex cx.snd cx.f n with
  | error e => simp [h1, bind, Except.bind] at h
  | ok x =>
    simp [h1, bind, Except.bind, pure, Except.pure] at h
    exact named_available (h.1 ▸ addressByIndex_named h1)

theorem accountReference_sound {cx : Ctx} {arg : AcctArg} {a : Addr} {i : Nat}
    (h : accountReference cx arg = .ok (a, i)) : availableAccount cx a = true := by
  unfold accountReference at h
  cases arg with
  | idx n =>
    cases h1 : resolveAccount cx (.idx n) with
    | error e => simp [h1, bind, Except.bind] at h
    | ok p =>
      obtain ⟨x, j⟩ := p
      have hx := resolveAccount_idx h1
      simp only [h1, bind, Except.bind] at h
      cases j with
      | some j => simp [pure, Except.pure] at h; exact h.1 ▸ hx
      | none =>
        by_cases hav : availableAccount cx x = true
        · simp [hav, pure, Except.pure] at h; exact h.1 ▸ hx
        · simp [hav] at h
  | addr x =>
    simp only [resolveAccount, bind, Except.bind, pure, Except.pure] at h
    cases hj : indexByAddress cx.snd cx.f x with
    | some j =>
      simp [hj] at h
      exact h.1 ▸ named_available (by simp [hj])
    | none =>
      simp only [hj] at h
      split at h
      · rename_i hav
        cases h; exact hav
      · cases h

theorem resolveAsset_sound {cx : Ctx} {ref id : Nat} (h : resolveAsset cx ref = .ok id) :
    availableAsset cx id = true ∧ (cx.low = true → id > lastForbiddenResource) := by
  unfold resolveAsset at h
  obtain ⟨h, hl⟩ := lowGuard_ok h
  refine ⟨?_, hl⟩
  split at h
  · rename_i hav; cases h; exact hav
  · split at h
    · rename_i x hx
      cases h
      unfold availableAsset
      simp [List.mem_of_getElem? hx]
    · split at h
      · split at h
        · rename_i rr hrr
          split at h
          · cases h
            unfold availableAsset
            have : (accessList cx.f).any (fun r => decide (r.asset = rr.asset)) = true :=
              List.any_eq_true.2 ⟨rr, List.mem_of_getElem? hrr, by simp⟩
            simp [this]
          · cases h
        · cases h
      · cases h

theorem resolveApp_sound {cx : Ctx} {ref id : Nat} (h : resolveApp cx ref = .ok id) :
    availableApp cx id = true ∧ (cx.low = true → id > lastForbiddenResource) := by
  unfold resolveApp at h
  obtain ⟨h, hl⟩ := lowGuard_ok h
  refine ⟨?_, hl⟩
  split at h
  · cases h; unfold availableApp; simp
  · split at h
    · rename_i hav; cases h; exact hav
    · split at h
      · split at h
        · rename_i x hx
          cases h
          unfold availableApp
          simp [List.mem_of_getElem? hx]
        · cases h
      · split at h
        · rename_i rr hrr
          split at h
          · cases h
            unfold availableApp
            have : (accessList cx.f).any (fun r => decide (r.app = rr.app)) = true :=
              List.any_eq_true.2 ⟨rr, List.mem_of_getElem? hrr, by simp⟩
            simp [this]
          · cases h
        · cases h

/-- before direct references (version < 4) a non-foreign reference is a plain id that is not checked -/
theorem assetReference_sound {cx : Ctx} {ref id : Nat} {foreign : Bool} (h : assetReference cx ref foreign = .ok id) :
    ((cx.version ≥ directRefEnabledVersion ∨ foreign = true) → availableAsset cx id = true)
    ∧ (cx.low = true → id > lastForbiddenResource) := by
  unfold assetReference at h
  split at h
  · rename_i hv
    exact ⟨fun _ => (resolveAsset_sound h).1, (resolveAsset_sound h).2⟩
  · rename_i hv
    obtain ⟨h, hl⟩ := lowGuard_ok h
    refine ⟨?_, hl⟩
    rintro (h4 | hf)
    · exact absurd h4 hv
    · simp only [hf, if_true] at h
      split at h
      · rename_i x hx
        cases h
        unfold availableAsset
        simp [List.mem_of_getElem? hx]
      · cases h

theorem appReference_sound {cx : Ctx} {ref id : Nat} {foreign : Bool} (h : appReference cx ref foreign = .ok id) :
    ((cx.version ≥ directRefEnabledVersion ∨ foreign = true) → availableApp cx id = true)
    ∧ (cx.low = true → id > lastForbiddenResource) := by
  unfold appReference at h
  split at h
  · exact ⟨fun _ => (resolveApp_sound h).1, (resolveApp_sound h).2⟩
  · rename_i hv
    obtain ⟨h, hl⟩ := lowGuard_ok h
    refine ⟨?_, hl⟩
    rintro (h4 | hf)
    · exact absurd h4 hv
    · subst hf
      by_cases h0 : ref = 0
      · simp [h0] at h; subst h; unfold availableApp; simp
      · simp only [h0, if_false, if_true] at h
        split at h
        · split at h
          · rename_i x hx
            cases h
            unfold availableApp
            simp [List.mem_of_getElem? hx]
          · cases h
        · cases h

theorem holdingReference_sound {cx : Ctx} {arg : AcctArg} {ref : Nat} {a : Addr} {id : Nat}
    (h : holdingReference cx arg ref = .ok (a, id)) :
    (cx.version ≥ sharedResourcesVersion → allowsHolding cx a id = true)
    ∧ (cx.version < sharedResourcesVersion → availableAccount cx a = true)
    ∧ (cx.version ≥ directRefEnabledVersion → availableAsset cx id = true)
    ∧ (cx.low = true → id > lastForbiddenResource) := by
  unfold holdingReference at h
  by_cases hv : cx.version ≥ sharedResourcesVersion
  · simp only [hv, if_true] at h
    cases h1 : resolveAccount cx arg with
    | error e => simp [h1] at h
    | ok p =>
      obtain ⟨x, j⟩ := p
      simp only [h1] at h
      cases h2 : resolveAsset cx ref with
      | error e =>
        simp only [h2] at h
        split at h <;> cases h
      | ok aid =>
        simp only [h2] at h
        by_cases hh : allowsHolding cx x aid = true
        · simp only [hh, if_true, Except.ok.injEq, Prod.mk.injEq] at h
          obtain ⟨rfl, rfl⟩ := h
          have hs := resolveAsset_sound h2
          exact ⟨fun _ => hh, fun h9 => absurd hv (by omega), fun _ => hs.1, hs.2⟩
        · rw [if_neg hh] at h
          by_cases hav : availableAccount cx x = true <;> simp [hav] at h
  · simp only [hv, if_false] at h
    cases h1 : accountReference cx arg with
    | error e => simp [h1, bind, Except.bind] at h
    | ok p =>
      obtain ⟨x, j⟩ := p
      simp only [h1, bind, Except.bind] at h
      cases h2 : assetReference cx ref false with
      | error e => simp [h2] at h
      | ok aid =>
        simp [h2, pure, Except.pure] at h
        obtain ⟨rfl, rfl⟩ := h
        have hs := assetReference_sound h2
        exact ⟨fun h9 => absurd h9 hv, fun _ => accountReference_sound h1, fun h4 => hs.1 (Or.inl h4), hs.2⟩

theorem localsReference_sound {cx : Ctx} {arg : AcctArg} {ref : Nat} {a : Addr} {id : Nat}
    (h : localsReference cx arg ref = .ok (a, id)) :
    (cx.version ≥ sharedResourcesVersion → allowsLocals cx a id = true)
    ∧ (cx.version < sharedResourcesVersion → availableAccount cx a = true)
    ∧ (cx.version ≥ directRefEnabledVersion → availableApp cx id = true)
    ∧ (cx.low = true → id > lastForbiddenResource) := by
  unfold localsReference at h
  by_cases hv : cx.version ≥ sharedResourcesVersion
  · simp only [hv, if_true] at h
    cases h1 : resolveAccount cx arg with
    | error e => simp [h1] at h
    | ok p =>
      obtain ⟨x, j⟩ := p
      simp only [h1] at h
      cases h2 : resolveApp cx ref with
      | error e =>
        simp only [h2] at h
        split at h <;> cases h
      | ok aid =>
        simp only [h2] at h
        by_cases hh : allowsLocals cx x aid = true
        · simp only [hh, if_true, Except.ok.injEq, Prod.mk.injEq] at h
          obtain ⟨rfl, rfl⟩ := h
          have hs := resolveApp_sound h2
          exact ⟨fun _ => hh, fun h9 => absurd hv (by omega), fun _ => hs.1, hs.2⟩
        · rw [if_neg hh] at h
          by_cases hav : availableAccount cx x = true <;> simp [hav] at h
  · simp only [hv, if_false] at h
    cases h1 : accountReference cx arg with
    | error e => simp [h1, bind, Except.bind] at h
    | ok p =>
      obtain ⟨x, j⟩ := p
      simp only [h1, bind, Except.bind] at h
      cases h2 : appReference cx ref false with
      | error e => simp [h2] at h
      | ok aid =>
        simp [h2, pure, Except.pure] at h
        obtain ⟨rfl, rfl⟩ := h
        have hs := appReference_sound h2
        exact ⟨fun h9 => absurd h9 hv, fun _ => accountReference_sound h1, fun h4 => hs.1 (Or.inl h4), hs.2⟩

/-- app_local_put / app_local_del: the account is available; from sharedResourcesVersion the (account, called app) local
state must be available as a pair; before it the account must sit in the transaction's own Accounts (or be the sender) -/
theorem localMutation_sound {cx : Ctx} {arg : AcctArg} {a : Addr} {p : Nat}
    (h : localMutation cx arg = .ok (a, p)) :
    p = cx.appId ∧ availableAccount cx a = true
    ∧ (cx.version ≥ sharedResourcesVersion → allowsLocals cx a cx.appId = true)
    ∧ (cx.version < sharedResourcesVersion → ∃ i, accountReference cx arg = .ok (a, i) ∧ i ≤ cx.f.accounts.length) := by
  unfold localMutation mutableAccountReference at h
  cases h1 : accountReference cx arg with
  | error e => simp [h1, bind, Except.bind] at h
  | ok q =>
    obtain ⟨x, i⟩ := q
    simp only [h1, bind, Except.bind] at h
    by_cases hm : i > cx.f.accounts.length ∧ cx.version < sharedResourcesVersion
    · simp [hm] at h
    · simp only [hm, if_false, pure, Except.pure] at h
      by_cases hl : cx.version ≥ sharedResourcesVersion ∧ ¬ allowsLocals cx x cx.appId = true
      · simp [hl] at h
      · simp only [hl, if_false, Except.ok.injEq, Prod.mk.injEq] at h
        obtain ⟨rfl, rfl⟩ := h
        refine ⟨rfl, accountReference_sound h1, fun h9 => ?_, fun h9 => ⟨i, rfl, ?_⟩⟩
        · by_cases ha : allowsLocals cx x cx.appId = true
          · exact ha
          · exact absurd ⟨h9, ha⟩ hl
        · by_cases hi : i ≤ cx.f.accounts.length
          · exact hi
          · exact absurd ⟨by omega, h9⟩ hm

/-! ### inner transactions -/

theorem forM_ok {α : Type} (l : List α) (f : α → Except Deny Unit) :
    l.forM f = .ok () ↔ ∀ x ∈ l, f x = .ok () := by
  induction l with
  | nil => simp [List.forM, pure, Except.pure]
  | cons a as ih =>
    simp only [List.forM, List.mem_cons, forall_eq_or_imp]
    cases h : f a with
    | error e => simp [bind, Except.bind]
    | ok u =>
      simp only [bind, Except.bind, true_and]
      exact ih

theorem requireHolding_ok (cx : Ctx) (a : Addr) (id : Nat) :
    requireHolding cx a id = .ok () ↔ id = 0 ∨ a = .zero ∨ allowsHolding cx a id = true := by
  unfold requireHolding
  by_cases h : id = 0 ∨ a = .zero
  · rw [if_pos h]; simp only [true_iff]; rcases h with h | h
    · exact Or.inl h
    · exact Or.inr (Or.inl h)
  · rw [if_neg h]
    by_cases h2 : allowsHolding cx a id = true
    · rw [if_pos h2]; simp [h2]
    · rw [if_neg h2]
      constructor
      · intro h'; cases h'
      · rintro (h' | h' | h')
        · exact absurd (Or.inl h') h
        · exact absurd (Or.inr h') h
        · exact absurd h' h2

theorem requireLocals_ok (cx : Ctx) (a : Addr) (id : Nat) :
    requireLocals cx a id = .ok () ↔ allowsLocals cx a id = true := by
  unfold requireLocals
  by_cases h2 : allowsLocals cx a id = true <;> simp [h2]

theorem allowsApplAddr_ok (cx : Ctx) (appId : Nat) (assets apps : List Nat) (a : Addr) :
    allowsApplAddr cx appId assets apps a = .ok () ↔
      (∀ id ∈ assets, id = 0 ∨ a = .zero ∨ allowsHolding cx a id = true)
      ∧ (appId ≠ 0 → allowsLocals cx a appId = true)
      ∧ (∀ p ∈ apps, allowsLocals cx a p = true) := by
  unfold allowsApplAddr
  have e1 : assets.forM (fun id => requireHolding cx a id) = .ok () ↔
      ∀ id ∈ assets, id = 0 ∨ a = .zero ∨ allowsHolding cx a id = true := by
    rw [forM_ok]; exact forall_congr' fun x => imp_congr_right fun _ => requireHolding_ok cx a x
  have e3 : apps.forM (fun id => requireLocals cx a id) = .ok () ↔ ∀ p ∈ apps, allowsLocals cx a p = true := by
    rw [forM_ok]; exact forall_congr' fun x => imp_congr_right fun _ => requireLocals_ok cx a x
  rw [← e1, ← e3]
  cases h1 : assets.forM (fun id => requireHolding cx a id) with
  | error e => simp [bind, Except.bind]
  | ok u =>
    simp only [bind, Except.bind, true_and]
    by_cases h0 : appId ≠ 0
    · rw [if_pos h0]
      cases h2 : requireLocals cx a appId with
      | error e =>
        simp only [false_iff, reduceCtorEq]
        intro hh
        have := (requireLocals_ok cx a appId).2 (hh.1 h0)
        rw [h2] at this; cases this
      | ok u2 =>
        have h2' := (requireLocals_ok cx a appId).1 h2
        constructor
        · intro h3; exact ⟨fun _ => h2', h3⟩
        · intro hh; exact hh.2
    · rw [if_neg h0]
      constructor
      · intro h3; exact ⟨fun h => absurd h h0, h3⟩
      · intro hh; exact hh.2

/-! ### boxes -/

theorem boxKeys_boxSet (m : List (BoxKey × Bool)) (k k' : BoxKey) (d : Bool) :
    k' ∈ boxKeys (boxSet m k d) ↔ k' = k ∨ k' ∈ boxKeys m := by
  unfold boxKeys boxSet
  simp only [List.map_cons, List.mem_cons, List.mem_map, List.mem_filter]
  constructor
  · rintro (h | ⟨e, ⟨he, _⟩, rfl⟩)
    · exact Or.inl h
    · exact Or.inr ⟨e, he, rfl⟩
  · rintro (h | ⟨e, he, rfl⟩)
    · exact Or.inl h
    · by_cases hk : e.1 = k
      · exact Or.inl hk
      · exact Or.inr ⟨e, ⟨he, by simpa using hk⟩, rfl⟩

theorem boxGet_isSome (m : List (BoxKey × Bool)) (k : BoxKey) : (boxGet m k).isSome = true ↔ k ∈ boxKeys m := by
  induction m with
  | nil => simp [boxGet, boxKeys]
  | cons e rest ih =>
    obtain ⟨k', d⟩ := e
    unfold boxGet
    by_cases h : k' = k
    · simp [h, boxKeys]
    · simp only [h, if_false, ih, boxKeys, List.map_cons, List.mem_cons]
      constructor
      · intro h'; exact Or.inr h'
      · rintro (h' | h')
        · exact absurd h'.symm h
        · exact h'

theorem boxKeys_foldl (ks : List BoxKey) (m : List (BoxKey × Bool)) (k : BoxKey) :
    k ∈ boxKeys (ks.foldl (fun m k => boxSet m k false) m) ↔ k ∈ ks ∨ k ∈ boxKeys m := by
  induction ks generalizing m with
  | nil => simp
  | cons x xs ih =>
    simp only [List.foldl_cons, ih, boxKeys_boxSet, List.mem_cons]
    constructor
    · rintro (h | h | h)
      · exact Or.inl (Or.inr h)
      · exact Or.inl (Or.inl h)
      · exact Or.inr h
    · rintro ((h | h) | h)
      · exact Or.inr (Or.inl h)
      · exact Or.inl h
      · exact Or.inr (Or.inr h)

theorem foldl_fill_boxes (g : List Txn) (r : Res) (k : BoxKey) :
    k ∈ boxKeys (g.foldl fill r).boxes ↔ k ∈ boxKeys r.boxes ∨ ∃ tx ∈ g, k ∈ (contrib tx).boxes := by
  induction g generalizing r with
  | nil => simp
  | cons tx g ih =>
    simp only [List.foldl_cons, ih, fill, Res.add, boxKeys_foldl, List.mem_cons, exists_eq_or_imp]
    constructor
    · rintro ((h | h) | h)
      · exact Or.inr (Or.inl h)
      · exact Or.inl h
      · exact Or.inr (Or.inr h)
    · rintro (h | h | h)
      · exact Or.inl (Or.inr h)
      · exact Or.inl (Or.inl h)
      · exact Or.inr h

theorem shared_boxes_iff (g : List Txn) (k : BoxKey) :
    k ∈ boxKeys (computeAvailability g).boxes ↔ ∃ tx ∈ g, k ∈ (contrib tx).boxes := by
  unfold computeAvailability
  rw [foldl_fill_boxes]
  simp [boxKeys]

/-- the availability gate of a box access: past `nobox` / `clearbox` the box was named, or belongs to an app created in
the group with a spare (empty) reference left, or the simulation policy granted it -/
theorem availableAppBox_named {w : World} {cx : Ctx} {k : BoxKey} {op : BoxOp} {sz : Nat}
    (hn : (availableAppBox w cx k op sz).2 ≠ .deny .nobox) (hc : (availableAppBox w cx k op sz).2 ≠ .deny .clearbox) :
    cx.f.oc ≠ 3 ∧ (k ∈ boxKeys cx.res.boxes
      ∨ (k.1 ∈ cx.res.createdApps ∧ cx.res.unnamedAccess > 0)
      ∨ ∃ p, cx.policy = some p ∧ k ∈ p.boxes) := by
  by_cases h3 : cx.f.oc = 3
  · exact absurd (by simp [availableAppBox, h3]) hc
  · refine ⟨h3, ?_⟩
    by_cases hk : k ∈ boxKeys cx.res.boxes
    · exact Or.inl hk
    · have hnone : (boxGet cx.res.boxes k).isNone = true := by
        cases hg : boxGet cx.res.boxes k with
        | none => rfl
        | some d => exact absurd ((boxGet_isSome _ _).1 (by simp [hg])) hk
      by_cases hs : k.1 ∈ cx.res.createdApps ∧ cx.res.unnamedAccess > 0
      · exact Or.inr (Or.inl hs)
      · by_cases hp : ∃ p, cx.policy = some p ∧ k ∈ p.boxes
        · exact Or.inr (Or.inr hp)
        · exfalso
          apply hn
          have hs' : k.1 ∈ cx.res.createdApps → cx.res.unnamedAccess = 0 := fun hc1 => by
            have : ¬ cx.res.unnamedAccess > 0 := fun h => hs ⟨hc1, h⟩
            omega
          cases hq : cx.policy with
          | none => simp [availableAppBox, h3, hnone, hq]; rw [if_pos hs']
          | some p =>
            have hm : ¬ k ∈ p.boxes := fun hm => hp ⟨p, hq, hm⟩
            simp [availableAppBox, h3, hnone, hq, hm]; rw [if_pos hs']

end AlgoVerif.Lemmas.Resources
