/-
Helper lemmas for C29 (group loop characterisation, list injectivity, the `fit` copy).
-/
import AlgoVerif.Model.Commitments
namespace Lemmas.Commitments
open Model.Commitments

/-- `H` has no collision between two inputs that both satisfy `S` ("the inputs that occur") -/
def CollisionFreeOn (H : Bytes → Bytes) (S : Bytes → Prop) : Prop :=
  ∀ x y, S x → S y → H x = H y → x = y

variable {β : Type}

theorem tx_eta (t : Tx β) : (⟨t.group, t.body⟩ : Tx β) = t := by cases t; rfl

theorem zeroGroup_group (t : Tx β) : t.zeroGroup.group = zeroDigest := rfl
theorem zeroGroup_body (t : Tx β) : t.zeroGroup.body = t.body := rfl

/-- two transactions with the same Group field and the same zeroed form are equal -/
theorem eq_of_zeroGroup_eq (t u : Tx β) (hg : t.group = u.group) (hz : t.zeroGroup = u.zeroGroup) : t = u := by
  cases t with | mk g b => cases u with | mk g' b' =>
  simp only [Tx.zeroGroup, Tx.mk.injEq, true_and] at hz
  simp only at hg
  subst hg; subst hz; rfl

/-- the loop with every per-transaction step succeeding, group value non-zero -/
theorem groupLoop_nz (e : GEnv β) (g0 : Bytes) (n : Nat) (h0 : g0 ≠ zeroDigest) :
    ∀ (rest : List (Tx β)) (gi : Nat) (acc ids : List Bytes),
      groupLoop e (fun _ _ => true) g0 n gi rest acc = .ok ids ↔
        (∀ t ∈ rest, t.group = g0) ∧ ids = acc ++ rest.map (txid0 e)
  | [], gi, acc, ids => by
    simp only [groupLoop, Except.ok.injEq, List.not_mem_nil, false_imp_iff, implies_true, true_and, List.map_nil,
      List.append_nil]
    exact eq_comm
  | t :: rest, gi, acc, ids => by
    simp only [groupLoop, Bool.true_eq_false, if_false]
    by_cases hg : t.group = g0
    · have hnz : t.group ≠ zeroDigest := by rw [hg]; exact h0
      simp only [hg, ne_eq, not_true_eq_false, if_false, h0, not_false_eq_true, if_true]
      rw [groupLoop_nz e g0 n h0 rest (gi + 1) (acc ++ [txid0 e t]) ids]
      simp only [List.mem_cons, forall_eq_or_imp, hg, true_and, List.map_cons, List.append_assoc, List.singleton_append]
    · simp only [ne_eq, hg, not_false_eq_true, if_true, List.mem_cons, forall_eq_or_imp, false_and, iff_false]
      intro h; cases h

/-- … group value zero: accepted only when no id is collected and the group has at most one member -/
theorem groupLoop_z (e : GEnv β) (n : Nat) :
    ∀ (rest : List (Tx β)) (gi : Nat) (acc ids : List Bytes),
      groupLoop e (fun _ _ => true) zeroDigest n gi rest acc = .ok ids ↔
        (∀ t ∈ rest, t.group = zeroDigest) ∧ (rest = [] ∨ n ≤ 1) ∧ ids = acc
  | [], gi, acc, ids => by
    simp only [groupLoop, Except.ok.injEq, List.not_mem_nil, false_imp_iff, implies_true, true_or, true_and]
    exact eq_comm
  | t :: rest, gi, acc, ids => by
    simp only [groupLoop, Bool.true_eq_false, if_false]
    by_cases hg : t.group = zeroDigest
    · simp only [hg, ne_eq, not_true_eq_false, if_false]
      by_cases hn : 1 < n
      · simp only [hn, if_true, List.mem_cons, forall_eq_or_imp, reduceCtorEq, false_iff, not_and]
        intro _ h
        rcases h with h | h
        · exact h.elim
        · omega
      · simp only [hn, if_false]
        rw [groupLoop_z e n rest (gi + 1) acc ids]
        simp only [List.mem_cons, forall_eq_or_imp, hg, true_and, reduceCtorEq, false_or]
        constructor
        · rintro ⟨h1, _, h3⟩; exact ⟨h1, by omega, h3⟩
        · rintro ⟨h1, _, h3⟩; exact ⟨h1, Or.inr (by omega), h3⟩
    · simp only [ne_eq, hg, not_false_eq_true, if_true, List.mem_cons, forall_eq_or_imp, false_and, iff_false]
      intro h; cases h

/-- equal images under `f`, `f` injective across the two lists ⇒ equal lists -/
theorem map_eq_inj {α γ : Type} (f : α → γ) :
    ∀ (l l' : List α), l.map f = l'.map f → (∀ a ∈ l, ∀ b ∈ l', f a = f b → a = b) → l = l'
  | [], [], _, _ => rfl
  | [], _ :: _, h, _ => by simp at h
  | _ :: _, [], h, _ => by simp at h
  | a :: l, b :: l', h, hinj => by
    simp only [List.map_cons, List.cons.injEq] at h
    have hab : a = b := hinj a (by simp) b (by simp) h.1
    have := map_eq_inj f l l' h.2 (fun x hx y hy => hinj x (by simp [hx]) y (by simp [hy]))
    rw [hab, this]

theorem fit_of_length (n : Nat) (b : Bytes) (h : b.length = n) : fit n b = b := by
  simp only [fit]
  rw [List.take_append_of_le_length (by omega), ← h, List.take_length]

theorem fit_nil (n : Nat) : fit n [] = Model.MerkleArray.zeros n := by
  simp [fit, Model.MerkleArray.zeros]

end Lemmas.Commitments
