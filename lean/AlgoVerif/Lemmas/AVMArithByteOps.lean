/-
C32 helper lemmas, part 2: the Go-shaped byte-string loops (`btoiLoop`, `bitLenBytes`, `bytesLess`
after `nonzero`, `zpad` + bytewise logic, bytewise complement) compute the arithmetic meaning.
-/
import AlgoVerif.Lemmas.AVMArithBytes
namespace Lemmas.AVMArith
open Spec.AVMArith Model.AVMArith AlgoVerif.U64

theorem pow256_eq (k : Nat) : 256 ^ k = 2 ^ (8 * k) := by
  rw [Nat.pow_mul]

/-! ### btoi -/
theorem btoi_fold (bs : Bytes) (acc i : Nat) (hacc : acc < 256 ^ i) (hlen : i + bs.length ≤ 8) :
    bs.foldl (fun value b => (ushl 64 value 8) ||| (b.toNat &&& 0x0ff)) acc
      = acc * 256 ^ bs.length + beVal bs := by
  induction bs generalizing acc i with
  | nil => simp [beVal]
  | cons b bs ih =>
    simp only [List.length_cons] at hlen
    simp only [List.foldl_cons]
    have hb := byte_lt b
    have hi : 256 ^ i ≤ 256 ^ 7 := Nat.pow_le_pow_right (by decide) (by omega)
    have h7 : (256:Nat) ^ 7 = 72057594037927936 := by decide
    have hstep : (ushl 64 acc 8 ||| (b.toNat &&& 0x0ff)) = acc * 256 + b.toNat := by
      unfold ushl
      have e1 : (0x0ff : Nat) = 2 ^ 8 - 1 := by decide
      rw [e1, Nat.and_two_pow_sub_one_eq_mod, Nat.shiftLeft_eq]
      have e2 : (2:Nat) ^ 8 = 256 := by decide
      have e3 : (2:Nat) ^ 64 = 18446744073709551616 := by decide
      rw [e3, Nat.mod_eq_of_lt (by omega : acc * 2 ^ 8 < 18446744073709551616),
        Nat.mod_eq_of_lt (by omega : b.toNat < 2 ^ 8), Nat.mul_comm acc,
        ← Nat.two_pow_add_eq_or_of_lt (by omega : b.toNat < 2 ^ 8), e2]
      omega
    rw [hstep, ih (acc * 256 + b.toNat) (i + 1) (by rw [Nat.pow_succ]; omega) (by omega)]
    simp only [beVal, List.length_cons, Nat.pow_succ]
    ring

theorem btoiLoop_eq_beVal (bs : Bytes) (h : bs.length ≤ 8) : btoiLoop bs = beVal bs := by
  unfold btoiLoop
  rw [btoi_fold bs 0 0 (by decide) (by omega)]; simp

/-! ### bit length -/
theorem bitlen_spec (n : Nat) : n < 2 ^ bitlen n ∧ (bitlen n = 0 ∨ 2 ^ (bitlen n - 1) ≤ n) := by
  unfold bitlen
  by_cases h : n = 0
  · subst h; simp
  · simp only [h, if_false]
    exact ⟨Nat.lt_log2_self, Or.inr (by simpa using Nat.log2_self_le h)⟩

theorem bitlen_unique (n k : Nat) (h1 : n < 2 ^ k) (h2 : k = 0 ∨ 2 ^ (k - 1) ≤ n) : bitlen n = k := by
  unfold bitlen
  by_cases h : n = 0
  · subst h
    simp only [if_true]
    rcases h2 with h2 | h2
    · exact h2.symm
    · have := Nat.pow_pos (n := k - 1) (by decide : 0 < 2); omega
  · simp only [h, if_false]
    rcases h2 with h2 | h2
    · subst h2; simp at h1; omega
    · have a1 : n.log2 < k := (Nat.log2_lt h).mpr h1
      have a2 : k - 1 ≤ n.log2 := (Nat.le_log2 h).mpr h2
      omega

theorem bitlen_zero_iff (n : Nat) : bitlen n = 0 ↔ n = 0 := by
  unfold bitlen; by_cases h : n = 0 <;> simp [h]

/-- the loop of `opBitLen` on a byte string = number of significant bits of its value -/
theorem bitLenBytes_eq (bs : Bytes) : bitLenBytes bs = bitlen (beVal bs) := by
  induction bs with
  | nil => simp [bitLenBytes, beVal, bitlen]
  | cons b rest ih =>
    by_cases hb : b ≠ 0
    · simp only [bitLenBytes, hb, if_true, beVal, ne_eq, not_false_eq_true]
      symm
      have hb1 : b.toNat ≠ 0 := (byte_ne_zero b).mp hb
      have hv := beVal_lt rest
      unfold len8 len64
      simp only [hb1, if_false]
      rw [pow256_eq] at *
      apply bitlen_unique
      · -- upper bound
        have : b.toNat < 2 ^ (b.toNat.log2 + 1) := Nat.lt_log2_self
        have h3 : (b.toNat + 1) * 2 ^ (8 * rest.length) ≤ 2 ^ (b.toNat.log2 + 1) * 2 ^ (8 * rest.length) :=
          Nat.mul_le_mul_right _ this
        rw [← Nat.pow_add, Nat.add_mul] at h3
        omega
      · right
        have : 2 ^ b.toNat.log2 ≤ b.toNat := Nat.log2_self_le hb1
        have h3 : 2 ^ b.toNat.log2 * 2 ^ (8 * rest.length) ≤ b.toNat * 2 ^ (8 * rest.length) :=
          Nat.mul_le_mul_right _ this
        rw [← Nat.pow_add] at h3
        have e : b.toNat.log2 + 1 + 8 * rest.length - 1 = b.toNat.log2 + 8 * rest.length := by omega
        rw [e]; omega
    · have hb0 : b = 0 := by simpa using hb
      subst hb0
      simp [bitLenBytes, beVal, ih]

/-! ### numeric comparison of canonical strings -/
theorem bytesLess_eq (as bs : Bytes) (hl : as.length = bs.length) :
    bytesLess as bs = decide (beVal as < beVal bs) := by
  induction as generalizing bs with
  | nil => cases bs with
    | nil => simp [bytesLess, beVal]
    | cons _ _ => simp at hl
  | cons a as ih =>
    cases bs with
    | nil => simp at hl
    | cons b bs =>
      simp only [List.length_cons, Nat.add_right_cancel_iff] at hl
      have h1 := beVal_lt as
      have h2 := beVal_lt bs
      simp only [bytesLess, beVal, hl, UInt8.lt_iff_toNat_lt]
      rw [hl] at h1
      generalize 256 ^ bs.length = P at *
      by_cases hlt : a.toNat < b.toNat
      · have : (a.toNat + 1) * P ≤ b.toNat * P := Nat.mul_le_mul_right P hlt
        rw [Nat.add_mul] at this
        have : a.toNat * P + beVal as < b.toNat * P + beVal bs := by omega
        simp [hlt, this]
      · by_cases hgt : b.toNat < a.toNat
        · have : (b.toNat + 1) * P ≤ a.toNat * P := Nat.mul_le_mul_right P hgt
          rw [Nat.add_mul] at this
          have : ¬ a.toNat * P + beVal as < b.toNat * P + beVal bs := by omega
          simp [hlt, hgt, this]
        · have hab : a.toNat = b.toNat := by omega
          rw [if_neg hlt, if_neg hgt, ih bs hl, hab]
          by_cases hv : beVal as < beVal bs
          · have : b.toNat * P + beVal as < b.toNat * P + beVal bs := by omega
            simp [hv, this]
          · have : ¬ b.toNat * P + beVal as < b.toNat * P + beVal bs := by omega
            simp [hv, this]

theorem canonical_shorter_lt (as bs : Bytes) (hb : bs = [] ∨ ∃ b rest, bs = b :: rest ∧ b ≠ 0)
    (hl : as.length < bs.length) : beVal as < beVal bs := by
  rcases hb with hb | ⟨b, rest, hb, hb0⟩
  · subst hb; simp at hl
  · subst hb
    have h1 := beVal_ge_of_head b rest hb0
    have h2 := beVal_lt as
    simp only [List.length_cons] at hl
    have : 256 ^ as.length ≤ 256 ^ rest.length := Nat.pow_le_pow_right (by decide) (by omega)
    omega

/-- the three-way case split of `opBytesLt` on the stripped operands decides `<` on the values -/
theorem stripped_less (a b : Bytes) :
    (if (nonzero a).length < (nonzero b).length then true
     else if (nonzero a).length > (nonzero b).length then false
     else bytesLess (nonzero a) (nonzero b)) = decide (beVal a < beVal b) := by
  rw [← beVal_nonzero a, ← beVal_nonzero b]
  by_cases h1 : (nonzero a).length < (nonzero b).length
  · have := canonical_shorter_lt _ _ (nonzero_head b) h1
    simp [h1, this]
  · by_cases h2 : (nonzero a).length > (nonzero b).length
    · have := canonical_shorter_lt _ _ (nonzero_head a) h2
      have h3 : ¬ beVal (nonzero a) < beVal (nonzero b) := by omega
      simp [h1, h2, h3]
    · simp only [h1, h2, if_false]
      exact bytesLess_eq _ _ (by omega)

theorem nonzero_eq_iff (a b : Bytes) : nonzero a = nonzero b ↔ beVal a = beVal b := by
  constructor
  · intro h; rw [← beVal_nonzero a, ← beVal_nonzero b, h]
  · intro h
    apply canonical_inj _ _ (nonzero_head a) (nonzero_head b)
    rw [beVal_nonzero, beVal_nonzero, h]

/-! ### zero padding and bytewise logic -/
theorem zpad_length (s : Bytes) (n : Nat) (h : s.length ≤ n) : (zpad s n).length = n := by
  unfold zpad; simp; omega

theorem beVal_zpad (s : Bytes) (n : Nat) : beVal (zpad s n) = beVal s := by
  unfold zpad; rw [beVal_append, beVal_replicate_zero]; simp

theorem split_testBit (i a v j : Nat) (hv : v < 2 ^ i) :
    (a * 2 ^ i + v).testBit j = if j < i then v.testBit j else a.testBit (j - i) := by
  rw [Nat.mul_comm]; exact Nat.testBit_two_pow_mul_add a hv j

theorem or_split (i a a' v v' : Nat) (hv : v < 2 ^ i) (hv' : v' < 2 ^ i) :
    (a ||| a') * 2 ^ i + (v ||| v') = (a * 2 ^ i + v) ||| (a' * 2 ^ i + v') := by
  apply Nat.eq_of_testBit_eq; intro j
  rw [Nat.testBit_or, split_testBit _ _ _ _ hv, split_testBit _ _ _ _ hv',
    split_testBit _ _ _ _ (Nat.or_lt_two_pow hv hv')]
  split <;> simp [Nat.testBit_or]

theorem and_split (i a a' v v' : Nat) (hv : v < 2 ^ i) (hv' : v' < 2 ^ i) :
    (a &&& a') * 2 ^ i + (v &&& v') = (a * 2 ^ i + v) &&& (a' * 2 ^ i + v') := by
  apply Nat.eq_of_testBit_eq; intro j
  rw [Nat.testBit_and, split_testBit _ _ _ _ hv, split_testBit _ _ _ _ hv',
    split_testBit _ _ _ _ (Nat.and_lt_two_pow v hv')]
  split <;> simp [Nat.testBit_and]

theorem xor_split (i a a' v v' : Nat) (hv : v < 2 ^ i) (hv' : v' < 2 ^ i) :
    (a ^^^ a') * 2 ^ i + (v ^^^ v') = (a * 2 ^ i + v) ^^^ (a' * 2 ^ i + v') := by
  apply Nat.eq_of_testBit_eq; intro j
  rw [Nat.testBit_xor, split_testBit _ _ _ _ hv, split_testBit _ _ _ _ hv',
    split_testBit _ _ _ _ (Nat.xor_lt_two_pow hv hv')]
  split <;> simp [Nat.testBit_xor]

theorem beVal_zipWith_or (as bs : Bytes) (hl : as.length = bs.length) :
    beVal (List.zipWith (fun x y => x ||| y) as bs) = beVal as ||| beVal bs := by
  induction as generalizing bs with
  | nil => cases bs with
    | nil => simp [beVal]
    | cons _ _ => simp at hl
  | cons a as ih =>
    cases bs with
    | nil => simp at hl
    | cons b bs =>
      simp only [List.length_cons, Nat.add_right_cancel_iff] at hl
      have h1 := beVal_lt as
      have h2 := beVal_lt bs
      simp only [List.zipWith_cons_cons, beVal, List.length_zipWith, hl, Nat.min_self, ih bs hl, UInt8.toNat_or]
      rw [hl] at h1
      rw [pow256_eq] at *
      exact or_split _ _ _ _ _ h1 h2

theorem beVal_zipWith_and (as bs : Bytes) (hl : as.length = bs.length) :
    beVal (List.zipWith (fun x y => x &&& y) as bs) = beVal as &&& beVal bs := by
  induction as generalizing bs with
  | nil => cases bs with
    | nil => simp [beVal]
    | cons _ _ => simp at hl
  | cons a as ih =>
    cases bs with
    | nil => simp at hl
    | cons b bs =>
      simp only [List.length_cons, Nat.add_right_cancel_iff] at hl
      have h1 := beVal_lt as
      have h2 := beVal_lt bs
      simp only [List.zipWith_cons_cons, beVal, List.length_zipWith, hl, Nat.min_self, ih bs hl, UInt8.toNat_and]
      rw [hl] at h1
      rw [pow256_eq] at *
      exact and_split _ _ _ _ _ h1 h2

theorem beVal_zipWith_xor (as bs : Bytes) (hl : as.length = bs.length) :
    beVal (List.zipWith (fun x y => x ^^^ y) as bs) = beVal as ^^^ beVal bs := by
  induction as generalizing bs with
  | nil => cases bs with
    | nil => simp [beVal]
    | cons _ _ => simp at hl
  | cons a as ih =>
    cases bs with
    | nil => simp at hl
    | cons b bs =>
      simp only [List.length_cons, Nat.add_right_cancel_iff] at hl
      have h1 := beVal_lt as
      have h2 := beVal_lt bs
      simp only [List.zipWith_cons_cons, beVal, List.length_zipWith, hl, Nat.min_self, ih bs hl, UInt8.toNat_xor]
      rw [hl] at h1
      rw [pow256_eq] at *
      exact xor_split _ _ _ _ _ h1 h2

/-- a string is the fixed-width encoding of its own value -/
theorem eq_beFixed_of_val (xs : Bytes) (n v : Nat) (hl : xs.length = n) (hv : beVal xs = v) :
    xs = beFixed n v := by
  rw [← hl, ← hv, beFixed_beVal]

/-! ### bytewise complement -/
theorem beVal_map_not (bs : Bytes) :
    beVal (bs.map (fun b => ~~~b)) = 256 ^ bs.length - 1 - beVal bs := by
  induction bs with
  | nil => simp [beVal]
  | cons b bs ih =>
    simp only [List.map_cons, beVal, List.length_map, ih, UInt8.toNat_not, List.length_cons, Nat.pow_succ]
    have hb := byte_lt b
    have hv := beVal_lt bs
    have hs : UInt8.size = 256 := rfl
    rw [hs]
    have e : (256 - 1 - b.toNat) * 256 ^ bs.length = 255 * 256 ^ bs.length - b.toNat * 256 ^ bs.length := by
      rw [← Nat.sub_mul]
    have hle : b.toNat * 256 ^ bs.length ≤ 255 * 256 ^ bs.length := Nat.mul_le_mul_right _ (by omega)
    rw [e]
    generalize 256 ^ bs.length = P at *
    generalize b.toNat * P = bp at *
    omega

end Lemmas.AVMArith
