import AlgoVerif.Lemmas.VpackInvRaw
import AlgoVerif.Lemmas.VpackDecompressS
/-! `CompressVote` succeeds ONLY on the canonical msgpack layout of a well-formed vote; hence it rejects every
input it cannot round-trip. -/
set_option linter.unusedSimpArgs false
namespace AlgoVerif.Lemmas.Vpack
open AlgoVerif.Model.Vpack AlgoVerif.Spec.Vpack

theorem rawMap_inv {p p' : PS} (h : rawMap p = .ok p') :
    ∃ c r per d e o q rnd snd step, p.rem = UInt8.ofNat (0x80 + c) :: r ∧
      RawTail per d e o q rnd snd step c { rem := r, out := p.out, mask := p.mask, req := p.req } p' := by
  unfold rawMap at h
  split at h
  · cases h
  · rename_i c q0 hfm
    obtain ⟨r, _, hrem, hq0⟩ := readFixMap_inv hfm
    subst hq0
    split at h
    · cases h
    · obtain ⟨per, d, e, o, q, rnd, snd, step, t⟩ := rawStage0 _ _ _ h
      exact ⟨c, r, per, d, e, o, q, rnd, snd, step, hrem, t⟩

theorem cnt_le_one {α : Type} (o : Option α) : cnt o ≤ 1 := by cases o <;> simp [cnt]

theorem cnt_one {α : Type} (o : Option α) (h : cnt o = 1) : ∃ v, o = some v := by
  cases o with
  | none => simp [cnt] at h
  | some v => exact ⟨v, rfl⟩

set_option maxRecDepth 8000 in
/-- a successful parse with all 8 required fields read ⇒ the input is the canonical layout of a well-formed vote -/
theorem parse_inv (b : Bytes) (pz : PS)
    (h : parseMsgpVote { rem := b, out := [], mask := 0, req := 0 } = .ok pz) (hreq : pz.req = 8) :
    ∃ m : MVote, m.WF ∧ b = msgpack m := by
  unfold parseMsgpVote at h
  obtain ⟨p1, e0, h⟩ := runAll_cons_inv h
  obtain ⟨r0, g0, hp⟩ := expectMap_inv e0; subst hp
  obtain ⟨p2, e1, h⟩ := runAll_cons_inv h
  obtain ⟨r1, g1, hp⟩ := expectKey_inv e1; subst hp
  obtain ⟨p3, e2, h⟩ := runAll_cons_inv h
  obtain ⟨r2, g2, hp⟩ := expectMap_inv e2; subst hp
  obtain ⟨p4, e3, h⟩ := runAll_cons_inv h
  obtain ⟨r3, g3, hp⟩ := expectKey_inv e3; subst hp
  obtain ⟨p5, e4, h⟩ := runAll_cons_inv h
  obtain ⟨v_pf, r4, l_pf, g4, hp⟩ := binReq_inv e4; subst hp
  obtain ⟨p6, e5, h⟩ := runAll_cons_inv h
  obtain ⟨r5, g5, hp⟩ := expectKey_inv e5; subst hp
  obtain ⟨p7, e6, h⟩ := runAll_cons_inv h
  obtain ⟨c, r6, per, d, e, o, q, rnd, snd, step, g6, ⟨w, tn, trem, tout, tmask, treq⟩⟩ := rawMap_inv e6
  obtain ⟨p8, e7, h⟩ := runAll_cons_inv h
  obtain ⟨r7, g7, hp⟩ := expectKey_inv e7; subst hp
  obtain ⟨p9, e8, h⟩ := runAll_cons_inv h
  obtain ⟨r8, g8, hp⟩ := expectMap_inv e8; subst hp
  obtain ⟨p10, e9, h⟩ := runAll_cons_inv h
  obtain ⟨r9, g9, hp⟩ := expectKey_inv e9; subst hp
  obtain ⟨p11, e10, h⟩ := runAll_cons_inv h
  obtain ⟨v_p, r10, l_p, g10, hp⟩ := binReq_inv e10; subst hp
  obtain ⟨p12, e11, h⟩ := runAll_cons_inv h
  obtain ⟨r11, g11, hp⟩ := expectKey_inv e11; subst hp
  obtain ⟨p13, e12, h⟩ := runAll_cons_inv h
  obtain ⟨v_p1s, r12, l_p1s, g12, hp⟩ := binReq_inv e12; subst hp
  obtain ⟨p14, e13, h⟩ := runAll_cons_inv h
  obtain ⟨r13, g13, hp⟩ := expectKey_inv e13; subst hp
  obtain ⟨p15, e14, h⟩ := runAll_cons_inv h
  obtain ⟨v_p2, r14, l_p2, g14, hp⟩ := binReq_inv e14; subst hp
  obtain ⟨p16, e15, h⟩ := runAll_cons_inv h
  obtain ⟨r15, g15, hp⟩ := expectKey_inv e15; subst hp
  obtain ⟨p17, e16, h⟩ := runAll_cons_inv h
  obtain ⟨v_p2s, r16, l_p2s, g16, hp⟩ := binReq_inv e16; subst hp
  obtain ⟨p18, e17, h⟩ := runAll_cons_inv h
  obtain ⟨r17, g17, hp⟩ := expectKey_inv e17; subst hp
  obtain ⟨p19, e18, h⟩ := runAll_cons_inv h
  obtain ⟨r18, g18, hp⟩ := psZero_inv e18; subst hp
  obtain ⟨p20, e19, h⟩ := runAll_cons_inv h
  obtain ⟨r19, g19, hp⟩ := expectKey_inv e19; subst hp
  obtain ⟨p21, e20, h⟩ := runAll_cons_inv h
  obtain ⟨v_s, r20, l_s, g20, hp⟩ := binReq_inv e20; subst hp
  obtain ⟨p22, e21, h⟩ := runAll_cons_inv h
  obtain ⟨g21, hp⟩ := checkTrailing_inv e21; subst hp
  rw [runAll] at h
  cases h
  simp only at g0 g1 g2 g3 g4 g5 g6 g7 g8 g9 g10 g11 g12 g13 g14 g15 g16 g17 g18 g19 g20 g21 trem tout tmask treq hreq
  -- both `rnd` and `snd` were read: 6 + cnt rnd + cnt snd = 8
  have c1 := cnt_le_one rnd
  have c2 := cnt_le_one snd
  obtain ⟨xr, rfl⟩ := cnt_one rnd (by omega)
  obtain ⟨vs, rfl⟩ := cnt_one snd (by omega)
  obtain ⟨w1, w2, w3, w4, w5, w6, w7, w8⟩ := w
  refine ⟨{ pf := v_pf, per := per, dig := d, encdig := e, oper := o, oprop := q, rnd := xr, snd := vs, step := step,
            p := v_p, p1s := v_p1s, p2 := v_p2, p2s := v_p2s, s := v_s },
          { pf := l_pf, per := w1, dig := w2, encdig := w3, oper := w4, oprop := w5, rnd := w6 xr rfl, snd := w7 vs rfl,
            step := w8, p := l_p, p1s := l_p1s, p2 := l_p2, p2s := l_p2s, s := l_s }, ?_⟩
  have hc : c = 2 + cnt per + cnt step + (if cnt d + cnt e + cnt o + cnt q = 0 then 0 else 1) := by
    simp only [propN, cnt_some] at tn
    split at tn <;> (rename_i hh; simp only [hh, if_true, if_false]; omega)
  simp only [msgpack, MVote.sigPart, MVote.rawCount, MVote.propCount, MVote.propItem, bin, uintField, optUint_some, optBin_some]
  rw [g0, g1, g2, g3, g4, g5, g6, trem, g7, g8, g9, g10, g11, g12, g13, g14, g15, g16, g17, g18, g19, g20, g21, hc]
  simp only [propItemOf, optUint_some, optBin_some, bin, uintField, List.append_assoc, List.cons_append, List.nil_append,
    List.append_nil]
  rfl

/-- `CompressVote` rejects every input it cannot round-trip -/
theorem stateless_injective (b sl : Bytes) (h : statelessCompress b = .ok sl) : statelessDecompress sl = .ok b := by
  have h0 := h
  unfold statelessCompress at h
  split at h
  · cases h
  · rename_i pz hp
    split at h
    · cases h
    · split at h
      · cases h
      · rename_i hreq
        have hreq' : pz.req = 8 := Classical.byContradiction (fun hh => hreq hh)
        obtain ⟨m, hw, hb⟩ := parse_inv b pz hp hreq'
        subst hb
        have hc := compress_canonical m hw
        rw [hc] at h0
        cases h0
        exact decompress_canonical m hw

end AlgoVerif.Lemmas.Vpack
