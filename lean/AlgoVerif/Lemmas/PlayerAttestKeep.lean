import AlgoVerif.Lemmas.PlayerAttestFrame
/-!
The staged value stays relevant, and its assembler survives every `proposalStore.trim` — the invariant whose failure was
the defect fixed by repo commit b6f661fbce (`store.Relevant[te.Period]` is now set before the `Assembled` test).

Two instances of `Frame`:

* `NRoot R Pd` (a state invariant of the whole tree, for a player in round `R`, period `Pd`):
  no assembler is stored under bottom; a period router whose Staging was set by a threshold has Staging ≠ bottom, lives in a
  round ≤ `R`, and — in round `R`, for periods ≥ `Pd` — `Relevant[period] = Staging`.
  Not ordinary: `stage` (establishes `Relevant[period] = Staging` — only with the fixed handler) and `newPeriod` (deletes
  `Relevant[q]` for `q + 1 < target`, whence the period index moves to `max Pd target`).
* `DRoot R p v` (relational, for a fixed committable value `v ≠ bottom` of the player's own (R, p)): the period router of
  (R, p) has Staging = `v` set by a threshold, `Relevant[p] = v`, and the store holds the payload of `v`.
  Not ordinary: a threshold of (R, p) for another value (then Staging changes: excluded by `StagedStable`).
-/
namespace AlgoVerif.Lemmas.PlayerAttest
open AlgoVerif.Model AlgoVerif.Model.Player AlgoVerif.Model.VoteTracker AlgoVerif.Lemmas.Player

variable {P : Params}

/-! ### association-list and router facts -/

theorem upd_aget_cases {pl : PlayerF} {rr : RoundR} {q q' : Nat} {pr : PeriodR}
    (h : aget (rr.upd pl q).periods q' = some pr) : aget rr.periods q' = some pr ∨ pr = {} := by
  unfold RoundR.upd at h
  cases hq : aget rr.periods q with
  | some x =>
    rw [hq] at h
    simp only [] at h
    by_cases hqq : q' = q
    · subst hqq
      rw [aget_aset_self] at h
      simp only [Option.some.injEq] at h
      subst h
      exact Or.inl hq
    · rw [aget_aset_ne _ _ _ _ hqq, aget_filter_key rr.periods (keepPeriod pl) q'] at h
      split at h
      · exact Or.inl h
      · cases h
  | none =>
    rw [hq] at h
    simp only [] at h
    by_cases hqq : q' = q
    · subst hqq
      rw [aget_aset_self] at h
      simp only [Option.some.injEq] at h
      exact Or.inr h.symm
    · rw [aget_aset_ne _ _ _ _ hqq, aget_filter_key (rr.periods ++ [(q, ({} : PeriodR))]) (keepPeriod pl) q'] at h
      split at h
      · rw [aget_append] at h
        cases hl : aget rr.periods q' with
        | some y => rw [hl] at h; exact Or.inl h
        | none =>
          rw [hl] at h
          have hn : aget [(q, ({} : PeriodR))] q' = none := by
            have hb : (q' == q) = false := by simpa using hqq
            simp [aget, List.lookup, hb]
          rw [hn] at h; cases h
      · cases h

theorem Root.upd_aget_keep {pl : PlayerF} {root : Root} {r r' : Nat} {rr : RoundR} (h : aget root.rounds r = some rr)
    (hk : keepRound P pl r = true) : aget (root.upd P pl r').rounds r = some rr := by
  unfold Root.upd
  simp only []
  rw [aget_filter_key _ (keepRound P pl) r, hk]
  simp only [if_true]
  split
  · exact h
  · rw [aget_append, h]; rfl

theorem atRound_out' {α : Type} {pl : PlayerF} {r p : Nat} {root root' : Root} {a : α}
    {f : RoundR → Except Panic (RoundR × α)} (h : root.atRound P pl r p f = .ok (root', a)) :
    ∃ rr₀ rr', aget (root.upd P pl r).rounds r = some rr₀ ∧ f (rr₀.upd pl p) = .ok (rr', a) ∧
      root'.rounds = aset (root.upd P pl r).rounds r rr' := by
  unfold Root.atRound at h
  simp only [] at h
  split at h
  · cases h
  rename_i rr hrr
  split at h
  · cases h
  rename_i rr' a' hfa
  simp only [Except.ok.injEq, Prod.mk.injEq] at h
  obtain ⟨rfl, rfl⟩ := h
  exact ⟨rr, rr', hrr, hfa, rfl⟩

theorem asm_aset_ne (st : Store) (k v : Nat) (ea : Assembler) (h : v ≠ k) :
    ({ st with assemblers := aset st.assemblers k ea } : Store).asm v = st.asm v := by
  unfold Store.asm
  simp only [aget_aset_ne _ _ _ _ h]

/-! ### `proposalStore.trim` -/

theorem trim_fold_get (st : Store) (period : Nat) (k : Nat) : ∀ (keys : List Nat) (acc : List (Nat × Assembler)),
    (k ∈ keys ∨ aget acc k = some ((st.asm k).trim period)) →
    aget (keys.foldl (fun acc k => aset acc k ((st.asm k).trim period)) acc) k = some ((st.asm k).trim period) := by
  intro keys
  induction keys with
  | nil =>
    intro acc h
    rcases h with h | h
    · cases h
    · exact h
  | cons k0 rest ih =>
    intro acc h
    simp only [List.foldl]
    apply ih
    by_cases hk : k = k0
    · subst hk; exact Or.inr (aget_aset_self _ _ _)
    · rcases h with h | h
      · rcases List.mem_cons.mp h with h | h
        · exact absurd h hk
        · exact Or.inl h
      · exact Or.inr (by rw [aget_aset_ne _ _ _ _ hk]; exact h)

theorem trim_asm_keep {st : Store} {period q v : Nat} (hrel : aget st.relevant q = some v) (hv : v ≠ 0) :
    ((st.trim period).asm v).payload = (st.asm v).payload := by
  have hmem : v ∈ st.pinned :: st.relevant.map Prod.snd :=
    List.mem_cons_of_mem _ (List.mem_map.mpr ⟨(q, v), aget_mem hrel, rfl⟩)
  have hget := trim_fold_get st period v _ [] (Or.inl hmem)
  have : (v != 0) = true := by simpa using hv
  have h1 : aget (st.trim period).assemblers v = some ((st.asm v).trim period) := by
    unfold Store.trim
    simp only [adel]
    rw [aget_filter_key _ (fun k => k != 0) v, this, if_pos rfl]
    exact hget
  show ((aget (st.trim period).assemblers v).getD {}).payload = _
  rw [h1]; rfl

theorem trim_nozero (st : Store) (period : Nat) : ∀ kv ∈ (st.trim period).assemblers, kv.1 ≠ 0 := by
  intro kv hkv
  unfold Store.trim at hkv
  simp only [adel, List.mem_filter] at hkv
  simpa using hkv.2

theorem pvoteVerified_accepted_staging {pr pr' : PeriodR} {v : PVote} {val : Nat} {x : Option Payload}
    (h : pr.pvoteVerified v = .ok (pr', .accepted val x)) : pr'.ptracker.staging = 0 := by
  unfold PeriodR.pvoteVerified at h
  simp only [] at h
  split at h
  · cases h
  simp only [Except.ok.injEq, Prod.mk.injEq] at h
  obtain ⟨rfl, h2⟩ := h
  unfold PTracker.voteVerified at h2 ⊢
  simp only [] at h2 ⊢
  split at h2
  · cases h2
  split at h2
  · cases h2
  rename_i hst
  split at h2
  · cases h2
  rename_i hdup _
  simp only [hdup, if_false] at *
  simp only [ne_eq, Decidable.not_not] at hst
  rw [if_neg (by simpa using hst)]
  split
  · rename_i hc; simp_all
  · exact hst

/-! ## the state invariant `NRoot` -/

/-- what a period router `pr` of period `q` in a round `r` whose store is `st` must satisfy once a threshold set its Staging -/
def SetOK (R Pd r : Nat) (st : Store) (q : Nat) (pr : PeriodR) : Prop :=
  (pview pr).set = true →
    pr.ptracker.staging ≠ 0 ∧ r ≤ R ∧ (r = R → Pd ≤ q → aget st.relevant q = some pr.ptracker.staging)

def NR (R Pd r : Nat) (rr : RoundR) : Prop :=
  (∀ kv ∈ rr.store.assemblers, kv.1 ≠ 0) ∧ ∀ q pr, aget rr.periods q = some pr → SetOK R Pd r rr.store q pr

def NRoot (R Pd : Nat) (root : Root) : Prop := ∀ kv ∈ root.rounds, NR R Pd kv.1 kv.2

theorem setOK_empty (R Pd r : Nat) (st : Store) (q : Nat) : SetOK R Pd r st q {} := by intro h; cases h

theorem setOK_ss {R Pd r : Nat} {st : Store} {q : Nat} {pr pr' : PeriodR} (hs : SS pr pr') (h : SetOK R Pd r st q pr) :
    SetOK R Pd r st q pr' := by
  intro hset
  rw [hs.2] at hset
  rw [hs.1]
  exact h hset

theorem setOK_rel {R Pd r : Nat} {st st' : Store} {q : Nat} {pr : PeriodR} (hr : aget st'.relevant q = aget st.relevant q)
    (h : SetOK R Pd r st q pr) : SetOK R Pd r st' q pr := by
  intro hset
  obtain ⟨h1, h2, h3⟩ := h hset
  exact ⟨h1, h2, fun a b => by rw [hr]; exact h3 a b⟩

theorem NR_empty (R Pd r : Nat) : NR R Pd r {} :=
  ⟨by intro kv h; exact (List.not_mem_nil h).elim, by intro q pr h; cases h⟩

theorem NR_mono {R Pd Pd' r : Nat} {rr : RoundR} (hle : Pd ≤ Pd') (h : NR R Pd r rr) : NR R Pd' r rr := by
  refine ⟨h.1, fun q pr hq hset => ?_⟩
  obtain ⟨h1, h2, h3⟩ := h.2 q pr hq hset
  exact ⟨h1, h2, fun a b => h3 a (Nat.le_trans hle b)⟩

theorem NRoot_mono {R Pd Pd' : Nat} {root : Root} (hle : Pd ≤ Pd') (h : NRoot R Pd root) : NRoot R Pd' root :=
  fun kv hkv => NR_mono hle (h kv hkv)

/-- entering a later round: its routers hold no Staging set by a threshold yet -/
theorem NRoot_round {R R' Pd Pd' : Nat} {root : Root} (hlt : R < R') (h : NRoot R Pd root) : NRoot R' Pd' root := by
  intro kv hkv
  obtain ⟨h1, h2⟩ := h kv hkv
  refine ⟨h1, fun q pr hq hset => ?_⟩
  obtain ⟨a, b, _⟩ := h2 q pr hq hset
  exact ⟨a, by omega, fun e => by omega⟩

theorem nr_rupd {R Pd r : Nat} {pl : PlayerF} {rr : RoundR} (q : Nat) (h : NR R Pd r rr) : NR R Pd r (rr.upd pl q) := by
  obtain ⟨e1, _, _⟩ := RoundR.upd_fields pl rr q
  refine ⟨by rw [e1]; exact h.1, fun q' pr hq => ?_⟩
  rw [e1]
  rcases upd_aget_cases hq with h' | h'
  · exact h.2 q' pr h'
  · subst h'; exact setOK_empty _ _ _ _ _

theorem nr_atPeriod {α : Type} {R Pd r : Nat} {pl : PlayerF} {rr rr' : RoundR} {q s : Nat}
    {f : PeriodR → Except Panic (PeriodR × α)} {a : α} (h0 : NR R Pd r rr)
    (hf : ∀ pr pr' a, f pr = .ok (pr', a) → SS pr pr') (h : rr.atPeriod pl q s f = .ok (rr', a)) : NR R Pd r rr' := by
  obtain ⟨pr₀, pr', hp0, hfa, hper, hst⟩ := atPeriod_out h
  have hu := nr_rupd (pl := pl) q h0
  obtain ⟨e1, _, _⟩ := RoundR.upd_fields pl rr q
  refine ⟨by rw [hst]; exact h0.1, fun q' pr hq => ?_⟩
  rw [hst, ← e1]
  rw [hper] at hq
  by_cases hqq : q' = q
  · subst hqq
    rw [aget_aset_self] at hq
    simp only [Option.some.injEq] at hq
    subst hq
    have hs1 : SS pr₀ (pr₀.upd s) := by
      obtain ⟨a1, a2, _⟩ := PeriodR.upd_fields pr₀ s
      exact ⟨by rw [a1], by simp only [pview, a1, a2]⟩
    exact setOK_ss (hf _ _ _ hfa) (setOK_ss hs1 (hu.2 q' pr₀ hp0))
  · rw [aget_aset_ne _ _ _ _ hqq] at hq
    exact hu.2 q' pr hq

theorem nr_readStaging {R Pd r : Nat} {pl : PlayerF} {p : Nat} {rr rr' : RoundR} {st : Staged} (h0 : NR R Pd r rr)
    (h : rr.readStaging pl p = .ok (rr', st)) : NR R Pd r rr' := by
  unfold RoundR.readStaging at h
  split at h
  · cases h
  rename_i rr₁ v hat
  simp only [Except.ok.injEq, Prod.mk.injEq] at h
  obtain ⟨rfl, _⟩ := h
  exact nr_atPeriod h0 (fun pr pr' a hf => by
    simp only [Except.ok.injEq, Prod.mk.injEq] at hf
    rw [← hf.1]; exact ss_refl _) hat

theorem nr_stagedSelf {R Pd r : Nat} {pl : PlayerF} {rr rr' : RoundR} {st : Staged} (h0 : NR R Pd r rr)
    (h : RoundR.stagedSelf pl rr = .ok (rr', st)) : NR R Pd r rr' := by
  unfold RoundR.stagedSelf at h
  exact nr_readStaging (nr_rupd _ h0) h

/-- a store change that keeps `Relevant` and puts no assembler under bottom -/
theorem nr_store {R Pd r : Nat} {rr : RoundR} {st' : Store} (h0 : NR R Pd r rr) (hz : ∀ kv ∈ st'.assemblers, kv.1 ≠ 0)
    (hr : st'.relevant = rr.store.relevant) : NR R Pd r { rr with store := st' } :=
  ⟨hz, fun q pr hq => setOK_rel (by rw [hr]) (h0.2 q pr hq)⟩

theorem nr_pvote {R Pd r : Nat} {pl : PlayerF} {rr rr' : RoundR} {v : PVote} {res : PVRes} (h0 : NR R Pd r rr)
    (h : rr.pvoteVerified pl v = .ok (rr', res)) : NR R Pd r rr' := by
  unfold RoundR.pvoteVerified at h
  split at h
  · cases h
  · rename_i rr₁ b hat
    simp only [Except.ok.injEq, Prod.mk.injEq] at h
    obtain ⟨rfl, _⟩ := h
    exact nr_atPeriod h0 (fun pr pr' a hf => ss_of_pview (pvoteVerified_pview hf)) hat
  · rename_i rr₁ val pay hat
    simp only [Except.ok.injEq, Prod.mk.injEq] at h
    obtain ⟨rfl, _⟩ := h
    have h1 := nr_atPeriod h0 (fun pr pr' a hf => ss_of_pview (pvoteVerified_pview hf)) hat
    obtain ⟨pr₀, pr', _, hfa, hper, _⟩ := atPeriod_out hat
    have hz := pvoteVerified_accepted_staging hfa
    refine ⟨trim_nozero _ _, fun q pr hq => ?_⟩
    by_cases hqq : q = v.period
    · subst hqq
      have : pr = pr' := by
        have hq' : aget rr₁.periods v.period = some pr := hq
        rw [hper, aget_aset_self] at hq'
        exact (Option.some.inj hq').symm
      subst this
      intro hset
      exact absurd hz (h1.2 v.period pr hq hset).1
    · refine setOK_rel ?_ (h1.2 q pr hq)
      show aget (aset rr₁.store.relevant v.period val) q = _
      exact aget_aset_ne _ _ _ _ hqq

theorem aset_nozero {l : List (Nat × Assembler)} {k : Nat} {ea ea' : Assembler} (hz : ∀ kv ∈ l, kv.1 ≠ 0)
    (hk : aget l k = some ea) : ∀ kv ∈ aset l k ea', kv.1 ≠ 0 := by
  intro kv hkv
  rcases mem_aset hkv with h | h
  · exact hz kv h
  · subst h; exact hz (k, ea) (aget_mem hk)

theorem nr_payP {R Pd r : Nat} (pl : PlayerF) (rr : RoundR) (up : Payload) (h0 : NR R Pd r rr) :
    NR R Pd r (rr.payloadPresent pl up).1 := by
  unfold RoundR.payloadPresent
  split
  · exact h0
  rename_i ea hea
  split
  · exact h0
  split
  · exact h0
  exact nr_store h0 (aset_nozero h0.1 hea) rfl

theorem nr_payV {R Pd r : Nat} {pl : PlayerF} {rr rr' : RoundR} {pp : Payload} {res : PayRes} (h0 : NR R Pd r rr)
    (h : rr.payloadVerified pl pp = .ok (rr', res)) : NR R Pd r rr' := by
  unfold RoundR.payloadVerified at h
  split at h
  · simp only [Except.ok.injEq, Prod.mk.injEq] at h; obtain ⟨rfl, _⟩ := h; exact h0
  rename_i ea hea
  split at h
  · simp only [Except.ok.injEq, Prod.mk.injEq] at h; obtain ⟨rfl, _⟩ := h; exact h0
  simp only [] at h
  split at h
  · cases h
  rename_i rr₁ a hst
  have hq' : NR R Pd r { rr with store := { rr.store with assemblers := aset rr.store.assemblers pp.value { ea with payload := some pp } } } :=
    nr_store h0 (aset_nozero h0.1 hea) rfl
  have h1 := nr_stagedSelf hq' hst
  split at h <;> (simp only [Except.ok.injEq, Prod.mk.injEq] at h; obtain ⟨rfl, _⟩ := h; exact h1)

theorem nroot_atRound {α : Type} {R Pd Pd' : Nat} {pl : PlayerF} {root root' : Root} {r q : Nat}
    {f : RoundR → Except Panic (RoundR × α)} {a : α} (hle : Pd ≤ Pd') (h0 : NRoot R Pd root)
    (hf : ∀ rr rr' a, NR R Pd r rr → f rr = .ok (rr', a) → NR R Pd' r rr')
    (h : root.atRound P pl r q f = .ok (root', a)) : NRoot R Pd' root' := by
  obtain ⟨rr₀, rr', hrr₀, hfa, hrounds⟩ := atRound_out' h
  have hup : NRoot R Pd (root.upd P pl r) := by
    intro kv hkv
    rcases Root.upd_rounds_mem hkv with h' | h'
    · exact h0 kv h'
    · subst h'; exact NR_empty _ _ _
  intro kv hkv
  rw [hrounds] at hkv
  rcases mem_aset hkv with h' | h'
  · exact NR_mono hle (hup kv h')
  · subst h'
    exact hf _ _ _ (nr_rupd q (hup (r, rr₀) (aget_mem hrr₀))) hfa

theorem nframe (R Pd : Nat) : Frame P (fun _ => True) (NRoot R Pd) (NR R Pd) where
  congr := fun _ _ _ _ _ => trivial
  upd := by
    intro pl root r _ h0 kv hkv
    rcases Root.upd_rounds_mem hkv with h' | h'
    · exact h0 kv h'
    · subst h'; exact NR_empty _ _ _
  atRound := fun pl root root' r q f a _ h0 hf h => nroot_atRound (Nat.le_refl _) h0 hf h
  rupd := fun pl r rr q _ h => nr_rupd q h
  atPeriod := fun pl r rr rr' q s f a _ h0 hf h => nr_atPeriod h0 (fun pr pr' a h' => (hf pr pr' a h').1) h
  pvote := fun pl r rr rr' v res _ h0 h => nr_pvote h0 h
  payP := fun pl r rr up _ h0 => nr_payP pl rr up h0
  payV := fun pl r rr rr' pp res _ h0 h => nr_payV h0 h
  fresh := fun r rr ev b h => h

/-! ### `NRoot`: the two operations that are not ordinary -/

theorem nr_newPeriod {R Pd r : Nat} {pl : PlayerF} {rr rr' : RoundR} {target starting : Nat} (h0 : NR R Pd r rr)
    (h : rr.newPeriod pl target starting = .ok (rr', ())) : NR R (max Pd target) r rr' := by
  unfold RoundR.newPeriod at h
  split at h
  · cases h
  rename_i rr₁ staged hst
  simp only [Except.ok.injEq, Prod.mk.injEq] at h
  obtain ⟨rfl, _⟩ := h
  have h1 := nr_stagedSelf h0 hst
  refine ⟨trim_nozero _ _, fun q pr hq hset => ?_⟩
  obtain ⟨a, b, c⟩ := h1.2 q pr hq hset
  refine ⟨a, b, fun e hle => ?_⟩
  show aget (rr₁.store.relevant.filter (fun kv => decide (kv.1 + 1 ≥ target))) q = _
  rw [aget_filter_key rr₁.store.relevant (fun k => decide (k + 1 ≥ target)) q]
  have hd : decide (q + 1 ≥ target) = true := by
    simp only [decide_eq_true_eq]; omega
  rw [hd, if_pos rfl]
  exact c e (by omega)

/-- a soft/cert threshold at the store: Staging and — with the fixed handler, in BOTH branches — `Relevant[period]` are set -/
theorem nr_threshold {R Pd r : Nat} {pl : PlayerF} {rr rr' : RoundR} {e : Thresh} {c : Option (Nat × Option PVote)}
    (h0 : NR R Pd r rr) (hr : r ≤ R) (hp : e.proposal ≠ 0) (h : rr.threshold pl e = .ok (rr', c)) : NR R Pd r rr' := by
  unfold RoundR.threshold at h
  split at h
  · cases h
  rename_i rr₁ hat
  obtain ⟨pr₀, pr', hp0, hfa, hper, hst⟩ := atPeriod_out hat
  have hstg := (stage_spec hfa).2
  have hu := nr_rupd (pl := pl) e.period h0
  obtain ⟨e1, _, _⟩ := RoundR.upd_fields pl rr e.period
  have key : ∀ st' : Store, aget st'.relevant e.period = some e.proposal →
      (∀ q, q ≠ e.period → aget st'.relevant q = aget rr.store.relevant q) →
      ∀ q pr, aget rr₁.periods q = some pr → SetOK R Pd r st' q pr := by
    intro st' hrel hoth q pr hq
    rw [hper] at hq
    by_cases hqq : q = e.period
    · subst hqq
      rw [aget_aset_self] at hq
      simp only [Option.some.injEq] at hq
      subst hq
      intro _
      exact ⟨by rw [hstg]; exact hp, hr, fun _ _ => by rw [hstg]; exact hrel⟩
    · rw [aget_aset_ne _ _ _ _ hqq] at hq
      have := hu.2 q pr hq
      rw [e1] at this
      exact setOK_rel (hoth q hqq) this
  simp only [] at h
  split at h
  · simp only [Except.ok.injEq, Prod.mk.injEq] at h
    obtain ⟨rfl, _⟩ := h
    refine ⟨by show ∀ kv ∈ rr₁.store.assemblers, kv.1 ≠ 0; rw [hst]; exact h0.1, ?_⟩
    exact key _ (by show aget (aset rr₁.store.relevant e.period e.proposal) e.period = _; exact aget_aset_self _ _ _)
      (fun q hq => by show aget (aset rr₁.store.relevant e.period e.proposal) q = _; rw [aget_aset_ne _ _ _ _ hq, hst])
  · simp only [Except.ok.injEq, Prod.mk.injEq] at h
    obtain ⟨rfl, _⟩ := h
    refine ⟨trim_nozero _ _, ?_⟩
    exact key _ (by show aget (aset rr₁.store.relevant e.period e.proposal) e.period = _; exact aget_aset_self _ _ _)
      (fun q hq => by show aget (aset rr₁.store.relevant e.period e.proposal) q = _; rw [aget_aset_ne _ _ _ _ hq, hst])

/-- the period `proposalManager.handleNewPeriod` moves the store to -/
def tgt (e : Thresh) : Nat := if e.kind = 3 then e.period + 1 else e.period

theorem pmNewPeriod_n {R Pd : Nat} {σ σ' : State} {e : Thresh} (h0 : NRoot R Pd σ.root)
    (h : pmNewPeriod P σ e = .ok σ') : NRoot R (max Pd (tgt e)) σ'.root ∧ σ'.pl = σ.pl := by
  unfold pmNewPeriod at h
  simp only [] at h
  split at h
  · cases h
  rename_i _ root hx
  simp only [Except.ok.injEq] at h
  subst h
  exact ⟨nroot_atRound (Nat.le_max_left _ _) h0 (fun rr rr' a hn hf => nr_newPeriod hn hf) hx, rfl⟩

theorem pmThreshold_n {Pd : Nat} {σ σ' : State} {rt : Nat} {e : Thresh} {c : Option (Nat × Option PVote)}
    (h0 : NRoot σ.pl.round Pd σ.root) (hp : e.kind ≠ 3 → e.proposal ≠ 0)
    (h : pmThreshold P σ rt e = .ok (σ', c)) : NRoot σ.pl.round (max Pd (tgt e)) σ'.root ∧ σ'.pl = σ.pl := by
  unfold pmThreshold at h
  simp only [] at h
  split at h
  · cases h
  rename_i hround
  have hround : σ.pl.round = e.round := by simpa using hround
  split at h
  · cases h
  split at h
  · cases h
  have h1 : NRoot σ.pl.round Pd ({ σ with root := σ.root.upd P σ.pl rt } : State).root :=
    (nframe σ.pl.round Pd).upd σ.pl σ.root rt trivial h0
  split at h
  · split at h
    · cases h
    rename_i σ₁ hnp
    simp only [Except.ok.injEq, Prod.mk.injEq] at h
    obtain ⟨rfl, _⟩ := h
    exact pmNewPeriod_n (σ := { σ with root := σ.root.upd P σ.pl rt }) h1 hnp
  · rename_i hk
    split at h
    · cases h
    rename_i σ₁ hσ₁
    have h2 : NRoot σ.pl.round (max Pd (tgt e)) σ₁.root ∧ σ₁.pl = σ.pl := by
      split at hσ₁
      · exact pmNewPeriod_n (σ := { σ with root := σ.root.upd P σ.pl rt }) h1 hσ₁
      · simp only [Except.ok.injEq] at hσ₁; subst hσ₁
        exact ⟨NRoot_mono (Nat.le_max_left _ _) h1, rfl⟩
    split at h
    · cases h
    rename_i root c' hx
    simp only [Except.ok.injEq, Prod.mk.injEq] at h
    obtain ⟨rfl, _⟩ := h
    refine ⟨nroot_atRound (Nat.le_refl _) h2.1 (fun rr rr' a hn hf =>
      nr_threshold hn (Nat.le_of_eq hround.symm) (hp hk) hf) hx, h2.2⟩

/-! ## the relational invariant `DRoot` -/

def DR (p v : Nat) (rr : RoundR) : Prop :=
  ∃ pr, aget rr.periods p = some pr ∧ pr.ptracker.staging = v ∧ (pview pr).set = true ∧
    aget rr.store.relevant p = some v ∧ (rr.store.asm v).payload.isSome = true

def DRoot (R p v : Nat) (root : Root) : Prop := ∃ rr, aget root.rounds R = some rr ∧ DR p v rr

/-- the player is in (R, p), and `p + 1` does not wrap -/
def DOk (R p : Nat) (pl : PlayerF) : Prop := pl.round = R ∧ pl.period = p ∧ p + 1 < 18446744073709551616

theorem DOk.keepP {R p : Nat} {pl : PlayerF} (h : DOk R p pl) : keepPeriod pl p = true := by
  obtain ⟨_, h2, h3⟩ := h
  rw [← h2] at h3 ⊢
  exact keepPeriod_self h3

theorem DOk.keepR {R p : Nat} {pl : PlayerF} (h : DOk R p pl) : keepRound P pl R = true := by
  rw [← h.1]; exact keepRound_self P pl

theorem dr_rupd {p v : Nat} {pl : PlayerF} {rr : RoundR} (q : Nat) (hk : keepPeriod pl p = true) (h : DR p v rr) :
    DR p v (rr.upd pl q) := by
  obtain ⟨pr, h1, h2, h3, h4, h5⟩ := h
  obtain ⟨e1, _, _⟩ := RoundR.upd_fields pl rr q
  exact ⟨pr, upd_aget_keep h1 hk, h2, h3, by rw [e1]; exact h4, by rw [e1]; exact h5⟩

theorem dr_atPeriod {α : Type} {p v : Nat} {pl : PlayerF} {rr rr' : RoundR} {q s : Nat}
    {f : PeriodR → Except Panic (PeriodR × α)} {a : α} (hk : keepPeriod pl p = true) (h0 : DR p v rr)
    (hf : ∀ pr pr' a, f pr = .ok (pr', a) → SS pr pr') (h : rr.atPeriod pl q s f = .ok (rr', a)) : DR p v rr' := by
  obtain ⟨pr, h1, h2, h3, h4, h5⟩ := h0
  by_cases hqp : p = q
  · subst hqp
    obtain ⟨pr₀, pr', hp0, hfa, hper, hst⟩ := atPeriod_out h
    rw [upd_aget_keep h1 hk] at hp0
    simp only [Option.some.injEq] at hp0
    subst hp0
    have hss := hf _ _ _ hfa
    obtain ⟨a1, a2, _⟩ := PeriodR.upd_fields pr s
    refine ⟨pr', by rw [hper]; exact aget_aset_self _ _ _, ?_, ?_, by rw [hst]; exact h4, by rw [hst]; exact h5⟩
    · rw [hss.1, a1]; exact h2
    · rw [hss.2]; simp only [pview, a1, a2]; exact h3
  · obtain ⟨g1, g2⟩ := atPeriod_frame hk hqp h1 h
    exact ⟨pr, g1, h2, h3, by rw [g2]; exact h4, by rw [g2]; exact h5⟩

theorem dr_readStaging {p v : Nat} {pl : PlayerF} {q : Nat} {rr rr' : RoundR} {st : Staged} (hk : keepPeriod pl p = true)
    (h0 : DR p v rr) (h : rr.readStaging pl q = .ok (rr', st)) : DR p v rr' := by
  unfold RoundR.readStaging at h
  split at h
  · cases h
  rename_i rr₁ w hat
  simp only [Except.ok.injEq, Prod.mk.injEq] at h
  obtain ⟨rfl, _⟩ := h
  exact dr_atPeriod hk h0 (fun pr pr' a hf => by
    simp only [Except.ok.injEq, Prod.mk.injEq] at hf
    rw [← hf.1]; exact ss_refl _) hat

/-- a store change that keeps `Relevant[p]` and the payload of `v` -/
theorem dr_store {p v : Nat} {rr : RoundR} {st' : Store} (h0 : DR p v rr) (hr : aget st'.relevant p = some v)
    (hpay : (st'.asm v).payload = (rr.store.asm v).payload) : DR p v { rr with store := st' } := by
  obtain ⟨pr, h1, h2, h3, _, h5⟩ := h0
  exact ⟨pr, h1, h2, h3, hr, by show (st'.asm v).payload.isSome = true; rw [hpay]; exact h5⟩

theorem dr_pvote {p v : Nat} (hv : v ≠ 0) {pl : PlayerF} {rr rr' : RoundR} {x : PVote} {res : PVRes}
    (hk : keepPeriod pl p = true) (h0 : DR p v rr) (h : rr.pvoteVerified pl x = .ok (rr', res)) : DR p v rr' := by
  unfold RoundR.pvoteVerified at h
  split at h
  · cases h
  · rename_i rr₁ b hat
    simp only [Except.ok.injEq, Prod.mk.injEq] at h
    obtain ⟨rfl, _⟩ := h
    exact dr_atPeriod hk h0 (fun pr pr' a hf => ss_of_pview (pvoteVerified_pview hf)) hat
  · rename_i rr₁ val pay hat
    simp only [Except.ok.injEq, Prod.mk.injEq] at h
    obtain ⟨rfl, _⟩ := h
    have h1 := dr_atPeriod hk h0 (fun pr pr' a hf => ss_of_pview (pvoteVerified_pview hf)) hat
    obtain ⟨pr₀, pr', _, hfa, hper, _⟩ := atPeriod_out hat
    have hz := pvoteVerified_accepted_staging hfa
    have hne : p ≠ x.period := by
      intro he
      obtain ⟨pr, g1, g2, _⟩ := h1
      rw [he, hper, aget_aset_self] at g1
      simp only [Option.some.injEq] at g1
      subst g1
      rw [hz] at g2
      exact hv g2.symm
    obtain ⟨pr, g1, g2, g3, g4, g5⟩ := h1
    have hrel : aget (aset rr₁.store.relevant x.period val) p = some v := by
      rw [aget_aset_ne _ _ _ _ hne]; exact g4
    refine dr_store ⟨pr, g1, g2, g3, g4, g5⟩ hrel ?_
    rw [trim_asm_keep (st := { rr₁.store with assemblers := _, relevant := _ }) hrel hv]
    by_cases hvv : v = val
    · subst hvv
      show (({ rr₁.store with assemblers := aset rr₁.store.assemblers v _ } : Store).asm v).payload = _
      rw [asm_aset_self]
    · show (({ rr₁.store with assemblers := aset rr₁.store.assemblers val _ } : Store).asm v).payload = _
      rw [asm_aset_ne _ _ _ _ hvv]

theorem asm_of_aget {st : Store} {k : Nat} {ea : Assembler} (h : aget st.assemblers k = some ea) : st.asm k = ea := by
  unfold Store.asm; rw [h]; rfl

theorem dr_payP {p v : Nat} (pl : PlayerF) (rr : RoundR) (up : Payload) (h0 : DR p v rr) :
    DR p v (rr.payloadPresent pl up).1 := by
  unfold RoundR.payloadPresent
  split
  · exact h0
  rename_i ea hea
  split
  · exact h0
  split
  · exact h0
  obtain ⟨pr, g1, g2, g3, g4, g5⟩ := h0
  refine dr_store ⟨pr, g1, g2, g3, g4, g5⟩ g4 ?_
  by_cases hvv : v = up.value
  · subst hvv
    rw [asm_aset_self, asm_of_aget hea]
  · rw [asm_aset_ne _ _ _ _ hvv]

theorem dr_payV {p v : Nat} {pl : PlayerF} {rr rr' : RoundR} {pp : Payload} {res : PayRes} (hk : keepPeriod pl p = true)
    (h0 : DR p v rr) (h : rr.payloadVerified pl pp = .ok (rr', res)) : DR p v rr' := by
  unfold RoundR.payloadVerified at h
  split at h
  · simp only [Except.ok.injEq, Prod.mk.injEq] at h; obtain ⟨rfl, _⟩ := h; exact h0
  rename_i ea hea
  split at h
  · simp only [Except.ok.injEq, Prod.mk.injEq] at h; obtain ⟨rfl, _⟩ := h; exact h0
  rename_i hnp
  simp only [] at h
  split at h
  · cases h
  rename_i rr₁ a hst
  have hvv : v ≠ pp.value := by
    intro he
    obtain ⟨_, _, _, _, _, g5⟩ := h0
    rw [he, asm_of_aget hea] at g5
    exact hnp g5
  have hq' : DR p v { rr with store := { rr.store with assemblers := aset rr.store.assemblers pp.value { ea with payload := some pp } } } := by
    obtain ⟨pr, g1, g2, g3, g4, g5⟩ := h0
    exact dr_store ⟨pr, g1, g2, g3, g4, g5⟩ g4 (by rw [asm_aset_ne _ _ _ _ hvv])
  unfold RoundR.stagedSelf at hst
  have h1 := dr_readStaging hk (dr_rupd _ hk hq') hst
  split at h <;> (simp only [Except.ok.injEq, Prod.mk.injEq] at h; obtain ⟨rfl, _⟩ := h; exact h1)

theorem droot_atRound {α : Type} {R p v : Nat} {pl : PlayerF} {root root' : Root} {r q : Nat}
    {f : RoundR → Except Panic (RoundR × α)} {a : α} (hok : DOk R p pl) (h0 : DRoot R p v root)
    (hf : r = R → ∀ rr rr' a, DR p v rr → f rr = .ok (rr', a) → DR p v rr')
    (h : root.atRound P pl r q f = .ok (root', a)) : DRoot R p v root' := by
  obtain ⟨rr, hrr, hd⟩ := h0
  obtain ⟨rr₀, rr', hrr₀, hfa, hrounds⟩ := atRound_out' h
  have hup : aget (root.upd P pl r).rounds R = some rr := Root.upd_aget_keep hrr hok.keepR
  by_cases hrR : r = R
  · subst hrR
    rw [hup] at hrr₀
    simp only [Option.some.injEq] at hrr₀
    subst hrr₀
    exact ⟨rr', by rw [hrounds]; exact aget_aset_self _ _ _, hf rfl _ _ _ (dr_rupd q hok.keepP hd) hfa⟩
  · exact ⟨rr, by rw [hrounds, aget_aset_ne _ _ _ _ (fun e => hrR e.symm)]; exact hup, hd⟩

theorem dframe (R p v : Nat) (hv : v ≠ 0) :
    Frame P (DOk R p) (DRoot R p v) (fun r rr => r = R → DR p v rr) where
  congr := by
    intro pl pl' h1 h2 ⟨a, b, c⟩
    exact ⟨h1.trans a, h2.trans b, c⟩
  upd := by
    intro pl root r hok ⟨rr, hrr, hd⟩
    exact ⟨rr, Root.upd_aget_keep hrr hok.keepR, hd⟩
  atRound := fun pl root root' r q f a hok h0 hf h =>
    droot_atRound hok h0 (fun e rr rr' a hd hfa => hf rr rr' a (fun _ => hd) hfa e) h
  rupd := fun pl r rr q hok h e => dr_rupd q hok.keepP (h e)
  atPeriod := fun pl r rr rr' q s f a hok h0 hf h e => dr_atPeriod hok.keepP (h0 e) (fun pr pr' a h' => (hf pr pr' a h').1) h
  pvote := fun pl r rr rr' x res hok h0 h e => dr_pvote hv hok.keepP (h0 e) h
  payP := fun pl r rr up hok h0 e => dr_payP pl rr up (h0 e)
  payV := fun pl r rr rr' pp res hok h0 h e => dr_payV hok.keepP (h0 e) h
  fresh := by
    intro r rr ev b h e
    obtain ⟨pr, g⟩ := h e
    exact ⟨pr, g⟩

/-- a threshold of another period, or of this period for the same value, keeps `DR` -/
theorem dr_threshold {p v : Nat} (hv : v ≠ 0) {pl : PlayerF} {rr rr' : RoundR} {e : Thresh}
    {c : Option (Nat × Option PVote)} (hk : keepPeriod pl p = true) (h0 : DR p v rr)
    (hsame : e.period = p → e.proposal = v) (h : rr.threshold pl e = .ok (rr', c)) : DR p v rr' := by
  unfold RoundR.threshold at h
  split at h
  · cases h
  rename_i rr₁ hat
  have h1 : DR p v rr₁ := by
    by_cases hpe : p = e.period
    · obtain ⟨pr, g1, g2, g3, g4, g5⟩ := h0
      obtain ⟨pr₀, pr', hp0, hfa, hper, hst⟩ := atPeriod_out hat
      have hpv := stage_pview hfa
      refine ⟨pr', by rw [hpe, hper]; exact aget_aset_self _ _ _, ?_, ?_, by rw [hst]; exact g4, by rw [hst]; exact g5⟩
      · rw [(stage_spec hfa).2]; exact hsame hpe.symm
      · rw [hpv]
    · obtain ⟨pr, g1, g2, g3, g4, g5⟩ := h0
      obtain ⟨f1, f2⟩ := atPeriod_frame hk hpe g1 hat
      exact ⟨pr, f1, g2, g3, by rw [f2]; exact g4, by rw [f2]; exact g5⟩
  obtain ⟨pr, g1, g2, g3, g4, g5⟩ := h1
  have hrel : aget (aset rr₁.store.relevant e.period e.proposal) p = some v := by
    by_cases hpe : p = e.period
    · rw [hpe, aget_aset_self, hsame hpe.symm]
    · rw [aget_aset_ne _ _ _ _ hpe]; exact g4
  simp only [] at h
  split at h
  · simp only [Except.ok.injEq, Prod.mk.injEq] at h
    obtain ⟨rfl, _⟩ := h
    exact dr_store ⟨pr, g1, g2, g3, g4, g5⟩ hrel rfl
  · simp only [Except.ok.injEq, Prod.mk.injEq] at h
    obtain ⟨rfl, _⟩ := h
    refine dr_store ⟨pr, g1, g2, g3, g4, g5⟩ hrel ?_
    rw [trim_asm_keep (st := { rr₁.store with assemblers := _, relevant := _ }) hrel hv]
    by_cases hvv : v = e.proposal
    · rw [← hvv]
      show (({ rr₁.store with assemblers := aset rr₁.store.assemblers v _ } : Store).asm v).payload = _
      rw [asm_aset_self]
    · show (({ rr₁.store with assemblers := aset rr₁.store.assemblers e.proposal _ } : Store).asm v).payload = _
      rw [asm_aset_ne _ _ _ _ hvv]

/-- a soft/cert threshold that does not start a new period at the store -/
theorem pmThreshold_d {R p v : Nat} (hv : v ≠ 0) {σ σ' : State} {rt : Nat} {e : Thresh} {c : Option (Nat × Option PVote)}
    (hok : DOk R p σ.pl) (h0 : DRoot R p v σ.root) (hk3 : e.kind ≠ 3) (hle : ¬ σ.pl.period < e.period)
    (hsame : e.period = p → e.proposal = v) (h : pmThreshold P σ rt e = .ok (σ', c)) :
    DRoot R p v σ'.root ∧ σ'.pl = σ.pl := by
  unfold pmThreshold at h
  simp only [] at h
  split at h
  · cases h
  split at h
  · cases h
  split at h
  · cases h
  have h1 : DRoot R p v ({ σ with root := σ.root.upd P σ.pl rt } : State).root :=
    (dframe R p v hv).upd σ.pl σ.root rt hok h0
  try rw [if_neg hk3] at h
  try rw [if_neg hle] at h
  simp only [] at h
  split at h
  · cases h
  rename_i root c' hx
  simp only [Except.ok.injEq, Prod.mk.injEq] at h
  obtain ⟨rfl, _⟩ := h
  exact ⟨droot_atRound hok h1 (fun _ rr rr' a hd hf => dr_threshold hv hok.keepP hd hsame hf) hx, rfl⟩

end AlgoVerif.Lemmas.PlayerAttest
