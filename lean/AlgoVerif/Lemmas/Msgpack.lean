/-
Lemmas about Base.Msgpack: byte-level round trips, header round trip, and the fuel-indexed
decoder inverts the encoder on every well-formed tree (`decF_enc`).
-/
import AlgoVerif.Base.Msgpack
namespace AlgoVerif.Msgpack

theorem b8_toNat {n : Nat} (h : n < 256) : (b8 n).toNat = n := by
  unfold b8
  rw [UInt8.toNat_ofNat']
  exact Nat.mod_eq_of_lt h

theorem be_length (k n : Nat) : (be k n).length = k := by
  induction k generalizing n with
  | zero => simp [be]
  | succ k ih => simp [be, ih]

theorem readBE_be (k n : Nat) (t : Bytes) (h : n < 256^k) : readBE k (be k n ++ t) = some (n, t) := by
  induction k generalizing n with
  | zero =>
    have : n = 0 := by simpa using h
    subst this; simp [be, readBE]
  | succ k ih =>
    have hpos : 0 < 256^k := Nat.pow_pos (by decide)
    have h1 : n / 256^k < 256 := by
      rw [Nat.div_lt_iff_lt_mul hpos]
      rw [Nat.pow_succ] at h; rw [Nat.mul_comm]; exact h
    have h2 : n % 256^k < 256^k := Nat.mod_lt _ hpos
    simp only [be, List.cons_append, readBE]
    rw [ih _ h2, Nat.mod_eq_of_lt h1, b8_toNat h1]
    have := Nat.div_add_mod n (256^k)
    simp only [Option.some.injEq, Prod.mk.injEq, and_true]
    rw [Nat.mul_comm]; exact this

theorem takeAux_append (s t acc : Bytes) : takeAux s.length (s ++ t) acc = some (acc.reverse ++ s, t) := by
  induction s generalizing acc with
  | nil => simp [takeAux]
  | cons a s ih => simp [takeAux, ih]

theorem takeN_append (s t : Bytes) : takeN s.length (s ++ t) = some (s, t) := by
  unfold takeN
  rw [takeAux_append]; simp


def HdWF : Hd → Prop
  | .uint n => n < 18446744073709551616
  | .nint i => -9223372036854775808 ≤ i ∧ i < 0
  | .bin n => n < 4294967296
  | .str n => n < 4294967296
  | .arr n => n < 4294967296
  | .map n => n < 4294967296
  | _ => True

theorem p1 : (256:Nat)^1 = 256 := by decide
theorem p2 : (256:Nat)^2 = 65536 := by decide
theorem p4 : (256:Nat)^4 = 4294967296 := by decide
theorem p8 : (256:Nat)^8 = 18446744073709551616 := by decide

theorem rd_be (k n : Nat) (f : Nat → Hd) (t : Bytes) (h : n < 256^k) : rd k f (be k n ++ t) = some (f n, t) := by
  unfold rd; rw [readBE_be k n t h]

theorem decHd_uint (n : Nat) (t : Bytes) (h : n < 18446744073709551616) :
    decHd (encUint n ++ t) = some (.uint n, t) := by
  unfold encUint
  split
  · next h1 => simp [decHd, b8_toNat (show n < 256 by omega), h1]
  split
  · next h0 h1 =>
    simp only [List.cons_append, decHd]
    simp [rd_be 1 n .uint t (by rw [p1]; exact h1)]
  split
  · next h1 =>
    simp only [List.cons_append, decHd]
    simp [rd_be 2 n .uint t (by rw [p2]; exact h1)]
  split
  · next h1 =>
    simp only [List.cons_append, decHd]
    simp [rd_be 4 n .uint t (by rw [p4]; exact h1)]
  · simp only [List.cons_append, decHd]
    simp [rd_be 8 n .uint t (by rw [p8]; exact h)]


theorem sint8 (i : Int) (h1 : -128 ≤ i) (h2 : i < 0) : sint 8 (256 + i).toNat = .nint i := by
  unfold sint
  have : ¬ ((256 + i).toNat < 2^(8-1)) := by simp; omega
  rw [if_neg this]; congr 1; simp; omega
theorem sint16 (i : Int) (h1 : -32768 ≤ i) (h2 : i < 0) : sint 16 (65536 + i).toNat = .nint i := by
  unfold sint
  have : ¬ ((65536 + i).toNat < 2^(16-1)) := by simp; omega
  rw [if_neg this]; congr 1; simp; omega
theorem sint32 (i : Int) (h1 : -2147483648 ≤ i) (h2 : i < 0) : sint 32 (4294967296 + i).toNat = .nint i := by
  unfold sint
  have : ¬ ((4294967296 + i).toNat < 2^(32-1)) := by simp; omega
  rw [if_neg this]; congr 1; simp; omega
theorem sint64 (i : Int) (h1 : -9223372036854775808 ≤ i) (h2 : i < 0) :
    sint 64 (18446744073709551616 + i).toNat = .nint i := by
  unfold sint
  have : ¬ ((18446744073709551616 + i).toNat < 2^(64-1)) := by simp; omega
  rw [if_neg this]; congr 1; simp; omega

theorem decHd_fixneg (m : Nat) (t : Bytes) (h1 : 224 ≤ m) (h2 : m < 256) :
    decHd (b8 m :: t) = some (.nint ((m : Int) - 256), t) := by
  simp only [decHd, b8_toNat h2]
  rw [if_neg (by omega), if_neg (by omega), if_neg (by omega), if_neg (by omega), if_pos (by omega)]

theorem decHd_nint (i : Int) (t : Bytes) (h1 : -9223372036854775808 ≤ i) (h2 : i < 0) :
    decHd (encNint i ++ t) = some (.nint i, t) := by
  unfold encNint
  split
  · next h =>
    have e : (((256 + i).toNat : Nat) : Int) - 256 = i := by omega
    simp only [List.cons_append, List.nil_append]
    rw [decHd_fixneg _ t (by omega) (by omega), e]
  split
  · next h0 h =>
    simp only [List.cons_append, decHd]
    simp [rd_be 1 _ (sint 8) t (show (256 + i).toNat < 256^1 by rw [p1]; omega), sint8 i h h2]
  split
  · next h =>
    simp only [List.cons_append, decHd]
    simp [rd_be 2 _ (sint 16) t (show (65536 + i).toNat < 256^2 by rw [p2]; omega), sint16 i h h2]
  split
  · next h =>
    simp only [List.cons_append, decHd]
    simp [rd_be 4 _ (sint 32) t (show (4294967296 + i).toNat < 256^4 by rw [p4]; omega), sint32 i h h2]
  · simp only [List.cons_append, decHd]
    simp [rd_be 8 _ (sint 64) t (show (18446744073709551616 + i).toNat < 256^8 by rw [p8]; omega), sint64 i h1 h2]
theorem decHd_fixstr' (m : Nat) (t : Bytes) (h1 : 160 ≤ m) (h2 : m < 192) : decHd (b8 m :: t) = some (.str (m - 160), t) := by
  have h3 : m < 256 := by omega
  have e1 : ¬ m < 128 := by omega
  have e2 : ¬ m < 144 := by omega
  have e3 : ¬ m < 160 := by omega
  simp only [decHd, b8_toNat h3]
  rw [if_neg e1, if_neg e2, if_neg e3, if_pos h2]
theorem decHd_fixarr' (m : Nat) (t : Bytes) (h1 : 144 ≤ m) (h2 : m < 160) : decHd (b8 m :: t) = some (.arr (m - 144), t) := by
  have h3 : m < 256 := by omega
  have e1 : ¬ m < 128 := by omega
  have e2 : ¬ m < 144 := by omega
  simp only [decHd, b8_toNat h3]
  rw [if_neg e1, if_neg e2, if_pos h2]
theorem decHd_fixmap' (m : Nat) (t : Bytes) (h1 : 128 ≤ m) (h2 : m < 144) : decHd (b8 m :: t) = some (.map (m - 128), t) := by
  have h3 : m < 256 := by omega
  have e1 : ¬ m < 128 := by omega
  simp only [decHd, b8_toNat h3]
  rw [if_neg e1, if_pos h2]
theorem decHd_fixstr (n : Nat) (t : Bytes) (h : n < 32) : decHd (b8 (0xa0 + n) :: t) = some (.str n, t) := by
  generalize hm : 0xa0 + n = m
  have h1 : 160 ≤ m := by omega
  have h2 : m < 192 := by omega
  have h3 : n = m - 160 := by omega
  rw [h3]; exact decHd_fixstr' m t h1 h2
theorem decHd_fixarr (n : Nat) (t : Bytes) (h : n < 16) : decHd (b8 (0x90 + n) :: t) = some (.arr n, t) := by
  generalize hm : 0x90 + n = m
  have h1 : 144 ≤ m := by omega
  have h2 : m < 160 := by omega
  have h3 : n = m - 144 := by omega
  rw [h3]; exact decHd_fixarr' m t h1 h2
theorem decHd_fixmap (n : Nat) (t : Bytes) (h : n < 16) : decHd (b8 (0x80 + n) :: t) = some (.map n, t) := by
  generalize hm : 0x80 + n = m
  have h1 : 128 ≤ m := by omega
  have h2 : m < 144 := by omega
  have h3 : n = m - 128 := by omega
  rw [h3]; exact decHd_fixmap' m t h1 h2

theorem decHd_bin (n : Nat) (t : Bytes) (h : n < 4294967296) : decHd (encBinHd n ++ t) = some (.bin n, t) := by
  unfold encBinHd
  split
  · next h1 =>
    simp only [List.cons_append, decHd]
    simp [rd_be 1 n .bin t (by rw [p1]; exact h1)]
  split
  · next h1 =>
    simp only [List.cons_append, decHd]
    simp [rd_be 2 n .bin t (by rw [p2]; exact h1)]
  · simp only [List.cons_append, decHd]
    simp [rd_be 4 n .bin t (by rw [p4]; exact h)]

theorem decHd_str (n : Nat) (t : Bytes) (h : n < 4294967296) : decHd (encStrHd n ++ t) = some (.str n, t) := by
  unfold encStrHd
  split
  · next h1 =>
    simp only [List.cons_append, List.nil_append]
    exact decHd_fixstr n t h1
  split
  · next h1 =>
    simp only [List.cons_append, decHd]
    simp [rd_be 1 n .str t (by rw [p1]; exact h1)]
  split
  · next h1 =>
    simp only [List.cons_append, decHd]
    simp [rd_be 2 n .str t (by rw [p2]; exact h1)]
  · simp only [List.cons_append, decHd]
    simp [rd_be 4 n .str t (by rw [p4]; exact h)]

theorem decHd_arr (n : Nat) (t : Bytes) (h : n < 4294967296) : decHd (encArrHd n ++ t) = some (.arr n, t) := by
  unfold encArrHd
  split
  · next h1 =>
    simp only [List.cons_append, List.nil_append]
    exact decHd_fixarr n t h1
  split
  · next h1 =>
    simp only [List.cons_append, decHd]
    simp [rd_be 2 n .arr t (by rw [p2]; exact h1)]
  · simp only [List.cons_append, decHd]
    simp [rd_be 4 n .arr t (by rw [p4]; exact h)]

theorem decHd_map (n : Nat) (t : Bytes) (h : n < 4294967296) : decHd (encMapHd n ++ t) = some (.map n, t) := by
  unfold encMapHd
  split
  · next h1 =>
    simp only [List.cons_append, List.nil_append]
    exact decHd_fixmap n t h1
  split
  · next h1 =>
    simp only [List.cons_append, decHd]
    simp [rd_be 2 n .map t (by rw [p2]; exact h1)]
  · simp only [List.cons_append, decHd]
    simp [rd_be 4 n .map t (by rw [p4]; exact h)]

theorem decHd_encHd (h : Hd) (t : Bytes) (hw : HdWF h) : decHd (encHd h ++ t) = some (h, t) := by
  cases h with
  | nil => simp [encHd, decHd]
  | bool b => cases b <;> simp [encHd, decHd]
  | uint n => exact decHd_uint n t hw
  | nint i => exact decHd_nint i t hw.1 hw.2
  | bin n => exact decHd_bin n t hw
  | str n => exact decHd_str n t hw
  | arr n => exact decHd_arr n t hw
  | map n => exact decHd_map n t hw

theorem encHd_pos (h : Hd) : 1 ≤ (encHd h).length := by
  cases h <;> simp [encHd, encUint, encNint, encBinHd, encStrHd, encArrHd, encMapHd] <;> (repeat' split) <;> simp

theorem enc_pos (v : V) : 1 ≤ (enc v).length := by
  cases v with
  | int i =>
    unfold enc; split
    · exact encHd_pos _
    · exact encHd_pos _
  | nil => unfold enc; exact encHd_pos _
  | bool b => unfold enc; exact encHd_pos _
  | uint n => unfold enc; exact encHd_pos _
  | bin b => unfold enc; have := encHd_pos (.bin b.length); simp only [List.length_append]; omega
  | str b => unfold enc; have := encHd_pos (.str b.length); simp only [List.length_append]; omega
  | arr b => unfold enc; have := encHd_pos (.arr b.length); simp only [List.length_append]; omega
  | map b => unfold enc; have := encHd_pos (.map b.length); simp only [List.length_append]; omega

theorem decF_succ_hd (f : Nat) (h : Hd) (t : Bytes) (hw : HdWF h) :
    decF (f+1) (encHd h ++ t) =
      match h with
      | .nil => some (.nil, t)
      | .bool b => some (.bool b, t)
      | .uint n => some (.uint n, t)
      | .nint i => some (.int i, t)
      | .bin n => (match takeN n t with | none => none | some (x, r) => some (.bin x, r))
      | .str n => (match takeN n t with | none => none | some (x, r) => some (.str x, r))
      | .arr n => (match decL f n t with | none => none | some (vs, r) => some (.arr vs, r))
      | .map n => (match decM f n t with | none => none | some (vs, r) => some (.map vs, r)) := by
  rw [decF, decHd_encHd h t hw]
  cases h <;> rfl

mutual
theorem decF_enc : ∀ (v : V) (f : Nat) (t : Bytes), wfB v = true → 2 * (enc v).length ≤ f →
    decF f (enc v ++ t) = some (v, t)
  | .nil, f, t, _, hf => by
    have := enc_pos .nil
    obtain ⟨f', rfl⟩ : ∃ f', f = f' + 1 := ⟨f - 1, by omega⟩
    rw [enc, decF_succ_hd _ _ _ (show HdWF .nil from trivial)]
  | .bool b, f, t, _, hf => by
    have := enc_pos (.bool b)
    obtain ⟨f', rfl⟩ : ∃ f', f = f' + 1 := ⟨f - 1, by omega⟩
    rw [enc, decF_succ_hd _ _ _ (show HdWF (.bool b) from trivial)]
  | .uint n, f, t, hw, hf => by
    have := enc_pos (.uint n)
    obtain ⟨f', rfl⟩ : ∃ f', f = f' + 1 := ⟨f - 1, by omega⟩
    simp only [wfB, decide_eq_true_eq] at hw
    rw [enc, decF_succ_hd _ _ _ (show HdWF (.uint n) from hw)]
  | .int i, f, t, hw, hf => by
    have := enc_pos (.int i)
    obtain ⟨f', rfl⟩ : ∃ f', f = f' + 1 := ⟨f - 1, by omega⟩
    simp only [wfB, Bool.and_eq_true, decide_eq_true_eq] at hw
    have hneg : ¬ (0 ≤ i) := by omega
    rw [enc, if_neg hneg, decF_succ_hd _ _ _ (show HdWF (.nint i) from hw)]
  | .bin b, f, t, hw, hf => by
    have := enc_pos (.bin b)
    obtain ⟨f', rfl⟩ : ∃ f', f = f' + 1 := ⟨f - 1, by omega⟩
    simp only [wfB, decide_eq_true_eq] at hw
    rw [enc, List.append_assoc, decF_succ_hd _ _ _ (show HdWF (.bin b.length) from hw)]
    simp only [takeN_append]
  | .str b, f, t, hw, hf => by
    have := enc_pos (.str b)
    obtain ⟨f', rfl⟩ : ∃ f', f = f' + 1 := ⟨f - 1, by omega⟩
    simp only [wfB, decide_eq_true_eq] at hw
    rw [enc, List.append_assoc, decF_succ_hd _ _ _ (show HdWF (.str b.length) from hw)]
    simp only [takeN_append]
  | .arr vs, f, t, hw, hf => by
    have hp := encHd_pos (.arr vs.length)
    simp only [wfB, Bool.and_eq_true, decide_eq_true_eq] at hw
    rw [enc] at hf
    simp only [List.length_append] at hf
    obtain ⟨f', rfl⟩ : ∃ f', f = f' + 1 := ⟨f - 1, by omega⟩
    rw [enc, List.append_assoc, decF_succ_hd _ _ _ (show HdWF (.arr vs.length) from hw.1)]
    simp only [decL_enc vs f' t hw.2 (by omega)]
  | .map kvs, f, t, hw, hf => by
    have hp := encHd_pos (.map kvs.length)
    simp only [wfB, Bool.and_eq_true, decide_eq_true_eq] at hw
    rw [enc] at hf
    simp only [List.length_append] at hf
    obtain ⟨f', rfl⟩ : ∃ f', f = f' + 1 := ⟨f - 1, by omega⟩
    rw [enc, List.append_assoc, decF_succ_hd _ _ _ (show HdWF (.map kvs.length) from hw.1)]
    simp only [decM_enc kvs f' t hw.2 (by omega)]
theorem decL_enc : ∀ (vs : List V) (f : Nat) (t : Bytes), wfL vs = true → 2 * (encL vs).length + 1 ≤ f →
    decL f vs.length (encL vs ++ t) = some (vs, t)
  | [], f, t, _, _ => by simp [encL, decL]
  | v :: vs, f, t, hw, hf => by
    have hp := enc_pos v
    simp only [wfL, Bool.and_eq_true] at hw
    rw [encL] at hf
    simp only [List.length_append] at hf
    obtain ⟨f', rfl⟩ : ∃ f', f = f' + 1 := ⟨f - 1, by omega⟩
    rw [encL, List.append_assoc, List.length_cons, decL]
    simp only [decF_enc v f' _ hw.1 (by omega), decL_enc vs f' t hw.2 (by omega)]
theorem decM_enc : ∀ (kvs : List (V × V)) (f : Nat) (t : Bytes), wfM kvs = true → 2 * (encM kvs).length + 1 ≤ f →
    decM f kvs.length (encM kvs ++ t) = some (kvs, t)
  | [], f, t, _, _ => by simp [encM, decM]
  | (k, v) :: r, f, t, hw, hf => by
    have hp := enc_pos k
    have hp' := enc_pos v
    simp only [wfM, Bool.and_eq_true] at hw
    rw [encM] at hf
    simp only [List.length_append] at hf
    obtain ⟨f', rfl⟩ : ∃ f', f = f' + 1 := ⟨f - 1, by omega⟩
    rw [encM, List.append_assoc, List.append_assoc, List.length_cons, decM]
    simp only [decF_enc k f' _ hw.1 (by omega), decF_enc v f' _ hw.2.1 (by omega), decM_enc r f' t hw.2.2 (by omega)]
end
end AlgoVerif.Msgpack
