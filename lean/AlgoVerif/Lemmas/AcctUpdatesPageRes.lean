import AlgoVerif.Lemmas.AcctUpdatesPageResDb
/-! C10 (model pages): the code-shaped asset / application pages of the model (`pageRes` = lookupAssetResources /
lookupApplicationResources: delta walk, over-request by the number of in-memory deletions, dbHasMore / dbMaxID cut, delta-only and
creator-only merge with the early exit, sort, truncate) return exactly the first `limit` live resources of the history after the
cursor — on every state satisfying the invariant of C08, for histories with the ledger's creator discipline. -/
namespace AlgoVerif.Lemmas.PageRes
open AlgoVerif.Spec.LedgerHistory AlgoVerif.Model.AcctUpdates AlgoVerif.Lemmas.Pages AlgoVerif.Lemmas.AcctUpdates
open AlgoVerif.Lemmas.PageKv

/-! ### the pieces of `pageRes`, named -/

def prListed (t : CType) (a : Addr) (it : ResItem) : Bool :=
  match t with
  | .asset => it.hold.isSome
  | .app => it.hold.isSome || it.creator = some a

/-- a DB row patched with what the deltas say -/
def prPatch (dr : DeltaRes) (wp : Bool) (pd : DbResRow) : ResItem :=
  let hold := match AMap.get dr.holds pd.cidx with
    | some .deleted => none
    | some (.val n) => some n
    | _ => pd.hold
  let (creator, params) := match AMap.get dr.params pd.cidx with
    | some (.deleted, _) => (none, none)
    | some (.val n, ca) => (some ca, if wp then some n else none)
    | _ => match pd.creator with
      | some ca => (some ca, if wp then pd.params else none)
      | none => (none, none)
  ⟨pd.cidx, hold, creator, params⟩

def prFromDb (dr : DeltaRes) (a : Addr) (t : CType) (wp : Bool) (rows : List DbResRow) : List ResItem :=
  rows.filterMap (fun pd => if prListed t a (prPatch dr wp pd) then some (prPatch dr wp pd) else none)

def prInRange (rows : List DbResRow) (dbLimit : Nat) (c : Cidx) : Bool :=
  !(rows.any (fun r => r.cidx = c) || ((!rows.isEmpty && rows.length = dbLimit) && (rows.getLast?.map (·.cidx)).getD 0 < c))

/-- an entry that exists only in the deltas -/
def prMkDelta (db : DB) (dr : DeltaRes) (t : CType) (wp : Bool) (c : Cidx) : ResItem :=
  let hold := match AMap.get dr.holds c with | some (.val n) => some n | _ => none
  let (creator, params) := match AMap.get dr.params c with
    | some (.deleted, _) => (none, none)
    | some (.val n, ca) => (some ca, if wp then some n else none)
    | _ => dbCreatorParams db c t wp
  ⟨c, hold, creator, params⟩

/-- an app created by `a` whose creation is only in the deltas -/
def prMkCreator (dr : DeltaRes) (a : Addr) (wp : Bool) (c : Cidx) : ResItem :=
  let params := match AMap.get dr.params c with | some (.val n, _) => (if wp then some n else none) | _ => none
  ⟨c, none, some a, params⟩

def prDeltaOnly (dr : DeltaRes) (rows : List DbResRow) (dbLimit : Nat) : List Nat :=
  (dr.holds.filter (fun p => prInRange rows dbLimit p.1)).foldl (fun acc p => insertSorted p.1 acc) []

def prCreatorOnly (dr : DeltaRes) (a : Addr) (t : CType) (rows : List DbResRow) (dbLimit : Nat) : List Nat :=
  match t with
  | .asset => []
  | .app => (dr.params.filter (fun (p : Cidx × Part × Addr) =>
                prInRange rows dbLimit p.1 && p.2.1 ≠ Part.deleted && p.2.2 = a && (AMap.get dr.holds p.1).isNone)).foldl
              (fun (acc : List Nat) (p : Cidx × Part × Addr) => insertSorted p.1 acc) []

def prAcc1 (db : DB) (dr : DeltaRes) (a : Addr) (limit : Nat) (t : CType) (wp : Bool) (rows : List DbResRow) (dbLimit : Nat) :
    List ResItem × Nat × Bool :=
  (prDeltaOnly dr rows dbLimit).foldl (fun acc c =>
    prStep limit (prListed t a) true acc c (fun _ => prMkDelta db dr t wp c))
    (prFromDb dr a t wp rows, (((prFromDb dr a t wp rows).getLast?.map (·.cidx)).getD 0), false)

def prAcc2 (db : DB) (dr : DeltaRes) (a : Addr) (limit : Nat) (t : CType) (wp : Bool) (rows : List DbResRow) (dbLimit : Nat) :
    List ResItem × Nat × Bool :=
  (prCreatorOnly dr a t rows dbLimit).foldl (fun acc c =>
    prStep limit (prListed t a) false (acc.1, acc.2.1, false) c (fun _ => prMkCreator dr a wp c))
    ((prAcc1 db dr a limit t wp rows dbLimit).1, (prAcc1 db dr a limit t wp rows dbLimit).2.1, false)

theorem pageRes_eq (σ : State) (a : Addr) (gt limit : Nat) (t : CType) (wp : Bool) (hl : limit ≠ 0) (hr : σ.db.round = σ.dbRound) :
    pageRes σ a gt limit t wp =
      .ok ⟨((prAcc2 σ.db (deltaResWalk σ.deltas a gt t) a limit t wp
              (dbLimitedResources σ.db a gt (limit + (deltaResWalk σ.deltas a gt t).numDeleted) t)
              (limit + (deltaResWalk σ.deltas a gt t).numDeleted)).1.mergeSort (fun x y => x.cidx ≤ y.cidx)).take limit,
           σ.dbRound + σ.deltas.length⟩ := by
  unfold pageRes
  rw [if_neg hl]
  show (if ¬(σ.db.round = σ.dbRound ∨
      (dbLimitedResources σ.db a gt (limit + (deltaResWalk σ.deltas a gt t).numDeleted) t).isEmpty = true) then _ else _) = _
  rw [if_neg (fun h => h (Or.inl hr))]
  rfl

/-! ### every entry of the page is the oracle's item -/

/-- the item the code assembles from a DB holding, a DB creator / params pair and the collected delta entries -/
def specItem (dr : DeltaRes) (dbHold : Option Nat) (base : Option Addr × Option Nat) (wp : Bool) (c : Cidx) : ResItem :=
  ⟨c, effHold dr dbHold c, (effCP dr base c).1, if wp then (effCP dr base c).2 else none⟩

/-- the oracle's item of an index at the latest round -/
def item (σ : State) (a : Addr) (t : CType) (wp : Bool) (c : Cidx) : ResItem := resItem σ.hist σ.latest a t wp c

theorem item_cidx (σ : State) (a : Addr) (t : CType) (wp : Bool) (c : Cidx) : (item σ a t wp c).cidx = c := rfl

theorem item_eq_spec (ct : Cidx → CType) (σ : State) (h : Inv ct σ) (hw : ResWF ct σ.hist) (a : Addr) (gt : Nat) (t : CType) (wp : Bool)
    (c : Cidx) (hgt : gt < c) (hct : ct c = t) :
    item σ a t wp c =
      specItem (deltaResWalk σ.deltas a gt t) (resAt σ.hist σ.dbRound a c t).hold (crParams σ.hist σ.dbRound c t) wp c := by
  subst hct
  have e1 := effHold_spec ct σ h a gt (ct c) c hgt σ.deltas.length (Nat.le_refl _)
  have e2 := effCP_spec ct σ h hw a gt c hgt σ.deltas.length (Nat.le_refl _)
  rw [List.take_length] at e1 e2
  unfold item resItem specItem
  rw [e1, e2, creatorAt_eq_raw ct σ.hist h.wf]
  rfl

theorem prPatch_eq (dr : DeltaRes) (wp : Bool) (pd : DbResRow) (hp : pd.creator = none → pd.params = none) :
    prPatch dr wp pd = specItem dr pd.hold (pd.creator, pd.params) wp pd.cidx := by
  unfold prPatch specItem effHold effCP
  cases AMap.get dr.params pd.cidx with
  | none =>
    cases hc : pd.creator with
    | none => rw [hp hc]; cases wp <;> rfl
    | some ca => rfl
  | some v =>
    obtain ⟨p, x⟩ := v
    cases p with
    | absent =>
      cases hc : pd.creator with
      | none => rw [hp hc]; cases wp <;> rfl
      | some ca => rfl
    | deleted => cases wp <;> rfl
    | val n => rfl

theorem prMkDelta_eq (ct : Cidx → CType) (σ : State) (h : Inv ct σ) (dr : DeltaRes) (wp : Bool) (c : Cidx) :
    prMkDelta σ.db dr (ct c) wp c = specItem dr none (crParams σ.hist σ.dbRound c (ct c)) wp c := by
  unfold prMkDelta specItem effHold effCP
  rw [dbCreatorParams_spec ct σ h c wp]
  have hh : (match AMap.get dr.holds c with | some (.val n) => some n | _ => none) =
      (match AMap.get dr.holds c with | some .deleted => none | some (.val n) => some n | _ => none) := by
    cases AMap.get dr.holds c with
    | none => rfl
    | some p => cases p <;> rfl
  rw [hh]
  cases AMap.get dr.params c with
  | none => rfl
  | some v =>
    obtain ⟨p, x⟩ := v
    cases p with
    | absent => rfl
    | deleted => cases wp <;> rfl
    | val n => rfl

theorem prMkDelta_cidx (db : DB) (dr : DeltaRes) (t : CType) (wp : Bool) (c : Cidx) : (prMkDelta db dr t wp c).cidx = c := rfl

theorem prMkCreator_cidx (dr : DeltaRes) (a : Addr) (wp : Bool) (c : Cidx) : (prMkCreator dr a wp c).cidx = c := rfl

theorem prMkCreator_eq (dr : DeltaRes) (a : Addr) (wp : Bool) (c : Cidx) (n : Nat) (base : Option Addr × Option Nat)
    (hp : AMap.get dr.params c = some (.val n, a)) (hh : AMap.get dr.holds c = none) :
    prMkCreator dr a wp c = specItem dr none base wp c := by
  unfold prMkCreator specItem effHold effCP
  rw [hp, hh]

/-! ### small list facts -/

theorem le_last_of_sorted {α : Type} (key : α → Nat) (l : List α) (hs : l.Pairwise (fun x y => key x < key y)) :
    ∀ x ∈ l, key x ≤ (l.getLast?.map key).getD 0 := by
  intro x hx
  cases hl : l.getLast? with
  | none =>
    cases l with
    | nil => simp at hx
    | cons a t => simp [List.getLast?_cons] at hl
  | some y =>
    obtain ⟨ys, rfl⟩ := List.getLast?_eq_some_iff.mp hl
    simp only [Option.map_some, Option.getD_some]
    rw [List.pairwise_append] at hs
    rcases List.mem_append.mp hx with hx | hx
    · exact Nat.le_of_lt (hs.2.2 x hx y (by simp))
    · simp at hx; subst hx; exact Nat.le_refl _

theorem filter_or_length_le {α : Type} (p q r : α → Bool) (l : List α) (h : ∀ x ∈ l, p x = true → q x = true ∨ r x = true) :
    (l.filter p).length ≤ (l.filter q).length + (l.filter r).length := by
  induction l with
  | nil => simp
  | cons a t ih =>
    have ih' := ih (fun x hx => h x (by simp [hx]))
    have ha := h a (by simp)
    simp only [List.filter_cons]
    cases hp : p a <;> cases hq : q a <;> cases hr : r a <;> simp [hp, hq, hr] at ha ⊢ <;> omega

theorem length_filter_add_not {α : Type} (p : α → Bool) (l : List α) :
    l.length = (l.filter p).length + (l.filter (fun x => !p x)).length := by
  induction l with
  | nil => rfl
  | cons a t ih =>
    simp only [List.filter_cons, List.length_cons]
    cases p a <;> simp <;> omega

def optSat {V : Type} (q : V → Bool) (o : Option V) : Bool :=
  match o with
  | some v => q v
  | none => false

/-- ids of a duplicate-free list that a map (with unique keys) sends to a value satisfying `q` are no more than such entries -/
theorem count_le_filter {V : Type} (m : AMap Nat V) (q : V → Bool) (l : List Nat) (hl : l.Nodup) (d : V) :
    (l.filter (fun c => optSat q (AMap.get m c))).length ≤ (m.filter (fun p => q p.2)).length := by
  have hS : ((l.filter (fun c => optSat q (AMap.get m c))).map
      (fun c => (c, (AMap.get m c).getD d))).Nodup := by
    have hf : (l.filter (fun c => optSat q (AMap.get m c))).Nodup :=
      hl.sublist List.filter_sublist
    unfold List.Nodup at hf ⊢
    rw [List.pairwise_map]
    exact hf.imp (fun {a b} hab e => hab (by simpa using congrArg Prod.fst e))
  have := hS.length_le_of_subset (l₂ := m.filter (fun p => q p.2)) (by
    intro x hx
    rw [List.mem_map] at hx
    obtain ⟨c, hc, rfl⟩ := hx
    rw [List.mem_filter] at hc
    obtain ⟨_, hq⟩ := hc
    cases hg : AMap.get m c with
    | none => rw [hg] at hq; simp [optSat] at hq
    | some v =>
      rw [hg] at hq
      simp only [optSat] at hq
      simp only [Option.getD_some]
      rw [List.mem_filter]
      exact ⟨get_some_mem hg, hq⟩)
  simpa using this

/-! ### what is listed has the queried creatable type and occurs in the history -/

theorem resAt_ne_ct (ct : Cidx → CType) (h : History) (hwf : HistWF ct h) (r : Nat) (a : Addr) (c : Cidx) (t : CType)
    (hne : (resAt h r a c t).isEmpty = false) : ct c = t ∧ c ∈ h.cidxs := by
  unfold resAt at hne
  cases hl : lastIn (fun d => d.res? a c t) (h.upTo r) with
  | none => rw [hl] at hne; simp [ResVal.isEmpty] at hne
  | some v =>
    obtain ⟨d, hd, hf⟩ := lastIn_mem _ _ _ hl
    unfold Delta.res? at hf
    cases hrec : d.resRec? a c t with
    | none => rw [hrec] at hf; simp at hf
    | some rr =>
      obtain ⟨hm, _, h2, h3⟩ := resRec?_some d a c t rr hrec
      have hdb : d ∈ h.blocks := List.mem_of_mem_take hd
      refine ⟨by rw [← h3, ← h2]; exact ((hwf.deltas d hdb).ctR rr hm).symm, ?_⟩
      unfold History.cidxs
      rw [List.mem_flatMap]
      exact ⟨d, hdb, by rw [List.mem_append, List.mem_map]; exact Or.inl ⟨rr, hm, h2⟩⟩

theorem creatorAt_some_ct (ct : Cidx → CType) (h : History) (hwf : HistWF ct h) (r : Nat) (c : Cidx) (t : CType) (a : Addr)
    (hc : creatorAt h r c t = some a) : ct c = t ∧ c ∈ h.cidxs := by
  unfold creatorAt at hc
  cases hl : lastIn (fun d => d.creat? c) (h.upTo r) with
  | none => rw [hl] at hc; simp at hc
  | some m =>
    rw [hl] at hc
    simp only [creatorOfMod] at hc
    by_cases hcond : (m.created && m.ctype == t) = true
    · simp only [Bool.and_eq_true, beq_iff_eq] at hcond
      obtain ⟨d, hd, hf⟩ := lastIn_mem _ _ _ hl
      unfold Delta.creat? at hf
      have hm := List.mem_of_find?_eq_some hf
      have hk : m.cidx = c := by simpa using List.find?_some hf
      have hdb : d ∈ h.blocks := List.mem_of_mem_take hd
      refine ⟨by rw [← hcond.2, ← hk]; exact ((hwf.deltas d hdb).ctC m hm).symm, ?_⟩
      unfold History.cidxs
      rw [List.mem_flatMap]
      exact ⟨d, hdb, by rw [List.mem_append, List.mem_map, List.mem_map]; exact Or.inr ⟨m, hm, hk⟩⟩
    · simp [hcond] at hc

theorem isEmpty_false_of_hold (v : ResVal) (h : v.hold.isSome = true) : v.isEmpty = false := by
  unfold ResVal.isEmpty
  cases hh : v.hold with
  | none => rw [hh] at h; simp at h
  | some n => simp

theorem listed_ct (ct : Cidx → CType) (σ : State) (h : Inv ct σ) (a : Addr) (t : CType) (wp : Bool) (c : Cidx)
    (hP : prListed t a (item σ a t wp c) = true) : ct c = t ∧ c ∈ σ.hist.cidxs := by
  cases t with
  | asset =>
    exact resAt_ne_ct ct σ.hist h.wf σ.latest a c .asset (isEmpty_false_of_hold _ hP)
  | app =>
    simp only [prListed, Bool.or_eq_true, decide_eq_true_eq] at hP
    rcases hP with hP | hP
    · exact resAt_ne_ct ct σ.hist h.wf σ.latest a c .app (isEmpty_false_of_hold _ hP)
    · exact creatorAt_some_ct ct σ.hist h.wf σ.latest c .app a hP

/-! ### the DB rows of the page -/

theorem patch_item (ct : Cidx → CType) (σ : State) (h : Inv ct σ) (hn : DbResNodup σ) (hw : ResWF ct σ.hist)
    (a : Addr) (gt : Nat) (t : CType) (wp : Bool) (r : (Addr × Cidx) × ResRow) (hr : r ∈ dbResSorted σ.db a gt t) :
    prPatch (deltaResWalk σ.deltas a gt t) wp (dbJoin σ.db r) = item σ a t wp r.1.2 := by
  obtain ⟨_, hrow, _⟩ := dbResSorted_facts ct σ h hn a gt t
  obtain ⟨_, hgt, hct, hval, _⟩ := hrow r hr
  have hcr := dbJoin_creator ct σ h hw r
  rw [hct] at hcr
  have hp : (dbJoin σ.db r).creator = none → (dbJoin σ.db r).params = none := by
    intro hc
    have h1 := congrArg Prod.fst hcr
    have h2 := congrArg Prod.snd hcr
    simp only [crParams] at h1 h2
    rw [hc] at h1
    rw [h2, ← h1]; rfl
  rw [prPatch_eq _ _ _ hp, hcr, dbJoin_cidx, dbJoin_hold, hval, item_eq_spec ct σ h hw a gt t wp r.1.2 hgt hct]

theorem prFromDb_eq (ct : Cidx → CType) (σ : State) (h : Inv ct σ) (hn : DbResNodup σ) (hw : ResWF ct σ.hist)
    (a : Addr) (gt : Nat) (t : CType) (wp : Bool) (l : List ((Addr × Cidx) × ResRow)) (hl : ∀ r ∈ l, r ∈ dbResSorted σ.db a gt t) :
    prFromDb (deltaResWalk σ.deltas a gt t) a t wp (l.map (dbJoin σ.db)) =
      ((l.map (·.1.2)).filter (fun c => prListed t a (item σ a t wp c))).map (item σ a t wp) := by
  induction l with
  | nil => rfl
  | cons r l' ih =>
    have ih' := ih (fun x hx => hl x (by simp [hx]))
    unfold prFromDb at ih' ⊢
    simp only [List.map_cons, List.filterMap_cons, List.filter_cons]
    rw [patch_item ct σ h hn hw a gt t wp r (hl r (by simp)), ih']
    by_cases hP : prListed t a (item σ a t wp r.1.2) = true
    · simp [hP]
    · simp [hP]

theorem prInRange_iff (rows : List DbResRow) (dbLimit : Nat) (c : Cidx) :
    prInRange rows dbLimit c = true ↔
      c ∉ rows.map (·.cidx) ∧ ¬ (rows ≠ [] ∧ rows.length = dbLimit ∧ ((rows.map (·.cidx)).getLast?).getD 0 < c) := by
  unfold prInRange
  rw [List.getLast?_map]
  simp only [Bool.not_eq_true', Bool.or_eq_false_iff, List.any_eq_false, decide_eq_true_eq, Bool.and_eq_false_imp,
    Bool.and_eq_true, Bool.not_eq_true', List.isEmpty_eq_false_iff, decide_eq_false_iff_not, List.mem_map, not_exists, not_and]
  constructor
  · rintro ⟨h1, h2⟩
    exact ⟨fun x hx e => h1 x hx e, fun hne hlen => h2 ⟨hne, hlen⟩⟩
  · rintro ⟨h1, h2⟩
    exact ⟨fun x hx e => h1 x hx e, fun hh => h2 hh.1 hh.2⟩

/-- ids in range that are not page rows are not rows of the account at all: the DB page is a prefix of the account's rows and,
    when it is full, everything beyond its last id is out of range -/
theorem inRange_notR (ids : List Nat) (hs : ids.Pairwise (fun x y => x < y)) (k : Nat) (hk : 0 < k) (rows : List DbResRow)
    (hrows : rows.map (·.cidx) = ids.take k) (c : Nat) (hin : prInRange rows k c = true) : c ∉ ids := by
  rw [prInRange_iff, hrows] at hin
  obtain ⟨h1, h2⟩ := hin
  intro hc
  rw [← List.take_append_drop k ids, List.mem_append] at hc
  rcases hc with hc | hc
  · exact h1 hc
  · apply h2
    have hlt : k < ids.length := by
      have : 0 < (ids.drop k).length := List.length_pos_of_mem hc
      rw [List.length_drop] at this; omega
    have hlen : rows.length = k := by
      have := congrArg List.length hrows
      rw [List.length_map, List.length_take] at this; omega
    have hne : rows ≠ [] := by intro e; rw [e] at hlen; simp at hlen; omega
    refine ⟨hne, hlen, ?_⟩
    cases hl : (ids.take k).getLast? with
    | none =>
      have : ids.take k = [] := by
        cases ht : ids.take k with
        | nil => rfl
        | cons x xs => rw [ht] at hl; simp [List.getLast?_cons] at hl
      have := congrArg List.length this
      rw [List.length_take, List.length_nil] at this; omega
    | some m =>
      simp only [Option.getD_some]
      have hm : m ∈ ids.take k := List.mem_of_getLast? hl
      rw [← List.take_append_drop k ids, List.pairwise_append] at hs
      exact hs.2.2 m hm c hc

/-- an id outside the page rows and out of range lies beyond every page row, and the DB page is full -/
theorem outRange_cut (ids : List Nat) (hs : ids.Pairwise (fun x y => x < y)) (k : Nat) (rows : List DbResRow)
    (hrows : rows.map (·.cidx) = ids.take k) (c : Nat) (hnr : c ∉ ids.take k) (hout : prInRange rows k c = false) :
    rows.length = k ∧ ∀ x ∈ ids.take k, x < c := by
  have hn : ¬ (prInRange rows k c = true) := by rw [hout]; simp
  rw [prInRange_iff, hrows] at hn
  have : rows ≠ [] ∧ rows.length = k ∧ ((ids.take k).getLast?).getD 0 < c := by
    by_cases hh : rows ≠ [] ∧ rows.length = k ∧ ((ids.take k).getLast?).getD 0 < c
    · exact hh
    · exact absurd ⟨hnr, hh⟩ hn
  refine ⟨this.2.1, fun x hx => ?_⟩
  have hsort : (ids.take k).Pairwise (fun x y => x < y) := hs.sublist (List.take_sublist _ _)
  have := le_last_of_sorted (fun (x : Nat) => x) (ids.take k) hsort x hx
  simp only [Option.map_id'] at this
  exact Nat.lt_of_le_of_lt this ‹rows ≠ [] ∧ rows.length = k ∧ ((ids.take k).getLast?).getD 0 < c›.2.2

/-! ### where the collected entries come from -/

theorem holds_key_facts (ct : Cidx → CType) (σ : State) (h : Inv ct σ) (a : Addr) (gt : Nat) (t : CType) (c : Cidx) (p : Part)
    (hg : AMap.get (deltaResWalk σ.deltas a gt t).holds c = some p) : gt < c ∧ ct c = t ∧ c ∈ σ.hist.cidxs := by
  obtain ⟨d, hd, r, hr, h1, h2, _, h4, _, _⟩ := walk_holds_some a gt t σ.deltas c p hg
  have hdb := h.deltas_sub d hd
  refine ⟨by rw [← h4]; exact h2, by rw [← h1, ← h4]; exact ((h.wf.deltas d hdb).ctR r hr).symm, ?_⟩
  unfold History.cidxs
  rw [List.mem_flatMap]
  exact ⟨d, hdb, by rw [List.mem_append, List.mem_map]; exact Or.inl ⟨r, hr, h4⟩⟩

theorem params_key_facts (ct : Cidx → CType) (σ : State) (h : Inv ct σ) (a : Addr) (gt : Nat) (t : CType) (c : Cidx) (p : Part × Addr)
    (hg : AMap.get (deltaResWalk σ.deltas a gt t).params c = some p) : gt < c ∧ ct c = t ∧ c ∈ σ.hist.cidxs := by
  obtain ⟨d, hd, r, hr, h1, h2, h4, _, _⟩ := walk_params_some a gt t σ.deltas c p hg
  have hdb := h.deltas_sub d hd
  refine ⟨by rw [← h4]; exact h2, by rw [← h1, ← h4]; exact ((h.wf.deltas d hdb).ctR r hr).symm, ?_⟩
  unfold History.cidxs
  rw [List.mem_flatMap]
  exact ⟨d, hdb, by rw [List.mem_append, List.mem_map]; exact Or.inl ⟨r, hr, h4⟩⟩

theorem foldl_insert_map {α : Type} (l : List α) (f : α → Nat) :
    l.foldl (fun acc p => insertSorted (f p) acc) [] = (l.map f).foldl (fun acc k => insertSorted k acc) [] := by
  rw [List.foldl_map]

theorem prDeltaOnly_spec (dr : DeltaRes) (rows : List DbResRow) (k : Nat) :
    (∀ c, c ∈ prDeltaOnly dr rows k ↔ c ∈ AMap.keys dr.holds ∧ prInRange rows k c = true) ∧
    (prDeltaOnly dr rows k).Pairwise (fun x y => x ≤ y) ∧
    ((AMap.keys dr.holds).Nodup → (prDeltaOnly dr rows k).Nodup) := by
  unfold prDeltaOnly
  rw [foldl_insert_map]
  obtain ⟨hperm, hsort⟩ := insFold_spec ((dr.holds.filter (fun p => prInRange rows k p.1)).map (·.1)) [] (by simp)
  rw [List.append_nil] at hperm
  refine ⟨fun c => ?_, hsort, fun hn => hperm.nodup_iff.mpr (hn.sublist (List.filter_sublist.map _))⟩
  rw [hperm.mem_iff, List.mem_map]
  unfold AMap.keys
  rw [List.mem_map]
  constructor
  · rintro ⟨p, hp, rfl⟩
    rw [List.mem_filter] at hp
    exact ⟨⟨p, hp.1, rfl⟩, hp.2⟩
  · rintro ⟨⟨p, hp, rfl⟩, hin⟩
    exact ⟨p, List.mem_filter.mpr ⟨hp, hin⟩, rfl⟩

theorem prCreatorOnly_spec (dr : DeltaRes) (a : Addr) (t : CType) (rows : List DbResRow) (k : Nat) :
    (∀ c, c ∈ prCreatorOnly dr a t rows k ↔ t = .app ∧ ∃ p, (c, p) ∈ dr.params ∧ prInRange rows k c = true ∧ p.1 ≠ .deleted ∧
        p.2 = a ∧ AMap.get dr.holds c = none) ∧
    (prCreatorOnly dr a t rows k).Pairwise (fun x y => x ≤ y) ∧
    ((AMap.keys dr.params).Nodup → (prCreatorOnly dr a t rows k).Nodup) := by
  cases t with
  | asset => exact ⟨fun c => by simp [prCreatorOnly], by simp [prCreatorOnly], fun _ => by simp [prCreatorOnly]⟩
  | app =>
    unfold prCreatorOnly
    simp only []
    rw [foldl_insert_map]
    obtain ⟨hperm, hsort⟩ := insFold_spec ((dr.params.filter (fun (p : Cidx × Part × Addr) =>
      prInRange rows k p.1 && p.2.1 ≠ Part.deleted && p.2.2 = a && (AMap.get dr.holds p.1).isNone)).map (·.1)) [] (by simp)
    rw [List.append_nil] at hperm
    refine ⟨fun c => ?_, hsort, fun hn => hperm.nodup_iff.mpr (hn.sublist (List.filter_sublist.map _))⟩
    rw [hperm.mem_iff, List.mem_map]
    constructor
    · rintro ⟨⟨c', p⟩, hp, rfl⟩
      rw [List.mem_filter] at hp
      obtain ⟨hm, hc⟩ := hp
      simp only [Bool.and_eq_true, decide_eq_true_eq, Option.isNone_iff_eq_none] at hc
      exact ⟨by trivial, p, hm, hc.1.1.1, hc.1.1.2, hc.1.2, hc.2⟩
    · rintro ⟨_, p, hm, h1, h2, h3, h4⟩
      refine ⟨(c, p), List.mem_filter.mpr ⟨hm, ?_⟩, rfl⟩
      simp only [Bool.and_eq_true, decide_eq_true_eq, Option.isNone_iff_eq_none]
      exact ⟨⟨⟨h1, h2⟩, h3⟩, h4⟩

/-! ### the over-request: a DB row that the deltas remove from the listing was deleted in memory -/

theorem isSome_params_of_nonempty (v : ResVal) (hne : v.isEmpty = false) (hh : v.hold = none) : v.params.isSome = true := by
  unfold ResVal.isEmpty at hne
  rw [hh] at hne
  cases hp : v.params with
  | none => rw [hp] at hne; simp at hne
  | some n => rfl

theorem not_listed_deleted (ct : Cidx → CType) (σ : State) (h : Inv ct σ) (hw : ResWF ct σ.hist) (a : Addr) (gt : Nat) (t : CType)
    (wp : Bool) (c : Cidx) (hgt : gt < c) (hct : ct c = t) (hne : (resAt σ.hist σ.dbRound a c t).isEmpty = false)
    (hP : prListed t a (item σ a t wp c) = false) :
    AMap.get (deltaResWalk σ.deltas a gt t).holds c = some .deleted ∨
    ∃ x, AMap.get (deltaResWalk σ.deltas a gt t).params c = some (.deleted, x) := by
  rw [item_eq_spec ct σ h hw a gt t wp c hgt hct] at hP
  have hcp := effCP_spec ct σ h hw a gt c hgt σ.deltas.length (Nat.le_refl _)
  rw [List.take_length, hct] at hcp
  generalize deltaResWalk σ.deltas a gt t = dr at hP hcp ⊢
  unfold specItem at hP
  -- the holding part
  have hhold : AMap.get dr.holds c = some .deleted ∨ (effHold dr (resAt σ.hist σ.dbRound a c t).hold c).isSome = true ∨
      effHold dr (resAt σ.hist σ.dbRound a c t).hold c = (resAt σ.hist σ.dbRound a c t).hold := by
    unfold effHold
    cases AMap.get dr.holds c with
    | none => right; right; rfl
    | some p =>
      cases p with
      | absent => right; right; rfl
      | deleted => left; rfl
      | val n => right; left; rfl
  rcases hhold with hd | hs | he
  · exact Or.inl hd
  · exfalso
    cases t <;> simp [prListed, hs] at hP
  · rw [he] at hP
    have hnone : (resAt σ.hist σ.dbRound a c t).hold = none := by
      cases hv : (resAt σ.hist σ.dbRound a c t).hold with
      | none => rfl
      | some n => exfalso; rw [hv] at hP; cases t <;> simp [prListed] at hP
    have hpar := isSome_params_of_nonempty _ hne hnone
    cases t with
    | asset =>
      have := hw.assetCreatorHolds σ.dbRound a c hct hpar
      rw [hnone] at this; simp at this
    | app =>
      have hcr : creatorRaw σ.hist σ.dbRound c = some a := (hw.paramsCreator σ.dbRound a c).mp (by rw [hct]; exact hpar)
      have hne' : (effCP dr (crParams σ.hist σ.dbRound c .app) c).1 ≠ some a := by
        intro e
        simp [prListed, hnone, e] at hP
      right
      unfold effCP at hne' hcp
      cases hp : AMap.get dr.params c with
      | none =>
        rw [hp] at hne'
        exact absurd hcr hne'
      | some v =>
        obtain ⟨p, x⟩ := v
        rw [hp] at hne' hcp
        cases p with
        | absent => exact absurd hcr hne'
        | deleted => exact ⟨x, rfl⟩
        | val n =>
          exfalso
          simp only [] at hne' hcp
          have hlat : creatorRaw σ.hist (σ.dbRound + σ.deltas.length) c = some x := by
            have := congrArg Prod.fst hcp
            simpa [crParams] using this.symm
          have := creatorRaw_stable ct σ.hist h.wf c σ.dbRound a hcr (σ.dbRound + σ.deltas.length) x (by omega) hlat
          exact hne' (by rw [this])

theorem overRequest (ct : Cidx → CType) (σ : State) (h : Inv ct σ) (hn : DbResNodup σ) (hw : ResWF ct σ.hist)
    (a : Addr) (gt limit : Nat) (t : CType) (wp : Bool)
    (hfull : ((dbResSorted σ.db a gt t).take (limit + (deltaResWalk σ.deltas a gt t).numDeleted)).length =
      limit + (deltaResWalk σ.deltas a gt t).numDeleted) :
    limit ≤ ((((dbResSorted σ.db a gt t).take (limit + (deltaResWalk σ.deltas a gt t).numDeleted)).map (·.1.2)).filter
      (fun c => prListed t a (item σ a t wp c))).length := by
  obtain ⟨hsorted, hrow, _⟩ := dbResSorted_facts ct σ h hn a gt t
  have hcount := walk_count a gt t σ.deltas
  generalize hdr : deltaResWalk σ.deltas a gt t = dr at hfull hcount ⊢
  generalize hk : limit + dr.numDeleted = k at hfull ⊢
  have hids : (((dbResSorted σ.db a gt t).take k).map (·.1.2)).Pairwise (fun x y => x < y) := by
    rw [List.map_take]; exact hsorted.sublist (List.take_sublist _ _)
  have hnd : (((dbResSorted σ.db a gt t).take k).map (·.1.2)).Nodup :=
    hids.imp (fun {x y} hxy e => by subst e; exact Nat.lt_irrefl _ hxy)
  have hlen : (((dbResSorted σ.db a gt t).take k).map (·.1.2)).length = k := by rw [List.length_map]; exact hfull
  have hbad : ∀ c ∈ ((dbResSorted σ.db a gt t).take k).map (·.1.2), (!prListed t a (item σ a t wp c)) = true →
      optSat (fun v => decide (v = Part.deleted)) (AMap.get dr.holds c) = true ∨
      optSat (fun (v : Part × Addr) => decide (v.1 = Part.deleted)) (AMap.get dr.params c) = true := by
    intro c hc hP
    rw [List.mem_map] at hc
    obtain ⟨r, hr, rfl⟩ := hc
    obtain ⟨_, hgt, hct, _, hne⟩ := hrow r (List.mem_of_mem_take hr)
    have := not_listed_deleted ct σ h hw a gt t wp r.1.2 hgt hct hne (by simpa using hP)
    rw [hdr] at this
    rcases this with hd | ⟨x, hd⟩
    · left; rw [hd]; simp [optSat]
    · right; rw [hd]; simp [optSat]
  have h1 := filter_or_length_le (fun c => !prListed t a (item σ a t wp c)) _ _ _ hbad
  have h2 := count_le_filter dr.holds (fun v => decide (v = Part.deleted)) _ hnd Part.absent
  have h3 := count_le_filter dr.params (fun (v : Part × Addr) => decide (v.1 = Part.deleted)) _ hnd (Part.absent, 0)
  have h4 := length_filter_add_not (fun c => prListed t a (item σ a t wp c)) (((dbResSorted σ.db a gt t).take k).map (·.1.2))
  have hF : ((((dbResSorted σ.db a gt t).take k).map (·.1.2)).filter (fun c => !prListed t a (item σ a t wp c))).length ≤
      dr.numDeleted := by
    rw [hcount]
    exact Nat.le_trans h1 (by rw [Nat.add_comm]; exact Nat.add_le_add h3 h2)
  rw [hlen] at h4
  omega

/-! ### the page theorem -/

/-- the sorted live resources of the account after the cursor, as the oracle lists them -/
def live (σ : State) (a : Addr) (t : CType) (wp : Bool) (gt : Nat) : List ResItem :=
  (sortedIds σ.hist.cidxs (fun c => prListed t a (item σ a t wp c)) gt).map (item σ a t wp)

theorem filter_map_item (σ : State) (a : Addr) (t : CType) (wp : Bool) (I : List Nat) (c : Nat) :
    ((I.map (item σ a t wp)).filter (fun it => it.cidx < c)).length = (I.filter (fun x => x < c)).length := by
  rw [List.filter_map, List.length_map]
  rfl

theorem pageRes_spec (ct : Cidx → CType) (σ : State) (h : Inv ct σ) (hn : DbResNodup σ) (hw : ResWF ct σ.hist)
    (a : Addr) (gt limit : Nat) (hl : 0 < limit) (t : CType) (wp : Bool) :
    pageRes σ a gt limit t wp = .ok ⟨(live σ a t wp gt).take limit, σ.latest⟩ := by
  rw [pageRes_eq σ a gt limit t wp (by omega) h.dbr]
  show Except.ok (ResPageOut.mk _ _) = Except.ok (ResPageOut.mk _ (σ.dbRound + σ.deltas.length))
  congr 2
  -- names
  obtain ⟨hRsorted, hRrow, hRmem⟩ := dbResSorted_facts ct σ h hn a gt t
  have hover := overRequest ct σ h hn hw a gt limit t wp
  have hHn := walk_holds_nodup a gt t σ.deltas
  have hPn := walk_params_nodup a gt t σ.deltas
  have hHk := holds_key_facts ct σ h a gt t
  have hPk := params_key_facts ct σ h a gt t
  have hitem := fun c hgt hct => item_eq_spec ct σ h hw a gt t wp c hgt hct
  have hcpLatest := fun c hgt => effCP_spec ct σ h hw a gt c hgt σ.deltas.length (Nat.le_refl _)
  rw [dbLimitedResources_eq]
  generalize hdr : deltaResWalk σ.deltas a gt t = dr at hover hHn hPn hHk hPk hitem hcpLatest ⊢
  generalize hk : limit + dr.numDeleted = k at hover ⊢
  have hkpos : 0 < k := by omega
  generalize hRs : dbResSorted σ.db a gt t = Rs at hRsorted hRrow hRmem hover ⊢
  have hfromDb := prFromDb_eq ct σ h hn hw a gt t wp (Rs.take k) (fun r hr => by rw [hRs]; exact List.mem_of_mem_take hr)
  rw [hdr] at hfromDb
  -- the ids of the DB page
  have hrowsIds : ((Rs.take k).map (dbJoin σ.db)).map (·.cidx) = (Rs.map (·.1.2)).take k := by
    rw [List.map_map, List.map_take]
    congr 1
    exact List.map_congr_left (fun r _ => by simp [dbJoin_cidx])
  have hrowsLen : ((Rs.take k).map (dbJoin σ.db)).length = (Rs.take k).length := List.length_map _
  generalize hrows : (Rs.take k).map (dbJoin σ.db) = rows at hfromDb hrowsIds hrowsLen ⊢
  have hIdsEq : (Rs.take k).map (·.1.2) = (Rs.map (·.1.2)).take k := by rw [List.map_take]
  rw [hIdsEq] at hfromDb hover
  generalize hids : Rs.map (·.1.2) = ids at hRsorted hRmem hfromDb hrowsIds hover
  have hidsFacts : ∀ c ∈ ids, gt < c ∧ ct c = t ∧ (resAt σ.hist σ.dbRound a c t).isEmpty = false := by
    intro c hc
    rw [← hids, List.mem_map] at hc
    obtain ⟨r, hr, rfl⟩ := hc
    obtain ⟨_, g1, g2, _, g4⟩ := hRrow r hr
    exact ⟨g1, g2, g4⟩
  have hrowIdsSorted : (ids.take k).Pairwise (fun x y => x < y) := hRsorted.sublist (List.take_sublist _ _)
  have hrowIdsNodup : (ids.take k).Nodup := hrowIdsSorted.imp (fun {x y} hxy e => by subst e; exact Nat.lt_irrefl _ hxy)
  have hfullLen : rows.length = k → (Rs.take k).length = k := fun e => by rw [← hrowsLen]; exact e
  -- the three id lists
  obtain ⟨hcs1mem, hcs1sorted, hcs1nodup⟩ := prDeltaOnly_spec dr rows k
  obtain ⟨hcs2mem, hcs2sorted, hcs2nodup⟩ := prCreatorOnly_spec dr a t rows k
  have hnotR := fun c hin => inRange_notR ids hRsorted k hkpos rows hrowsIds c hin
  have hcut := fun c hnr hout => outRange_cut ids hRsorted k rows hrowsIds c hnr hout
  have hemptyOf : ∀ c, gt < c → ct c = t → c ∉ ids → resAt σ.hist σ.dbRound a c t = {} := by
    intro c hgt hct hc
    cases he : (resAt σ.hist σ.dbRound a c t).isEmpty with
    | true => exact (resVal_isEmpty _).mp he
    | false => exact absurd (hRmem c hgt hct he) hc
  -- the items assembled for delta-only ids
  have hmkD : ∀ c ∈ prDeltaOnly dr rows k, prMkDelta σ.db dr t wp c = item σ a t wp c := by
    intro c hc
    obtain ⟨hkey, hin⟩ := (hcs1mem c).mp hc
    obtain ⟨p, hg⟩ : ∃ p, AMap.get dr.holds c = some p := by
      have := get_isSome_of_mem_keys (m := dr.holds) hkey
      cases hg : AMap.get dr.holds c with
      | none => rw [hg] at this; simp at this
      | some p => exact ⟨p, rfl⟩
    obtain ⟨hgt, hct, _⟩ := hHk c p hg
    rw [hitem c hgt hct, hemptyOf c hgt hct (hnotR c hin), ← hct]
    exact prMkDelta_eq ct σ h dr wp c
  have hmkC : ∀ c ∈ prCreatorOnly dr a t rows k, prMkCreator dr a wp c = item σ a t wp c := by
    intro c hc
    obtain ⟨_, p, hm, hin, hnd, hpa, hhn⟩ := (hcs2mem c).mp hc
    have hg : AMap.get dr.params c = some p := get_of_mem_nodup hPn hm
    obtain ⟨hgt, hct, _⟩ := hPk c p hg
    obtain ⟨pp, px⟩ := p
    simp only [] at hnd hpa
    obtain rfl := hpa.symm
    rw [hitem c hgt hct, hemptyOf c hgt hct (hnotR c hin)]
    cases pp with
    | deleted => exact absurd rfl hnd
    | absent =>
      exfalso
      obtain ⟨d, _, r, _, _, _, _, hne, he⟩ := walk_params_some a gt t σ.deltas c _ (by rw [hdr]; exact hg)
      simp only [Prod.mk.injEq] at he
      exact hne he.1.symm
    | val n => exact prMkCreator_eq dr a wp c n _ hg hhn
  -- loop 1
  have hJ0 : LoopInv limit (prFromDb dr a t wp rows, ((prFromDb dr a t wp rows).getLast?.map (·.cidx)).getD 0, false)
      (prDeltaOnly dr rows k) := by
    refine ⟨?_, by intro e; simp at e⟩
    simp only []
    apply le_last_of_sorted (fun (it : ResItem) => it.cidx)
    rw [hfromDb, List.pairwise_map]
    exact (hrowIdsSorted.sublist List.filter_sublist).imp (fun {x y} hxy => hxy)
  obtain ⟨sub1, hsub1, hacc1, hl1, hb1, hcov1⟩ := loop_spec limit (prListed t a) true false (prMkDelta σ.db dr t wp)
    (prMkDelta_cidx σ.db dr t wp) (prDeltaOnly dr rows k) hcs1sorted _ hJ0
  have hacc1' : prAcc1 σ.db dr a limit t wp rows k = (prDeltaOnly dr rows k).foldl (fun acc c =>
      prStep limit (prListed t a) true (if false then (acc.1, acc.2.1, false) else acc) c (fun _ => prMkDelta σ.db dr t wp c))
      (prFromDb dr a t wp rows, ((prFromDb dr a t wp rows).getLast?.map (·.cidx)).getD 0, false) := rfl
  rw [← hacc1'] at hacc1 hb1 hcov1
  simp only [] at hacc1
  -- loop 2
  have hJ1 : LoopInv limit ((prAcc1 σ.db dr a limit t wp rows k).1, (prAcc1 σ.db dr a limit t wp rows k).2.1, false)
      (prCreatorOnly dr a t rows k) := ⟨hb1, by intro e; simp at e⟩
  obtain ⟨sub2, hsub2, hacc2, hl2, _, hcov2⟩ := loop_spec limit (prListed t a) false true (prMkCreator dr a wp)
    (prMkCreator_cidx dr a wp) (prCreatorOnly dr a t rows k) hcs2sorted _ hJ1
  have hacc2' : prAcc2 σ.db dr a limit t wp rows k = (prCreatorOnly dr a t rows k).foldl (fun acc c =>
      prStep limit (prListed t a) false (if true then (acc.1, acc.2.1, false) else acc) c (fun _ => prMkCreator dr a wp c))
      ((prAcc1 σ.db dr a limit t wp rows k).1, (prAcc1 σ.db dr a limit t wp rows k).2.1, false) := rfl
  rw [← hacc2'] at hacc2 hcov2
  simp only [] at hacc2
  -- everything collected is the oracle's item of its id
  have hsub1mk : sub1.map (prMkDelta σ.db dr t wp) = sub1.map (item σ a t wp) :=
    List.map_congr_left (fun c hc => hmkD c (hsub1.subset hc))
  have hsub2mk : sub2.map (prMkCreator dr a wp) = sub2.map (item σ a t wp) :=
    List.map_congr_left (fun c hc => hmkC c (hsub2.subset hc))
  have hA1 : (prAcc1 σ.db dr a limit t wp rows k).1 = ((((ids.take k).filter (fun c => prListed t a (item σ a t wp c))) ++ sub1).map (item σ a t wp)) := by
    rw [hacc1, hfromDb, hsub1mk, List.map_append]
  have hX : (prAcc2 σ.db dr a limit t wp rows k).1 =
      (((ids.take k).filter (fun c => prListed t a (item σ a t wp c))) ++ sub1 ++ sub2).map (item σ a t wp) := by
    rw [hacc2, hA1, hsub2mk, ← List.map_append]
  generalize hI1 : (ids.take k).filter (fun c => prListed t a (item σ a t wp c)) = I0 at hA1 hX hover
  -- ids collected: distinct, live
  have hI0sub : ∀ c ∈ I0, c ∈ ids.take k ∧ prListed t a (item σ a t wp c) = true := by
    intro c hc; rw [← hI1, List.mem_filter] at hc; exact hc
  have hs1 : ∀ c ∈ sub1, c ∈ prDeltaOnly dr rows k := fun c hc => hsub1.subset hc
  have hs2 : ∀ c ∈ sub2, c ∈ prCreatorOnly dr a t rows k := fun c hc => hsub2.subset hc
  have hrowsMem : ∀ c, c ∈ rows.map (·.cidx) ↔ c ∈ ids.take k := fun c => by rw [hrowsIds]
  have hnotRow1 : ∀ c ∈ prDeltaOnly dr rows k, c ∉ ids.take k := by
    intro c hc hr
    have := ((hcs1mem c).mp hc).2
    rw [prInRange_iff] at this
    exact this.1 ((hrowsMem c).mpr hr)
  have hnotRow2 : ∀ c ∈ prCreatorOnly dr a t rows k, c ∉ ids.take k := by
    intro c hc hr
    obtain ⟨_, p, _, hin, _⟩ := (hcs2mem c).mp hc
    rw [prInRange_iff] at hin
    exact hin.1 ((hrowsMem c).mpr hr)
  have hInodup : (I0 ++ sub1 ++ sub2).Nodup := by
    rw [List.nodup_append, List.nodup_append]
    refine ⟨⟨by rw [← hI1]; exact hrowIdsNodup.sublist List.filter_sublist, (hcs1nodup hHn).sublist hsub1, ?_⟩,
      (hcs2nodup hPn).sublist hsub2, ?_⟩
    · intro x hx y hy e
      subst e
      exact hnotRow1 x (hs1 x hy) (hI0sub x hx).1
    · intro x hx y hy e
      subst e
      rcases List.mem_append.mp hx with hx | hx
      · exact hnotRow2 x (hs2 x hy) (hI0sub x hx).1
      · obtain ⟨hkey, _⟩ := (hcs1mem x).mp (hs1 x hx)
        obtain ⟨_, p, _, _, _, _, hhn⟩ := (hcs2mem x).mp (hs2 x hy)
        have := get_isSome_of_mem_keys (m := dr.holds) hkey
        rw [hhn] at this; simp at this
  have hIlive : ∀ c ∈ I0 ++ sub1 ++ sub2, c ∈ σ.hist.cidxs ∧ gt < c ∧ prListed t a (item σ a t wp c) = true := by
    intro c hc
    have hP : prListed t a (item σ a t wp c) = true := by
      rcases List.mem_append.mp hc with hc | hc
      · rcases List.mem_append.mp hc with hc | hc
        · exact (hI0sub c hc).2
        · rw [← hmkD c (hs1 c hc)]; exact hl1 c hc
      · rw [← hmkC c (hs2 c hc)]; exact hl2 c hc
    refine ⟨(listed_ct ct σ h a t wp c hP).2, ?_, hP⟩
    rcases List.mem_append.mp hc with hc | hc
    · rcases List.mem_append.mp hc with hc | hc
      · exact (hidsFacts c (List.mem_of_mem_take (hI0sub c hc).1)).1
      · obtain ⟨hkey, _⟩ := (hcs1mem c).mp (hs1 c hc)
        cases hg : AMap.get dr.holds c with
        | none => have := get_isSome_of_mem_keys (m := dr.holds) hkey; rw [hg] at this; simp at this
        | some p => exact (hHk c p hg).1
    · obtain ⟨_, p, hm, _⟩ := (hcs2mem c).mp (hs2 c hc)
      exact (hPk c p (get_of_mem_nodup hPn hm)).1
  -- every live id that was not collected has `limit` collected ids below it
  have hcover : ∀ c, c ∈ σ.hist.cidxs → gt < c → prListed t a (item σ a t wp c) = true → c ∉ I0 ++ sub1 ++ sub2 →
      limit ≤ ((I0 ++ sub1 ++ sub2).filter (fun x => x < c)).length := by
    intro c _ hgt hP hnI
    obtain ⟨hct, _⟩ := listed_ct ct σ h a t wp c hP
    have hnI0 : c ∉ I0 := fun hc => hnI (by simp [hc])
    have hnrow : c ∉ ids.take k := fun hr => hnI0 (by rw [← hI1, List.mem_filter]; exact ⟨hr, hP⟩)
    -- counts over prefixes of the collected ids
    have hmono1 : ((I0 ++ sub1).filter (fun x => x < c)).length ≤ ((I0 ++ sub1 ++ sub2).filter (fun x => x < c)).length :=
      length_filter_append_ge _ _ _
    have hmono0 : (I0.filter (fun x => x < c)).length ≤ ((I0 ++ sub1).filter (fun x => x < c)).length :=
      length_filter_append_ge _ _ _
    cases hin : prInRange rows k c with
    | false =>
      obtain ⟨hlen, hlt⟩ := hcut c hnrow hin
      have h1 := hover (hfullLen hlen)
      have h2 : I0.filter (fun x => x < c) = I0 := by
        rw [List.filter_eq_self]
        intro x hx
        simpa using hlt x (hI0sub x hx).1
      rw [h2] at hmono0
      omega
    | true =>
      have hempty := hemptyOf c hgt hct (hnotR c hin)
      have hit := hitem c hgt hct
      rw [hempty] at hit
      cases hg : AMap.get dr.holds c with
      | some p =>
        have hc1 : c ∈ prDeltaOnly dr rows k := (hcs1mem c).mpr ⟨mem_keys_of_get_some hg, hin⟩
        rcases hcov1 c hc1 (by rw [hmkD c hc1]; exact hP) with hmem | hcnt
        · exfalso
          rw [hmkD c hc1, hA1, List.mem_map] at hmem
          obtain ⟨c', hc', he⟩ := hmem
          have : c' = c := by simpa [item_cidx] using congrArg ResItem.cidx he
          subst this
          exact hnI (by simp only [List.mem_append] at hc' ⊢; exact Or.inl hc')
        · rw [hA1, filter_map_item] at hcnt
          exact Nat.le_trans hcnt hmono1
      | none =>
        -- no holding in the DB nor in the deltas: `a` is listed as the creator of an app created in memory
        have hhold : (item σ a t wp c).hold = none := by
          rw [hit]; simp [specItem, effHold, hg]
        have hcr : t = .app ∧ (item σ a t wp c).creator = some a := by
          cases t with
          | asset => simp [prListed, hhold] at hP
          | app => simpa [prListed, hhold] using hP
        have hcr2 : (effCP dr (crParams σ.hist σ.dbRound c t) c).1 = some a := by
          have := hcr.2
          rw [hit] at this
          exact this
        cases hp : AMap.get dr.params c with
        | none =>
          exfalso
          simp only [effCP, hp, crParams] at hcr2
          have := (hw.paramsCreator σ.dbRound a c).mpr hcr2
          rw [hct, hempty] at this
          simp at this
        | some v =>
          obtain ⟨pp, px⟩ := v
          cases pp with
          | absent =>
            exfalso
            simp only [effCP, hp, crParams] at hcr2
            have := (hw.paramsCreator σ.dbRound a c).mpr hcr2
            rw [hct, hempty] at this
            simp at this
          | deleted => simp [effCP, hp] at hcr2
          | val n =>
            simp only [effCP, hp, Option.some.injEq] at hcr2
            subst hcr2
            have hc2 : c ∈ prCreatorOnly dr px t rows k :=
              (hcs2mem c).mpr ⟨hcr.1, (Part.val n, px), get_some_mem hp, hin, by simp, rfl, hg⟩
            rcases hcov2 c hc2 (by rw [hmkC c hc2]; exact hP) with hmem | hcnt
            · exfalso
              rw [hmkC c hc2, hX, List.mem_map] at hmem
              obtain ⟨c', hc', he⟩ := hmem
              have : c' = c := by simpa [item_cidx] using congrArg ResItem.cidx he
              subst this
              exact hnI hc'
            · rw [hX, filter_map_item] at hcnt
              exact hcnt
  -- conclude: the sorted collected items and the live list share their first `limit` elements
  rw [hX]
  generalize hIall : I0 ++ sub1 ++ sub2 = I at hInodup hIlive hcover
  unfold live
  apply take_eq_of_sub_sorted (fun (it : ResItem) => it.cidx)
  · rw [List.pairwise_map]
    exact (sortedIds_sorted _ _ _).imp (fun {x y} hxy => hxy)
  · apply strict_nat_of_sorted_nodup (fun (it : ResItem) => it.cidx)
    · have := List.pairwise_mergeSort (le := fun (x y : ResItem) => decide (x.cidx ≤ y.cidx))
        (fun a b c h1 h2 => by simp only [decide_eq_true_eq] at *; exact Nat.le_trans h1 h2)
        (fun a b => by simp only [Bool.or_eq_true, decide_eq_true_eq]; exact Nat.le_total _ _)
        (I.map (item σ a t wp))
      exact this.imp (fun {x y} hxy => by simpa using hxy)
    · refine ((List.mergeSort_perm _ _).map _).nodup_iff.mpr ?_
      rw [List.map_map]
      have : ((fun (it : ResItem) => it.cidx) ∘ item σ a t wp) = id := by funext c; rfl
      rw [this, List.map_id]
      exact hInodup
  · intro x hx
    rw [(List.mergeSort_perm _ _).mem_iff, List.mem_map] at hx
    obtain ⟨c, hc, rfl⟩ := hx
    obtain ⟨g1, g2, g3⟩ := hIlive c hc
    exact List.mem_map_of_mem ((mem_sortedIds _ _ _ _).mpr ⟨g1, g2, g3⟩)
  · intro y hy hyn
    rw [List.mem_map] at hy
    obtain ⟨c, hc, rfl⟩ := hy
    obtain ⟨g1, g2, g3⟩ := (mem_sortedIds _ _ _ _).mp hc
    have hcI : c ∉ I := fun hcI => hyn ((List.mergeSort_perm _ _).mem_iff.mpr (List.mem_map_of_mem hcI))
    have := hcover c g1 g2 g3 hcI
    rw [← filter_map_item σ a t wp I c] at this
    rw [((List.mergeSort_perm _ _).filter _).length_eq]
    exact this

end AlgoVerif.Lemmas.PageRes
