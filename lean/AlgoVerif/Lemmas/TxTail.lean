/-
Lemmas about Model.TxTail (property C11): lease maps, the cow layers, the evaluator, the tail invariant and its
preservation by every ledger operation (block, committedUpTo, flush, reload).
-/
import AlgoVerif.Model.TxTail
namespace Lemmas.TxTail
open Model.TxTail

/-! ## small list facts -/

theorem any_eq_of_forall_mem {α} (l : List α) (p q : α → Bool) (h : ∀ a ∈ l, p a = q a) : l.any p = l.any q := by
  induction l with
  | nil => rfl
  | cons a l ih =>
    simp only [List.any_cons]
    rw [h a (List.mem_cons_self), ih (fun b hb => h b (List.mem_cons_of_mem _ hb))]

theorem mem_rangeIncl {a b r : Nat} : r ∈ rangeIncl a b ↔ a ≤ r ∧ r ≤ b := by
  unfold rangeIncl
  rw [List.mem_range'_1]
  omega

theorem nodup_rangeIncl (a b : Nat) : (rangeIncl a b).Nodup := by
  unfold rangeIncl
  exact List.nodup_range'

/-! ## lease maps -/

theorem addLease_apply (m : Leases) (t : Tx) (k : LeaseKey) :
    addLease m t k = if t.lease ≠ 0 ∧ k = t.key then some t.lv else m k := by
  unfold addLease setLease
  by_cases h : t.lease ≠ 0
  · by_cases hk : k = t.key <;> simp [h, hk]
  · simp [h]

/-- A: no entry iff the accumulator had none and no leased transaction of the list has the key -/
theorem foldl_addLease_none (txs : List Tx) (m : Leases) (k : LeaseKey) :
    txs.foldl addLease m k = none ↔ m k = none ∧ ∀ x ∈ txs, x.lease ≠ 0 → x.key ≠ k := by
  induction txs generalizing m with
  | nil => simp
  | cons t ts ih =>
    rw [List.foldl_cons, ih, addLease_apply]
    constructor
    · rintro ⟨h1, h2⟩
      by_cases hc : t.lease ≠ 0 ∧ k = t.key
      · rw [if_pos hc] at h1; cases h1
      · rw [if_neg hc] at h1
        refine ⟨h1, ?_⟩
        intro x hx hl
        rcases List.mem_cons.mp hx with rfl | hx
        · intro hk; exact hc ⟨hl, hk.symm⟩
        · exact h2 x hx hl
    · rintro ⟨h1, h2⟩
      have hc : ¬ (t.lease ≠ 0 ∧ k = t.key) := by
        rintro ⟨hl, hk⟩
        exact h2 t List.mem_cons_self hl hk.symm
      rw [if_neg hc]
      exact ⟨h1, fun x hx => h2 x (List.mem_cons_of_mem _ hx)⟩

/-- B: an entry comes from the accumulator or from a leased transaction of the list -/
theorem foldl_addLease_some (txs : List Tx) (m : Leases) (k : LeaseKey) (e : Nat)
    (h : txs.foldl addLease m k = some e) :
    m k = some e ∨ ∃ x ∈ txs, x.lease ≠ 0 ∧ x.key = k ∧ x.lv = e := by
  induction txs generalizing m with
  | nil => left; simpa using h
  | cons t ts ih =>
    rw [List.foldl_cons] at h
    rcases ih _ h with h1 | ⟨x, hx, hl, hk, he⟩
    · rw [addLease_apply] at h1
      by_cases hc : t.lease ≠ 0 ∧ k = t.key
      · rw [if_pos hc] at h1
        right
        exact ⟨t, List.mem_cons_self, hc.1, hc.2.symm, by simpa using h1⟩
      · rw [if_neg hc] at h1; exact Or.inl h1
    · right; exact ⟨x, List.mem_cons_of_mem _ hx, hl, hk, he⟩

theorem leasesOf_none (txs : List Tx) (k : LeaseKey) :
    leasesOf txs k = none ↔ ∀ x ∈ txs, x.lease ≠ 0 → x.key ≠ k := by
  unfold leasesOf
  rw [foldl_addLease_none]
  simp [noLeases]

theorem leasesOf_some (txs : List Tx) (k : LeaseKey) (e : Nat) (h : leasesOf txs k = some e) :
    ∃ x ∈ txs, x.lease ≠ 0 ∧ x.key = k ∧ x.lv = e := by
  unfold leasesOf at h
  rcases foldl_addLease_some _ _ _ _ h with h1 | h1
  · simp [noLeases] at h1
  · exact h1

/-- C: a leased transaction whose key no other transaction of the list shares determines the entry -/
theorem leasesOf_of_unique (txs : List Tx) (x : Tx) (hx : x ∈ txs) (hl : x.lease ≠ 0)
    (hu : ∀ y ∈ txs, y.lease ≠ 0 → y.key = x.key → y.lv = x.lv) : leasesOf txs x.key = some x.lv := by
  cases h : leasesOf txs x.key with
  | none => exact absurd rfl ((leasesOf_none txs x.key).mp h x hx hl)
  | some e =>
    obtain ⟨y, hy, hyl, hyk, hye⟩ := leasesOf_some _ _ _ h
    rw [← hye, hu y hy hyl hyk]

/-- D: folding into an accumulator = merging the list's own lease map over it (`commitToParent`) -/
theorem foldl_addLease_merge (txs : List Tx) (m : Leases) (k : LeaseKey) :
    txs.foldl addLease m k = mergeLeases m (leasesOf txs) k := by
  unfold leasesOf mergeLeases
  induction txs generalizing m with
  | nil => simp [noLeases]
  | cons t ts ih =>
    rw [List.foldl_cons, List.foldl_cons, ih (addLease m t)]
    have h2 := ih (addLease noLeases t)
    rw [h2]
    cases hts : ts.foldl addLease noLeases k with
    | some e => rfl
    | none =>
      simp only [addLease_apply]
      by_cases hc : t.lease ≠ 0 ∧ k = t.key
      · simp [hc]
      · simp [hc, noLeases]

theorem leasesOf_append (a b : List Tx) (k : LeaseKey) :
    leasesOf (a ++ b) k = mergeLeases (leasesOf a) (leasesOf b) k := by
  have : leasesOf (a ++ b) = b.foldl addLease (leasesOf a) := by
    unfold leasesOf; rw [List.foldl_append]
  rw [this, foldl_addLease_merge]

theorem leasesOf_nil (k : LeaseKey) : leasesOf [] k = none := rfl

/-- without leased transactions the map is empty -/
theorem leasesOf_no_lease (txs : List Tx) (h : ∀ x ∈ txs, x.lease = 0) (k : LeaseKey) : leasesOf txs k = none :=
  (leasesOf_none txs k).mpr (fun x hx hl => absurd (h x hx) hl)

/-! ## transactions, cow layers, evaluator -/

/-- what `WellFormed` + `Alive` establish for a transaction evaluated in round `r` -/
def TxOK (P : Params) (r : Nat) (t : Tx) : Prop :=
  t.fv ≤ r ∧ r ≤ t.lv ∧ t.lv - t.fv ≤ P.maxLife ∧ (P.supLeases = false → t.lease = 0)

theorem txOK_of_checks {P : Params} {r : Nat} {t : Tx} (hw : wellFormed P t = true) (ha : alive r t = none) : TxOK P r t := by
  unfold wellFormed at hw
  unfold alive at ha
  simp only [Bool.and_eq_true, Bool.not_eq_true', decide_eq_false_iff_not, Bool.or_eq_true, decide_eq_true_eq] at hw
  obtain ⟨⟨h1, h2⟩, h3⟩ := hw
  refine ⟨?_, ?_, by omega, ?_⟩
  · by_cases h : r < t.fv
    · simp [h] at ha
    · omega
  · by_cases h : r < t.fv
    · simp [h] at ha
    · by_cases h' : r > t.lv
      · simp [h, h'] at ha
      · omega
  · intro hs
    rcases h3 with h3 | h3
    · rw [hs] at h3; cases h3
    · exact h3

/-- the transactions of a (stack of) cow layer(s): checked, pairwise distinct txids, pairwise distinct lease keys -/
structure TxsOK (P : Params) (base : Tx → Res) (rnd : Nat) (txs : List Tx) : Prop where
  ok : ∀ t ∈ txs, TxOK P rnd t ∧ base t = .ok
  ids : txs.Pairwise (fun a b => a.txid ≠ b.txid)
  keys : txs.Pairwise (fun a b => a.lease ≠ 0 → b.lease ≠ 0 → a.key ≠ b.key)

/-- `mods.Txleases` is the lease map of `mods.Txids` -/
def LeasesAgree (l : Layer) : Prop := ∀ k, l.leases k = leasesOf l.txs k

structure LayerOK (P : Params) (base : Tx → Res) (rnd : Nat) (l : Layer) : Prop where
  txs : TxsOK P base rnd l.txs
  leases : LeasesAgree l

theorem txsOK_nil (P : Params) (base : Tx → Res) (rnd : Nat) : TxsOK P base rnd [] :=
  ⟨by simp, List.Pairwise.nil, List.Pairwise.nil⟩

theorem layerOK_empty (P : Params) (base : Tx → Res) (rnd : Nat) : LayerOK P base rnd {} :=
  ⟨txsOK_nil P base rnd, fun _ => rfl⟩

theorem layerCheck_ne_ok {P : Params} {rnd : Nat} {l : Layer} {t : Tx} {r : Res} (h : layerCheck P rnd l t = some r) :
    r = .txdup true ∨ r = .lease true := by
  unfold layerCheck at h
  split at h
  · left; simpa using h.symm
  · split at h
    · split at h
      · split at h
        · right; simpa using h.symm
        · cases h
      · cases h
    · cases h

/-- a layer that lets the check through holds neither the txid nor (when leases are supported) the lease -/
theorem layerCheck_none {P : Params} {rnd : Nat} {l : Layer} {t : Tx} (hl : LeasesAgree l) (hal : ∀ x ∈ l.txs, rnd ≤ x.lv)
    (h : layerCheck P rnd l t = none) :
    (∀ x ∈ l.txs, x.txid ≠ t.txid) ∧
    (P.supLeases = true → t.lease ≠ 0 → ∀ x ∈ l.txs, x.lease ≠ 0 → x.key ≠ t.key) := by
  unfold layerCheck at h
  split at h
  · cases h
  · rename_i hany
    constructor
    · intro x hx hid
      apply hany
      rw [List.any_eq_true]
      exact ⟨x, hx, by simpa using hid⟩
    · intro hs hlz
      have hcond : (P.supLeases && decide (t.lease ≠ 0)) = true := by simp [hs, hlz]
      rw [if_pos hcond] at h
      rw [hl t.key] at h
      cases hle : leasesOf l.txs t.key with
      | none => exact (leasesOf_none _ _).mp hle
      | some e =>
        rw [hle] at h
        obtain ⟨y, hy, _, _, hye⟩ := leasesOf_some _ _ _ hle
        have : rnd ≤ e := hye ▸ hal y hy
        simp [this] at h

theorem layerCheck_txdup {P : Params} {rnd : Nat} {l : Layer} {t : Tx} (h : ∃ x ∈ l.txs, x.txid = t.txid) :
    layerCheck P rnd l t = some (.txdup true) := by
  unfold layerCheck
  have : l.txs.any (fun x => decide (x.txid = t.txid)) = true := by
    rw [List.any_eq_true]
    obtain ⟨x, hx, hid⟩ := h
    exact ⟨x, hx, by simpa using hid⟩
  rw [if_pos this]

theorem cow2_ok {P : Params} {rnd : Nat} {base : Tx → Res} {c b : Layer} {t : Tx}
    (h : cowCheckDup P rnd base [c, b] t = .ok) :
    layerCheck P rnd c t = none ∧ layerCheck P rnd b t = none ∧ base t = .ok := by
  simp only [cowCheckDup] at h
  cases hc : layerCheck P rnd c t with
  | some r => rw [hc] at h; rcases layerCheck_ne_ok hc with rfl | rfl <;> cases h
  | none =>
    rw [hc] at h
    cases hb : layerCheck P rnd b t with
    | some r => rw [hb] at h; rcases layerCheck_ne_ok hb with rfl | rfl <;> cases h
    | none => rw [hb] at h; exact ⟨rfl, rfl, h⟩

theorem cow1_ok {P : Params} {rnd : Nat} {base : Tx → Res} {b : Layer} {t : Tx}
    (h : cowCheckDup P rnd base [b] t = .ok) : layerCheck P rnd b t = none ∧ base t = .ok := by
  simp only [cowCheckDup] at h
  cases hb : layerCheck P rnd b t with
  | some r => rw [hb] at h; rcases layerCheck_ne_ok hb with rfl | rfl <;> cases h
  | none => rw [hb] at h; exact ⟨rfl, h⟩

/-- the in-block duplicate check: a txid held by the group's cow or by the block's cow is never let through -/
theorem cow2_in_block {P : Params} {rnd : Nat} {base : Tx → Res} {c b : Layer} {t : Tx}
    (h : ∃ x ∈ c.txs ++ b.txs, x.txid = t.txid) :
    cowCheckDup P rnd base [c, b] t = .txdup true ∨ cowCheckDup P rnd base [c, b] t = .lease true := by
  obtain ⟨x, hx, hid⟩ := h
  simp only [cowCheckDup]
  rcases List.mem_append.mp hx with hx | hx
  · rw [layerCheck_txdup ⟨x, hx, hid⟩]; exact Or.inl rfl
  · cases hc : layerCheck P rnd c t with
    | some r => exact (layerCheck_ne_ok hc).imp id id
    | none => rw [layerCheck_txdup ⟨x, hx, hid⟩]; exact Or.inl rfl

theorem addTx_leasesAgree {l : Layer} (h : LeasesAgree l) (t : Tx) : LeasesAgree (l.addTx t) := by
  intro k
  show addLease l.leases t k = leasesOf (l.txs ++ [t]) k
  have : leasesOf (l.txs ++ [t]) = addLease (leasesOf l.txs) t := by
    unfold leasesOf; rw [List.foldl_append]; rfl
  rw [this, addLease_apply, addLease_apply, h k]

theorem commitTo_leasesAgree {p c : Layer} (hp : LeasesAgree p) (hc : LeasesAgree c) : LeasesAgree (p.commitTo c) := by
  intro k
  show mergeLeases p.leases c.leases k = leasesOf (p.txs ++ c.txs) k
  rw [leasesOf_append]
  unfold mergeLeases
  rw [hp k, hc k]

theorem leasesAgree_sub {p c : Layer} (hp : LeasesAgree p) (hc : LeasesAgree c) : ∀ k,
    leasesOf (p.txs ++ c.txs) k = mergeLeases p.leases c.leases k := fun k => (commitTo_leasesAgree hp hc k).symm

/-- one `BlockEvaluator.transaction` keeps the stack (block cow + group cow) in order -/
theorem evalTx_ok {P : Params} {tail : Tail} {rnd : Nat} {blk child child' : Layer} {t : Tx}
    (hS : TxsOK P (baseCheck P tail rnd) rnd (blk.txs ++ child.txs))
    (hb : LeasesAgree blk) (hc : LeasesAgree child) (hw : wellFormed P t = true)
    (h : evalTx P tail rnd blk child t = .ok child') :
    child' = child.addTx t ∧ TxsOK P (baseCheck P tail rnd) rnd (blk.txs ++ child'.txs) ∧ LeasesAgree child' := by
  unfold evalTx at h
  cases ha : alive rnd t with
  | some r => rw [ha] at h; cases h
  | none =>
    rw [ha] at h
    cases hcow : cowCheckDup P rnd (baseCheck P tail rnd) [child, blk] t with
    | ok =>
      rw [hcow] at h
      have hch : child' = child.addTx t := by
        simp only [Except.ok.injEq] at h; exact h.symm
      obtain ⟨h1, h2, h3⟩ := cow2_ok hcow
      have htx := txOK_of_checks hw ha
      have halive : ∀ x ∈ blk.txs ++ child.txs, rnd ≤ x.lv := fun x hx => (hS.ok x hx).1.2.1
      obtain ⟨c1, c2⟩ := layerCheck_none hc (fun x hx => halive x (List.mem_append_right _ hx)) h1
      obtain ⟨b1, b2⟩ := layerCheck_none hb (fun x hx => halive x (List.mem_append_left _ hx)) h2
      refine ⟨hch, ?_, hch ▸ addTx_leasesAgree hc t⟩
      subst hch
      have happ : blk.txs ++ (child.addTx t).txs = (blk.txs ++ child.txs) ++ [t] := by
        show blk.txs ++ (child.txs ++ [t]) = _
        rw [List.append_assoc]
      rw [happ]
      refine ⟨?_, ?_, ?_⟩
      · intro x hx
        rcases List.mem_append.mp hx with hx | hx
        · exact hS.ok x hx
        · rw [List.mem_singleton.mp hx]; exact ⟨htx, h3⟩
      · rw [List.pairwise_append]
        refine ⟨hS.ids, List.pairwise_singleton _ _, ?_⟩
        intro a ha' b hb'
        rw [List.mem_singleton.mp hb']
        rcases List.mem_append.mp ha' with ha' | ha'
        · exact b1 a ha'
        · exact c1 a ha'
      · rw [List.pairwise_append]
        refine ⟨hS.keys, List.pairwise_singleton _ _, ?_⟩
        intro a ha' b hb' hla hlb
        rw [List.mem_singleton.mp hb'] at hlb ⊢
        have hs : P.supLeases = true := by
          cases hsup : P.supLeases with
          | true => rfl
          | false => exact absurd (htx.2.2.2 hsup) hlb
        rcases List.mem_append.mp ha' with ha' | ha'
        · exact b2 hs hlb a ha' hla
        · exact c2 hs hlb a ha' hla
    | txdup b => rw [hcow] at h; cases h
    | lease b => rw [hcow] at h; cases h
    | deadEarly => rw [hcow] at h; cases h
    | deadLate => rw [hcow] at h; cases h
    | malformed => rw [hcow] at h; cases h
    | missing => rw [hcow] at h; cases h

theorem evalTxs_ok {P : Params} {tail : Tail} {rnd : Nat} {blk : Layer} (hb : LeasesAgree blk) :
    ∀ (g : List Tx) (child child' : Layer),
      TxsOK P (baseCheck P tail rnd) rnd (blk.txs ++ child.txs) → LeasesAgree child →
      (∀ t ∈ g, wellFormed P t = true) → evalTxs P tail rnd blk child g = .ok child' →
      TxsOK P (baseCheck P tail rnd) rnd (blk.txs ++ child'.txs) ∧ LeasesAgree child' ∧ ∃ pre, child'.txs = child.txs ++ pre ∧ pre = g := by
  intro g
  induction g with
  | nil =>
    intro child child' hS hc _ h
    simp only [evalTxs, Except.ok.injEq] at h
    subst h
    exact ⟨hS, hc, [], by simp, rfl⟩
  | cons t ts ih =>
    intro child child' hS hc hw h
    simp only [evalTxs] at h
    cases h1 : evalTx P tail rnd blk child t with
    | error r => rw [h1] at h; cases h
    | ok c1 =>
      rw [h1] at h
      obtain ⟨e1, hS1, hc1⟩ := evalTx_ok hS hb hc (hw t List.mem_cons_self) h1
      obtain ⟨hS2, hc2, pre, hpre, hg⟩ := ih c1 child' hS1 hc1 (fun x hx => hw x (List.mem_cons_of_mem _ hx)) h
      refine ⟨hS2, hc2, t :: pre, ?_, by rw [hg]⟩
      rw [hpre, e1]
      show (child.txs ++ [t]) ++ pre = _
      simp

/-- `TransactionGroup` keeps the block's cow in order; the block grows exactly by the group -/
theorem txGroup_ok {P : Params} {tail : Tail} {rnd : Nat} {blk blk' : Layer} {g : List Tx}
    (hL : LayerOK P (baseCheck P tail rnd) rnd blk) (h : txGroup P tail rnd blk g = .ok blk') :
    LayerOK P (baseCheck P tail rnd) rnd blk' ∧ blk'.txs = blk.txs ++ g := by
  unfold txGroup at h
  by_cases hw : g.all (wellFormed P) = true
  · rw [if_pos hw] at h
    cases h1 : evalTxs P tail rnd blk {} g with
    | error r => rw [h1] at h; cases h
    | ok child =>
      rw [h1] at h
      simp only [Except.ok.injEq] at h
      subst h
      have hw' : ∀ t ∈ g, wellFormed P t = true := by
        intro t ht; exact (List.all_eq_true.mp hw) t ht
      have hS0 : TxsOK P (baseCheck P tail rnd) rnd (blk.txs ++ ({} : Layer).txs) := by
        show TxsOK _ _ _ (blk.txs ++ [])
        rw [List.append_nil]; exact hL.txs
      obtain ⟨hS, hc, pre, hpre, hg⟩ := evalTxs_ok hL.leases g {} child hS0 (fun _ => rfl) hw' h1
      refine ⟨⟨hS, commitTo_leasesAgree hL.leases hc⟩, ?_⟩
      show blk.txs ++ child.txs = _
      rw [hpre, hg]; rfl
  · rw [if_neg hw] at h; cases h

/-- a whole block accepted by the evaluator: every transaction checked against the ledger, no txid twice, no lease twice -/
theorem evalBlock_ok {P : Params} {tail : Tail} {rnd : Nat} :
    ∀ (gs : List (List Tx)) (blk blk' : Layer), LayerOK P (baseCheck P tail rnd) rnd blk →
      evalBlock P tail rnd blk gs = some blk' → LayerOK P (baseCheck P tail rnd) rnd blk' ∧ blk'.txs = blk.txs ++ gs.flatten := by
  intro gs
  induction gs with
  | nil =>
    intro blk blk' hL h
    simp only [evalBlock, Option.some.injEq] at h
    subst h; exact ⟨hL, by simp⟩
  | cons g gs ih =>
    intro blk blk' hL h
    simp only [evalBlock] at h
    cases h1 : txGroup P tail rnd blk g with
    | error r => rw [h1] at h; cases h
    | ok b1 =>
      rw [h1] at h
      obtain ⟨hL1, e1⟩ := txGroup_ok hL h1
      obtain ⟨hL2, e2⟩ := ih b1 blk' hL1 h
      exact ⟨hL2, by rw [e2, e1]; simp⟩

/-! ## the tail invariant -/

/-- "the tail contains every txid / lease of the last MaxTxnLife rounds", together with what makes the operations keep it -/
structure Inv (P : Params) (σ : Ledger) : Prop where
  lwm_le : σ.tail.lowWaterMark ≤ σ.latest
  blocks_out : ∀ r, (r = 0 ∨ σ.latest < r) → σ.blocks r = []
  blocks_ok : ∀ r, ∀ t ∈ σ.blocks r, TxOK P r t
  /-- every committed transaction that can still be alive is in its `lastValid` bucket -/
  lv_complete : ∀ r, r ≤ σ.latest → ∀ t ∈ σ.blocks r, σ.tail.lowWaterMark < t.lv → σ.tail.lastValid t.lv t.txid = true
  lv_sound : ∀ lv id, σ.tail.lastValid lv id = true → ∃ r, r ≤ σ.latest ∧ ∃ t ∈ σ.blocks r, t.lv = lv ∧ t.txid = id
  recent_sound : ∀ r m, σ.tail.recent r = some m → 1 ≤ r ∧ r ≤ σ.latest ∧ ∀ k, m k = leasesOf (σ.blocks r) k
  /-- the lease maps of the last MaxTxnLife rounds (and of everything from the low water mark on) are present -/
  recent_have : ∀ r, 1 ≤ r → r ≤ σ.latest →
    (σ.latest < r + P.maxLife ∨ (1 ≤ P.maxLife ∧ σ.tail.lowWaterMark ≤ r)) → (σ.tail.recent r).isSome = true
  db_hi : σ.db.hi ≤ σ.latest
  db_lo1 : 1 ≤ σ.db.lo
  /-- the persisted tail reaches back MaxTxnLife + DeeperBlockHeaderHistory rounds (or to the first block) -/
  db_lo : σ.db.lo ≤ 1 ∨ σ.db.lo + (P.maxLife + P.deeper) ≤ σ.db.hi + 1
  db_some : 1 ≤ P.maxLife → 1 ≤ σ.db.hi → σ.db.lo ≤ σ.db.hi
  db_row : ∀ r, σ.db.lo ≤ r → r ≤ σ.db.hi → σ.db.row r = σ.blocks r

theorem inv_init (P : Params) : Inv P Ledger.init where
  lwm_le := Nat.le_refl _
  blocks_out := fun _ _ => rfl
  blocks_ok := fun _ t ht => by simp [Ledger.init] at ht
  lv_complete := fun _ _ t ht => by simp [Ledger.init] at ht
  lv_sound := fun _ _ h => by simp [Ledger.init, Tail.empty] at h
  recent_sound := fun _ _ h => by simp [Ledger.init, Tail.empty] at h
  recent_have := fun r h1 h2 _ => by simp [Ledger.init] at h2; omega
  db_hi := Nat.le_refl _
  db_lo1 := Nat.le_refl _
  db_lo := Or.inl (Nat.le_refl _)
  db_some := fun _ h => by simp [Ledger.init, TailDB.empty] at h
  db_row := fun r h1 h2 => by simp [Ledger.init, TailDB.empty] at h1 h2; omega

theorem recent_none_above {P : Params} {σ : Ledger} (hI : Inv P σ) {r : Nat} (hr : σ.latest < r) : σ.tail.recent r = none := by
  cases h : σ.tail.recent r with
  | none => rfl
  | some m => have := (hI.recent_sound r m h).2.1; omega

/-- `AddValidatedBlock` of a block accepted by the evaluator -/
theorem inv_addBlock {P : Params} {σ : Ledger} (hI : Inv P σ) {l : Layer}
    (hL : LayerOK P (baseCheck P σ.tail (σ.latest + 1)) (σ.latest + 1) l) : Inv P (σ.addBlock l) := by
  have hnone : σ.tail.recent (σ.latest + 1) = none := recent_none_above hI (Nat.lt_succ_self _)
  have htail : (σ.addBlock l).tail =
      { σ.tail with
        lastValid := fun lv id => σ.tail.lastValid lv id || l.txs.any (fun x => decide (x.lv = lv ∧ x.txid = id))
        recent := fun r => if r = σ.latest + 1 then some l.leases else σ.tail.recent r } := by
    show σ.tail.newBlock (σ.latest + 1) l.txs l.leases = _
    unfold Tail.newBlock
    rw [hnone]
  have hblocks : ∀ r, (σ.addBlock l).blocks r = if r = σ.latest + 1 then l.txs else σ.blocks r := fun _ => rfl
  have hlatest : (σ.addBlock l).latest = σ.latest + 1 := rfl
  have hdb : (σ.addBlock l).db = σ.db := rfl
  constructor
  · rw [htail, hlatest]; have := hI.lwm_le; show σ.tail.lowWaterMark ≤ _; omega
  · intro r hr
    rw [hblocks, hlatest] at *
    rcases hr with rfl | hr
    · rw [if_neg (by omega)]; exact hI.blocks_out 0 (Or.inl rfl)
    · rw [if_neg (by omega)]; exact hI.blocks_out r (Or.inr (by omega))
  · intro r t ht
    rw [hblocks] at ht
    by_cases hr : r = σ.latest + 1
    · rw [if_pos hr] at ht; rw [hr]; exact (hL.txs.ok t ht).1
    · rw [if_neg hr] at ht; exact hI.blocks_ok r t ht
  · intro r hr t ht hlv
    rw [htail]
    show (σ.tail.lastValid t.lv t.txid || l.txs.any (fun x => decide (x.lv = t.lv ∧ x.txid = t.txid))) = true
    rw [hblocks] at ht
    rw [htail] at hlv
    by_cases hr' : r = σ.latest + 1
    · rw [if_pos hr'] at ht
      rw [Bool.or_eq_true]; right
      rw [List.any_eq_true]; exact ⟨t, ht, by simp⟩
    · rw [if_neg hr'] at ht
      rw [hlatest] at hr
      rw [hI.lv_complete r (by omega) t ht hlv]; rfl
  · intro lv id h
    rw [htail] at h
    have h' : (σ.tail.lastValid lv id || l.txs.any (fun x => decide (x.lv = lv ∧ x.txid = id))) = true := h
    rw [Bool.or_eq_true] at h'
    rcases h' with h' | h'
    · obtain ⟨r, hr, t, ht, h1, h2⟩ := hI.lv_sound lv id h'
      refine ⟨r, by rw [hlatest]; omega, t, ?_, h1, h2⟩
      rw [hblocks, if_neg (by omega)]; exact ht
    · rw [List.any_eq_true] at h'
      obtain ⟨t, ht, hd⟩ := h'
      simp only [decide_eq_true_eq] at hd
      exact ⟨σ.latest + 1, by rw [hlatest]; omega, t, by rw [hblocks, if_pos rfl]; exact ht, hd.1, hd.2⟩
  · intro r m h
    rw [htail] at h
    have h' : (if r = σ.latest + 1 then some l.leases else σ.tail.recent r) = some m := h
    by_cases hr : r = σ.latest + 1
    · rw [if_pos hr] at h'
      simp only [Option.some.injEq] at h'
      subst h'
      refine ⟨by omega, by rw [hlatest]; omega, ?_⟩
      intro k; rw [hblocks, if_pos hr]; exact hL.leases k
    · rw [if_neg hr] at h'
      obtain ⟨a, b, c⟩ := hI.recent_sound r m h'
      refine ⟨a, by rw [hlatest]; omega, ?_⟩
      intro k; rw [hblocks, if_neg hr]; exact c k
  · intro r h1 h2 h3
    rw [htail]
    show (if r = σ.latest + 1 then some l.leases else σ.tail.recent r).isSome = true
    by_cases hr : r = σ.latest + 1
    · rw [if_pos hr]; rfl
    · rw [if_neg hr]
      rw [hlatest] at h2 h3
      rw [htail] at h3
      apply hI.recent_have r h1 (by omega)
      rcases h3 with h3 | h3
      · left; omega
      · right; exact h3
  · rw [hdb, hlatest]; have := hI.db_hi; omega
  · rw [hdb]; exact hI.db_lo1
  · rw [hdb]; exact hI.db_lo
  · rw [hdb]; exact hI.db_some
  · intro r h1 h2
    rw [hdb] at *
    rw [hblocks, if_neg (by have := hI.db_hi; omega)]
    exact hI.db_row r h1 h2

/-- `notifyCommit(rnd)`: pruning keeps everything a query for round latest+1 (or later) needs -/
theorem inv_committedUpTo {P : Params} {σ : Ledger} (hI : Inv P σ) {rnd : Nat}
    (h1 : σ.tail.lowWaterMark ≤ rnd) (h2 : rnd ≤ σ.latest) : Inv P (σ.committedUpTo P rnd) := by
  -- the MaxTxnLife used for pruning is the real one (or nothing is pruned)
  have hml : ∀ r, r + (match σ.tail.recent rnd with | some _ => P.maxLife | none => 0) < rnd → r + P.maxLife < rnd := by
    intro r hr
    cases hrec : σ.tail.recent rnd with
    | some m => rw [hrec] at hr; exact hr
    | none =>
      rw [hrec] at hr
      by_cases hz : P.maxLife = 0
      · omega
      · have : (σ.tail.recent rnd).isSome = true :=
          hI.recent_have rnd (by omega) h2 (Or.inr ⟨by omega, h1⟩)
        rw [hrec] at this; cases this
  have hlwm : (σ.committedUpTo P rnd).tail.lowWaterMark = rnd := by
    show max σ.tail.lowWaterMark rnd = rnd
    omega
  have hrecent : ∃ ml, (∀ r, r + ml < rnd → r + P.maxLife < rnd) ∧ ∀ r, (σ.committedUpTo P rnd).tail.recent r =
      if r + ml < rnd then none else σ.tail.recent r := ⟨_, hml, fun _ => rfl⟩
  obtain ⟨ml, hml', hrecent⟩ := hrecent
  have hlv : ∀ lv id, (σ.committedUpTo P rnd).tail.lastValid lv id =
      if σ.tail.lowWaterMark ≤ lv ∧ lv < rnd then false else σ.tail.lastValid lv id := fun _ _ => rfl
  constructor
  · rw [hlwm]; exact h2
  · exact hI.blocks_out
  · exact hI.blocks_ok
  · intro r hr t ht hl
    rw [hlwm] at hl
    rw [hlv, if_neg (by omega)]
    exact hI.lv_complete r hr t ht (by omega)
  · intro lv id h
    rw [hlv] at h
    split at h
    · cases h
    · exact hI.lv_sound lv id h
  · intro r m h
    rw [hrecent] at h
    by_cases hc : r + ml < rnd
    · rw [if_pos hc] at h; cases h
    · rw [if_neg hc] at h; exact hI.recent_sound r m h
  · intro r hr1 hr2 hr3
    rw [hlwm] at hr3
    have hr2' : r ≤ σ.latest := hr2
    rw [hrecent]
    have hkeep : ¬ (r + ml < rnd) := by
      intro hc
      have := hml' r hc
      rcases hr3 with h | h
      · have : σ.latest < r + P.maxLife := h
        omega
      · omega
    rw [if_neg hkeep]
    apply hI.recent_have r hr1 hr2'
    rcases hr3 with h | h
    · left; exact h
    · right; exact ⟨h.1, by omega⟩
  · exact hI.db_hi
  · exact hI.db_lo1
  · exact hI.db_lo
  · exact hI.db_some
  · exact hI.db_row

theorem db_lo_le_succ_hi {P : Params} {σ : Ledger} (hI : Inv P σ) : σ.db.lo ≤ σ.db.hi + 1 := by
  rcases hI.db_lo with h | h <;> omega

/-- a tracker flush persists the rounds up to `newBase` and forgets rows older than MaxTxnLife + DeeperBlockHeaderHistory -/
theorem inv_flush {P : Params} {σ : Ledger} (hI : Inv P σ) {c : Nat} (hc : c ≤ σ.latest) : Inv P (σ.flush P c) := by
  unfold Ledger.flush
  by_cases hlb : c < P.lookback
  · rw [if_pos hlb]; exact hI
  · rw [if_neg hlb]
    show Inv P (if c - P.lookback ≤ σ.db.hi then σ else { σ with db := σ.db.commit P σ.blocks (c - P.lookback) })
    by_cases hnb : c - P.lookback ≤ σ.db.hi
    · rw [if_pos hnb]; exact hI
    · rw [if_neg hnb]
      have hnb' : σ.db.hi < c - P.lookback := by omega
      have hlo := db_lo_le_succ_hi hI
      constructor
      · exact hI.lwm_le
      · exact hI.blocks_out
      · exact hI.blocks_ok
      · exact hI.lv_complete
      · exact hI.lv_sound
      · exact hI.recent_sound
      · exact hI.recent_have
      · show c - P.lookback ≤ σ.latest; omega
      · show 1 ≤ max σ.db.lo _; have := hI.db_lo1; omega
      · show max σ.db.lo (c - P.lookback + 1 - (P.maxLife + P.deeper)) ≤ 1 ∨
          max σ.db.lo (c - P.lookback + 1 - (P.maxLife + P.deeper)) + (P.maxLife + P.deeper) ≤ c - P.lookback + 1
        have := hI.db_lo1
        rcases hI.db_lo with h | h <;> omega
      · intro hl _
        show max σ.db.lo (c - P.lookback + 1 - (P.maxLife + P.deeper)) ≤ c - P.lookback
        omega
      · intro r hr1 hr2
        have hr1' : max σ.db.lo (c - P.lookback + 1 - (P.maxLife + P.deeper)) ≤ r := hr1
        have hr2' : r ≤ c - P.lookback := hr2
        show (if σ.db.hi < r ∧ r ≤ c - P.lookback then σ.blocks r else σ.db.row r) = σ.blocks r
        by_cases h : σ.db.hi < r ∧ r ≤ c - P.lookback
        · rw [if_pos h]
        · rw [if_neg h]; exact hI.db_row r (by omega) (by omega)

/-! ## reload -/

/-- replaying rounds `rs` (not yet in `recent`) through `newBlock` -/
theorem replay_fold (blocks : Nat → List Tx) :
    ∀ (rs : List Nat) (t : Tail), rs.Nodup → (∀ r ∈ rs, t.recent r = none) →
      (rs.foldl (fun t r => t.newBlock r (blocks r) (leasesOf (blocks r))) t).lowWaterMark = t.lowWaterMark ∧
      (∀ r, (rs.foldl (fun t r => t.newBlock r (blocks r) (leasesOf (blocks r))) t).recent r =
          if r ∈ rs then some (leasesOf (blocks r)) else t.recent r) ∧
      (∀ lv id, (rs.foldl (fun t r => t.newBlock r (blocks r) (leasesOf (blocks r))) t).lastValid lv id =
          (t.lastValid lv id || rs.any (fun r => (blocks r).any (fun x => decide (x.lv = lv ∧ x.txid = id))))) := by
  intro rs
  induction rs with
  | nil => intro t _ _; simp
  | cons a rs ih =>
    intro t hnd hfree
    rw [List.nodup_cons] at hnd
    have ha : t.recent a = none := hfree a List.mem_cons_self
    have hstep : t.newBlock a (blocks a) (leasesOf (blocks a)) =
        { t with
          lastValid := fun lv id => t.lastValid lv id || (blocks a).any (fun x => decide (x.lv = lv ∧ x.txid = id))
          recent := fun r => if r = a then some (leasesOf (blocks a)) else t.recent r } := by
      unfold Tail.newBlock; rw [ha]
    rw [List.foldl_cons, hstep]
    have hfree' : ∀ r ∈ rs, ({ t with
          lastValid := fun lv id => t.lastValid lv id || (blocks a).any (fun x => decide (x.lv = lv ∧ x.txid = id))
          recent := fun r => if r = a then some (leasesOf (blocks a)) else t.recent r } : Tail).recent r = none := by
      intro r hr
      show (if r = a then some (leasesOf (blocks a)) else t.recent r) = none
      have : r ≠ a := fun h => hnd.1 (h ▸ hr)
      rw [if_neg this]; exact hfree r (List.mem_cons_of_mem _ hr)
    obtain ⟨i1, i2, i3⟩ := ih _ hnd.2 hfree'
    refine ⟨i1, ?_, ?_⟩
    · intro r
      rw [i2 r]
      by_cases hr : r ∈ rs
      · rw [if_pos hr, if_pos (List.mem_cons_of_mem _ hr)]
      · rw [if_neg hr]
        show (if r = a then some (leasesOf (blocks a)) else t.recent r) = _
        by_cases hra : r = a
        · rw [if_pos hra, if_pos (by rw [hra]; exact List.mem_cons_self), hra]
        · rw [if_neg hra, if_neg (by intro h; rcases List.mem_cons.mp h with h | h; exact hra h; exact hr h)]
    · intro lv id
      rw [i3 lv id, List.any_cons, Bool.or_assoc]

theorem loads_iff {P : Params} (hg : P.strictGuard = false) (db : TailDB) : db.loads P = true ↔ db.lo ≤ db.hi := by
  unfold TailDB.loads; rw [hg]; simp

/-- `reloadLedger` rebuilds a tail that satisfies the invariant: the persisted rounds reach back far enough -/
theorem inv_reload {P : Params} (hg : P.strictGuard = false) {σ : Ledger} (hI : Inv P σ) : Inv P (σ.reload P) := by
  have hlo := db_lo_le_succ_hi hI
  -- the persisted rows cover every round a transaction alive after `latest` can come from
  have hcover : ∀ r, 1 ≤ r → r ≤ σ.db.hi → σ.latest < r + P.maxLife → σ.db.lo ≤ r := by
    intro r h1 h2 h3
    have := hI.db_hi
    rcases hI.db_lo with h | h <;> omega
  have hnd := nodup_rangeIncl (σ.db.hi + 1) σ.latest
  have hfree : ∀ r ∈ rangeIncl (σ.db.hi + 1) σ.latest, (Tail.loadFromDisk P σ.db σ.latest).recent r = none := by
    intro r hr
    rw [mem_rangeIncl] at hr
    show (if σ.db.loads P ∧ σ.db.lo ≤ r ∧ r ≤ σ.db.hi then _ else none) = none
    rw [if_neg (by omega)]
  obtain ⟨r1, r2, r3⟩ := replay_fold σ.blocks _ _ hnd hfree
  have hI1 : Inv P { σ with tail := replay σ (Tail.loadFromDisk P σ.db σ.latest) } := by
    have e1 : (replay σ (Tail.loadFromDisk P σ.db σ.latest)).lowWaterMark = σ.latest := r1
    have e2 : ∀ r, (replay σ (Tail.loadFromDisk P σ.db σ.latest)).recent r =
        if r ∈ rangeIncl (σ.db.hi + 1) σ.latest then some (leasesOf (σ.blocks r))
        else if σ.db.loads P ∧ σ.db.lo ≤ r ∧ r ≤ σ.db.hi then some (if P.supLeases then leasesOf (σ.db.row r) else noLeases) else none := r2
    have e3 : ∀ lv id, (replay σ (Tail.loadFromDisk P σ.db σ.latest)).lastValid lv id =
        ((σ.db.loads P && decide (σ.latest < lv) &&
            (rangeIncl σ.db.lo σ.db.hi).any (fun r => (σ.db.row r).any (fun x => decide (x.lv = lv ∧ x.txid = id)))) ||
          (rangeIncl (σ.db.hi + 1) σ.latest).any (fun r => (σ.blocks r).any (fun x => decide (x.lv = lv ∧ x.txid = id)))) := r3
    constructor
    · show (replay σ _).lowWaterMark ≤ σ.latest; rw [e1]; exact Nat.le_refl _
    · exact hI.blocks_out
    · exact hI.blocks_ok
    · intro r hr t ht hlv
      have hlv' : σ.latest < t.lv := by
        have : (replay σ (Tail.loadFromDisk P σ.db σ.latest)).lowWaterMark < t.lv := hlv
        rw [e1] at this; exact this
      have hr' : r ≤ σ.latest := hr
      show (replay σ _).lastValid t.lv t.txid = true
      rw [e3, Bool.or_eq_true]
      have hr1 : 1 ≤ r := by
        rcases Nat.eq_zero_or_pos r with h | h
        · rw [h, hI.blocks_out 0 (Or.inl rfl)] at ht; cases ht
        · exact h
      by_cases hhi : σ.db.hi < r
      · right
        rw [List.any_eq_true]
        refine ⟨r, mem_rangeIncl.mpr (by omega), ?_⟩
        rw [List.any_eq_true]; exact ⟨t, ht, by simp⟩
      · left
        have hok := hI.blocks_ok r t ht
        have hc : σ.db.lo ≤ r := hcover r hr1 (by omega) (by unfold TxOK at hok; omega)
        have hl : σ.db.loads P = true := (loads_iff hg _).mpr (by omega)
        rw [hl]
        simp only [Bool.true_and, Bool.and_eq_true, decide_eq_true_eq]
        refine ⟨hlv', ?_⟩
        rw [List.any_eq_true]
        refine ⟨r, mem_rangeIncl.mpr (by omega), ?_⟩
        rw [hI.db_row r hc (by omega), List.any_eq_true]; exact ⟨t, ht, by simp⟩
    · intro lv id h
      have h' : (replay σ (Tail.loadFromDisk P σ.db σ.latest)).lastValid lv id = true := h
      rw [e3, Bool.or_eq_true] at h'
      rcases h' with h' | h'
      · simp only [Bool.and_eq_true, decide_eq_true_eq] at h'
        obtain ⟨⟨_, _⟩, h3⟩ := h'
        rw [List.any_eq_true] at h3
        obtain ⟨r, hr, hx⟩ := h3
        rw [mem_rangeIncl] at hr
        rw [hI.db_row r hr.1 hr.2, List.any_eq_true] at hx
        obtain ⟨t, ht, hd⟩ := hx
        simp only [decide_eq_true_eq] at hd
        have := hI.db_hi
        exact ⟨r, by show r ≤ σ.latest; omega, t, ht, hd.1, hd.2⟩
      · rw [List.any_eq_true] at h'
        obtain ⟨r, hr, hx⟩ := h'
        rw [mem_rangeIncl] at hr
        rw [List.any_eq_true] at hx
        obtain ⟨t, ht, hd⟩ := hx
        simp only [decide_eq_true_eq] at hd
        exact ⟨r, hr.2, t, ht, hd.1, hd.2⟩
    · intro r m h
      have h' : (replay σ (Tail.loadFromDisk P σ.db σ.latest)).recent r = some m := h
      rw [e2] at h'
      by_cases hr : r ∈ rangeIncl (σ.db.hi + 1) σ.latest
      · rw [if_pos hr] at h'
        simp only [Option.some.injEq] at h'
        rw [mem_rangeIncl] at hr
        subst h'
        exact ⟨by omega, hr.2, fun _ => rfl⟩
      · rw [if_neg hr] at h'
        by_cases hc : σ.db.loads P ∧ σ.db.lo ≤ r ∧ r ≤ σ.db.hi
        · rw [if_pos hc] at h'
          simp only [Option.some.injEq] at h'
          have h1 := hI.db_lo1
          have h2 := hI.db_hi
          refine ⟨by omega, by show r ≤ σ.latest; omega, ?_⟩
          intro k
          rw [← h', hI.db_row r hc.2.1 hc.2.2]
          cases hs : P.supLeases with
          | true => rfl
          | false =>
            show noLeases k = _
            rw [leasesOf_no_lease _ (fun x hx => (hI.blocks_ok r x hx).2.2.2 hs)]; rfl
        · rw [if_neg hc] at h'; cases h'
    · intro r h1 h2 h3
      have h2' : r ≤ σ.latest := h2
      have hwin : σ.latest < r + P.maxLife := by
        rcases h3 with h3 | h3
        · exact h3
        · have : (replay σ (Tail.loadFromDisk P σ.db σ.latest)).lowWaterMark ≤ r := h3.2
          rw [e1] at this; omega
      show ((replay σ (Tail.loadFromDisk P σ.db σ.latest)).recent r).isSome = true
      rw [e2]
      by_cases hr : r ∈ rangeIncl (σ.db.hi + 1) σ.latest
      · rw [if_pos hr]; rfl
      · rw [if_neg hr]
        rw [mem_rangeIncl] at hr
        have hhi : r ≤ σ.db.hi := by omega
        have hc : σ.db.lo ≤ r := hcover r h1 hhi hwin
        rw [if_pos ⟨(loads_iff hg _).mpr (by omega), hc, hhi⟩]; rfl
    · exact hI.db_hi
    · exact hI.db_lo1
    · exact hI.db_lo
    · exact hI.db_some
    · exact hI.db_row
  unfold Ledger.reload
  show Inv P (if σ.db.hi + P.lookback < σ.latest then
      ({ σ with tail := replay σ (Tail.loadFromDisk P σ.db σ.latest) } : Ledger).flush P σ.latest
    else { σ with tail := replay σ (Tail.loadFromDisk P σ.db σ.latest) })
  by_cases hf : σ.db.hi + P.lookback < σ.latest
  · rw [if_pos hf]; exact inv_flush hI1 (Nat.le_refl _)
  · rw [if_neg hf]; exact hI1

/-! ## what `checkDup` answers, in terms of the block history alone -/

/-- is lease `key` held until at least `cur` by a transaction of round `r`? -/
def histLeaseAt (blocks : Nat → List Tx) (cur : Nat) (key : LeaseKey) (r : Nat) : Bool :=
  match leasesOf (blocks r) key with
  | some e => decide (cur ≤ e)
  | none => false

/-- the specification of duplicate detection: a function of the blocks `1..latest` only (no tail, no pruning, no DB) -/
def specDup (P : Params) (latest : Nat) (blocks : Nat → List Tx) (cur : Nat) (t : Tx) : Res :=
  if P.supLeases && decide (t.lease ≠ 0) && (leaseWindow P cur t.fv t.lv).any (histLeaseAt blocks cur t.key) then .lease false
  else if (List.range (latest + 1)).any (fun r => (blocks r).any (fun x => decide (x.lv = t.lv ∧ x.txid = t.txid))) then .txdup false
  else .ok

theorem mem_leaseWindow {P : Params} {cur fv lv r : Nat} (h : r ∈ leaseWindow P cur fv lv) (hw : lv - fv ≤ P.maxLife)
    (hc : cur ≤ lv) : cur ≤ r + P.maxLife := by
  unfold leaseWindow at h
  split at h <;> rw [mem_rangeIncl] at h <;> omega

/-- Under the invariant the real scan (tail state) answers exactly what the history says, for every transaction that
    is well formed and alive in the next round. -/
theorem checkDup_spec {P : Params} {σ : Ledger} (hI : Inv P σ) (t : Tx) (ht : TxOK P (σ.latest + 1) t) :
    σ.checkDup P (σ.latest + 1) t = specDup P σ.latest σ.blocks (σ.latest + 1) t := by
  obtain ⟨h1, h2, h3, _⟩ := ht
  have hlwm := hI.lwm_le
  unfold Ledger.checkDup Tail.checkDup specDup
  rw [if_neg (by omega)]
  have hlease : (leaseWindow P (σ.latest + 1) t.fv t.lv).any (σ.tail.leaseAt (σ.latest + 1) t.key) =
      (leaseWindow P (σ.latest + 1) t.fv t.lv).any (histLeaseAt σ.blocks (σ.latest + 1) t.key) := by
    apply any_eq_of_forall_mem
    intro r hr
    have hwin := mem_leaseWindow hr h3 h2
    unfold Tail.leaseAt histLeaseAt
    cases hrec : σ.tail.recent r with
    | some m =>
      obtain ⟨_, _, hm⟩ := hI.recent_sound r m hrec
      simp only [hm t.key]
      cases leasesOf (σ.blocks r) t.key <;> rfl
    | none =>
      simp only []
      by_cases hr0 : 1 ≤ r ∧ r ≤ σ.latest
      · have := hI.recent_have r hr0.1 hr0.2 (Or.inl (by omega))
        rw [hrec] at this; cases this
      · rw [hI.blocks_out r (by omega), leasesOf_nil]
  have htxid : σ.tail.lastValid t.lv t.txid =
      (List.range (σ.latest + 1)).any (fun r => (σ.blocks r).any (fun x => decide (x.lv = t.lv ∧ x.txid = t.txid))) := by
    rw [Bool.eq_iff_iff]
    constructor
    · intro h
      obtain ⟨r, hr, x, hx, e1, e2⟩ := hI.lv_sound _ _ h
      rw [List.any_eq_true]
      refine ⟨r, List.mem_range.mpr (by omega), ?_⟩
      rw [List.any_eq_true]; exact ⟨x, hx, by simp [e1, e2]⟩
    · intro h
      rw [List.any_eq_true] at h
      obtain ⟨r, hr, hx⟩ := h
      rw [List.any_eq_true] at hx
      obtain ⟨x, hx, hd⟩ := hx
      simp only [decide_eq_true_eq] at hd
      have := hI.lv_complete r (by have := List.mem_range.mp hr; omega) x hx (by omega)
      rw [hd.1, hd.2] at this; exact this
  rw [hlease, htxid]
  rfl

/-! ## histories -/

/-- one step of a ledger's life -/
inductive Step (P : Params) : Ledger → Ledger → Prop
  /-- a block whose groups the evaluator accepted one after the other (what `Validate` replays) is added -/
  | block (σ : Ledger) (groups : List (List Tx)) (l : Layer) :
      evalBlock P σ.tail (σ.latest + 1) {} groups = some l → Step P σ (σ.addBlock l)
  /-- the block queue reports round `rnd` as written (rounds are reported in increasing order) -/
  | committed (σ : Ledger) (rnd : Nat) : σ.tail.lowWaterMark ≤ rnd → rnd ≤ σ.latest → Step P σ (σ.committedUpTo P rnd)
  /-- the trackers are flushed for some written round -/
  | flush (σ : Ledger) (c : Nat) : c ≤ σ.latest → Step P σ (σ.flush P c)
  /-- the ledger is restarted -/
  | reload (σ : Ledger) : Step P σ (σ.reload P)

inductive Reach (P : Params) : Ledger → Prop
  | init : Reach P Ledger.init
  | step {σ σ' : Ledger} : Reach P σ → Step P σ σ' → Reach P σ'

/-- the exclusion properties of the block history -/
structure Excl (P : Params) (σ : Ledger) : Prop where
  ids : ∀ r, (σ.blocks r).Pairwise (fun a b => a.txid ≠ b.txid)
  keys : ∀ r, (σ.blocks r).Pairwise (fun a b => a.lease ≠ 0 → b.lease ≠ 0 → a.key ≠ b.key)
  once : ∀ r r' t, r < r' → r' ≤ σ.latest → t ∈ σ.blocks r → r' ≤ t.lv →
    ∀ t' ∈ σ.blocks r', ¬ (t'.txid = t.txid ∧ t'.lv = t.lv)
  lease : P.fixLeases = true → P.supLeases = true → ∀ r r' t, r < r' → r' ≤ σ.latest → t ∈ σ.blocks r → t.lease ≠ 0 →
    r' ≤ t.lv → ∀ t' ∈ σ.blocks r', t'.key ≠ t.key

theorem pairwise_mem_ne {α} {R : α → α → Prop} (hsym : ∀ a b, R a b → R b a) {l : List α} (h : l.Pairwise R)
    {a b : α} (ha : a ∈ l) (hb : b ∈ l) (hne : a ≠ b) : R a b := by
  induction l with
  | nil => cases ha
  | cons x xs ih =>
    rw [List.pairwise_cons] at h
    rcases List.mem_cons.mp ha with rfl | ha' <;> rcases List.mem_cons.mp hb with rfl | hb'
    · exact absurd rfl hne
    · exact h.1 b hb'
    · exact hsym _ _ (h.1 a ha')
    · exact ih h.2 ha' hb'

/-- the lease entry of a round is the one of its (unique) holder -/
theorem hist_lease_of_holder {blocks : Nat → List Tx} {r : Nat}
    (hk : (blocks r).Pairwise (fun a b => a.lease ≠ 0 → b.lease ≠ 0 → a.key ≠ b.key))
    {t : Tx} (ht : t ∈ blocks r) (hl : t.lease ≠ 0) : leasesOf (blocks r) t.key = some t.lv := by
  apply leasesOf_of_unique _ _ ht hl
  intro y hy hyl hyk
  by_cases hyt : y = t
  · rw [hyt]
  · exact absurd hyk (pairwise_mem_ne (fun a b h h1 h2 e => h h2 h1 e.symm) hk hy ht hyt hyl hl)

theorem excl_init (P : Params) : Excl P Ledger.init where
  ids := fun _ => List.Pairwise.nil
  keys := fun _ => List.Pairwise.nil
  once := fun _ _ t _ _ ht => by simp [Ledger.init] at ht
  lease := fun _ _ _ _ t _ _ ht => by simp [Ledger.init] at ht

/-- adding a block accepted by the evaluator keeps the history exclusive: the base check of every member was the
    history's own answer (`checkDup_spec`) -/
theorem excl_addBlock {P : Params} {σ : Ledger} (hI : Inv P σ) (hE : Excl P σ) {l : Layer}
    (hL : LayerOK P (baseCheck P σ.tail (σ.latest + 1)) (σ.latest + 1) l) : Excl P (σ.addBlock l) := by
  have hblocks : ∀ r, (σ.addBlock l).blocks r = if r = σ.latest + 1 then l.txs else σ.blocks r := fun _ => rfl
  have hlatest : (σ.addBlock l).latest = σ.latest + 1 := rfl
  have hspec : ∀ t' ∈ l.txs, specDup P σ.latest σ.blocks (σ.latest + 1) t' = .ok := by
    intro t' ht'
    obtain ⟨hok, hb⟩ := hL.txs.ok t' ht'
    rw [← checkDup_spec hI t' hok]; exact hb
  constructor
  · intro r; rw [hblocks]; split
    · exact hL.txs.ids
    · exact hE.ids r
  · intro r; rw [hblocks]; split
    · exact hL.txs.keys
    · exact hE.keys r
  · intro r r' t hr hr' ht hlv t' ht'
    rw [hlatest] at hr'
    rw [hblocks, if_neg (by omega)] at ht
    rw [hblocks] at ht'
    by_cases hnew : r' = σ.latest + 1
    · rw [if_pos hnew] at ht'
      rintro ⟨e1, e2⟩
      have hs := hspec t' ht'
      unfold specDup at hs
      split at hs
      · cases hs
      · rename_i hnl
        have : (List.range (σ.latest + 1)).any (fun r => (σ.blocks r).any (fun x => decide (x.lv = t'.lv ∧ x.txid = t'.txid))) = true := by
          rw [List.any_eq_true]
          refine ⟨r, List.mem_range.mpr (by omega), ?_⟩
          rw [List.any_eq_true]; exact ⟨t, ht, by simp [e1, e2]⟩
        rw [if_pos this] at hs; cases hs
    · rw [if_neg hnew] at ht'
      exact hE.once r r' t hr (by omega) ht hlv t' ht'
  · intro hfix hsup r r' t hr hr' ht hl hlv t' ht' hkey
    rw [hlatest] at hr'
    rw [hblocks, if_neg (by omega)] at ht
    rw [hblocks] at ht'
    by_cases hnew : r' = σ.latest + 1
    · rw [if_pos hnew] at ht'
      have hs := hspec t' ht'
      have hl' : t'.lease ≠ 0 := by
        have : t'.lease = t.lease := congrArg Prod.snd hkey
        rw [this]; exact hl
      have hok := hI.blocks_ok r t ht
      have hany : (leaseWindow P (σ.latest + 1) t'.fv t'.lv).any (histLeaseAt σ.blocks (σ.latest + 1) t'.key) = true := by
        rw [List.any_eq_true]
        refine ⟨r, ?_, ?_⟩
        · unfold leaseWindow; rw [if_pos hfix, mem_rangeIncl]
          unfold TxOK at hok; omega
        · unfold histLeaseAt
          rw [hkey, hist_lease_of_holder (hE.keys r) ht hl]
          simp only [decide_eq_true_eq]; omega
      unfold specDup at hs
      rw [if_pos (by simp [hsup, hl', hany])] at hs
      cases hs
    · rw [if_neg hnew] at ht'
      exact hE.lease hfix hsup r r' t hr (by omega) ht hl hlv t' ht' hkey

theorem flush_blocks (P : Params) (σ : Ledger) (c : Nat) :
    (σ.flush P c).blocks = σ.blocks ∧ (σ.flush P c).latest = σ.latest := by
  unfold Ledger.flush
  by_cases h1 : c < P.lookback
  · rw [if_pos h1]; exact ⟨rfl, rfl⟩
  · rw [if_neg h1]
    show (if c - P.lookback ≤ σ.db.hi then σ else { σ with db := σ.db.commit P σ.blocks (c - P.lookback) }).blocks = _ ∧
      (if c - P.lookback ≤ σ.db.hi then σ else { σ with db := σ.db.commit P σ.blocks (c - P.lookback) }).latest = _
    by_cases h2 : c - P.lookback ≤ σ.db.hi
    · rw [if_pos h2]; exact ⟨rfl, rfl⟩
    · rw [if_neg h2]; exact ⟨rfl, rfl⟩

theorem reload_blocks (P : Params) (σ : Ledger) :
    (σ.reload P).blocks = σ.blocks ∧ (σ.reload P).latest = σ.latest := by
  unfold Ledger.reload
  split
  · exact flush_blocks P _ _
  · exact ⟨rfl, rfl⟩

theorem excl_congr {P : Params} {σ σ' : Ledger} (hb : σ'.blocks = σ.blocks) (hl : σ'.latest = σ.latest)
    (hE : Excl P σ) : Excl P σ' :=
  ⟨by rw [hb]; exact hE.ids, by rw [hb]; exact hE.keys, by rw [hb, hl]; exact hE.once, by rw [hb, hl]; exact hE.lease⟩

/-- every reachable ledger satisfies the tail invariant and has an exclusive history -/
theorem reach_inv {P : Params} (hg : P.strictGuard = false) {σ : Ledger} (h : Reach P σ) : Inv P σ ∧ Excl P σ := by
  induction h with
  | init => exact ⟨inv_init P, excl_init P⟩
  | step _ hs ih =>
    obtain ⟨hI, hE⟩ := ih
    cases hs with
    | block groups l hev =>
      have hL := (evalBlock_ok groups {} l (layerOK_empty P _ _) hev).1
      exact ⟨inv_addBlock hI hL, excl_addBlock hI hE hL⟩
    | committed rnd h1 h2 => exact ⟨inv_committedUpTo hI h1 h2, ⟨hE.ids, hE.keys, hE.once, hE.lease⟩⟩
    | flush c hc => exact ⟨inv_flush hI hc, excl_congr (flush_blocks P _ c).1 (flush_blocks P _ c).2 hE⟩
    | reload => exact ⟨inv_reload hg hI, excl_congr (reload_blocks P _).1 (reload_blocks P _).2 hE⟩

end Lemmas.TxTail
