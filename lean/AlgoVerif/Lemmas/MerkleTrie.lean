/-
Invariant (canonical form) of the merkle trie model and its preservation by add / remove.
Core Lean only.
-/
import AlgoVerif.Model.MerkleTrie
namespace Model.MerkleTrie

/-- order facts on bytes, through `toNat` -/
macro "u8omega" : tactic =>
  `(tactic| (simp only [UInt8.lt_iff_toNat_lt, UInt8.le_iff_toNat_le, ← UInt8.toNat_inj, ne_eq] at * <;> omega))

/-- every child index in `cs` is larger than `b` -/
def Cs.allGt : Cs → UInt8 → Prop
  | .nil, _ => True
  | .cons c _ rest, b => b < c ∧ rest.allGt b

/-- exactly one child, and it is a leaf: the shape node.remove collapses and node.add never creates -/
def Cs.singleLeaf : Cs → Prop
  | .cons _ (.leaf _) .nil => True
  | _ => False

mutual
/-- canonical form at remaining key length `n`: leaves hold exactly `n` bytes; a non-leaf has at least one
child, children strictly ordered by index, every child canonical at `n-1`, and is not a lone leaf child. -/
def T.Canon : T → Nat → Prop
  | .leaf s, n => s.length = n
  | .node _, 0 => False
  | .node cs, n + 1 => cs.Canon n ∧ cs ≠ .nil ∧ ¬ cs.singleLeaf
def Cs.Canon : Cs → Nat → Prop
  | .nil, _ => True
  | .cons c t rest, n => t.Canon n ∧ rest.Canon n ∧ rest.allGt c
end

theorem Cs.allGt_mono : ∀ {cs : Cs} {a b : UInt8}, cs.allGt b → a < b → cs.allGt a
  | .nil, _, _, _, _ => trivial
  | .cons _ _ _, _, _, h, hab => ⟨UInt8.lt_trans hab h.1, Cs.allGt_mono h.2 hab⟩

/-! ### keys -/

theorem Cs.mem_keys_cons {c : UInt8} {t : T} {rest : Cs} {k : Key} :
    k ∈ (Cs.cons c t rest).keys ↔ (∃ k', k = c :: k' ∧ k' ∈ t.keys) ∨ k ∈ rest.keys := by
  simp only [Cs.keys, List.mem_append, List.mem_map]
  constructor
  · rintro (⟨k', hk', rfl⟩ | h)
    · exact Or.inl ⟨k', rfl, hk'⟩
    · exact Or.inr h
  · rintro (⟨k', rfl, hk'⟩ | h)
    · exact Or.inl ⟨k', hk', rfl⟩
    · exact Or.inr h

theorem T.keys_node {cs : Cs} : (T.node cs).keys = cs.keys := by simp [T.keys]
theorem T.mem_keys_leaf {s k : Key} : k ∈ (T.leaf s).keys ↔ k = s := by simp [T.keys]
theorem Cs.mem_keys_nil {k : Key} : k ∈ Cs.nil.keys ↔ False := by simp [Cs.keys]

/-- keys below sorted children start with an index above the bound -/
theorem Cs.keys_head_gt : ∀ {cs : Cs} {b : UInt8} {k : Key}, cs.allGt b → k ∈ cs.keys →
    ∃ c k', k = c :: k' ∧ b < c
  | .nil, _, _, _, h => by simp [Cs.keys] at h
  | .cons c t rest, b, k, hgt, h => by
    rcases Cs.mem_keys_cons.1 h with ⟨k', rfl, _⟩ | h
    · exact ⟨c, k', rfl, hgt.1⟩
    · exact Cs.keys_head_gt hgt.2 h

mutual
theorem T.keys_length : ∀ {t : T} {n : Nat} {k : Key}, t.Canon n → k ∈ t.keys → k.length = n
  | .leaf s, n, k, h, hk => by
    simp only [T.keys, List.mem_singleton] at hk; subst hk; exact h
  | .node cs, 0, k, h, _ => by simp [T.Canon] at h
  | .node cs, n + 1, k, h, hk => by
    simp only [T.Canon] at h
    simp only [T.keys] at hk
    exact Cs.keys_length h.1 hk
theorem Cs.keys_length : ∀ {cs : Cs} {n : Nat} {k : Key}, cs.Canon n → k ∈ cs.keys → k.length = n + 1
  | .nil, _, _, _, hk => by simp [Cs.keys] at hk
  | .cons c t rest, n, k, h, hk => by
    simp only [Cs.Canon] at h
    rcases Cs.mem_keys_cons.1 hk with ⟨k', rfl, hk'⟩ | hk
    · simp [T.keys_length h.1 hk']
    · exact Cs.keys_length h.2.1 hk
end

mutual
theorem T.keys_nonempty : ∀ {t : T} {n : Nat}, t.Canon n → ∃ k, k ∈ t.keys
  | .leaf s, _, _ => ⟨s, by simp [T.keys]⟩
  | .node cs, 0, h => by simp [T.Canon] at h
  | .node cs, n + 1, h => by
    simp only [T.Canon] at h
    simp only [T.keys]
    exact Cs.keys_nonempty h.1 h.2.1
theorem Cs.keys_nonempty : ∀ {cs : Cs} {n : Nat}, cs.Canon n → cs ≠ .nil → ∃ k, k ∈ cs.keys
  | .nil, _, _, hne => absurd rfl hne
  | .cons c t rest, n, h, _ => by
    simp only [Cs.Canon] at h
    obtain ⟨k, hk⟩ := T.keys_nonempty h.1
    exact ⟨c :: k, Cs.mem_keys_cons.2 (Or.inl ⟨k, rfl, hk⟩)⟩
end

mutual
/-- a canonical non-leaf stores at least two different keys -/
theorem T.two_keys : ∀ {t : T} {n : Nat}, t.Canon n → t.isLeaf = false →
    ∃ k₁ k₂, k₁ ∈ t.keys ∧ k₂ ∈ t.keys ∧ k₁ ≠ k₂
  | .leaf _, _, _, hl => by simp [T.isLeaf] at hl
  | .node cs, 0, h, _ => by simp [T.Canon] at h
  | .node cs, n + 1, h, _ => by
    simp only [T.Canon] at h
    simp only [T.keys]
    exact Cs.two_keys h.1 h.2.1 h.2.2
theorem Cs.two_keys : ∀ {cs : Cs} {n : Nat}, cs.Canon n → cs ≠ .nil → ¬ cs.singleLeaf →
    ∃ k₁ k₂, k₁ ∈ cs.keys ∧ k₂ ∈ cs.keys ∧ k₁ ≠ k₂
  | .nil, _, _, hne, _ => absurd rfl hne
  | .cons c t rest, n, h, _, hs => by
    simp only [Cs.Canon] at h
    cases rest with
    | nil =>
      have hl : t.isLeaf = false := by
        cases t with
        | leaf s => exact absurd trivial hs
        | node cs' => rfl
      obtain ⟨k₁, k₂, h₁, h₂, hne⟩ := T.two_keys h.1 hl
      refine ⟨c :: k₁, c :: k₂, ?_, ?_, by simpa using hne⟩
      · exact Cs.mem_keys_cons.2 (Or.inl ⟨k₁, rfl, h₁⟩)
      · exact Cs.mem_keys_cons.2 (Or.inl ⟨k₂, rfl, h₂⟩)
    | cons c' t' rest' =>
      obtain ⟨k₁, h₁⟩ := T.keys_nonempty h.1
      have h2 := h.2.1
      simp only [Cs.Canon] at h2
      obtain ⟨k₂, h₂⟩ := T.keys_nonempty h2.1
      have hlt : c < c' := h.2.2.1
      refine ⟨c :: k₁, c' :: k₂, ?_, ?_, ?_⟩
      · exact Cs.mem_keys_cons.2 (Or.inl ⟨k₁, rfl, h₁⟩)
      · exact Cs.mem_keys_cons.2 (Or.inr (Cs.mem_keys_cons.2 (Or.inl ⟨k₂, rfl, h₂⟩)))
      · intro heq
        have : c = c' := (List.cons.inj heq).1
        subst this; exact UInt8.lt_irrefl _ hlt
end

/-! ### find -/

mutual
theorem T.find_spec : ∀ {t : T} {n : Nat} {d : Key}, t.Canon n → d.length = n →
    t.find d = some (decide (d ∈ t.keys))
  | .leaf s, _, d, _, _ => by simp [T.find, T.keys]
  | .node cs, 0, _, h, _ => by simp [T.Canon] at h
  | .node cs, n + 1, [], _, hd => by simp at hd
  | .node cs, n + 1, b :: d, h, hd => by
    simp only [T.Canon] at h
    simp only [T.find, T.keys]
    exact Cs.find_spec h.1 (by simpa using hd)
theorem Cs.find_spec : ∀ {cs : Cs} {n : Nat} {b : UInt8} {d : Key}, cs.Canon n → d.length = n →
    cs.find b d = some (decide ((b :: d) ∈ cs.keys))
  | .nil, _, _, _, _, _ => by simp [Cs.find, Cs.keys]
  | .cons c t rest, n, b, d, h, hd => by
    simp only [Cs.Canon] at h
    simp only [Cs.find]
    by_cases hbc : b = c
    · subst hbc
      rw [if_pos rfl, T.find_spec h.1 hd]
      congr 1
      apply decide_eq_decide.2
      rw [Cs.mem_keys_cons]
      constructor
      · intro hk; exact Or.inl ⟨d, rfl, hk⟩
      · rintro (⟨k', hk', hm⟩ | hk)
        · have := (List.cons.inj hk').2; subst this; exact hm
        · obtain ⟨c', k', hk', hlt⟩ := Cs.keys_head_gt h.2.2 hk
          have := (List.cons.inj hk').1; subst this; exact absurd hlt (UInt8.lt_irrefl _)
    · rw [if_neg hbc, Cs.find_spec h.2.1 hd]
      congr 1
      apply decide_eq_decide.2
      rw [Cs.mem_keys_cons]
      constructor
      · intro hk; exact Or.inr hk
      · rintro (⟨k', hk', _⟩ | hk)
        · exact absurd (List.cons.inj hk').1 hbc
        · exact hk
end

/-! ### add -/

theorem split_spec : ∀ (s d : Key) (n : Nat), s.length = n → d.length = n → d ≠ s →
    ∃ t', split s d = some t' ∧ t'.Canon n ∧ (∀ k, k ∈ t'.keys ↔ k = d ∨ k = s) ∧ t'.isLeaf = false
  | [], [], _, _, _, hne => absurd rfl hne
  | [], _ :: _, n, hs, hd, _ => by simp at hs hd; omega
  | _ :: _, [], n, hs, hd, _ => by simp at hs hd; omega
  | a :: s, b :: d, 0, hs, _, _ => by simp at hs
  | a :: s, b :: d, n + 1, hs, hd, hne => by
    have hs' : s.length = n := by simpa using hs
    have hd' : d.length = n := by simpa using hd
    simp only [split]
    by_cases hab : a = b
    · subst hab
      have hne' : d ≠ s := fun h => hne (by rw [h])
      obtain ⟨t', ht, hc, hk, hl⟩ := split_spec s d n hs' hd' hne'
      refine ⟨.node (.cons a t' .nil), by simp [ht], ?_, ?_, rfl⟩
      · simp only [T.Canon, Cs.Canon, Cs.allGt, and_true]
        refine ⟨hc, by simp, ?_⟩
        cases t' with
        | leaf _ => simp [T.isLeaf] at hl
        | node _ => simp [Cs.singleLeaf]
      · intro k
        simp only [T.keys_node, Cs.mem_keys_cons, Cs.mem_keys_nil, or_false]
        constructor
        · rintro ⟨k', rfl, hk'⟩
          rcases (hk k').1 hk' with rfl | rfl
          · exact Or.inl rfl
          · exact Or.inr rfl
        · rintro (rfl | rfl)
          · exact ⟨d, rfl, (hk d).2 (Or.inl rfl)⟩
          · exact ⟨s, rfl, (hk s).2 (Or.inr rfl)⟩
    · rw [if_neg hab]
      by_cases hlt : a < b
      · rw [if_pos hlt]
        refine ⟨_, rfl, ?_, ?_, rfl⟩
        · simp only [T.Canon, Cs.Canon, Cs.allGt, and_true]
          exact ⟨⟨hs', hd', hlt⟩, by simp, by simp [Cs.singleLeaf]⟩
        · intro k
          simp only [T.keys_node, Cs.mem_keys_cons, Cs.mem_keys_nil, T.mem_keys_leaf, or_false]
          constructor
          · rintro (⟨k', rfl, rfl⟩ | ⟨k', rfl, rfl⟩)
            · exact Or.inr rfl
            · exact Or.inl rfl
          · rintro (rfl | rfl)
            · exact Or.inr ⟨d, rfl, rfl⟩
            · exact Or.inl ⟨s, rfl, rfl⟩
      · rw [if_neg hlt]
        have hgt : b < a := by u8omega
        refine ⟨_, rfl, ?_, ?_, rfl⟩
        · simp only [T.Canon, Cs.Canon, Cs.allGt, and_true]
          exact ⟨⟨hd', hs', hgt⟩, by simp, by simp [Cs.singleLeaf]⟩
        · intro k
          simp only [T.keys_node, Cs.mem_keys_cons, Cs.mem_keys_nil, T.mem_keys_leaf, or_false]
          constructor
          · rintro (⟨k', rfl, rfl⟩ | ⟨k', rfl, rfl⟩)
            · exact Or.inl rfl
            · exact Or.inr rfl
          · rintro (rfl | rfl)
            · exact Or.inl ⟨d, rfl, rfl⟩
            · exact Or.inr ⟨s, rfl, rfl⟩

mutual
theorem T.add_spec : ∀ {t : T} {n : Nat} {d : Key}, t.Canon n → d.length = n → d ∉ t.keys →
    ∃ t', t.add d = some t' ∧ t'.Canon n ∧ (∀ k, k ∈ t'.keys ↔ k = d ∨ k ∈ t.keys) ∧ t'.isLeaf = false
  | .leaf s, n, d, h, hd, hn => by
    have hne : d ≠ s := fun e => hn (by simp [T.keys, e])
    obtain ⟨t', ht, hc, hk, hl⟩ := split_spec s d n h hd hne
    exact ⟨t', by simpa [T.add] using ht, hc, fun k => by rw [hk k, T.mem_keys_leaf], hl⟩
  | .node cs, 0, _, h, _, _ => by simp [T.Canon] at h
  | .node cs, n + 1, [], _, hd, _ => by simp at hd
  | .node cs, n + 1, b :: d, h, hd, hn => by
    simp only [T.Canon] at h
    obtain ⟨cs', hcs, hc, hk, _, hnn, hsl⟩ :=
      Cs.add_spec h.1 (by simpa using hd) (by simpa [T.keys_node] using hn)
    refine ⟨.node cs', by simp [T.add, hcs], ?_, ?_, rfl⟩
    · simp only [T.Canon]; exact ⟨hc, hnn, hsl h.2.1⟩
    · intro k; simp only [T.keys_node]; exact hk k
theorem Cs.add_spec : ∀ {cs : Cs} {n : Nat} {b : UInt8} {d : Key}, cs.Canon n → d.length = n →
    (b :: d) ∉ cs.keys →
    ∃ cs', cs.add b d = some cs' ∧ cs'.Canon n ∧ (∀ k, k ∈ cs'.keys ↔ k = b :: d ∨ k ∈ cs.keys) ∧
      (∀ x, cs.allGt x → x < b → cs'.allGt x) ∧ cs' ≠ .nil ∧ (cs ≠ .nil → ¬ cs'.singleLeaf)
  | .nil, n, b, d, _, hd, _ => by
    refine ⟨.cons b (.leaf d) .nil, rfl, ?_, ?_, fun x _ hx => ⟨hx, trivial⟩, by simp, fun h => absurd rfl h⟩
    · simp [Cs.Canon, T.Canon, Cs.allGt, hd]
    · intro k
      simp only [Cs.mem_keys_cons, Cs.mem_keys_nil, T.mem_keys_leaf, or_false]
      constructor
      · rintro ⟨k', rfl, rfl⟩; rfl
      · rintro rfl; exact ⟨d, rfl, rfl⟩
  | .cons c t rest, n, b, d, h, hd, hn => by
    simp only [Cs.Canon] at h
    simp only [Cs.add]
    by_cases hlt : b < c
    · rw [if_pos hlt]
      refine ⟨_, rfl, ?_, ?_, ?_, by simp, fun _ => by simp [Cs.singleLeaf]⟩
      · simp only [Cs.Canon, T.Canon, Cs.allGt]
        exact ⟨hd, ⟨h.1, h.2.1, h.2.2⟩, hlt, Cs.allGt_mono h.2.2 hlt⟩
      · intro k
        rw [Cs.mem_keys_cons (c := b)]
        simp only [T.mem_keys_leaf]
        constructor
        · rintro (⟨k', rfl, rfl⟩ | hr)
          · exact Or.inl rfl
          · exact Or.inr hr
        · rintro (rfl | hr)
          · exact Or.inl ⟨d, rfl, rfl⟩
          · exact Or.inr hr
      · intro x hx hxb; exact ⟨hxb, hx⟩
    · rw [if_neg hlt]
      by_cases hbc : b = c
      · subst hbc; rw [if_pos rfl]
        have hn' : d ∉ t.keys := fun hm => hn (Cs.mem_keys_cons.2 (Or.inl ⟨d, rfl, hm⟩))
        obtain ⟨t', ht, hc, hk, hl⟩ := T.add_spec h.1 hd hn'
        refine ⟨.cons b t' rest, by simp [ht], ?_, ?_, ?_, by simp, fun _ => ?_⟩
        · simp only [Cs.Canon]; exact ⟨hc, h.2.1, h.2.2⟩
        · intro k
          simp only [Cs.mem_keys_cons]
          constructor
          · rintro (⟨k', rfl, hk'⟩ | hr)
            · rcases (hk k').1 hk' with rfl | hk''
              · exact Or.inl rfl
              · exact Or.inr (Or.inl ⟨k', rfl, hk''⟩)
            · exact Or.inr (Or.inr hr)
          · rintro (rfl | ⟨k', rfl, hk'⟩ | hr)
            · exact Or.inl ⟨d, rfl, (hk d).2 (Or.inl rfl)⟩
            · exact Or.inl ⟨k', rfl, (hk k').2 (Or.inr hk')⟩
            · exact Or.inr hr
        · intro x hx _; exact hx
        · cases t' with
          | leaf _ => simp [T.isLeaf] at hl
          | node _ => simp [Cs.singleLeaf]
      · rw [if_neg hbc]
        have hgt : c < b := by u8omega
        have hn' : (b :: d) ∉ rest.keys := fun hm => hn (Cs.mem_keys_cons.2 (Or.inr hm))
        obtain ⟨r', hr, hc, hk, hg, hnn, _⟩ := Cs.add_spec h.2.1 hd hn'
        refine ⟨.cons c t r', by simp [hr], ?_, ?_, ?_, by simp, fun _ => ?_⟩
        · simp only [Cs.Canon]; exact ⟨h.1, hc, hg c h.2.2 hgt⟩
        · intro k
          simp only [Cs.mem_keys_cons]
          rw [hk k]
          constructor
          · rintro (hl | rfl | hr)
            · exact Or.inr (Or.inl hl)
            · exact Or.inl rfl
            · exact Or.inr (Or.inr hr)
          · rintro (rfl | hl | hr)
            · exact Or.inr (Or.inl rfl)
            · exact Or.inl hl
            · exact Or.inr (Or.inr hr)
        · intro x hx hxb; exact ⟨hx.1, hg x hx.2 hxb⟩
        · cases r' with
          | nil => exact absurd rfl hnn
          | cons _ _ _ => cases t <;> simp [Cs.singleLeaf]
end

/-! ### remove -/

theorem collapse_of_not_single : ∀ {cs : Cs}, ¬ cs.singleLeaf → collapse cs = .node cs
  | .nil, _ => rfl
  | .cons _ (.node _) _, _ => rfl
  | .cons _ (.leaf _) (.cons _ _ _), _ => rfl
  | .cons _ (.leaf _) .nil, h => absurd trivial h

theorem collapse_spec {cs : Cs} {n : Nat} (hc : cs.Canon n) (hne : cs ≠ .nil) :
    (collapse cs).Canon (n + 1) ∧ (∀ k, k ∈ (collapse cs).keys ↔ k ∈ cs.keys) := by
  by_cases hs : cs.singleLeaf
  · match cs, hs with
    | .cons b (.leaf s) .nil, _ =>
      simp only [Cs.Canon, T.Canon] at hc
      refine ⟨by simp [collapse, T.Canon, hc.1], fun k => ?_⟩
      simp only [collapse, T.mem_keys_leaf, Cs.mem_keys_cons, Cs.mem_keys_nil, or_false]
      constructor
      · rintro rfl; exact ⟨s, rfl, rfl⟩
      · rintro ⟨k', rfl, rfl⟩; rfl
  · rw [collapse_of_not_single hs]
    exact ⟨by simp only [T.Canon]; exact ⟨hc, hne, hs⟩, fun k => by rw [T.keys_node]⟩

mutual
theorem T.remove_spec : ∀ {t : T} {n : Nat} {d : Key}, t.Canon n → t.isLeaf = false → d.length = n →
    d ∈ t.keys →
    ∃ t', t.remove d = some t' ∧ t'.Canon n ∧ (∀ k, k ∈ t'.keys ↔ k ≠ d ∧ k ∈ t.keys)
  | .leaf _, _, _, _, hl, _, _ => by simp [T.isLeaf] at hl
  | .node cs, 0, _, h, _, _, _ => by simp [T.Canon] at h
  | .node cs, n + 1, [], _, _, hd, _ => by simp at hd
  | .node cs, n + 1, b :: d, h, _, hd, hm => by
    simp only [T.Canon] at h
    obtain ⟨cs', hcs, hc, hk, _, hnil⟩ :=
      Cs.remove_spec h.1 (by simpa using hd) (by simpa [T.keys_node] using hm)
    have hne : cs' ≠ .nil := fun e => h.2.2 (hnil e)
    obtain ⟨hcc, hck⟩ := collapse_spec hc hne
    refine ⟨collapse cs', by simp [T.remove, hcs], hcc, fun k => ?_⟩
    rw [hck k, hk k, T.keys_node]
theorem Cs.remove_spec : ∀ {cs : Cs} {n : Nat} {b : UInt8} {d : Key}, cs.Canon n → d.length = n →
    (b :: d) ∈ cs.keys →
    ∃ cs', cs.remove b d = some cs' ∧ cs'.Canon n ∧ (∀ k, k ∈ cs'.keys ↔ k ≠ b :: d ∧ k ∈ cs.keys) ∧
      (∀ x, cs.allGt x → cs'.allGt x) ∧ (cs' = .nil → cs.singleLeaf)
  | .nil, _, _, _, _, _, hm => by simp [Cs.keys] at hm
  | .cons c t rest, n, b, d, h, hd, hm => by
    simp only [Cs.Canon] at h
    simp only [Cs.remove]
    by_cases hle : b ≤ c
    · rw [if_pos hle]
      -- the key lives below the child with index c = b
      have hbc : b = c ∧ d ∈ t.keys := by
        rcases Cs.mem_keys_cons.1 hm with ⟨k', hk', hmk⟩ | hr
        · obtain ⟨h1, h2⟩ := List.cons.inj hk'
          subst h1; subst h2; exact ⟨rfl, hmk⟩
        · obtain ⟨c', k', hk', hlt⟩ := Cs.keys_head_gt h.2.2 hr
          have := (List.cons.inj hk').1; subst this
          exfalso; u8omega
      obtain ⟨rfl, hdt⟩ := hbc
      cases t with
      | leaf s =>
        have hds : d = s := T.mem_keys_leaf.1 hdt
        subst hds
        refine ⟨rest, by simp [T.isLeaf], h.2.1, fun k => ?_, fun x hx => hx.2, fun e => by subst e; trivial⟩
        simp only [Cs.mem_keys_cons, T.mem_keys_leaf]
        constructor
        · intro hr
          refine ⟨fun e => ?_, Or.inr hr⟩
          subst e
          obtain ⟨c', k', hk', hlt⟩ := Cs.keys_head_gt h.2.2 hr
          have := (List.cons.inj hk').1; subst this; exact UInt8.lt_irrefl _ hlt
        · rintro ⟨hne, ⟨k', rfl, rfl⟩ | hr⟩
          · exact absurd rfl hne
          · exact hr
      | node cs'' =>
        obtain ⟨t', ht, hc, hk⟩ := T.remove_spec h.1 rfl hd hdt
        refine ⟨.cons b t' rest, by simp [T.isLeaf, ht], ?_, fun k => ?_, fun x hx => hx, fun e => by simp at e⟩
        · simp only [Cs.Canon]; exact ⟨hc, h.2.1, h.2.2⟩
        · simp only [Cs.mem_keys_cons]
          constructor
          · rintro (⟨k', rfl, hk'⟩ | hr)
            · obtain ⟨hne, hin⟩ := (hk k').1 hk'
              exact ⟨fun e => hne (List.cons.inj e).2, Or.inl ⟨k', rfl, hin⟩⟩
            · refine ⟨fun e => ?_, Or.inr hr⟩
              subst e
              obtain ⟨c', k', hk', hlt⟩ := Cs.keys_head_gt h.2.2 hr
              have := (List.cons.inj hk').1; subst this; exact UInt8.lt_irrefl _ hlt
          · rintro ⟨hne, ⟨k', rfl, hk'⟩ | hr⟩
            · exact Or.inl ⟨k', rfl, (hk k').2 ⟨fun e => hne (by rw [e]), hk'⟩⟩
            · exact Or.inr hr
    · rw [if_neg hle]
      have hcb : c < b := by u8omega
      have hmr : (b :: d) ∈ rest.keys := by
        rcases Cs.mem_keys_cons.1 hm with ⟨k', hk', _⟩ | hr
        · have := (List.cons.inj hk').1; subst this; exact absurd hcb (UInt8.lt_irrefl _)
        · exact hr
      obtain ⟨r', hr, hc, hk, hg, _⟩ := Cs.remove_spec h.2.1 hd hmr
      refine ⟨.cons c t r', by simp [hr], ?_, fun k => ?_, fun x hx => ⟨hx.1, hg x hx.2⟩, fun e => by simp at e⟩
      · simp only [Cs.Canon]; exact ⟨h.1, hc, hg c h.2.2⟩
      · simp only [Cs.mem_keys_cons]
        rw [hk k]
        constructor
        · rintro (⟨k', rfl, hk'⟩ | ⟨hne, hr⟩)
          · refine ⟨fun e => ?_, Or.inl ⟨k', rfl, hk'⟩⟩
            have := (List.cons.inj e).1; subst this; exact UInt8.lt_irrefl _ hcb
          · exact ⟨hne, Or.inr hr⟩
        · rintro ⟨hne, hl | hr⟩
          · exact Or.inl hl
          · exact Or.inr ⟨hne, hr⟩
end

/-! ### the canonical form of a key set is unique -/

/-- splitting key membership of sorted children by the first byte -/
theorem Cs.mem_keys_cons_head {c : UInt8} {t : T} {rest : Cs} {k : Key} (hgt : rest.allGt c) :
    (c :: k) ∈ (Cs.cons c t rest).keys ↔ k ∈ t.keys := by
  rw [Cs.mem_keys_cons]
  constructor
  · rintro (⟨k', hk', hm⟩ | hr)
    · have := (List.cons.inj hk').2; subst this; exact hm
    · obtain ⟨c', k', hk', hlt⟩ := Cs.keys_head_gt hgt hr
      have := (List.cons.inj hk').1; subst this; exact absurd hlt (UInt8.lt_irrefl _)
  · intro hm; exact Or.inl ⟨k, rfl, hm⟩

mutual
theorem T.canon_unique : ∀ {t₁ t₂ : T} {n : Nat}, t₁.Canon n → t₂.Canon n →
    (∀ k, k ∈ t₁.keys ↔ k ∈ t₂.keys) → t₁ = t₂
  | .leaf s₁, .leaf s₂, _, _, _, hk => by
    have := (hk s₁).1 (T.mem_keys_leaf.2 rfl)
    rw [T.mem_keys_leaf.1 this]
  | .leaf s, .node cs, _, _, h₂, hk => by
    obtain ⟨k₁, k₂, m₁, m₂, hne⟩ := T.two_keys h₂ rfl
    have e₁ := T.mem_keys_leaf.1 ((hk k₁).2 m₁)
    have e₂ := T.mem_keys_leaf.1 ((hk k₂).2 m₂)
    exact absurd (e₁.trans e₂.symm) hne
  | .node cs, .leaf s, _, h₁, _, hk => by
    obtain ⟨k₁, k₂, m₁, m₂, hne⟩ := T.two_keys h₁ rfl
    have e₁ := T.mem_keys_leaf.1 ((hk k₁).1 m₁)
    have e₂ := T.mem_keys_leaf.1 ((hk k₂).1 m₂)
    exact absurd (e₁.trans e₂.symm) hne
  | .node cs₁, .node cs₂, 0, h₁, _, _ => by simp [T.Canon] at h₁
  | .node cs₁, .node cs₂, n + 1, h₁, h₂, hk => by
    simp only [T.Canon] at h₁ h₂
    simp only [T.keys_node] at hk
    rw [Cs.canon_unique h₁.1 h₂.1 hk]
theorem Cs.canon_unique : ∀ {cs₁ cs₂ : Cs} {n : Nat}, cs₁.Canon n → cs₂.Canon n →
    (∀ k, k ∈ cs₁.keys ↔ k ∈ cs₂.keys) → cs₁ = cs₂
  | .nil, .nil, _, _, _, _ => rfl
  | .nil, .cons c t r, n, _, h₂, hk => by
    obtain ⟨k, hm⟩ := Cs.keys_nonempty h₂ (by simp)
    exact absurd ((hk k).2 hm) (by simp [Cs.keys])
  | .cons c t r, .nil, n, h₁, _, hk => by
    obtain ⟨k, hm⟩ := Cs.keys_nonempty h₁ (by simp)
    exact absurd ((hk k).1 hm) (by simp [Cs.keys])
  | .cons c₁ t₁ r₁, .cons c₂ t₂ r₂, n, h₁, h₂, hk => by
    simp only [Cs.Canon] at h₁ h₂
    have hc : c₁ = c₂ := by
      obtain ⟨k₁, m₁⟩ := T.keys_nonempty h₁.1
      obtain ⟨k₂, m₂⟩ := T.keys_nonempty h₂.1
      have a₁ : c₁ = c₂ ∨ c₂ < c₁ := by
        rcases Cs.mem_keys_cons.1 ((hk (c₁ :: k₁)).1 (Cs.mem_keys_cons.2 (Or.inl ⟨k₁, rfl, m₁⟩))) with ⟨k', hk', _⟩ | hr
        · exact Or.inl (List.cons.inj hk').1
        · obtain ⟨c', k', hk', hlt⟩ := Cs.keys_head_gt h₂.2.2 hr
          have := (List.cons.inj hk').1; subst this; exact Or.inr hlt
      have a₂ : c₂ = c₁ ∨ c₁ < c₂ := by
        rcases Cs.mem_keys_cons.1 ((hk (c₂ :: k₂)).2 (Cs.mem_keys_cons.2 (Or.inl ⟨k₂, rfl, m₂⟩))) with ⟨k', hk', _⟩ | hr
        · exact Or.inl (List.cons.inj hk').1
        · obtain ⟨c', k', hk', hlt⟩ := Cs.keys_head_gt h₁.2.2 hr
          have := (List.cons.inj hk').1; subst this; exact Or.inr hlt
      rcases a₁ with e | l₁
      · exact e
      · rcases a₂ with e | l₂
        · exact e.symm
        · exfalso; u8omega
    subst hc
    have ht : ∀ k, k ∈ t₁.keys ↔ k ∈ t₂.keys := fun k => by
      rw [← Cs.mem_keys_cons_head (t := t₁) h₁.2.2, ← Cs.mem_keys_cons_head (t := t₂) h₂.2.2]
      exact hk _
    have hr : ∀ k, k ∈ r₁.keys ↔ k ∈ r₂.keys := fun k => by
      constructor
      · intro hm
        rcases Cs.mem_keys_cons.1 ((hk k).1 (Cs.mem_keys_cons.2 (Or.inr hm))) with ⟨k', hk', _⟩ | hr
        · obtain ⟨c', k'', hk'', hlt⟩ := Cs.keys_head_gt h₁.2.2 hm
          rw [hk''] at hk'
          have := (List.cons.inj hk').1; subst this; exact absurd hlt (UInt8.lt_irrefl _)
        · exact hr
      · intro hm
        rcases Cs.mem_keys_cons.1 ((hk k).2 (Cs.mem_keys_cons.2 (Or.inr hm))) with ⟨k', hk', _⟩ | hr
        · obtain ⟨c', k'', hk'', hlt⟩ := Cs.keys_head_gt h₂.2.2 hm
          rw [hk''] at hk'
          have := (List.cons.inj hk').1; subst this; exact absurd hlt (UInt8.lt_irrefl _)
        · exact hr
    rw [T.canon_unique h₁.1 h₂.1 ht, Cs.canon_unique h₁.2.1 h₂.2.1 hr]
end

/-! ### `canon` builds the canonical form of its key set -/

theorem allBytes_sorted : allBytes.Pairwise (· < ·) := by
  unfold allBytes
  rw [List.pairwise_map]
  refine List.Pairwise.imp_of_mem ?_ (List.pairwise_lt_range (n := 256))
  intro a b ha hb hab
  have ha' : a < 256 := List.mem_range.1 ha
  have hb' : b < 256 := List.mem_range.1 hb
  rw [UInt8.lt_iff_toNat_lt, UInt8.toNat_ofNat_of_lt' (by simpa using ha'), UInt8.toNat_ofNat_of_lt' (by simpa using hb')]
  exact hab

theorem mem_allBytes (b : UInt8) : b ∈ allBytes :=
  List.mem_map.2 ⟨b.toNat, List.mem_range.2 (by simpa using b.toNat_lt), UInt8.ofNat_toNat⟩

theorem mem_sub {S : List Key} {b : UInt8} {k : Key} : k ∈ sub S b ↔ (b :: k) ∈ S := by
  unfold sub
  rw [List.mem_filterMap]
  constructor
  · rintro ⟨a, ha, hf⟩
    cases a with
    | nil => simp at hf
    | cons c k' =>
      by_cases hcb : c = b
      · subst hcb; simp at hf; subst hf; exact ha
      · simp [hcb] at hf
  · intro h; exact ⟨b :: k, h, by simp⟩

/-- what `canon n` is required to deliver on key sets of length `n` -/
def CanonOK (n : Nat) (f : List Key → Option T) : Prop :=
  ∀ S : List Key, (∀ k ∈ S, k.length = n) →
    match f S with
    | none => S = []
    | some t => t.Canon n ∧ ∀ k, k ∈ t.keys ↔ k ∈ S

theorem canonCs_spec {n : Nat} {f : List Key → Option T} (hf : CanonOK n f) (S : List Key)
    (hS : ∀ k ∈ S, k.length = n + 1) :
    ∀ bs : List UInt8, bs.Pairwise (· < ·) →
      (canonCs f S bs).Canon n ∧ (∀ x, (∀ b ∈ bs, x < b) → (canonCs f S bs).allGt x) ∧
      (∀ k, k ∈ (canonCs f S bs).keys ↔ ∃ b ∈ bs, ∃ k', k = b :: k' ∧ (b :: k') ∈ S)
  | [], _ => by
    refine ⟨by simp [canonCs, Cs.Canon], fun _ _ => by simp [canonCs, Cs.allGt], fun k => ?_⟩
    simp [canonCs, Cs.keys]
  | b :: bs, hp => by
    rw [List.pairwise_cons] at hp
    obtain ⟨hc, hg, hk⟩ := canonCs_spec hf S hS bs hp.2
    have hsub : ∀ k ∈ sub S b, k.length = n := fun k hk' => by
      have := hS _ (mem_sub.1 hk'); simpa using this
    have hfb := hf (sub S b) hsub
    simp only [canonCs]
    cases hfe : f (sub S b) with
    | none =>
      rw [hfe] at hfb
      simp only at hfb
      refine ⟨hc, fun x hx => hg x (fun b' hb' => hx b' (List.mem_cons_of_mem _ hb')), fun k => ?_⟩
      rw [hk k]
      constructor
      · rintro ⟨b', hb', k', rfl, hm⟩; exact ⟨b', List.mem_cons_of_mem _ hb', k', rfl, hm⟩
      · rintro ⟨b', hb', k', rfl, hm⟩
        rcases List.mem_cons.1 hb' with rfl | hb''
        · have : k' ∈ sub S b' := mem_sub.2 hm
          rw [hfb] at this; simp at this
        · exact ⟨b', hb'', k', rfl, hm⟩
    | some t =>
      rw [hfe] at hfb
      simp only at hfb
      refine ⟨?_, fun x hx => ⟨hx b (List.mem_cons_self ..), hg x (fun b' hb' => hx b' (List.mem_cons_of_mem _ hb'))⟩, fun k => ?_⟩
      · simp only [Cs.Canon]; exact ⟨hfb.1, hc, hg b hp.1⟩
      · rw [Cs.mem_keys_cons, hk k]
        constructor
        · rintro (⟨k', rfl, hm⟩ | ⟨b', hb', k', rfl, hm⟩)
          · exact ⟨b, List.mem_cons_self .., k', rfl, mem_sub.1 ((hfb.2 k').1 hm)⟩
          · exact ⟨b', List.mem_cons_of_mem _ hb', k', rfl, hm⟩
        · rintro ⟨b', hb', k', rfl, hm⟩
          rcases List.mem_cons.1 hb' with rfl | hb''
          · exact Or.inl ⟨k', rfl, (hfb.2 k').2 (mem_sub.2 hm)⟩
          · exact Or.inr ⟨b', hb'', k', rfl, hm⟩

theorem canon_ok : ∀ n : Nat, CanonOK n (canon n)
  | 0 => by
    intro S hS
    cases S with
    | nil => simp [canon]
    | cons k S' =>
      simp only [canon]
      refine ⟨by simp [T.Canon], fun k' => ?_⟩
      rw [T.mem_keys_leaf]
      constructor
      · rintro rfl
        have : k.length = 0 := hS k (List.mem_cons_self ..)
        have : k = [] := List.eq_nil_of_length_eq_zero this
        subst this; exact List.mem_cons_self ..
      · intro hm; exact List.eq_nil_of_length_eq_zero (hS k' hm)
  | n + 1 => by
    intro S hS
    cases S with
    | nil => simp [canon]
    | cons k S' =>
      simp only [canon]
      by_cases hall : S'.all (fun k' => decide (k' = k)) = true
      · rw [if_pos hall]
        refine ⟨by simp only [T.Canon]; exact hS k (List.mem_cons_self ..), fun k' => ?_⟩
        rw [T.mem_keys_leaf]
        rw [List.all_eq_true] at hall
        constructor
        · rintro rfl; exact List.mem_cons_self ..
        · intro hm
          rcases List.mem_cons.1 hm with rfl | hm'
          · rfl
          · simpa using hall k' hm'
      · rw [if_neg hall]
        obtain ⟨hc, _, hk⟩ := canonCs_spec (canon_ok n) (k :: S') hS allBytes allBytes_sorted
        have hkeys : ∀ k', k' ∈ (canonCs (canon n) (k :: S') allBytes).keys ↔ k' ∈ k :: S' := fun k' => by
          rw [hk k']
          constructor
          · rintro ⟨b, _, k'', rfl, hm⟩; exact hm
          · intro hm
            have hl := hS k' hm
            cases k' with
            | nil => simp at hl
            | cons b k'' => exact ⟨b, mem_allBytes b, k'', rfl, hm⟩
        -- two different keys
        have hex : ∃ k', k' ∈ S' ∧ k' ≠ k := by
          rw [List.all_eq_true] at hall
          simp only [decide_eq_true_eq] at hall
          exact Classical.not_forall.1 hall |>.elim fun k' hk' => ⟨k', Classical.not_imp.1 hk'⟩
        obtain ⟨k₂, hk₂, hne⟩ := hex
        have m₁ := (hkeys k).2 (List.mem_cons_self ..)
        have m₂ := (hkeys k₂).2 (List.mem_cons_of_mem _ hk₂)
        refine ⟨?_, fun k' => by rw [T.keys_node]; exact hkeys k'⟩
        simp only [T.Canon]
        refine ⟨hc, fun e => ?_, fun hs => ?_⟩
        · rw [e] at m₁; simp [Cs.keys] at m₁
        · match hcs : canonCs (canon n) (k :: S') allBytes, hs with
          | .cons b (.leaf s) .nil, _ =>
            rw [hcs] at m₁ m₂
            simp only [Cs.mem_keys_cons, Cs.mem_keys_nil, T.mem_keys_leaf, or_false] at m₁ m₂
            obtain ⟨_, rfl, rfl⟩ := m₁
            obtain ⟨_, rfl, rfl⟩ := m₂
            exact hne rfl

/-- the canonical trie of a non-empty set of `n`-byte keys: canonical form, and stores exactly the set -/
theorem canon_some {n : Nat} {S : List Key} (hS : ∀ k ∈ S, k.length = n) (hne : S ≠ []) :
    ∃ t, canon n S = some t ∧ t.Canon n ∧ ∀ k, k ∈ t.keys ↔ k ∈ S := by
  have h := canon_ok n S hS
  cases hc : canon n S with
  | none => rw [hc] at h; exact absurd h hne
  | some t => rw [hc] at h; exact ⟨t, rfl, h⟩

theorem canon_nil (n : Nat) : canon n [] = none := by cases n <;> rfl

/-- any trie in canonical form IS `canon` of its key set -/
theorem canon_eq_of_canon {t : T} {n : Nat} {S : List Key} (ht : t.Canon n)
    (hk : ∀ k, k ∈ t.keys ↔ k ∈ S) : canon n S = some t := by
  have hS : ∀ k ∈ S, k.length = n := fun k hm => T.keys_length ht ((hk k).2 hm)
  have hne : S ≠ [] := by
    obtain ⟨k, hm⟩ := T.keys_nonempty ht
    intro e; rw [e] at hk; exact absurd ((hk k).1 hm) (by simp)
  obtain ⟨t', he, hc, hk'⟩ := canon_some hS hne
  rw [he, T.canon_unique hc ht (fun k => by rw [hk' k, hk k])]

end Model.MerkleTrie
