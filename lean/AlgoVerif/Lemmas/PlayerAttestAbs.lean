import AlgoVerif.Lemmas.AgreementAbsQuorum
import AlgoVerif.Lemmas.VoteTrackerBundle
/-!
The arithmetic lift from the concrete quorum notion of PlayerM — a bundle that passes the structural bundle verification
(`Model.VoteTracker.Bundle.verify`: distinct senders, every plain vote a valid vote for the bundle's value, every equivocation
pair two valid votes for different values, total weight ≥ the step's threshold) — to the abstract quorum `Q P h p s x` of
`Spec.AgreementAbs` (weight of the nodes of `P.nodes` that voted `x` at `(p, s)` in the history `h`, equivocators counted
for every value, ≥ `P.T`).

`quorum_abs` needs exactly: every valid vote's sender is a node of `P`, carries its abstract weight, and its vote is in the
history (`hlink`); the value map is injective (distinct concrete values are distinct abstract values); and the abstract
threshold is at most the concrete threshold of the step (`P.T ≤ c.T`: the abstract model has ONE threshold — it is a lower
bound of the step thresholds).
-/
namespace AlgoVerif.Lemmas.PlayerAttest
open AlgoVerif.Spec.AgreementAbs AlgoVerif.Lemmas.AgreementAbs
open AlgoVerif.Model.VoteTracker (Bundle Cfg EqVote reachesQuorum nodupNat)

theorem sum_map_erase {f : Nat → Nat} : ∀ {M : List Nat} {a : Nat}, a ∈ M → (M.map f).sum = f a + ((M.erase a).map f).sum := by
  intro M
  induction M with
  | nil => intro a h; cases h
  | cons b rest ih =>
    intro a h
    by_cases hb : b = a
    · subst hb
      simp
    · have hne : (b == a) = false := by simpa using hb
      rcases List.mem_cons.mp h with h | h
      · exact absurd h.symm hb
      · rw [List.erase_cons, hne]
        simp only [Bool.false_eq_true, if_false, List.map_cons, List.sum_cons]
        rw [ih h]; omega

theorem sum_le_of_nodup_subset {f : Nat → Nat} : ∀ {L M : List Nat}, L.Nodup → (∀ a ∈ L, a ∈ M) →
    (L.map f).sum ≤ (M.map f).sum := by
  intro L
  induction L with
  | nil => intro M _ _; simp
  | cons a rest ih =>
    intro M hnd hsub
    obtain ⟨ha, hnd'⟩ := List.nodup_cons.mp hnd
    have hm : a ∈ M := hsub a List.mem_cons_self
    rw [sum_map_erase hm]
    simp only [List.map_cons, List.sum_cons]
    have := ih (M := M.erase a) hnd' (fun b hb => by
      have hbM := hsub b (List.mem_cons_of_mem _ hb)
      have hne : b ≠ a := by intro e; subst e; exact ha hb
      exact (List.mem_erase_of_ne hne).mpr hbM)
    omega

/-- **quorum_abs.** -/
theorem quorum_abs (Pabs : Params) (h : List Ev) (p : Nat) (S : Step) (fv : Nat → Option Val)
    (hinj : ∀ a b, fv a = fv b → a = b) (c : Cfg) (valid : AlgoVerif.Model.VoteTracker.Vote → Bool) (b : Bundle)
    (hlink : ∀ a, valid a = true → a.sender ∈ Pabs.nodes ∧ Pabs.w a.sender = a.weight ∧ VotedFor h a.sender p S (fv a.value))
    (hT : Pabs.T ≤ c.T) (hv : Bundle.verify c valid b = true) : Q Pabs h p S (fv b.proposal) := by
  unfold Bundle.verify at hv
  simp only [Bool.and_eq_true, List.all_eq_true] at hv
  obtain ⟨⟨⟨⟨⟨_, _⟩, h3⟩, h4⟩, h5⟩, h6⟩ := hv
  have hsum : c.T ≤ (b.votes.map (·.weight)).sum + (b.eqVotes.map (·.weight)).sum := by
    unfold reachesQuorum at h6
    split at h6
    · cases h6
    · simpa using h6
  have hnd := (AlgoVerif.Lemmas.VoteTracker.nodupNat_iff _).mp h3
  obtain ⟨L, hL⟩ : ∃ L, L = b.votes.map (·.sender) ++ b.eqVotes.map (·.sender) := ⟨_, rfl⟩
  rw [← hL] at hnd
  have hw : (L.map Pabs.w).sum = (b.votes.map (·.weight)).sum + (b.eqVotes.map (·.weight)).sum := by
    rw [hL, List.map_append, List.sum_append, List.map_map, List.map_map]
    congr 1
    · congr 1
      apply List.map_congr_left
      intro a ha
      exact (hlink _ (h4 a ha)).2.1
    · congr 1
      apply List.map_congr_left
      intro e he
      have := h5 e he
      exact (hlink _ this.1.2).2.1
  have hin : ∀ a ∈ L, a ∈ Pabs.nodes.filter (inSupp h p S (fv b.proposal)) := by
    intro a ha
    rw [hL] at ha
    rcases List.mem_append.mp ha with ha | ha
    · obtain ⟨x, hx, rfl⟩ := List.mem_map.mp ha
      obtain ⟨g1, _, g3⟩ := hlink _ (h4 x hx)
      exact List.mem_filter.mpr ⟨g1, inSupp_iff.mpr (Or.inl g3)⟩
    · obtain ⟨e, he, rfl⟩ := List.mem_map.mp ha
      have := h5 e he
      simp only [bne_iff_ne, ne_eq] at this
      obtain ⟨⟨hne, v0⟩, v1⟩ := this
      obtain ⟨g1, _, g3⟩ := hlink _ v0
      obtain ⟨_, _, k3⟩ := hlink _ v1
      refine List.mem_filter.mpr ⟨g1, inSupp_iff.mpr (Or.inr ?_)⟩
      exact ⟨_, g3, _, k3, rfl, rfl, rfl, rfl, rfl, rfl, fun e' => hne (hinj _ _ e')⟩
  have hle := sum_le_of_nodup_subset (f := Pabs.w) hnd hin
  show Pabs.T ≤ wtl Pabs.w Pabs.nodes (inSupp h p S (fv b.proposal))
  unfold wtl
  omega

end AlgoVerif.Lemmas.PlayerAttest
