/-
C32 helper lemmas: integer square root.
* `isqrt_spec` / `isqrt_unique`: `Spec.isqrt x` is THE `s` with `s² ≤ x < (s+1)²`.
* `crenshaw_correct`: the 32-iteration shift-and-subtract loop of `opSqrt` (with its wrapping uint64
  operations) returns exactly that `s` for every `x < 2^64`.
-/
import Mathlib.Tactic.Ring
import AlgoVerif.Model.AVMArith
namespace Lemmas.AVMArith
open Spec.AVMArith Model.AVMArith AlgoVerif.U64

/-! ### the specification function -/
theorem sqrtBits_spec (i x r : Nat) (h1 : r * r ≤ x) (h2 : x < (r + 2 ^ i) * (r + 2 ^ i)) :
    sqrtBits i x r * sqrtBits i x r ≤ x ∧ x < (sqrtBits i x r + 1) * (sqrtBits i x r + 1) := by
  induction i generalizing r with
  | zero => simpa [sqrtBits] using ⟨h1, h2⟩
  | succ i ih =>
    simp only [sqrtBits]
    by_cases h : (r + 2 ^ i) * (r + 2 ^ i) ≤ x
    · rw [if_pos h]
      apply ih _ h
      have : r + 2 ^ i + 2 ^ i = r + 2 ^ (i + 1) := by rw [Nat.pow_succ]; omega
      rw [this]; exact h2
    · rw [if_neg h]
      exact ih _ h1 (by omega)

theorem isqrt_spec (x : Nat) : isqrt x * isqrt x ≤ x ∧ x < (isqrt x + 1) * (isqrt x + 1) := by
  unfold isqrt
  apply sqrtBits_spec
  · simp
  · have h : x < 2 ^ (x.log2 + 1) := Nat.lt_log2_self
    have h1 : 1 ≤ 2 ^ (x.log2 + 1) := Nat.pow_pos (by decide)
    have : 2 ^ (x.log2 + 1) * 1 ≤ 2 ^ (x.log2 + 1) * 2 ^ (x.log2 + 1) := Nat.mul_le_mul_left _ h1
    simp only [Nat.zero_add]; omega

theorem isqrt_unique (x s : Nat) (h1 : s * s ≤ x) (h2 : x < (s + 1) * (s + 1)) : s = isqrt x := by
  have ⟨g1, g2⟩ := isqrt_spec x
  generalize isqrt x = t at *
  by_cases hlt : s < t
  · have : (s + 1) * (s + 1) ≤ t * t := Nat.mul_le_mul hlt hlt
    omega
  · by_cases hgt : t < s
    · have : (t + 1) * (t + 1) ≤ s * s := Nat.mul_le_mul hgt hgt
      omega
    · omega

/-! ### Crenshaw's loop -/

/-- loop invariant after the top digits `X` of `x` (base 4) have been consumed: `x = X·P4 + B`,
    `sq` holds the unconsumed digits `B` shifted to the top, `root = 2·⌊√X⌋`, `rem = X − ⌊√X⌋²` -/
def SqrtInv (x : Nat) (s : SqrtSt) (P4 Q : Nat) : Prop :=
  ∃ X r B, x = X * P4 + B ∧ B < P4 ∧ s.sq = B * Q ∧ s.root = 2 * r ∧ r * r ≤ X ∧
    X < (r + 1) * (r + 1) ∧ s.rem = X - r * r ∧ X < Q

theorem shift_facts (B P Q : Nat) (hPQ : P * Q = 4 ^ 31) (hB : B < 4 * P) :
    (B * Q) >>> 62 = B / P ∧ ushl 64 (B * Q) 2 = (B % P) * (4 * Q) ∧ B / P < 4 := by
  have hQ : 0 < Q := by
    rcases Nat.eq_zero_or_pos Q with h | h
    · rw [h] at hPQ; simp at hPQ
    · exact h
  have hP : 0 < P := by
    rcases Nat.eq_zero_or_pos P with h | h
    · rw [h] at hPQ; simp at hPQ
    · exact h
  have e62 : (2:Nat) ^ 62 = 4 ^ 31 := by decide
  refine ⟨?_, ?_, ?_⟩
  · rw [Nat.shiftRight_eq_div_pow, e62, ← hPQ, Nat.mul_div_mul_right _ _ hQ]
  · unfold ushl
    rw [Nat.shiftLeft_eq]
    have e64 : (2:Nat) ^ 64 = 4 * P * Q := by
      have : (2:Nat) ^ 64 = 4 * 4 ^ 31 := by decide
      rw [this, ← hPQ, Nat.mul_assoc]
    have hsplit : B * Q * 2 ^ 2 = (B % P) * (4 * Q) + (4 * P * Q) * (B / P) := by
      have hB' : B = P * (B / P) + B % P := (Nat.div_add_mod B P).symm
      generalize B / P = d at *
      generalize B % P = b2 at *
      rw [hB']; ring
    have hlt : (B % P) * (4 * Q) < 4 * P * Q := by
      have h1 : B % P < P := Nat.mod_lt _ hP
      have h2 : (B % P + 1) * (4 * Q) ≤ P * (4 * Q) := Nat.mul_le_mul_right _ h1
      have h3 : P * (4 * Q) = 4 * P * Q := by ring
      rw [Nat.add_mul] at h2
      omega
    rw [hsplit, e64, Nat.add_mul_mod_self_left, Nat.mod_eq_of_lt hlt]
  · rw [Nat.div_lt_iff_lt_mul hP]; exact hB

theorem sqrt_step (x : Nat) (s : SqrtSt) (P Q : Nat) (hPQ : P * Q = 4 ^ 31)
    (h : SqrtInv x s (4 * P) Q) : SqrtInv x (sqrtIter s) P (4 * Q) := by
  obtain ⟨X, r, B, hx, hB, hsq, hroot, hr1, hr2, hrem, hXQ⟩ := h
  obtain ⟨f1, f2, f3⟩ := shift_facts B P Q hPQ hB
  have hP : 0 < P := by
    rcases Nat.eq_zero_or_pos P with h | h
    · rw [h] at hPQ; simp at hPQ
    · exact h
  have hQle : Q ≤ 4 ^ 31 := by
    rw [← hPQ]; exact Nat.le_mul_of_pos_left Q hP
  have e31 : (4:Nat) ^ 31 = 4611686018427387904 := by decide
  rw [e31] at hQle
  -- squares as atoms
  have sq1 : (r + 1) * (r + 1) = r * r + 2 * r + 1 := by ring
  have sq2 : (2 * r + 1) * (2 * r + 1) = 4 * (r * r) + 4 * r + 1 := by ring
  have sq3 : (2 * r + 1 + 1) * (2 * r + 1 + 1) = 4 * (r * r) + 8 * r + 4 := by ring
  have sq4 : (2 * r) * (2 * r) = 4 * (r * r) := by ring
  have hrle : r ≤ r * r := by
    rcases Nat.eq_zero_or_pos r with h | h
    · rw [h]
    · exact Nat.le_mul_of_pos_left r h
  generalize r * r = q at *
  -- the consumed digit
  have hd : B = P * (B / P) + B % P := (Nat.div_add_mod B P).symm
  have hB2 : B % P < P := Nat.mod_lt _ hP
  have hx' : x = (4 * X + B / P) * P + B % P := by
    rw [hx]; conv => lhs; rw [hd]
    ring
  -- machine operations do not wrap
  have e64 : (2:Nat) ^ 64 = 18446744073709551616 := by decide
  have root1 : ushl 64 s.root 1 = 4 * r := by
    unfold ushl; rw [Nat.shiftLeft_eq, hroot, e64]; omega
  have rem1 : (ushl 64 s.rem 2 ||| (B * Q) >>> (64 - 2)) = 4 * (X - q) + B / P := by
    have : ushl 64 s.rem 2 = 2 ^ 2 * (X - q) := by
      unfold ushl; rw [Nat.shiftLeft_eq, hrem, e64]; omega
    rw [this, f1, ← Nat.two_pow_add_eq_or_of_lt (by omega : B / P < 2 ^ 2)]
  unfold sqrtIter
  simp only [root1, hsq, f2]
  simp only [rem1]
  by_cases hc : 4 * r < 4 * (X - q) + B / P
  · rw [if_pos hc]
    refine ⟨4 * X + B / P, 2 * r + 1, B % P, hx', hB2, rfl, ?_, ?_, ?_, ?_, ?_⟩
    · show uadd 64 (4 * r) 2 = 2 * (2 * r + 1)
      unfold uadd; rw [e64]; omega
    · rw [sq2]; omega
    · rw [sq3]; omega
    · show usub 64 (4 * (X - q) + B / P) (4 * r ||| 1) = _
      have e1 : (4 * r ||| 1) = 4 * r + 1 := by
        have : 4 * r = 2 ^ 1 * (2 * r) := by omega
        rw [this, ← Nat.two_pow_add_eq_or_of_lt (by decide : 1 < 2 ^ 1)]
      rw [e1, sq2]
      unfold usub; rw [e64]; omega
    · omega
  · rw [if_neg hc]
    refine ⟨4 * X + B / P, 2 * r, B % P, hx', hB2, rfl, ?_, ?_, ?_, ?_, ?_⟩
    · show 4 * r = 2 * (2 * r); omega
    · rw [sq4]; omega
    · rw [sq2]; omega
    · show 4 * (X - q) + B / P = _
      rw [sq4]; omega
    · omega

theorem sqrt_loop_inv (x : Nat) (n : Nat) : ∀ (s : SqrtSt) (P' Q : Nat),
    4 ^ n * P' * Q = 4 ^ 32 → SqrtInv x s (4 ^ n * P') Q →
    SqrtInv x (sqrtLoop n s) P' (Q * 4 ^ n) := by
  induction n with
  | zero => intro s P' Q _ h; simpa [sqrtLoop] using h
  | succ n ih =>
    intro s P' Q hprod h
    simp only [sqrtLoop]
    have e : 4 ^ (n + 1) * P' = 4 * (4 ^ n * P') := by rw [Nat.pow_succ]; ring
    rw [e] at h hprod
    have hPQ : 4 ^ n * P' * Q = 4 ^ 31 := by
      have : (4:Nat) ^ 32 = 4 * 4 ^ 31 := by decide
      rw [this, Nat.mul_assoc] at hprod
      exact Nat.eq_of_mul_eq_mul_left (by decide : 0 < 4) hprod
    have h' := sqrt_step x s (4 ^ n * P') Q hPQ h
    have hprod' : 4 ^ n * P' * (4 * Q) = 4 ^ 32 := by
      have : (4:Nat) ^ 32 = 4 * 4 ^ 31 := by decide
      rw [this, ← hPQ]; ring
    have := ih (sqrtIter s) P' (4 * Q) hprod' h'
    have e2 : Q * 4 ^ (n + 1) = 4 * Q * 4 ^ n := by rw [Nat.pow_succ]; ring
    rw [e2]; exact this

/-- Crenshaw's loop computes ⌊√x⌋ for every 64-bit `x` -/
theorem crenshaw_correct (x : Nat) (hx : x < 2 ^ 64) :
    (sqrtLoop 32 { sq := x, rem := 0, root := 0 }).root >>> 1 = isqrt x := by
  have e64 : (2:Nat) ^ 64 = 4 ^ 32 := by decide
  have h0 : SqrtInv x { sq := x, rem := 0, root := 0 } (4 ^ 32 * 1) 1 :=
    ⟨0, 0, x, by simp, by rw [← e64] at *; simpa using hx, by simp, by simp, by simp, by simp, by simp, by simp⟩
  obtain ⟨X, r, B, h1, h2, _, h4, h5, h6, _, _⟩ :=
    sqrt_loop_inv x 32 _ 1 1 (by simp) h0
  have hB : B = 0 := by omega
  have hX : X = x := by rw [h1, hB]; simp
  rw [h4, Nat.shiftRight_eq_div_pow]
  have : 2 * r / 2 ^ 1 = r := by omega
  rw [this]
  apply isqrt_unique <;> rw [← hX] <;> assumption

end Lemmas.AVMArith
