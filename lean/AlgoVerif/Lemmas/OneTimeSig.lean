/-
Helper lemmas about Model.OneTimeSig (crypto/onetimesig.go) used by Props/C36:
 * `covers s id`   — the index arithmetic that decides whether `sign s id` has a key (pure arithmetic on the state);
 * `WF`, `Inv`     — representation invariant: Batches[i] is the batch key B (FirstBatch+i) with the master's
                     certificate, Offsets[i] is O (FirstBatch-1) (FirstOffset+i) certified by B (FirstBatch-1), and
                     OffsetsPK2(+Sig) is that batch key's public half + certificate whenever Offsets is non-empty;
 * one deleteBefore step shrinks `covers` to identifiers that are not earlier than `current` (`covers_delete_sub`)
   and keeps every covered identifier ≥ current with offset < numKeys (`covers_delete_sup`);
 * lifted to arbitrary op sequences by induction over the op list.
Core tactics only.
-/
import AlgoVerif.Model.OneTimeSig
namespace Lemmas.OneTimeSig
open AlgoVerif.Model.OneTimeSig

def covers (s : State) (id : Id) : Prop :=
  (id.batch + 1 = s.firstBatch ∧ s.firstOffset ≤ id.offset ∧ id.offset < s.firstOffset + s.offsets.length) ∨
  (s.firstBatch ≤ id.batch ∧ id.batch < s.firstBatch + s.batches.length)

theorem sign_isSome_iff (s : State) (id : Id) (m : Nat) (hid : id.batch + 1 < M64) :
    (sign s id m).isSome = true ↔ covers s id := by
  simp only [sign, Nat.mod_eq_of_lt hid]
  unfold covers
  split
  · rename_i h; simp only [Option.isSome_some, true_iff]; left; omega
  · split
    · rename_i h1 h2; simp only [Option.isSome_some, true_iff]; right; omega
    · rename_i h1 h2; simp only [Option.isSome_none, Bool.false_eq_true, false_iff]; omega

theorem expand_length (bk : Key) (b c n : Nat) : (expand bk b c n).length = n - c := by
  simp [expand]

/-- Go: a nil slice has length 0 -/
def WF (s : State) : Prop := s.batchesNonNil = false → s.batches = []

theorem covers_delete_sub (s : State) (cur id : Id) (nk : Nat) (hwf : WF s) (hc : cur.batch + 1 < M64)
    (h : covers (deleteBeforeFineGrained s cur nk) id) : covers s id ∧ ¬ Id.lt id cur := by
  simp only [deleteBeforeFineGrained, Nat.mod_eq_of_lt hc] at h
  split at h
  · split at h
    · unfold covers Id.lt at *; simp only [List.length_drop] at h; omega
    · unfold covers Id.lt at *; omega
  · split at h
    · unfold covers Id.lt at *; omega
    · split at h
      · split at h
        · unfold covers Id.lt at *; simp only [List.length_nil, Nat.add_zero] at h; omega
        · rename_i hn
          have := hwf (by simpa using hn)
          unfold covers Id.lt at *; simp only [this, List.length_nil, Nat.add_zero] at h; omega
      · split at h
        · unfold covers Id.lt at *; simp only [List.length_nil, Nat.add_zero] at h; omega
        · rename_i b0 rest hd
          have hl := congrArg List.length hd
          simp only [List.length_drop, List.length_cons] at hl
          unfold covers Id.lt at *
          simp only [expand_length] at h
          omega

theorem covers_delete_sup (s : State) (cur id : Id) (nk : Nat) (hc : cur.batch + 1 < M64)
    (h : covers s id) (hge : ¬ Id.lt id cur) (hnk : id.offset < nk) :
    covers (deleteBeforeFineGrained s cur nk) id := by
  simp only [deleteBeforeFineGrained, Nat.mod_eq_of_lt hc]
  split
  · split
    · unfold covers Id.lt at *; simp only [List.length_drop]; omega
    · unfold covers Id.lt at *; omega
  · split
    · unfold covers Id.lt at *; omega
    · split
      · split <;> (unfold covers Id.lt at *; simp; omega)
      · split
        · rename_i hd
          have hl := congrArg List.length hd
          simp only [List.length_drop, List.length_nil] at hl
          unfold covers Id.lt at *
          simp; omega
        · rename_i b0 rest hd
          have hl := congrArg List.length hd
          simp only [List.length_drop, List.length_cons] at hl
          unfold covers Id.lt at *
          simp only [expand_length]
          omega

structure Inv (s : State) : Prop where
  wf : WF s
  ver : s.verifier = .master
  bat : ∀ i (h : i < s.batches.length), s.batches[i] = batchSub .master (s.firstBatch + i)
  off : ∀ i (h : i < s.offsets.length),
          s.offsets[i] = offSub (.B (s.firstBatch - 1)) (s.firstBatch - 1) (s.firstOffset + i)
  pk2 : s.offsets ≠ [] → 1 ≤ s.firstBatch ∧ s.offsetsPK2 = .B (s.firstBatch - 1) ∧
          s.offsetsPK2Sig = edSign .master (.batchID (.B (s.firstBatch - 1)) (s.firstBatch - 1))

theorem wf_generate (start n : Nat) : WF (generate start n) := by
  intro h; simp [generate] at h

theorem inv_generate (start n : Nat) (hsn : start + n < M64) : Inv (generate start n) where
  wf := wf_generate start n
  ver := rfl
  bat := by
    intro i h
    simp only [generate, List.length_map, List.length_range] at h
    simp only [generate, List.getElem_map, List.getElem_range]
    rw [Nat.mod_eq_of_lt (by omega)]
  off := by intro i h; simp [generate] at h
  pk2 := by intro h; simp [generate] at h

theorem drop_cons_elim {α} (l : List α) (j : Nat) (b0 : α) (rest : List α) (hd : l.drop j = b0 :: rest) :
    ∃ h : j < l.length, b0 = l[j] ∧ rest = l.drop (j + 1) := by
  have hl := congrArg List.length hd
  simp only [List.length_drop, List.length_cons] at hl
  have hj : j < l.length := by omega
  rw [List.drop_eq_getElem_cons hj] at hd
  injection hd with h1 h2
  exact ⟨hj, h1.symm, h2.symm⟩

theorem wf_delete (s : State) (cur : Id) (nk : Nat) (hwf : WF s) : WF (deleteBeforeFineGrained s cur nk) := by
  simp only [deleteBeforeFineGrained]
  unfold WF at *
  split
  · split
    · exact hwf
    · exact hwf
  · split
    · exact hwf
    · split
      · split
        · intro _; rfl
        · exact hwf
      · split
        · intro _; rfl
        · rename_i b0 rest hd
          intro hn
          have := hwf hn
          simp [this] at hd

theorem inv_delete (s : State) (cur : Id) (nk : Nat) (hi : Inv s) (hc : cur.batch + 1 < M64) :
    Inv (deleteBeforeFineGrained s cur nk) := by
  have hwf' := wf_delete s cur nk hi.wf
  revert hwf'
  simp only [deleteBeforeFineGrained, Nat.mod_eq_of_lt hc]
  split
  · split
    · intro hwf'
      refine ⟨hwf', hi.ver, hi.bat, ?_, ?_⟩
      · intro i h
        simp only [List.length_drop] at h
        simp only [List.getElem_drop]
        rw [hi.off _ (by omega)]
        congr 1; omega
      · intro hne
        simp only at hne
        apply hi.pk2
        intro h0; rw [h0] at hne; simp at hne
    · intro _; exact hi
  · split
    · intro _; exact hi
    · split
      · split
        · intro hwf'
          exact ⟨hwf', hi.ver, by intro i h; simp at h, by intro i h; simp at h, by intro h; simp at h⟩
        · intro hwf'
          exact ⟨hwf', hi.ver, hi.bat, by intro i h; simp at h, by intro h; simp at h⟩
      · split
        · intro hwf'
          exact ⟨hwf', hi.ver, by intro i h; simp at h, by intro i h; simp at h, by intro h; simp at h⟩
        · rename_i h1 h2 h3 b0 rest hd
          intro hwf'
          obtain ⟨hj, hb0, hrest⟩ := drop_cons_elim _ _ _ _ hd
          have hb0' : b0 = batchSub .master cur.batch := by
            rw [hb0, hi.bat _ hj]; congr 1; omega
          refine ⟨hwf', hi.ver, ?_, ?_, ?_⟩
          · intro i h
            simp only at h ⊢
            subst hrest
            simp only [List.length_drop] at h
            simp only [List.getElem_drop]
            rw [hi.bat _ (by omega)]
            congr 1; omega
          · intro i h
            simp only [expand_length] at h
            simp only [expand, List.getElem_map, List.getElem_range']
            have e : s.firstBatch + (cur.batch - s.firstBatch) + 1 - 1 = cur.batch := by omega
            rw [e, hb0']
            simp [batchSub]
          · intro _
            have e : s.firstBatch + (cur.batch - s.firstBatch) + 1 - 1 = cur.batch := by omega
            simp only [e, hb0']
            refine ⟨by omega, ?_, ?_⟩ <;> simp [batchSub]

theorem sign_verifies (s : State) (id : Id) (m : Nat) (sg : OTS) (hi : Inv s) (hid : id.batch + 1 < M64)
    (h : sign s id m = some sg) : verify .master id m sg = true := by
  simp only [sign, Nat.mod_eq_of_lt hid] at h
  split at h
  · rename_i hc
    have hne : s.offsets ≠ [] := by intro h0; rw [h0] at hc; simp at hc
    obtain ⟨h1, h2, h3⟩ := hi.pk2 hne
    injection h with h
    subst h
    have hb : s.firstBatch - 1 = id.batch := by omega
    have ho : s.firstOffset + (id.offset - s.firstOffset) = id.offset := by omega
    simp [verify, hi.off _ hc.2.2, h2, h3, offSub, edVerify, edSign, hb, ho]
  · split at h
    · rename_i hc
      injection h with h
      subst h
      have hb : s.firstBatch + (id.batch - s.firstBatch) = id.batch := by omega
      simp [verify, hi.bat _ hc.2, batchSub, edVerify, edSign, hb]
    · simp at h

/-- every retained secret's authority lies inside the covered set -/
theorem retained_covers (s : State) (hi : Inv s) (k : Key) (hk : k ∈ retained s) (id : Id)
    (ha : authority k id = true) : covers s id := by
  simp only [retained, List.mem_append, List.mem_map] at hk
  rcases hk with ⟨sub, hsub, rfl⟩ | ⟨sub, hsub, rfl⟩
  · obtain ⟨i, hlt, rfl⟩ := List.mem_iff_getElem.mp hsub
    rw [hi.bat i hlt] at ha
    simp only [batchSub, authority, beq_iff_eq] at ha
    right; omega
  · obtain ⟨i, hlt, rfl⟩ := List.mem_iff_getElem.mp hsub
    have hne : s.offsets ≠ [] := by intro h0; rw [h0] at hlt; simp at hlt
    have := (hi.pk2 hne).1
    rw [hi.off i hlt] at ha
    simp only [offSub, authority, Bool.and_eq_true, beq_iff_eq] at ha
    left; omega

/-- conversely every covered identifier is in the authority of a retained secret -/
theorem covers_retained (s : State) (hi : Inv s) (id : Id) (h : covers s id) :
    ∃ k ∈ retained s, authority k id = true := by
  rcases h with ⟨h1, h2, h3⟩ | ⟨h1, h2⟩
  · have hlt : id.offset - s.firstOffset < s.offsets.length := by omega
    refine ⟨(s.offsets[id.offset - s.firstOffset]).key, ?_, ?_⟩
    · simp only [retained, List.mem_append, List.mem_map]
      right; exact ⟨_, List.getElem_mem hlt, rfl⟩
    · rw [hi.off _ hlt]
      simp only [offSub, authority, Bool.and_eq_true, beq_iff_eq]; omega
  · have hlt : id.batch - s.firstBatch < s.batches.length := by omega
    refine ⟨(s.batches[id.batch - s.firstBatch]).key, ?_, ?_⟩
    · simp only [retained, List.mem_append, List.mem_map]
      left; exact ⟨_, List.getElem_mem hlt, rfl⟩
    · rw [hi.bat _ hlt]
      simp only [batchSub, authority, beq_iff_eq]; omega

/-- hypotheses on an op sequence: no `current.Batch + 1` wraps around 2^64 -/
def OpsOK (ops : List Op) : Prop := ∀ op ∈ ops, op.cur.batch + 1 < M64

theorem wf_run (s : State) (ops : List Op) (hwf : WF s) : WF (run s ops) := by
  induction ops generalizing s with
  | nil => exact hwf
  | cons op rest ih => exact ih _ (wf_delete s op.cur op.numKeys hwf)

theorem inv_run (s : State) (ops : List Op) (hi : Inv s) (hops : OpsOK ops) : Inv (run s ops) := by
  induction ops generalizing s with
  | nil => exact hi
  | cons op rest ih =>
    exact ih _ (inv_delete s op.cur op.numKeys hi (hops op (List.mem_cons_self ..)))
      (fun o ho => hops o (List.mem_cons_of_mem _ ho))

theorem covers_run_sub (s : State) (ops : List Op) (hwf : WF s) (hops : OpsOK ops) (id : Id)
    (h : covers (run s ops) id) : covers s id ∧ ∀ op ∈ ops, ¬ Id.lt id op.cur := by
  induction ops generalizing s with
  | nil => exact ⟨h, by intro op hop; cases hop⟩
  | cons op rest ih =>
    have hrest : OpsOK rest := fun o ho => hops o (List.mem_cons_of_mem _ ho)
    obtain ⟨h1, h2⟩ := ih (step s op) (wf_delete s op.cur op.numKeys hwf) hrest h
    obtain ⟨h3, h4⟩ := covers_delete_sub s op.cur id op.numKeys hwf (hops op (List.mem_cons_self ..)) h1
    refine ⟨h3, ?_⟩
    intro o ho
    rcases List.mem_cons.mp ho with rfl | ho
    · exact h4
    · exact h2 o ho

theorem covers_run_sup (s : State) (ops : List Op) (hops : OpsOK ops) (id : Id) (h : covers s id)
    (hfut : ∀ op ∈ ops, ¬ Id.lt id op.cur ∧ id.offset < op.numKeys) : covers (run s ops) id := by
  induction ops generalizing s with
  | nil => exact h
  | cons op rest ih =>
    have hrest : OpsOK rest := fun o ho => hops o (List.mem_cons_of_mem _ ho)
    have h0 := hfut op (List.mem_cons_self ..)
    exact ih (step s op) hrest
      (covers_delete_sup s op.cur id op.numKeys (hops op (List.mem_cons_self ..)) h h0.1 h0.2)
      (fun o ho => hfut o (List.mem_cons_of_mem _ ho))

theorem covers_generate (start n : Nat) (id : Id) :
    covers (generate start n) id ↔ start ≤ id.batch ∧ id.batch < start + n := by
  simp [covers, generate]

theorem lt_batch_succ (id cur : Id) (h : Id.lt id cur) (hc : cur.batch + 1 < M64) : id.batch + 1 < M64 := by
  unfold Id.lt at h; omega


/-! ## Why `authority` is the right relation: what a verifying signature needs -/

/-- `Verify` accepts exactly the three genuine links of the chain -/
theorem verify_chain (v : Key) (id : Id) (m : Nat) (sg : OTS) (hv : verify v id m sg = true) :
    sg.pk2Sig = ⟨v, .batchID sg.pk2 id.batch⟩ ∧ sg.pk1Sig = ⟨sg.pk2, .offsetID sg.pk id.batch id.offset⟩ ∧
    sg.sig = ⟨sg.pk, .payload m⟩ := by
  simp only [verify, edVerify, Bool.and_eq_true, decide_eq_true_eq] at hv
  exact ⟨hv.1.1.2, hv.1.2.2, hv.2.2⟩

/-- the shapes of the signatures an honest holder of a participation key ever makes
    (generate: master on (B b, b); DeleteBeforeFineGrained: B b on (O b o, b, o); Sign: B b on (T b o, b, o) and
    O/T keys on payloads) -/
def HonestShape (sg : SSig) : Prop :=
  match sg.signer, sg.msg with
  | .master, .batchID (.B b) b' => b = b'
  | .B b, .offsetID (.O b1 o1) b2 o2 => b = b1 ∧ b = b2 ∧ o1 = o2
  | .B b, .offsetID (.T b1 o1) b2 o2 => b = b1 ∧ b = b2 ∧ o1 = o2
  | .O _ _, .payload _ => True
  | .T _ _, .payload _ => True
  | _, _ => False

/-- what `Sign` outputs has these shapes (so the hypothesis `hseen` below is met by the model itself) -/
theorem sign_honest_shape (s : State) (id : Id) (m : Nat) (sg : OTS) (hi : Inv s) (hid : id.batch + 1 < M64)
    (h : sign s id m = some sg) : HonestShape sg.sig ∧ HonestShape sg.pk1Sig ∧ HonestShape sg.pk2Sig := by
  simp only [sign, Nat.mod_eq_of_lt hid] at h
  split at h
  · rename_i hc
    have hne : s.offsets ≠ [] := by intro h0; rw [h0] at hc; simp at hc
    obtain ⟨h1, h2, h3⟩ := hi.pk2 hne
    injection h with h
    subst h
    simp [hi.off _ hc.2.2, h3, offSub, edSign, HonestShape]
  · split at h
    · rename_i hc
      injection h with h
      subst h
      have hb : s.firstBatch + (id.batch - s.firstBatch) = id.batch := by omega
      simp [hi.bat _ hc.2, batchSub, edSign, HonestShape, hb]
    · simp at h

/-! ## Persistence layer -/

/-- equal up to the nil-ness flag of `Batches` -/
def Eqv (a b : State) : Prop :=
  a.verifier = b.verifier ∧ a.firstBatch = b.firstBatch ∧ a.batches = b.batches ∧
  a.firstOffset = b.firstOffset ∧ a.offsets = b.offsets ∧ a.offsetsPK2 = b.offsetsPK2 ∧
  a.offsetsPK2Sig = b.offsetsPK2Sig

theorem eqv_refl (s : State) : Eqv s s := ⟨rfl, rfl, rfl, rfl, rfl, rfl, rfl⟩
theorem eqv_reload (s : State) : Eqv (reload s) s := ⟨rfl, rfl, rfl, rfl, rfl, rfl, rfl⟩

/-- `Sign` does not read the nil-ness flag -/
theorem sign_eqv (a b : State) (h : Eqv a b) (id : Id) (m : Nat) : sign a id m = sign b id m := by
  obtain ⟨v1, fb1, bs1, f1, fo1, os1, pk1, ps1⟩ := a
  obtain ⟨v2, fb2, bs2, f2, fo2, os2, pk2, ps2⟩ := b
  simp only [Eqv] at h
  obtain ⟨rfl, rfl, rfl, rfl, rfl, rfl, rfl⟩ := h
  rfl

theorem covers_eqv (a b : State) (h : Eqv a b) (id : Id) : covers a id ↔ covers b id := by
  obtain ⟨_, h1, h2, h3, h4, _, _⟩ := h
  simp only [covers, h1, h2, h3, h4]

theorem retained_eqv (a b : State) (h : Eqv a b) : retained a = retained b := by
  obtain ⟨_, _, h2, _, h4, _, _⟩ := h
  simp only [retained, h2, h4]

theorem wf_reload (s : State) : WF (reload s) := by
  intro h
  simp only [reload, Bool.not_eq_eq_eq_not, Bool.not_false, List.isEmpty_iff] at h
  exact h

theorem inv_reload (s : State) (hi : Inv s) : Inv (reload s) :=
  ⟨wf_reload s, hi.ver, hi.bat, hi.off, hi.pk2⟩

/-- node invariant: both copies are well-formed and agree up to the nil-ness flag -/
structure NInv (nd : Node) : Prop where
  mem : Inv nd.mem
  disk : Inv nd.disk
  eqv : Eqv nd.mem nd.disk

theorem ninv_init (start n : Nat) (hsn : start + n < M64) : NInv (nodeInit start n) :=
  ⟨inv_generate start n hsn, inv_generate start n hsn, eqv_refl _⟩

theorem ninv_run (nd : Node) (h : List NOp) (hi : NInv nd) (hok : OpsOK (advancesOf h)) : NInv (nrun nd h) := by
  induction h generalizing nd with
  | nil => exact hi
  | cons op rest ih =>
    cases op with
    | advance cur nk =>
      have hc : cur.batch + 1 < M64 := hok ⟨cur, nk⟩ (by simp [advancesOf])
      have hm := inv_delete nd.mem cur nk hi.mem hc
      exact ih _ ⟨hm, hm, eqv_refl _⟩ (fun o ho => hok o (by simp [advancesOf, ho]))
    | restart =>
      exact ih _ ⟨inv_reload _ hi.disk, hi.disk, eqv_reload _⟩ (fun o ho => hok o (by simpa [advancesOf] using ho))

theorem node_covers_sub (nd : Node) (h : List NOp) (hi : NInv nd) (hok : OpsOK (advancesOf h)) (id : Id)
    (hc : covers (nrun nd h).mem id) : covers nd.mem id ∧ ∀ op ∈ advancesOf h, ¬ Id.lt id op.cur := by
  induction h generalizing nd with
  | nil => exact ⟨hc, by intro op hop; cases hop⟩
  | cons op rest ih =>
    cases op with
    | advance cur nk =>
      have hcb : cur.batch + 1 < M64 := hok ⟨cur, nk⟩ (by simp [advancesOf])
      have hm := inv_delete nd.mem cur nk hi.mem hcb
      obtain ⟨h1, h2⟩ := ih ⟨deleteBeforeFineGrained nd.mem cur nk, deleteBeforeFineGrained nd.mem cur nk⟩
        ⟨hm, hm, eqv_refl _⟩ (fun o ho => hok o (by simp [advancesOf, ho])) hc
      obtain ⟨h3, h4⟩ := covers_delete_sub nd.mem cur id nk hi.mem.wf hcb h1
      refine ⟨h3, ?_⟩
      intro o ho
      simp only [advancesOf, List.mem_cons] at ho
      rcases ho with rfl | ho
      · exact h4
      · exact h2 o ho
    | restart =>
      obtain ⟨h1, h2⟩ := ih ⟨reload nd.disk, nd.disk⟩ ⟨inv_reload _ hi.disk, hi.disk, eqv_reload _⟩
        (fun o ho => hok o (by simpa [advancesOf] using ho)) hc
      refine ⟨?_, fun o ho => h2 o (by simpa [advancesOf] using ho)⟩
      exact (covers_eqv _ _ hi.eqv id).mpr ((covers_eqv _ _ (eqv_reload nd.disk) id).mp h1)

theorem node_covers_sup (nd : Node) (h : List NOp) (hi : NInv nd) (hok : OpsOK (advancesOf h)) (id : Id)
    (hc : covers nd.mem id) (hfut : ∀ op ∈ advancesOf h, ¬ Id.lt id op.cur ∧ id.offset < op.numKeys) :
    covers (nrun nd h).mem id := by
  induction h generalizing nd with
  | nil => exact hc
  | cons op rest ih =>
    cases op with
    | advance cur nk =>
      have hcb : cur.batch + 1 < M64 := hok ⟨cur, nk⟩ (by simp [advancesOf])
      have hm := inv_delete nd.mem cur nk hi.mem hcb
      have h0 := hfut ⟨cur, nk⟩ (by simp [advancesOf])
      exact ih ⟨deleteBeforeFineGrained nd.mem cur nk, deleteBeforeFineGrained nd.mem cur nk⟩
        ⟨hm, hm, eqv_refl _⟩ (fun o ho => hok o (by simp [advancesOf, ho]))
        (covers_delete_sup nd.mem cur id nk hcb hc h0.1 h0.2)
        (fun o ho => hfut o (by simp [advancesOf, ho]))
    | restart =>
      exact ih ⟨reload nd.disk, nd.disk⟩ ⟨inv_reload _ hi.disk, hi.disk, eqv_reload _⟩
        (fun o ho => hok o (by simpa [advancesOf] using ho))
        ((covers_eqv _ _ (eqv_reload nd.disk) id).mpr ((covers_eqv _ _ hi.eqv id).mp hc))
        (fun o ho => hfut o (by simpa [advancesOf] using ho))

end Lemmas.OneTimeSig
