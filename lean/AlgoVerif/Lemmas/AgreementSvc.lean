import AlgoVerif.Model.AgreementSvc
/-!
Invariant of `Model.AgreementSvc.step P true` (the restore path as fixed) and its preservation by every label.
-/
namespace AlgoVerif.Lemmas.AgreementSvc
open AlgoVerif.Model.AgreementSvc

variable {Sg E : Type}

theorem allAtt_mono (P : Player Sg E) {l1 l2 : List E} (h : l1 <:+ l2) {a : Attest} (ha : a ∈ allAtt P l1) :
    a ∈ allAtt P l2 := by
  obtain ⟨t, rfl⟩ := h
  induction t with
  | nil => exact ha
  | cons e t ih =>
    show a ∈ (P.handle (runSt P (t ++ l1)) e).2 ++ allAtt P (t ++ l1)
    exact List.mem_append_right _ ih

theorem updFirst_spec {q : U Sg E → Bool} {f : U Sg E → U Sg E} :
    ∀ {l : List (U Sg E)} {x : U Sg E} {l' : List (U Sg E)}, updFirst q f l = some (x, l') →
      ∃ pre post, l = pre ++ x :: post ∧ l' = pre ++ f x :: post ∧ q x = true ∧ ∀ y ∈ pre, q y = false := by
  intro l
  induction l with
  | nil => intro x l' h; simp [updFirst] at h
  | cons u l ih =>
    intro x l' h
    unfold updFirst at h
    by_cases hq : q u = true
    · rw [if_pos hq] at h
      simp only [Option.some.injEq, Prod.mk.injEq] at h
      obtain ⟨rfl, rfl⟩ := h
      exact ⟨[], l, rfl, rfl, hq, by simp⟩
    · rw [if_neg hq] at h
      cases hr : updFirst q f l with
      | none => rw [hr] at h; simp at h
      | some r =>
        obtain ⟨x0, l0⟩ := r
        rw [hr] at h
        simp only [Option.some.injEq, Prod.mk.injEq] at h
        obtain ⟨rfl, rfl⟩ := h
        obtain ⟨pre, post, h1, h2, h3, h4⟩ := ih hr
        refine ⟨u :: pre, post, by rw [h1]; rfl, by rw [h2]; rfl, h3, ?_⟩
        intro y hy
        cases hy with
        | head => simpa using hq
        | tail _ hy => exact h4 y hy

/-- an image is a point of a run: its state is the run's state, its actions are attests of the run -/
structure ImgOK (P : Player Sg E) (im : Image Sg E) : Prop where
  st_eq : im.st = runSt P im.log
  acts_sub : ∀ a ∈ im.acts, a ∈ allAtt P im.log

structure Inv (P : Player Sg E) (s : State Sg E) : Prop where
  live : s.sg = runSt P s.log
  stash_ok : ImgOK P s.stash
  stash_le : s.stash.log <:+ s.log
  pend_sub : ∀ a ∈ s.pend, a ∈ s.stash.acts
  units_ok : ∀ u ∈ s.units, ImgOK P u.img ∧ u.img.log <:+ s.stash.log ∧ u.a ∈ u.img.acts
  units_ord : (s.units.map (fun u => u.img.log)).Pairwise (fun a b => a <:+ b)
  pi_ok : ∀ im, s.pi = some im → ImgOK P im ∧ im.log <:+ s.stash.log ∧
            ∀ u ∈ s.units, u.ph = .queued → im.log <:+ u.img.log
  pers : ∀ u ∈ s.units, (u.ph = .persisted true ∨ u.ph = .closed true) →
            ∃ im, s.pi = some im ∧ u.a ∈ allAtt P im.log
  rel : ∀ a ∈ s.rho, ∃ im, s.pi = some im ∧ a ∈ allAtt P im.log

theorem zeroImage_ok (P : Player Sg E) : ImgOK P (zeroImage P) :=
  ⟨rfl, by intro a h; simp [zeroImage] at h⟩

theorem inv_init (P : Player Sg E) : Inv P (init P) where
  live := rfl
  stash_ok := zeroImage_ok P
  stash_le := List.suffix_refl _
  pend_sub := by intro a h; simp [init] at h
  units_ok := by intro u h; simp [init] at h
  units_ord := by simp [init]
  pi_ok := by intro im h; simp [init] at h
  pers := by intro u h; simp [init] at h
  rel := by intro a h; simp [init] at h

/-- units whose phase alone was changed -/
theorem mem_upd {pre post : List (U Sg E)} {x : U Sg E} {ph : Phase} {u : U Sg E}
    (h : u ∈ pre ++ setPh ph x :: post) :
    (u ∈ pre ++ x :: post ∧ (u ∈ pre ∨ u ∈ post)) ∨ u = setPh ph x := by
  rcases List.mem_append.1 h with h1 | h1
  · exact Or.inl ⟨List.mem_append_left _ h1, Or.inl h1⟩
  · cases h1 with
    | head => exact Or.inr rfl
    | tail _ h2 => exact Or.inl ⟨List.mem_append_right _ (List.mem_cons_of_mem _ h2), Or.inr h2⟩

theorem map_log_upd (pre post : List (U Sg E)) (x : U Sg E) (ph : Phase) :
    (pre ++ setPh ph x :: post).map (fun u => u.img.log) = (pre ++ x :: post).map (fun u => u.img.log) := by
  simp [setPh]

theorem inv_handle {P : Player Sg E} {s s' : State Sg E} (I : Inv P s) {e : E}
    (h : step P true s (.handle e) = some s') : Inv P s' := by
  simp only [step] at h
  cases hp : s.pend with
  | cons a r => rw [hp] at h; simp at h
  | nil =>
    rw [hp] at h
    simp only [Option.some.injEq] at h
    subst h
    have hlive : (P.handle s.sg e).1 = runSt P (e :: s.log) := by
      show _ = (P.handle (runSt P s.log) e).1
      rw [I.live]
    have hcons : s.log <:+ e :: s.log := List.suffix_cons _ _
    by_cases hemp : (P.handle s.sg e).2.isEmpty = true
    · -- no attest: the stash is unchanged
      refine ⟨hlive, ?_, ?_, ?_, ?_, I.units_ord, ?_, I.pers, I.rel⟩
      · simpa [hemp] using I.stash_ok
      · simpa [hemp] using I.stash_le.trans hcons
      · intro a ha
        have : (P.handle s.sg e).2 = [] := List.isEmpty_iff.1 hemp
        simp [this] at ha
      · intro u hu; simpa [hemp] using I.units_ok u hu
      · intro im him; simpa [hemp] using I.pi_ok im him
    · have hne : (P.handle s.sg e).2.isEmpty = false := by simpa using hemp
      have hle : s.stash.log <:+ e :: s.log := I.stash_le.trans hcons
      refine ⟨hlive, ?_, ?_, ?_, ?_, I.units_ord, ?_, I.pers, I.rel⟩
      · simp only [hne]
        refine ⟨hlive, ?_⟩
        intro a ha
        show a ∈ (P.handle (runSt P s.log) e).2 ++ allAtt P s.log
        rw [← I.live]
        exact List.mem_append_left _ ha
      · simp only [hne]; exact List.suffix_refl _
      · intro a ha; simpa [hne] using ha
      · intro u hu
        obtain ⟨h1, h2, h3⟩ := I.units_ok u hu
        simp only [hne]
        exact ⟨h1, h2.trans hle, h3⟩
      · intro im him
        obtain ⟨h1, h2, h3⟩ := I.pi_ok im him
        simp only [hne]
        exact ⟨h1, h2.trans hle, h3⟩

theorem inv_doAttest {P : Player Sg E} {s s' : State Sg E} (I : Inv P s) {id : Nat}
    (h : step P true s (.doAttest id) = some s') : Inv P s' := by
  simp only [step] at h
  cases hp : s.pend with
  | nil => rw [hp] at h; simp at h
  | cons a rest =>
    rw [hp] at h
    simp only [Option.some.injEq] at h
    subst h
    have ha : a ∈ s.stash.acts := I.pend_sub a (by rw [hp]; exact List.mem_cons_self)
    refine ⟨I.live, I.stash_ok, I.stash_le, ?_, ?_, ?_, ?_, ?_, I.rel⟩
    · intro b hb; exact I.pend_sub b (by rw [hp]; exact List.mem_cons_of_mem _ hb)
    · intro u hu
      rcases List.mem_append.1 hu with h1 | h1
      · exact I.units_ok u h1
      · simp only [List.mem_singleton] at h1
        subst h1
        exact ⟨I.stash_ok, List.suffix_refl _, ha⟩
    · simp only [List.map_append, List.map_cons, List.map_nil]
      rw [List.pairwise_append]
      refine ⟨I.units_ord, by simp, ?_⟩
      intro x hx y hy
      simp only [List.mem_singleton] at hy
      subst hy
      obtain ⟨u, hu, rfl⟩ := List.mem_map.1 hx
      exact (I.units_ok u hu).2.1
    · intro im him
      obtain ⟨h1, h2, h3⟩ := I.pi_ok im him
      refine ⟨h1, h2, ?_⟩
      intro u hu hq
      rcases List.mem_append.1 hu with h4 | h4
      · exact h3 u h4 hq
      · simp only [List.mem_singleton] at h4
        subst h4
        exact h2
    · intro u hu hph
      rcases List.mem_append.1 hu with h4 | h4
      · exact I.pers u h4 hph
      · simp only [List.mem_singleton] at h4
        subst h4
        rcases hph with h5 | h5 <;> simp at h5

theorem inv_persisted {P : Player Sg E} {s s' : State Sg E} (I : Inv P s) {ok : Bool}
    (h : step P true s (.persisted ok) = some s') : Inv P s' := by
  simp only [step] at h
  cases hr : updFirst isQueued (setPh (.persisted ok)) s.units with
  | none => rw [hr] at h; simp at h
  | some r =>
    obtain ⟨x, us⟩ := r
    rw [hr] at h
    simp only [Option.some.injEq] at h
    subst h
    obtain ⟨pre, post, hl, hl', hq, hpre⟩ := updFirst_spec hr
    have hxq : x.ph = .queued := by simpa [isQueued] using hq
    have hxmem : x ∈ s.units := by rw [hl]; exact List.mem_append_right _ List.mem_cons_self
    obtain ⟨hxok, hxle, hxa⟩ := I.units_ok x hxmem
    have hord := I.units_ord
    rw [hl, List.map_append, List.map_cons, List.pairwise_append] at hord
    have hpost : ∀ y ∈ post, x.img.log <:+ y.img.log := by
      intro y hy
      have := (List.pairwise_cons.1 hord.2.1).1
      exact this _ (List.mem_map.2 ⟨y, hy, rfl⟩)
    have hmem : ∀ u ∈ us, (u ∈ s.units ∧ (u ∈ pre ∨ u ∈ post)) ∨ u = setPh (.persisted ok) x := by
      intro u hu
      rw [hl'] at hu
      rcases mem_upd hu with h1 | h1
      · exact Or.inl ⟨by rw [hl]; exact h1.1, h1.2⟩
      · exact Or.inr h1
    -- everything that does not mention `pi`
    have hunits : ∀ u ∈ us, ImgOK P u.img ∧ u.img.log <:+ s.stash.log ∧ u.a ∈ u.img.acts := by
      intro u hu
      rcases hmem u hu with h1 | h1
      · exact I.units_ok u h1.1
      · subst h1; exact ⟨hxok, hxle, hxa⟩
    have hordn : (us.map (fun u => u.img.log)).Pairwise (fun a b => a <:+ b) := by
      rw [hl', map_log_upd, ← hl]; exact I.units_ord
    cases ok with
    | false =>
      refine ⟨I.live, I.stash_ok, I.stash_le, I.pend_sub, hunits, hordn, ?_, ?_, ?_⟩
      · intro im him
        have him' : s.pi = some im := by simpa using him
        obtain ⟨h1, h2, h3⟩ := I.pi_ok im him'
        refine ⟨h1, h2, ?_⟩
        intro u hu hph
        rcases hmem u hu with h4 | h4
        · exact h3 u h4.1 hph
        · subst h4; simp [setPh] at hph
      · intro u hu hph
        rcases hmem u hu with h4 | h4
        · simpa using I.pers u h4.1 hph
        · subst h4; rcases hph with h5 | h5 <;> simp [setPh] at h5
      · intro a ha; simpa using I.rel a ha
    | true =>
      -- the new image is at least the old one
      have hold : ∀ im, s.pi = some im → im.log <:+ x.img.log := by
        intro im him; exact (I.pi_ok im him).2.2 x hxmem hxq
      refine ⟨I.live, I.stash_ok, I.stash_le, I.pend_sub, hunits, hordn, ?_, ?_, ?_⟩
      · intro im him
        have : im = x.img := by simpa using him.symm
        subst this
        refine ⟨hxok, hxle, ?_⟩
        intro u hu hph
        rcases hmem u hu with h4 | h4
        · rcases h4.2 with h5 | h5
          · have := hpre u h5
            simp [isQueued, hph] at this
          · exact hpost u h5
        · subst h4; simp [setPh] at hph
      · intro u hu hph
        refine ⟨x.img, by simp, ?_⟩
        rcases hmem u hu with h4 | h4
        · obtain ⟨im, him, ha⟩ := I.pers u h4.1 hph
          exact allAtt_mono P (hold im him) ha
        · subst h4; exact hxok.acts_sub _ hxa
      · intro a ha
        obtain ⟨im, him, ha'⟩ := I.rel a ha
        exact ⟨x.img, by simp, allAtt_mono P (hold im him) ha'⟩

theorem inv_checkpoint {P : Player Sg E} {s s' : State Sg E} (I : Inv P s) {id : Nat}
    (h : step P true s (.checkpoint id) = some s') : Inv P s' := by
  simp only [step] at h
  cases hr : updFirst (isPersisted id) (fun u => setPh (closePh u.ph) u) s.units with
  | none => rw [hr] at h; simp at h
  | some r =>
    obtain ⟨x, us⟩ := r
    rw [hr] at h
    simp only [Option.some.injEq] at h
    subst h
    obtain ⟨pre, post, hl, hl', hq, _⟩ := updFirst_spec hr
    have hxmem : x ∈ s.units := by rw [hl]; exact List.mem_append_right _ List.mem_cons_self
    have hxp : x.ph = .persisted true ∨ x.ph = .persisted false := by
      simp only [isPersisted, Bool.and_eq_true, Bool.or_eq_true, beq_iff_eq] at hq
      exact hq.2
    have hmem : ∀ u ∈ us, u ∈ s.units ∨ u = setPh (closePh x.ph) x := by
      intro u hu
      rw [hl'] at hu
      rcases mem_upd hu with h1 | h1
      · exact Or.inl (by rw [hl]; exact h1.1)
      · exact Or.inr h1
    refine ⟨I.live, I.stash_ok, I.stash_le, I.pend_sub, ?_, ?_, ?_, ?_, I.rel⟩
    · intro u hu
      rcases hmem u hu with h1 | h1
      · exact I.units_ok u h1
      · subst h1; exact I.units_ok x hxmem
    · show (us.map (fun u => u.img.log)).Pairwise _
      rw [hl', map_log_upd, ← hl]; exact I.units_ord
    · intro im him
      obtain ⟨h1, h2, h3⟩ := I.pi_ok im him
      refine ⟨h1, h2, ?_⟩
      intro u hu hph
      rcases hmem u hu with h4 | h4
      · exact h3 u h4 hph
      · subst h4
        rcases hxp with h5 | h5 <;> simp [setPh, closePh, h5] at hph
    · intro u hu hph
      rcases hmem u hu with h4 | h4
      · exact I.pers u h4 hph
      · subst h4
        rcases hxp with h5 | h5
        · exact I.pers x hxmem (Or.inl h5)
        · rcases hph with h6 | h6 <;> simp [setPh, closePh, h5] at h6

theorem inv_release {P : Player Sg E} {s s' : State Sg E} (I : Inv P s) {id : Nat}
    (h : step P true s (.release id) = some s') : Inv P s' := by
  simp only [step] at h
  cases hr : updFirst (isClosedOk id) (fun u => u) s.units with
  | none => rw [hr] at h; simp at h
  | some r =>
    obtain ⟨x, us⟩ := r
    rw [hr] at h
    simp only [Option.some.injEq] at h
    subst h
    obtain ⟨pre, post, hl, _, hq, _⟩ := updFirst_spec hr
    have hxmem : x ∈ s.units := by rw [hl]; exact List.mem_append_right _ List.mem_cons_self
    have hxp : x.ph = .closed true := by
      simp only [isClosedOk, Bool.and_eq_true, beq_iff_eq] at hq
      exact hq.2
    refine ⟨I.live, I.stash_ok, I.stash_le, I.pend_sub, I.units_ok, I.units_ord, I.pi_ok, I.pers, ?_⟩
    intro a ha
    cases ha with
    | head => exact I.pers x hxmem (Or.inr hxp)
    | tail _ ha => exact I.rel a ha

theorem inv_crash {P : Player Sg E} {s s' : State Sg E} (I : Inv P s)
    (h : step P true s .crash = some s') : Inv P s' := by
  simp only [step] at h
  cases hp : s.pi with
  | none =>
    rw [hp] at h
    simp only [Option.some.injEq] at h
    subst h
    have hrho : s.rho = [] := by
      cases hr : s.rho with
      | nil => rfl
      | cons a l =>
        obtain ⟨im, him, _⟩ := I.rel a (by rw [hr]; exact List.mem_cons_self)
        rw [hp] at him; simp at him
    have I0 := inv_init P
    exact ⟨I0.live, I0.stash_ok, I0.stash_le, I0.pend_sub, I0.units_ok, I0.units_ord, I0.pi_ok, I0.pers,
      by intro a ha; rw [hrho] at ha; simp at ha⟩
  | some im =>
    rw [hp] at h
    simp only [Option.some.injEq] at h
    subst h
    obtain ⟨hok, _, _⟩ := I.pi_ok im hp
    refine ⟨hok.st_eq, by simpa using hok, by simp, ?_, ?_, by simp, ?_, ?_, ?_⟩
    · intro a ha; simpa using ha
    · intro u hu; simp at hu
    · intro im' him'
      have : im' = im := by simpa using him'.symm
      subst this
      exact ⟨hok, by simp, by intro u hu; simp at hu⟩
    · intro u hu; simp at hu
    · intro a ha
      obtain ⟨im', him', ha'⟩ := I.rel a ha
      rw [hp] at him'
      exact ⟨im', him', ha'⟩

theorem inv_step {P : Player Sg E} {s s' : State Sg E} (I : Inv P s) {l : Label E}
    (h : step P true s l = some s') : Inv P s' := by
  cases l with
  | handle e => exact inv_handle I h
  | doAttest id => exact inv_doAttest I h
  | persisted ok => exact inv_persisted I h
  | checkpoint id => exact inv_checkpoint I h
  | release id => exact inv_release I h
  | crash => exact inv_crash I h

theorem inv_run {P : Player Sg E} : ∀ {ls : List (Label E)} {s s' : State Sg E}, Inv P s →
    run P true s ls = some s' → Inv P s' := by
  intro ls
  induction ls with
  | nil => intro s s' I h; simp only [run, Option.some.injEq] at h; subst h; exact I
  | cons l ls ih =>
    intro s s' I h
    unfold run at h
    cases hs : step P true s l with
    | none => rw [hs] at h; simp at h
    | some s1 => rw [hs] at h; exact ih (inv_step I hs) h

end AlgoVerif.Lemmas.AgreementSvc
