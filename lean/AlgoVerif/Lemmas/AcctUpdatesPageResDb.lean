import AlgoVerif.Lemmas.AcctUpdatesPageResSem
/-! C10 (model pages): the DB half of the resource pages (`LookupLimitedResources`: the account's rows of one creatable type above
the cursor, ascending, LIMIT, joined with the creator's row) against the history at the DB round; the sorted insertion used for the
delta-only ids; the result loop with its early exit. -/
namespace AlgoVerif.Lemmas.PageRes
open AlgoVerif.Spec.LedgerHistory AlgoVerif.Model.AcctUpdates AlgoVerif.Lemmas.Pages AlgoVerif.Lemmas.AcctUpdates
open AlgoVerif.Lemmas.PageKv

/-- `omega` after exposing that creatable indexes are naturals -/
macro "comega" : tactic => `(tactic| ((try simp only [Cidx] at *); omega))

/-- (addrid, aidx) is the primary key of the resources table -/
def DbResNodup (σ : State) : Prop := (AMap.keys σ.db.res).Nodup

/-- the rows of the account before LIMIT and the join -/
def dbResSorted (db : DB) (a : Addr) (gt : Nat) (t : CType) : List ((Addr × Cidx) × ResRow) :=
  (db.res.filter (fun r => r.1.1 = a && r.2.ctype = t && gt < r.1.2)).mergeSort (fun x y => x.1.2 ≤ y.1.2)

/-- LEFT JOIN assetcreators / the creator's resources row -/
def dbJoin (db : DB) (r : (Addr × Cidx) × ResRow) : DbResRow :=
  match AMap.get db.creat r.1.2 with
  | some (_, ca) =>
    match AMap.get db.res (ca, r.1.2) with
    | some crow => ⟨r.1.2, r.2.val.hold, some ca, crow.val.params⟩
    | none => ⟨r.1.2, r.2.val.hold, none, none⟩
  | none => ⟨r.1.2, r.2.val.hold, none, none⟩

theorem dbLimitedResources_eq (db : DB) (a : Addr) (gt limit : Nat) (t : CType) :
    dbLimitedResources db a gt limit t = ((dbResSorted db a gt t).take limit).map (dbJoin db) := rfl

theorem dbJoin_cidx (db : DB) (r : (Addr × Cidx) × ResRow) : (dbJoin db r).cidx = r.1.2 := by
  unfold dbJoin
  split
  · split <;> rfl
  · rfl

theorem dbJoin_hold (db : DB) (r : (Addr × Cidx) × ResRow) : (dbJoin db r).hold = r.2.val.hold := by
  unfold dbJoin
  split
  · split <;> rfl
  · rfl

theorem rowOf_some (ct : Cidx → CType) (c : Cidx) (v : ResVal) (row : ResRow) (h : rowOf ct c v = some row) :
    row = ⟨ct c, v⟩ ∧ v.isEmpty = false := by
  unfold rowOf at h
  split at h
  · simp at h
  · next he => simp only [Option.some.injEq] at h; exact ⟨h.symm, by simpa using he⟩

theorem rowOf_none (ct : Cidx → CType) (c : Cidx) (v : ResVal) (h : rowOf ct c v = none) : v = {} := by
  unfold rowOf at h
  split at h
  · next he => exact (resVal_isEmpty v).mp he
  · simp at h

/-- the account's sorted rows against the history at the DB round -/
theorem dbResSorted_facts (ct : Cidx → CType) (σ : State) (h : Inv ct σ) (hn : DbResNodup σ) (a : Addr) (gt : Nat) (t : CType) :
    ((dbResSorted σ.db a gt t).map (·.1.2)).Pairwise (fun x y => x < y) ∧
    (∀ r ∈ dbResSorted σ.db a gt t, r.1.1 = a ∧ gt < r.1.2 ∧ ct r.1.2 = t ∧
      r.2 = ⟨t, resAt σ.hist σ.dbRound a r.1.2 t⟩ ∧ (resAt σ.hist σ.dbRound a r.1.2 t).isEmpty = false) ∧
    (∀ c, gt < c → ct c = t → (resAt σ.hist σ.dbRound a c t).isEmpty = false → c ∈ (dbResSorted σ.db a gt t).map (·.1.2)) := by
  have hmem : ∀ r, r ∈ dbResSorted σ.db a gt t ↔ AMap.get σ.db.res r.1 = some r.2 ∧ r.1.1 = a ∧ r.2.ctype = t ∧ gt < r.1.2 := by
    intro r
    unfold dbResSorted
    rw [(List.mergeSort_perm _ _).mem_iff, List.mem_filter]
    obtain ⟨k, row⟩ := r
    rw [mem_iff_get_of_nodup hn]
    simp only [Bool.and_eq_true, decide_eq_true_eq]
    constructor
    · rintro ⟨h1, ⟨h2, h3⟩, h4⟩; exact ⟨h1, h2, h3, h4⟩
    · rintro ⟨h1, h2, h3, h4⟩; exact ⟨h1, ⟨h2, h3⟩, h4⟩
  have hrow : ∀ r ∈ dbResSorted σ.db a gt t, r.1.1 = a ∧ gt < r.1.2 ∧ ct r.1.2 = t ∧
      r.2 = ⟨t, resAt σ.hist σ.dbRound a r.1.2 t⟩ ∧ (resAt σ.hist σ.dbRound a r.1.2 t).isEmpty = false := by
    intro r hr
    obtain ⟨h1, h2, h3, h4⟩ := (hmem r).mp hr
    obtain ⟨⟨a', c⟩, row⟩ := r
    simp only [] at h1 h2 h3 h4 ⊢
    subst h2
    rw [h.dbR a' c] at h1
    obtain ⟨e1, e2⟩ := rowOf_some ct c _ row h1
    have hct : ct c = t := by rw [← h3, e1]
    rw [hct] at e1 e2
    exact ⟨rfl, h4, hct, e1, e2⟩
  refine ⟨?_, hrow, ?_⟩
  · -- strictly increasing ids
    apply strict_nat_of_sorted_nodup (fun (c : Nat) => c)
    · rw [List.pairwise_map]
      have := List.pairwise_mergeSort (le := fun (x y : (Addr × Cidx) × ResRow) => decide (x.1.2 ≤ y.1.2))
        (fun a b c h1 h2 => by simp only [decide_eq_true_eq] at *; exact Nat.le_trans h1 h2)
        (fun a b => by simp only [Bool.or_eq_true, decide_eq_true_eq]; exact Nat.le_total _ _)
        (σ.db.res.filter (fun r => r.1.1 = a && r.2.ctype = t && gt < r.1.2))
      exact this.imp (fun {x y} hxy => by simpa using hxy)
    · rw [List.map_id']
      have hk : ((dbResSorted σ.db a gt t).map (·.1)).Nodup := by
        unfold dbResSorted
        refine ((List.mergeSort_perm _ _).map _).nodup_iff.mpr ?_
        exact hn.sublist (List.filter_sublist.map _)
      have hp : (dbResSorted σ.db a gt t).Pairwise (fun x y => x.1 ≠ y.1) := List.pairwise_map.mp hk
      have hp' : (dbResSorted σ.db a gt t).Pairwise (fun x y => x.1.2 ≠ y.1.2) := by
        refine hp.imp_of_mem ?_
        intro x y hx hy hne e
        apply hne
        have hx1 := (hrow x hx).1
        have hy1 := (hrow y hy).1
        exact Prod.ext (by rw [hx1, hy1]) e
      exact List.pairwise_map.mpr hp'
  · intro c hgt hct hne
    rw [List.mem_map]
    have hg : AMap.get σ.db.res (a, c) = some ⟨t, resAt σ.hist σ.dbRound a c t⟩ := by
      rw [h.dbR a c, hct]
      unfold rowOf
      simp [hne, hct]
    exact ⟨((a, c), ⟨t, resAt σ.hist σ.dbRound a c t⟩), (hmem _).mpr ⟨hg, rfl, rfl, hgt⟩, rfl⟩

/-- the joined creator columns of a row = the creator of the index at the DB round with its params -/
theorem dbJoin_creator (ct : Cidx → CType) (σ : State) (h : Inv ct σ) (hw : ResWF ct σ.hist) (r : (Addr × Cidx) × ResRow) :
    ((dbJoin σ.db r).creator, (dbJoin σ.db r).params) = crParams σ.hist σ.dbRound r.1.2 (ct r.1.2) := by
  unfold dbJoin crParams
  rw [h.dbC r.1.2]
  cases hc : creatorRaw σ.hist σ.dbRound r.1.2 with
  | none => rfl
  | some ca =>
    simp only [Option.map_some, Option.bind_some]
    have hp := (hw.paramsCreator σ.dbRound ca r.1.2).mpr hc
    rw [h.dbR ca r.1.2]
    cases hrow : rowOf ct r.1.2 (resAt σ.hist σ.dbRound ca r.1.2 (ct r.1.2)) with
    | none =>
      have := rowOf_none ct _ _ hrow
      rw [this] at hp; simp at hp
    | some crow =>
      obtain ⟨e1, _⟩ := rowOf_some ct _ _ crow hrow
      simp only [e1]

/-- the params column of the creator's row, read directly (the delta-only branch) -/
theorem dbCreatorParams_spec (ct : Cidx → CType) (σ : State) (h : Inv ct σ) (c : Cidx) (wp : Bool) :
    dbCreatorParams σ.db c (ct c) wp =
      ((crParams σ.hist σ.dbRound c (ct c)).1, if wp then (crParams σ.hist σ.dbRound c (ct c)).2 else none) := by
  unfold dbCreatorParams crParams
  rw [dbCreator_spec ct σ h c (ct c), creatorAt_eq_raw ct σ.hist h.wf]
  cases hc : creatorRaw σ.hist σ.dbRound c with
  | none => cases wp <;> rfl
  | some ca =>
    simp only [Option.bind_some]
    cases wp with
    | false => rfl
    | true =>
      simp only [if_true]
      rw [h.dbR ca c]
      cases hrow : rowOf ct c (resAt σ.hist σ.dbRound ca c (ct c)) with
      | none => rw [rowOf_none ct _ _ hrow]; rfl
      | some crow =>
        obtain ⟨e1, _⟩ := rowOf_some ct _ _ crow hrow
        simp [e1, ResRow.proj]

/-! ### sorted insertion -/

theorem insertSorted_perm (x : Nat) (l : List Nat) : (insertSorted x l).Perm (x :: l) := by
  induction l with
  | nil => exact List.Perm.refl _
  | cons y t ih =>
    unfold insertSorted
    split
    · exact List.Perm.refl _
    · exact (List.Perm.cons y ih).trans (List.Perm.swap x y t)

theorem insertSorted_sorted (x : Nat) (l : List Nat) (h : l.Pairwise (fun a b => a ≤ b)) :
    (insertSorted x l).Pairwise (fun a b => a ≤ b) := by
  induction l with
  | nil => simp [insertSorted]
  | cons y t ih =>
    unfold insertSorted
    rw [List.pairwise_cons] at h
    split
    · next hxy =>
      rw [List.pairwise_cons]
      refine ⟨?_, List.pairwise_cons.mpr h⟩
      intro b hb
      rcases List.mem_cons.mp hb with e | hb
      · omega
      · have := h.1 b hb; omega
    · next hxy =>
      rw [List.pairwise_cons]
      refine ⟨?_, ih h.2⟩
      intro b hb
      rcases List.mem_cons.mp ((insertSorted_perm x t).mem_iff.mp hb) with e | hb
      · omega
      · exact h.1 b hb

theorem insFold_spec (ks : List Nat) (acc : List Nat) (h : acc.Pairwise (fun a b => a ≤ b)) :
    (ks.foldl (fun acc k => insertSorted k acc) acc).Perm (ks ++ acc) ∧
    (ks.foldl (fun acc k => insertSorted k acc) acc).Pairwise (fun a b => a ≤ b) := by
  induction ks generalizing acc with
  | nil => exact ⟨List.Perm.refl _, h⟩
  | cons k t ih =>
    simp only [List.foldl_cons]
    obtain ⟨h1, h2⟩ := ih (insertSorted k acc) (insertSorted_sorted k acc h)
    refine ⟨h1.trans ?_, h2⟩
    have := (insertSorted_perm k acc).append_left t
    exact this.trans (List.perm_middle)

/-! ### the result loop with its early exit -/

/-- the loop body `step` of the model, verbatim -/
def prStep (limit : Nat) (listed : ResItem → Bool) (needDb : Bool) (acc : List ResItem × Nat × Bool) (c : Cidx) (mk : Unit → ResItem) :
    List ResItem × Nat × Bool :=
  let (result, resultMaxID, stop) := acc
  if stop then acc
  else if result.length ≥ limit && resultMaxID < c then (result, resultMaxID, true)
  else
    let _ := needDb
    let it := mk ()
    if listed it then (result ++ [it], max resultMaxID c, false) else acc

theorem length_filter_append_ge {α : Type} (p : α → Bool) (l e : List α) : (l.filter p).length ≤ ((l ++ e).filter p).length := by
  rw [List.filter_append, List.length_append]; omega

/-- loop invariant: `resultMaxID` bounds the ids collected; once stopped, the result is full and every remaining id is larger -/
def LoopInv (limit : Nat) (acc : List ResItem × Nat × Bool) (cs : List Nat) : Prop :=
  (∀ it ∈ acc.1, it.cidx ≤ acc.2.1) ∧ (acc.2.2 = true → limit ≤ acc.1.length ∧ ∀ c ∈ cs, acc.2.1 < c)

theorem loop_spec (limit : Nat) (listed : ResItem → Bool) (nd reset : Bool) (mk : Nat → ResItem) (hmk : ∀ c, (mk c).cidx = c)
    (cs : List Nat) (hs : cs.Pairwise (fun a b => a ≤ b)) (acc : List ResItem × Nat × Bool) (hJ : LoopInv limit acc cs) :
    ∃ sub : List Nat, sub.Sublist cs ∧
      (cs.foldl (fun acc c => prStep limit listed nd (if reset then (acc.1, acc.2.1, false) else acc) c (fun _ => mk c)) acc).1 =
        acc.1 ++ sub.map mk ∧
      (∀ c ∈ sub, listed (mk c) = true) ∧
      (∀ it ∈ (cs.foldl (fun acc c => prStep limit listed nd (if reset then (acc.1, acc.2.1, false) else acc) c (fun _ => mk c)) acc).1,
        it.cidx ≤ (cs.foldl (fun acc c => prStep limit listed nd (if reset then (acc.1, acc.2.1, false) else acc) c (fun _ => mk c)) acc).2.1) ∧
      (∀ c ∈ cs, listed (mk c) = true →
        mk c ∈ (cs.foldl (fun acc c => prStep limit listed nd (if reset then (acc.1, acc.2.1, false) else acc) c (fun _ => mk c)) acc).1 ∨
        limit ≤ ((cs.foldl (fun acc c => prStep limit listed nd (if reset then (acc.1, acc.2.1, false) else acc) c (fun _ => mk c)) acc).1.filter
          (fun it => it.cidx < c)).length) := by
  induction cs generalizing acc with
  | nil => exact ⟨[], List.Sublist.refl _, by simp, by simp, hJ.1, by simp⟩
  | cons c cs ih =>
    rw [List.pairwise_cons] at hs
    simp only [List.foldl_cons]
    obtain ⟨r, m, s⟩ := acc
    obtain ⟨hJ1, hJ2⟩ := hJ
    simp only [] at hJ1 hJ2
    -- when everything in `r` is below c and r is full, c is accounted for whatever follows
    have hfull : ∀ (fin : List ResItem) (e : List ResItem), fin = r ++ e → limit ≤ r.length → m < c →
        limit ≤ (fin.filter (fun it => it.cidx < c)).length := by
      intro fin e hfin hlen hm
      rw [hfin]
      refine Nat.le_trans ?_ (length_filter_append_ge _ r e)
      have : r.filter (fun it => decide (it.cidx < c)) = r := by
        rw [List.filter_eq_self]; intro it hit; have := hJ1 it hit; simp; comega
      rw [this]; exact hlen
    -- the state after the (possible) reset
    have hstep : prStep limit listed nd (if reset then (((r, m, s) : List ResItem × Nat × Bool).1, ((r, m, s) : List ResItem × Nat × Bool).2.1, false) else (r, m, s)) c (fun _ => mk c) =
        if (reset = false ∧ s = true) then (r, m, s)
        else if limit ≤ r.length ∧ m < c then (r, m, true)
        else if listed (mk c) = true then (r ++ [mk c], max m c, false)
        else (r, m, if reset then false else s) := by
      cases reset <;> cases s <;> simp [prStep]
    rw [hstep]
    by_cases h1 : reset = false ∧ s = true
    · rw [if_pos h1]
      obtain ⟨hlen, hlt⟩ := hJ2 h1.2
      obtain ⟨sub, hsub, hfin, hl, hb, hcov⟩ := ih hs.2 (r, m, s) ⟨hJ1, fun _ => ⟨hlen, fun c' hc' => hlt c' (by simp [hc'])⟩⟩
      refine ⟨sub, hsub.cons _, hfin, hl, hb, ?_⟩
      intro c' hc' hlc
      rcases List.mem_cons.mp hc' with e | hc'
      · subst e; right; exact hfull _ _ hfin hlen (hlt c' (by simp))
      · exact hcov c' hc' hlc
    · rw [if_neg h1]
      by_cases h2 : limit ≤ r.length ∧ m < c
      · rw [if_pos h2]
        obtain ⟨sub, hsub, hfin, hl, hb, hcov⟩ := ih hs.2 (r, m, true)
          ⟨hJ1, fun _ => ⟨h2.1, fun c' hc' => by have := hs.1 c' hc'; have := h2.2; simp only []; comega⟩⟩
        refine ⟨sub, hsub.cons _, hfin, hl, hb, ?_⟩
        intro c' hc' hlc
        rcases List.mem_cons.mp hc' with e | hc'
        · subst e; right; exact hfull _ _ hfin h2.1 h2.2
        · exact hcov c' hc' hlc
      · rw [if_neg h2]
        by_cases h3 : listed (mk c) = true
        · rw [if_pos h3]
          obtain ⟨sub, hsub, hfin, hl, hb, hcov⟩ := ih hs.2 (r ++ [mk c], max m c, false)
            ⟨by
              intro it hit
              rcases List.mem_append.mp hit with hit | hit
              · have := hJ1 it hit; simp only []; comega
              · simp at hit; subst hit; rw [hmk c]; simp only []; comega,
             by intro e; simp at e⟩
          refine ⟨c :: sub, hsub.cons_cons _, by rw [hfin]; simp, ?_, hb, ?_⟩
          · intro c' hc'
            rcases List.mem_cons.mp hc' with e | hc'
            · subst e; exact h3
            · exact hl c' hc'
          · intro c' hc' hlc
            rcases List.mem_cons.mp hc' with e | hc'
            · subst e; left; rw [hfin]; simp
            · exact hcov c' hc' hlc
        · rw [if_neg h3]
          obtain ⟨sub, hsub, hfin, hl, hb, hcov⟩ := ih hs.2 (r, m, if reset then false else s)
            ⟨hJ1, by
              intro e
              cases reset with
              | true => simp at e
              | false => simp only [Bool.false_eq_true, if_false] at e; exact absurd ⟨rfl, e⟩ h1⟩
          refine ⟨sub, hsub.cons _, hfin, hl, hb, ?_⟩
          intro c' hc' hlc
          rcases List.mem_cons.mp hc' with e | hc'
          · subst e; exact absurd hlc h3
          · exact hcov c' hc' hlc

end AlgoVerif.Lemmas.PageRes
