import AlgoVerif.Lemmas.PlayerBisimRound
import AlgoVerif.Lemmas.PlayerInvOps
/-!
C07 restore bisimulation, part 3: the root router and the player-level queries respect "equal persisted image"
(`SRel τ σ : persistView τ = persistView σ`) as long as only rounds ≥ player.Round are addressed.
-/
namespace AlgoVerif.Lemmas.Player
open AlgoVerif.Model AlgoVerif.Model.Player

/-- two machine states with the same persisted image -/
def SRel (τ σ : State) : Prop := persistView τ = persistView σ

theorem SRel.pl {τ σ : State} (h : SRel τ σ) : τ.pl = σ.pl :=
  (congrArg State.pl (show persistView τ = persistView σ from h) :)

theorem SRel.rounds {τ σ : State} (h : SRel τ σ) : E σ.pl.round τ.root.rounds = E σ.pl.round σ.root.rounds := by
  have h1 := h.pl
  have h2 : (persistView τ).root.rounds = (persistView σ).root.rounds := congrArg (fun s => s.root.rounds) (show persistView τ = persistView σ from h)
  simp only [persistView_eq] at h2
  rw [h1] at h2; exact h2

theorem SRel.mk {τ σ : State} (hp : τ.pl = σ.pl) (hr : E σ.pl.round τ.root.rounds = E σ.pl.round σ.root.rounds) : SRel τ σ := by
  unfold SRel
  simp only [persistView_eq, hp, hr]

theorem SRel.refl (σ : State) : SRel σ σ := rfl
theorem SRel.symm {τ σ : State} (h : SRel τ σ) : SRel σ τ := Eq.symm h
theorem SRel.trans {a b c : State} (h1 : SRel a b) (h2 : SRel b c) : SRel a c := Eq.trans h1 h2

theorem erel_of_erel2 {σ α : Type} {R : σ → σ → Prop} {x y : Except Panic (σ × α)} (h : ERel2 R Eq x y) : ERel R x y := by
  unfold ERel2 at h; unfold ERel
  split <;> simp_all

theorem erel2_of_erel {σ α : Type} {R : σ → σ → Prop} {x y : Except Panic (σ × α)} (h : ERel R x y) : ERel2 R Eq x y := by
  unfold ERel at h; unfold ERel2
  split <;> simp_all

/-- `rootRouter.update` preserves the relation (whatever round it is made for) -/
theorem Root.upd_rel (P : Params) (pl : PlayerF) {ra rb : Root} (h : E pl.round ra.rounds = E pl.round rb.rounds) (r : Nat) :
    E pl.round (Root.upd P pl ra r).rounds = E pl.round (Root.upd P pl rb r).rounds := by
  have e1 := Root.upd_E P pl ra.rounds r
  have e2 := Root.upd_E P pl rb.rounds r
  rw [show (⟨ra.rounds⟩ : Root) = ra from rfl] at e1
  rw [show (⟨rb.rounds⟩ : Root) = rb from rfl] at e2
  rw [e1, e2, h]

/-- a round-level machine that respects `RRel`, run through `rootRouter.dispatch` for a round the erasure keeps -/
theorem atRound_rel2 {α : Type} {S : α → α → Prop} (P : Params) (pl : PlayerF) {ra rb : Root}
    (h : E pl.round ra.rounds = E pl.round rb.rounds) {r : Nat} (hr : r ≥ pl.round) (p : Nat)
    {f : RoundR → Except Panic (RoundR × α)} (hf : ∀ x y, RRel x y → ERel2 RRel S (f x) (f y)) :
    ERel2 (fun a b : Root => E pl.round a.rounds = E pl.round b.rounds) S
      (Root.atRound P pl ra r p f) (Root.atRound P pl rb r p f) := by
  unfold Root.atRound
  simp only []
  have hU := Root.upd_rel P pl h r
  have hg : (aget (Root.upd P pl ra r).rounds r).map RoundR.persist = (aget (Root.upd P pl rb r).rounds r).map RoundR.persist := by
    have e1 := aget_E pl.round (Root.upd P pl ra r).rounds r
    have e2 := aget_E pl.round (Root.upd P pl rb r).rounds r
    rw [if_pos hr] at e1 e2
    rw [← e1, ← e2, hU]
  cases ha : aget (Root.upd P pl ra r).rounds r with
  | none =>
    rw [ha] at hg
    cases hb : aget (Root.upd P pl rb r).rounds r with
    | none => trivial
    | some y => rw [hb] at hg; cases hg
  | some x =>
    rw [ha] at hg
    cases hb : aget (Root.upd P pl rb r).rounds r with
    | none => rw [hb] at hg; cases hg
    | some y =>
      rw [hb] at hg
      simp only [Option.map_some, Option.some.injEq] at hg
      simp only []
      rcases (hf _ _ (RRel.upd hg pl p)).cases with ⟨e, e', h1, h2⟩ | ⟨x', y', u, w, h1, h2, hxy, huw⟩
      · rw [h1, h2]; trivial
      · rw [h1, h2]
        refine ⟨?_, huw⟩
        show E pl.round (aset _ r x') = E pl.round (aset _ r y')
        rw [E_aset_ge hr, E_aset_ge hr, hU, hxy]

/-- the common shape of the player-level queries -/
theorem liftRound_rel2 {α : Type} {S : α → α → Prop} (P : Params) {τ σ : State} (h : SRel τ σ) {r : Nat} (hr : r ≥ σ.pl.round)
    (p : Nat) {f : RoundR → Except Panic (RoundR × α)} (hf : ∀ x y, RRel x y → ERel2 RRel S (f x) (f y)) :
    ERel2 SRel S (liftRoot τ (τ.root.atRound P σ.pl r p f)) (liftRoot σ (σ.root.atRound P σ.pl r p f)) := by
  rcases (atRound_rel2 P σ.pl h.rounds hr p hf).cases with ⟨e, e', h1, h2⟩ | ⟨a, b, u, w, h1, h2, hab, huw⟩
  · rw [h1, h2]; trivial
  · rw [h1, h2]
    exact ⟨SRel.mk h.pl hab, huw⟩

theorem liftRound_rel {α : Type} (P : Params) {τ σ : State} (h : SRel τ σ) {r : Nat} (hr : r ≥ σ.pl.round)
    (p : Nat) {f : RoundR → Except Panic (RoundR × α)} (hf : ∀ x y, RRel x y → ERel RRel (f x) (f y)) :
    ERel SRel (liftRoot τ (τ.root.atRound P σ.pl r p f)) (liftRoot σ (σ.root.atRound P σ.pl r p f)) :=
  erel_of_erel2 (liftRound_rel2 P h hr p (fun x y hxy => erel2_of_erel (hf x y hxy)))

/-! ### queries -/

theorem staged_rel (P : Params) {τ σ : State} (h : SRel τ σ) {r : Nat} (hr : r ≥ σ.pl.round) (p : Nat) :
    ERel SRel (staged P τ r p) (staged P σ r p) := by
  rw [staged_eq, staged_eq, h.pl]
  exact liftRound_rel P h hr p (fun x y hxy => readStaging_rel hxy σ.pl p)

theorem pinned_rel (P : Params) {τ σ : State} (h : SRel τ σ) {r : Nat} (hr : r ≥ σ.pl.round) :
    ERel SRel (pinned P τ r) (pinned P σ r) := by
  rw [pinned_eq, pinned_eq, h.pl]
  refine liftRound_rel P h hr 0 (fun x y hxy => ?_)
  rw [hxy.store]; exact ERel.ok hxy

theorem freshest_rel (P : Params) {τ σ : State} (h : SRel τ σ) {r : Nat} (hr : r ≥ σ.pl.round) :
    ERel SRel (freshest P τ r) (freshest P σ r) := by
  rw [freshest_eq, freshest_eq, h.pl]
  refine liftRound_rel P h hr 0 (fun x y hxy => ?_)
  rw [hxy.okf, hxy.freshest]; exact ERel.ok hxy

theorem nextStatus_rel (P : Params) {τ σ : State} (h : SRel τ σ) : ERel SRel (nextStatus P τ) (nextStatus P σ) := by
  rw [nextStatus_eq, nextStatus_eq, h.pl]
  refine liftRound_rel P h (Nat.le_refl _) _ (fun x y hxy => atPeriod_rel hxy σ.pl _ 0 (fun u v huv => ?_))
  rw [huv.cached]; exact ERel.ok huv

theorem freeze_rel {x y : PeriodR} (h : PRel x y) : ERel PRel x.freeze y.freeze := by
  unfold PeriodR.freeze
  have hl : x.ptracker.freezer.lowestValue = y.ptracker.freezer.lowestValue := by
    unfold Seeker.lowestValue; rw [h.lowest]
  rw [h.ptContract, hl]
  split
  · exact ERel.err
  split
  · exact ERel.err
  · refine ERel.ok ?_
    have h1 := h.steps; have h2 := h.cached; have h3 := h.duplicate; have h4 := h.lowest; have h6 := h.staging
    unfold PRel PeriodR.persist
    simp only []
    rw [h1, h2, h3, h4, h6]

theorem freezeProposal_rel (P : Params) {τ σ : State} (h : SRel τ σ) : ERel SRel (freezeProposal P τ) (freezeProposal P σ) := by
  rw [freezeProposal_eq, freezeProposal_eq, h.pl]
  exact liftRound_rel P h (Nat.le_refl _) _ (fun x y hxy => atPeriod_rel hxy σ.pl _ 0 (fun u v huv => freeze_rel huv))

theorem SRel.updRoot (P : Params) {τ σ : State} (h : SRel τ σ) (rt : Nat) :
    SRel { τ with root := τ.root.upd P τ.pl rt } { σ with root := σ.root.upd P σ.pl rt } := by
  refine SRel.mk h.pl ?_
  show E σ.pl.round (Root.upd P τ.pl τ.root rt).rounds = E σ.pl.round (Root.upd P σ.pl σ.root rt).rounds
  rw [h.pl]
  exact Root.upd_rel P σ.pl h.rounds rt

theorem dumpVotes_eq (P : Params) (σ : State) (s : Nat) :
    dumpVotes P σ s = liftRoot σ (σ.root.atRound P σ.pl σ.pl.round σ.pl.period
      (fun rr => rr.atPeriod σ.pl σ.pl.period s (fun pr => pr.atStep s (fun sr => .ok (sr, sr.dump σ.pl.round σ.pl.period s))))) := by
  unfold dumpVotes liftRoot; simp only []; split <;> simp_all

theorem dumpVotes_rel (P : Params) {τ σ : State} (h : SRel τ σ) (s : Nat) : ERel SRel (dumpVotes P τ s) (dumpVotes P σ s) := by
  rw [dumpVotes_eq, dumpVotes_eq, h.pl]
  exact liftRound_rel P h (Nat.le_refl _) _ (fun x y hxy => atPeriod_rel hxy σ.pl _ s (fun u v huv => atStep_rel huv s _))

theorem Root.upd_present (P : Params) (pl : PlayerF) (root : Root) {r : Nat} (hk : keepRound P pl r = true) :
    ∃ rr, aget (root.upd P pl r).rounds r = some rr := by
  unfold Root.upd
  simp only []
  rw [aget_filter_key _ (keepRound P pl), hk]
  cases hg : aget root.rounds r with
  | some rr => exact ⟨rr, by simp [hg]⟩
  | none =>
    refine ⟨{}, ?_⟩
    simp only [if_true]
    rw [aget_append, hg]
    simp [aget, List.lookup]

theorem RoundR.upd_present (pl : PlayerF) (rr : RoundR) (p : Nat) : ∃ pr, aget (rr.upd pl p).periods p = some pr := by
  cases hg : aget rr.periods p with
  | some pr => exact ⟨pr, RoundR.upd_aget_of_some hg⟩
  | none =>
    refine ⟨{}, ?_⟩
    unfold RoundR.upd
    simp only [hg, aget_aset_self]

/-- touching (round `r`, period 0) without changing anything but the tree shape: never fails for a round within
`credentialRoundLag`, and only the entry of `r` changes -/
theorem touch_total (P : Params) (pl : PlayerF) (root : Root) {r : Nat} (hk : keepRound P pl r = true) :
    ∃ rr', Root.atRound P pl root r 0 (fun rr => rr.atPeriod pl 0 0 (fun pr => .ok (pr, ()))) =
      .ok (⟨aset (root.upd P pl r).rounds r rr'⟩, ()) := by
  unfold Root.atRound
  simp only []
  obtain ⟨rr, hrr⟩ := Root.upd_present P pl root hk
  rw [hrr]
  simp only []
  unfold RoundR.atPeriod
  simp only []
  obtain ⟨pr, hpr⟩ := RoundR.upd_present pl (rr.upd pl 0) 0
  rw [hpr]
  exact ⟨_, rfl⟩

/-- the tree side effect of `updateCredentialArrivalHistory` (it touches round − credentialRoundLag, which the erasure
drops unless credentialRoundLag = 0) respects the relation -/
theorem credHistoryTouch_rel (P : Params) {τ σ : State} (h : SRel τ σ) :
    (∃ e e', credHistoryTouch P τ = .error e ∧ credHistoryTouch P σ = .error e') ∨
    (∃ τ' σ', credHistoryTouch P τ = .ok τ' ∧ credHistoryTouch P σ = .ok σ' ∧ SRel τ' σ') := by
  unfold credHistoryTouch
  rw [h.pl]
  by_cases h1 : σ.pl.period ≠ 0
  · rw [if_pos h1, if_pos h1]; exact Or.inr ⟨τ, σ, rfl, rfl, h⟩
  rw [if_neg h1, if_neg h1]
  by_cases h2 : σ.pl.round ≤ P.lag
  · rw [if_pos h2, if_pos h2]; exact Or.inr ⟨τ, σ, rfl, rfl, h⟩
  rw [if_neg h2, if_neg h2]
  simp only []
  have hk : keepRound P σ.pl (σ.pl.round - P.lag) = true := by unfold keepRound; simp; omega
  obtain ⟨t', ht⟩ := touch_total P σ.pl τ.root hk
  obtain ⟨s', hs⟩ := touch_total P σ.pl σ.root hk
  rw [ht, hs]
  simp only []
  by_cases hl : P.lag = 0
  · -- the player's own round: the general lemma
    have hr : σ.pl.round - P.lag ≥ σ.pl.round := by omega
    have := atRound_rel2 (S := Eq) P σ.pl h.rounds hr 0 (f := fun rr => rr.atPeriod σ.pl 0 0 (fun pr => .ok (pr, ())))
      (fun x y hxy => erel2_of_erel (atPeriod_rel hxy σ.pl 0 0 (fun u v huv => ERel.ok huv)))
    rw [ht, hs] at this
    exact Or.inr ⟨_, _, rfl, rfl, SRel.mk rfl this.1⟩
  · have hlt : σ.pl.round - P.lag < σ.pl.round := by omega
    refine Or.inr ⟨_, _, rfl, rfl, SRel.mk rfl ?_⟩
    show E σ.pl.round (aset _ _ t') = E σ.pl.round (aset _ _ s')
    rw [E_aset_lt hlt, E_aset_lt hlt]
    exact Root.upd_rel P σ.pl h.rounds _

end AlgoVerif.Lemmas.Player
