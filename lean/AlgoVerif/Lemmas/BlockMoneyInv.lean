/-
Lemmas.BlockMoneyInv — an invariant of the modelled evaluator needed by C18 at block level:
no NotParticipating account holds a vote key (`NoKeyedNonPart`).

`validateExpiredOnlineAccounts` accepts an account on the expired list when it has a vote key whose last valid round has passed;
it does not look at the status.  `ClearOnlineState` then sets the status to Offline — harmless for Online / Offline accounts,
but a NotParticipating account would start to earn rewards.  Under `EnableKeyregCoherencyCheck` a key registration that goes
NotParticipating carries no vote key (WellFormed), every other modelled operation keeps status and vote key, closing an account
zeroes it: so the invariant is kept by the rewards withdrawal and by every accepted transaction group.
-/
import AlgoVerif.Lemmas.LedgerCoreGroup
import AlgoVerif.Model.BlockMoney
namespace AlgoVerif.Lemmas.BlockMoney
open AlgoVerif.Model.LedgerCore AlgoVerif.Lemmas.LedgerCore AlgoVerif.Model AlgoVerif.Model.BlockMoney

/-- a NotParticipating record has no vote key -/
def Keyless (a : Account) : Prop := a.status = .notPart → a.voteId = 0

/-- no account seen through layer `l` is NotParticipating with a vote key -/
def NoKeyedNonPart (x : Ctx) (l : Layer) : Prop := ∀ a, Keyless (acctOf x l a)

theorem keyless_zero : Keyless Account.zero := fun h => by cases h

theorem keyless_same {a v : Account} (h : Keyless a) (hs : v.status = a.status) (hk : v.voteId = a.voteId) : Keyless v :=
  fun e => by rw [hk]; exact h (hs ▸ e)

theorem nk_putAcct {x : Ctx} {l : Layer} (h : NoKeyedNonPart x l) (a : Addr) {v : Account} (hv : Keyless v) :
    NoKeyedNonPart x (putAcct l a v) := by
  intro b
  rw [acctOf_putAcct]
  split
  · exact hv
  · exact h b

theorem nk_putHoldingD {x : Ctx} {l : Layer} (h : NoKeyedNonPart x l) (k : ResKey) (d : Delta Holding) :
    NoKeyedNonPart x (putHoldingD x l k d) := fun b => h b
theorem nk_putParamsD {x : Ctx} {l : Layer} (h : NoKeyedNonPart x l) (k : ResKey) (d : Delta AssetParams) :
    NoKeyedNonPart x (putParamsD x l k d) := fun b => h b
theorem nk_putCreatable {x : Ctx} {l : Layer} (h : NoKeyedNonPart x l) (i : AssetId) (cr : Addr) (c : Bool) :
    NoKeyedNonPart x (putCreatable l i cr c) := fun b => h b

theorem nk_congr {x : Ctx} {l l' : Layer} (hc : ∀ b, acctOf x l' b = acctOf x l b) (h : NoKeyedNonPart x l) :
    NoKeyedNonPart x l' := fun b => by rw [hc b]; exact h b

theorem withRewards_keys {P : Params} {a a' : Account} (h : withRewards P a = .ok a') :
    a'.status = a.status ∧ a'.voteId = a.voteId := by
  unfold withRewards at h
  split at h
  · cases h; exact ⟨rfl, rfl⟩
  · split at h
    · cases h
    · simp only at h
      split at h
      · cases h
      · split at h
        · cases h
        · cases h; exact ⟨rfl, rfl⟩

theorem autoHeartbeat_keys (P : Params) (b a : Account) :
    (autoHeartbeat P b a).status = a.status ∧ (autoHeartbeat P b a).voteId = a.voteId := by
  rcases autoHeartbeat_eq P b a with h | h <;> rw [h] <;> exact ⟨rfl, rfl⟩

/-- the record `Move` writes for one side keeps status and vote key of the record it read -/
theorem keyless_moved {P : Params} {old new : Account} (bal : Nat) (hw : withRewards P old = .ok new) (hk : Keyless old) :
    Keyless (autoHeartbeat P old { new with bal := bal }) := by
  obtain ⟨h1, h2⟩ := withRewards_keys hw
  obtain ⟨a1, a2⟩ := autoHeartbeat_keys P old { new with bal := bal }
  exact keyless_same hk (a1.trans h1) (a2.trans h2)

theorem move_nk {P : Params} {x : Ctx} {l l' : Layer} {s d : Addr} {amt : Nat}
    (h : move P x l s d amt = .ok l') (hn : NoKeyedNonPart x l) : NoKeyedNonPart x l' := by
  unfold move at h
  simp only at h
  split at h
  · cases h
  · rename_i fromNew hwf
    split at h
    · cases h
    · rename_i l1 h1
      have n1 : NoKeyedNonPart x l1 := by
        split at h1
        · split at h1
          · cases h1
          · cases h1; exact nk_putAcct hn s (keyless_moved _ hwf (hn s))
        · cases h1; exact hn
      split at h
      · cases h
      · rename_i toNew hwt
        split at h
        · split at h
          · cases h
          · cases h; exact nk_putAcct n1 d (keyless_moved _ hwt (n1 d))
        · cases h; exact n1

theorem takeFee_nk {P : Params} {x : Ctx} {l l' : Layer} {t : Txn}
    (h : takeFee P x l t = .ok l') (hn : NoKeyedNonPart x l) : NoKeyedNonPart x l' := by
  unfold takeFee at h
  split at h
  · cases h
  · rename_i l1 hm
    have := move_nk hm hn
    split at h
    · cases h; exact this
    · cases h; exact nk_congr (fun b => acctOf_fees x l1 _ b) this

theorem payment_nk {P : Params} {x : Ctx} {l l' : Layer} {t : Txn}
    (h : payment P x l t = .ok l') (hn : NoKeyedNonPart x l) : NoKeyedNonPart x l' := by
  unfold payment at h
  simp only at h
  split at h
  · cases h
  · rename_i l1 h1
    have n1 : NoKeyedNonPart x l1 := by
      split at h1
      · exact move_nk h1 hn
      · cases h1; exact hn
    split at h
    · cases h; exact n1
    · split at h
      · cases h
      · split at h
        · cases h
        · rename_i l2 h2
          have n2 := move_nk h2 n1
          split at h
          · cases h
          · split at h
            · cases h
            · split at h
              · cases h
              · split at h
                · cases h
                · cases h; exact nk_putAcct n2 _ keyless_zero

/-- what `WellFormed` guarantees for a key registration under the coherency check: vote and selection key are both empty or
both present -/
theorem keyreg_coherent {P : Params} {t : Txn} (hcoh : P.keyregCoherency = true) (hwf : keyregWellFormed P t = true) :
    t.votePK = 0 ∨ t.selPK ≠ 0 := by
  unfold keyregWellFormed at hwf
  split at hwf
  · cases hwf
  · split at hwf
    · cases hwf
    · rename_i hc
      by_cases hv : t.votePK = 0
      · exact Or.inl hv
      · right
        intro hs
        apply hc
        refine ⟨hcoh, Or.inr (Or.inl ?_)⟩
        intro hab
        rcases hab with ⟨a, _, _⟩ | ⟨_, b, _⟩
        · exact hv a
        · exact b hs

theorem keyreg_nk {P : Params} {x : Ctx} {l l' : Layer} {t : Txn} (hcoh : P.keyregCoherency = true)
    (hwf : keyregWellFormed P t = true) (h : keyreg P x l t = .ok l') (hn : NoKeyedNonPart x l) : NoKeyedNonPart x l' := by
  unfold keyreg at h
  simp only at h
  split at h
  · cases h
  · split at h
    · rename_i hz
      split at h
      · cases h
      · cases h
        apply nk_putAcct hn
        intro _
        show t.votePK = 0
        rcases keyreg_coherent hcoh hwf with h0 | h1
        · exact h0
        · rcases hz with h0 | h0
          · exact h0
          · exact absurd h0 h1
    · split at h
      · cases h
      · split at h
        · cases h
        · cases h
          apply nk_putAcct hn
          intro e
          exfalso
          revert e
          split <;> simp

/-! asset transactions keep status and vote key of every account -/

theorem keyless_counters {a v : Account} (h : Keyless a) (hs : v.status = a.status) (hk : v.voteId = a.voteId) : Keyless v :=
  keyless_same h hs hk

theorem acctOf_takeOut {x : Ctx} {l l' : Layer} {a : Addr} {i : AssetId} {amt : Nat} {b : Bool}
    (h : takeOut x l a i amt b = .ok l') (c : Addr) : acctOf x l' c = acctOf x l c := by
  unfold takeOut at h
  split at h
  · cases h; rfl
  · split at h
    · cases h
    · split at h
      · cases h
      · split at h
        · cases h
        · cases h; rfl

theorem acctOf_putIn {x : Ctx} {l l' : Layer} {a : Addr} {i : AssetId} {amt : Nat} {b : Bool}
    (h : putIn x l a i amt b = .ok l') (c : Addr) : acctOf x l' c = acctOf x l c := by
  unfold putIn at h
  split at h
  · cases h; rfl
  · split at h
    · cases h
    · split at h
      · cases h
      · split at h
        · cases h
        · cases h; rfl

theorem assetConfig_nk {P : Params} {x : Ctx} {l l' : Layer} {t : Txn} {ctr : Nat}
    (h : assetConfig P x l t ctr = .ok l') (hn : NoKeyedNonPart x l) : NoKeyedNonPart x l' := by
  unfold assetConfig at h
  simp only at h
  split at h
  · split at h
    · cases h
    · split at h
      · cases h
      · cases h
        apply nk_putCreatable; apply nk_putHoldingD; apply nk_putParamsD; apply nk_putAcct hn
        exact keyless_same (hn t.sender) rfl rfl
  · split at h
    · cases h
    · split at h
      · cases h
      · split at h
        · split at h
          · cases h
          · split at h
            · cases h
            · split at h
              · cases h
              · split at h
                · cases h
                · cases h
                  apply nk_putParamsD; apply nk_putHoldingD; apply nk_putCreatable; apply nk_putAcct hn
                  exact keyless_same (hn _) rfl rfl
        · cases h
          exact nk_putParamsD hn _ _

theorem optIn_nk {P : Params} {x : Ctx} {l l' : Layer} {t : Txn} {s : Addr} {c : Bool}
    (h : optIn P x l t s c = .ok l') (hn : NoKeyedNonPart x l) : NoKeyedNonPart x l' := by
  unfold optIn at h
  split at h
  · split at h
    · cases h; exact hn
    · split at h
      · cases h
      · simp only at h
        split at h
        · cases h
        · cases h
          apply nk_putHoldingD; apply nk_putAcct hn
          exact keyless_same (hn s) rfl rfl
  · cases h; exact hn

theorem assetClose_nk {x : Ctx} {l l' : Layer} {t : Txn} {s : Addr} {c : Bool}
    (h : assetClose x l t s c = .ok l') (hn : NoKeyedNonPart x l) : NoKeyedNonPart x l' := by
  unfold assetClose at h
  split at h
  · cases h; exact hn
  · split at h
    · cases h
    · simp only at h
      split at h
      · cases h
      · split at h
        · cases h
        · split at h
          · cases h
          · split at h
            · cases h
            · rename_i l1 h1
              split at h
              · cases h
              · rename_i l2 h2
                split at h
                · cases h
                · split at h
                  · cases h
                  · cases h
                    have n2 : NoKeyedNonPart x l2 :=
                      nk_congr (fun b => (acctOf_putIn h2 b).trans (acctOf_takeOut h1 b)) hn
                    apply nk_putHoldingD; apply nk_putAcct n2
                    exact keyless_same (hn s) rfl rfl

theorem assetTransfer_nk {P : Params} {x : Ctx} {l l' : Layer} {t : Txn}
    (h : assetTransfer P x l t = .ok l') (hn : NoKeyedNonPart x l) : NoKeyedNonPart x l' := by
  unfold assetTransfer at h
  split at h
  · cases h
  · split at h
    · cases h
    · rename_i l1 h1
      split at h
      · cases h
      · rename_i l2 h2
        split at h
        · cases h
        · rename_i l3 h3
          have n1 := optIn_nk h1 hn
          have n3 : NoKeyedNonPart x l3 := nk_congr (fun b => (acctOf_putIn h3 b).trans (acctOf_takeOut h2 b)) n1
          exact assetClose_nk h n3

theorem assetFreeze_nk {x : Ctx} {l l' : Layer} {t : Txn}
    (h : assetFreeze x l t = .ok l') (hn : NoKeyedNonPart x l) : NoKeyedNonPart x l' := by
  unfold assetFreeze at h
  split at h
  · cases h
  · split at h
    · cases h
    · split at h
      · cases h
      · cases h; exact nk_putHoldingD hn _ _

/-! transactions, groups, the payset -/

theorem wellFormed_keyreg {P : Params} {t : Txn} (hk : t.kind = .keyreg) (h : wellFormed P t = true) :
    keyregWellFormed P t = true := by
  unfold wellFormed at h
  simp only [hk, Bool.and_eq_true] at h
  exact h.1.1.1.1

theorem applyTxn_nk {P : Params} {x : Ctx} {l l' : Layer} {t : Txn} {ctr : Nat} (hcoh : P.keyregCoherency = true)
    (hwf : wellFormed P t = true) (h : applyTxn P x l t ctr = .ok l') (hn : NoKeyedNonPart x l) : NoKeyedNonPart x l' := by
  unfold applyTxn at h
  split at h
  · cases h
  · rename_i l1 h1
    have n1 := takeFee_nk h1 hn
    unfold applyKind at h
    split at h
    · exact payment_nk h n1
    · rename_i hk
      exact keyreg_nk hcoh (wellFormed_keyreg hk hwf) h n1
    · exact assetConfig_nk h n1
    · exact assetTransfer_nk h n1
    · exact assetFreeze_nk h n1

theorem evalTxn_nk {P : Params} {x : Ctx} {l l' : Layer} {g : List Txn} {t : Txn} (hcoh : P.keyregCoherency = true)
    (hwf : wellFormed P t = true) (h : evalTxn P x l g t = .ok l') (hn : NoKeyedNonPart x l) : NoKeyedNonPart x l' := by
  unfold evalTxn at h
  split at h
  · cases h
  · split at h
    · cases h
    · split at h
      · cases h
      · rename_i l1 h1
        split at h
        · cases h
        · cases h
          exact nk_congr (fun b => acctOf_addTx x l1 _ b) (applyTxn_nk hcoh hwf h1 hn)

theorem groupLoop_nk {P : Params} {x : Ctx} {g : List Txn} {g0 : Nat} (hcoh : P.keyregCoherency = true) :
    ∀ (ts : List Txn) (used i : Nat) (l l' : Layer), (∀ t ∈ ts, wellFormed P t = true) →
      groupLoop P x g g0 used i l ts = .ok l' → NoKeyedNonPart x l → NoKeyedNonPart x l' := by
  intro ts
  induction ts with
  | nil => intro used i l l' _ h hn; cases h; exact hn
  | cons t r ih =>
    intro used i l l' hwf h hn
    unfold groupLoop at h
    split at h
    · cases h
    · rename_i l1 h1
      split at h
      · cases h
      · split at h
        · cases h
        · split at h
          · cases h
          · exact ih _ (i + 1) l1 l' (fun t' ht' => hwf t' (List.mem_cons_of_mem _ ht')) h
              (evalTxn_nk hcoh (hwf t List.mem_cons_self) h1 hn)

theorem firstMalformed_none {P : Params} : ∀ (ts : List Txn) (i : Nat), firstMalformed P i ts = none →
    ∀ t ∈ ts, wellFormed P t = true := by
  intro ts
  induction ts with
  | nil => intro _ _ t ht; cases ht
  | cons t r ih =>
    intro i h t' ht'
    unfold firstMalformed at h
    split at h
    · rename_i hw
      rcases List.mem_cons.mp ht' with rfl | hr
      · exact hw
      · exact ih (i + 1) h t' hr
    · cases h

theorem evalGroupChild_nk {P : Params} {x : Ctx} {top child : Layer} {used : Nat} {g : List Txn} (hcoh : P.keyregCoherency = true)
    (h : evalGroupChild P x top used g = .ok child) (hn : NoKeyedNonPart x top) : NoKeyedNonPart (childCtx x top) child := by
  unfold evalGroupChild at h
  split at h
  · cases h
  · split at h
    · cases h
    · rename_i hfm
      split at h
      · cases h
      · rename_i c hc
        split at h
        · cases h
        · split at h
          · cases h
          · cases h
            exact groupLoop_nk (x := childCtx x top) hcoh g used 0 {} child (firstMalformed_none g 0 hfm) hc (fun b => hn b)

theorem evalGroup_nk {P : Params} {x : Ctx} {s s' : EvalState} {g : List Txn} (hcoh : P.keyregCoherency = true)
    (h : evalGroup P x s g = .ok s') (hn : NoKeyedNonPart x s.top) : NoKeyedNonPart x s'.top := by
  cases g with
  | nil => cases h; exact hn
  | cons t r =>
    obtain ⟨child, hc, rfl⟩ := evalGroup_ok (by simp) h
    intro b
    show Keyless (acctOf x (commitToParent child s.top) b)
    rw [acctOf_commit x child s.top (evalGroupChild_wf hc) b]
    exact evalGroupChild_nk hcoh hc hn b

theorem evalAll_nk {P : Params} {x : Ctx} (hcoh : P.keyregCoherency = true) :
    ∀ (gs : List (List Txn)) (s s' : EvalState), BlockEval.evalAll P x s gs = .ok s' →
      NoKeyedNonPart x s.top → NoKeyedNonPart x s'.top := by
  intro gs
  induction gs with
  | nil => intro s s' h hn; cases h; exact hn
  | cons g r ih =>
    intro s s' h hn
    unfold BlockEval.evalAll at h
    split at h
    · rename_i s1 hg
      exact ih s1 s' h (evalGroup_nk hcoh hg hn)
    · cases h

/-! the ledger before the block -/

theorem alookup_mem {κ ν : Type} [DecidableEq κ] {k : κ} {v : ν} : ∀ {l : List (κ × ν)}, alookup k l = some v → (k, v) ∈ l := by
  intro l
  induction l with
  | nil => intro h; cases h
  | cons hd tl ih =>
    obtain ⟨k0, v0⟩ := hd
    intro h
    rw [alookup_cons] at h
    by_cases e : k0 = k
    · rw [if_pos e] at h
      cases h; subst e
      exact List.mem_cons_self
    · rw [if_neg e] at h
      exact List.mem_cons_of_mem _ (ih h)

/-- the invariant on a committed ledger: a statement about its (finitely many) stored accounts -/
theorem nk_base (b : Base) (h : ∀ p ∈ b.accts, Keyless p.2) : NoKeyedNonPart { parents := [], base := b } {} := by
  intro a
  show Keyless (b.acct a)
  unfold Base.acct
  cases e : alookup a b.accts with
  | none => exact keyless_zero
  | some v => exact h (a, v) (alookup_mem e)

/-! the rewards withdrawal -/

theorem withdraw_nk {P : Params} {x : Ctx} {prevLevel units poolMin : Nat} {top0 : Layer}
    (h : withdraw P x prevLevel units poolMin = .ok top0) (hn : NoKeyedNonPart x {}) : NoKeyedNonPart x top0 := by
  unfold withdraw at h
  split at h
  · cases h
  · split at h
    · cases h
    · rename_i poolOld hw
      simp only at h
      split at h
      · cases h
      · split at h
        · cases h
        · cases h
          obtain ⟨h1, h2⟩ := withRewards_keys hw
          exact nk_putAcct hn _ (keyless_same (hn P.rewardsPool) h1 h2)

/-- the invariant holds on the state after the transaction groups of a block when it holds on the ledger before it -/
theorem afterGroups_nk {E : Env} {b : Block} {s : EvalState} (hcoh : E.P.keyregCoherency = true)
    (h : afterGroups E b = .ok s) (hn : NoKeyedNonPart E.ctx {}) : NoKeyedNonPart E.ctx s.top := by
  unfold afterGroups at h
  cases h0 : startBlock E b.level with
  | error e => rw [h0] at h; cases h
  | ok top0 =>
    rw [h0] at h
    have h' : groups (E.params b.level) E.ctx top0 b.groups = .ok s := h
    have n0 : NoKeyedNonPart E.ctx top0 := by
      unfold startBlock at h0
      split at h0
      · cases h0
      · exact withdraw_nk h0 hn
    unfold groups at h'
    split at h'
    · cases h'
    · rename_i s1 h1
      cases h'
      exact evalAll_nk (P := E.params b.level) hcoh b.groups _ _ h1 n0

end AlgoVerif.Lemmas.BlockMoney
