import AlgoVerif.Lemmas.AcctUpdatesPageKv
import AlgoVerif.Lemmas.AcctUpdatesPageRes
/-! C10 (model pages): the primary keys of the tracker DB tables stay unique — `commitRound` only inserts a key after deleting it
(`AMap.set`) or deletes it; every other operation leaves the DB alone. Needed because the page scans read ROWS, not `get`. -/
namespace AlgoVerif.Lemmas.PageDb
open AlgoVerif.Spec.LedgerHistory AlgoVerif.Model.AcctUpdates AlgoVerif.Lemmas.AcctUpdates
open AlgoVerif.Lemmas.PageKv AlgoVerif.Lemmas.PageRes

/-- kvstore.key and resources.(addrid, aidx) are primary keys -/
def DbKeysNodup (σ : State) : Prop := DbKvNodup σ ∧ DbResNodup σ

section amap
variable {K V : Type} [DecidableEq K]

theorem keys_del_nodup (m : AMap K V) (k : K) (h : (AMap.keys m).Nodup) : (AMap.keys (AMap.del m k)).Nodup := by
  unfold AMap.del AMap.keys at *
  exact h.sublist (List.filter_sublist.map _)

theorem not_mem_keys_del (m : AMap K V) (k : K) : k ∉ AMap.keys (AMap.del m k) := by
  intro hk
  have := get_isSome_of_mem_keys hk
  rw [get_del_self] at this
  simp at this

theorem keys_set_nodup (m : AMap K V) (k : K) (v : V) (h : (AMap.keys m).Nodup) : (AMap.keys (AMap.set m k v)).Nodup := by
  unfold AMap.set
  show ((k, v) :: AMap.del m k).map (·.1) |>.Nodup
  rw [List.map_cons, List.nodup_cons]
  exact ⟨not_mem_keys_del m k, keys_del_nodup m k h⟩

end amap

theorem exceptFold_preserves {α β : Type} (Q : β → Prop) (f : β → α → Except Err β)
    (hf : ∀ b x b', f b x = .ok b' → Q b → Q b') (l : List α) (b b' : β) (h : exceptFold f l b = .ok b') (hb : Q b) : Q b' := by
  induction l generalizing b with
  | nil => simp only [exceptFold, Except.ok.injEq] at h; subst h; exact hb
  | cons x xs ih =>
    simp only [exceptFold] at h
    cases hfx : f b x with
    | error e => rw [hfx] at h; simp at h
    | ok b1 => rw [hfx] at h; exact ih b1 h (hf b x b1 hfx hb)

theorem writeRes_keys (res : AMap (Addr × Cidx) ResRow) (k : Addr × Cidx) (old new : Option ResRow) (res' : AMap (Addr × Cidx) ResRow)
    (h : writeRes res k old new = .ok res') (hn : (AMap.keys res).Nodup) : (AMap.keys res').Nodup := by
  unfold writeRes at h
  cases old <;> cases new <;> simp only [] at h
  · simp only [Except.ok.injEq] at h; subst h; exact hn
  · split at h
    · simp at h
    · simp only [Except.ok.injEq] at h; subst h; exact keys_set_nodup _ _ _ hn
  · split at h
    · simp at h
    · simp only [Except.ok.injEq] at h; subst h; exact keys_del_nodup _ _ hn
  · split at h
    · simp at h
    · simp only [Except.ok.injEq] at h; subst h; exact keys_set_nodup _ _ _ hn

theorem kvStep_keys (acc : AMap Key Bytes × List (Key × Option Bytes)) (p : Key × List KvMod) (hn : (AMap.keys acc.1).Nodup) :
    (AMap.keys (kvStep acc p).1).Nodup := by
  rw [kvStep_split]
  simp only []
  unfold kvWrite
  split
  · split
    · exact hn
    · exact keys_set_nodup _ _ _ hn
  · split
    · exact hn
    · exact keys_del_nodup _ _ hn

theorem kvFold_keys (l : AMap Key (List KvMod)) (acc : AMap Key Bytes × List (Key × Option Bytes)) (hn : (AMap.keys acc.1).Nodup) :
    (AMap.keys (l.foldl kvStep acc).1).Nodup := by
  induction l generalizing acc with
  | nil => exact hn
  | cons p t ih => simp only [List.foldl_cons]; exact ih _ (kvStep_keys acc p hn)

theorem commitRound_keys (σ : State) (off : Nat) (out : CommitOut) (h : commitRound σ off = .ok out) (hn : DbKeysNodup σ) :
    (AMap.keys out.db.kvs).Nodup ∧ (AMap.keys out.db.res).Nodup := by
  unfold commitRound at h
  simp only [] at h
  split at h
  · simp at h
  · split at h
    · simp at h
    · next res hres =>
      split at h
      · simp at h
      · simp only [Except.ok.injEq] at h
        subst h
        simp only []
        refine ⟨kvFold_keys _ _ hn.1, ?_⟩
        exact exceptFold_preserves (fun m => (AMap.keys m).Nodup) (resStep σ)
          (fun b x b' hb hq => writeRes_keys b x.1 _ _ b' hb hq) _ _ _ hres hn.2

theorem postCommit_db (σ : State) (off : Nat) (out : CommitOut) (σ' : State) (h : postCommit σ off out = .ok σ') : σ'.db = out.db := by
  unfold postCommit at h
  split at h
  · simp at h
  · split at h
    · simp at h
    · split at h
      · simp at h
      · split at h
        · simp at h
        · simp only [Except.ok.injEq] at h; subst h; rfl

theorem commit_keys (σ : State) (off : Nat) (σ' : State) (h : commit σ off = .ok σ') (hn : DbKeysNodup σ) : DbKeysNodup σ' := by
  unfold commit at h
  split at h
  · simp only [Except.ok.injEq] at h; subst h; exact hn
  · split at h
    · simp at h
    · split at h
      · simp at h
      · cases hc : commitRound σ off with
        | error e => rw [hc] at h; simp at h
        | ok out =>
          rw [hc] at h
          simp only [] at h
          have hdb := postCommit_db σ off out σ' h
          have := commitRound_keys σ off out hc hn
          unfold DbKeysNodup DbKvNodup DbResNodup
          rw [hdb]
          exact this

theorem commitUpTo_keys (σ : State) (r : Nat) (σ' : State) (h : commitUpTo σ r = .ok σ') (hn : DbKeysNodup σ) : DbKeysNodup σ' := by
  unfold commitUpTo at h
  split at h
  · simp at h
  · simp only [Except.ok.injEq] at h; subst h; exact hn
  · exact commit_keys σ _ σ' h hn

theorem replay_db (rest : List Delta) (σ : State) : (rest.foldl newBlockTracker σ).db = σ.db := by
  induction rest generalizing σ with
  | nil => rfl
  | cons d t ih => simp only [List.foldl_cons]; rw [ih]; rfl

theorem reload_keys (σ σ' : State) (h : reload σ = .ok σ') (hn : DbKeysNodup σ) : DbKeysNodup σ' := by
  unfold reload at h
  simp only [] at h
  have h0 : DbKeysNodup ((σ.hist.blocks.drop σ.db.round).foldl newBlockTracker (loadFromDisk σ.cfg σ.hist σ.db)) := by
    unfold DbKeysNodup DbKvNodup DbResNodup
    rw [replay_db]
    exact hn
  split at h
  · exact commitUpTo_keys _ _ σ' h h0
  · simp only [Except.ok.injEq] at h; subst h; exact h0

theorem init_keys (cfg : Cfg) (gen : List (Addr × AcctData)) : DbKeysNodup (init cfg gen) := by
  unfold DbKeysNodup DbKvNodup DbResNodup init loadFromDisk initDB
  simp [AMap.keys]

theorem lookupAcct_db (σ : State) (rnd : Nat) (a : Addr) : (lookupAcct σ rnd a).2.db = σ.db := by
  unfold lookupAcct acctFromDb
  repeat' split
  all_goals rfl

theorem lookupRes_db (σ : State) (rnd : Nat) (a : Addr) (c : Cidx) (t : CType) : (lookupRes σ rnd a c t).2.db = σ.db := by
  unfold lookupRes resFromDb
  repeat' split
  all_goals rfl

theorem lookupKv_db (σ : State) (rnd : Nat) (k : Key) : (lookupKv σ rnd k).2.db = σ.db := by
  unfold lookupKv kvFromDb
  repeat' split
  all_goals rfl

end AlgoVerif.Lemmas.PageDb
